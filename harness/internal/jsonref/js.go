package jsonref

import (
	"fmt"
	"math"
	"strconv"
	"strings"
	"unicode/utf16"

	"verifh/internal/jsx"
)

// Value kinds of the JavaScript value model.
const (
	TUndef   = "undef"
	TNull    = "null"
	TBool    = "bool"
	TNum     = "num"
	TStr     = "str"
	TBigInt  = "bigint"  // primitive BigInt, decimal digits in Dec
	TSym     = "sym"     // primitive Symbol
	TFunc    = "func"    // function object; F names a catalogue function ("" = function(){})
	TObj     = "obj"     // ordinary object (P); NullProto / PTJ select its prototype
	TArr     = "arr"     // Array exotic object (E, nil = hole; P = extra non-index own properties)
	TBNum    = "bnum"    // new Number(N)
	TBStr    = "bstr"    // new String(S)
	TBBool   = "bbool"   // new Boolean(B)
	TBBig    = "bbig"    // Object(BigInt)
	TBSym    = "bsym"    // Object(Symbol())
	TDate    = "date"    // new Date(N)
	TRevoked = "revoked" // a revoked Proxy
	TCycle   = "cycle"   // reference to the container Up levels above (1 = the directly enclosing one)
)

// JS is a node of the value model. It is JSON-serialisable (cases are saved
// in replay files); numbers are stored as IEEE bit patterns.
type JS struct {
	T    string   `json:"t"`
	B    bool     `json:"b,omitempty"`
	Bits uint64   `json:"bits,omitempty"`
	S    []uint16 `json:"s,omitempty"`
	Dec  string   `json:"dec,omitempty"`
	F    string   `json:"f,omitempty"`
	P    []*Prop  `json:"p,omitempty"`
	E    []*JS    `json:"e,omitempty"`
	// prototype selection for TObj
	NullProto bool   `json:"nullproto,omitempty"`
	PTJ       string `json:"ptj,omitempty"` // Object.create({toJSON: FN[PTJ]})
	Proxy     bool   `json:"proxy,omitempty"`
	Up        int    `json:"up,omitempty"`
	Frozen    bool   `json:"frozen,omitempty"`

	target *JS // resolved TCycle
}

// Prop is an own property with a string key (or a symbol key when Sym is set).
type Prop struct {
	K       []uint16 `json:"k"`
	V       *JS      `json:"v"`
	NonEnum bool     `json:"nonenum,omitempty"`
	Getter  bool     `json:"getter,omitempty"` // accessor whose getter returns V
	Sym     bool     `json:"sym,omitempty"`    // the key is a fresh Symbol (K is its description)
}

func Undef() *JS         { return &JS{T: TUndef} }
func Null() *JS          { return &JS{T: TNull} }
func Bool(b bool) *JS    { return &JS{T: TBool, B: b} }
func Num(f float64) *JS  { return &JS{T: TNum, Bits: math.Float64bits(f)} }
func Str(s []uint16) *JS { return &JS{T: TStr, S: s} }
func StrGo(s string) *JS { return &JS{T: TStr, S: U(s)} }

// U converts a Go string to UTF-16 code units.
func U(s string) []uint16 { return utf16.Encode([]rune(s)) }

// GoString converts code units to a Go string for messages (lone surrogates become U+FFFD).
func GoString(u []uint16) string { return string(utf16.Decode(u)) }

func (v *JS) Num() float64 { return math.Float64frombits(v.Bits) }

// IsObject: the value is an ECMAScript Object (as opposed to a primitive).
func (v *JS) IsObject() bool {
	switch v.T {
	case TFunc, TObj, TArr, TBNum, TBStr, TBBool, TBBig, TBSym, TDate, TRevoked:
		return true
	}
	return false
}

// Link resolves TCycle nodes to their ancestors. It returns false if some
// reference points outside the tree.
func (v *JS) Link() bool { return v.link(nil) }

func (v *JS) link(anc []*JS) bool {
	if v == nil {
		return true
	}
	switch v.T {
	case TCycle:
		if v.Up < 1 || v.Up > len(anc) {
			return false
		}
		v.target = anc[len(anc)-v.Up]
		return true
	case TObj, TArr:
		anc = append(anc, v)
		for _, p := range v.P {
			if !p.V.link(anc) {
				return false
			}
		}
		for _, e := range v.E {
			if !e.link(anc) {
				return false
			}
		}
	}
	return true
}

func (v *JS) deref() *JS {
	for v != nil && v.T == TCycle {
		v = v.target
	}
	return v
}

// ArrayIndex returns the array index denoted by a property key: the canonical
// decimal form of an integer in [0, 2^32-2].
func ArrayIndex(k []uint16) (uint32, bool) {
	if len(k) == 0 || len(k) > 10 {
		return 0, false
	}
	if k[0] == '0' && len(k) > 1 {
		return 0, false
	}
	var n uint64
	for _, c := range k {
		if c < '0' || c > '9' {
			return 0, false
		}
		n = n*10 + uint64(c-'0')
	}
	if n > 4294967294 {
		return 0, false
	}
	return uint32(n), true
}

func (v *JS) findProp(k []uint16) int {
	for i, p := range v.P {
		if !p.Sym && eqUnits(p.K, k) {
			return i
		}
	}
	return -1
}

// OwnKeys is OrdinaryOwnPropertyKeys restricted to string keys: array indices
// in ascending numeric order, then the other strings in creation order.
// For arrays the element indices come first, then "length" is NOT included
// (it is not enumerable; callers that want it handle it themselves).
func (v *JS) OwnKeys(onlyEnumerable bool) [][]uint16 {
	type ik struct {
		n uint32
		k []uint16
	}
	var idx []ik
	var rest [][]uint16
	if v.T == TArr {
		for i, e := range v.E {
			if e != nil {
				idx = append(idx, ik{uint32(i), U(strconv.Itoa(i))})
			}
		}
	}
	for _, p := range v.P {
		if p.Sym || (onlyEnumerable && p.NonEnum) {
			continue
		}
		if n, ok := ArrayIndex(p.K); ok {
			idx = append(idx, ik{n, p.K})
		} else {
			rest = append(rest, p.K)
		}
	}
	// insertion sort (stable, small)
	for i := 1; i < len(idx); i++ {
		for j := i; j > 0 && idx[j-1].n > idx[j].n; j-- {
			idx[j-1], idx[j] = idx[j], idx[j-1]
		}
	}
	out := make([][]uint16, 0, len(idx)+len(rest))
	for _, x := range idx {
		out = append(out, x.k)
	}
	return append(out, rest...)
}

// GetOwn returns the value of an own property (through a getter if it is an
// accessor) or nil.
func (v *JS) GetOwn(k []uint16) *JS {
	if v.T == TArr {
		if n, ok := ArrayIndex(k); ok {
			if int(n) < len(v.E) && v.E[n] != nil {
				return v.E[n].deref()
			}
			return nil
		}
		if eqUnits(k, U("length")) {
			return Num(float64(len(v.E)))
		}
	}
	if v.T == TBStr {
		if n, ok := ArrayIndex(k); ok && int(n) < len(v.S) {
			return Str(v.S[n : n+1])
		}
		if eqUnits(k, U("length")) {
			return Num(float64(len(v.S)))
		}
	}
	if i := v.findProp(k); i >= 0 {
		return v.P[i].V.deref()
	}
	return nil
}

// CreateDataProperty is the abstract operation of the same name for ordinary
// objects and arrays of the model. On a frozen object it fails silently
// (returns false) like the specification's non-throwing variant.
func (v *JS) CreateDataProperty(k []uint16, val *JS) bool {
	if v.Frozen {
		return false
	}
	if v.T == TArr {
		if n, ok := ArrayIndex(k); ok {
			for int(n) >= len(v.E) {
				v.E = append(v.E, nil)
			}
			v.E[n] = val
			return true
		}
	}
	if i := v.findProp(k); i >= 0 {
		v.P[i].V = val
		v.P[i].NonEnum = false
		v.P[i].Getter = false
		return true
	}
	v.P = append(v.P, &Prop{K: k, V: val})
	return true
}

// Delete is [[Delete]] for the model; false when the object is frozen and has the property.
func (v *JS) Delete(k []uint16) bool {
	if v.T == TArr {
		if n, ok := ArrayIndex(k); ok {
			if int(n) < len(v.E) && v.E[n] != nil {
				if v.Frozen {
					return false
				}
				v.E[n] = nil
			}
			return true
		}
	}
	if i := v.findProp(k); i >= 0 {
		if v.Frozen {
			return false
		}
		v.P = append(v.P[:i:i], v.P[i+1:]...)
	}
	return true
}

// SetLength models `a.length = n` for n <= current length (and growth).
func (v *JS) SetLength(n int) {
	if v.Frozen {
		return
	}
	if n < len(v.E) {
		v.E = v.E[:n:n]
	}
	for len(v.E) < n {
		v.E = append(v.E, nil)
	}
}

func hex4(sb *strings.Builder, c uint16) {
	const h = "0123456789abcdef"
	sb.WriteByte(h[c>>12])
	sb.WriteByte(h[(c>>8)&15])
	sb.WriteByte(h[(c>>4)&15])
	sb.WriteByte(h[c&15])
}

// HexUnits prints code units as 4 hex digits each.
func HexUnits(u []uint16) string {
	var sb strings.Builder
	for _, c := range u {
		hex4(&sb, c)
	}
	return sb.String()
}

// ParseHexUnits is the inverse of HexUnits.
func ParseHexUnits(s string) ([]uint16, bool) {
	if len(s)%4 != 0 {
		return nil, false
	}
	out := make([]uint16, 0, len(s)/4)
	for i := 0; i < len(s); i += 4 {
		n, err := strconv.ParseUint(s[i:i+4], 16, 16)
		if err != nil {
			return nil, false
		}
		out = append(out, uint16(n))
	}
	return out, true
}

// Dump is the canonical structural description of a value; DumpJS (a script)
// computes the same text inside the engine under test. It shows types, own
// property keys in [[OwnPropertyKeys]] order, property attributes when they are
// not {writable, enumerable, configurable}, holes, exact number bits (so -0
// and the non-finite values are visible) and string code units.
func (v *JS) Dump() string {
	var sb strings.Builder
	v.dump(&sb, 0)
	return sb.String()
}

func numDump(f float64) string {
	if math.IsNaN(f) {
		return "#NaN"
	}
	return fmt.Sprintf("#%016x", math.Float64bits(f))
}

func (v *JS) dump(sb *strings.Builder, depth int) {
	v = v.deref()
	if depth > 64 {
		sb.WriteString("<deep>")
		return
	}
	switch v.T {
	case TUndef:
		sb.WriteString("undef")
	case TNull:
		sb.WriteString("null")
	case TBool:
		if v.B {
			sb.WriteString("true")
		} else {
			sb.WriteString("false")
		}
	case TNum:
		sb.WriteString(numDump(v.Num()))
	case TStr:
		sb.WriteByte('"')
		sb.WriteString(HexUnits(v.S))
		sb.WriteByte('"')
	case TArr:
		sb.WriteByte('[')
		for i, e := range v.E {
			if i > 0 {
				sb.WriteByte(',')
			}
			if e == nil {
				sb.WriteString("hole")
			} else {
				if v.Frozen {
					sb.WriteString("(-e-)")
				}
				e.dump(sb, depth+1)
			}
		}
		v.dumpProps(sb, depth, true)
		sb.WriteByte(']')
	case TObj:
		sb.WriteByte('{')
		v.dumpProps(sb, depth, false)
		sb.WriteByte('}')
	default:
		sb.WriteString("<" + v.T + ">")
	}
}

func (v *JS) dumpProps(sb *strings.Builder, depth int, arr bool) {
	first := !arr
	for _, k := range v.OwnKeys(false) {
		if arr {
			if _, ok := ArrayIndex(k); ok {
				continue // elements were printed already
			}
		}
		if !first || arr {
			if arr {
				sb.WriteByte(';')
			} else {
				sb.WriteByte(',')
			}
		}
		first = false
		p := v.P[v.findProp(k)]
		sb.WriteByte('"')
		sb.WriteString(HexUnits(k))
		sb.WriteString("\":")
		if p.Getter {
			sb.WriteString("(accessor)")
			continue
		}
		w, e, c := byte('w'), byte('e'), byte('c')
		if p.NonEnum {
			e = '-'
		}
		if v.Frozen {
			w, c = '-', '-'
		}
		if w != 'w' || e != 'e' || c != 'c' {
			sb.WriteByte('(')
			sb.WriteByte(w)
			sb.WriteByte(e)
			sb.WriteByte(c)
			sb.WriteByte(')')
		}
		p.V.dump(sb, depth+1)
	}
}

// DumpJS defines dump(v) (same text as (*JS).Dump for values made of
// null/booleans/numbers/strings/arrays/plain objects, with diagnostics for
// anything else: wrong prototype, symbols keys, accessors), hx(s) (code units
// of a string as hex) and the catalogue of functions FN used as toJSON
// methods, replacers and revivers.
const DumpJS = `
var LOG = [];
function hx(s){var r="";for(var i=0;i<s.length;i++){var c=s.charCodeAt(i).toString(16);r+="0000".substring(c.length)+c}return r}
var __f64=new Float64Array(1),__u32=new Uint32Array(__f64.buffer);
function nb(x){ if(x!==x) return "#NaN"; __f64[0]=x; var h=__u32[1].toString(16), l=__u32[0].toString(16); return "#"+"00000000".substring(h.length)+h+"00000000".substring(l.length)+l }
function dump(v, depth){
  depth = depth|0;
  if (depth > 64) return "<deep>";
  if (v === null) return "null";
  switch (typeof v) {
  case "undefined": return "undef";
  case "boolean": return v ? "true" : "false";
  case "number": return nb(v);
  case "string": return '"' + hx(v) + '"';
  case "object": break;
  default: return "<" + (typeof v) + ">";
  }
  var isA = Array.isArray(v), r = "", keys = Reflect.ownKeys(v), i, first = true;
  function prop(k){
    var d = Object.getOwnPropertyDescriptor(v, k), s = "";
    if (!d) return "(missing)";
    if (!("value" in d)) return "(accessor)";
    if (!(d.writable && d.enumerable && d.configurable)) s = "(" + (d.writable?"w":"-") + (d.enumerable?"e":"-") + (d.configurable?"c":"-") + ")";
    return s + dump(d.value, depth+1);
  }
  if (isA) {
    if (Object.getPrototypeOf(v) !== Array.prototype) r += "!proto";
    r += "[";
    var len = v.length;
    for (i = 0; i < len; i++) {
      if (i > 0) r += ",";
      r += Object.prototype.hasOwnProperty.call(v, i) ? prop(String(i)) : "hole";
    }
    for (i = 0; i < keys.length; i++) {
      var k = keys[i];
      if (typeof k === "symbol") { r += ";@sym"; continue; }
      if (k === "length") continue;
      if (String(k >>> 0) === k && (k >>> 0) !== 4294967295) {
        if ((k >>> 0) >= len) r += ";!index" + k;
        continue;
      }
      r += ';"' + hx(k) + '":' + prop(k);
    }
    return r + "]";
  }
  if (Object.getPrototypeOf(v) !== Object.prototype) r += "!proto";
  r += "{";
  for (i = 0; i < keys.length; i++) {
    var k = keys[i];
    if (!first) r += ",";
    first = false;
    if (typeof k === "symbol") { r += "@sym"; continue; }
    r += '"' + hx(k) + '":' + prop(k);
  }
  return r + "}";
}
function REVOKED(){ var r = Proxy.revocable([], {}); r.revoke(); return r.proxy; }
var FN = {
  // toJSON catalogue (this = the value, argument = key)
  c42:   function(k){ return 42; },
  key:   function(k){ return "K" + (typeof k) + ":" + k; },
  undef: function(k){ },
  self:  function(k){ return {v: this.a, k: k}; },
  arr:   function(k){ return [k, this.b]; },
  // replacer catalogue (this = holder, arguments = key, value)
  id:    function(k, v){ return v; },
  dropb: function(k, v){ return k === "b" ? undefined : v; },
  dbl:   function(k, v){ return typeof v === "number" ? v * 2 : v; },
  bang:  function(k, v){ return typeof v === "string" ? v + "!" : v; },
  box:   function(k, v){ return typeof v === "number" ? new Number(v) : typeof v === "string" ? new String(v) : typeof v === "boolean" ? new Boolean(v) : v; },
  wrap:  function(k, v){ return k === "" ? {w: v} : v; },
  log:   function(k, v){ LOG.push((typeof k) + ":" + k + ":" + (Array.isArray(this) ? "A" : "O")); return v; },
  nul2fn: function(k, v){ return v === null ? function(){} : v; },
  bigfix: function(k, v){ return typeof v === "bigint" ? "big:" + v : v; },
  symfix: function(k, v){ return typeof v === "symbol" ? "sym" : v; },
  undef2null: function(k, v){ return v === undefined ? null : v; },
  // reviver catalogue (this = holder, arguments = key, value)
  rlog:  function(k, v){ LOG.push((typeof k) + ":" + k + ":" + (Array.isArray(this) ? "A" : "O") + "=" + dump(v)); return v; },
  inc:   function(k, v){ return typeof v === "number" ? v + 1 : v; },
  addsib: function(k, v){ if (k === "a") this.zz = 7; if (k === "0" && Array.isArray(this)) this[this.length] = 9; return v; },
  delsib: function(k, v){ if (k === "a") delete this.b; if (k === "0" && Array.isArray(this)) delete this[1]; return v; },
  replsib: function(k, v){ if (k === "a") this.b = {n: [1, 2], a: 3}; return v; },
  trunc: function(k, v){ if (k === "0" && Array.isArray(this)) this.length = 1; return v; },
  trunc0: function(k, v){ if (k === "0" && Array.isArray(this)) this.length = 1; return v === undefined ? 0 : v; },
  hidsib: function(k, v){ if (k === "a") this.b = Object.defineProperty({n: 1}, "hid", {value: 5, enumerable: false, writable: true, configurable: true}); return typeof v === "number" ? v + 1 : v; },
  arrx: function(k, v){ if (k === "a") { var q = [1, 2]; q.x = 3; this.b = q; } return typeof v === "number" ? v + 1 : v; },
  numwrap: function(k, v){ return typeof v === "number" ? {n: v} : v; },
  frzinc: function(k, v){ if ((k === "a" || k === "0") && this.b !== null && typeof this.b === "object") Object.freeze(this.b); if (k === "0" && this[1] !== null && typeof this[1] === "object") Object.freeze(this[1]); return typeof v === "number" ? v + 1 : v; },
  frzdel: function(k, v){ if ((k === "a" || k === "0") && this.b !== null && typeof this.b === "object") Object.freeze(this.b); if (k === "0" && this[1] !== null && typeof this[1] === "object") Object.freeze(this[1]); return typeof v === "number" ? undefined : v; }
};
`

// builder turns a model value into JavaScript source that constructs it.
type builder struct {
	sb     strings.Builder
	n      int
	stack  []string
	ascii  bool
	prefix string
}

// Source returns statements that construct v followed by the name of the
// variable (or an expression) holding it. asciiOnly chooses \u escapes for
// all non-ASCII characters in string literals.
func Source(v *JS, asciiOnly bool, prefix string) (stmts string, expr string) {
	b := &builder{ascii: asciiOnly, prefix: prefix}
	e := b.expr(v)
	return b.sb.String(), e
}

func (b *builder) strLit(u []uint16) string { return jsx.StrLit(u, b.ascii) }

func fnExpr(id string) string {
	if id == "" {
		return "function(){}"
	}
	return "FN." + id
}

func (b *builder) expr(v *JS) string {
	switch v.T {
	case TUndef:
		return "undefined"
	case TNull:
		return "null"
	case TBool:
		if v.B {
			return "true"
		}
		return "false"
	case TNum:
		return jsx.NumLit(v.Num())
	case TStr:
		return b.strLit(v.S)
	case TBigInt:
		return "(" + v.Dec + "n)"
	case TSym:
		return `Symbol("s")`
	case TFunc:
		return fnExpr(v.F)
	case TBNum:
		return "new Number(" + jsx.NumLit(v.Num()) + ")"
	case TBStr:
		return "new String(" + b.strLit(v.S) + ")"
	case TBBool:
		if v.B {
			return "new Boolean(true)"
		}
		return "new Boolean(false)"
	case TBBig:
		return "Object(" + v.Dec + "n)"
	case TBSym:
		return `Object(Symbol("s"))`
	case TDate:
		return "new Date(" + jsx.NumLit(v.Num()) + ")"
	case TRevoked:
		return "REVOKED()"
	case TCycle:
		if v.Up >= 1 && v.Up <= len(b.stack) {
			return b.stack[len(b.stack)-v.Up]
		}
		return "undefined"
	case TObj, TArr:
		name := b.prefix + strconv.Itoa(b.n)
		b.n++
		var create string
		switch {
		case v.T == TArr:
			create = "[]"
		case v.NullProto:
			create = "Object.create(null)"
		case v.PTJ != "":
			create = "Object.create({toJSON: " + fnExpr(v.PTJ) + "})"
		default:
			create = "{}"
		}
		if v.Proxy {
			create = "new Proxy(" + create + ", {})"
		}
		fmt.Fprintf(&b.sb, "var %s = %s;\n", name, create)
		b.stack = append(b.stack, name)
		if v.T == TArr {
			for i, e := range v.E {
				if e == nil {
					continue
				}
				x := b.expr(e)
				fmt.Fprintf(&b.sb, "%s[%d] = %s;\n", name, i, x)
			}
			if n := len(v.E); n > 0 && v.E[n-1] == nil {
				fmt.Fprintf(&b.sb, "%s.length = %d;\n", name, n)
			}
		}
		for _, p := range v.P {
			x := b.expr(p.V)
			key := b.strLit(p.K)
			if p.Sym {
				key = "Symbol(" + key + ")"
			}
			switch {
			case p.Getter:
				g := b.prefix + "g" + strconv.Itoa(b.n)
				b.n++
				fmt.Fprintf(&b.sb, "var %s = %s;\nObject.defineProperty(%s, %s, {get: function(){ return %s; }, enumerable: %v, configurable: true});\n", g, x, name, key, g, !p.NonEnum)
			case p.NonEnum || eqUnits(p.K, U("__proto__")):
				fmt.Fprintf(&b.sb, "Object.defineProperty(%s, %s, {value: %s, writable: true, enumerable: %v, configurable: true});\n", name, key, x, !p.NonEnum)
			default:
				fmt.Fprintf(&b.sb, "%s[%s] = %s;\n", name, key, x)
			}
		}
		if v.Frozen {
			fmt.Fprintf(&b.sb, "Object.freeze(%s);\n", name)
		}
		b.stack = b.stack[:len(b.stack)-1]
		return name
	}
	return "undefined"
}
