// Package evid is the per-process side of the verification driver: it owns
// the counters a check reports as evidence, the known-findings matcher, the
// replay-file writer and the glue that runs a rapid property under the seed and
// case count the driver asked for.
package evid

import (
	"encoding/binary"
	"encoding/json"
	"flag"
	"fmt"
	"hash/fnv"
	"os"
	"path/filepath"
	"sort"
	"strconv"
	"strings"
	"sync"
	"testing"
	"time"

	"pgregory.net/rapid"
)

// Failure describes one violated case. Case must be JSON-serialisable and
// sufficient for the package's replay function to re-judge it.
type Failure struct {
	Check    string      `json:"check"`
	Key      string      `json:"key"` // classification used for known-finding matching
	Msg      string      `json:"msg"`
	Case     interface{} `json:"case"`
	Expected interface{} `json:"expected,omitempty"`
	Observed interface{} `json:"observed,omitempty"`
}

func (f *Failure) Error() string { return f.Check + ": " + f.Msg }

type knownEntry struct {
	Property string `json:"property"`
	Key      string `json:"key"`
	Status   string `json:"status"`
	Commit   string `json:"commit,omitempty"`
	What     string `json:"what"`
}

type shardOut struct {
	Property    string            `json:"property"`
	Shard       int               `json:"shard"`
	Evaluations int64             `json:"evaluations"`
	Nontrivial  int64             `json:"nontrivial"`
	Classes     map[string]int64  `json:"classes"`
	Samples     []json.RawMessage `json:"samples"`
	KnownHits   map[string]int64  `json:"known_hits"`
	Excluded    map[string]int64  `json:"excluded"`
	Violations  int               `json:"violations"`
	HashFile    string            `json:"hash_file"`
	Checks      map[string]int64  `json:"checks"`
	Notes       []string          `json:"notes"`
}

var (
	mu          sync.Mutex
	propertyID  string
	tier               = "quick"
	baseSeed    uint64 = 1
	shard       int
	nshards     = 1
	outPath     string
	verifDir    = "/verif"
	known       []knownEntry
	knownLoaded bool

	evals      int64
	nontriv    int64
	hashes     = map[uint64]struct{}{}
	classes    = map[string]int64{}
	knownHits  = map[string]int64{}
	excluded   = map[string]int64{}
	checksRun  = map[string]int64{}
	samples    []json.RawMessage
	sampleKeys = map[string]int{}
	notes      []string
	violations int
	lastFail   *Failure
	scale      = 1.0
)

// Init must be called from TestMain (or the top of the first test).
func Init(id string) {
	propertyID = id
	if v := os.Getenv("VERIF_TIER"); v != "" {
		tier = v
	}
	if v := os.Getenv("VERIF_SEED"); v != "" {
		if n, err := strconv.ParseUint(v, 10, 64); err == nil {
			baseSeed = n
		} else if n, err := strconv.ParseInt(v, 10, 64); err == nil {
			baseSeed = uint64(n)
		}
	}
	if baseSeed == 0 {
		baseSeed = 1
	}
	if v := os.Getenv("VERIF_SHARD"); v != "" {
		shard, _ = strconv.Atoi(v)
	}
	if v := os.Getenv("VERIF_NSHARDS"); v != "" {
		nshards, _ = strconv.Atoi(v)
		if nshards < 1 {
			nshards = 1
		}
	}
	if v := os.Getenv("VERIF_DIR"); v != "" {
		verifDir = v
	}
	if v := os.Getenv("VERIF_SCALE"); v != "" {
		if f, err := strconv.ParseFloat(v, 64); err == nil && f > 0 {
			scale = f
		}
	}
	outPath = os.Getenv("VERIF_OUT")
	loadKnown()
}

func Tier() string     { return tier }
func Thorough() bool   { return tier == "thorough" }
func Shard() int       { return shard }
func NShards() int     { return nshards }
func Seed() uint64     { return baseSeed }
func VerifDir() string { return verifDir }

func loadKnown() {
	if knownLoaded {
		return
	}
	knownLoaded = true
	b, err := os.ReadFile(filepath.Join(verifDir, "known_findings.json"))
	if err != nil {
		return
	}
	var doc struct {
		Findings []knownEntry `json:"findings"`
	}
	if err := json.Unmarshal(b, &doc); err != nil {
		fmt.Fprintf(os.Stderr, "evid: cannot parse known_findings.json: %v\n", err)
		os.Exit(2)
	}
	known = doc.Findings
}

func splitmix(x uint64) uint64 {
	x += 0x9e3779b97f4a7c15
	z := x
	z = (z ^ (z >> 30)) * 0xbf58476d1ce4e5b9
	z = (z ^ (z >> 27)) * 0x94d049bb133111eb
	return z ^ (z >> 31)
}

func strHash(s string) uint64 {
	h := fnv.New64a()
	h.Write([]byte(s))
	return h.Sum64()
}

// DeriveSeed gives the rapid seed for a named sub-check in this shard.
func DeriveSeed(name string) uint64 {
	s := splitmix(baseSeed ^ splitmix(uint64(shard)+1) ^ strHash(name))
	if s == 0 {
		s = 1
	}
	return s
}

// Count bumps a class counter (generator label distribution).
func Count(class string) {
	mu.Lock()
	classes[class]++
	mu.Unlock()
}

func CountN(class string, n int64) {
	mu.Lock()
	classes[class] += n
	mu.Unlock()
}

// Excluded counts a case dropped by construction / outside the quantifier.
func Excluded(why string) {
	mu.Lock()
	excluded[why]++
	mu.Unlock()
}

// ExcludedN adds n to an exclusion counter.
func ExcludedN(why string, n int64) {
	mu.Lock()
	excluded[why] += n
	mu.Unlock()
}

// Case records one evaluated case. text is the canonical case text (used for
// the distinctness hash); nontrivial is the property's stated rule.
func Case(text string, nontrivial bool) {
	mu.Lock()
	evals++
	if nontrivial {
		nontriv++
		hashes[strHash(text)] = struct{}{}
	}
	mu.Unlock()
}

// Sample keeps up to perClass verbatim sample cases per class label.
func Sample(class string, v interface{}) {
	mu.Lock()
	defer mu.Unlock()
	if sampleKeys[class] >= 2 || len(samples) >= 12 {
		return
	}
	b, err := json.Marshal(map[string]interface{}{"class": class, "case": v})
	if err != nil {
		return
	}
	sampleKeys[class]++
	samples = append(samples, b)
}

func Note(s string) {
	mu.Lock()
	notes = append(notes, s)
	mu.Unlock()
}

// Known reports whether a failure key is listed as a *known* (unfixed) finding
// for this property. A hit prints the KNOWN-FINDING line once per process and
// is counted; the caller must then treat the case as passed so that the search
// continues.
func Known(key string) bool {
	mu.Lock()
	defer mu.Unlock()
	for _, k := range known {
		if k.Property == propertyID && k.Status == "known" && k.Key == key {
			if knownHits[key] == 0 {
				fmt.Printf("KNOWN-FINDING: property=%s %s [%s]\n", propertyID, k.What, key)
			}
			knownHits[key]++
			return true
		}
	}
	return false
}

// Report is called by a property function when a case fails. It returns true
// if the failure is a listed known finding (the caller then returns normally);
// otherwise it remembers the failure (the last one remembered is the shrunk
// one) and returns false — the caller must then fail the rapid test.
func Report(f *Failure) bool {
	if f == nil {
		return true
	}
	if Known(f.Key) {
		return true
	}
	mu.Lock()
	lastFail = f
	mu.Unlock()
	return false
}

// Judge is the usual tail of a property: fail the rapid case unless the
// failure is nil or known.
func Judge(t *rapid.T, f *Failure) {
	if f == nil {
		return
	}
	if Report(f) {
		return
	}
	t.Fatalf("%s [%s]: %s", f.Check, f.Key, f.Msg)
}

// Check runs prop under rapid with n cases (scaled by tier and VERIF_SCALE),
// seeded deterministically from VERIF_SEED, the shard and the name.
// thoroughMul is the per-shard multiplier for the thorough tier.
func Check(t *testing.T, name string, n int, thoroughMul float64, prop func(*rapid.T)) {
	t.Helper()
	cnt := float64(n)
	if Thorough() {
		cnt *= thoroughMul
	} else {
		cnt /= float64(nshards)
	}
	cnt *= scale
	if cnt < 1 {
		cnt = 1
	}
	flag.Set("rapid.checks", strconv.Itoa(int(cnt)))
	flag.Set("rapid.seed", strconv.FormatUint(DeriveSeed(name), 10))
	flag.Set("rapid.nofailfile", "true")
	if flag.Lookup("rapid.shrinktime") != nil && os.Getenv("VERIF_SHRINKTIME") != "" {
		flag.Set("rapid.shrinktime", os.Getenv("VERIF_SHRINKTIME"))
	}
	t.Run(name, func(t *testing.T) {
		start := time.Now()
		defer func() {
			mu.Lock()
			checksRun[name] += int64(time.Since(start) / time.Millisecond)
			mu.Unlock()
			if t.Failed() {
				flushViolation(name)
			}
		}()
		rapid.Check(t, prop)
	})
}

// Direct fails the test for a failure found outside rapid (enumerations,
// replay of saved inputs). Known findings are skipped.
func Direct(t *testing.T, f *Failure) {
	if f == nil {
		return
	}
	if Report(f) {
		return
	}
	flushViolation(f.Check)
	t.Errorf("%s [%s]: %s", f.Check, f.Key, f.Msg)
}

func flushViolation(name string) {
	mu.Lock()
	f := lastFail
	lastFail = nil
	violations++
	mu.Unlock()
	if f == nil {
		// not a verdict about the property: a panic in the generator/oracle code or a rapid
		// health error. The test still fails, the driver maps that to exit 2 (infrastructure).
		fmt.Fprintf(os.Stderr, "HARNESS-ERROR property=%s check=%s: test failed without a judged failure (see test output)\n", propertyID, name)
		mu.Lock()
		violations--
		mu.Unlock()
		return
	}
	doc := map[string]interface{}{
		"property": propertyID,
		"tier":     tier,
		"seed":     baseSeed,
		"shard":    shard,
		"failure":  f,
	}
	b, _ := json.MarshalIndent(doc, "", " ")
	dir := filepath.Join(verifDir, "replay", propertyID)
	os.MkdirAll(dir, 0o755)
	path := filepath.Join(dir, fmt.Sprintf("%016x.json", strHash(string(b))))
	if err := os.WriteFile(path, b, 0o644); err != nil {
		fmt.Fprintf(os.Stderr, "evid: cannot write replay file: %v\n", err)
	}
	fmt.Printf("VIOLATION property=%s replay=%s\n", propertyID, path)
	fmt.Printf("  detail: %s [%s] %s\n", f.Check, f.Key, strings.ReplaceAll(f.Msg, "\n", "\n    "))
}

// SetCurrent records the case about to be executed in $VERIF_WD/current.json so
// that the driver can turn a process death (fatal error, unrecoverable panic)
// into a replayable violation. check is the sub-check name.
func SetCurrent(check string, c interface{}) {
	wd := os.Getenv("VERIF_WD")
	if wd == "" {
		return
	}
	doc := map[string]interface{}{
		"property": propertyID, "tier": tier, "seed": baseSeed, "shard": shard,
		"failure": &Failure{Check: check, Key: "process-death", Msg: "the test process died while executing this case", Case: c},
	}
	b, err := json.Marshal(doc)
	if err != nil {
		return
	}
	os.WriteFile(filepath.Join(wd, "current.json"), b, 0o644)
}

// ClearCurrent removes the marker written by SetCurrent.
func ClearCurrent() {
	if wd := os.Getenv("VERIF_WD"); wd != "" {
		os.Remove(filepath.Join(wd, "current.json"))
	}
}

// LoadReplay reads a replay file and returns the failure record's check name
// and raw case.
func LoadReplay(path string) (check string, rawCase json.RawMessage, err error) {
	b, err := os.ReadFile(path)
	if err != nil {
		return "", nil, err
	}
	var doc struct {
		Failure struct {
			Check string          `json:"check"`
			Case  json.RawMessage `json:"case"`
		} `json:"failure"`
	}
	if err := json.Unmarshal(b, &doc); err != nil {
		return "", nil, err
	}
	return doc.Failure.Check, doc.Failure.Case, nil
}

// Finish writes this process's counters for the driver to merge. Call it from
// TestMain after m.Run().
func Finish() {
	if outPath == "" {
		return
	}
	mu.Lock()
	defer mu.Unlock()
	hs := make([]uint64, 0, len(hashes))
	for h := range hashes {
		hs = append(hs, h)
	}
	sort.Slice(hs, func(i, j int) bool { return hs[i] < hs[j] })
	hb := make([]byte, 8*len(hs))
	for i, h := range hs {
		binary.LittleEndian.PutUint64(hb[i*8:], h)
	}
	hf := outPath + ".hashes"
	os.WriteFile(hf, hb, 0o644)
	out := shardOut{
		Property: propertyID, Shard: shard, Evaluations: evals, Nontrivial: nontriv,
		Classes: classes, Samples: samples, KnownHits: knownHits, Excluded: excluded,
		Violations: violations, HashFile: hf, Checks: checksRun, Notes: notes,
	}
	b, _ := json.Marshal(out)
	os.WriteFile(outPath, b, 0o644)
}

// Main is a ready-made TestMain body.
func Main(id string, m *testing.M) {
	Init(id)
	code := m.Run()
	Finish()
	os.Exit(code)
}
