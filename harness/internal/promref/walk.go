package promref

// Visitor callbacks are invoked in pre-order; a callback may edit the slices of
// the node it is given (the walk descends afterwards).
type Visitor struct {
	Seg      func(*Seg)
	Op       func(*Op)
	Val      func(*Val)
	Handler  func(h *Handler, finally bool)
	Thenable func(*Thenable)
	Act      func(*Act)
	Stmt     func(*Stmt)
}

func (v *Visitor) acts(in []Act) {
	for i := range in {
		a := &in[i]
		if v.Act != nil {
			v.Act(a)
		}
		v.val(a.V)
		v.ops(a.Ops)
	}
}

func (v *Visitor) ops(in []Op) {
	for i := range in {
		v.op(&in[i])
	}
}

func (v *Visitor) val(x *Val) {
	if x == nil {
		return
	}
	if v.Val != nil {
		v.Val(x)
	}
	if t := x.T; t != nil {
		if v.Thenable != nil {
			v.Thenable(t)
		}
		v.acts(t.Acts)
		v.val(t.GV)
	}
	if x.Op != nil {
		v.op(x.Op)
	}
}

func (v *Visitor) handler(h *Handler, finally bool) {
	if h == nil {
		return
	}
	if v.Handler != nil {
		v.Handler(h, finally)
	}
	v.acts(h.Acts)
	v.val(&h.V)
}

func (v *Visitor) stmts(in []Stmt) {
	for i := range in {
		s := &in[i]
		if v.Stmt != nil {
			v.Stmt(s)
		}
		v.val(s.X)
		v.stmts(s.Body)
		v.stmts(s.Catch)
		v.stmts(s.Fin)
	}
}

func (v *Visitor) op(o *Op) {
	if v.Op != nil {
		v.Op(o)
	}
	v.acts(o.Acts)
	v.val(o.V)
	v.val(o.Src)
	for i := range o.Links {
		l := &o.Links[i]
		v.handler(&l.A, l.K == "finally")
		v.handler(l.B, false)
	}
	for i := range o.Items {
		v.val(&o.Items[i])
	}
	v.stmts(o.Body)
	v.ops(o.Ops)
}

// Walk visits every node of a case.
func Walk(c *Case, v *Visitor) {
	for i := range c.Segs {
		s := &c.Segs[i]
		if v.Seg != nil {
			v.Seg(s)
		}
		v.ops(s.Ops)
		v.acts(s.Acts)
		v.stmts(s.Body)
		v.val(s.V)
	}
}
