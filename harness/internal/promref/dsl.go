// Package promref is an executable model of the ECMA-262 promise machinery
// (27.2 Promise Objects, Await, async function start/return) with ONE FIFO job
// queue that is drained when the outermost call from the host returns. It
// interprets programs of a small promise DSL and predicts the exact global log,
// the HostPromiseRejectionTracker calls and the state of every promise
// variable. The same DSL programs are printed as JavaScript by Print* and run
// on the engine under test. The package does not import the engine.
package promref

import (
	"fmt"
	"strconv"
	"strings"
)

// Val is a DSL value expression.
//
//	undef            undefined
//	int  I           small integer
//	str  S           short string
//	var  I           promise variable pI (must have been assigned earlier in program order)
//	arg              the argument of the innermost enclosing handler (v)
//	self S           the promise returned by the then/catch/finally link with SelfID S
//	then T           a fresh thenable object literal
//	op   Op          a promise-producing expression (resolve/reject/all/.../chain/async)
type Val struct {
	K  string    `json:"k"`
	I  int       `json:"i,omitempty"`
	S  string    `json:"s,omitempty"`
	T  *Thenable `json:"t,omitempty"`
	Op *Op       `json:"op,omitempty"`
}

// Thenable describes an object literal {id:ID, then:...}.
type Thenable struct {
	ID    string `json:"id"`
	Get   string `json:"get,omitempty"` // "" data property; "throw" getter logs then throws GV; "fn" getter logs then returns the function
	GV    *Val   `json:"gv,omitempty"`
	NonFn bool   `json:"nonfn,omitempty"` // then is the number 5 (not callable)
	Ctor  bool   `json:"ctor,omitempty"`  // the literal also has constructor: Promise
	// Native: then is the host (Go) function N.<ID>; it logs ID and performs Acts (res/rej/settle with
	// undef/int/str/var values) through the Go API (goja.Callable / NewPromise functions).
	Native bool  `json:"native,omitempty"`
	Acts   []Act `json:"acts,omitempty"` // body of then(a,b) after its log
}

// Act is one statement in an executor, thenable then, or handler body.
//
//	res/rej  call the function's own first/second argument with V (executor, thenable)
//	settle   call the stashed resolve (Rej=false) / reject (Rej=true) function of capability Cap with V
//	throw    throw V
//	intr     interruptNow()
//	eval     V;   (an op expression evaluated for its effects, e.g. attaching a reaction from inside a job)
//	nested   nested("<script of Ops>"): a host function that runs the script with Runtime.RunString
type Act struct {
	K   string `json:"k"`
	Cap int    `json:"cap,omitempty"`
	Rej bool   `json:"rej,omitempty"`
	V   *Val   `json:"v,omitempty"`
	Ops []Op   `json:"ops,omitempty"`
}

// Handler is an argument of then/catch/finally.
type Handler struct {
	K     string `json:"k"` // fn | undef | num
	ID    string `json:"id,omitempty"`
	Acts  []Act  `json:"acts,omitempty"` // settle / intr only
	Throw bool   `json:"throw,omitempty"`
	V     Val    `json:"v"`
	// Native: the handler is the host (Go) function N.<ID>: logs (ID, argument), performs Acts (settle with
	// undef/int/str/var values) through the Go API and returns its argument (V must be arg, Throw false).
	Native bool `json:"native,omitempty"`
}

type Link struct {
	K      string   `json:"k"` // then | catch | finally
	A      Handler  `json:"a"`
	B      *Handler `json:"b,omitempty"` // second argument of then
	SelfID string   `json:"self,omitempty"`
}

// Stmt is a statement of an async function body.
//
//	log     log(ID)
//	await   log(ID, await X)
//	settle  R[Cap](X) / J[Cap](X)
//	intr    interruptNow()
//	try     try { Body } catch (e) { log(ID, e); Catch } [finally { Fin }]   (NoCatch: try { Body } finally { Fin })
//	return  return X
//	throw   throw X
type Stmt struct {
	K       string `json:"k"`
	ID      string `json:"id,omitempty"`
	X       *Val   `json:"x,omitempty"`
	Cap     int    `json:"cap,omitempty"`
	Rej     bool   `json:"rej,omitempty"`
	Body    []Stmt `json:"body,omitempty"`
	Fin     []Stmt `json:"fin,omitempty"`
	Catch   []Stmt `json:"catch,omitempty"`
	NoCatch bool   `json:"nocatch,omitempty"`
}

// Op is a top-level operation or (for the promise-producing kinds) an expression.
//
//	new        pDst = new Promise(function(res,rej){ log(ID); R[Cap]=res; J[Cap]=rej; Acts })
//	settle     R[Cap](V) / J[Cap](V)
//	chain      pDst = Src.then(..).catch(..).finally(..)
//	resolve    pDst = Promise.resolve(V)      reject: Promise.reject(V)
//	all|allSettled|race|any   pDst = Promise.K([Items])
//	async      pDst = (async function(){ log(ID); Body })()
//	intr       interruptNow()
//	throw      throw V            (only as the last op of a segment: the call returns an exception, the jobs still run)
//	nested     nested("<script of Ops>")   (ops without Dst; RunString called while a script is running)
//	patch      give promise variable V (a var) an own "then": a function that logs ID, performs Acts (res/rej call
//	           the onFulfilled/onRejected argument synchronously if it is callable) and
//	           calls through to Promise.prototype.then; with Getter it is installed as an accessor whose
//	           getter logs "g"+ID first. Makes every lookup/call of "then" on that promise observable.
//	noctor     V.constructor = undefined  (V a var): PromiseResolve(%Promise%, V) no longer returns V itself,
//	           so await V / Promise.resolve(V) / combinators wrap it (thenable job, calls V.then)
type Op struct {
	K      string `json:"k"`
	Dst    int    `json:"dst"`
	Cap    int    `json:"cap,omitempty"`
	ID     string `json:"id,omitempty"`
	Acts   []Act  `json:"acts,omitempty"`
	Rej    bool   `json:"rej,omitempty"`
	V      *Val   `json:"v,omitempty"`
	Src    *Val   `json:"src,omitempty"`
	Links  []Link `json:"links,omitempty"`
	Items  []Val  `json:"items,omitempty"`
	Body   []Stmt `json:"body,omitempty"`
	Arrow  bool   `json:"arrow,omitempty"`  // (async () => {..})()
	Meth   bool   `json:"method,omitempty"` // ({async m(){..}}).m()
	Ops    []Op   `json:"ops,omitempty"`
	Getter bool   `json:"getter,omitempty"`
}

// Seg is one outermost call from the host.
//
//	run        Runtime.RunString(script of Ops)
//	call       the Ops are the body of a global function segN (defined by the setup script) called through goja.Callable
//	gonew      pDst, R/J[Cap] = Runtime.NewPromise()   (no call into the runtime; R/J[Cap] are host functions
//	           that call the Go resolving functions, so JS code can settle the promise from inside a run)
//	gosettle   call the Go resolve/reject function of Go capability Cap with V
//	callsettle call the exported JS resolving function R[Cap]/J[Cap] as goja.Callable with V
//
//	acall      pDst = result of calling the global async function segN(){ log(ID); Body } through goja.Callable
//	rtnew      pDst = Runtime.New(Promise, executor)        executor = function(a,b){ log(ID); R[Cap]=a; J[Cap]=b; Acts }
//	ctor       pDst = AssertConstructor(Promise)(nil, executor)
type Seg struct {
	K    string `json:"k"`
	Ops  []Op   `json:"ops,omitempty"`
	ID   string `json:"id,omitempty"`
	Body []Stmt `json:"body,omitempty"`
	Acts []Act  `json:"acts,omitempty"`
	Dst  int    `json:"dst"`
	Cap  int    `json:"cap,omitempty"`
	Rej  bool   `json:"rej,omitempty"`
	V    *Val   `json:"v,omitempty"` // for go segments: undef | int | str | var | then
}

type Case struct {
	Segs []Seg `json:"segs"`
}

const NVars = 5

// ---------------------------------------------------------------- printer

func jsStr(s string) string { return strconv.Quote(s) }

type printer struct{ sb strings.Builder }

func (p *printer) f(format string, a ...interface{}) { fmt.Fprintf(&p.sb, format, a...) }

func (p *printer) val(v *Val) {
	if v == nil {
		p.f("undefined")
		return
	}
	switch v.K {
	case "undef":
		p.f("undefined")
	case "int":
		p.f("%d", v.I)
	case "str":
		p.f("%s", jsStr(v.S))
	case "var":
		p.f("p%d", v.I)
	case "arg":
		p.f("v")
	case "self":
		p.f("S.%s", v.S)
	case "then":
		p.thenable(v.T)
	case "op":
		p.opExpr(v.Op)
	default:
		panic("promref: bad val kind " + v.K)
	}
}

func (p *printer) acts(acts []Act) {
	for i := range acts {
		a := &acts[i]
		switch a.K {
		case "res":
			p.f(" a(")
			p.val(a.V)
			p.f(");")
		case "rej":
			p.f(" b(")
			p.val(a.V)
			p.f(");")
		case "settle":
			if a.Rej {
				p.f(" J[%d](", a.Cap)
			} else {
				p.f(" R[%d](", a.Cap)
			}
			p.val(a.V)
			p.f(");")
		case "throw":
			p.f(" throw ")
			p.val(a.V)
			p.f(";")
		case "intr":
			p.f(" interruptNow();")
		case "eval":
			p.f(" ")
			p.val(a.V)
			p.f(";")
		case "nested":
			p.f(" nested(%s);", jsStr(PrintOps(a.Ops)))
		default:
			panic("promref: bad act kind " + a.K)
		}
	}
}

func (p *printer) thenable(t *Thenable) {
	p.f("{id:%s", jsStr(t.ID))
	if t.Ctor {
		p.f(", constructor:Promise")
	}
	fn := func() {
		p.f("function(a,b){ log(%s, this.id);", jsStr(t.ID))
		p.acts(t.Acts)
		p.f(" }")
	}
	switch {
	case t.Native:
		p.f(", then:N.%s}", t.ID)
	case t.NonFn:
		p.f(", then:5}")
	case t.Get == "throw":
		p.f(", get then(){ log(%s); throw ", jsStr("g"+t.ID))
		p.val(t.GV)
		p.f("; }}")
	case t.Get == "fn":
		p.f(", get then(){ log(%s); return ", jsStr("g"+t.ID))
		fn()
		p.f("; }}")
	default:
		p.f(", then:")
		fn()
		p.f("}")
	}
}

func (p *printer) handler(h *Handler, finally bool) {
	if h == nil {
		p.f("undefined")
		return
	}
	switch h.K {
	case "undef":
		p.f("undefined")
	case "num":
		p.f("7")
	case "fn":
		if h.Native {
			p.f("N.%s", h.ID)
			return
		}
		if finally {
			p.f("function(v){ log(%s, arguments.length);", jsStr(h.ID))
		} else {
			p.f("function(v){ log(%s, v);", jsStr(h.ID))
		}
		p.acts(h.Acts)
		if h.Throw {
			p.f(" throw ")
		} else {
			p.f(" return ")
		}
		p.val(&h.V)
		p.f("; }")
	default:
		panic("promref: bad handler kind " + h.K)
	}
}

func (p *printer) stmts(ss []Stmt) {
	for i := range ss {
		s := &ss[i]
		switch s.K {
		case "log":
			p.f(" log(%s);", jsStr(s.ID))
		case "await":
			p.f(" log(%s, await ", jsStr(s.ID))
			p.val(s.X)
			p.f(");")
		case "settle":
			if s.Rej {
				p.f(" J[%d](", s.Cap)
			} else {
				p.f(" R[%d](", s.Cap)
			}
			p.val(s.X)
			p.f(");")
		case "intr":
			p.f(" interruptNow();")
		case "try":
			p.f(" try {")
			p.stmts(s.Body)
			p.f(" }")
			if !s.NoCatch || len(s.Fin) == 0 {
				p.f(" catch (e) { log(%s, e);", jsStr(s.ID))
				p.stmts(s.Catch)
				p.f(" }")
			}
			if len(s.Fin) > 0 {
				p.f(" finally {")
				p.stmts(s.Fin)
				p.f(" }")
			}
		case "return":
			p.f(" return ")
			p.val(s.X)
			p.f(";")
		case "throw":
			p.f(" throw ")
			p.val(s.X)
			p.f(";")
		default:
			panic("promref: bad stmt kind " + s.K)
		}
	}
}

// opExpr prints a promise-producing op as an expression.
func (p *printer) opExpr(o *Op) {
	switch o.K {
	case "new":
		p.f("new Promise(function(a,b){ log(%s); R[%d]=a; J[%d]=b;", jsStr(o.ID), o.Cap, o.Cap)
		p.acts(o.Acts)
		p.f(" })")
	case "resolve", "reject":
		p.f("Promise.%s(", o.K)
		p.val(o.V)
		p.f(")")
	case "all", "allSettled", "race", "any":
		p.f("Promise.%s([", o.K)
		for i := range o.Items {
			if i > 0 {
				p.f(", ")
			}
			p.val(&o.Items[i])
		}
		p.f("])")
	case "chain":
		// ((S.x = src.then(..)).catch(..))
		var pre strings.Builder
		for i := len(o.Links) - 1; i >= 0; i-- {
			if o.Links[i].SelfID != "" {
				pre.WriteString("(S." + o.Links[i].SelfID + " = ")
			}
		}
		p.f("%s", pre.String())
		p.val(o.Src)
		for i := range o.Links {
			l := &o.Links[i]
			switch l.K {
			case "then":
				p.f(".then(")
				p.handler(&l.A, false)
				if l.B != nil {
					p.f(", ")
					p.handler(l.B, false)
				}
				p.f(")")
			case "catch":
				p.f(".catch(")
				p.handler(&l.A, false)
				p.f(")")
			case "finally":
				p.f(".finally(")
				p.handler(&l.A, true)
				p.f(")")
			default:
				panic("promref: bad link kind " + l.K)
			}
			if l.SelfID != "" {
				p.f(")")
			}
		}
	case "async":
		switch {
		case o.Meth:
			p.f("({async m(){ log(%s);", jsStr(o.ID))
		case o.Arrow:
			p.f("(async () => { log(%s);", jsStr(o.ID))
		default:
			p.f("(async function(){ log(%s);", jsStr(o.ID))
		}
		p.stmts(o.Body)
		if o.Meth {
			p.f(" }}).m()")
		} else {
			p.f(" })()")
		}
	default:
		panic("promref: op kind " + o.K + " is not an expression")
	}
}

func (p *printer) opStmt(o *Op) {
	switch o.K {
	case "settle":
		if o.Rej {
			p.f("J[%d](", o.Cap)
		} else {
			p.f("R[%d](", o.Cap)
		}
		p.val(o.V)
		p.f(");\n")
	case "intr":
		p.f("interruptNow();\n")
	case "throw":
		p.f("throw ")
		p.val(o.V)
		p.f(";\n")
	case "nested":
		p.f("nested(%s);\n", jsStr(PrintOps(o.Ops)))
	case "noctor":
		p.val(o.V)
		p.f(".constructor = undefined;\n")
	case "patch":
		fn := func() {
			p.f("function(a,b){ log(%s);", jsStr(o.ID))
			for i := range o.Acts {
				// res/rej call the reaction arguments directly (only when callable)
				if a := &o.Acts[i]; a.K == "res" || a.K == "rej" {
					n := "a"
					if a.K == "rej" {
						n = "b"
					}
					p.f(" if (typeof %s === \"function\") { try { %s(", n, n)
					p.val(a.V)
					p.f("); } catch (e) { log(%s, e); } }", jsStr("x"+o.ID))
				} else {
					p.acts(o.Acts[i : i+1])
				}
			}
			p.f(" return Promise.prototype.then.call(this, a, b); }")
		}
		if o.Getter {
			p.f("Object.defineProperty(")
			p.val(o.V)
			p.f(", \"then\", {configurable:true, get:function(){ log(%s); return ", jsStr("g"+o.ID))
			fn()
			p.f("; }});\n")
		} else {
			p.f("Object.defineProperty(")
			p.val(o.V)
			p.f(", \"then\", {configurable:true, writable:true, value:")
			fn()
			p.f("});\n")
		}
	default:
		if o.Dst >= 0 {
			p.f("p%d = ", o.Dst)
		}
		p.opExpr(o)
		p.f(";\n")
	}
}

// PrintOps prints the ops of a run segment as a script.
func PrintOps(ops []Op) string {
	var p printer
	for i := range ops {
		p.opStmt(&ops[i])
	}
	return p.sb.String()
}

// PrintExecutor prints the executor function expression of a rtnew/ctor segment.
func PrintExecutor(s *Seg) string {
	var p printer
	p.f("(function(a,b){ log(%s); R[%d]=a; J[%d]=b;", jsStr(s.ID), s.Cap, s.Cap)
	p.acts(s.Acts)
	p.f(" })")
	return p.sb.String()
}

// PrintVal prints a value expression (used for go-segment thenables).
func PrintVal(v *Val) string {
	var p printer
	p.val(v)
	return p.sb.String()
}

// PrintSetup prints the script that must run first: variable declarations and
// one global function per "call" segment. log and interruptNow are host functions.
func PrintSetup(c *Case) string {
	var p printer
	p.f("var p0, p1, p2, p3, p4; var R = [], J = [], S = {};\n")
	for i := range c.Segs {
		if c.Segs[i].K == "call" {
			p.f("function seg%d(){\n", i)
			for j := range c.Segs[i].Ops {
				p.opStmt(&c.Segs[i].Ops[j])
			}
			p.f("}\n")
		}
		if c.Segs[i].K == "acall" {
			p.f("async function seg%d(){ log(%s);", i, jsStr(c.Segs[i].ID))
			p.stmts(c.Segs[i].Body)
			p.f(" }\n")
		}
	}
	return p.sb.String()
}

// Text is the canonical text of a case (setup + every segment).
func Text(c *Case) string {
	var sb strings.Builder
	sb.WriteString(PrintSetup(c))
	for i := range c.Segs {
		s := &c.Segs[i]
		switch s.K {
		case "run":
			fmt.Fprintf(&sb, "// run %d\n%s", i, PrintOps(s.Ops))
		case "call":
			fmt.Fprintf(&sb, "// call seg%d()\n", i)
		case "acall":
			fmt.Fprintf(&sb, "// go: %s = Callable seg%d()\n", dstName(s.Dst), i)
		case "rtnew":
			fmt.Fprintf(&sb, "// go: %s = vm.New(Promise, %s)\n", dstName(s.Dst), PrintExecutor(s))
		case "ctor":
			fmt.Fprintf(&sb, "// go: %s = AssertConstructor(Promise)(nil, %s)\n", dstName(s.Dst), PrintExecutor(s))
		case "gonew":
			fmt.Fprintf(&sb, "// go: %s, R/J[%d] = vm.NewPromise()\n", dstName(s.Dst), s.Cap)
		case "gosettle":
			fmt.Fprintf(&sb, "// go: %s[%d](%s) (NewPromise function)\n", rj(s.Rej), s.Cap, PrintVal(s.V))
		case "callsettle":
			fmt.Fprintf(&sb, "// go: Callable %s[%d](%s)\n", rj(s.Rej), s.Cap, PrintVal(s.V))
		}
	}
	return sb.String()
}

func dstName(d int) string {
	if d < 0 {
		return "(result not kept)"
	}
	return "p" + strconv.Itoa(d)
}

func rj(rej bool) string {
	if rej {
		return "J"
	}
	return "R"
}
