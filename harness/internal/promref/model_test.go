package promref

import (
	"reflect"
	"strings"
	"testing"
)

// Hand-simulated ordering puzzles (answers derived from ECMA-262 by hand, and
// well known from the literature on promise tick counts).

func vi(i int) *Val                  { return &Val{K: "int", I: i} }
func vu() *Val                       { return &Val{K: "undef"} }
func vv(i int) *Val                  { return &Val{K: "var", I: i} }
func vop(o Op) *Val                  { o2 := o; return &Val{K: "op", Op: &o2} }
func hRet(id string, v *Val) Handler { return Handler{K: "fn", ID: id, V: *v} }
func then(h Handler) Link            { return Link{K: "then", A: h} }
func presolve(v *Val) Op             { return Op{K: "resolve", Dst: -1, V: v} }
func chain(dst int, src *Val, links ...Link) Op {
	return Op{K: "chain", Dst: dst, Src: src, Links: links}
}
func ticks(prefix string, n int) Op {
	var ls []Link
	for i := 1; i <= n; i++ {
		ls = append(ls, then(hRet(prefix+string(rune('0'+i)), vu())))
	}
	return chain(-1, vop(presolve(vu())), ls...)
}
func run(ops ...Op) *Case { return &Case{Segs: []Seg{{K: "run", Ops: ops, Dst: -1}}} }

func ids(m *Model) string {
	var out []string
	for _, e := range m.Log {
		out = append(out, e.ID)
	}
	return strings.Join(out, " ")
}

func expectIDs(t *testing.T, name string, c *Case, want string) *Model {
	t.Helper()
	m := Run(c)
	if m.Hazard != "" {
		t.Fatalf("%s: hazard %s", name, m.Hazard)
	}
	if got := ids(m); got != want {
		t.Fatalf("%s:\n%s\n got %s\nwant %s", name, Text(c), got, want)
	}
	return m
}

func TestPuzzles(t *testing.T) {
	// Promise.resolve().then(1); (async()=>{await null; 2})(); Promise.resolve().then(3)
	expectIDs(t, "await-null", run(
		chain(-1, vop(presolve(vu())), then(hRet("h1", vu()))),
		Op{K: "async", Dst: -1, ID: "a", Arrow: true, Body: []Stmt{{K: "await", ID: "w2", X: vu()}}},
		chain(-1, vop(presolve(vu())), then(hRet("h3", vu()))),
	), "a h1 w2 h3")

	// resolve(native promise) costs two extra ticks
	expectIDs(t, "resolve-promise", run(
		chain(-1, vop(Op{K: "new", Dst: -1, ID: "e", Cap: 0, Acts: []Act{{K: "res", V: vop(presolve(vi(1)))}}}), then(hRet("A", vu()))),
		ticks("n", 4),
	), "e n1 n2 A n3 n4")

	// resolve(value): zero extra ticks
	expectIDs(t, "resolve-value", run(
		chain(-1, vop(Op{K: "new", Dst: -1, ID: "e", Cap: 0, Acts: []Act{{K: "res", V: vi(1)}}}), then(hRet("A", vu()))),
		ticks("n", 3),
	), "e A n1 n2 n3")

	// return promise inside then: 0 1 2 3 4 5 6
	expectIDs(t, "return-promise", run(
		chain(-1, vop(presolve(vu())), then(hRet("x0", vop(presolve(vi(4))))), then(hRet("x4", vu()))),
		chain(-1, vop(presolve(vu())), then(hRet("x1", vu())), then(hRet("x2", vu())), then(hRet("x3", vu())), then(hRet("x5", vu())), then(hRet("x6", vu()))),
	), "x0 x1 x2 x3 x4 x5 x6")

	// finally pass-through: f 1 2 3 A 4
	m := expectIDs(t, "finally", run(
		chain(-1, vop(presolve(vi(1))), Link{K: "finally", A: hRet("f", vu())}, then(hRet("A", vu()))),
		ticks("n", 4),
	), "f n1 n2 n3 A n4")
	if got := m.FormatLog(0, len(m.Log)); got[0] != "f:0" || got[4] != "A:1" {
		t.Fatalf("finally values: %v", got)
	}

	// async return promise: 1 2 A 3
	expectIDs(t, "async-return-promise", run(
		chain(-1, vop(Op{K: "async", Dst: -1, ID: "a", Body: []Stmt{{K: "return", X: vop(presolve(vi(1)))}}}), then(hRet("A", vu()))),
		ticks("n", 3),
	), "a n1 n2 A n3")

	// await native promise: one tick; await thenable: two ticks
	expectIDs(t, "await-native", run(
		Op{K: "async", Dst: -1, ID: "a", Body: []Stmt{{K: "await", ID: "w", X: vop(presolve(vu()))}}},
		ticks("n", 2),
	), "a w n1 n2")
	expectIDs(t, "await-thenable", run(
		Op{K: "async", Dst: -1, ID: "a", Body: []Stmt{{K: "await", ID: "w", X: &Val{K: "then", T: &Thenable{ID: "t", Acts: []Act{{K: "res", V: vi(1)}}}}}}},
		ticks("n", 2),
	), "a t n1 w n2")

	// tracker: reject then handle; resolving twice; self resolution
	c := run(
		Op{K: "reject", Dst: 0, V: vi(1)},
		chain(1, vv(0), Link{K: "catch", A: hRet("c", &Val{K: "arg"})}),
		Op{K: "new", Dst: 2, ID: "e", Cap: 0, Acts: []Act{{K: "res", V: vi(5)}, {K: "rej", V: vi(6)}, {K: "res", V: vi(7)}}},
		Op{K: "new", Dst: 3, ID: "e2", Cap: 1},
		Op{K: "settle", Dst: -1, Cap: 1, V: vv(3)},
	)
	m = expectIDs(t, "tracker", c, "e e2 c")
	if got := m.FormatTrack(0, len(m.Track)); !reflect.DeepEqual(got, []string{"reject:p0", "handle:p0", "reject:p3"}) {
		t.Fatalf("tracker: %v", got)
	}
	cp := m.Checks[0]
	if cp.Vars[2].State != Fulfilled || cp.Vars[2].Result != 5 || cp.Vars[3].State != Rejected || m.Format(cp.Vars[3].Result) != "TypeError" || cp.Vars[1].State != Fulfilled || cp.Vars[1].Result != 1 {
		t.Fatalf("states: %+v", cp.Vars)
	}
	if m.Stats.LateCalls != 2 {
		t.Fatalf("late calls %d", m.Stats.LateCalls)
	}

	// Promise.all with a plain value, a promise and a thenable
	c = run(
		Op{K: "all", Dst: 0, Items: []Val{*vi(1), *vop(presolve(vi(2))), {K: "then", T: &Thenable{ID: "t", Acts: []Act{{K: "res", V: vi(3)}}}}}},
		chain(-1, vv(0), then(hRet("A", vu()))),
		ticks("n", 4),
	)
	m = expectIDs(t, "all", c, "t n1 n2 A n3 n4")
	if got := m.FormatLog(0, len(m.Log)); got[3] != "A:[1,2,3]" {
		t.Fatalf("all values: %v", got)
	}

	// interrupt discards queued jobs; later run starts clean
	c = &Case{Segs: []Seg{
		{K: "run", Dst: -1, Ops: []Op{
			chain(-1, vop(presolve(vu())), then(Handler{K: "fn", ID: "h1", Acts: []Act{{K: "intr"}}, V: *vu()}), then(hRet("never", vu()))),
			chain(-1, vop(presolve(vu())), then(hRet("never2", vu()))),
		}},
		{K: "run", Dst: -1, Ops: []Op{ticks("n", 2)}},
	}}
	m = expectIDs(t, "interrupt", c, "h1 n1 n2")
	if !m.Checks[0].Interrupted || m.Checks[1].Interrupted {
		t.Fatalf("interrupt flags: %+v", m.Checks)
	}
}

func TestPuzzles2(t *testing.T) {
	// constructor = undefined: await wraps the promise (thenable job + its then): two extra ticks
	expectIDs(t, "noctor-await", run(
		Op{K: "resolve", Dst: 0, V: vi(1)},
		Op{K: "noctor", Dst: -1, V: vv(0)},
		Op{K: "async", Dst: -1, ID: "a", Body: []Stmt{{K: "await", ID: "w", X: vv(0)}}},
		ticks("n", 3),
	), "a n1 n2 w n3")
	expectIDs(t, "ctor-await", run(
		Op{K: "resolve", Dst: 0, V: vi(1)},
		Op{K: "async", Dst: -1, ID: "a", Body: []Stmt{{K: "await", ID: "w", X: vv(0)}}},
		ticks("n", 3),
	), "a w n1 n2 n3")

	// own then: Promise.all and catch look it up and call it synchronously, await does not,
	// resolve(p) looks it up synchronously (getter) and calls it from the thenable job
	expectIDs(t, "patched-then", run(
		Op{K: "new", Dst: 0, ID: "e", Cap: 0},
		Op{K: "patch", Dst: -1, ID: "m", Getter: true, V: vv(0)},
		Op{K: "all", Dst: 1, Items: []Val{*vv(0)}},
		Op{K: "async", Dst: -1, ID: "a", Body: []Stmt{{K: "await", ID: "w", X: vv(0)}}},
		Op{K: "new", Dst: 2, ID: "e2", Cap: 1, Acts: []Act{{K: "res", V: vv(0)}, {K: "log"}}[:1]},
		ticks("n", 1),
		chain(-1, vv(0), Link{K: "catch", A: hRet("k", vu())}),
	), "e gm m a e2 gm gm m m n1")

	// return inside try with an await in finally
	expectIDs(t, "try-finally-return", run(
		chain(-1, vop(Op{K: "async", Dst: -1, ID: "a", Body: []Stmt{{K: "try", ID: "c", NoCatch: true, Body: []Stmt{{K: "return", X: vi(8)}}, Fin: []Stmt{{K: "await", ID: "w", X: vi(0)}}}}}), then(hRet("A", vu()))),
		ticks("n", 3),
	), "a w n1 A n2 n3")

	// a throw in finally replaces the pending completion and is not seen by the sibling catch
	m := expectIDs(t, "finally-throw", run(
		Op{K: "async", Dst: 0, ID: "a", Body: []Stmt{{K: "try", ID: "c", Body: []Stmt{{K: "log", ID: "l"}}, Fin: []Stmt{{K: "await", ID: "w", X: vop(Op{K: "reject", Dst: -1, V: vi(2)})}}}}},
	), "a l")
	if cp := m.Checks[0]; cp.Vars[0].State != Rejected || cp.Vars[0].Result != 2 {
		t.Fatalf("finally-throw state %+v", cp.Vars[0])
	}
}
