package promref

import (
	"fmt"
	"sort"
	"strconv"
	"strings"
)

// ------------------------------------------------------------ model values

// Value is one of: Undef, int, string, *Promise, *ThenObj, *ErrObj, *Array,
// *Settled, *Fn.
type Value interface{}

type undefT struct{}

var Undef = undefT{}

const (
	Pending   = 0
	Fulfilled = 1
	Rejected  = 2
)

type Promise struct {
	State            int
	Result           Value
	fulfillReactions []*reaction
	rejectReactions  []*reaction
	handled          bool
	serial           int
	ownThen          *Fn // an own "then" property installed by a patch op
	ownThenGetterLog string
	noCtor           bool // own property constructor = undefined
}

type ThenObj struct {
	spec *Thenable
	ctx  *ctx
	fn   *Fn
}

type ErrObj struct {
	Kind   string // TypeError | AggregateError
	Errors *Array
}

type Array struct{ Elems []Value }

type Settled struct {
	Status string // fulfilled | rejected
	V      Value
}

// Fn is a callable. It signals a JavaScript throw by panicking with throwSig.
type Fn struct {
	call func(this Value, args []Value) Value
}

type throwSig struct{ v Value }
type intrSig struct{}

type capability struct {
	promise         *Promise
	resolve, reject *Fn
}

type reaction struct {
	cap     *capability // nil for await
	fulfill bool
	handler *Fn // nil = empty
}

// ctx is the lexical context for "arg".
type ctx struct {
	arg    Value
	hasArg bool
}

type LogEntry struct {
	ID  string
	V   Value
	Has bool
}

type TrackEntry struct {
	Op string // reject | handle
	P  *Promise
}

type VarState struct {
	Assigned bool
	P        *Promise
	State    int
	Result   Value
}

// Checkpoint is what the model predicts to be observable after one segment.
type Checkpoint struct {
	LogLen      int
	TrackLen    int
	Interrupted bool
	Threw       bool // the call returns a JavaScript exception
	Vars        [NVars]VarState
}

type Stats struct {
	ThenableJobs int // resolve functions called with an object whose then is callable
	LateCalls    int // resolving function called after its latch was set
	Jobs         int
	MaxQueue     int
}

type Model struct {
	queue   []func()
	Log     []LogEntry
	Track   []TrackEntry
	vars    [NVars]*Promise
	selfs   map[string]*Promise
	R, J    map[int]*Fn
	serial  int
	thenFn  *Fn
	Hazard  string
	Stats   Stats
	Checks  []Checkpoint
	intrHit bool
	threw   bool
	depth   int
}

func NewModel() *Model {
	m := &Model{selfs: map[string]*Promise{}, R: map[int]*Fn{}, J: map[int]*Fn{}}
	// Promise.prototype.then (27.2.5.4)
	m.thenFn = &Fn{call: func(this Value, args []Value) Value {
		p, ok := this.(*Promise)
		if !ok {
			m.throwTypeError()
		}
		// SpeciesConstructor is %Promise% (no subclassing in the DSL)
		rc := m.newPromiseCapability()
		return m.performPromiseThen(p, argN(args, 0), argN(args, 1), rc)
	}}
	return m
}

func argN(args []Value, i int) Value {
	if i < len(args) {
		return args[i]
	}
	return Undef
}

func (m *Model) hazard(s string) {
	if m.Hazard == "" {
		m.Hazard = s
	}
}

func (m *Model) throwTypeError() { panic(throwSig{&ErrObj{Kind: "TypeError"}}) }

// try runs f and returns the thrown value (completion record) if f threw.
func (m *Model) try(f func()) (thrown Value, abrupt bool) {
	defer func() {
		if x := recover(); x != nil {
			if t, ok := x.(throwSig); ok {
				thrown, abrupt = t.v, true
				return
			}
			panic(x)
		}
	}()
	f()
	return nil, false
}

// budgetSig aborts a program that does not terminate within the model's budget (such a program is
// outside the DSL: generated programs must terminate).
type budgetSig struct{}

const (
	maxJobs  = 4000
	maxDepth = 400
)

func (m *Model) call(f *Fn, this Value, args ...Value) Value {
	m.depth++
	if m.depth > maxDepth {
		panic(budgetSig{})
	}
	defer func() { m.depth-- }()
	return f.call(this, args)
}

func isCallable(v Value) (*Fn, bool) {
	f, ok := v.(*Fn)
	return f, ok
}

func isObject(v Value) bool {
	switch v.(type) {
	case *Promise, *ThenObj, *ErrObj, *Array, *Settled, *Fn:
		return true
	}
	return false
}

// ------------------------------------------------------------ host hooks

func (m *Model) enqueue(job func()) { // HostEnqueuePromiseJob: one FIFO queue
	m.queue = append(m.queue, job)
	if len(m.queue) > m.Stats.MaxQueue {
		m.Stats.MaxQueue = len(m.queue)
	}
}

func (m *Model) tracker(p *Promise, op string) { // HostPromiseRejectionTracker
	m.Track = append(m.Track, TrackEntry{Op: op, P: p})
}

// ------------------------------------------------------------ 27.2.1

func (m *Model) newPromise() *Promise {
	m.serial++
	return &Promise{serial: m.serial}
}

// 27.2.1.3 CreateResolvingFunctions
func (m *Model) createResolvingFunctions(promise *Promise) (resolve, reject *Fn) {
	alreadyResolved := false                                // the shared record
	resolve = &Fn{call: func(_ Value, args []Value) Value { // 27.2.1.3.2
		if alreadyResolved {
			m.Stats.LateCalls++
			return Undef
		}
		alreadyResolved = true
		resolution := argN(args, 0)
		if rp, ok := resolution.(*Promise); ok && rp == promise {
			m.rejectPromise(promise, &ErrObj{Kind: "TypeError"})
			return Undef
		}
		if !isObject(resolution) {
			m.fulfillPromise(promise, resolution)
			return Undef
		}
		var thenAction Value
		thrown, abrupt := m.try(func() { thenAction = m.get(resolution, "then") })
		if abrupt {
			m.rejectPromise(promise, thrown)
			return Undef
		}
		thenFn, ok := isCallable(thenAction)
		if !ok {
			m.fulfillPromise(promise, resolution)
			return Undef
		}
		m.Stats.ThenableJobs++
		m.enqueue(m.newPromiseResolveThenableJob(promise, resolution, thenFn))
		return Undef
	}}
	reject = &Fn{call: func(_ Value, args []Value) Value { // 27.2.1.3.1
		if alreadyResolved {
			m.Stats.LateCalls++
			return Undef
		}
		alreadyResolved = true
		m.rejectPromise(promise, argN(args, 0))
		return Undef
	}}
	return
}

// 27.2.1.4 FulfillPromise
func (m *Model) fulfillPromise(p *Promise, value Value) {
	if p.State != Pending {
		panic("promref: fulfill of settled promise")
	}
	reactions := p.fulfillReactions
	p.Result = value
	p.fulfillReactions, p.rejectReactions = nil, nil
	p.State = Fulfilled
	m.triggerPromiseReactions(reactions, value)
}

// 27.2.1.7 RejectPromise
func (m *Model) rejectPromise(p *Promise, reason Value) {
	if p.State != Pending {
		panic("promref: reject of settled promise")
	}
	reactions := p.rejectReactions
	p.Result = reason
	p.fulfillReactions, p.rejectReactions = nil, nil
	p.State = Rejected
	if !p.handled {
		m.tracker(p, "reject")
	}
	m.triggerPromiseReactions(reactions, reason)
}

// 27.2.1.8 TriggerPromiseReactions
func (m *Model) triggerPromiseReactions(reactions []*reaction, argument Value) {
	for _, r := range reactions {
		m.enqueue(m.newPromiseReactionJob(r, argument))
	}
}

// 27.2.1.5 NewPromiseCapability(%Promise%)
func (m *Model) newPromiseCapability() *capability {
	p := m.newPromise()
	res, rej := m.createResolvingFunctions(p)
	return &capability{promise: p, resolve: res, reject: rej}
}

// 27.2.2.1 NewPromiseReactionJob
func (m *Model) newPromiseReactionJob(r *reaction, argument Value) func() {
	return func() {
		var result Value
		abrupt := false
		if r.handler == nil {
			result = argument
			abrupt = !r.fulfill
		} else {
			var ret Value
			thrown, ab := m.try(func() { ret = m.call(r.handler, Undef, argument) })
			if ab {
				result, abrupt = thrown, true
			} else {
				result = ret
			}
		}
		if r.cap == nil {
			if abrupt {
				panic("promref: abrupt completion of an await reaction")
			}
			return
		}
		if abrupt {
			m.call(r.cap.reject, Undef, result)
		} else {
			m.call(r.cap.resolve, Undef, result)
		}
	}
}

// 27.2.2.2 NewPromiseResolveThenableJob
func (m *Model) newPromiseResolveThenableJob(promiseToResolve *Promise, thenable Value, then *Fn) func() {
	return func() {
		res, rej := m.createResolvingFunctions(promiseToResolve)
		thrown, abrupt := m.try(func() { m.call(then, thenable, res, rej) })
		if abrupt {
			m.call(rej, Undef, thrown)
		}
	}
}

// 27.2.5.4.1 PerformPromiseThen
func (m *Model) performPromiseThen(p *Promise, onFulfilled, onRejected Value, rc *capability) Value {
	fh, _ := isCallable(onFulfilled)
	rh, _ := isCallable(onRejected)
	fr := &reaction{cap: rc, fulfill: true, handler: fh}
	rr := &reaction{cap: rc, fulfill: false, handler: rh}
	switch p.State {
	case Pending:
		p.fulfillReactions = append(p.fulfillReactions, fr)
		p.rejectReactions = append(p.rejectReactions, rr)
	case Fulfilled:
		m.enqueue(m.newPromiseReactionJob(fr, p.Result))
	default:
		if !p.handled {
			m.tracker(p, "handle")
		}
		m.enqueue(m.newPromiseReactionJob(rr, p.Result))
	}
	p.handled = true
	if rc == nil {
		return Undef
	}
	return rc.promise
}

// Get(obj, "then") for the object kinds of the DSL.
func (m *Model) get(obj Value, key string) Value {
	if key != "then" {
		panic("promref: get " + key)
	}
	switch o := obj.(type) {
	case *Promise:
		if o.ownThen != nil {
			if o.ownThenGetterLog != "" {
				m.log(o.ownThenGetterLog, nil, false)
			}
			return o.ownThen
		}
		return m.thenFn
	case *ThenObj:
		t := o.spec
		switch {
		case t.NonFn:
			return 5
		case t.Get == "throw":
			m.log("g"+t.ID, nil, false)
			panic(throwSig{m.eval(t.GV, o.ctx)})
		case t.Get == "fn":
			m.log("g"+t.ID, nil, false)
			return o.fn
		}
		return o.fn
	}
	return Undef
}

// Invoke(p, "then", args) where p is a native promise.
func (m *Model) invokeThen(p *Promise, args ...Value) Value {
	f, ok := isCallable(m.get(p, "then"))
	if !ok {
		m.throwTypeError()
	}
	return m.call(f, p, args...)
}

// 27.2.4.7.1 PromiseResolve(%Promise%, x)
func (m *Model) promiseResolve(x Value) *Promise {
	if p, ok := x.(*Promise); ok && !p.noCtor {
		// x.constructor is %Promise% for every promise of the DSL unless a noctor op changed it
		return p
	}
	pc := m.newPromiseCapability()
	m.call(pc.resolve, Undef, x)
	return pc.promise
}

// 27.2.4.6 Promise.reject
func (m *Model) promiseReject(r Value) *Promise {
	pc := m.newPromiseCapability()
	m.call(pc.reject, Undef, r)
	return pc.promise
}

// 27.2.5.1 catch
func (m *Model) promiseCatch(p *Promise, onRejected Value) Value {
	return m.invokeThen(p, Undef, onRejected)
}

// 27.2.5.3 finally
func (m *Model) promiseFinally(p *Promise, onFinally Value) Value {
	f, ok := isCallable(onFinally)
	if !ok {
		return m.invokeThen(p, onFinally, onFinally)
	}
	thenFinally := &Fn{call: func(_ Value, args []Value) Value {
		value := argN(args, 0)
		result := m.call(f, Undef)
		pr := m.promiseResolve(result)
		valueThunk := &Fn{call: func(Value, []Value) Value { return value }}
		return m.invokeThen(pr, valueThunk)
	}}
	catchFinally := &Fn{call: func(_ Value, args []Value) Value {
		reason := argN(args, 0)
		result := m.call(f, Undef)
		pr := m.promiseResolve(result)
		thrower := &Fn{call: func(Value, []Value) Value { panic(throwSig{reason}) }}
		return m.invokeThen(pr, thrower)
	}}
	return m.invokeThen(p, thenFinally, catchFinally)
}

// ifAbruptReject wraps the body of a combinator: an abrupt completion rejects the capability.
func (m *Model) ifAbruptReject(pc *capability, f func()) {
	thrown, abrupt := m.try(f)
	if abrupt {
		m.call(pc.reject, Undef, thrown)
	}
}

// 27.2.4.1 Promise.all over an array of already evaluated items.
func (m *Model) promiseAll(items []Value) *Promise {
	pc := m.newPromiseCapability()
	m.ifAbruptReject(pc, func() {
		values := &Array{}
		remaining := 1
		for index, next := range items {
			index := index
			values.Elems = append(values.Elems, Undef)
			nextPromise := m.promiseResolve(next)
			alreadyCalled := false
			onFulfilled := &Fn{call: func(_ Value, args []Value) Value {
				if alreadyCalled {
					return Undef
				}
				alreadyCalled = true
				values.Elems[index] = argN(args, 0)
				remaining--
				if remaining == 0 {
					return m.call(pc.resolve, Undef, &Array{Elems: append([]Value(nil), values.Elems...)})
				}
				return Undef
			}}
			remaining++
			m.invokeThen(nextPromise, onFulfilled, pc.reject)
		}
		remaining--
		if remaining == 0 {
			m.call(pc.resolve, Undef, &Array{Elems: append([]Value(nil), values.Elems...)})
		}
	})
	return pc.promise
}

// 27.2.4.2 Promise.allSettled
func (m *Model) promiseAllSettled(items []Value) *Promise {
	pc := m.newPromiseCapability()
	m.ifAbruptReject(pc, func() {
		values := &Array{}
		remaining := 1
		for index, next := range items {
			index := index
			values.Elems = append(values.Elems, Undef)
			nextPromise := m.promiseResolve(next)
			alreadyCalled := false
			mk := func(status string) *Fn {
				return &Fn{call: func(_ Value, args []Value) Value {
					if alreadyCalled {
						return Undef
					}
					alreadyCalled = true
					values.Elems[index] = &Settled{Status: status, V: argN(args, 0)}
					remaining--
					if remaining == 0 {
						return m.call(pc.resolve, Undef, &Array{Elems: append([]Value(nil), values.Elems...)})
					}
					return Undef
				}}
			}
			remaining++
			m.invokeThen(nextPromise, mk("fulfilled"), mk("rejected"))
		}
		remaining--
		if remaining == 0 {
			m.call(pc.resolve, Undef, &Array{Elems: append([]Value(nil), values.Elems...)})
		}
	})
	return pc.promise
}

// 27.2.4.3 Promise.any
func (m *Model) promiseAny(items []Value) *Promise {
	pc := m.newPromiseCapability()
	m.ifAbruptReject(pc, func() {
		errors := &Array{}
		remaining := 1
		for index, next := range items {
			index := index
			errors.Elems = append(errors.Elems, Undef)
			nextPromise := m.promiseResolve(next)
			alreadyCalled := false
			onRejected := &Fn{call: func(_ Value, args []Value) Value {
				if alreadyCalled {
					return Undef
				}
				alreadyCalled = true
				errors.Elems[index] = argN(args, 0)
				remaining--
				if remaining == 0 {
					e := &ErrObj{Kind: "AggregateError", Errors: &Array{Elems: append([]Value(nil), errors.Elems...)}}
					return m.call(pc.reject, Undef, e)
				}
				return Undef
			}}
			remaining++
			m.invokeThen(nextPromise, pc.resolve, onRejected)
		}
		remaining--
		if remaining == 0 {
			panic(throwSig{&ErrObj{Kind: "AggregateError", Errors: &Array{Elems: append([]Value(nil), errors.Elems...)}}})
		}
	})
	return pc.promise
}

// 27.2.4.5 Promise.race
func (m *Model) promiseRace(items []Value) *Promise {
	pc := m.newPromiseCapability()
	m.ifAbruptReject(pc, func() {
		for _, next := range items {
			nextPromise := m.promiseResolve(next)
			m.invokeThen(nextPromise, pc.resolve, pc.reject)
		}
	})
	return pc.promise
}

// 27.7.5.3 Await: continuation-passing form.
func (m *Model) await(value Value, onFulfilled func(Value), onRejected func(Value)) {
	promise := m.promiseResolve(value)
	f := &Fn{call: func(_ Value, args []Value) Value { onFulfilled(argN(args, 0)); return Undef }}
	r := &Fn{call: func(_ Value, args []Value) Value { onRejected(argN(args, 0)); return Undef }}
	m.performPromiseThen(promise, f, r, nil)
}

// ------------------------------------------------------------ DSL interpreter

func (m *Model) log(id string, v Value, has bool) {
	m.Log = append(m.Log, LogEntry{ID: id, V: v, Has: has})
}

func (m *Model) interrupt() {
	m.intrHit = true
	panic(intrSig{})
}

func (m *Model) eval(v *Val, c *ctx) Value {
	if v == nil {
		return Undef
	}
	switch v.K {
	case "undef":
		return Undef
	case "int":
		return v.I
	case "str":
		return v.S
	case "var":
		p := m.vars[v.I]
		if p == nil {
			// the global variable exists (declared by the setup script) and holds undefined
			return Undef
		}
		return p
	case "arg":
		if c == nil || !c.hasArg {
			m.hazard("arg outside handler")
			return Undef
		}
		return c.arg
	case "self":
		p := m.selfs[v.S]
		if p == nil {
			// S.<id> is read before the assignment happened (the handler was called synchronously
			// by a patched then): a missing property, i.e. undefined
			return Undef
		}
		return p
	case "then":
		return m.newThenObj(v.T, c)
	case "op":
		return m.evalOp(v.Op, c)
	}
	panic("promref: bad val kind " + v.K)
}

func (m *Model) newThenObj(t *Thenable, c *ctx) *ThenObj {
	o := &ThenObj{spec: t, ctx: c}
	o.fn = &Fn{call: func(this Value, args []Value) Value {
		// HostCallJobCallback(then, thenable, ..): this is the thenable
		if th, ok := this.(*ThenObj); ok {
			m.log(t.ID, th.spec.ID, true)
		} else {
			m.log(t.ID, Undef, true)
		}
		m.runActs(t.Acts, c, argN(args, 0), argN(args, 1))
		return Undef
	}}
	return o
}

func (m *Model) stashed(cap int, rej bool) *Fn {
	var f *Fn
	if rej {
		f = m.J[cap]
	} else {
		f = m.R[cap]
	}
	if f == nil {
		m.hazard(fmt.Sprintf("%s[%d] called before assignment", rj(rej), cap))
	}
	return f
}

// runActs executes acts; a and b are the function's own arguments (res/rej acts).
func (m *Model) runActs(acts []Act, c *ctx, a, b Value) {
	for i := range acts {
		act := &acts[i]
		switch act.K {
		case "res", "rej":
			v := m.eval(act.V, c)
			target := a
			if act.K == "rej" {
				target = b
			}
			f, ok := isCallable(target)
			if !ok {
				m.hazard("res/rej act without callable argument")
				m.throwTypeError()
			}
			m.call(f, Undef, v)
		case "settle":
			v := m.eval(act.V, c)
			f := m.stashed(act.Cap, act.Rej)
			if f == nil {
				m.throwTypeError()
			}
			m.call(f, Undef, v)
		case "throw":
			panic(throwSig{m.eval(act.V, c)})
		case "intr":
			m.interrupt()
		case "eval":
			m.eval(act.V, c)
		case "nested":
			// RunString while a call is active: the ops run inline, no queue processing
			for j := range act.Ops {
				m.execOp(&act.Ops[j])
			}
		default:
			panic("promref: bad act " + act.K)
		}
	}
}

func (m *Model) handlerValue(h *Handler, finally bool) Value {
	if h == nil {
		return Undef
	}
	switch h.K {
	case "undef":
		return Undef
	case "num":
		return 7
	}
	return &Fn{call: func(_ Value, args []Value) Value {
		c := &ctx{arg: argN(args, 0), hasArg: true}
		if finally && !h.Native {
			m.log(h.ID, len(args), true)
		} else {
			m.log(h.ID, c.arg, true)
		}
		m.runActs(h.Acts, c, Undef, Undef)
		v := m.eval(&h.V, c)
		if h.Throw {
			panic(throwSig{v})
		}
		return v
	}}
}

// evalOp evaluates a promise-producing op as an expression.
func (m *Model) evalOp(o *Op, c *ctx) Value {
	switch o.K {
	case "new":
		// 27.2.3.1 Promise(executor)
		p := m.newPromise()
		res, rej := m.createResolvingFunctions(p)
		thrown, abrupt := m.try(func() {
			m.log(o.ID, nil, false)
			m.R[o.Cap], m.J[o.Cap] = res, rej
			m.runActs(o.Acts, c, res, rej)
		})
		if abrupt {
			m.call(rej, Undef, thrown)
		}
		return p
	case "resolve":
		return m.promiseResolve(m.eval(o.V, c))
	case "reject":
		return m.promiseReject(m.eval(o.V, c))
	case "all", "allSettled", "race", "any":
		items := make([]Value, len(o.Items))
		for i := range o.Items {
			items[i] = m.eval(&o.Items[i], c)
		}
		switch o.K {
		case "all":
			return m.promiseAll(items)
		case "allSettled":
			return m.promiseAllSettled(items)
		case "race":
			return m.promiseRace(items)
		}
		return m.promiseAny(items)
	case "chain":
		cur := m.eval(o.Src, c)
		for i := range o.Links {
			l := &o.Links[i]
			p, ok := cur.(*Promise)
			if !ok {
				m.hazard("chain on a non-promise")
				m.throwTypeError()
			}
			switch l.K {
			case "then":
				cur = m.invokeThen(p, m.handlerValue(&l.A, false), m.handlerValue(l.B, false))
			case "catch":
				cur = m.promiseCatch(p, m.handlerValue(&l.A, false))
			case "finally":
				cur = m.promiseFinally(p, m.handlerValue(&l.A, true))
			default:
				panic("promref: bad link " + l.K)
			}
			if l.SelfID != "" {
				m.selfs[l.SelfID] = cur.(*Promise)
			}
		}
		return cur
	case "async":
		return m.asyncCall(o, c)
	}
	panic("promref: op " + o.K + " is not an expression")
}

// asyncCall: 27.7.5.1 AsyncFunctionStart with the body in continuation-passing form.
func (m *Model) asyncCall(o *Op, c *ctx) *Promise {
	pc := m.newPromiseCapability()
	onDone := func() { m.call(pc.resolve, Undef, Undef) }
	onReturn := func(v Value) { m.call(pc.resolve, Undef, v) }
	onThrow := func(v Value) { m.call(pc.reject, Undef, v) }
	// A throw out of the synchronous part of a statement is routed through
	// onThrow of the innermost enclosing try by execStmts itself.
	m.log(o.ID, nil, false)
	m.execStmts(o.Body, 0, c, onDone, onReturn, onThrow)
	return pc.promise
}

func (m *Model) execStmts(ss []Stmt, i int, c *ctx, onDone func(), onReturn, onThrow func(Value)) {
	for ; i < len(ss); i++ {
		s := &ss[i]
		switch s.K {
		case "log":
			m.log(s.ID, nil, false)
		case "await":
			var x Value
			if thrown, abrupt := m.try(func() { x = m.eval(s.X, c) }); abrupt {
				onThrow(thrown)
				return
			}
			next := i + 1
			m.await(x, func(v Value) {
				m.log(s.ID, v, true)
				m.execStmts(ss, next, c, onDone, onReturn, onThrow)
			}, func(r Value) {
				onThrow(r)
			})
			return
		case "settle":
			var thrown Value
			var abrupt bool
			thrown, abrupt = m.try(func() {
				v := m.eval(s.X, c)
				f := m.stashed(s.Cap, s.Rej)
				if f == nil {
					m.throwTypeError()
				}
				m.call(f, Undef, v)
			})
			if abrupt {
				onThrow(thrown)
				return
			}
		case "intr":
			m.interrupt()
		case "try":
			next := i + 1
			cont := func() { m.execStmts(ss, next, c, onDone, onReturn, onThrow) }
			// runFin runs the finally block (if any); when it completes normally the pending
			// completion of the try/catch part takes effect, otherwise the block's own
			// return/throw replaces it.
			runFin := func(after func()) {
				if len(s.Fin) == 0 {
					after()
					return
				}
				m.execStmts(s.Fin, 0, c, after, onReturn, onThrow)
			}
			hasCatch := !s.NoCatch || len(s.Fin) == 0
			m.execStmts(s.Body, 0, c,
				func() { runFin(cont) },
				func(v Value) { runFin(func() { onReturn(v) }) },
				func(e Value) {
					if hasCatch {
						m.log(s.ID, e, true)
						m.execStmts(s.Catch, 0, c,
							func() { runFin(cont) },
							func(v Value) { runFin(func() { onReturn(v) }) },
							func(e2 Value) { runFin(func() { onThrow(e2) }) })
					} else {
						runFin(func() { onThrow(e) })
					}
				})
			return
		case "return":
			var x Value
			if thrown, abrupt := m.try(func() { x = m.eval(s.X, c) }); abrupt {
				onThrow(thrown)
				return
			}
			onReturn(x)
			return
		case "throw":
			var x Value
			if thrown, abrupt := m.try(func() { x = m.eval(s.X, c) }); abrupt {
				onThrow(thrown)
				return
			}
			onThrow(x)
			return
		default:
			panic("promref: bad stmt " + s.K)
		}
	}
	onDone()
}

// execOp executes a top-level op.
func (m *Model) execOp(o *Op) {
	switch o.K {
	case "settle":
		v := m.eval(o.V, nil)
		f := m.stashed(o.Cap, o.Rej)
		if f == nil {
			return
		}
		m.call(f, Undef, v)
	case "intr":
		m.interrupt()
	case "throw":
		panic(throwSig{m.eval(o.V, nil)})
	case "nested":
		for j := range o.Ops {
			m.execOp(&o.Ops[j])
		}
	case "noctor":
		p, ok := m.eval(o.V, nil).(*Promise)
		if !ok {
			m.hazard("noctor of a non-promise")
			return
		}
		p.noCtor = true
	case "patch":
		p, ok := m.eval(o.V, nil).(*Promise)
		if !ok {
			m.hazard("patch of a non-promise")
			return
		}
		p.ownThen = &Fn{call: func(this Value, args []Value) Value {
			m.log(o.ID, nil, false)
			for i := range o.Acts {
				a := &o.Acts[i]
				if a.K == "res" || a.K == "rej" {
					target := argN(args, 0)
					if a.K == "rej" {
						target = argN(args, 1)
					}
					if f, ok := isCallable(target); ok {
						if thrown, abrupt := m.try(func() { m.call(f, Undef, m.eval(a.V, nil)) }); abrupt {
							m.log("x"+o.ID, thrown, true)
						}
					}
					continue
				}
				m.runActs(o.Acts[i:i+1], nil, Undef, Undef)
			}
			return m.call(m.thenFn, this, argN(args, 0), argN(args, 1))
		}}
		p.ownThenGetterLog = ""
		if o.Getter {
			p.ownThenGetterLog = "g" + o.ID
		}
	default:
		v := m.evalOp(o, nil)
		if o.Dst >= 0 {
			p, _ := v.(*Promise)
			m.vars[o.Dst] = p
		}
	}
}

// drain runs the job queue to exhaustion in FIFO order.
func (m *Model) drain() {
	for len(m.queue) > 0 {
		job := m.queue[0]
		m.queue = m.queue[1:]
		m.Stats.Jobs++
		if m.Stats.Jobs > maxJobs {
			panic(budgetSig{})
		}
		job()
	}
	m.queue = nil
}

// outermost runs f as one outermost call: body, then the queue; an interrupt
// abandons everything and discards the queue.
func (m *Model) outermost(f func()) (interrupted bool) {
	defer func() {
		if x := recover(); x != nil {
			if _, ok := x.(intrSig); ok {
				m.queue = nil
				m.depth = 0
				interrupted = true
				return
			}
			if _, ok := x.(budgetSig); ok {
				m.queue = nil
				m.depth = 0
				m.hazard("program does not terminate within the budget")
				return
			}
			panic(x)
		}
	}()
	// a throw that reaches the top level ends the script; the execution context stack is then
	// empty and the queued jobs run before the call returns (with the exception)
	if _, abrupt := m.try(f); abrupt {
		m.threw = true
	}
	m.drain()
	return false
}

// RunSeg executes one segment and appends its checkpoint.
func (m *Model) RunSeg(s *Seg) {
	interrupted := false
	m.threw = false
	switch s.K {
	case "acall":
		// the host assigns the returned promise to the variable after the call returned normally
		var p *Promise
		interrupted = m.outermost(func() { p = m.asyncCall(&Op{K: "async", ID: s.ID, Body: s.Body}, nil) })
		if !interrupted && s.Dst >= 0 {
			m.vars[s.Dst] = p
		}
	case "rtnew", "ctor":
		var v Value
		interrupted = m.outermost(func() { v = m.evalOp(&Op{K: "new", ID: s.ID, Cap: s.Cap, Acts: s.Acts}, nil) })
		if !interrupted && s.Dst >= 0 {
			m.vars[s.Dst], _ = v.(*Promise)
		}
	case "run", "call":
		interrupted = m.outermost(func() {
			for i := range s.Ops {
				m.execOp(&s.Ops[i])
			}
		})
	case "gonew":
		p := m.newPromise()
		m.R[s.Cap], m.J[s.Cap] = m.createResolvingFunctions(p)
		if s.Dst >= 0 {
			m.vars[s.Dst] = p
		}
	case "gosettle", "callsettle":
		// the argument value is produced before the call (a thenable literal is
		// created by its own, job-free, outermost call)
		v := m.eval(s.V, nil)
		f := m.stashed(s.Cap, s.Rej)
		if f != nil {
			interrupted = m.outermost(func() { m.call(f, Undef, v) })
		}
	default:
		panic("promref: bad seg " + s.K)
	}
	cp := Checkpoint{LogLen: len(m.Log), TrackLen: len(m.Track), Interrupted: interrupted, Threw: m.threw}
	for i := 0; i < NVars; i++ {
		if p := m.vars[i]; p != nil {
			cp.Vars[i] = VarState{Assigned: true, P: p, State: p.State, Result: p.Result}
		}
	}
	m.Checks = append(m.Checks, cp)
}

// Run executes a whole case on a fresh model.
func Run(c *Case) *Model {
	m := NewModel()
	for i := range c.Segs {
		m.RunSeg(&c.Segs[i])
	}
	return m
}

func (m *Model) InterruptHit() bool { return m.intrHit }

// ------------------------------------------------------------ formatting

// NameOf gives the canonical name of a promise: lowest variable holding it,
// else the lexicographically smallest self temp, else "promise".
func (m *Model) NameOf(p *Promise) string {
	for i := 0; i < NVars; i++ {
		if m.vars[i] == p {
			return "p" + strconv.Itoa(i)
		}
	}
	keys := make([]string, 0, len(m.selfs))
	for k := range m.selfs {
		keys = append(keys, k)
	}
	sort.Strings(keys)
	for _, k := range keys {
		if m.selfs[k] == p {
			return "S." + k
		}
	}
	return "promise"
}

func (m *Model) Format(v Value) string {
	switch x := v.(type) {
	case nil:
		return "<none>"
	case undefT:
		return "undefined"
	case int:
		return strconv.Itoa(x)
	case string:
		return strconv.Quote(x)
	case *Promise:
		return m.NameOf(x)
	case *ThenObj:
		return x.spec.ID
	case *ErrObj:
		if x.Kind == "AggregateError" {
			return "AggregateError" + m.Format(x.Errors)
		}
		return x.Kind
	case *Array:
		parts := make([]string, len(x.Elems))
		for i, e := range x.Elems {
			parts[i] = m.Format(e)
		}
		return "[" + strings.Join(parts, ",") + "]"
	case *Settled:
		return "{" + x.Status + ":" + m.Format(x.V) + "}"
	case *Fn:
		return "function"
	}
	return fmt.Sprintf("?%T", v)
}

func (m *Model) FormatLog(from, to int) []string {
	out := make([]string, 0, to-from)
	for _, e := range m.Log[from:to] {
		if e.Has {
			out = append(out, e.ID+":"+m.Format(e.V))
		} else {
			out = append(out, e.ID)
		}
	}
	return out
}

// FormatTrack renders the tracker calls; promises without a name are numbered
// in order of first appearance in the tracker sequence.
func (m *Model) FormatTrack(from, to int) []string {
	anon := map[*Promise]int{}
	out := []string{}
	for i, e := range m.Track[:to] {
		name := m.NameOf(e.P)
		if name == "promise" {
			n, ok := anon[e.P]
			if !ok {
				n = len(anon) + 1
				anon[e.P] = n
			}
			name = "anon" + strconv.Itoa(n)
		}
		if i >= from {
			out = append(out, e.Op+":"+name)
		}
	}
	return out
}

func StateName(s int) string {
	switch s {
	case Pending:
		return "pending"
	case Fulfilled:
		return "fulfilled"
	}
	return "rejected"
}
