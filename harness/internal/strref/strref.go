// Package strref is a reference model of ECMAScript String values and of the
// String operations the C06 check generates. A string is a sequence of UTF-16
// code units ([]uint16); every operation is written from the ECMA-262
// algorithm text on code units. Nothing here imports goja or x/text.
package strref

import (
	"math"
	"strconv"
	"strings"
)

// Str is an ECMAScript String value.
type Str []uint16

// FromGo converts a (valid UTF-8) Go string to UTF-16.
func FromGo(s string) Str {
	var out Str
	for _, r := range s {
		out = AppendCodePoint(out, r)
	}
	return out
}

// AppendCodePoint appends UTF16EncodeCodePoint(cp) (ECMA-262 11.1.1).
func AppendCodePoint(s Str, cp rune) Str {
	if cp <= 0xFFFF {
		return append(s, uint16(cp))
	}
	cp -= 0x10000
	return append(s, uint16(0xD800+(cp>>10)), uint16(0xDC00+(cp&0x3FF)))
}

func IsHigh(c uint16) bool      { return c >= 0xD800 && c <= 0xDBFF }
func IsLow(c uint16) bool       { return c >= 0xDC00 && c <= 0xDFFF }
func IsSurrogate(c uint16) bool { return c >= 0xD800 && c <= 0xDFFF }

// CodePoints is StringToCodePoints (ECMA-262 11.1.5): well-formed pairs are
// combined, every other surrogate code unit is a code point of its own.
func CodePoints(s Str) []rune {
	out := make([]rune, 0, len(s))
	for i := 0; i < len(s); i++ {
		c := s[i]
		if IsHigh(c) && i+1 < len(s) && IsLow(s[i+1]) {
			out = append(out, (rune(c)-0xD800)<<10+(rune(s[i+1])-0xDC00)+0x10000)
			i++
			continue
		}
		out = append(out, rune(c))
	}
	return out
}

// FromCodePoints is CodePointsToString.
func FromCodePoints(cps []rune) Str {
	var out Str
	for _, cp := range cps {
		out = AppendCodePoint(out, cp)
	}
	return out
}

// HasLoneSurrogate reports whether s is not well-formed UTF-16.
func HasLoneSurrogate(s Str) bool {
	for _, cp := range CodePoints(s) {
		if cp >= 0xD800 && cp <= 0xDFFF {
			return true
		}
	}
	return false
}

// IsASCII reports whether every code unit is below 0x80.
func IsASCII(s Str) bool {
	for _, c := range s {
		if c >= 0x80 {
			return false
		}
	}
	return true
}

// ToGoLossy is the documented JS->Go conversion: UTF-8 of the code points with
// every unpaired surrogate replaced by U+FFFD.
func ToGoLossy(s Str) string {
	var sb strings.Builder
	for _, cp := range CodePoints(s) {
		if cp >= 0xD800 && cp <= 0xDFFF {
			cp = 0xFFFD
		}
		writeUTF8(&sb, cp)
	}
	return sb.String()
}

// writeUTF8 encodes one scalar value by hand (RFC 3629).
func writeUTF8(sb *strings.Builder, cp rune) {
	switch {
	case cp < 0x80:
		sb.WriteByte(byte(cp))
	case cp < 0x800:
		sb.WriteByte(byte(0xC0 | cp>>6))
		sb.WriteByte(byte(0x80 | cp&0x3F))
	case cp < 0x10000:
		sb.WriteByte(byte(0xE0 | cp>>12))
		sb.WriteByte(byte(0x80 | (cp>>6)&0x3F))
		sb.WriteByte(byte(0x80 | cp&0x3F))
	default:
		sb.WriteByte(byte(0xF0 | cp>>18))
		sb.WriteByte(byte(0x80 | (cp>>12)&0x3F))
		sb.WriteByte(byte(0x80 | (cp>>6)&0x3F))
		sb.WriteByte(byte(0x80 | cp&0x3F))
	}
}

func Equal(a, b Str) bool {
	if len(a) != len(b) {
		return false
	}
	for i := range a {
		if a[i] != b[i] {
			return false
		}
	}
	return true
}

func Clone(a Str) Str { return append(Str{}, a...) }

func Concat(parts ...Str) Str {
	out := Str{}
	for _, p := range parts {
		out = append(out, p...)
	}
	return out
}

// Arg is a numeric argument of a String method: undefined or a Number.
type Arg struct {
	Undef bool
	V     float64
}

func U() Arg          { return Arg{Undef: true} }
func N(v float64) Arg { return Arg{V: v} }
func I(v int) Arg     { return Arg{V: float64(v)} }

// toIntOrInf is ToIntegerOrInfinity (7.1.5); undefined converts to NaN -> 0.
func toIntOrInf(a Arg) float64 {
	if a.Undef || math.IsNaN(a.V) {
		return 0
	}
	if math.IsInf(a.V, 0) {
		return a.V
	}
	return math.Trunc(a.V) + 0 // +0 turns -0 into +0
}

func clampIdx(v float64, lo, hi int) int {
	if v < float64(lo) {
		return lo
	}
	if v > float64(hi) {
		return hi
	}
	return int(v)
}

// Slice is String.prototype.slice (22.1.3.23).
func Slice(s Str, start, end Arg) Str {
	l := len(s)
	rs := toIntOrInf(start)
	var from int
	switch {
	case math.IsInf(rs, -1):
		from = 0
	case rs < 0:
		from = clampIdx(float64(l)+rs, 0, l)
	default:
		from = clampIdx(rs, 0, l)
	}
	var re float64
	if end.Undef {
		re = float64(l)
	} else {
		re = toIntOrInf(end)
	}
	var to int
	switch {
	case math.IsInf(re, -1):
		to = 0
	case re < 0:
		to = clampIdx(float64(l)+re, 0, l)
	default:
		to = clampIdx(re, 0, l)
	}
	if from >= to {
		return Str{}
	}
	return Clone(s[from:to])
}

// Substring is String.prototype.substring (22.1.3.25).
func Substring(s Str, start, end Arg) Str {
	l := len(s)
	is := toIntOrInf(start)
	var ie float64
	if end.Undef {
		ie = float64(l)
	} else {
		ie = toIntOrInf(end)
	}
	fs := clampIdx(is, 0, l)
	fe := clampIdx(ie, 0, l)
	if fs > fe {
		fs, fe = fe, fs
	}
	return Clone(s[fs:fe])
}

// Substr is String.prototype.substr (B.2.2.1).
func Substr(s Str, start, length Arg) Str {
	size := len(s)
	is := toIntOrInf(start)
	var st int
	switch {
	case math.IsInf(is, -1):
		st = 0
	case is < 0:
		st = clampIdx(float64(size)+is, 0, size)
	default:
		st = clampIdx(is, 0, size)
	}
	var il float64
	if length.Undef {
		il = float64(size)
	} else {
		il = toIntOrInf(length)
	}
	// intLength clamped between 0 and size; intEnd = min(intStart+intLength, size)
	ln := clampIdx(il, 0, size)
	e := st + ln
	if e > size {
		e = size
	}
	return Clone(s[st:e])
}

// At is String.prototype.at (22.1.3.1); ok=false means undefined.
func At(s Str, idx Arg) (Str, bool) {
	l := len(s)
	r := toIntOrInf(idx)
	var k float64
	if r >= 0 {
		k = r
	} else {
		k = float64(l) + r
	}
	if k < 0 || k >= float64(l) {
		return nil, false
	}
	return Str{s[int(k)]}, true
}

// CharAt is String.prototype.charAt (22.1.3.2).
func CharAt(s Str, pos Arg) Str {
	p := toIntOrInf(pos)
	if p < 0 || p >= float64(len(s)) {
		return Str{}
	}
	return Str{s[int(p)]}
}

// Index is s[i] for an integer index property; ok=false means undefined.
func Index(s Str, i int) (Str, bool) {
	if i < 0 || i >= len(s) {
		return nil, false
	}
	return Str{s[i]}, true
}

// toLength is ToLength (7.1.20).
func toLength(a Arg) float64 {
	l := toIntOrInf(a)
	if l <= 0 {
		return 0
	}
	if l > 9007199254740991 {
		return 9007199254740991
	}
	return l
}

// Pad is StringPad (22.1.3.17.1). fill==nil means undefined (a single space).
// The caller must keep maxLength small.
func Pad(s Str, maxLength Arg, fill Str, fillUndef bool, atStart bool) Str {
	intMax := toLength(maxLength)
	l := len(s)
	if intMax <= float64(l) {
		return Clone(s)
	}
	if fillUndef {
		fill = Str{0x20}
	}
	if len(fill) == 0 {
		return Clone(s)
	}
	fillLen := int(intMax) - l
	tf := make(Str, 0, fillLen)
	for len(tf) < fillLen {
		n := fillLen - len(tf)
		if n > len(fill) {
			n = len(fill)
		}
		tf = append(tf, fill[:n]...)
	}
	if atStart {
		return Concat(tf, s)
	}
	return Concat(s, tf)
}

// Repeat is String.prototype.repeat for a finite non-negative count.
func Repeat(s Str, n int) Str {
	out := Str{}
	for i := 0; i < n; i++ {
		out = append(out, s...)
	}
	return out
}

// IsWhiteSpaceOrLT: WhiteSpace (12.2: TAB VT FF SP NBSP ZWNBSP and every
// Space_Separator code point) and LineTerminator (12.3: LF CR LS PS).
func IsWhiteSpaceOrLT(c uint16) bool {
	switch c {
	case 0x0009, 0x000B, 0x000C, 0x0020, 0x00A0, 0xFEFF,
		0x1680, 0x202F, 0x205F, 0x3000,
		0x000A, 0x000D, 0x2028, 0x2029:
		return true
	}
	return c >= 0x2000 && c <= 0x200A
}

// Trim is TrimString (22.1.3.32.1) with where = 0 both, 1 start, 2 end.
// All white space code points are in the BMP, so trimming works on code units.
func Trim(s Str, where int) Str {
	i, j := 0, len(s)
	if where == 0 || where == 1 {
		for i < j && IsWhiteSpaceOrLT(s[i]) {
			i++
		}
	}
	if where == 0 || where == 2 {
		for j > i && IsWhiteSpaceOrLT(s[j-1]) {
			j--
		}
	}
	return Clone(s[i:j])
}

// IndexOf is StringIndexOf (6.1.4.1); -1 is not-found.
func IndexOf(s, search Str, from int) int {
	l := len(s)
	if len(search) == 0 && from <= l {
		return from
	}
	for i := from; i+len(search) <= l; i++ {
		if Equal(s[i:i+len(search)], search) {
			return i
		}
	}
	return -1
}

// LastIndexOf from the end (String.prototype.lastIndexOf with position +inf).
func LastIndexOf(s, search Str) int {
	for i := len(s) - len(search); i >= 0; i-- {
		if Equal(s[i:i+len(search)], search) {
			return i
		}
	}
	return -1
}

// GetSubstitution (22.1.3.19.1) for a match without capture groups
// (captures is empty, namedCaptures is undefined).
func GetSubstitution(matched, str Str, position int, template Str) Str {
	result := Str{}
	strLen := len(str)
	t := template
	for len(t) > 0 {
		var ref, repl Str
		switch {
		case len(t) >= 2 && t[0] == '$' && t[1] == '$':
			ref, repl = t[:2], Str{'$'}
		case len(t) >= 2 && t[0] == '$' && t[1] == '`':
			ref, repl = t[:2], str[:position]
		case len(t) >= 2 && t[0] == '$' && t[1] == '&':
			ref, repl = t[:2], matched
		case len(t) >= 2 && t[0] == '$' && t[1] == '\'':
			ref = t[:2]
			tp := position + len(matched)
			if tp > strLen {
				tp = strLen
			}
			repl = str[tp:]
		case len(t) >= 2 && t[0] == '$' && t[1] >= '0' && t[1] <= '9':
			// m = 0 captures: no index is ever in range 1..m, so the reference
			// stands for itself. With two digits the specification retries with
			// one digit; the ref is then the one-digit form "$d".
			ref = t[:2]
			repl = ref
		case len(t) >= 2 && t[0] == '$' && t[1] == '<':
			// namedCaptures is undefined
			ref, repl = t[:2], t[:2]
		default:
			ref, repl = t[:1], t[:1]
		}
		result = append(result, repl...)
		t = t[len(ref):]
	}
	return result
}

// Replace is String.prototype.replace with a String searchValue.
// If literalRepl is true the replacement text is used verbatim (this models a
// function replaceValue returning that text); otherwise it is a template.
func Replace(s, search, repl Str, literalRepl bool) Str {
	pos := IndexOf(s, search, 0)
	if pos < 0 {
		return Clone(s)
	}
	var r Str
	if literalRepl {
		r = repl
	} else {
		r = GetSubstitution(search, s, pos, repl)
	}
	return Concat(s[:pos], r, s[pos+len(search):])
}

// ReplaceAll is String.prototype.replaceAll with a String searchValue.
func ReplaceAll(s, search, repl Str, literalRepl bool) Str {
	adv := len(search)
	if adv < 1 {
		adv = 1
	}
	var positions []int
	for p := IndexOf(s, search, 0); p >= 0; p = IndexOf(s, search, p+adv) {
		positions = append(positions, p)
		if p+adv > len(s) {
			break
		}
	}
	end := 0
	result := Str{}
	for _, p := range positions {
		result = append(result, s[end:p]...)
		if literalRepl {
			result = append(result, repl...)
		} else {
			result = append(result, GetSubstitution(search, s, p, repl)...)
		}
		end = p + len(search)
	}
	if end < len(s) {
		result = append(result, s[end:]...)
	}
	return result
}

// Split is String.prototype.split with a String separator. sepUndef: the
// separator is undefined. limit < 0 means undefined (2^32-1).
func Split(s, sep Str, sepUndef bool, limit int64) []Str {
	lim := limit
	if lim < 0 {
		lim = 4294967295
	}
	if lim == 0 {
		return []Str{}
	}
	if sepUndef {
		return []Str{Clone(s)}
	}
	if len(sep) == 0 {
		n := int64(len(s))
		if lim < n {
			n = lim
		}
		out := make([]Str, 0, n)
		for i := int64(0); i < n; i++ {
			out = append(out, Str{s[i]})
		}
		return out
	}
	if len(s) == 0 {
		return []Str{{}}
	}
	out := []Str{}
	i := 0
	j := IndexOf(s, sep, 0)
	for j >= 0 {
		out = append(out, Clone(s[i:j]))
		if int64(len(out)) == lim {
			return out
		}
		i = j + len(sep)
		j = IndexOf(s, sep, i)
	}
	out = append(out, Clone(s[i:]))
	return out
}

// Join is Array.prototype.join on an array of Strings; sepUndef means ",".
func Join(parts []Str, sep Str, sepUndef bool) Str {
	if sepUndef {
		sep = Str{','}
	}
	out := Str{}
	for i, p := range parts {
		if i > 0 {
			out = append(out, sep...)
		}
		out = append(out, p...)
	}
	return out
}

// SpreadParts is the list produced by the String iterator (22.1.5.1): one
// element per code point, an unpaired surrogate being an element of its own.
func SpreadParts(s Str) []Str {
	cps := CodePoints(s)
	out := make([]Str, 0, len(cps))
	for _, cp := range cps {
		out = append(out, AppendCodePoint(nil, cp))
	}
	return out
}

// JSONQuote is QuoteJSONString (25.5.2.3, well-formed JSON.stringify).
func JSONQuote(s Str) Str {
	out := Str{'"'}
	for _, cp := range CodePoints(s) {
		switch {
		case cp == 0x08:
			out = append(out, '\\', 'b')
		case cp == 0x09:
			out = append(out, '\\', 't')
		case cp == 0x0A:
			out = append(out, '\\', 'n')
		case cp == 0x0C:
			out = append(out, '\\', 'f')
		case cp == 0x0D:
			out = append(out, '\\', 'r')
		case cp == 0x22:
			out = append(out, '\\', '"')
		case cp == 0x5C:
			out = append(out, '\\', '\\')
		case cp < 0x20 || (cp >= 0xD800 && cp <= 0xDFFF):
			h := strconv.FormatInt(int64(cp), 16)
			out = append(out, '\\', 'u')
			for i := len(h); i < 4; i++ {
				out = append(out, '0')
			}
			for i := 0; i < len(h); i++ {
				out = append(out, uint16(h[i]))
			}
		default:
			out = AppendCodePoint(out, cp)
		}
	}
	return append(out, '"')
}

// ---------------------------------------------------------------------------
// Case mapping on a closed alphabet.
//
// toUpperCase/toLowerCase map code points by the Unicode Default Case
// Conversion (UnicodeData.txt simple mappings overridden by the unconditional
// SpecialCasing.txt entries; the only context-sensitive root-locale rule is
// Final_Sigma for U+03A3). The tables below cover exactly the code points
// listed in CaseKnown; strings containing anything else are not eligible.

// CaseKnown reports whether the model knows the complete case behaviour of cp.
func CaseKnown(cp rune) bool {
	switch {
	case cp < 0x100: // ASCII and Latin-1: fully modelled below
		return true
	case cp == 0x130 || cp == 0x131 || cp == 0x178 || cp == 0x17F:
		return true
	case cp >= 0x391 && cp <= 0x3A9 && cp != 0x3A2: // Greek capitals
		return true
	case cp >= 0x3B1 && cp <= 0x3C9: // Greek small incl. final sigma
		return true
	case cp >= 0x400 && cp <= 0x45F: // Cyrillic
		return true
	case cp == 0x1E9E: // capital sharp s
		return true
	case cp == 0x212A || cp == 0x2126 || cp == 0x307: // Kelvin sign, Ohm sign, combining dot above
		return true
	case cp >= 0x4E00 && cp <= 0x4E2F: // CJK ideographs: caseless
		return true
	case cp == 0x3042 || cp == 0x3000 || cp == 0x2028 || cp == 0x2029 || cp == 0xFEFF || cp == 0x2003 || cp == 0x1680 || cp == 0x202F || cp == 0x205F:
		return true // caseless
	case cp == 0xFFFD || cp == 0x20AC || cp == 0x2603:
		return true // caseless symbols
	case cp >= 0xD800 && cp <= 0xDFFF: // unpaired surrogates: no mapping
		return true
	case cp >= 0x10400 && cp <= 0x1044F: // Deseret
		return true
	case cp >= 0x1F600 && cp <= 0x1F64F: // emoticons: caseless
		return true
	}
	return false
}

func upperCP(cp rune) []rune {
	switch {
	case cp >= 'a' && cp <= 'z':
		return []rune{cp - 0x20}
	case cp == 0xB5:
		return []rune{0x39C}
	case cp == 0xDF:
		return []rune{'S', 'S'}
	case cp >= 0xE0 && cp <= 0xFE && cp != 0xF7:
		return []rune{cp - 0x20}
	case cp == 0xFF:
		return []rune{0x178}
	case cp == 0x131:
		return []rune{'I'}
	case cp == 0x17F:
		return []rune{'S'}
	case cp == 0x3C2:
		return []rune{0x3A3}
	case cp >= 0x3B1 && cp <= 0x3C9:
		return []rune{cp - 0x20}
	case cp >= 0x430 && cp <= 0x44F:
		return []rune{cp - 0x20}
	case cp >= 0x450 && cp <= 0x45F:
		return []rune{cp - 0x50}
	case cp >= 0x10428 && cp <= 0x1044F:
		return []rune{cp - 0x28}
	}
	return []rune{cp}
}

func lowerCP(cp rune) []rune {
	switch {
	case cp >= 'A' && cp <= 'Z':
		return []rune{cp + 0x20}
	case cp >= 0xC0 && cp <= 0xDE && cp != 0xD7:
		return []rune{cp + 0x20}
	case cp == 0x130:
		return []rune{'i', 0x307}
	case cp == 0x178:
		return []rune{0xFF}
	case cp == 0x1E9E:
		return []rune{0xDF}
	case cp == 0x212A:
		return []rune{'k'}
	case cp == 0x2126:
		return []rune{0x3C9}
	case cp >= 0x391 && cp <= 0x3A9 && cp != 0x3A2:
		return []rune{cp + 0x20} // U+03A3 handled by the caller (Final_Sigma)
	case cp >= 0x410 && cp <= 0x42F:
		return []rune{cp + 0x20}
	case cp >= 0x400 && cp <= 0x40F:
		return []rune{cp + 0x50}
	case cp >= 0x10400 && cp <= 0x10427:
		return []rune{cp + 0x28}
	}
	return []rune{cp}
}

// CaseEligible: every code point is in the modelled alphabet, and for lower
// casing no U+03A3 is present (its mapping is context-sensitive).
func CaseEligible(s Str, lower bool) bool {
	for _, cp := range CodePoints(s) {
		if !CaseKnown(cp) {
			return false
		}
		if lower && cp == 0x3A3 {
			return false
		}
	}
	return true
}

func ToUpper(s Str) Str {
	out := Str{}
	for _, cp := range CodePoints(s) {
		for _, m := range upperCP(cp) {
			out = AppendCodePoint(out, m)
		}
	}
	return out
}

func ToLower(s Str) Str {
	out := Str{}
	for _, cp := range CodePoints(s) {
		for _, m := range lowerCP(cp) {
			out = AppendCodePoint(out, m)
		}
	}
	return out
}

// NormInert reports code points that every normalisation form leaves alone and
// that never interact with neighbours: ASCII, CJK unified ideographs
// U+4E00..4E2F, emoticons, and unpaired surrogates (which have no
// decomposition and combining class 0).
func NormInert(cp rune) bool {
	switch {
	case cp < 0x80:
		return true
	case cp >= 0x4E00 && cp <= 0x4E2F:
		return true
	case cp >= 0x1F600 && cp <= 0x1F64F:
		return true
	case cp >= 0xD800 && cp <= 0xDFFF:
		return true
	}
	return false
}

func AllNormInert(s Str) bool {
	for _, cp := range CodePoints(s) {
		if !NormInert(cp) {
			return false
		}
	}
	return true
}

// EncodeURIComponent (19.2.6.5 Encode with the unreserved set); ok=false means
// a URIError (unpaired surrogate).
func EncodeURIComponent(s Str) (Str, bool) {
	const hexU = "0123456789ABCDEF"
	out := Str{}
	for _, cp := range CodePoints(s) {
		if cp >= 0xD800 && cp <= 0xDFFF {
			return nil, false
		}
		if cp < 0x80 && (cp >= 'a' && cp <= 'z' || cp >= 'A' && cp <= 'Z' || cp >= '0' && cp <= '9' || strings.ContainsRune("-_.!~*'()", cp)) {
			out = append(out, uint16(cp))
			continue
		}
		var sb strings.Builder
		writeUTF8(&sb, cp)
		for _, b := range []byte(sb.String()) {
			out = append(out, '%', uint16(hexU[b>>4]), uint16(hexU[b&15]))
		}
	}
	return out, true
}

// Escape is the Annex B escape() function (B.2.1.1).
func Escape(s Str) Str {
	const hexU = "0123456789ABCDEF"
	out := Str{}
	for _, c := range s {
		switch {
		case c < 0x80 && (c >= 'a' && c <= 'z' || c >= 'A' && c <= 'Z' || c >= '0' && c <= '9' || strings.ContainsRune("@*_+-./", rune(c))):
			out = append(out, c)
		case c < 256:
			out = append(out, '%', uint16(hexU[c>>4]), uint16(hexU[c&15]))
		default:
			out = append(out, '%', 'u', uint16(hexU[c>>12]), uint16(hexU[(c>>8)&15]), uint16(hexU[(c>>4)&15]), uint16(hexU[c&15]))
		}
	}
	return out
}

// CanonicalArrayIndex returns the array index denoted by s when s is the
// canonical decimal form of an integer in 0..2^32-2.
func CanonicalArrayIndex(s Str) (uint32, bool) {
	if len(s) == 0 || len(s) > 10 {
		return 0, false
	}
	if s[0] == '0' && len(s) > 1 {
		return 0, false
	}
	var v uint64
	for _, c := range s {
		if c < '0' || c > '9' {
			return 0, false
		}
		v = v*10 + uint64(c-'0')
	}
	if v > 4294967294 {
		return 0, false
	}
	return uint32(v), true
}

// Compare orders two strings as IsLessThan does (7.2.13): lexicographically by
// code unit. It returns -1, 0 or +1.
func Compare(a, b Str) int {
	for i := 0; i < len(a) && i < len(b); i++ {
		if a[i] != b[i] {
			if a[i] < b[i] {
				return -1
			}
			return 1
		}
	}
	switch {
	case len(a) < len(b):
		return -1
	case len(a) > len(b):
		return 1
	}
	return 0
}

// IndexOfPos is String.prototype.indexOf(search, position) (22.1.3.9).
func IndexOfPos(s, search Str, position Arg) int {
	return IndexOf(s, search, clampIdx(toIntOrInf(position), 0, len(s)))
}

// Includes is String.prototype.includes(search, position) (22.1.3.8).
func Includes(s, search Str, position Arg) bool {
	return IndexOfPos(s, search, position) >= 0
}

// LastIndexOfPos is String.prototype.lastIndexOf(search, position) (22.1.3.10):
// an undefined or NaN position means +infinity.
func LastIndexOfPos(s, search Str, position Arg) int {
	l := len(s)
	var pos float64
	if position.Undef || math.IsNaN(position.V) {
		pos = math.Inf(1)
	} else {
		pos = toIntOrInf(position)
	}
	start := clampIdx(pos, 0, l)
	if len(search) > l {
		return -1
	}
	if start > l-len(search) {
		start = l - len(search)
	}
	for i := start; i >= 0; i-- {
		if Equal(s[i:i+len(search)], search) {
			return i
		}
	}
	return -1
}

// StartsWith is String.prototype.startsWith(search, position) (22.1.3.24).
func StartsWith(s, search Str, position Arg) bool {
	start := clampIdx(toIntOrInf(position), 0, len(s))
	if len(search)+start > len(s) {
		return false
	}
	return Equal(s[start:start+len(search)], search)
}

// EndsWith is String.prototype.endsWith(search, endPosition) (22.1.3.7).
func EndsWith(s, search Str, endPosition Arg) bool {
	end := len(s)
	if !endPosition.Undef {
		end = clampIdx(toIntOrInf(endPosition), 0, len(s))
	}
	start := end - len(search)
	if start < 0 {
		return false
	}
	return Equal(s[start:end], search)
}
