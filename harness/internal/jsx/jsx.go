// Package jsx holds small helpers shared by the checks: JS literal printers,
// an independent Number::toString, and a runner that turns every outcome of a
// goja call (value, error kind, Go panic) into a comparable record.
package jsx

import (
	"fmt"
	"math"
	"runtime/debug"
	"strconv"
	"strings"
	"unicode/utf16"

	"github.com/dop251/goja"
)

// NumberToString is Number::toString(x, 10) written from the specification on
// top of strconv's shortest digits (an implementation independent of goja/ftoa).
func NumberToString(f float64) string {
	if math.IsNaN(f) {
		return "NaN"
	}
	if f == 0 {
		return "0"
	}
	if math.IsInf(f, 1) {
		return "Infinity"
	}
	if math.IsInf(f, -1) {
		return "-Infinity"
	}
	if f < 0 {
		return "-" + NumberToString(-f)
	}
	// shortest digits d1..dk and exponent: f = 0.d1..dk * 10^n
	s := strconv.FormatFloat(f, 'e', -1, 64) // d.ddddde±xx
	mant, expS, _ := strings.Cut(s, "e")
	e, _ := strconv.Atoi(expS)
	digits := strings.Replace(mant, ".", "", 1)
	k := len(digits)
	n := e + 1
	switch {
	case k <= n && n <= 21:
		return digits + strings.Repeat("0", n-k)
	case 0 < n && n <= 21:
		return digits[:n] + "." + digits[n:]
	case -6 < n && n <= 0:
		return "0." + strings.Repeat("0", -n) + digits
	}
	es := "+"
	if n-1 < 0 {
		es = "-"
	}
	ea := n - 1
	if ea < 0 {
		ea = -ea
	}
	if k == 1 {
		return digits + "e" + es + strconv.Itoa(ea)
	}
	return digits[:1] + "." + digits[1:] + "e" + es + strconv.Itoa(ea)
}

// NumLit prints a JS expression (parenthesised when needed) that denotes f exactly.
func NumLit(f float64) string {
	switch {
	case math.IsNaN(f):
		return "NaN"
	case math.IsInf(f, 1):
		return "Infinity"
	case math.IsInf(f, -1):
		return "(-Infinity)"
	case f == 0 && math.Signbit(f):
		return "(-0)"
	case f < 0:
		return "(-" + NumberToString(-f) + ")"
	}
	return NumberToString(f)
}

// StrLit prints a JS string literal for a sequence of UTF-16 code units, using
// only ASCII in the source when ascii is true.
func StrLit(units []uint16, asciiOnly bool) string {
	var sb strings.Builder
	sb.WriteByte('"')
	for i := 0; i < len(units); i++ {
		c := units[i]
		switch {
		case c == '"':
			sb.WriteString(`\"`)
		case c == '\\':
			sb.WriteString(`\\`)
		case c == '\n':
			sb.WriteString(`\n`)
		case c == '\r':
			sb.WriteString(`\r`)
		case c == 0x2028 || c == 0x2029:
			fmt.Fprintf(&sb, `\u%04x`, c)
		case c < 0x20 || c == 0x7f:
			fmt.Fprintf(&sb, `\u%04x`, c)
		case c < 0x80:
			sb.WriteByte(byte(c))
		case utf16.IsSurrogate(rune(c)):
			if !asciiOnly && c >= 0xD800 && c < 0xDC00 && i+1 < len(units) && units[i+1] >= 0xDC00 && units[i+1] < 0xE000 {
				sb.WriteRune(utf16.DecodeRune(rune(c), rune(units[i+1])))
				i++
			} else {
				fmt.Fprintf(&sb, `\u%04x`, c)
			}
		default:
			if asciiOnly {
				fmt.Fprintf(&sb, `\u%04x`, c)
			} else {
				sb.WriteRune(rune(c))
			}
		}
	}
	sb.WriteByte('"')
	return sb.String()
}

// StrLitGo is StrLit for a Go string (valid UTF-8).
func StrLitGo(s string, asciiOnly bool) string {
	return StrLit(utf16.Encode([]rune(s)), asciiOnly)
}

// Outcome is the normalised result of a call into goja.
type Outcome struct {
	Kind  string // "value", "exception", "syntax", "reference", "interrupted", "stackoverflow", "othererr", "panic"
	Value goja.Value
	Err   error
	Panic interface{}
	Stack string
	Text  string // short description
}

func classify(err error) string {
	switch err.(type) {
	case *goja.Exception:
		return "exception"
	case *goja.CompilerSyntaxError:
		return "syntax"
	case *goja.CompilerReferenceError:
		return "reference"
	case *goja.InterruptedError:
		return "interrupted"
	case *goja.StackOverflowError:
		return "stackoverflow"
	}
	return "othererr"
}

// Protect runs f and captures a Go panic as an Outcome of kind "panic".
func Protect(f func() (goja.Value, error)) (out Outcome) {
	defer func() {
		if p := recover(); p != nil {
			out = Outcome{Kind: "panic", Panic: p, Stack: string(debug.Stack()), Text: fmt.Sprintf("Go panic: %v", p)}
		}
	}()
	v, err := f()
	if err != nil {
		return Outcome{Kind: classify(err), Err: err, Text: err.Error()}
	}
	return Outcome{Kind: "value", Value: v}
}

// RunString runs src on vm under Protect.
func RunString(vm *goja.Runtime, src string) Outcome {
	return Protect(func() (goja.Value, error) { return vm.RunString(src) })
}

// RunProgram runs p on vm under Protect.
func RunProgram(vm *goja.Runtime, p *goja.Program) Outcome {
	return Protect(func() (goja.Value, error) { return vm.RunProgram(p) })
}

// ExcName returns the constructor name of a thrown value ("TypeError", …) or a
// description of a primitive payload.
func ExcName(vm *goja.Runtime, err error) string {
	ex, ok := err.(*goja.Exception)
	if !ok {
		return classify(err)
	}
	v := ex.Value()
	if o, ok := v.(*goja.Object); ok {
		if c := o.Get("constructor"); c != nil {
			if co, ok := c.(*goja.Object); ok {
				if n := co.Get("name"); n != nil {
					return n.String()
				}
			}
		}
		return "object"
	}
	return "prim:" + v.String()
}
