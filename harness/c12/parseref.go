package c12

// Reference pieces for String -> Number that are not in numref: the
// NumericLiteral / JSON number recognisers and parseInt with the set of
// answers ECMA-262 permits.

import (
	"math"
	"math/big"
	"strings"

	"verifh/internal/numref"
)

func isDec(c byte) bool { return c >= '0' && c <= '9' }

func digitVal(c rune) int {
	switch {
	case c >= '0' && c <= '9':
		return int(c - '0')
	case c >= 'a' && c <= 'z':
		return int(c-'a') + 10
	case c >= 'A' && c <= 'Z':
		return int(c-'A') + 10
	}
	return 99
}

// stripSeparators removes NumericLiteralSeparators when each one stands
// between two digits of the given radix; ok=false otherwise.
func stripSeparators(s string, radix int) (string, bool) {
	if !strings.Contains(s, "_") {
		return s, true
	}
	var sb strings.Builder
	for i := 0; i < len(s); i++ {
		if s[i] == '_' {
			if i == 0 || i == len(s)-1 || digitVal(rune(s[i-1])) >= radix || digitVal(rune(s[i+1])) >= radix {
				return "", false
			}
			continue
		}
		sb.WriteByte(s[i])
	}
	return sb.String(), true
}

// literalValue decides whether text is a NumericLiteral of sloppy-mode
// ECMAScript (ECMA-262 12.9.3 + Annex B.1.1, no BigInt suffix) and returns the
// Number value of its MV, rounded once to nearest-even.
func literalValue(text string) (float64, bool) {
	if text == "" {
		return 0, false
	}
	if len(text) >= 2 && text[0] == '0' {
		radix := 0
		switch text[1] {
		case 'x', 'X':
			radix = 16
		case 'o', 'O':
			radix = 8
		case 'b', 'B':
			radix = 2
		}
		if radix != 0 {
			ds, ok := stripSeparators(text[2:], radix)
			if !ok || ds == "" {
				return 0, false
			}
			n := new(big.Int)
			rb := big.NewInt(int64(radix))
			for _, c := range ds {
				d := digitVal(c)
				if d >= radix {
					return 0, false
				}
				n.Mul(n, rb).Add(n, big.NewInt(int64(d)))
			}
			return numref.BigIntToFloat(n), true
		}
		if isDec(text[1]) {
			// LegacyOctalIntegerLiteral / NonOctalDecimalIntegerLiteral: digits only here
			octal := true
			for i := 0; i < len(text); i++ {
				if !isDec(text[i]) {
					return 0, false // forms like 08.5 are legal but not generated; 07.5 is not legal
				}
				if text[i] >= '8' {
					octal = false
				}
			}
			n := new(big.Int)
			if octal {
				n.SetString(text, 8)
			} else {
				n.SetString(text, 10)
			}
			return numref.BigIntToFloat(n), true
		}
	}
	// DecimalLiteral
	i := 0
	intStart := i
	for i < len(text) && (isDec(text[i]) || text[i] == '_') {
		i++
	}
	ip := text[intStart:i]
	fp := ""
	hasDot := false
	if i < len(text) && text[i] == '.' {
		hasDot = true
		i++
		j := i
		for i < len(text) && (isDec(text[i]) || text[i] == '_') {
			i++
		}
		fp = text[j:i]
	}
	ep := ""
	hasExp := false
	if i < len(text) && (text[i] == 'e' || text[i] == 'E') {
		hasExp = true
		i++
		j := i
		if i < len(text) && (text[i] == '+' || text[i] == '-') {
			i++
		}
		for i < len(text) && (isDec(text[i]) || text[i] == '_') {
			i++
		}
		ep = text[j:i]
	}
	if i != len(text) {
		return 0, false
	}
	if ip == "" && fp == "" {
		return 0, false
	}
	if ip == "" && !hasDot {
		return 0, false
	}
	ips, ok1 := stripSeparators(ip, 10)
	fps, ok2 := stripSeparators(fp, 10)
	es := ep
	if strings.HasPrefix(es, "+") || strings.HasPrefix(es, "-") {
		es = es[1:]
	}
	ess, ok3 := stripSeparators(es, 10)
	if !ok1 || !ok2 || !ok3 {
		return 0, false
	}
	if hasExp && ess == "" {
		return 0, false
	}
	if len(ips) > 1 && ips[0] == '0' {
		return 0, false // handled above (legacy forms) or illegal
	}
	if strings.Contains(ip, "_") && ips[0] == '0' {
		return 0, false
	}
	canon := ips
	if hasDot {
		canon += "." + fps
	}
	if hasExp {
		canon += "e" + ep[:len(ep)-len(es)] + ess
	}
	return numref.StringToNumber(canon), true
}

// isJSONNumber: ECMA-404 number grammar.
func isJSONNumber(s string) bool {
	i := 0
	if i < len(s) && s[i] == '-' {
		i++
	}
	if i >= len(s) {
		return false
	}
	if s[i] == '0' {
		i++
	} else if s[i] >= '1' && s[i] <= '9' {
		for i < len(s) && isDec(s[i]) {
			i++
		}
	} else {
		return false
	}
	if i < len(s) && s[i] == '.' {
		i++
		j := i
		for i < len(s) && isDec(s[i]) {
			i++
		}
		if i == j {
			return false
		}
	}
	if i < len(s) && (s[i] == 'e' || s[i] == 'E') {
		i++
		if i < len(s) && (s[i] == '+' || s[i] == '-') {
			i++
		}
		j := i
		for i < len(s) && isDec(s[i]) {
			i++
		}
		if i == j {
			return false
		}
	}
	return i == len(s)
}

// ParseIntRef is the result of the reference parseInt: the nearest double to
// the exact integer, plus the alternatives ECMA-262 19.2.5 step 12 allows.
type ParseIntRef struct {
	Exact  float64
	Alt20  float64 // radix 10, >20 significant digits: digits after the 20th replaced by 0
	HasAlt bool
	Approx bool // radix not in {2,4,8,10,16,32} and more than 53 bits: implementation-approximated
	Radix  int
}

// refParseInt implements parseInt(string, radix) with radix already converted by ToInt32.
func refParseInt(str string, radix int32) ParseIntRef {
	nan := ParseIntRef{Exact: math.NaN(), Alt20: math.NaN()}
	s := []rune(str)
	i := 0
	for i < len(s) && numref.IsJSSpace(s[i]) {
		i++
	}
	s = s[i:]
	neg := false
	if len(s) > 0 && (s[0] == '+' || s[0] == '-') {
		neg = s[0] == '-'
		s = s[1:]
	}
	R := int(radix)
	strip := true
	if R != 0 {
		if R < 2 || R > 36 {
			return nan
		}
		if R != 16 {
			strip = false
		}
	} else {
		R = 10
	}
	if strip && len(s) >= 2 && s[0] == '0' && (s[1] == 'x' || s[1] == 'X') {
		s = s[2:]
		R = 16
	}
	n := new(big.Int)
	a := new(big.Int)
	rb := big.NewInt(int64(R))
	cnt, sig := 0, 0
	for _, c := range s {
		d := digitVal(c)
		if d >= R {
			break
		}
		n.Mul(n, rb).Add(n, big.NewInt(int64(d)))
		a.Mul(a, rb)
		if sig > 0 || d != 0 {
			sig++
		}
		if sig <= 20 {
			a.Add(a, big.NewInt(int64(d)))
		}
		cnt++
	}
	if cnt == 0 {
		return nan
	}
	r := ParseIntRef{Radix: R}
	r.Exact = numref.BigIntToFloat(n)
	r.Alt20 = r.Exact
	if R == 10 && sig > 20 {
		r.Alt20 = numref.BigIntToFloat(a)
		r.HasAlt = true
	}
	switch R {
	case 2, 4, 8, 10, 16, 32:
	default:
		if n.BitLen() > 53 {
			r.Approx = true
		}
	}
	if neg {
		r.Exact = -r.Exact
		r.Alt20 = -r.Alt20
		if r.Exact == 0 {
			r.Exact = math.Copysign(0, -1)
			r.Alt20 = r.Exact
		}
	}
	return r
}

// isNonOctalDecimal: 08, 09, 0189 ... (NonOctalDecimalIntegerLiteral).
func isNonOctalDecimal(text string) bool {
	if len(text) < 2 || text[0] != '0' {
		return false
	}
	has89 := false
	for i := 0; i < len(text); i++ {
		if !isDec(text[i]) {
			return false
		}
		if text[i] >= '8' {
			has89 = true
		}
	}
	return has89
}
