package c12

// Exact reference model for Number -> String conversions, written from
// ECMA-262 (Number::toString, Number.prototype.toFixed / toExponential /
// toPrecision / toString(radix)) on top of math/big integers only. It shares
// no code with goja and does not use strconv for the digits (strconv is used
// by the caller as a second, independent reference).

import (
	"math"
	"math/big"
	"strconv"
	"strings"
	"sync"
)

var (
	p10mu    sync.Mutex
	p10cache []*big.Int
	bigOne   = big.NewInt(1)
	bigTwo   = big.NewInt(2)
	bigTen   = big.NewInt(10)
)

// pow10 returns 10^k (k >= 0) from a cache.
func pow10(k int) *big.Int {
	p10mu.Lock()
	defer p10mu.Unlock()
	if len(p10cache) == 0 {
		p10cache = append(p10cache, big.NewInt(1))
	}
	for len(p10cache) <= k {
		p10cache = append(p10cache, new(big.Int).Mul(p10cache[len(p10cache)-1], bigTen))
	}
	return p10cache[k]
}

// decomp: |x| = m * 2^e exactly, for finite x != 0. frac0 reports a zero
// fraction field and bexp is the biased exponent field.
func decomp(x float64) (m *big.Int, e int, frac0 bool, bexp int) {
	b := math.Float64bits(x)
	frac := b & (1<<52 - 1)
	bexp = int(b >> 52 & 0x7ff)
	if bexp == 0 {
		return new(big.Int).SetUint64(frac), -1074, frac == 0, bexp
	}
	return new(big.Int).SetUint64(frac | 1<<52), bexp - 1075, frac == 0, bexp
}

// frac is an exact non-negative rational n/d.
type frac struct{ n, d *big.Int }

func fracOf(x float64) frac {
	m, e, _, _ := decomp(x)
	if e >= 0 {
		return frac{new(big.Int).Lsh(m, uint(e)), big.NewInt(1)}
	}
	return frac{m, new(big.Int).Lsh(bigOne, uint(-e))}
}

// mulPow10 returns f * 10^k for any integer k.
func (f frac) mulPow10(k int) frac {
	if k >= 0 {
		return frac{new(big.Int).Mul(f.n, pow10(k)), f.d}
	}
	return frac{f.n, new(big.Int).Mul(f.d, pow10(-k))}
}

func (f frac) cmp(g frac) int {
	a := new(big.Int).Mul(f.n, g.d)
	b := new(big.Int).Mul(g.n, f.d)
	return a.Cmp(b)
}

// floorLog10 returns the integer e with 10^e <= f < 10^(e+1), f > 0.
func (f frac) floorLog10() int {
	est := int(math.Floor(float64(f.n.BitLen()-f.d.BitLen()) * 0.30102999566398120))
	for {
		// f < 10^est ?
		if f.cmp(frac{bigOne, bigOne}.mulPow10(est)) < 0 {
			est--
			continue
		}
		if f.cmp(frac{bigOne, bigOne}.mulPow10(est+1)) >= 0 {
			est++
			continue
		}
		return est
	}
}

// roundHalfUp returns floor(f + 1/2), whether f was exactly halfway between
// two integers, and whether f was not an integer (something was discarded).
func (f frac) roundHalfUp() (n *big.Int, tie bool, inexact bool) {
	num := new(big.Int).Lsh(f.n, 1)
	num.Add(num, f.d)
	den := new(big.Int).Lsh(f.d, 1)
	q, r := new(big.Int).QuoRem(num, den, new(big.Int))
	tie = r.Sign() == 0 && new(big.Int).Rem(f.n, f.d).Sign() != 0
	inexact = new(big.Int).Rem(f.n, f.d).Sign() != 0
	return q, tie, inexact
}

func (f frac) floor() (n *big.Int, exact bool) {
	q, r := new(big.Int).QuoRem(f.n, f.d, new(big.Int))
	return q, r.Sign() == 0
}

// RoundInfo describes what the rounding step of a formatting request did.
type RoundInfo struct {
	Tie     bool // the exact value was halfway between two candidates
	Inexact bool // a non-zero tail was discarded
	Carry   bool // rounding up carried across every digit (99..9 -> 100..0)
}

// refToFixed implements Number.prototype.toFixed for finite x and 0 <= f <= 100.
func refToFixed(x float64, f int) (string, RoundInfo) {
	var ri RoundInfo
	if math.Abs(x) >= 1e21 {
		s, _ := refToString(x)
		return s, ri
	}
	sign := ""
	if x < 0 {
		sign = "-"
		x = -x
	}
	if x == 0 {
		if f == 0 {
			return "0", ri
		}
		return "0." + strings.Repeat("0", f), ri
	}
	fr := fracOf(x).mulPow10(f)
	n, tie, inexact := fr.roundHalfUp()
	ri.Tie, ri.Inexact = tie, inexact
	fl, _ := fr.floor()
	if inexact && n.Cmp(fl) != 0 && len(n.String()) > 1 && strings.Trim(n.String()[1:], "0") == "" && n.String()[0] == '1' {
		ri.Carry = true
	}
	m := n.String()
	if f != 0 {
		if len(m) <= f {
			m = strings.Repeat("0", f+1-len(m)) + m
		}
		m = m[:len(m)-f] + "." + m[len(m)-f:]
	}
	return sign + m, ri
}

// sigDigits returns the p significant digits n (as a string of length p) and
// the decimal exponent e such that n * 10^(e-p+1) is closest to x > 0, the
// larger one on a tie (the rule of toExponential / toPrecision).
func sigDigits(x float64, p int) (digits string, e int, ri RoundInfo) {
	fr := fracOf(x)
	e = fr.floorLog10()
	sc := fr.mulPow10(p - 1 - e)
	n, tie, inexact := sc.roundHalfUp()
	ri.Tie, ri.Inexact = tie, inexact
	if n.Cmp(pow10(p)) == 0 {
		n = pow10(p - 1)
		e++
		ri.Carry = true
	}
	digits = n.String()
	if len(digits) != p {
		panic("c12 oracle: sigDigits length")
	}
	return
}

func expSuffix(e int) string {
	if e >= 0 {
		return "e+" + strconv.Itoa(e)
	}
	return "e-" + strconv.Itoa(-e)
}

// refToExponential implements toExponential(f) for finite x, 0 <= f <= 100.
func refToExponential(x float64, f int) (string, RoundInfo) {
	sign := ""
	if x < 0 {
		sign = "-"
		x = -x
	}
	var digits string
	var e int
	var ri RoundInfo
	if x == 0 {
		digits = strings.Repeat("0", f+1)
	} else {
		digits, e, ri = sigDigits(x, f+1)
	}
	m := digits
	if f != 0 {
		m = digits[:1] + "." + digits[1:]
	}
	return sign + m + expSuffix(e), ri
}

// refToPrecision implements toPrecision(p) for finite x, 1 <= p <= 100.
func refToPrecision(x float64, p int) (string, RoundInfo) {
	sign := ""
	if x < 0 {
		sign = "-"
		x = -x
	}
	var digits string
	var e int
	var ri RoundInfo
	if x == 0 {
		digits = strings.Repeat("0", p)
	} else {
		digits, e, ri = sigDigits(x, p)
		if e < -6 || e >= p {
			m := digits
			if p != 1 {
				m = digits[:1] + "." + digits[1:]
			}
			return sign + m + expSuffix(e), ri
		}
	}
	if e == p-1 {
		return sign + digits, ri
	}
	if e >= 0 {
		return sign + digits[:e+1] + "." + digits[e+1:], ri
	}
	return sign + "0." + strings.Repeat("0", -(e+1)) + digits, ri
}

// shortCand is one candidate (digits without trailing zeros, n) with
// value = 0.d1d2..dk * 10^n.
type shortCand struct {
	digits string
	n      int
}

// shortest returns, for finite x > 0, every decimal with the minimal number k
// of significant digits that converts back to x under round-to-nearest-even
// (these are the answers the normative text of Number::toString permits), and
// among them the one closest to x (Note 2 of Number::toString; closestTie is
// set when two are equally close).
func shortest(x float64) (acceptable []shortCand, closest shortCand, closestTie bool) {
	m, e, frac0, bexp := decomp(x)
	// work in units of 2^(e-2): x = 4m, upper boundary 4m+2, lower 4m-2 (4m-1 when the gap below is half)
	E := e - 2
	v := new(big.Int).Lsh(m, 2)
	hi := new(big.Int).Add(v, bigTwo)
	lo := new(big.Int).Sub(v, bigTwo)
	if frac0 && bexp > 1 {
		lo = new(big.Int).Sub(v, bigOne)
	}
	mk := func(u *big.Int) frac {
		if E >= 0 {
			return frac{new(big.Int).Lsh(u, uint(E)), big.NewInt(1)}
		}
		return frac{u, new(big.Int).Lsh(bigOne, uint(-E))}
	}
	fx, fhi, flo := mk(v), mk(hi), mk(lo)
	inclusive := m.Bit(0) == 0
	inside := func(s *big.Int, q int) bool {
		g := frac{s, big.NewInt(1)}.mulPow10(q)
		cl, ch := g.cmp(flo), g.cmp(fhi)
		if inclusive {
			return cl >= 0 && ch <= 0
		}
		return cl > 0 && ch < 0
	}
	e10 := fx.floorLog10()
	for k := 1; k <= 18; k++ {
		q := e10 - k + 1
		sf, exact := fx.mulPow10(-q).floor()
		cands := []*big.Int{sf}
		if !exact {
			cands = append(cands, new(big.Int).Add(sf, bigOne))
		}
		var ok []*big.Int
		for _, s := range cands {
			if s.Sign() > 0 && inside(s, q) {
				ok = append(ok, s)
			}
		}
		if len(ok) == 0 {
			continue
		}
		norm := func(s *big.Int) shortCand {
			d := s.String()
			n := len(d) + q
			d = strings.TrimRight(d, "0")
			return shortCand{d, n}
		}
		for _, s := range ok {
			acceptable = append(acceptable, norm(s))
		}
		if len(ok) == 1 {
			return acceptable, acceptable[0], false
		}
		// both neighbours are inside: which is closer?  |sf*10^q - x| vs |(sf+1)*10^q - x|
		// compare 2x with (2sf+1)*10^q
		mid := new(big.Int).Lsh(sf, 1)
		mid.Add(mid, bigOne)
		twox := frac{new(big.Int).Lsh(fx.n, 1), fx.d}
		c := twox.cmp(frac{mid, big.NewInt(1)}.mulPow10(q))
		switch {
		case c < 0:
			return acceptable, acceptable[0], false
		case c > 0:
			return acceptable, acceptable[1], false
		}
		// equally close: Note 2 recommends the even one
		if sf.Bit(0) == 0 {
			return acceptable, acceptable[0], true
		}
		return acceptable, acceptable[1], true
	}
	panic("c12 oracle: no shortest representation within 18 digits")
}

// fmtNumberToString lays out digits/n per Number::toString steps 6-10.
func fmtNumberToString(c shortCand) string {
	k, n, d := len(c.digits), c.n, c.digits
	switch {
	case k <= n && n <= 21:
		return d + strings.Repeat("0", n-k)
	case 0 < n && n <= 21:
		return d[:n] + "." + d[n:]
	case -6 < n && n <= 0:
		return "0." + strings.Repeat("0", -n) + d
	}
	if k == 1 {
		return d + expSuffix(n-1)
	}
	return d[:1] + "." + d[1:] + expSuffix(n-1)
}

// fmtExponentialShortest lays out digits/n the way toExponential(undefined) does.
func fmtExponentialShortest(c shortCand) string {
	d := c.digits
	if len(d) == 1 {
		return d + expSuffix(c.n-1)
	}
	return d[:1] + "." + d[1:] + expSuffix(c.n-1)
}

// refToString returns the recommended Number::toString(x) (radix 10) and every
// string the normative text permits.
func refToString(x float64) (best string, all []string) {
	return refShortestWith(x, fmtNumberToString, "0")
}

func refToExponentialShortest(x float64) (best string, all []string) {
	return refShortestWith(x, fmtExponentialShortest, "0e+0")
}

func refShortestWith(x float64, lay func(shortCand) string, zero string) (best string, all []string) {
	switch {
	case math.IsNaN(x):
		return "NaN", []string{"NaN"}
	case x == 0:
		return zero, []string{zero}
	case math.IsInf(x, 1):
		return "Infinity", []string{"Infinity"}
	case math.IsInf(x, -1):
		return "-Infinity", []string{"-Infinity"}
	}
	sign := ""
	if x < 0 {
		sign = "-"
		x = -x
	}
	acc, cl, _ := shortest(x)
	for _, c := range acc {
		all = append(all, sign+lay(c))
	}
	return sign + lay(cl), all
}

// parseRadix parses [-]digits[.digits] in the given radix (lower-case letters
// only, as Number.prototype.toString produces) into an exact rational.
func parseRadix(s string, radix int) (*big.Rat, bool) {
	neg := false
	if strings.HasPrefix(s, "-") {
		neg = true
		s = s[1:]
	}
	ip, fp, hasDot := strings.Cut(s, ".")
	if ip == "" || (hasDot && fp == "") {
		return nil, false
	}
	dv := func(c byte) int {
		switch {
		case c >= '0' && c <= '9':
			return int(c - '0')
		case c >= 'a' && c <= 'z':
			return int(c-'a') + 10
		}
		return 99
	}
	n := new(big.Int)
	rb := big.NewInt(int64(radix))
	for i := 0; i < len(ip); i++ {
		d := dv(ip[i])
		if d >= radix {
			return nil, false
		}
		n.Mul(n, rb)
		n.Add(n, big.NewInt(int64(d)))
	}
	den := big.NewInt(1)
	for i := 0; i < len(fp); i++ {
		d := dv(fp[i])
		if d >= radix {
			return nil, false
		}
		n.Mul(n, rb)
		n.Add(n, big.NewInt(int64(d)))
		den.Mul(den, rb)
	}
	r := new(big.Rat).SetFrac(n, den)
	if neg {
		r.Neg(r)
	}
	return r, true
}

// exactIntOf returns x as a big.Int when x is an integer-valued finite double.
func exactIntOf(x float64) (*big.Int, bool) {
	if math.IsNaN(x) || math.IsInf(x, 0) || x != math.Trunc(x) {
		return nil, false
	}
	if x == 0 {
		return new(big.Int), true
	}
	neg := x < 0
	m, e, _, _ := decomp(math.Abs(x))
	var n *big.Int
	if e >= 0 {
		n = new(big.Int).Lsh(m, uint(e))
	} else {
		n = new(big.Int).Rsh(m, uint(-e))
	}
	if neg {
		n.Neg(n)
	}
	return n, true
}
