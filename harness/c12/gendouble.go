package c12

import (
	"math"
	"math/big"
	"strconv"
	"strings"

	"pgregory.net/rapid"
)

func fromBits(b uint64) float64 { return math.Float64frombits(b) }

// ulpStep moves x by k representable steps (k may be negative); sign-magnitude
// ordering of the bit patterns makes this a plain integer addition for x>0.
func ulpStep(x float64, k int) float64 {
	if math.IsNaN(x) || math.IsInf(x, 0) {
		return x
	}
	neg := math.Signbit(x)
	b := int64(math.Float64bits(math.Abs(x)))
	b += int64(k)
	if b < 0 {
		b = -b
		neg = !neg
	}
	if b >= 0x7ff0000000000000 {
		b = 0x7fefffffffffffff
	}
	r := math.Float64frombits(uint64(b))
	if neg {
		r = -r
	}
	return r
}

var boundaryMantissas = []uint64{0, 1, 2, 3, 1<<52 - 1, 1<<52 - 2, 0x5555555555555, 0xAAAAAAAAAAAAA, 1 << 51, 1<<51 - 1, 1<<51 + 1, 0x8000000000001, 0xFFFFFFFFFFFFE}

// nearestDouble rounds the decimal digits*10^exp10 to a double (generator use
// only; this is not an oracle, any double is a legal test input).
func nearestDouble(digits string, exp10 int) float64 {
	n, ok := new(big.Int).SetString(digits, 10)
	if !ok {
		return 0
	}
	r := new(big.Rat).SetInt(n)
	if exp10 >= 0 {
		r.Mul(r, new(big.Rat).SetInt(pow10(exp10)))
	} else {
		r.Quo(r, new(big.Rat).SetInt(pow10(-exp10)))
	}
	f, _ := r.Float64()
	return f
}

func randDigits(t *rapid.T, n int, label string) string {
	if n <= 0 {
		return ""
	}
	var sb strings.Builder
	// 18 digits per draw
	for sb.Len() < n {
		v := urng(t, label, 0, 999999999999999999)
		s := strconv.FormatUint(v, 10)
		sb.WriteString(strings.Repeat("0", 18-len(s)))
		sb.WriteString(s)
	}
	return sb.String()[:n]
}

// randDigitsNZ: n digits, first one non-zero.
func randDigitsNZ(t *rapid.T, n int, label string) string {
	d := []byte(randDigits(t, n, label))
	if d[0] == '0' {
		d[0] = byte('1' + rng(t, label+"0", 0, 8))
	}
	return string(d)
}

// genDouble draws a double from the structured distribution of DESIGN.md C12.
func genDouble(t *rapid.T) (x float64, class string) {
	cls := rng(t, "dclass", 0, 99)
	switch {
	case cls < 3: // doubles next to a midpoint that is itself a short decimal D*10^e (shortest-digit interval endpoints)
		_, _, lo, hi := shortMidpoint(t)
		x = lo
		if coin(t, "smhi") {
			x = hi
		}
		class = "short-midpoint"
	case cls < 14: // uniform over bit patterns
		b := u64(t, "bits")
		x = fromBits(b)
		if math.IsNaN(x) || math.IsInf(x, 0) {
			x = fromBits(b &^ (1 << 62))
		}
		class = "uniform"
	case cls < 22: // every exponent x boundary mantissa
		e := uint64(rng(t, "bexp", 0, 2046))
		var m uint64
		if coin(t, "bm") {
			m = pick(t, "mant", boundaryMantissas)
		} else {
			m = urng(t, "mantr", 0, 1<<52-1)
		}
		x = fromBits(e<<52 | m)
		class = "exp-x-mantissa"
	case cls < 30: // powers of two +-0..2 ulp
		k := rng(t, "p2", -1074, 1023)
		x = math.Ldexp(1, k)
		x = ulpStep(x, rng(t, "ulp", -2, 2))
		class = "pow2"
	case cls < 40: // powers of ten +-0..2 ulp
		k := rng(t, "p10", -323, 308)
		x = nearestDouble("1", k)
		x = ulpStep(x, rng(t, "ulp", -2, 2))
		class = "pow10"
	case cls < 54: // subnormals, every bit length
		bl := rng(t, "sbl", 1, 52)
		m := urng(t, "smant", 1<<(bl-1), 1<<bl-1)
		x = fromBits(m)
		class = "subnormal"
	case cls < 60: // 2^53 neighbourhood
		sub := rng(t, "n53", 0, 2)
		switch sub {
		case 0:
			x = float64(int64(1)<<53 + int64(rng(t, "d53", -300, 300)))
		case 1:
			x = ulpStep(9007199254740992, rng(t, "u53", -50, 50))
		default:
			x = float64(int64(1)<<53+int64(rng(t, "d53", -300, 300))) / float64(int64(1)<<uint(rng(t, "sh53", 1, 6)))
		}
		class = "near2^53"
	case cls < 68: // integers of every magnitude, incl. the 1e21 threshold
		sub := rng(t, "isub", 0, 4)
		switch sub {
		case 0:
			x = float64(rng(t, "i", 0, 1000))
		case 1:
			x = float64(rapid.Int64Range(0, 1<<31).Draw(t, "i"))
		case 2:
			x = float64(rapid.Int64Range(0, 1<<53).Draw(t, "i"))
		case 3:
			x = ulpStep(1e21, rng(t, "u21", -3, 3))
		default:
			nd := rng(t, "ind", 16, 25)
			x = nearestDouble(randDigitsNZ(t, nd, "idig"), 0)
		}
		class = "integer"
	case cls < 78: // short decimals d1..dk * 10^e (where toFixed/toPrecision boundaries live)
		nd := rng(t, "snd", 1, 17)
		e := rng(t, "se", -30, 25)
		if rng(t, "swide", 0, 3) == 0 {
			e = rng(t, "sew", -330, 300)
		}
		x = nearestDouble(randDigitsNZ(t, nd, "sdig"), e-nd)
		class = "short-decimal"
	case cls < 86: // exactly representable ties: odd / 2^(f+1) has f+1 fraction digits, the last one 5
		f := rng(t, "tf", 0, 60)
		bl := rng(t, "tbl", 1, 53)
		q := urng(t, "tq", 1<<(bl-1), 1<<bl-1) | 1
		x = math.Ldexp(float64(q), -(f + 1))
		class = "dyadic-tie"
	case cls < 92: // nearest double to (k+1/2)*10^-f (not representable: just above / below)
		f := rng(t, "hf", 0, 25)
		nd := rng(t, "hnd", 1, 16)
		x = nearestDouble(randDigits(t, nd, "hdig")+"5", -(f + 1))
		x = ulpStep(x, rng(t, "ulp", -1, 1))
		if x == 0 {
			x = 0.5
		}
		class = "near-half"
	case cls < 97: // 99..9 patterns: carry propagation
		nn := rng(t, "nn", 1, 20)
		e := rng(t, "ne", -25, 25)
		tail := pick(t, "ntail", []string{"", "5", "4", "49", "51", "9"})
		x = nearestDouble(strings.Repeat("9", nn)+tail, e-nn)
		x = ulpStep(x, rng(t, "ulp", -1, 1))
		class = "nines"
	default: // specials
		x = pick(t, "special", []float64{0, math.Copysign(0, -1), math.NaN(), math.Inf(1), math.Inf(-1),
			math.MaxFloat64, math.SmallestNonzeroFloat64, 2.2250738585072014e-308, 2.225073858507201e-308,
			1e21, 1e-6, 1e-7, 123456789012345680000, 0.000001, 0.0000001, 5e-324, 1.7976931348623157e308, 4294967296, 0.5, 1.5, 2.5})
		class = "special"
	}
	if class != "special" && class != "subnormal" && rng(t, "neg", 0, 3) == 0 {
		x = -x
	}
	if class == "subnormal" && coin(t, "neg") {
		x = -x
	}
	return
}

// shortInfo: number of significant digits k and the decimal point position n
// of the shortest representation (generator guidance only).
func shortInfo(x float64) (k, n int) {
	if x == 0 || math.IsNaN(x) || math.IsInf(x, 0) {
		return 1, 1
	}
	s := strconv.FormatFloat(math.Abs(x), 'e', -1, 64)
	mant, es, _ := strings.Cut(s, "e")
	e, _ := strconv.Atoi(es)
	return len(mant) - strings.Count(mant, "."), e + 1
}

// ---- unbiased draws ----
// rapid's integer generators favour small magnitudes (good for shrinking, bad
// for "uniform over bit patterns"). Every draw below still comes from rapid,
// but two draws are mixed through splitmix64 so that the distribution over the
// requested range is flat.

func mix64(x uint64) uint64 {
	x += 0x9e3779b97f4a7c15
	x = (x ^ (x >> 30)) * 0xbf58476d1ce4e5b9
	x = (x ^ (x >> 27)) * 0x94d049bb133111eb
	return x ^ (x >> 31)
}

func u64(t *rapid.T, label string) uint64 {
	a := rapid.Uint64().Draw(t, label)
	b := rapid.Uint64().Draw(t, label)
	return mix64(mix64(a) + b)
}

// urng: uniform in [lo, hi].
func urng(t *rapid.T, label string, lo, hi uint64) uint64 {
	if hi <= lo {
		return lo
	}
	span := hi - lo + 1
	if span == 0 {
		return u64(t, label)
	}
	return lo + u64(t, label)%span
}

func rng(t *rapid.T, label string, lo, hi int) int {
	if hi <= lo {
		return lo
	}
	return lo + int(u64(t, label)%uint64(hi-lo+1))
}

func coin(t *rapid.T, label string) bool { return u64(t, label)&1 == 1 }

func pick[T any](t *rapid.T, label string, l []T) T { return l[rng(t, label, 0, len(l)-1)] }

// shortMidpoint draws D and e (1..23) such that D*10^e = (D*5^e)*2^e with
// D*5^e an odd 54-bit integer: a decimal of few digits that lies exactly
// halfway between the adjacent doubles lo and hi (1e23 is the classic one).
func shortMidpoint(t *rapid.T) (D uint64, e int, lo, hi float64) {
	e = rng(t, "sme", 1, 23)
	p5 := uint64(1)
	for i := 0; i < e; i++ {
		p5 *= 5
	}
	dmin := (uint64(1)<<53)/p5 + 1
	dmax := (uint64(1)<<54 - 1) / p5
	D = urng(t, "smd", dmin, dmax) | 1
	if D > dmax {
		D -= 2
	}
	if D < dmin {
		D = dmin | 1
	}
	M := D * p5
	lo = math.Ldexp(float64((M-1)/2), e+1)
	hi = math.Ldexp(float64((M+1)/2), e+1)
	return
}
