package c12

import (
	"fmt"
	"math"
	"math/big"
	"strconv"
	"strings"

	"github.com/dop251/goja"
	"pgregory.net/rapid"

	"verifh/internal/evid"
	"verifh/internal/jsx"
	"verifh/internal/numref"
)

// S2NCase: one numeric text presented to every string -> number entry point.
type S2NCase struct {
	Kind     string `json:"kind"` // dec, hex, oct, bin, legacy, radix
	Class    string `json:"class"`
	Text     string `json:"text"` // unsigned numeric text
	Sign     string `json:"sign"`
	Lead     string `json:"lead"`  // leading white space
	Trail    string `json:"trail"` // trailing white space (Number) ...
	Junk     string `json:"junk"`  // ... or trailing junk (parseFloat / parseInt)
	Radix    string `json:"radix"` // JS expression of parseInt's radix argument ("" = none)
	RadixNum string `json:"radix_num"`
	ViaGo    bool   `json:"via_go"` // strings handed over from Go (vm.Set) instead of JS string literals
}

const s2nPrelude = `
function T(f){ try { return f(); } catch (e) { return "E:" + (e && e.constructor && e.constructor.name); } }
`

var s2nPrg = goja.MustCompile("c12s2n.js", s2nPrelude, false)

type s2nForm struct {
	name string
	js   string
	want func() (vals []float64, approx bool)
}

func bitsEq(a, b float64) bool { return numref.SameValue(a, b) }

func withinUlp(a, b float64) bool {
	if math.IsNaN(a) || math.IsNaN(b) {
		return false
	}
	return a == b || ulpStep(b, 1) == a || ulpStep(b, -1) == a
}

func judgeS2N(c *S2NCase) *evid.Failure {
	fail := func(key, msg string, exp, obs interface{}) *evid.Failure {
		return &evid.Failure{Check: "s2n", Key: key, Msg: msg, Case: c, Expected: exp, Observed: obs}
	}
	S := c.Lead + c.Sign + c.Text + c.Trail
	P := c.Lead + c.Sign + c.Text + c.Junk
	rnum, rundef := parseArgNum(c.RadixNum)
	var r32 int32
	if !rundef {
		r32 = numref.ToInt32(rnum)
	}

	// ---- oracle, two references ----
	wantNumber := numref.StringToNumber(S)
	core := c.Sign + c.Text
	switch c.Kind {
	case "dec":
		if !strings.Contains(core, "_") && !strings.ContainsAny(core, "xXpPnNiI") {
			f2, err := strconv.ParseFloat(core, 64)
			ne, isNum := err.(*strconv.NumError)
			if err == nil || (isNum && ne.Err == strconv.ErrRange) {
				if !bitsEq(f2, wantNumber) {
					return fail("harness", fmt.Sprintf("references disagree on %q: big=%s strconv=%s", core, fmtF(wantNumber), fmtF(f2)), nil, nil)
				}
			}
		}
	case "hex", "oct", "bin":
		if c.Sign == "" && len(c.Text) > 2 {
			if n, ok := new(big.Int).SetString(c.Text[2:], map[string]int{"hex": 16, "oct": 8, "bin": 2}[c.Kind]); ok {
				f2, _ := new(big.Float).SetInt(n).Float64()
				if !bitsEq(f2, wantNumber) {
					return fail("harness", fmt.Sprintf("references disagree on %q: rat=%s bigfloat=%s", core, fmtF(wantNumber), fmtF(f2)), nil, nil)
				}
			}
		}
	}
	pi := refParseInt(P, r32)
	wantPF := numref.ParseFloat(P)

	vm := goja.New()
	if o := jsx.RunProgram(vm, s2nPrg); o.Kind != "value" {
		return fail("harness", "prelude failed: "+o.Text, nil, nil)
	}
	var decl string
	if c.ViaGo {
		vm.Set("S", S)
		vm.Set("P", P)
	} else {
		decl = "var S = " + jsx.StrLitGo(S, true) + ", P = " + jsx.StrLitGo(P, true) + ";\n"
	}
	radixArg := ""
	if c.Radix != "" {
		radixArg = ", " + c.Radix
	}
	names := []string{"Number(S)", "+S", "S*1", "parseFloat(P)", "parseInt(P" + radixArg + ")"}
	src := decl + "[T(() => Number(S)), T(() => +S), T(() => S*1), T(() => parseFloat(P)), T(() => parseInt(P" + radixArg + "))"
	jsonOK := isJSONNumber(core)
	if jsonOK {
		src += ", T(() => JSON.parse(" + jsx.StrLitGo(core, true) + ")), T(() => JSON.parse(" + jsx.StrLitGo("[ "+core+" ]", true) + ")[0])"
		names = append(names, "JSON.parse(text)", "JSON.parse([text])[0]")
	}
	src += "]"
	o := jsx.RunString(vm, src)
	kk := c.Kind
	if o.Kind != "value" {
		return fail("outcome:"+o.Kind+":"+kk, "script did not complete: "+o.Text+"\n"+src+"\n"+o.Stack, nil, nil)
	}
	res, ok := o.Value.Export().([]interface{})
	if !ok || len(res) != len(names) {
		return fail("harness", "unexpected result shape", nil, nil)
	}
	num := func(v interface{}) (float64, bool) {
		switch n := v.(type) {
		case int64:
			return float64(n), true
		case float64:
			return n, true
		case int:
			return float64(n), true
		}
		return 0, false
	}
	long := ""
	if sigDigitsOf(c) > 20 {
		long = ":long"
	}
	for i, name := range names {
		got, isNum := num(res[i])
		if !isNum {
			return fail("type:"+formKey(i)+":"+kk, fmt.Sprintf("%s with S=%q P=%q returned %v (%T), not a number", name, S, P, res[i], res[i]), nil, fmt.Sprint(res[i]))
		}
		switch i {
		case 0, 1, 2:
			if !bitsEq(got, wantNumber) {
				return fail("tonumber:"+kk+long, fmt.Sprintf("%s with S=%q gave %s, the nearest double to the exact value is %s", name, S, fmtF(got), fmtF(wantNumber)), fmtF(wantNumber), fmtF(got))
			}
		case 3:
			if !bitsEq(got, wantPF) {
				return fail("parseFloat:"+kk+long, fmt.Sprintf("%s with P=%q gave %s, the nearest double to the value of the longest StrDecimalLiteral prefix is %s", name, P, fmtF(got), fmtF(wantPF)), fmtF(wantPF), fmtF(got))
			}
		case 4:
			if bitsEq(got, pi.Exact) || (pi.HasAlt && bitsEq(got, pi.Alt20)) {
				continue
			}
			if pi.Approx && withinUlp(got, pi.Exact) {
				continue
			}
			rk := "r" + strconv.Itoa(pi.Radix)
			return fail("parseInt:"+rk+long, fmt.Sprintf("%s with P=%q gave %s; nearest double to the exact integer is %s (20-digit alternative %s, radix %d)", name, P, fmtF(got), fmtF(pi.Exact), fmtF(pi.Alt20), pi.Radix), fmtF(pi.Exact), fmtF(got))
		default:
			w := numref.StringToNumber(core)
			if !bitsEq(got, w) {
				return fail("json:"+kk+long, fmt.Sprintf("%s with text=%q gave %s, the nearest double is %s", name, core, fmtF(got), fmtF(w)), fmtF(w), fmtF(got))
			}
		}
	}

	// ---- the same text as a source literal ----
	if lv, ok := literalValue(c.Text); ok && !isNonOctalDecimal(c.Text) {
		want := lv
		if c.Sign == "-" {
			want = -lv
		}
		lsrc := "(" + c.Sign + c.Text + ")"
		if c.Kind == "dec" && strings.HasSuffix(c.Text, ".") {
			lsrc = "(" + c.Sign + c.Text + " )"
		}
		vm2 := goja.New()
		o := jsx.RunString(vm2, lsrc)
		if o.Kind != "value" {
			return fail("literal:outcome:"+o.Kind+":"+kk, fmt.Sprintf("source %s did not evaluate: %s", lsrc, o.Text), fmtF(want), o.Text)
		}
		got, isNum := num(o.Value.Export())
		if !isNum || !bitsEq(got, want) {
			return fail("literal:"+kk+long, fmt.Sprintf("numeric literal %s evaluated to %v, the nearest double to its exact value is %s", lsrc, o.Value.Export(), fmtF(want)), fmtF(want), fmt.Sprint(o.Value.Export()))
		}
		// also inside a function body and as a property value (constant folding / literal pools)
		lsrc2 := "(function(){ var o = {v: " + c.Sign + c.Text + " }; return [o.v, " + c.Sign + c.Text + " ][1]; })()"
		o = jsx.RunString(vm2, lsrc2)
		if o.Kind != "value" {
			return fail("literal:outcome:"+o.Kind+":"+kk, fmt.Sprintf("source %s did not evaluate: %s", lsrc2, o.Text), fmtF(want), o.Text)
		}
		got, isNum = num(o.Value.Export())
		if !isNum || !bitsEq(got, want) {
			return fail("literal:"+kk+long, fmt.Sprintf("numeric literal in %s evaluated to %v, the nearest double to its exact value is %s", lsrc2, o.Value.Export(), fmtF(want)), fmtF(want), fmt.Sprint(o.Value.Export()))
		}
	}
	return nil
}

func formKey(i int) string {
	switch i {
	case 0, 1, 2:
		return "tonumber"
	case 3:
		return "parseFloat"
	case 4:
		return "parseInt"
	}
	return "json"
}

// sigDigitsOf counts the significant digits of the case's numeric text.
func sigDigitsOf(c *S2NCase) int {
	t := c.Text
	if c.Kind == "hex" || c.Kind == "oct" || c.Kind == "bin" {
		if len(t) > 2 {
			t = t[2:]
		}
	}
	if c.Kind == "dec" {
		if i := strings.IndexAny(t, "eE"); i >= 0 {
			t = t[:i]
		}
	}
	t = strings.NewReplacer(".", "", "_", "").Replace(t)
	t = strings.TrimLeft(t, "0")
	if c.Kind == "dec" {
		t = strings.TrimRight(t, "0")
	}
	return len(t)
}

// ---- generators ----

// exactDecimal returns digits, q with m*2^e == digits * 10^q exactly (m > 0).
func exactDecimal(m *big.Int, e int) (string, int) {
	if e >= 0 {
		return new(big.Int).Lsh(m, uint(e)).String(), 0
	}
	p5 := new(big.Int).Exp(big.NewInt(5), big.NewInt(int64(-e)), nil)
	return new(big.Int).Mul(m, p5).String(), e
}

func incDec(d string) string {
	n, _ := new(big.Int).SetString(d, 10)
	return n.Add(n, bigOne).String()
}

func decDec(d string) string {
	n, _ := new(big.Int).SetString(d, 10)
	if n.Sign() == 0 {
		return "0"
	}
	return n.Sub(n, bigOne).String()
}

// layoutDecimal spells digits*10^q as a StrDecimalLiteral in a random layout.
func layoutDecimal(t *rapid.T, digits string, q int) string {
	L := len(digits)
	mode := rng(t, "layout", 0, 4)
	p := L // digits before the point
	switch mode {
	case 0:
		p = L
	case 1:
		p = 1
	case 2:
		p = rng(t, "point", 0, L)
	default:
		// positional notation when it stays reasonably short
		if q >= 0 && q <= 40 {
			digits += strings.Repeat("0", q)
			L = len(digits)
			q = 0
			p = L
		} else if q < 0 && -q <= L+40 {
			if -q >= L {
				digits = strings.Repeat("0", -q-L+1) + digits
				L = len(digits)
			}
			p = L + q
		} else {
			p = 1
		}
	}
	exp := q + (L - p)
	ip, fp := digits[:p], digits[p:]
	hasDot := fp != ""
	switch rng(t, "deco", 0, 9) {
	case 0:
		ip = strings.Repeat("0", rng(t, "lz", 1, 3)) + ip
	case 1:
		if hasDot {
			fp += strings.Repeat("0", rng(t, "tz", 1, 3))
		}
	case 2:
		if !hasDot && ip != "" {
			hasDot = true // "5."
		}
	}
	if ip == "" && (!hasDot || fp == "" || coin(t, "zeroint")) {
		ip = "0"
	}
	s := ip
	if hasDot {
		s += "." + fp
	}
	if exp != 0 || rng(t, "e0", 0, 5) == 0 {
		e := pick(t, "echar", []string{"e", "e", "E"})
		sg := ""
		ae := exp
		if exp < 0 {
			sg = "-"
			ae = -exp
		} else if rng(t, "eplus", 0, 2) == 0 {
			sg = "+"
		}
		es := strconv.Itoa(ae)
		if rng(t, "ezero", 0, 7) == 0 {
			es = strings.Repeat("0", rng(t, "ez", 1, 3)) + es
		}
		s += e + sg + es
	}
	return s
}

var decEdges = []string{"0", "0.0", ".0", "0e5", "00", "1e400", "1e-400", "1e99999999999999999999", "0e99999999999999999999", "1e-99999999999999999999",
	"0.1e-99999999999999999999", "4.9406564584124654e-324", "2.4703282292062327e-324", "2.4703282292062328e-324", "2.4703282292062327208e-324", "2.4703282292062327209e-324",
	"1.7976931348623157e308", "1.7976931348623158e308", "1.7976931348623159e308", "17976931348623158079372897140530341507993413271003782693617377898044496829276475094664901797758720709633028641669288791094655554785194040263065748867150582068190890200070838367627385484581771153176447573027006985557136695962284291481986083893647529271907416844436551070434271155969950809304288017790417449779.2",
	"17976931348623158079372897140530341507993413271003782693617377898044496829276475094664901797758720709633028641669288791094655554785194040263065748867150582068190890200070838367627385484581771153176447573027006985557136695962284291481986083893647529271907416844436551070434271155969950809304288017790417449728",
	"9007199254740993", "9007199254740992.5", "9007199254740993.0000000000000000000000001", "123456789012345678901234567890", "Infinity", "1e21", "1e22", "1e23", "8.5e22", "0.000001", "1.", ".5", "5e", "5e+", ".", "e5", ".e5", "1.e5",
	"2.2250738585072011e-308", "2.2250738585072012e-308", "2.2250738585072014e-308", "2.2250738585072009e-308", "6.631236871469758276785396630275967243399099947355303144249971758736286630139265439618068200788048744105960420552601852889715006376325666595539603330361800519107591783233358492337208057849499360899425128640718856616503093444922854759159988160304439909868291973931426625698663157749836252274523485312442358651207051292453083278116143932569727918709786004497872322193856150225415211997283078496319412124640111777216148110752815101775295719811974338451936095907419622417538473679495148632480391435931767981122396703443803335529756003353209830071832230689201383015598792184172909927924176339315507402234836120730914783168400715462440053817592702766213559042115986763819482654128770595766806872783349146967171293949598850675682115696218943412532098591327667236328125E-316"}

// genDecText draws an unsigned decimal numeric text.
func genDecText(t *rapid.T) (text, class string) {
	cls := rng(t, "tclass", 0, 99)
	switch {
	case cls < 42: // on / just above / just below the midpoint between two adjacent doubles
		x, _ := genDouble(t)
		x = math.Abs(x)
		if math.IsNaN(x) || math.IsInf(x, 0) {
			x = math.MaxFloat64
		}
		if rng(t, "b0", 0, 30) == 0 {
			x = pick(t, "bedge", []float64{0, math.MaxFloat64, math.SmallestNonzeroFloat64, 2.2250738585072014e-308, 2.225073858507201e-308})
		}
		var m *big.Int
		var e int
		if x == 0 {
			m, e = big.NewInt(1), -1075
		} else {
			mm, ee, _, _ := decomp(x)
			which := rng(t, "bwhich", 0, 9)
			switch {
			case which < 5: // midpoint above
				m, e = new(big.Int).Lsh(mm, 1), ee-1
				m.Add(m, bigOne)
			case which < 9: // midpoint below
				m, e = new(big.Int).Lsh(mm, 1), ee-1
				m.Sub(m, bigOne)
			default: // x itself
				m, e = mm, ee
			}
		}
		digits, q := exactDecimal(m, e)
		per := rng(t, "perturb", 0, 6)
		class = "boundary-on"
		switch per {
		case 0, 1:
		case 2: // above: append 0..0 1
			j := rng(t, "pj", 0, 30)
			if len(digits)+j+1 > 800 {
				j = 0
			}
			digits += strings.Repeat("0", j) + "1"
			q -= j + 1
			class = "boundary-above"
		case 3: // above: +1 unit in the last place
			digits = incDec(digits)
			class = "boundary-above"
		case 4: // below: -1 unit, then 9..9
			j := rng(t, "pj", 0, 30)
			if len(digits)+j > 800 {
				j = 0
			}
			digits = decDec(digits) + strings.Repeat("9", j)
			q -= j
			class = "boundary-below"
		case 5: // truncated to L digits (below, when the tail is non-zero)
			if len(digits) > 18 {
				L := rng(t, "pl", 17, len(digits)-1)
				q += len(digits) - L
				digits = digits[:L]
				class = "boundary-truncated"
			}
		default: // rounded up at L digits
			if len(digits) > 18 {
				L := rng(t, "pl", 17, len(digits)-1)
				q += len(digits) - L
				digits = incDec(digits[:L])
				class = "boundary-roundedup"
			}
		}
		digits = strings.TrimLeft(digits, "0")
		if digits == "" {
			digits = "0"
		}
		return layoutDecimal(t, digits, q), class
	case cls < 55: // long random digit strings, exponent window [-400,400]
		L := rng(t, "rl", 18, 800)
		if coin(t, "rshort") {
			L = rng(t, "rl2", 18, 60)
		}
		digits := randDigitsNZ(t, L, "rdig")
		e10 := rng(t, "re", -330, 310)
		if rng(t, "rwide", 0, 5) == 0 {
			e10 = rng(t, "rew", -400, 400)
		}
		return layoutDecimal(t, digits, e10-L+1), "random-long"
	case cls < 72:
		L := rng(t, "sl", 1, 20)
		digits := randDigitsNZ(t, L, "sdig")
		e10 := rng(t, "se", -30, 30)
		if rng(t, "swide", 0, 3) == 0 {
			e10 = rng(t, "sew", -345, 312)
		}
		return layoutDecimal(t, digits, e10-L+1), "short"
	case cls < 80: // plain integers of 15..40 digits (parseInt's 20-digit rule, 2^53..2^64 range)
		L := rng(t, "il", 15, 40)
		return randDigitsNZ(t, L, "idig"), "integer-digits"
	case cls < 92: // decimal renderings of a double: shortest, 17 digits, 20+ digits
		x, _ := genDouble(t)
		x = math.Abs(x)
		if math.IsNaN(x) || math.IsInf(x, 0) {
			x = 1
		}
		switch rng(t, "rtk", 0, 3) {
		case 0:
			return jsx.NumberToString(x), "double-shortest"
		case 1:
			return strconv.FormatFloat(x, 'e', 16, 64), "double-17"
		case 2:
			return strconv.FormatFloat(x, 'e', rng(t, "rtp", 17, 40), 64), "double-long"
		default:
			if x < 1e25 && x > 1e-25 {
				return strconv.FormatFloat(x, 'f', rng(t, "rtf", 0, 60), 64), "double-fixed"
			}
			return strconv.FormatFloat(x, 'e', -1, 64), "double-shortest"
		}
	case cls < 95: // a short decimal exactly halfway between two doubles (and its neighbours in the last digit)
		D, e, _, _ := shortMidpoint(t)
		d := strconv.FormatUint(D, 10)
		switch rng(t, "stp", 0, 3) {
		case 0:
			return layoutDecimal(t, incDec(d+"0"), e-1), "short-tie-above"
		case 1:
			return layoutDecimal(t, decDec(d+"0"), e-1), "short-tie-below"
		}
		return layoutDecimal(t, d, e), "short-tie"
	default:
		return pick(t, "edge", decEdges), "edge"
	}
}

const digitChars = "0123456789abcdefghijklmnopqrstuvwxyz"

func randRadixDigits(t *rapid.T, n, radix int, label string) string {
	var sb strings.Builder
	for sb.Len() < n {
		v := u64(t, label)
		for k := 0; k < 10 && sb.Len() < n; k++ {
			sb.WriteByte(digitChars[v%uint64(radix)])
			v /= uint64(radix)
		}
	}
	return sb.String()
}

func mixCase(t *rapid.T, s string) string {
	switch rng(t, "case", 0, 2) {
	case 0:
		return s
	case 1:
		return strings.ToUpper(s)
	}
	b := []byte(s)
	mask := u64(t, "casemask")
	for i := range b {
		if mask>>(uint(i)%64)&1 == 1 && b[i] >= 'a' && b[i] <= 'z' {
			b[i] -= 32
		}
	}
	return string(b)
}

// genRadixDigits draws digits in a power-of-two radix that sit on / next to a
// rounding boundary above 2^53, or random digits.
func genRadixDigits(t *rapid.T, radix, maxDigits int) (string, string) {
	bitsPer := map[int]int{2: 1, 4: 2, 8: 3, 16: 4, 32: 5}[radix]
	if bitsPer != 0 && rng(t, "rb", 0, 3) != 0 {
		maxBits := maxDigits * bitsPer
		if maxBits > 1100 {
			maxBits = 1100
		}
		mant := urng(t, "rbm", 1<<52, 1<<53-1)
		if rng(t, "rbmb", 0, 3) == 0 {
			mant = 1<<52 | pick(t, "rbmm", boundaryMantissas)
		}
		sh := rng(t, "rbe", 1, maxBits-53)
		n := new(big.Int).SetUint64(mant)
		n.Lsh(n, 1)
		if coin(t, "rbup") {
			n.Add(n, bigOne)
		} else {
			n.Sub(n, bigOne)
		}
		n.Lsh(n, uint(sh-1))
		class := "boundary-on"
		switch rng(t, "rbp", 0, 3) {
		case 0:
			n.Add(n, bigOne)
			class = "boundary-above"
		case 1:
			n.Sub(n, bigOne)
			class = "boundary-below"
		}
		return n.Text(radix), class
	}
	L := rng(t, "rdl", 1, maxDigits)
	if coin(t, "rdshort") {
		L = rng(t, "rdl2", 1, 24)
	}
	return randRadixDigits(t, L, radix, "rdd"), "random"
}

var parseIntRadixOdd = [][2]string{{"", "undefined"}, {"undefined", "undefined"}, {"0", "0"}, {"10", "10"}, {"16", "16"}, {"36", "36"}, {"4294967306", "4294967306"}, {"10.9", "10.9"},
	{`"10"`, "10"}, {"37", "37"}, {"1", "1"}, {"-10", "-10"}, {"NaN", "NaN"}, {"Infinity", "Infinity"}, {"null", "0"}, {"-4294967280", "-4294967280"}, {"8", "8"}, {"2", "2"}}

var junks = []string{"", "", "", "x", " 1", "e", "e+", ".", ".5", "px", "_1", "n", "e5", "E-3", " ", "z", "/", ":", "@", "`", "{", "G", "g"}

func genS2N(t *rapid.T) *S2NCase {
	c := &S2NCase{}
	k := rng(t, "kind", 0, 99)
	switch {
	case k < 62:
		c.Kind = "dec"
		c.Text, c.Class = genDecText(t)
		// a numeric separator in a literal-shaped text, rarely
		if rng(t, "sep", 0, 24) == 0 && len(c.Text) > 2 {
			p := rng(t, "seppos", 1, len(c.Text)-1)
			c.Text = c.Text[:p] + "_" + c.Text[p:]
			c.Class += "+separator"
		}
		c.Radix, c.RadixNum = "", "undefined"
		if rng(t, "pr", 0, 2) == 0 {
			p := pick(t, "prr", parseIntRadixOdd)
			c.Radix, c.RadixNum = p[0], p[1]
		}
	case k < 80:
		radix := pick(t, "nd", []int{16, 16, 8, 2})
		c.Kind = map[int]string{16: "hex", 8: "oct", 2: "bin"}[radix]
		d, cl := genRadixDigits(t, radix, 300)
		c.Class = c.Kind + "-" + cl
		d = strings.Repeat("0", pick(t, "lz", []int{0, 0, 0, 1, 2})) + d
		if radix == 16 {
			d = mixCase(t, d)
		}
		pfx := map[int]string{16: "0x", 8: "0o", 2: "0b"}[radix]
		if rng(t, "pfxcase", 0, 3) == 0 {
			pfx = strings.ToUpper(pfx)
		}
		c.Text = pfx + d
		// numeric separators between the digits of a (possibly very long) prefixed literal
		if rng(t, "rsep", 0, 5) == 0 && len(d) > 2 {
			for n := rng(t, "rsepn", 1, 3); n > 0; n-- {
				p := len(pfx) + rng(t, "rseppos", 1, len(c.Text)-len(pfx)-1)
				if c.Text[p-1] != '_' && c.Text[p] != '_' {
					c.Text = c.Text[:p] + "_" + c.Text[p:]
				}
			}
			c.Class += "+separator"
		}
		c.Radix, c.RadixNum = "", "undefined"
		if coin(t, "pr") {
			c.Radix, c.RadixNum = "16", "16"
		}
	case k < 84: // legacy octal / non-octal decimal integer literals (sloppy mode)
		c.Kind = "legacy"
		L := rng(t, "ll", 1, 60)
		if rng(t, "lo", 0, 2) != 0 {
			c.Text = "0" + randRadixDigits(t, L, 8, "ld")
			c.Class = "legacy-octal"
		} else {
			c.Text = "0" + randDigits(t, L, "ld") + "8"
			c.Class = "nonoctal-decimal"
		}
		c.Radix, c.RadixNum = "", "undefined"
		if coin(t, "pr") {
			c.Radix, c.RadixNum = "8", "8"
		}
	default: // parseInt in a drawn radix
		c.Kind = "radix"
		radix := rng(t, "radix", 2, 36)
		if coin(t, "rp2") {
			radix = pick(t, "radixp2", []int{2, 4, 8, 16, 32, 10})
		}
		var d, cl string
		if radix == 10 {
			d, cl = randDigitsNZ(t, rng(t, "rl", 1, 45), "rd"), "random"
		} else {
			mx := 120
			d, cl = genRadixDigits(t, radix, mx)
		}
		c.Class = "radix-" + cl
		c.Text = mixCase(t, d)
		c.Radix, c.RadixNum = strconv.Itoa(radix), strconv.Itoa(radix)
	}
	c.Sign = pick(t, "sign", []string{"", "", "", "-", "-", "+"})
	if rng(t, "ws", 0, 5) == 0 {
		sp := func(label string) string {
			n := rng(t, label+"n", 0, 2)
			var sb strings.Builder
			for i := 0; i < n; i++ {
				sb.WriteRune(pick(t, label, numref.AllJSSpaces))
			}
			return sb.String()
		}
		c.Lead, c.Trail = sp("lead"), sp("trail")
	}
	if rng(t, "jk", 0, 2) == 0 {
		c.Junk = pick(t, "junk", junks)
	}
	c.ViaGo = rng(t, "viago", 0, 5) == 0

	sig := sigDigitsOf(c)
	nontrivial := false
	switch c.Kind {
	case "dec":
		nontrivial = sig > 17
	case "hex":
		nontrivial = sig*4 > 53
	case "oct", "legacy":
		nontrivial = sig*3 > 53 || (c.Class == "nonoctal-decimal" && sig > 17)
	case "bin":
		nontrivial = sig > 53
	case "radix":
		nontrivial = float64(sig)*math.Log2(float64(numref.ToInt32(func() float64 { f, _ := parseArgNum(c.RadixNum); return f }()))) > 53
	}
	evid.Count("text:" + c.Class)
	evid.Count("kind:" + c.Kind)
	switch {
	case sig > 100:
		evid.Count("sigdigits:>100")
	case sig > 20:
		evid.Count("sigdigits:21-100")
	case sig > 17:
		evid.Count("sigdigits:18-20")
	default:
		evid.Count("sigdigits:<=17")
	}
	if _, ok := literalValue(c.Text); ok {
		if isNonOctalDecimal(c.Text) {
			// 08 / 0189: whether the parser accepts NonOctalDecimalIntegerLiteral is a syntax question (C01/C02), goja rejects it
			evid.Excluded("literal form of NonOctalDecimalIntegerLiteral (syntax support, not a conversion)")
		} else {
			evid.Count("form:literal")
		}
	}
	if isJSONNumber(c.Sign + c.Text) {
		evid.Count("form:json")
	}
	evid.Case("s2n|"+c.Lead+c.Sign+c.Text+c.Trail+"|"+c.Junk+"|"+c.Radix, nontrivial)
	evid.Sample("s2n:"+c.Class, c)
	return c
}
