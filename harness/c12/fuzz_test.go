package c12

// Native fuzz targets (optional, not run by the driver): the same judges as the
// rapid checks, fed by go test -fuzz. A crasher saved under testdata/fuzz is a
// self-contained input; it is re-judged deterministically by running the
// target without -fuzz.
//
//	go test -tags verif -vet=off -run '^$' -fuzz FuzzDtoa -fuzztime 120s ./c12
//	go test -tags verif -vet=off -run '^$' -fuzz FuzzStrtod -fuzztime 120s ./c12

import (
	"math"
	"strconv"
	"testing"

	"verifh/internal/evid"
)

func FuzzDtoa(f *testing.F) {
	f.Add(uint64(0x800dfe7282bd2940), uint8(0), uint8(0))
	f.Add(uint64(0x3), uint8(2), uint8(18))
	f.Add(uint64(0xbfefae147ae147ae), uint8(2), uint8(0))
	f.Add(uint64(0xbfe0000000000000), uint8(4), uint8(2))
	f.Add(uint64(0x4023000000000000), uint8(3), uint8(1))
	f.Fuzz(func(t *testing.T, bits uint64, op uint8, arg uint8) {
		x := math.Float64frombits(bits)
		ops := []string{"String", "toFixed", "toExponential", "toPrecision", "toString"}
		r := Req{Op: ops[int(op)%len(ops)], ArgNum: "undefined"}
		switch r.Op {
		case "toFixed", "toExponential":
			a := int(arg) % 103
			r.Arg, r.ArgNum = strconv.Itoa(a-1), strconv.Itoa(a-1)
		case "toPrecision":
			a := int(arg) % 103
			r.Arg, r.ArgNum = strconv.Itoa(a), strconv.Itoa(a)
		case "toString":
			a := int(arg) % 39
			r.Arg, r.ArgNum = strconv.Itoa(a), strconv.Itoa(a)
		}
		c := &FmtCase{Bits: strconv.FormatUint(bits, 16), X: fmtF(x), Class: "fuzz",
			Reqs: []Req{{Op: "String", ArgNum: "undefined"}, {Op: "roundtrip", ArgNum: "undefined"}, r}}
		if fl := judgeFmt(c); fl != nil && !evid.Known(fl.Key) {
			t.Fatalf("[%s] %s", fl.Key, fl.Msg)
		}
	})
}

func FuzzStrtod(f *testing.F) {
	for _, s := range decEdges {
		f.Add([]byte(s), uint8(0))
	}
	f.Add([]byte("0x8000000000000401"), uint8(16))
	f.Add([]byte("01000000000000000000000"), uint8(8))
	f.Fuzz(func(t *testing.T, b []byte, radix uint8) {
		if len(b) > 900 {
			return
		}
		for _, ch := range b {
			// numeric-looking ASCII only: digits, letters, sign, point, separator, blank
			if !(ch >= '0' && ch <= '9' || ch >= 'a' && ch <= 'z' || ch >= 'A' && ch <= 'Z' || ch == '.' || ch == '+' || ch == '-' || ch == '_' || ch == ' ') {
				return
			}
		}
		c := &S2NCase{Kind: "dec", Class: "fuzz", Text: string(b), RadixNum: "undefined"}
		if r := int(radix) % 40; r != 0 {
			c.Radix, c.RadixNum = strconv.Itoa(r), strconv.Itoa(r)
		}
		if len(b) > 0 && (b[0] == '+' || b[0] == '-') {
			// the judge applies the sign outside the literal; keep the text unsigned
			c.Sign, c.Text = string(b[:1]), string(b[1:])
		}
		if fl := judgeS2N(c); fl != nil && !evid.Known(fl.Key) {
			t.Fatalf("[%s] %s", fl.Key, fl.Msg)
		}
	})
}
