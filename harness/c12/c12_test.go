package c12

import (
	"encoding/json"
	"os"
	"runtime/debug"
	"testing"

	"pgregory.net/rapid"

	"verifh/internal/evid"
)

func TestMain(m *testing.M) {
	// every case builds a fresh runtime; the heap stays tiny, so collect less often
	debug.SetGCPercent(400)
	evid.Main("C12", m)
}

// Number -> String: String(x), toFixed, toExponential, toPrecision, toString(radix), round trips.
func TestQuickFmt(t *testing.T) {
	evid.Check(t, "fmt", 120000, 1.5, func(t *rapid.T) {
		c := genFmt(t)
		evid.Judge(t, judgeFmt(c))
	})
}

// String -> Number: Number(s), +s, parseFloat, parseInt, source literals, JSON numbers.
func TestQuickS2N(t *testing.T) {
	evid.Check(t, "s2n", 60000, 1.5, func(t *rapid.T) {
		c := genS2N(t)
		evid.Judge(t, judgeS2N(c))
	})
}

func TestReplay(t *testing.T) {
	p := os.Getenv("VERIF_REPLAY")
	if p == "" {
		t.Skip("no VERIF_REPLAY")
	}
	check, raw, err := evid.LoadReplay(p)
	if err != nil {
		t.Fatal(err)
	}
	switch check {
	case "fmt":
		var c FmtCase
		if err := json.Unmarshal(raw, &c); err != nil {
			t.Fatal(err)
		}
		evid.Direct(t, judgeFmt(&c))
	case "s2n":
		var c S2NCase
		if err := json.Unmarshal(raw, &c); err != nil {
			t.Fatal(err)
		}
		evid.Direct(t, judgeS2N(&c))
	default:
		t.Fatalf("unknown check %q", check)
	}
}
