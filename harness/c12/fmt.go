package c12

import (
	"fmt"
	"math"
	"regexp"
	"strconv"
	"strings"

	"github.com/dop251/goja"
	"pgregory.net/rapid"

	"verifh/internal/evid"
	"verifh/internal/jsx"
	"verifh/internal/numref"
)

// Req is one formatting request applied to the case's double.
type Req struct {
	Op     string `json:"op"`      // String, concat, template, key, json, toString, toFixed, toExponential, toPrecision, roundtrip
	Arg    string `json:"arg"`     // JS expression of the argument; "" = no argument
	ArgNum string `json:"arg_num"` // ToNumber(argument): "undefined", "NaN", "Infinity", "-Infinity" or a decimal
}

// FmtCase: one double and a few formatting requests.
type FmtCase struct {
	Bits  string `json:"bits"` // hex bit pattern
	X     string `json:"x"`    // informative
	Class string `json:"class"`
	Reqs  []Req  `json:"reqs"`
}

const fmtPrelude = `
function T(f){ try { var r = f(); return "v:" + typeof r + ":" + r; } catch (e) { return "e:" + (e && e.constructor && e.constructor.name); } }
function RT(x){
  var X0 = Object.is(x, -0) ? 0 : x;
  var r = [Number(String(x)), parseFloat(x.toString()), +("" + x), Number(x.toExponential()), Number(x.toPrecision(17)), Number(x.toExponential(16)), Number(x.toPrecision(21)), Number(x.toString(10))];
  if (x === x && x - x === 0) { r.push(JSON.parse(JSON.stringify(x))); } else { r.push(x); }
  if (Number.isInteger(x) && Math.abs(x) < 9007199254740992) {
    for (var k = 2; k <= 36; k++) { r.push(parseInt(x.toString(k), k)); }
  }
  var bad = [];
  for (var i = 0; i < r.length; i++) { if (!Object.is(r[i], X0)) bad.push(i + "=" + r[i]); }
  return bad.join(";");
}
`

var fmtPrg = goja.MustCompile("c12fmt.js", fmtPrelude, false)

func reqJS(r Req) string {
	switch r.Op {
	case "String":
		return "String(x)"
	case "concat":
		return `"" + x`
	case "template":
		return "`${x}`"
	case "key":
		return "Object.keys({[x]: 0})[0]"
	case "json":
		return "JSON.stringify(x)"
	case "roundtrip":
		return "RT(x)"
	case "toString", "toFixed", "toExponential", "toPrecision":
		return "x." + r.Op + "(" + r.Arg + ")"
	}
	return "undefined"
}

func parseArgNum(s string) (v float64, undef bool) {
	switch s {
	case "undefined":
		return math.NaN(), true
	case "NaN":
		return math.NaN(), false
	case "Infinity":
		return math.Inf(1), false
	case "-Infinity":
		return math.Inf(-1), false
	}
	f, err := strconv.ParseFloat(s, 64)
	if err != nil {
		return math.NaN(), false
	}
	return f, false
}

type expectation struct {
	kind   string   // "string", "range" (RangeError)
	best   string   // the answer (for shortest-digit outputs: the closest candidate)
	accept []string // every answer the normative text permits (nil = only best)
	radix  int      // != 0: validity predicate "parses back in this radix" instead of best
	ri     RoundInfo
}

// expect computes what ECMA-262 demands for request r on x.
func expect(x float64, r Req) (ex expectation, harnessErr string) {
	argv, undef := parseArgNum(r.ArgNum)
	ai := numref.ToIntegerOrInfinity(argv) // NaN -> 0
	finiteX := !math.IsNaN(x) && !math.IsInf(x, 0)
	strOf := func() expectation {
		b, all := refToString(x)
		return expectation{kind: "string", best: b, accept: all}
	}
	switch r.Op {
	case "String", "concat", "template", "key":
		return strOf(), ""
	case "json":
		if !finiteX {
			return expectation{kind: "string", best: "null"}, ""
		}
		return strOf(), ""
	case "roundtrip":
		return expectation{kind: "string", best: ""}, ""
	case "toString":
		radix := 10
		if !undef {
			if math.IsInf(ai, 0) || ai < 2 || ai > 36 {
				return expectation{kind: "range"}, ""
			}
			radix = int(ai)
		}
		if radix == 10 || !finiteX {
			return strOf(), ""
		}
		if n, ok := exactIntOf(x); ok && math.Abs(x) < 9007199254740992 {
			s := n.Text(radix)
			if x == 0 {
				s = "0"
			}
			return expectation{kind: "string", best: s}, ""
		}
		return expectation{kind: "string", radix: radix}, ""
	case "toFixed":
		if math.IsInf(ai, 0) || ai < 0 || ai > 100 {
			return expectation{kind: "range"}, ""
		}
		if !finiteX {
			return strOf(), ""
		}
		if math.Abs(x) >= 1e21 {
			return strOf(), ""
		}
		s, ri := refToFixed(x, int(ai))
		// second reference: strconv rounds the exact value too (to even on exact ties)
		sc := strconv.FormatFloat(x, 'f', int(ai), 64)
		if x == 0 {
			sc = strings.TrimPrefix(sc, "-")
		}
		if !ri.Tie && sc != s {
			return ex, fmt.Sprintf("references disagree on toFixed(%d) of %s: big=%s strconv=%s", int(ai), r.ArgNum, s, sc)
		}
		return expectation{kind: "string", best: s, ri: ri}, ""
	case "toExponential":
		if !finiteX {
			return strOf(), ""
		}
		if undef {
			b, all := refToExponentialShortest(x)
			return expectation{kind: "string", best: b, accept: all}, ""
		}
		if math.IsInf(ai, 0) || ai < 0 || ai > 100 {
			return expectation{kind: "range"}, ""
		}
		s, ri := refToExponential(x, int(ai))
		sc := strconv.FormatFloat(x, 'e', int(ai), 64)
		sc = fixGoExp(sc)
		if x == 0 {
			sc = strings.TrimPrefix(sc, "-")
		}
		if !ri.Tie && sc != s {
			return ex, fmt.Sprintf("references disagree on toExponential(%d): big=%s strconv=%s", int(ai), s, sc)
		}
		return expectation{kind: "string", best: s, ri: ri}, ""
	case "toPrecision":
		if undef {
			return strOf(), ""
		}
		if !finiteX {
			return strOf(), ""
		}
		if math.IsInf(ai, 0) || ai < 1 || ai > 100 {
			return expectation{kind: "range"}, ""
		}
		s, ri := refToPrecision(x, int(ai))
		// second reference for the digits: strconv 'e' with p-1 fraction digits
		if x != 0 && !ri.Tie {
			sc := strconv.FormatFloat(math.Abs(x), 'e', int(ai)-1, 64)
			mant, _, _ := strings.Cut(sc, "e")
			d1 := strings.Replace(mant, ".", "", 1)
			d2 := digitsOnly(s)
			if strings.TrimLeft(d2, "0") != d1 {
				return ex, fmt.Sprintf("references disagree on toPrecision(%d): big=%s strconv=%s", int(ai), s, sc)
			}
		}
		return expectation{kind: "string", best: s, ri: ri}, ""
	}
	return ex, "unknown op " + r.Op
}

// digitsOnly extracts the significand digits of a toPrecision result.
func digitsOnly(s string) string {
	s = strings.TrimPrefix(s, "-")
	if i := strings.IndexByte(s, 'e'); i >= 0 {
		s = s[:i]
	}
	return strings.Replace(s, ".", "", 1)
}

// fixGoExp turns Go's e+07 / e-07 exponent into ECMAScript's e+7 / e-7.
func fixGoExp(s string) string {
	mant, es, ok := strings.Cut(s, "e")
	if !ok {
		return s
	}
	sign := es[:1]
	d := strings.TrimLeft(es[1:], "0")
	if d == "" {
		d = "0"
	}
	return mant + "e" + sign + d
}

var radixForm = regexp.MustCompile(`^-?[0-9a-z]+(\.[0-9a-z]+)?$`)

func xClass(x float64) string {
	ax := math.Abs(x)
	switch {
	case math.IsNaN(x) || math.IsInf(x, 0):
		return "nonfinite"
	case x == 0:
		return "zero"
	case ax < 2.2250738585072014e-308:
		return "subnormal"
	case ax == math.Trunc(ax):
		return "integer"
	}
	return "fraction"
}

func judgeFmt(c *FmtCase) *evid.Failure {
	fail := func(key, msg string, exp, obs interface{}) *evid.Failure {
		return &evid.Failure{Check: "fmt", Key: key, Msg: msg, Case: c, Expected: exp, Observed: obs}
	}
	bits, err := strconv.ParseUint(c.Bits, 16, 64)
	if err != nil {
		return fail("harness", "bad case: "+err.Error(), nil, nil)
	}
	x := math.Float64frombits(bits)
	// cross-check of the two references for the shortest digits
	if !math.IsNaN(x) && !math.IsInf(x, 0) && x != 0 {
		_, cl, tie := shortest(math.Abs(x))
		best, all := refToString(x)
		sc := jsx.NumberToString(x)
		if !tie && sc != best {
			return fail("harness", fmt.Sprintf("references disagree on shortest digits of %s: big=%s strconv=%s", c.Bits, best, sc), best, sc)
		}
		if tie && !contains(all, sc) {
			return fail("harness", fmt.Sprintf("references disagree (tie) on shortest digits of %s: big=%v strconv=%s", c.Bits, all, sc), all, sc)
		}
		_ = cl
	}
	vm := goja.New()
	vm.Set("x", x)
	if o := jsx.RunProgram(vm, fmtPrg); o.Kind != "value" {
		return fail("harness", "prelude failed: "+o.Text, nil, nil)
	}
	var sb strings.Builder
	sb.WriteString("[")
	for i, r := range c.Reqs {
		if i > 0 {
			sb.WriteString(", ")
		}
		sb.WriteString("T(() => " + reqJS(r) + ")")
	}
	sb.WriteString("]")
	src := sb.String()
	o := jsx.RunString(vm, src)
	xc := xClass(x)
	if o.Kind != "value" {
		return fail("outcome:"+o.Kind+":"+xc, "script did not complete: "+o.Text+"\n"+src+"\n"+o.Stack, nil, nil)
	}
	res, ok := o.Value.Export().([]interface{})
	if !ok || len(res) != len(c.Reqs) {
		return fail("harness", "unexpected result shape", nil, nil)
	}
	for i, r := range c.Reqs {
		got, _ := res[i].(string)
		ex, herr := expect(x, r)
		if herr != "" {
			return fail("harness", herr, nil, nil)
		}
		js := reqJS(r)
		opKey := r.Op
		if r.Op == "toString" && r.ArgNum != "undefined" && r.ArgNum != "10" {
			opKey = "toString(radix)"
		}
		if ex.kind == "range" {
			if got != "e:RangeError" {
				return fail(opKey+":range", fmt.Sprintf("%s with x=%s (bits %s): expected RangeError, got %q", js, c.X, c.Bits, got), "RangeError", got)
			}
			continue
		}
		if !strings.HasPrefix(got, "v:string:") {
			return fail(opKey+":outcome:"+xc, fmt.Sprintf("%s with x=%s (bits %s): expected a string, got %q", js, c.X, c.Bits, got), ex.best, got)
		}
		g := strings.TrimPrefix(got, "v:string:")
		switch {
		case r.Op == "roundtrip":
			if g != "" {
				return fail("roundtrip:"+xc, fmt.Sprintf("x=%s (bits %s): conversions to string and back did not return x: failing probes (index=value) %s", c.X, c.Bits, g), "", g)
			}
		case ex.radix != 0:
			if !radixForm.MatchString(g) {
				return fail("toString(radix):form:"+xc, fmt.Sprintf("%s with x=%s (bits %s) gave %q: not of the form [-]digits[.digits]", js, c.X, c.Bits, g), nil, g)
			}
			rat, ok := parseRadix(g, ex.radix)
			if !ok {
				return fail("toString(radix):form:"+xc, fmt.Sprintf("%s with x=%s (bits %s) gave %q: digit not valid in radix %d", js, c.X, c.Bits, g, ex.radix), nil, g)
			}
			back, _ := rat.Float64()
			if !numref.SameValue(back, x) {
				return fail("toString(radix):parseback:"+xc, fmt.Sprintf("%s with x=%s (bits %s) gave %q which denotes a value whose nearest double is %s, not x", js, c.X, c.Bits, g, fmtF(back)), fmtF(x), fmtF(back))
			}
		case ex.accept != nil:
			if g == ex.best {
				continue
			}
			if hasNonDigit(g) {
				return fail(opKey+":nondigit:"+xc, fmt.Sprintf("%s with x=%s (bits %s) gave %q (contains a character that cannot occur in a decimal numeral); expected %q", js, c.X, c.Bits, g, ex.best), ex.best, g)
			}
			if contains(ex.accept, g) {
				return fail(opKey+":notclosest:"+xc, fmt.Sprintf("%s with x=%s (bits %s) gave %q: shortest and round-trips, but %q is closer to x (Number::toString Note 2)", js, c.X, c.Bits, g, ex.best), ex.best, g)
			}
			return fail(opKey+":shortest:"+xc, fmt.Sprintf("%s with x=%s (bits %s) gave %q, expected the shortest round-tripping decimal %q", js, c.X, c.Bits, g, ex.best), ex.best, g)
		default:
			if g != ex.best {
				k := opKey + ":" + xc
				if ex.ri.Tie {
					k = opKey + ":tie:" + xc
				}
				return fail(k, fmt.Sprintf("%s with x=%s (bits %s) gave %q, exact arithmetic gives %q (tie=%v carry=%v)", js, c.X, c.Bits, g, ex.best, ex.ri.Tie, ex.ri.Carry), ex.best, g)
			}
		}
	}
	return nil
}

func hasNonDigit(s string) bool {
	if s == "NaN" || s == "Infinity" || s == "-Infinity" {
		return false
	}
	for i := 0; i < len(s); i++ {
		c := s[i]
		if (c >= '0' && c <= '9') || c == '.' || c == 'e' || c == '+' || c == '-' {
			continue
		}
		return true
	}
	return false
}

func contains(l []string, s string) bool {
	for _, e := range l {
		if e == s {
			return true
		}
	}
	return false
}

func fmtF(f float64) string {
	if f == 0 && math.Signbit(f) {
		return "-0"
	}
	return strconv.FormatFloat(f, 'g', -1, 64)
}

// ---- generator ----

// genDigitsArg draws a digit-count argument around lo..hi, sometimes outside,
// sometimes in a non-integer / non-number spelling.
func genDigitsArg(t *rapid.T, lo, hi int, target int) (expr, num string) {
	k := rng(t, "argkind", 0, 99)
	switch {
	case k < 40:
		v := rng(t, "argv", lo, hi)
		return strconv.Itoa(v), strconv.Itoa(v)
	case k < 80: // aimed at the interesting place for this x
		v := target + rng(t, "argd", -3, 2)
		if v < lo {
			v = lo
		}
		if v > hi {
			v = hi
		}
		return strconv.Itoa(v), strconv.Itoa(v)
	case k < 84:
		v := rng(t, "argv", lo, hi)
		return `"` + strconv.Itoa(v) + `"`, strconv.Itoa(v)
	case k < 88:
		v := rng(t, "argv", lo, hi)
		return strconv.Itoa(v) + ".9", strconv.Itoa(v) + ".9"
	case k < 94:
		p := pick(t, "argedge", [][2]string{{"-1", "-1"}, {"101", "101"}, {"0", "0"}, {"100", "100"}, {"1e21", "1e21"}, {"-Infinity", "-Infinity"}, {"Infinity", "Infinity"},
			{"4294967296", "4294967296"}, {"4294967301", "4294967301"}, {"18446744073709551621", "18446744073709551621"}, {"-0.9", "-0.9"}, {"100.9", "100.9"}, {"-1e-9", "-1e-9"}, {"102", "102"}, {"1", "1"}})
		return p[0], p[1]
	default:
		p := pick(t, "argodd", [][2]string{{"", "undefined"}, {"undefined", "undefined"}, {"NaN", "NaN"}, {"null", "0"}, {"true", "1"}, {"-0", "0"}, {`"x"`, "NaN"}, {"[7]", "7"}, {"{valueOf(){return 3}}", "3"}})
		return p[0], p[1]
	}
}

func genRadixArg(t *rapid.T) (expr, num string) {
	k := rng(t, "rkind", 0, 99)
	switch {
	case k < 80:
		v := rng(t, "radix", 2, 36)
		return strconv.Itoa(v), strconv.Itoa(v)
	case k < 86:
		v := pick(t, "radix2", []int{2, 8, 16, 32, 36, 10, 3})
		return strconv.Itoa(v), strconv.Itoa(v)
	case k < 90:
		v := rng(t, "radix", 2, 36)
		return strconv.Itoa(v) + ".7", strconv.Itoa(v) + ".7"
	case k < 96:
		p := pick(t, "redge", [][2]string{{"0", "0"}, {"1", "1"}, {"37", "37"}, {"-2", "-2"}, {"Infinity", "Infinity"}, {"NaN", "NaN"}, {"null", "0"}, {"4294967312", "4294967312"}, {"1.9", "1.9"}, {"36.9", "36.9"}, {`"16"`, "16"}})
		return p[0], p[1]
	default:
		p := pick(t, "rodd", [][2]string{{"", "undefined"}, {"undefined", "undefined"}, {"10", "10"}})
		return p[0], p[1]
	}
}

func genFmt(t *rapid.T) *FmtCase {
	x, class := genDouble(t)
	c := &FmtCase{Bits: strconv.FormatUint(math.Float64bits(x), 16), X: fmtF(x), Class: class}
	k, n := shortInfo(x)
	// always: shortest string; usually the round-trip bundle
	c.Reqs = append(c.Reqs, Req{Op: pick(t, "strop", []string{"String", "String", "concat", "template", "key", "json"}), ArgNum: "undefined"})
	if rng(t, "rt", 0, 3) != 0 {
		c.Reqs = append(c.Reqs, Req{Op: "roundtrip", ArgNum: "undefined"})
	}
	nreq := 3
	// Every non-integer double has a finite decimal expansion ending in 5: cutting it one digit short is an
	// exact tie. Aim one request there for the classes built for it (and now and then for any double).
	if sig, fd := exactInfo(x); sig > 1 && (class == "dyadic-tie" || rng(t, "aimtie", 0, 7) == 0) {
		var r Req
		switch rng(t, "tieop", 0, 2) {
		case 0:
			r = Req{Op: "toFixed", Arg: strconv.Itoa(fd - 1), ArgNum: strconv.Itoa(fd - 1)}
		case 1:
			r = Req{Op: "toPrecision", Arg: strconv.Itoa(sig - 1), ArgNum: strconv.Itoa(sig - 1)}
		default:
			r = Req{Op: "toExponential", Arg: strconv.Itoa(sig - 2), ArgNum: strconv.Itoa(sig - 2)}
		}
		if v, _ := strconv.Atoi(r.Arg); v >= 0 && v <= 100 && !(r.Op == "toPrecision" && v < 1) && !(r.Op == "toFixed" && fd < 1) {
			c.Reqs = append(c.Reqs, r)
			nreq--
		}
	}
	for i := 0; i < nreq; i++ {
		op := pick(t, "op", []string{"toFixed", "toFixed", "toExponential", "toPrecision", "toPrecision", "toString"})
		var r Req
		r.Op = op
		switch op {
		case "toFixed":
			r.Arg, r.ArgNum = genDigitsArg(t, 0, 100, k-n) // k-n = number of fraction digits of the shortest form
		case "toExponential":
			r.Arg, r.ArgNum = genDigitsArg(t, 0, 100, k-1)
		case "toPrecision":
			r.Arg, r.ArgNum = genDigitsArg(t, 1, 100, k)
		case "toString":
			r.Arg, r.ArgNum = genRadixArg(t)
		}
		c.Reqs = append(c.Reqs, r)
	}
	// evidence
	var txt strings.Builder
	txt.WriteString(c.Bits)
	nontrivial := false
	ax := math.Abs(x)
	if !(ax == math.Trunc(ax) && ax < 9007199254740992 && k <= 15 && n <= 16) && !math.IsNaN(x) && !math.IsInf(x, 0) {
		nontrivial = true
	}
	for _, r := range c.Reqs {
		txt.WriteString("|" + r.Op + "(" + r.Arg + ")")
		evid.Count("op:" + r.Op)
		if r.Op == "toFixed" || r.Op == "toExponential" || r.Op == "toPrecision" {
			ex, _ := expect(x, r)
			switch {
			case ex.kind == "range":
				evid.Count("arg:out-of-range")
			case ex.ri.Tie:
				evid.Count("round:exact-tie")
				nontrivial = true
			case ex.ri.Inexact:
				evid.Count("round:inexact")
				nontrivial = true
			default:
				evid.Count("round:exact")
			}
			if ex.ri.Carry {
				evid.Count("round:carry-all-digits")
			}
		}
	}
	if k == 17 {
		evid.Count("shortest:17-digits")
	}
	evid.Count("double:" + class)
	evid.Count("xclass:" + xClass(x))
	evid.Case(txt.String(), nontrivial)
	evid.Sample("fmt:"+class, c)
	return c
}

// exactInfo: number of significant digits and of fraction digits of the exact
// decimal expansion of x (0,0 for zero / non-finite).
func exactInfo(x float64) (sig, fracDigits int) {
	if x == 0 || math.IsNaN(x) || math.IsInf(x, 0) {
		return 0, 0
	}
	m, e, _, _ := decomp(math.Abs(x))
	// strip common factors of two first: m*2^e with m odd
	tz := int(m.TrailingZeroBits())
	m.Rsh(m, uint(tz))
	e += tz
	d, q := exactDecimal(m, e)
	sig = len(strings.TrimRight(d, "0"))
	if q < 0 {
		fracDigits = -q
	}
	return
}
