package c07

import (
	"encoding/json"
	"fmt"
	"os"
	"sort"
	"strconv"
	"strings"
	"testing"

	"github.com/dop251/goja"
	"pgregory.net/rapid"

	"verifh/internal/esmodel"
	"verifh/internal/evid"
	"verifh/internal/jsx"
)

func TestMain(m *testing.M) { evid.Main("C07", m) }

const extraJS = `
function forceSparse(tag) { var a = OBJ[tag], l = a.length; a[100000] = 1; delete a[100000]; a.length = l; return a; }
function bulkFill(tag, start, k) {
  try { var a = OBJ[tag]; for (var i = start; i < start + k; i++) a[i] = i; return "ok"; }
  catch (e) { return "throw:" + e.constructor.name; }
}
function mkArr(kind, tag) {
  var o;
  switch (kind) {
  case "array": o = [1, 2, 3]; break;
  case "arrayholes": o = [1, , 3, , 5]; break;
  case "arrayempty": o = []; break;
  case "arraymixed": o = [0, "s", undefined, null, , 5]; break;
  case "arraysparse": o = [1, 2]; o[5000] = 9; break;
  case "arraylike": o = {0: 1, 1: 2, 3: 4, length: 4}; break;
  default: throw new Error("kind " + kind);
  }
  return reg(o, tag);
}
function sortRun(spec) {
  var s = JSON.parse(spec), a = [], i;
  s.elems = s.elems || [];
  a.length = s.elems.length;
  for (i = 0; i < s.elems.length; i++) { if (s.elems[i] !== "hole") a[i] = pv(s.elems[i]); }
  if (s.sparse) { var l = a.length; a[100000] = 1; delete a[100000]; a.length = l; }
  if (s.like) { var o = {length: a.length}; for (i = 0; i < a.length; i++) { if (i in a) o[i] = a[i]; } a = o; }
  var calls = 0, cmp;
  switch (s.cmp) {
  case "none": cmp = undefined; break;
  case "num": cmp = function(x, y) { return x - y; }; break;
  case "rev": cmp = function(x, y) { return y - x; }; break;
  case "key": cmp = function(x, y) { return Math.floor(x / 100) - Math.floor(y / 100); }; break;
  case "zero": cmp = function() { return 0; }; break;
  case "negzero": cmp = function() { return -0; }; break;
  case "nan": cmp = function() { return NaN; }; break;
  case "undef": cmp = function() { }; break;
  case "strres": cmp = function(x, y) { return x < y ? "-1" : x > y ? "1" : "0"; }; break;
  case "big": cmp = function(x, y) { return (x - y) * 1e300; }; break;
  case "frac": cmp = function(x, y) { return (x - y) / 1000; }; break;
  case "always1": cmp = function() { return 1; }; break;
  case "alwaysm1": cmp = function() { return -1; }; break;
  case "flip": cmp = function(x, y) { return (++calls % 2) ? 1 : -1; }; break;
  case "shrink": cmp = function(x, y) { if (++calls === 2) a.length = 0; return x - y; }; break;
  case "pop": cmp = function(x, y) { if (++calls === 1) Array.prototype.pop.call(a); return x - y; }; break;
  case "growc": cmp = function(x, y) { if (++calls === 1) Array.prototype.push.call(a, 1, 2, 3); return x - y; }; break;
  case "throw": cmp = function(x, y) { if (++calls === 2) throw new RangeError("cmp"); return x - y; }; break;
  default: throw new Error("cmp " + s.cmp);
  }
  try {
    var r = Array.prototype.sort.call(a, cmp);
    if (r !== a) return "notsame";
    if (s.like) { var b = []; b.length = a.length; for (i = 0; i < a.length; i++) { if (i in a) b[i] = a[i]; } return ra(b); }
    return ra(a);
  } catch (e) { return "throw:" + (e && e.constructor ? e.constructor.name : String(e)); }
}
`

var preludePrg = goja.MustCompile("c07prelude.js", esmodel.PreludeJS+extraJS, false)

// Step is one step of an array history.
type Step struct {
	T     string      `json:"t"` // "op" | "method" | "bulk"
	Op    *esmodel.Op `json:"op,omitempty"`
	Name  string      `json:"name,omitempty"`
	Args  []string    `json:"args,omitempty"`
	Start int         `json:"start,omitempty"`
	K     int         `json:"k,omitempty"`
}

type Case struct {
	Kind  string  `json:"kind"`
	Steps []*Step `json:"steps"`
}

var arrKinds = []string{"array", "array", "arrayholes", "arrayempty", "arraymixed", "arraysparse", "arraylike"}

var idxPool = []int64{0, 1, 2, 3, 4, 5, 7, 10, 20, 4095, 4096, 4097, 5000, 65535, 65536, 100000, 2147483647, 4294967294, 4294967295}
var lenPool = []int64{0, 1, 2, 3, 4, 5, 6, 4096, 4097, 5000, 5001, 65536, 100001, 4294967295}
var valPool = []string{"u", "null", "d:0", "d:1", "d:2", "d:7", "d:-1", `s:"v"`, `s:"2"`, "b:true", "o:900"}

func genIdxKey(t *rapid.T) string {
	return `s:"` + strconv.FormatInt(rapid.SampledFrom(idxPool).Draw(t, "idx"), 10) + `"`
}

func genVal(t *rapid.T) string { return rapid.SampledFrom(valPool).Draw(t, "val") }

func genDesc(t *rapid.T) *esmodel.Desc {
	d := &esmodel.Desc{Value: esmodel.Undef, Get: esmodel.Undef, Set: esmodel.Undef}
	bits := rapid.IntRange(0, 63).Draw(t, "dbits")
	if rapid.IntRange(0, 3).Draw(t, "dform") > 0 {
		bits &^= 4 | 8
	} else {
		bits &^= 1 | 2
	}
	pv := func(s string) esmodel.Val { v, _ := esmodel.ParseVal(s); return v }
	if bits&1 != 0 {
		d.HasValue, d.Value = true, pv(genVal(t))
	}
	if bits&2 != 0 {
		d.HasW, d.W = true, rapid.Bool().Draw(t, "w")
	}
	if bits&4 != 0 {
		d.HasGet, d.Get = true, pv(rapid.SampledFrom([]string{"u", "o:900", "o:901"}).Draw(t, "g"))
	}
	if bits&8 != 0 {
		d.HasSet, d.Set = true, pv(rapid.SampledFrom([]string{"u", "o:910"}).Draw(t, "s"))
	}
	if bits&16 != 0 {
		d.HasE, d.E = true, rapid.Bool().Draw(t, "e")
	}
	if bits&32 != 0 {
		d.HasC, d.C = true, rapid.Bool().Draw(t, "c")
	}
	return d
}

var methodNames = []string{"push", "push", "pop", "shift", "unshift", "reverse", "fill", "copyWithin", "splice", "splice", "slice", "concat", "indexOf", "includes", "lastIndexOf", "join", "at", "spread",
	"map", "filter", "forEach", "some", "every", "find", "findIndex", "findLast", "findLastIndex"}
var cbNames = []string{"ident", "isnum", "double", "shrink", "grow", "throwAt2"}
var relArgs = []string{"d:0", "d:1", "d:2", "d:-1", "d:-2", "d:3", "d:100", "d:-100", "u", "d:NaN", "d:1.5", `s:"1"`, "d:Infinity", "d:-Infinity", "null"}

func genStep(t *rapid.T, c *Case) *Step {
	switch rapid.IntRange(0, 9).Draw(t, "stepkind") {
	case 0, 1, 2, 3:
		op := &esmodel.Op{O: 1}
		switch rapid.IntRange(0, 13).Draw(t, "opk") {
		case 0, 1, 2:
			op.Op, op.Surf, op.K, op.V = "set", rapid.SampledFrom([]string{"strict", "sloppy", "Reflect"}).Draw(t, "surf"), genIdxKey(t), genVal(t)
		case 3, 4:
			op.Op, op.Surf, op.K, op.V = "set", rapid.SampledFrom([]string{"strict", "sloppy", "Reflect"}).Draw(t, "surf"), `s:"length"`, "d:"+strconv.FormatInt(rapid.SampledFrom(lenPool).Draw(t, "len"), 10)
			if rapid.IntRange(0, 5).Draw(t, "badlen") == 0 {
				op.V = rapid.SampledFrom([]string{"d:-1", "d:1.5", "d:4294967296", `s:"3"`, `s:"x"`, "d:NaN", "null", "b:true", "u"}).Draw(t, "badlenv")
			}
		case 5, 6:
			op.Op, op.Surf, op.K, op.D = "define", rapid.SampledFrom([]string{"Object", "Reflect"}).Draw(t, "surf"), genIdxKey(t), genDesc(t)
		case 7:
			op.Op, op.Surf, op.K, op.D = "define", rapid.SampledFrom([]string{"Object", "Reflect"}).Draw(t, "surf"), `s:"length"`, genDesc(t)
			if op.D.HasValue {
				op.D.Value = esmodel.Num(float64(rapid.SampledFrom(lenPool).Draw(t, "len")))
			}
			op.D.HasGet, op.D.HasSet = false, false
		case 8, 9:
			op.Op, op.Surf, op.K = "delete", rapid.SampledFrom([]string{"strict", "sloppy", "Reflect"}).Draw(t, "surf"), genIdxKey(t)
		case 10:
			op.Op, op.Surf = rapid.SampledFrom([]string{"freeze", "seal", "preventExt"}).Draw(t, "integ"), "Object"
		case 11:
			op.Op, op.Surf, op.K = "get", "strict", genIdxKey(t)
		case 12:
			// indexed property on a prototype
			op.O = rapid.SampledFrom([]int{802, 800}).Draw(t, "protoobj")
			op.Op, op.Surf, op.K, op.D = "define", "Reflect", `s:"`+strconv.Itoa(rapid.IntRange(0, 5).Draw(t, "pidx"))+`"`, genDesc(t)
			op.D.HasC, op.D.C = true, true
		default:
			op.Op, op.Surf = rapid.SampledFrom([]string{"keys", "forin", "ownKeys", "isFrozen"}).Draw(t, "readop"), "Object"
		}
		return &Step{T: "op", Op: op}
	case 4:
		start := int(rapid.SampledFrom([]int64{0, 0, 3, 1000, 4090}).Draw(t, "bstart"))
		k := rapid.SampledFrom([]int{3, 20, 1100}).Draw(t, "bk")
		return &Step{T: "bulk", Start: start, K: k}
	default:
		s := &Step{T: "method", Name: rapid.SampledFrom(methodNames).Draw(t, "method")}
		n := 0
		switch s.Name {
		case "push", "unshift":
			n = rapid.IntRange(0, 3).Draw(t, "nargs")
			for i := 0; i < n; i++ {
				s.Args = append(s.Args, genVal(t))
			}
		case "fill":
			s.Args = append(s.Args, genVal(t))
			n = rapid.IntRange(0, 2).Draw(t, "nrel")
			for i := 0; i < n; i++ {
				s.Args = append(s.Args, rapid.SampledFrom(relArgs).Draw(t, "rel"))
			}
		case "copyWithin", "slice":
			n = rapid.IntRange(0, 3).Draw(t, "nrel")
			for i := 0; i < n; i++ {
				s.Args = append(s.Args, rapid.SampledFrom(relArgs).Draw(t, "rel"))
			}
		case "splice":
			n = rapid.IntRange(0, 2).Draw(t, "nrel")
			for i := 0; i < n; i++ {
				s.Args = append(s.Args, rapid.SampledFrom(relArgs).Draw(t, "rel"))
			}
			if n == 2 {
				for i := rapid.IntRange(0, 3).Draw(t, "nitems"); i > 0; i-- {
					s.Args = append(s.Args, genVal(t))
				}
			}
		case "concat":
			for i := rapid.IntRange(0, 2).Draw(t, "ncat"); i > 0; i-- {
				s.Args = append(s.Args, rapid.SampledFrom([]string{"d:5", `s:"c"`, "o:1", "u"}).Draw(t, "catarg"))
			}
		case "indexOf", "includes", "lastIndexOf":
			s.Args = append(s.Args, rapid.SampledFrom([]string{"d:1", "d:2", "u", "d:NaN", "d:0", "d:-0", `s:"v"`, "null", "d:99"}).Draw(t, "needle"))
			if rapid.Bool().Draw(t, "from") {
				s.Args = append(s.Args, rapid.SampledFrom(relArgs).Draw(t, "rel"))
			}
		case "join":
			if rapid.Bool().Draw(t, "sep") {
				s.Args = append(s.Args, rapid.SampledFrom([]string{`s:"-"`, `s:""`, "u", "d:1", "null"}).Draw(t, "sepv"))
			}
		case "at":
			s.Args = append(s.Args, rapid.SampledFrom(relArgs).Draw(t, "rel"))
		case "map", "filter", "forEach", "some", "every", "find", "findIndex", "findLast", "findLastIndex":
			s.Args = append(s.Args, `s:"`+rapid.SampledFrom(cbNames).Draw(t, "cb")+`"`)
		}
		return s
	}
}

func genCase(t *rapid.T) *Case {
	c := &Case{Kind: rapid.SampledFrom(arrKinds).Draw(t, "kind")}
	n := rapid.IntRange(1, 30).Draw(t, "nsteps")
	for i := 0; i < n; i++ {
		c.Steps = append(c.Steps, genStep(t, c))
	}
	return c
}

type runner struct {
	vm                         *goja.Runtime
	w                          *esmodel.World
	doOp, doMethod, dump, bulk goja.Callable
	checkLast                  goja.Callable
}

func callStr(f goja.Callable, args ...goja.Value) (s string, err error) {
	defer func() {
		if p := recover(); p != nil {
			err = fmt.Errorf("Go panic: %v", p)
		}
	}()
	v, err := f(goja.Undefined(), args...)
	if err != nil {
		return "", err
	}
	return v.String(), nil
}

func (r *runner) objOf(tag int) goja.Value {
	return r.vm.Get("OBJ").ToObject(r.vm).Get(strconv.Itoa(tag))
}

func setup(c *Case) (*runner, *evid.Failure) {
	harness := func(msg string) *evid.Failure {
		return &evid.Failure{Check: "arrayhist", Key: "harness", Msg: msg, Case: c}
	}
	vm := goja.New()
	if o := jsx.RunProgram(vm, preludePrg); o.Kind != "value" {
		return nil, harness("prelude: " + o.Text)
	}
	r := &runner{vm: vm, w: esmodel.NewWorld()}
	get := func(name string) goja.Callable { f, _ := goja.AssertFunction(vm.Get(name)); return f }
	r.doOp, r.doMethod, r.dump, r.bulk = get("doOpS"), get("doMethodS"), get("dump"), get("bulkFill")
	r.checkLast = get("checkLastResult")
	mk, dj, fs := get("mkArr"), get("dumpJSON"), get("forceSparse")
	for i := 0; i < 2; i++ {
		r.w.Funcs[900+i] = &esmodel.Func{Getter: true, Ret: esmodel.Str("g" + strconv.Itoa(i)), Name: "G" + strconv.Itoa(i)}
		r.w.Funcs[910+i] = &esmodel.Func{Name: "S" + strconv.Itoa(i)}
		r.w.AddOpaque(900 + i)
		r.w.AddOpaque(910 + i)
	}
	for _, tag := range []int{1, 2} {
		if _, err := mk(goja.Undefined(), vm.ToValue(c.Kind), vm.ToValue(tag)); err != nil {
			return nil, harness("mkArr: " + err.Error())
		}
	}
	if c.Kind != "arraylike" {
		if _, err := fs(goja.Undefined(), vm.ToValue(2)); err != nil {
			return nil, harness("forceSparse: " + err.Error())
		}
	}
	kind := "array"
	if c.Kind == "arraylike" {
		kind = "ordinary"
	}
	for _, l := range []struct {
		tag  int
		kind string
	}{{1, kind}, {800, "ordinary"}, {801, "ordinary"}, {802, "array"}} {
		s, err := callStr(dj, vm.ToValue(l.tag), vm.ToValue(l.kind))
		if err != nil {
			return nil, &evid.Failure{Check: "arrayhist", Key: "setup", Msg: "initial dump failed: " + err.Error(), Case: c}
		}
		if _, err := r.w.Load([]byte(s)); err != nil {
			return nil, harness("load: " + err.Error())
		}
	}
	for _, k := range vm.Get("OBJ").ToObject(vm).Keys() {
		if tag, err := strconv.Atoi(k); err == nil {
			r.w.AddOpaque(tag)
		}
	}
	return r, nil
}

func twinText(s string) string {
	return strings.ReplaceAll(s, "o:2", "o:1")
}

func stepKey(s *Step) string {
	switch s.T {
	case "op":
		k := "str"
		if s.Op.K == `s:"length"` {
			k = "length"
		} else if s.Op.K != "" {
			k = "idx"
		}
		return s.Op.Op + "/" + s.Op.Surf + ":" + k
	case "method":
		return "method:" + s.Name
	}
	return "bulk"
}

func judge(c *Case) (f *evid.Failure, executed int, kindChanged bool, nearNonConfig bool) {
	r, f := setup(c)
	if f != nil {
		return f, 0, false, false
	}
	fail := func(i int, key, msg string) *evid.Failure {
		b, _ := json.Marshal(c.Steps[i])
		return &evid.Failure{Check: "arrayhist", Key: key, Msg: fmt.Sprintf("step %d %s on %s: %s", i, string(b), c.Kind, msg), Case: c}
	}
	lastKind, _, _, _ := goja.VerifArrayKind(r.objOf(1))
	for i, st := range c.Steps {
		m := r.w.Objs[1]
		var want string
		modelled := true
		var gotA, gotB string
		var err error
		switch st.T {
		case "op":
			want, modelled = r.w.Apply(st.Op)
			if !modelled {
				break
			}
			b, _ := json.Marshal(st.Op)
			if gotA, err = callStr(r.doOp, r.vm.ToValue(string(b))); err != nil {
				return fail(i, "exec:"+stepKey(st), err.Error()), i, kindChanged, nearNonConfig
			}
			if st.Op.O == 1 {
				op2 := *st.Op
				op2.O = 2
				b2, _ := json.Marshal(&op2)
				if gotB, err = callStr(r.doOp, r.vm.ToValue(string(b2))); err != nil {
					return fail(i, "exec-twin:"+stepKey(st), err.Error()), i, kindChanged, nearNonConfig
				}
			} else {
				gotB = gotA
			}
		case "method":
			var args []esmodel.Val
			for _, a := range st.Args {
				v, _ := esmodel.ParseVal(a)
				args = append(args, v)
			}
			res := r.w.CallMethod(m, st.Name, args)
			if res.Abrupt == "unmodelled" {
				modelled = false
				break
			}
			switch {
			case res.Abrupt != "":
				want = "throw:" + string(res.Abrupt)
			case res.IsArr:
				want = esmodel.RenderArr(res.Arr)
			default:
				want = res.V.String()
			}
			for _, tag := range []int{1, 2} {
				args2 := make([]string, len(st.Args))
				for j, a := range st.Args {
					args2[j] = a
					if a == "o:1" {
						args2[j] = "o:" + strconv.Itoa(tag)
					}
				}
				b, _ := json.Marshal(map[string]interface{}{"o": tag, "name": st.Name, "args": args2})
				got, err := callStr(r.doMethod, r.vm.ToValue(string(b)))
				if err != nil {
					return fail(i, "exec:"+stepKey(st), err.Error()), i, kindChanged, nearNonConfig
				}
				if tag == 1 {
					gotA = got
				} else {
					gotB = got
				}
				// an array the method returned must be indistinguishable from one with the same elements built by
				// plain assignment (no model involved)
				if tag != 1 {
					continue
				}
				if diff, err := callStr(r.checkLast); err == nil && diff != "" {
					evid.Count("result-twin-checked")
					return fail(i, "result-twin:"+st.Name, diff), i, kindChanged, nearNonConfig
				}
			}
			if gotA == "unsupported" {
				evid.Excluded("method not present in this goja: " + st.Name)
				continue
			}
		case "bulk":
			want = "ok"
			for k := st.Start; k < st.Start+st.K; k++ {
				if ab := r.w.SetThrowIdx(m, float64(k), esmodel.Num(float64(k))); ab != "" {
					if ab == "unmodelled" {
						modelled = false
					}
					want = "throw:" + string(ab)
					break
				}
			}
			if !modelled {
				break
			}
			for _, tag := range []int{1, 2} {
				got, err := callStr(r.bulk, r.vm.ToValue(tag), r.vm.ToValue(st.Start), r.vm.ToValue(st.K))
				if err != nil {
					return fail(i, "exec:bulk", err.Error()), i, kindChanged, nearNonConfig
				}
				if tag == 1 {
					gotA = got
				} else {
					gotB = got
				}
			}
		}
		if !modelled {
			evid.Excluded("history cut: step not modelled")
			return nil, i, kindChanged, nearNonConfig
		}
		if gotA != want {
			return fail(i, "result:"+stepKey(st), fmt.Sprintf("goja returned %s, model says %s", gotA, want)), i, kindChanged, nearNonConfig
		}
		if twinText(gotB) != gotA {
			return fail(i, "twin-result:"+stepKey(st), fmt.Sprintf("the sparse-forced twin returned %s, the array itself %s", gotB, gotA)), i, kindChanged, nearNonConfig
		}
		// state
		dA, err := callStr(r.dump, r.objOf(1))
		if err != nil {
			return fail(i, "dump", err.Error()), i, kindChanged, nearNonConfig
		}
		dB, err := callStr(r.dump, r.objOf(2))
		if err != nil {
			return fail(i, "dump", err.Error()), i, kindChanged, nearNonConfig
		}
		if wantD := r.w.Dump(m); dA != wantD {
			return fail(i, "state:"+stepKey(st), fmt.Sprintf("state differs\n  goja : %s\n  model: %s", clip(dA), clip(wantD))), i, kindChanged, nearNonConfig
		}
		if twinText(dB) != dA {
			return fail(i, "twin-state:"+stepKey(st), fmt.Sprintf("state of the sparse-forced twin differs\n  twin : %s\n  array: %s", clip(dB), clip(dA))), i, kindChanged, nearNonConfig
		}
		for _, ptag := range []int{802, 800} {
			if st.T == "op" && st.Op.O == ptag {
				dP, _ := callStr(r.dump, r.objOf(ptag))
				if wantP := r.w.Dump(r.w.Objs[ptag]); dP != wantP {
					return fail(i, "state-proto:"+stepKey(st), fmt.Sprintf("prototype state differs\n  goja : %s\n  model: %s", clip(dP), clip(wantP))), i, kindChanged, nearNonConfig
				}
			}
		}
		jl := r.vm.Get("LOG").Export()
		var mainLog, twinLog []string
		if arr, ok := jl.([]interface{}); ok {
			for _, x := range arr {
				e := fmt.Sprint(x)
				if strings.Contains(e, "this=o:2") {
					twinLog = append(twinLog, twinText(e))
				} else {
					mainLog = append(mainLog, e)
				}
			}
		}
		if strings.Join(mainLog, ";") != strings.Join(r.w.Log, ";") {
			return fail(i, "log:"+stepKey(st), fmt.Sprintf("accessor calls differ\n  goja : %v\n  model: %v", tailS(mainLog), tailS(r.w.Log))), i, kindChanged, nearNonConfig
		}
		if strings.Join(twinLog, ";") != strings.Join(r.w.Log, ";") {
			return fail(i, "twin-log:"+stepKey(st), fmt.Sprintf("accessor calls of the sparse-forced twin differ\n  twin : %v\n  model: %v", tailS(twinLog), tailS(r.w.Log))), i, kindChanged, nearNonConfig
		}
		if kind, _, _, _ := goja.VerifArrayKind(r.objOf(1)); kind != lastKind {
			kindChanged = true
			lastKind = kind
		}
		if st.T == "op" && st.Op.K == `s:"length"` {
			nearNonConfig = true
		}
	}
	return nil, len(c.Steps), kindChanged, nearNonConfig
}

func clip(s string) string {
	if len(s) > 1500 {
		return s[:700] + " …… " + s[len(s)-700:]
	}
	return s
}

func tailS(s []string) []string {
	if len(s) > 6 {
		return s[len(s)-6:]
	}
	return s
}

func TestQuickArrayHist(t *testing.T) {
	evid.Check(t, "arrayhist", 800, 10, func(t *rapid.T) {
		c := genCase(t)
		f, executed, kindChanged, nearLen := judge(c)
		b, _ := json.Marshal(c)
		evid.Case(string(b), executed > 0 && (kindChanged || nearLen))
		evid.Count("kind:" + c.Kind)
		if kindChanged {
			evid.Count("storage-transition")
		}
		for i := 0; i < executed && i < len(c.Steps); i++ {
			evid.Count("step:" + stepKey(c.Steps[i]))
		}
		evid.Sample("arrayhist", c)
		evid.Judge(t, f)
	})
}

// ---------- sort ----------

type SortCase struct {
	Elems  []string `json:"elems"` // dv strings or "hole"
	Cmp    string   `json:"cmp"`
	Sparse bool     `json:"sparse"`
	Like   bool     `json:"like"`
}

var consistentCmps = []string{"none", "num", "rev", "key", "zero", "negzero", "nan", "undef", "strres", "big", "frac"}
var wildCmps = []string{"always1", "alwaysm1", "flip", "shrink", "pop", "growc", "throw"}

func genSort(t *rapid.T) *SortCase {
	c := &SortCase{Sparse: rapid.IntRange(0, 2).Draw(t, "sparse") == 0, Like: rapid.IntRange(0, 5).Draw(t, "like") == 0}
	if rapid.IntRange(0, 3).Draw(t, "wild") == 0 {
		c.Cmp = rapid.SampledFrom(wildCmps).Draw(t, "cmp")
	} else {
		c.Cmp = rapid.SampledFrom(consistentCmps).Draw(t, "cmp")
	}
	n := rapid.IntRange(0, 40).Draw(t, "n")
	if rapid.IntRange(0, 9).Draw(t, "long") == 0 {
		n = rapid.IntRange(100, 600).Draw(t, "nlong")
	}
	numeric := c.Cmp != "none" && c.Cmp != "zero" && c.Cmp != "negzero" && c.Cmp != "nan" && c.Cmp != "undef" && c.Cmp != "strres"
	for i := 0; i < n; i++ {
		switch rapid.IntRange(0, 9).Draw(t, "ek") {
		case 0:
			c.Elems = append(c.Elems, "hole")
		case 1:
			c.Elems = append(c.Elems, "u")
		default:
			if numeric || rapid.Bool().Draw(t, "numel") {
				key := rapid.IntRange(-3, 12).Draw(t, "key")
				if c.Cmp == "key" {
					c.Elems = append(c.Elems, "d:"+strconv.Itoa(key*100+i%100))
				} else {
					c.Elems = append(c.Elems, "d:"+strconv.Itoa(key))
				}
			} else {
				c.Elems = append(c.Elems, rapid.SampledFrom([]string{`s:"a"`, `s:"b"`, `s:"B"`, `s:"10"`, `s:"9"`, `s:""`, `s:"aa"`, "null", "b:true", "b:false"}).Draw(t, "sel"))
			}
		}
	}
	return c
}

func utf16Less(a, b string) bool { return a < b } // generated strings are ASCII: byte order == code unit order

func sortExpected(c *SortCase) (string, bool) {
	var in []esmodel.Elem
	for _, e := range c.Elems {
		if e == "hole" {
			in = append(in, esmodel.Elem{Hole: true})
			continue
		}
		v, _ := esmodel.ParseVal(e)
		in = append(in, esmodel.Elem{V: v})
	}
	var less func(a, b esmodel.Val) bool
	switch c.Cmp {
	case "none", "strres":
		less = func(a, b esmodel.Val) bool {
			if c.Cmp == "strres" {
				// x<y on mixed primitives is not a total order: this comparator is only generated for strings-and-numbers-as-strings lists below
			}
			sa, _ := esmodel.ToStringPrim(a)
			sb, _ := esmodel.ToStringPrim(b)
			return utf16Less(sa, sb)
		}
	case "num", "big", "frac":
		less = func(a, b esmodel.Val) bool { return a.N < b.N }
	case "rev":
		less = func(a, b esmodel.Val) bool { return a.N > b.N }
	case "key":
		less = func(a, b esmodel.Val) bool { return floorDiv(a.N, 100) < floorDiv(b.N, 100) }
	case "zero", "negzero", "nan", "undef":
		less = func(a, b esmodel.Val) bool { return false }
	default:
		return "", false
	}
	return esmodel.RenderArr(esmodel.SortStable(in, less)), true
}

func floorDiv(a, b float64) float64 {
	q := a / b
	f := float64(int64(q))
	if f > q {
		f--
	}
	return f
}

func judgeSort(c *SortCase) *evid.Failure {
	if c.Cmp == "strres" {
		// keep x<y a total order: only strings
		for _, e := range c.Elems {
			if e != "hole" && e != "u" && !strings.HasPrefix(e, "s:") {
				evid.Excluded("strres comparator on non-string elements")
				return nil
			}
		}
	}
	vm := goja.New()
	if o := jsx.RunProgram(vm, preludePrg); o.Kind != "value" {
		return &evid.Failure{Check: "sort", Key: "harness", Msg: o.Text, Case: c}
	}
	run, _ := goja.AssertFunction(vm.Get("sortRun"))
	b, _ := json.Marshal(c)
	got, err := callStr(run, vm.ToValue(string(b)))
	store := "dense"
	if c.Sparse {
		store = "sparse"
	}
	if c.Like {
		store = "arraylike"
	}
	if err != nil {
		return &evid.Failure{Check: "sort", Key: "sort-exec:" + c.Cmp + ":" + store, Msg: fmt.Sprintf("sort with comparator %s on %s storage: %v", c.Cmp, store, err), Case: c}
	}
	if want, ok := sortExpected(c); ok {
		if got != want {
			return &evid.Failure{Check: "sort", Key: "sort:" + c.Cmp, Msg: fmt.Sprintf("sort with consistent comparator %s on %s storage\n  goja : %s\n  spec : %s\n  input: %v", c.Cmp, store, clip(got), clip(want), c.Elems), Case: c, Expected: want, Observed: got}
		}
		return nil
	}
	// inconsistent / mutating / throwing comparators: validity only
	switch c.Cmp {
	case "always1", "alwaysm1", "flip":
		if strings.HasPrefix(got, "throw:") || got == "notsame" {
			return &evid.Failure{Check: "sort", Key: "sort-wild:" + c.Cmp + ":" + store, Msg: "sort with an inconsistent comparator failed: " + got, Case: c}
		}
		if !samePermutation(got, c.Elems) {
			return &evid.Failure{Check: "sort", Key: "sort-perm:" + c.Cmp + ":" + store, Msg: fmt.Sprintf("sort with an inconsistent comparator lost or duplicated elements\n  goja : %s\n  input: %v", clip(got), c.Elems), Case: c}
		}
	case "throw":
		n := 0
		for _, e := range c.Elems {
			if e != "hole" && e != "u" {
				n++
			}
		}
		if n >= 3 && got != "throw:RangeError" {
			return &evid.Failure{Check: "sort", Key: "sort-throw:" + store, Msg: "comparator threw RangeError at its 2nd call but sort returned " + clip(got), Case: c}
		}
	}
	return nil
}

func samePermutation(rendered string, elems []string) bool {
	i := strings.IndexByte(rendered, ':')
	if !strings.HasPrefix(rendered, "[") || i < 0 {
		return false
	}
	body := strings.TrimSuffix(rendered[i+1:], "]")
	var got []string
	if body != "" {
		got = strings.Split(body, ",")
	}
	a := append([]string{}, got...)
	b := append([]string{}, elems...)
	if len(a) != len(b) {
		return false
	}
	sort.Strings(a)
	sort.Strings(b)
	for i := range a {
		if a[i] != b[i] {
			return false
		}
	}
	return true
}

func TestQuickSort(t *testing.T) {
	evid.Check(t, "sort", 3000, 10, func(t *rapid.T) {
		c := genSort(t)
		b, _ := json.Marshal(c)
		evid.Case(string(b), len(c.Elems) >= 3)
		evid.Count("cmp:" + c.Cmp)
		evid.Sample("sort", c)
		evid.Judge(t, judgeSort(c))
	})
}

func TestReplay(t *testing.T) {
	p := os.Getenv("VERIF_REPLAY")
	if p == "" {
		t.Skip("no VERIF_REPLAY")
	}
	check, raw, err := evid.LoadReplay(p)
	if err != nil {
		t.Fatal(err)
	}
	switch check {
	case "arrayhist":
		var c Case
		if err := json.Unmarshal(raw, &c); err != nil {
			t.Fatal(err)
		}
		f, _, _, _ := judge(&c)
		evid.Direct(t, f)
	case "sort":
		var c SortCase
		if err := json.Unmarshal(raw, &c); err != nil {
			t.Fatal(err)
		}
		evid.Direct(t, judgeSort(&c))
	}
}
