package c09

import (
	"encoding/json"
	"fmt"
	"os"
	"reflect"
	"strings"
	"testing"

	"pgregory.net/rapid"

	"verifh/internal/evid"
	"verifh/internal/jsgen/j0"
	"verifh/internal/refjs"
	"verifh/internal/refjs/gojarun"
)

func TestMain(m *testing.M) { evid.Main("C09", m) }

// GCase: a generator (or async function) body plus a driver history, as one program.
type GCase struct {
	Prog      *refjs.Node `json:"prog"`
	Strict    bool        `json:"strict"`
	Placement string      `json:"placement"`
	Depth     int         `json:"depth"` // metamorphic: the driver is additionally run from this call depth
	Source    string      `json:"source,omitempty"`
}

func sameObs(a, b refjs.Observation, completion bool) (string, bool) {
	if !reflect.DeepEqual(a.Log, b.Log) && !(len(a.Log) == 0 && len(b.Log) == 0) {
		return "log", false
	}
	if a.Exception != b.Exception {
		return "exception", false
	}
	if completion && a.Completion != b.Completion {
		return "completion", false
	}
	return "", true
}

func showObs(o refjs.Observation) string {
	return fmt.Sprintf("log=%v completion=%s exception=%s", o.Log, o.Completion, o.Exception)
}

// deepen moves every top-level statement after the generator object's creation
// (the driver calls and the final log) into a function that is invoked through
// `depth` nested calls, so that the operand stack base at each resume differs
// from the base at the corresponding suspend.
func deepen(p *refjs.Node, depth int) (*refjs.Node, bool) {
	q := p.Clone()
	idx := -1
	for i, s := range q.Kids {
		if s != nil && s.K == "var" && len(s.Kids) == 1 && s.Kids[0].Kids[0].K == "id" && s.Kids[0].Kids[0].S == "it" {
			idx = i
		}
	}
	if idx < 0 || idx == len(q.Kids)-1 {
		return nil, false
	}
	drv := q.Kids[idx+1:]
	q.Kids = append(q.Kids[:idx+1:idx+1],
		refjs.FuncDecl("function", "__drv", refjs.Params(), drv...),
		refjs.FuncDecl("function", "__deep", refjs.Params(refjs.Id("n"), refjs.Id("f")),
			refjs.Return(refjs.Cond(refjs.Bin(">", refjs.Id("n"), refjs.Num(0)),
				refjs.Bin("+", refjs.Num(0), refjs.Call(refjs.Id("__deep"), refjs.Bin("-", refjs.Id("n"), refjs.Num(1)), refjs.Id("f"))),
				refjs.Call(refjs.Id("f"))))),
		refjs.ExprStmt(refjs.Call(refjs.Id("__deep"), refjs.Num(float64(depth)), refjs.Id("__drv"))))
	return q, true
}

type verdict struct {
	f      *evid.Failure
	judged bool
}

func hostKey(h string) string {
	if i := strings.IndexByte(h, '\n'); i > 0 {
		h = h[:i]
	}
	if len(h) > 80 {
		h = h[:80]
	}
	return h
}

func judge(c *GCase) verdict {
	var v verdict
	opt := refjs.Options{Strict: c.Strict, Placement: c.Placement, MaxSteps: 50000}
	ref := refjs.Run(c.Prog, opt)
	if ref.Unsupported != "" {
		evid.Excluded("refjs: unsupported construct")
		return v
	}
	if ref.Fuel {
		evid.Excluded("refjs: fuel exhausted")
		return v
	}
	src := refjs.Source(c.Prog, opt)
	c.Source = src
	g := gojarun.Run(src, 0, 0)
	if g.HostError != "" {
		v.f = &evid.Failure{Check: "drivers", Key: "host:" + hostKey(g.HostError), Msg: fmt.Sprintf("goja did not complete the program: %s\n%s\nsource:\n%s", g.HostError, g.PanicStack, src), Case: c}
		return v
	}
	v.judged = true
	if what, ok := sameObs(ref, g.Observation, c.Placement != "function"); !ok {
		v.f = &evid.Failure{Check: "drivers", Key: "def:" + what, Msg: fmt.Sprintf("goja and the generator state machine of the definitional interpreter disagree on the %s (strict=%v placement=%s)\n  goja : %s\n  spec : %s\nsource:\n%s", what, c.Strict, c.Placement, showObs(g.Observation), showObs(ref), src), Case: c}
		return v
	}
	if c.Depth > 0 {
		if q, ok := deepen(c.Prog, c.Depth); ok {
			src2 := refjs.Source(q, opt)
			g2 := gojarun.Run(src2, 0, 0)
			if g2.HostError != "" {
				v.f = &evid.Failure{Check: "depth", Key: "depth:host:" + hostKey(g2.HostError), Msg: fmt.Sprintf("driver run from call depth %d: %s\n%s\nsource:\n%s", c.Depth, g2.HostError, g2.PanicStack, src2), Case: c}
				return v
			}
			if what, ok := sameObs(g.Observation, g2.Observation, false); !ok {
				v.f = &evid.Failure{Check: "depth", Key: "depth:" + what, Msg: fmt.Sprintf("the same driver history issued from call depth %d gives a different %s\n  depth 0: %s\n  depth %d: %s\nsource:\n%s", c.Depth, what, showObs(g.Observation), c.Depth, showObs(g2.Observation), src2), Case: c}
				return v
			}
			evid.Count("depth-judged")
		}
	}
	return v
}

func TestQuickDrivers(t *testing.T) {
	// generator restrictions still needed because of known findings (see known_findings.json)
	evid.Check(t, "drivers", 16000, 6, func(t *rapid.T) {
		prog, opt, nontrivial := j0.GenGeneratorCase(t)
		c := &GCase{Prog: prog, Strict: opt.Strict, Placement: opt.Placement}
		if rapid.IntRange(0, 2).Draw(t, "deep") == 0 {
			c.Depth = rapid.IntRange(1, 20).Draw(t, "depth")
		}
		v := judge(c)
		evid.Case(c.Source+fmt.Sprint(c.Depth), nontrivial && v.judged)
		if v.judged {
			evid.Count("judged")
		}
		evid.Count("placement:" + c.Placement)
		evid.Sample("drivers", map[string]interface{}{"strict": c.Strict, "placement": c.Placement, "depth": c.Depth, "source": c.Source})
		evid.Judge(t, v.f)
	})
}

func TestReplay(t *testing.T) {
	p := os.Getenv("VERIF_REPLAY")
	if p == "" {
		t.Skip("no VERIF_REPLAY")
	}
	_, raw, err := evid.LoadReplay(p)
	if err != nil {
		t.Fatal(err)
	}
	var c GCase
	if err := json.Unmarshal(raw, &c); err != nil {
		t.Fatal(err)
	}
	evid.Direct(t, judge(&c).f)
}
