package c17

// Case / Op description (JSON-serialisable) and the specification semantics of
// every operation over the model state.

import (
	"math"
	"math/big"
	"sort"
	"strconv"

	"verifh/internal/numref"
)

type Val struct {
	K string `json:"k"`           // u, null, n, b, s, t
	N string `json:"n,omitempty"` // number: float64 bits (hex); bigint: decimal; string: text; boolean: "1"/"0"
}

func (v Val) mv() mval {
	switch v.K {
	case "u", "":
		return undef
	case "null":
		return mval{k: '0'}
	case "n":
		u, err := strconv.ParseUint(v.N, 16, 64)
		if err != nil {
			panic("bad number bits " + v.N)
		}
		return num(math.Float64frombits(u))
	case "b":
		b, ok := new(big.Int).SetString(v.N, 10)
		if !ok {
			panic("bad bigint " + v.N)
		}
		return bigv(b)
	case "s":
		return str(v.N)
	case "t":
		return boolv(v.N == "1")
	}
	panic("bad Val kind " + v.K)
}

func nval(f float64) Val  { return Val{K: "n", N: strconv.FormatUint(math.Float64bits(f), 16)} }
func bval(b *big.Int) Val { return Val{K: "b", N: b.String()} }
func sval(s string) Val   { return Val{K: "s", N: s} }

// Effect is a re-entrant side effect performed by user code that the engine calls back.
type Effect struct {
	Kind string `json:"kind"` // detach | poke
	Buf  int    `json:"buf"`
	Off  int    `json:"off,omitempty"`
	Byte int    `json:"byte,omitempty"`
}

// Arg is one argument: a primitive, or an object whose valueOf (toString for
// string positions) performs Eff and then returns the primitive.
type Arg struct {
	V      Val     `json:"v"`
	Obj    bool    `json:"obj,omitempty"`
	Eff    *Effect `json:"eff,omitempty"`
	Absent bool    `json:"absent,omitempty"`
}

func (a *Arg) mv() mval {
	if a == nil || a.Absent {
		return undef
	}
	if a.Obj {
		return mval{k: 'o', arg: a}
	}
	return a.V.mv()
}

type Species struct {
	Mode string  `json:"mode"` // undef | prim | specnull | specprim | ctor | fnview | fnnew | fnplain   (buffers: fnbuf | fnnewbuf)
	View int     `json:"view,omitempty"`
	T    int     `json:"t,omitempty"`
	Buf  int     `json:"buf,omitempty"`
	Off  int     `json:"off,omitempty"`
	Len  int     `json:"len,omitempty"` // -1: to end (argument omitted)
	Eff  *Effect `json:"eff,omitempty"`
}

type Callback struct {
	At  int     `json:"at"` // element index at which Eff fires (-1: never)
	Eff *Effect `json:"eff,omitempty"`
	Ret string  `json:"ret"` // t@ | f@ | const | id | idx
	R   int     `json:"r,omitempty"`
	C   *Arg    `json:"c,omitempty"`
}

type Source struct {
	Kind string `json:"kind"` // view | list | len | alike ({length: Len, 0: List[0], ...})
	View int    `json:"view,omitempty"`
	List []Arg  `json:"list,omitempty"`
	Len  *Arg   `json:"len,omitempty"`
}

type Key struct {
	Str bool   `json:"str,omitempty"`
	S   string `json:"s,omitempty"`
	N   Val    `json:"n,omitempty"`
}

type Op struct {
	Op     string    `json:"op"`
	V      int       `json:"v,omitempty"`
	B      int       `json:"b,omitempty"`
	T      int       `json:"t,omitempty"`
	M      string    `json:"m,omitempty"`
	A      []Arg     `json:"a,omitempty"`
	Src    *Source   `json:"src,omitempty"`
	Sp     *Species  `json:"sp,omitempty"`
	Cb     *Callback `json:"cb,omitempty"`
	Cmp    string    `json:"cmp,omitempty"` // sort comparator: none | asc | desc | zero | negzero | nan | undef | objasc | bad1 | badobj | badnull
	CmpEff *Effect   `json:"cmpeff,omitempty"`
	Key    *Key      `json:"key,omitempty"`
	Off    int       `json:"off,omitempty"`
	Byte   int       `json:"byte,omitempty"`
}

type BufInit struct {
	N    int    `json:"n"`
	Init string `json:"init"` // hex, 2*N digits
}

type Case struct {
	Bufs []BufInit `json:"bufs"`
	Ops  []Op      `json:"ops"`
}

func (op *Op) arg(i int) mval {
	if i < len(op.A) {
		return op.A[i].mv()
	}
	return undef
}

func (op *Op) present(i int) bool { return i < len(op.A) && !op.A[i].Absent }

// outcome of one model step
type outcome struct {
	throw string
	val   mval
	log   []mval
	noLog bool // number / order of callback invocations is implementation-defined (sort)
}

func newModel(c *Case) *model {
	m := &model{}
	for _, b := range c.Bufs {
		i := m.addBuf(b.N, true)
		for j := 0; j < b.N; j++ {
			x, _ := strconv.ParseUint(b.Init[2*j:2*j+2], 16, 8)
			m.bufs[i].data[j] = byte(x)
		}
	}
	return m
}

func (m *model) step(op *Op) (out outcome) {
	m.beginStep()
	nb, nv := len(m.bufs), len(m.views)
	m.preB = nb
	defer func() {
		if p := recover(); p != nil {
			if t, ok := p.(mthrow); ok {
				out = outcome{throw: t.name, log: m.log, noLog: out.noLog}
				m.bufs = m.bufs[:nb]
				m.views = m.views[:nv]
				m.newV = 0
				return
			}
			panic(p)
		}
	}()
	if op.Op == "meth" && (op.M == "sort" || op.M == "toSorted") {
		out.noLog = true
	}
	v := m.apply(op)
	out.val = v
	out.log = m.log
	return
}

// ---------------------------------------------------------------- constructors

func (m *model) alloc(t, n int) *mview {
	b := m.addBuf(n*etypes[t].Size, false)
	return &mview{t: t, buf: b, off: 0, n: n}
}

// InitializeTypedArrayFromArrayBuffer
func (m *model) fromBuffer(t, b int, offA, lenA mval) *mview {
	size := float64(etypes[t].Size)
	offset := m.toIndex(offA)
	if math.Mod(offset, size) != 0 {
		throw("RangeError")
	}
	var newLength float64
	if lenA.k != 'u' {
		newLength = m.toIndex(lenA)
	}
	mb := m.bufs[b]
	if mb.detached {
		throw("TypeError")
	}
	bl := float64(len(mb.data))
	var nbl float64
	if lenA.k == 'u' {
		if math.Mod(bl, size) != 0 {
			throw("RangeError")
		}
		nbl = bl - offset
		if nbl < 0 {
			throw("RangeError")
		}
	} else {
		nbl = newLength * size
		if offset+nbl > bl {
			throw("RangeError")
		}
	}
	return &mview{t: t, buf: b, off: int(offset), n: int(nbl / size)}
}

// InitializeTypedArrayFromTypedArray
func (m *model) fromTypedArray(t int, src *mview) *mview {
	if m.isDetached(src) {
		throw("TypeError")
	}
	n := src.n
	if t == src.t {
		bs := m.rd(src.buf, src.off, n*etypes[t].Size)
		nv := m.alloc(t, n)
		m.wr(nv.buf, 0, bs)
		return nv
	}
	nv := m.alloc(t, n)
	if etypes[t].Big != etypes[src.t].Big {
		throw("TypeError")
	}
	for k := 0; k < n; k++ {
		v := m.getValue(src.buf, src.off+k*etypes[src.t].Size, src.t, true)
		m.setValue(nv.buf, k*etypes[t].Size, t, v, true)
	}
	return nv
}

// constructTA = the T constructor called with NewTarget = T
func (m *model) constructTA(t int, args []mval) *mview {
	if len(args) == 0 {
		return m.alloc(t, 0)
	}
	a0 := args[0]
	get := func(i int) mval {
		if i < len(args) {
			return args[i]
		}
		return undef
	}
	switch a0.k {
	case 'B':
		return m.fromBuffer(t, a0.id, get(1), get(2))
	case 'v':
		return m.fromTypedArray(t, m.views[a0.id])
	case 'l':
		nv := m.alloc(t, len(a0.list))
		for k, x := range a0.list {
			m.setElem(nv, float64(k), x)
		}
		return nv
	case 'o', 'x', 'w':
		panic("constructTA: object argument not modelled")
	}
	n := m.toIndex(a0)
	if n > 1<<20 {
		panic("constructTA: generator must not request huge lengths")
	}
	return m.alloc(t, int(n))
}

type ctorRef struct {
	kind string // T | fnview | fnnew | fnplain
	t    int
	sp   *Species
}

// TypedArrayCreateFromCtor
func (m *model) createFromCtor(c ctorRef, args []mval) *mview {
	var nv *mview
	switch c.kind {
	case "T":
		nv = m.constructTA(c.t, args)
	case "fnview":
		m.fire(c.sp.Eff)
		nv = m.views[c.sp.View]
	case "fnnew":
		m.fire(c.sp.Eff)
		a := []mval{bufv(c.sp.Buf), num(float64(c.sp.Off))}
		if c.sp.Len >= 0 {
			a = append(a, num(float64(c.sp.Len)))
		}
		nv = m.constructTA(c.sp.T, a)
	case "fnplain":
		m.fire(c.sp.Eff)
		throw("TypeError")
	default:
		panic("bad ctorRef " + c.kind)
	}
	if nv.dv || m.isDetached(nv) {
		throw("TypeError")
	}
	if len(args) == 1 && args[0].k == 'n' {
		if float64(nv.n) < args[0].n {
			throw("TypeError")
		}
	}
	return nv
}

func (m *model) ctorOf(def int, sp *Species) ctorRef {
	if sp == nil {
		return ctorRef{kind: "T", t: def}
	}
	switch sp.Mode {
	case "undef", "specnull":
		return ctorRef{kind: "T", t: def}
	case "prim", "specprim":
		throw("TypeError")
	case "ctor":
		return ctorRef{kind: "T", t: sp.T}
	case "fnview", "fnnew", "fnplain":
		return ctorRef{kind: sp.Mode, sp: sp}
	}
	panic("bad species mode " + sp.Mode)
}

// TypedArraySpeciesCreate
func (m *model) speciesCreate(ex *mview, sp *Species, args []mval) *mview {
	c := m.ctorOf(ex.t, sp)
	r := m.createFromCtor(c, args)
	if etypes[r.t].Big != etypes[ex.t].Big {
		throw("TypeError")
	}
	return r
}

// finish turns a view produced inside an operation into the operation's result value,
// registering it if it is a new object.
func (m *model) finish(nv *mview) mval {
	for i, v := range m.views {
		if v == nv {
			return viewv(i)
		}
	}
	m.views = append(m.views, nv)
	m.newV++
	return viewv(len(m.views) - 1)
}

// ---------------------------------------------------------------- apply

func (m *model) apply(op *Op) mval {
	switch op.Op {
	case "newta":
		args := []mval{bufv(op.B)}
		for i := range op.A {
			args = append(args, op.A[i].mv())
		}
		return m.finish(m.constructTA(op.T, args))
	case "newdv":
		return m.finish(m.newDataView(op))
	case "newfrom":
		var a0 mval
		switch op.Src.Kind {
		case "view":
			a0 = viewv(op.Src.View)
		case "list":
			a0 = m.listVal(op.Src.List)
		case "len":
			a0 = op.Src.List[0].mv()
		}
		return m.finish(m.constructTA(op.T, []mval{a0}))
	case "newab":
		n := m.toIndex(op.arg(0))
		if n > 1<<20 {
			panic("newab: generator must not request huge lengths")
		}
		return bufv(m.addBuf(int(n), false))
	case "defprop":
		// Reflect.defineProperty(ta, key, {value: v}) followed by delete
		v := m.views[op.V]
		idx, canon := keyIndex(op.Key)
		if !canon {
			return mval{k: 'l', list: []mval{boolv(true), boolv(true)}}
		}
		if !m.validIndex(v, idx) {
			return mval{k: 'l', list: []mval{boolv(false), boolv(true)}}
		}
		m.setElem(v, idx, op.arg(0))
		return mval{k: 'l', list: []mval{boolv(true), boolv(!m.validIndex(v, idx))}}
	case "get":
		v := m.views[op.V]
		idx, canon := keyIndex(op.Key)
		if !canon {
			return undef
		}
		return m.getElem(v, idx)
	case "has":
		v := m.views[op.V]
		idx, canon := keyIndex(op.Key)
		if !canon {
			return boolv(false)
		}
		return boolv(m.validIndex(v, idx))
	case "put":
		v := m.views[op.V]
		idx, canon := keyIndex(op.Key)
		val := op.arg(0)
		if !canon {
			r := val
			if r.k == 'o' {
				r = mval{k: 'x'}
			}
			return mval{k: 'l', list: []mval{boolv(true), r, boolv(true)}}
		}
		m.setElem(v, idx, val)
		h := m.validIndex(v, idx)
		return mval{k: 'l', list: []mval{boolv(h), m.getElem(v, idx), boolv(!h)}}
	case "prop":
		return m.opProp(op)
	case "meth":
		return m.opMeth(op)
	case "static":
		return m.opStatic(op)
	case "dvget":
		return m.opDVGet(op)
	case "dvset":
		m.opDVSet(op)
		return undef
	case "abslice":
		return m.opABSlice(op)
	case "godetach":
		m.detach(op.B)
		return undef
	case "gopoke":
		mb := m.bufs[op.B]
		if !mb.detached && op.Off < len(mb.data) {
			m.wr(op.B, op.Off, []byte{byte(op.Byte)})
		}
		return undef
	case "goexportto", "goexport":
		// handled by the judge (Go-side observation); the model only performs the write-through
		return m.opExport(op)
	}
	panic("unknown op " + op.Op)
}

func (m *model) listVal(l []Arg) mval {
	r := mval{k: 'l'}
	for i := range l {
		r.list = append(r.list, l[i].mv())
	}
	return r
}

// keyIndex: the numeric index denoted by a property key, and whether the key is a CanonicalNumericIndexString
func keyIndex(k *Key) (float64, bool) {
	if !k.Str {
		n := k.N.mv().n
		if n == 0 {
			n = 0 // ToString(-0) = "0"
		}
		return n, true // ToString of a Number is always canonical
	}
	return canonicalNumeric(k.S)
}

func (m *model) newDataView(op *Op) *mview {
	mb := m.bufs[op.B]
	offset := m.toIndex(op.arg(0))
	if mb.detached {
		throw("TypeError")
	}
	bl := float64(len(mb.data))
	if offset > bl {
		throw("RangeError")
	}
	lenA := op.arg(1)
	var vl float64
	if lenA.k == 'u' {
		vl = bl - offset
	} else {
		vl = m.toIndex(lenA)
		if offset+vl > bl {
			throw("RangeError")
		}
	}
	if mb.detached {
		throw("TypeError")
	}
	return &mview{dv: true, t: tUint8, buf: op.B, off: int(offset), n: int(vl)}
}

func (m *model) opProp(op *Op) mval {
	if op.M == "ablen" {
		mb := m.bufs[op.B]
		if mb.detached {
			return num(0)
		}
		return num(float64(len(mb.data)))
	}
	v := m.views[op.V]
	det := m.isDetached(v)
	switch op.M {
	case "buffer":
		return bufv(v.buf)
	case "length":
		if det {
			return num(0)
		}
		return num(float64(v.n))
	case "byteLength":
		if det {
			if v.dv {
				throw("TypeError")
			}
			return num(0)
		}
		return num(float64(v.n * v.size()))
	case "byteOffset":
		if det {
			if v.dv {
				throw("TypeError")
			}
			return num(0)
		}
		return num(float64(v.off))
	}
	panic("bad prop " + op.M)
}

func (m *model) opDVGet(op *Op) mval {
	v := m.views[op.V]
	size := etypes[op.T].Size
	gi := m.toIndex(op.arg(0))
	little := toBoolean(op.arg(1))
	if m.isDetached(v) {
		throw("TypeError")
	}
	if gi+float64(size) > float64(v.n) {
		m.oobDV = true
		throw("RangeError")
	}
	return m.getValue(v.buf, v.off+int(gi), op.T, little)
}

func (m *model) opDVSet(op *Op) {
	v := m.views[op.V]
	size := etypes[op.T].Size
	gi := m.toIndex(op.arg(0))
	nv := m.coerceElem(op.T, op.arg(1))
	little := toBoolean(op.arg(2))
	if m.isDetached(v) {
		throw("TypeError")
	}
	if gi+float64(size) > float64(v.n) {
		m.oobDV = true
		throw("RangeError")
	}
	m.setValue(v.buf, v.off+int(gi), op.T, nv, little)
}

func (m *model) opABSlice(op *Op) mval {
	b := op.B
	mb := m.bufs[b]
	if mb.detached {
		throw("TypeError")
	}
	n := len(mb.data)
	first := rel(m.toIntInf(op.arg(0)), n)
	final := n
	if a := op.arg(1); a.k != 'u' {
		final = rel(m.toIntInf(a), n)
	}
	newLen := final - first
	if newLen < 0 {
		newLen = 0
	}
	var nb int
	sp := op.Sp
	mode := ""
	if sp != nil {
		mode = sp.Mode
	}
	switch mode {
	case "", "undef", "specnull":
		nb = m.addBuf(newLen, false)
	case "prim", "specprim":
		throw("TypeError")
	case "fnplain":
		m.fire(sp.Eff)
		throw("TypeError")
	case "fnbuf":
		m.fire(sp.Eff)
		nb = sp.Buf
	case "fnnewbuf":
		m.fire(sp.Eff)
		nb = m.addBuf(sp.Len, false)
	default:
		panic("bad buffer species " + mode)
	}
	tb := m.bufs[nb]
	if tb.detached {
		throw("TypeError")
	}
	if nb == b {
		throw("TypeError")
	}
	if len(tb.data) < newLen {
		throw("TypeError")
	}
	if mb.detached {
		throw("TypeError")
	}
	if newLen > 0 {
		m.wr(nb, 0, m.rd(b, first, newLen))
	}
	return bufv(nb)
}

// opExport: ExportTo(&[]byte) of a view / buffer, then a Go write through the slice.
// op.V >= 0: view; else buffer op.B. The result encodes the expected window.
func (m *model) opExport(op *Op) mval {
	var b, off, n int
	if op.V >= 0 {
		v := m.views[op.V]
		b, off, n = v.buf, v.off, v.n*v.size()
	} else {
		b, off, n = op.B, 0, len(m.bufs[op.B].data)
	}
	if m.bufs[b].detached {
		return mval{k: 'x', id: -1}
	}
	if op.Op == "goexportto" && n > 0 {
		m.wr(b, off+op.Off%n, []byte{byte(op.Byte)})
	}
	return mval{k: 'x', id: b, r: off, w: n}
}

// ---------------------------------------------------------------- %TypedArray%.prototype methods

func (m *model) callCb(cb *Callback, v mval, i int) mval {
	m.log = append(m.log, v)
	if cb.At == i {
		m.fire(cb.Eff)
	}
	switch cb.Ret {
	case "t@":
		return boolv(i == cb.R)
	case "f@":
		return boolv(i != cb.R)
	case "const":
		return cb.C.mv()
	case "id":
		return v
	case "idx":
		return num(float64(i))
	}
	panic("bad callback ret " + cb.Ret)
}

func defaultLess(x, y mval) bool {
	if x.k == 'b' {
		return x.b.Cmp(y.b) < 0
	}
	a, b := x.n, y.n
	if math.IsNaN(a) {
		return false
	}
	if math.IsNaN(b) {
		return true
	}
	if a < b {
		return true
	}
	if a > b {
		return false
	}
	if a == 0 && b == 0 {
		return math.Signbit(a) && !math.Signbit(b)
	}
	return false
}

// ascCmp is the model of the generated total-preorder comparator (NaN last, -0 == +0)
func ascCmp(x, y mval) int {
	if x.k == 'b' {
		return x.b.Cmp(y.b)
	}
	a, b := x.n, y.n
	an, bn := math.IsNaN(a), math.IsNaN(b)
	if an || bn {
		r := 0
		if an {
			r++
		}
		if bn {
			r--
		}
		return r
	}
	if a < b {
		return -1
	}
	if a > b {
		return 1
	}
	return 0
}

func (m *model) sortedValues(op *Op, vals []mval) []mval {
	out := append([]mval(nil), vals...)
	if op.Cmp != "" && op.Cmp != "none" && len(vals) >= 2 {
		m.fire(op.CmpEff)
	}
	switch op.Cmp {
	case "", "none":
		sort.SliceStable(out, func(i, j int) bool { return defaultLess(out[i], out[j]) })
	case "asc", "objasc":
		sort.SliceStable(out, func(i, j int) bool { return ascCmp(out[i], out[j]) < 0 })
	case "desc":
		sort.SliceStable(out, func(i, j int) bool { return ascCmp(out[i], out[j]) > 0 })
	case "zero", "negzero", "nan", "undef":
	default:
		panic("bad comparator " + op.Cmp)
	}
	return out
}

func (m *model) opMeth(op *Op) mval {
	o := m.views[op.V]
	this := viewv(op.V)
	size := 1
	if !o.dv {
		size = etypes[o.t].Size
	}
	switch op.M {
	case "at":
		n := m.validate(o)
		r := m.toIntInf(op.arg(0))
		k := r
		if r < 0 {
			k = float64(n) + r
		}
		if k < 0 || k >= float64(n) {
			return undef
		}
		return m.getElem(o, k)

	case "includes", "indexOf":
		n := m.validate(o)
		if n == 0 {
			if op.M == "includes" {
				return boolv(false)
			}
			return num(-1)
		}
		se := op.arg(0)
		fi := m.toIntInf(op.arg(1))
		k := rel(fi, n)
		if math.IsInf(fi, 1) {
			k = n
		}
		for ; k < n; k++ {
			if op.M == "includes" {
				if sameValueZero(se, m.getElem(o, float64(k))) {
					return boolv(true)
				}
			} else if m.validIndex(o, float64(k)) {
				if strictEq(se, m.getElem(o, float64(k))) {
					return num(float64(k))
				}
			}
		}
		if op.M == "includes" {
			return boolv(false)
		}
		return num(-1)

	case "lastIndexOf":
		n := m.validate(o)
		if n == 0 {
			return num(-1)
		}
		se := op.arg(0)
		fi := float64(n - 1)
		if op.present(1) {
			fi = m.toIntInf(op.arg(1))
		}
		if math.IsInf(fi, -1) {
			return num(-1)
		}
		var k float64
		if fi >= 0 {
			k = math.Min(fi, float64(n-1))
		} else {
			k = float64(n) + fi
		}
		for ; k >= 0; k-- {
			if m.validIndex(o, k) && strictEq(se, m.getElem(o, k)) {
				return num(k)
			}
		}
		return num(-1)

	case "join":
		n := m.validate(o)
		sep := ","
		if a := op.arg(0); a.k != 'u' {
			sep = m.toString(a)
		}
		r := ""
		for k := 0; k < n; k++ {
			if k > 0 {
				r += sep
			}
			e := m.getElem(o, float64(k))
			if e.k != 'u' {
				r += m.toString(e)
			}
		}
		return str(r)

	case "fill":
		n := m.validate(o)
		m.noteBulk(o)
		val := m.coerceElem(o.t, op.arg(0))
		k := rel(m.toIntInf(op.arg(1)), n)
		end := n
		if a := op.arg(2); a.k != 'u' {
			end = rel(m.toIntInf(a), n)
		}
		if m.isDetached(o) {
			throw("TypeError")
		}
		for ; k < end; k++ {
			m.setValue(o.buf, o.off+k*size, o.t, val, true)
		}
		return this

	case "copyWithin":
		n := m.validate(o)
		m.noteBulk(o)
		to := rel(m.toIntInf(op.arg(0)), n)
		from := rel(m.toIntInf(op.arg(1)), n)
		final := n
		if a := op.arg(2); a.k != 'u' {
			final = rel(m.toIntInf(a), n)
		}
		count := final - from
		if n-to < count {
			count = n - to
		}
		if count > 0 {
			if m.isDetached(o) {
				throw("TypeError")
			}
			bs := m.rd(o.buf, o.off+from*size, count*size)
			m.wr(o.buf, o.off+to*size, bs)
		}
		return this

	case "reverse":
		n := m.validate(o)
		m.noteBulk(o)
		for lo, hi := 0, n-1; lo < hi; lo, hi = lo+1, hi-1 {
			a := m.getElem(o, float64(lo))
			b := m.getElem(o, float64(hi))
			m.setElem(o, float64(lo), b)
			m.setElem(o, float64(hi), a)
		}
		return this

	case "set":
		m.noteBulk(o)
		to := m.toIntInf(op.arg(0))
		if to < 0 {
			throw("RangeError")
		}
		if op.Src.Kind == "view" {
			m.setFromTA(o, to, m.views[op.Src.View])
		} else {
			m.setFromList(o, to, op.Src)
		}
		return undef

	case "slice":
		n := m.validate(o)
		m.noteBulk(o)
		start := rel(m.toIntInf(op.arg(0)), n)
		end := n
		if a := op.arg(1); a.k != 'u' {
			end = rel(m.toIntInf(a), n)
		}
		count := end - start
		if count < 0 {
			count = 0
		}
		a := m.speciesCreate(o, op.Sp, []mval{num(float64(count))})
		if count > 0 {
			if m.isDetached(o) {
				throw("TypeError")
			}
			if a.t == o.t {
				src := o.off + start*size
				dst := a.off
				for i := 0; i < count*size; i++ {
					m.wr(a.buf, dst+i, m.rd(o.buf, src+i, 1))
				}
			} else {
				for k, j := start, 0; k < end; k, j = k+1, j+1 {
					m.setElem(a, float64(j), m.getElem(o, float64(k)))
				}
			}
		}
		return m.finish(a)

	case "subarray":
		m.noteBulk(o)
		srcLen := m.curLen(o)
		begin := rel(m.toIntInf(op.arg(0)), srcLen)
		end := srcLen
		if a := op.arg(1); a.k != 'u' {
			end = rel(m.toIntInf(a), srcLen)
		}
		nl := end - begin
		if nl < 0 {
			nl = 0
		}
		a := m.speciesCreate(o, op.Sp, []mval{bufv(o.buf), num(float64(o.off + begin*size)), num(float64(nl))})
		return m.finish(a)

	case "sort":
		if op.Cmp == "bad1" || op.Cmp == "badobj" || op.Cmp == "badnull" {
			throw("TypeError")
		}
		n := m.validate(o)
		m.noteBulk(o)
		vals := make([]mval, n)
		for k := range vals {
			vals[k] = m.getElem(o, float64(k))
		}
		sorted := m.sortedValues(op, vals)
		for k, v := range sorted {
			m.setElem(o, float64(k), v)
		}
		return this

	case "toSorted":
		if op.Cmp == "bad1" || op.Cmp == "badobj" || op.Cmp == "badnull" {
			throw("TypeError")
		}
		n := m.validate(o)
		m.noteBulk(o)
		a := m.createFromCtor(ctorRef{kind: "T", t: o.t}, []mval{num(float64(n))})
		vals := make([]mval, n)
		for k := range vals {
			vals[k] = m.getElem(o, float64(k))
		}
		sorted := m.sortedValues(op, vals)
		for k, v := range sorted {
			m.setElem(a, float64(k), v)
		}
		return m.finish(a)

	case "toReversed":
		n := m.validate(o)
		m.noteBulk(o)
		a := m.createFromCtor(ctorRef{kind: "T", t: o.t}, []mval{num(float64(n))})
		for k := 0; k < n; k++ {
			m.setElem(a, float64(k), m.getElem(o, float64(n-1-k)))
		}
		return m.finish(a)

	case "with":
		n := m.validate(o)
		m.noteBulk(o)
		r := m.toIntInf(op.arg(0))
		ai := r
		if r < 0 {
			ai = float64(n) + r
		}
		nvv := m.coerceElem(o.t, op.arg(1))
		if !m.validIndex(o, ai) {
			throw("RangeError")
		}
		a := m.createFromCtor(ctorRef{kind: "T", t: o.t}, []mval{num(float64(n))})
		for k := 0; k < n; k++ {
			var fv mval
			if float64(k) == ai {
				fv = nvv
			} else {
				fv = m.getElem(o, float64(k))
			}
			m.setElem(a, float64(k), fv)
		}
		return m.finish(a)

	case "map":
		n := m.validate(o)
		m.noteBulk(o)
		a := m.speciesCreate(o, op.Sp, []mval{num(float64(n))})
		for k := 0; k < n; k++ {
			kv := m.getElem(o, float64(k))
			mv := m.callCb(op.Cb, kv, k)
			m.setElem(a, float64(k), mv)
		}
		return m.finish(a)

	case "filter":
		n := m.validate(o)
		m.noteBulk(o)
		var kept []mval
		for k := 0; k < n; k++ {
			kv := m.getElem(o, float64(k))
			if toBoolean(m.callCb(op.Cb, kv, k)) {
				kept = append(kept, kv)
			}
		}
		a := m.speciesCreate(o, op.Sp, []mval{num(float64(len(kept)))})
		for k, e := range kept {
			m.setElem(a, float64(k), e)
		}
		return m.finish(a)

	case "forEach", "every", "some", "find", "findIndex":
		n := m.validate(o)
		for k := 0; k < n; k++ {
			kv := m.getElem(o, float64(k))
			r := toBoolean(m.callCb(op.Cb, kv, k))
			switch op.M {
			case "every":
				if !r {
					return boolv(false)
				}
			case "some":
				if r {
					return boolv(true)
				}
			case "find":
				if r {
					return kv
				}
			case "findIndex":
				if r {
					return num(float64(k))
				}
			}
		}
		switch op.M {
		case "every":
			return boolv(true)
		case "some":
			return boolv(false)
		case "findIndex":
			return num(-1)
		}
		return undef

	case "findLast", "findLastIndex":
		n := m.validate(o)
		for k := n - 1; k >= 0; k-- {
			kv := m.getElem(o, float64(k))
			if toBoolean(m.callCb(op.Cb, kv, k)) {
				if op.M == "findLast" {
					return kv
				}
				return num(float64(k))
			}
		}
		if op.M == "findLast" {
			return undef
		}
		return num(-1)

	case "reduce", "reduceRight":
		n := m.validate(o)
		var acc mval
		right := op.M == "reduceRight"
		k, stepk := 0, 1
		if right {
			k, stepk = n-1, -1
		}
		if op.present(0) {
			acc = op.arg(0)
			if acc.k == 'o' {
				acc = mval{k: 'x'}
			}
		} else {
			if n == 0 {
				throw("TypeError")
			}
			acc = m.getElem(o, float64(k))
			k += stepk
		}
		for ; k >= 0 && k < n; k += stepk {
			kv := m.getElem(o, float64(k))
			acc = m.callCb(op.Cb, kv, k)
		}
		return acc

	case "forof", "forofkeys":
		// for (x of ta.values()/keys()) { log; effect at iteration At }
		m.validate(o) // values()/keys() validate when the iterator is created
		k := 0
		for {
			if m.isDetached(o) {
				throw("TypeError")
			}
			if k >= o.n {
				break
			}
			var x mval
			if op.M == "forof" {
				x = m.getElem(o, float64(k))
			} else {
				x = num(float64(k))
			}
			m.log = append(m.log, x)
			if op.Cb.At == k {
				m.fire(op.Cb.Eff)
			}
			k++
		}
		return undef

	case "toLocaleString":
		// Number.prototype.toLocaleString / BigInt.prototype.toLocaleString are replaced by a function that logs
		// its receiver, fires the effect at its At-th call and returns "x"; the list separator is assumed to be ","
		n := m.validate(o)
		r := ""
		calls := 0
		for k := 0; k < n; k++ {
			if k > 0 {
				r += ","
			}
			e := m.getElem(o, float64(k))
			if e.k != 'u' {
				m.log = append(m.log, e)
				if op.Cb.At == calls {
					m.fire(op.Cb.Eff)
				}
				calls++
				r += "x"
			}
		}
		return str(r)

	case "toHex":
		if o.dv || o.t != tUint8 {
			throw("TypeError")
		}
		if m.isDetached(o) {
			throw("TypeError")
		}
		return str(hexOf(m.rd(o.buf, o.off, o.n)))

	case "setFromHex":
		if o.dv || o.t != tUint8 {
			throw("TypeError")
		}
		a := op.arg(0)
		if a.k != 's' {
			throw("TypeError")
		}
		if m.isDetached(o) {
			throw("TypeError")
		}
		m.noteBulk(o)
		bs, read, bad := fromHex(a.s, o.n)
		m.wr(o.buf, o.off, bs)
		if bad {
			throw("SyntaxError")
		}
		return mval{k: 'w', r: read, w: len(bs)}
	}
	panic("unknown method " + op.M)
}

// fromHex = FromHex(string, maxLength); max < 0: no limit. The string is BMP-only (one UTF-16 unit per rune).
func fromHex(s string, max int) (bs []byte, read int, bad bool) {
	u := []rune(s)
	if len(u)%2 != 0 {
		return nil, 0, true
	}
	hv := func(r rune) int {
		switch {
		case r >= '0' && r <= '9':
			return int(r - '0')
		case r >= 'a' && r <= 'f':
			return int(r-'a') + 10
		case r >= 'A' && r <= 'F':
			return int(r-'A') + 10
		}
		return -1
	}
	for read < len(u) && (max < 0 || len(bs) < max) {
		h, l := hv(u[read]), hv(u[read+1])
		if h < 0 || l < 0 {
			return bs, read, true
		}
		read += 2
		bs = append(bs, byte(h<<4|l))
	}
	return bs, read, false
}

// SetTypedArrayFromTypedArray
func (m *model) setFromTA(t *mview, to float64, s *mview) {
	if m.isDetached(t) {
		throw("TypeError")
	}
	tl := t.n
	if s.dv {
		panic("set: DataView source not modelled")
	}
	if m.isDetached(s) {
		throw("TypeError")
	}
	sl := s.n
	if math.IsInf(to, 1) {
		throw("RangeError")
	}
	if float64(sl)+to > float64(tl) {
		throw("RangeError")
	}
	if etypes[t.t].Big != etypes[s.t].Big {
		throw("TypeError")
	}
	ss, ts := etypes[s.t].Size, etypes[t.t].Size
	// CloneArrayBuffer when both views share a buffer; reading everything first is equivalent in both cases
	src := m.rd(s.buf, s.off, sl*ss)
	tb := t.off + int(to)*ts
	if s.t == t.t {
		m.wr(t.buf, tb, src)
		return
	}
	for k := 0; k < sl; k++ {
		v := rawToNum(s.t, src[k*ss:(k+1)*ss])
		m.setValue(t.buf, tb+k*ts, t.t, v, true)
	}
}

// toLength = ToLength
func (m *model) toLength(v mval) float64 {
	i := m.toIntInf(v)
	if i <= 0 {
		return 0
	}
	if i > numref.MaxSafe {
		return numref.MaxSafe
	}
	return i
}

// SetTypedArrayFromArrayLike (source is an Array of the given elements, or {length: Len, 0: .., 1: ..})
func (m *model) setFromList(t *mview, to float64, src *Source) {
	if m.isDetached(t) {
		throw("TypeError")
	}
	tl := t.n
	l := src.List
	sl := float64(len(l))
	if src.Kind == "alike" {
		sl = m.toLength(src.Len.mv())
	}
	if math.IsInf(to, 1) {
		throw("RangeError")
	}
	if sl+to > float64(tl) {
		throw("RangeError")
	}
	for k := 0; k < int(sl); k++ {
		v := undef
		if k < len(l) {
			v = l[k].mv()
		}
		m.setElem(t, to+float64(k), v)
	}
}

// ---------------------------------------------------------------- statics: of / from / fromHex

func (m *model) opStatic(op *Op) mval {
	switch op.M {
	case "fromHex":
		a := op.arg(0)
		if a.k != 's' {
			throw("TypeError")
		}
		bs, _, bad := fromHex(a.s, -1)
		if bad {
			throw("SyntaxError")
		}
		nv := m.alloc(tUint8, len(bs))
		m.wr(nv.buf, 0, bs)
		return m.finish(nv)
	case "of":
		c := m.ctorOf(op.T, op.Sp) // Sp describes the `this` constructor here (fn* modes or nil = T itself)
		nv := m.createFromCtor(c, []mval{num(float64(len(op.A)))})
		m.noteBulk(nv)
		for k := range op.A {
			m.setElem(nv, float64(k), op.A[k].mv())
		}
		return m.finish(nv)
	case "from":
		c := m.ctorOf(op.T, op.Sp)
		// source: list (iterable Array) or view (iterable typed array): values are collected first
		var vals []mval
		if op.Src.Kind == "view" {
			s := m.views[op.Src.View]
			// %TypedArray%.prototype.values(): ValidateTypedArray; each next() re-checks
			if m.isDetached(s) {
				throw("TypeError")
			}
			for k := 0; k < s.n; k++ {
				vals = append(vals, m.getElem(s, float64(k)))
			}
		} else {
			for i := range op.Src.List {
				vals = append(vals, op.Src.List[i].mv())
			}
			if op.Src.Kind == "alike" {
				// no @@iterator: LengthOfArrayLike, then the elements are read one by one (plain data properties)
				n := int(m.toLength(op.Src.Len.mv()))
				if n > 64 {
					panic("from: generator must not request huge array-likes")
				}
				for len(vals) < n {
					vals = append(vals, undef)
				}
				vals = vals[:n]
			}
		}
		nv := m.createFromCtor(c, []mval{num(float64(len(vals)))})
		m.noteBulk(nv)
		for k, v := range vals {
			mv := v
			if op.Cb != nil {
				mv = m.callCb(op.Cb, v, k)
			}
			m.setElem(nv, float64(k), mv)
		}
		return m.finish(nv)
	}
	panic("unknown static " + op.M)
}
