package c17

// Generator: draws an operation history while running the model alongside, so
// that indices, offsets, search values and re-entrant effects are aimed at the
// current state (boundaries of each view, the receiver's own buffer, ...).

import (
	"math"
	"math/big"
	"math/bits"
	"strconv"

	"pgregory.net/rapid"

	"verifh/internal/evid"
)

func two(e int) float64 { return math.Ldexp(1, e) }

// boundary numbers (the C05 boundary classes)
var boundaryValues = []float64{
	0, math.Copysign(0, -1), 1, -1, 2, -2, 0.5, -0.5, 1.5, 2.5, 254.5, 255.5, 255, 256, 127, 128, -128, -129, 65535, 65536, 32767, 32768, -32768, -32769,
	two(31) - 1, two(31), -two(31), -two(31) - 1, two(32) - 1, two(32), two(32) + 1, -two(32), two(31) + 0.5,
	two(53), -two(53), two(53) - 1, two(53) - 2, two(53) + 2, -(two(53) + 2), two(53) + 4, two(52), two(52) + 0.5,
	two(63), two(63) + two(11), two(63) - two(10), -two(63), -(two(63) + two(11)), two(64), two(64) + two(12), two(65), 1e21, 1e300, -1e300,
	5e-324, 1e-323, two(-1074) * 3, 2.2250738585072014e-308, 2.225073858507201e-308, math.MaxFloat64, -math.MaxFloat64,
	math.NaN(), math.Inf(1), math.Inf(-1), 1e-7, 123456789.125, 4294967295.5, -2147483648.5, 0.1, 0.30000000000000004,
	// binary32 rounding edges
	16777216, 16777217, 16777218, 16777219, 3.4028234663852886e38, 3.4028235677973366e38, 3.402823567797337e38, 3.4028235677973362e38,
	1.401298464324817e-45, 7.006492321624085e-46, 7.006492321624087e-46, 2.1019476964872256e-45, 1.1754943508222875e-38, 1.1754942106924411e-38,
	1.00000005960464477539, 1.00000017881393432617, 0.1 + 1e-9, 8388608.5, 8388609.5,
}

var bigBoundary = []string{
	"0", "1", "-1", "2", "255", "256", "-128", "9223372036854775807", "9223372036854775808", "-9223372036854775808", "-9223372036854775809",
	"18446744073709551615", "18446744073709551616", "18446744073709551617", "-18446744073709551616", "340282366920938463463374607431768211456",
	"4294967296", "-4294967297", "1311768467463790320",
}

var idxBoundary = []float64{
	math.NaN(), math.Inf(1), math.Inf(-1), math.Copysign(0, -1), 0.5, -0.5, 1.5, -1.5, two(31), two(31) - 1, -two(31), two(32), two(32) + 1, -two(32),
	two(53), -two(53), two(53) - 1, two(63), two(63) + two(11), -two(63), two(64), 1e21, 1e300, -1e300, 5e-324, 0.9999999999999999,
}

var keyStrings = []string{
	"0", "1", "2", "3", "7", "8", "-0", "-1", "1.5", "0.5", "01", "1e3", "1e+21", "1e21", "Infinity", "-Infinity", "NaN", " 1", "+1", "1.", ".5",
	"4294967295", "4294967296", "9007199254740991", "9007199254740992", "9007199254740993", "9223372036854775807", "9223372036854775808",
	"18446744073709551616", "1e-7", "0.0000001", "-", "", "-1e-7", "0x1", "1n", "-00", "00", "1e+400", "-1.5", "2147483648", "-2147483649", "1.0",
}

var numStrings = []string{"12", "-3", "0x10", " 7 ", "", "1.5", "abc", "1e3", "-0", "Infinity", "255.5", "0b11"}

type gctx struct {
	t     *rapid.T
	m     *model
	nb    int  // number of Go-supplied buffers
	focus bool // "focus" histories: one buffer, a few valid views, then bulk operations between them with few re-entrant effects
}

// uniform draws an integer in [lo,hi] uniformly. rapid's own integer generators are deliberately biased
// towards small magnitudes (42% of IntRange(0,99) falls below 10), which would distort every weight and
// percentage below; fair coin flips are not biased, and still shrink towards lo.
func uniform(t *rapid.T, lo, hi int, label string) int {
	r := uint64(hi - lo + 1)
	if hi < lo {
		panic("uniform: empty range " + label)
	}
	if r == 1 {
		return lo
	}
	nb := bits.Len64(r - 1)
	for try := 0; ; try++ {
		var v uint64
		for i := 0; i < nb; i++ {
			v <<= 1
			if rapid.Bool().Draw(t, label) {
				v |= 1
			}
		}
		if v < r {
			return lo + int(v)
		}
		if try >= 8 {
			return lo + int(v%r)
		}
	}
}

func (g *gctx) n(lo, hi int, label string) int { return uniform(g.t, lo, hi, label) }
func (g *gctx) p(pct int, label string) bool   { return uniform(g.t, 0, 99, label) < pct }

func pick[T any](g *gctx, xs []T, label string) T {
	return xs[uniform(g.t, 0, len(xs)-1, label)]
}

func (g *gctx) byteVal() int {
	if g.p(60, "bedge") {
		return pick(g, []int{0, 1, 0x7f, 0x80, 0xff, 0xfe, 0xc0, 0xf8, 0x3f}, "bv")
	}
	return g.n(0, 255, "brand")
}

func (g *gctx) effect(pref int) *Effect {
	b := pref
	if b < 0 || b >= g.nb || g.p(25, "effother") {
		b = g.n(0, g.nb-1, "effbuf")
	}
	if g.p(35, "effdetach") {
		evid.Count("eff:detach")
		return &Effect{Kind: "detach", Buf: b}
	}
	evid.Count("eff:poke")
	max := len(g.m.bufs[b].data)
	return &Effect{Kind: "poke", Buf: b, Off: g.n(0, max, "pokeoff"), Byte: g.byteVal()}
}

// wrap turns a primitive into an argument, sometimes an object with valueOf (+ effect)
func (g *gctx) wrap(v Val, pref, pObj int) Arg {
	a := Arg{V: v}
	if g.focus {
		pObj /= 5
	}
	if g.p(pObj, "obj") {
		a.Obj = true
		if g.p(55, "objeff") {
			a.Eff = g.effect(pref)
		}
	}
	return a
}

func (g *gctx) idxVal(n int) Val {
	switch c := g.n(0, 19, "idxclass"); {
	case c < 11:
		return nval(float64(g.n(-n-2, n+2, "idxsmall")))
	case c < 14:
		return nval(pick(g, idxBoundary, "idxb"))
	case c < 16:
		return Val{K: "u"}
	case c < 17:
		return Val{K: "null"}
	case c < 18:
		return Val{K: "t", N: pick(g, []string{"0", "1"}, "idxbool")}
	case c < 19:
		return sval(pick(g, []string{"1", "-1", " 2 ", "abc", "", "1e1"}, "idxstr"))
	}
	if g.p(30, "idxbig") {
		return bval(big.NewInt(1))
	}
	return nval(float64(g.n(0, n, "idxin")))
}

func (g *gctx) idxArg(n, pref int) Arg { return g.wrap(g.idxVal(n), pref, 22) }

// optional trailing argument: absent sometimes
func (g *gctx) optIdxArg(n, pref, pAbsent int) Arg {
	if g.p(pAbsent, "absent") {
		return Arg{Absent: true}
	}
	return g.idxArg(n, pref)
}

func typeEdges(et int) []float64 {
	switch et {
	case tInt8, tUint8:
		return []float64{127, 128, -128, -129, 255, 256, 257, -1, -255, -256, 383.9, -0.9, 1e10 + 5}
	case tUint8C:
		return []float64{0.5, 1.5, 2.5, 3.5, 254.5, 254.50000000000003, 255.5, 254.49999999999997, -0.5, 0.49999999999999994, 0.5000000000000001, 256, -1, 300, 1e300}
	case tInt16, tUint16:
		return []float64{32767, 32768, -32768, -32769, 65535, 65536, 65537, -65536, 98304.7}
	case tInt32, tUint32:
		return []float64{two(31) - 1, two(31), -two(31), -two(31) - 1, two(32) - 1, two(32), two(32) + 1, two(32) * 3.5, -two(32) - 2, two(53) + 2, two(63) + two(11), two(64) + two(12)}
	case tFloat32:
		return []float64{16777217, 16777219, 3.4028235677973366e38, 3.4028235677973362e38, 7.006492321624085e-46, 7.006492321624087e-46, 1.1754942106924411e-38, 0.1, 1e300, -1e300, 8388608.5, 1.00000005960464477539}
	}
	return []float64{0.1, 5e-324, math.MaxFloat64, 1e300}
}

func (g *gctx) numVal(et int) Val {
	switch c := g.n(0, 9, "numclass"); {
	case c < 3:
		return nval(pick(g, boundaryValues, "bv"))
	case c < 5:
		return nval(float64(g.n(-260, 260, "small")))
	case c < 6:
		return nval(float64(g.n(-1024, 1024, "q")) / 4)
	case c < 7:
		return nval(math.Float64frombits(rapid.Uint64().Draw(g.t, "bits")))
	default:
		return nval(pick(g, typeEdges(et), "edge"))
	}
}

func (g *gctx) bigVal() Val {
	if g.p(70, "bigb") {
		b, _ := new(big.Int).SetString(pick(g, bigBoundary, "bb"), 10)
		if g.p(30, "bigadj") {
			b.Add(b, big.NewInt(int64(g.n(-2, 2, "bd"))))
		}
		return bval(b)
	}
	return bval(big.NewInt(int64(g.n(-300, 300, "bsmall"))))
}

// elemVal: a value stored into an element of type et
func (g *gctx) elemVal(et int) Val {
	c := g.n(0, 19, "elemclass")
	if etypes[et].Big {
		switch {
		case c < 14:
			return g.bigVal()
		case c < 15:
			return g.numVal(et) // TypeError
		case c < 16:
			return Val{K: "u"} // TypeError
		case c < 17:
			return Val{K: "t", N: pick(g, []string{"0", "1"}, "eb")}
		default:
			keys := []string{"12", "-3", "0x10", " 7 ", "", "  ", "+5", "0b11", "18446744073709551617", "-9223372036854775809", "1.5", "abc", "1n", "1e3", "-0x1", "Infinity", "1_0"}
			return sval(pick(g, keys, "bigstr"))
		}
	}
	switch {
	case c < 15:
		return g.numVal(et)
	case c < 16:
		return Val{K: "u"}
	case c < 17:
		return Val{K: "null"}
	case c < 18:
		return Val{K: "t", N: pick(g, []string{"0", "1"}, "eb")}
	case c < 19:
		return sval(pick(g, numStrings, "numstr"))
	}
	return g.bigVal() // TypeError
}

func (g *gctx) elemArg(et, pref int) Arg { return g.wrap(g.elemVal(et), pref, 18) }

func mvToVal(v mval) Val {
	switch v.k {
	case 'n':
		return nval(v.n)
	case 'b':
		return bval(v.b)
	}
	return Val{K: "u"}
}

// searchVal: a value to look for in view v
func (g *gctx) searchVal(v *mview) Val {
	n := g.m.curLen(v)
	c := g.n(0, 9, "searchclass")
	if n > 0 && c < 6 {
		e := g.m.getElem(v, float64(g.n(0, n-1, "sidx")))
		if e.k == 'n' && c >= 3 {
			// a different double that converts to the same element
			switch v.t {
			case tFloat32:
				d := g.n(-2, 2, "ulps")
				f := e.n
				for ; d > 0; d-- {
					f = math.Nextafter(f, math.Inf(1))
				}
				for ; d < 0; d++ {
					f = math.Nextafter(f, math.Inf(-1))
				}
				return nval(f)
			case tFloat64:
				return nval(e.n)
			default:
				span := math.Ldexp(1, 8*etypes[v.t].Size)
				return nval(e.n + float64(g.n(-1, 1, "wrap"))*span + float64(g.n(0, 1, "half"))*0.5)
			}
		}
		if e.k == 'b' && c >= 4 {
			return bval(new(big.Int).Add(e.b, new(big.Int).Mul(big.NewInt(int64(g.n(-1, 1, "bwrap"))), two64)))
		}
		if e.k == 'n' && c == 2 && !math.IsNaN(e.n) && !math.IsInf(e.n, 0) && e.n == math.Trunc(e.n) && math.Abs(e.n) < 1e15 {
			// same mathematical value, other type
			if g.p(50, "asbig") {
				return bval(big.NewInt(int64(e.n)))
			}
			return sval(strconv.FormatInt(int64(e.n), 10))
		}
		if e.k == 'b' && c == 2 && e.b.IsInt64() && e.b.Int64() > -(1<<53) && e.b.Int64() < 1<<53 {
			return nval(float64(e.b.Int64()))
		}
		return mvToVal(e)
	}
	switch c {
	case 6:
		return Val{K: "u"}
	case 7:
		return nval(pick(g, []float64{math.NaN(), math.Copysign(0, -1), 0, 0.1, 1e300, -1e300, math.Inf(1), 256, -1, 4294967296, 0.5, 255.5, 1e-46}, "sb"))
	}
	return g.elemVal(v.t)
}

func (g *gctx) keyFor(n int) *Key {
	if g.p(60, "numkey") {
		if g.p(65, "keyin") {
			return &Key{N: nval(float64(g.n(-2, n+2, "keysmall")))}
		}
		return &Key{N: nval(pick(g, []float64{math.Copysign(0, -1), 0.5, 1.5, math.NaN(), math.Inf(1), math.Inf(-1), two(31), two(32) - 1, two(32), two(53), two(53) + 2, 1e21, -1, 1e-7, two(63), two(64), 1e300}, "keyb"))}
	}
	if g.p(25, "strin") {
		return &Key{Str: true, S: strconv.Itoa(g.n(-1, n+1, "keystrsmall"))}
	}
	return &Key{Str: true, S: pick(g, keyStrings, "keystr")}
}

// ---------------------------------------------------------------- view pickers

func (g *gctx) taViews() (ta, dv []int) {
	for i, v := range g.m.views {
		if v.dv {
			dv = append(dv, i)
		} else {
			ta = append(ta, i)
		}
	}
	return
}

func (g *gctx) anyBuf() int {
	if len(g.m.bufs) > g.nb && g.p(15, "innerbuf") {
		return g.n(0, len(g.m.bufs)-1, "bufany")
	}
	return g.n(0, g.nb-1, "buf")
}

func (g *gctx) species(recv *mview) *Species {
	if g.focus {
		ta, _ := g.taViews()
		if g.p(30, "fspnone") || len(ta) == 0 {
			evid.Count("sp:default")
			return nil
		}
		evid.Count("sp:focus-fnview")
		return &Species{Mode: "fnview", View: pick(g, ta, "fspv")}
	}
	if g.p(40, "spnone") {
		evid.Count("sp:default")
		return nil
	}
	ta, dv := g.taViews()
	sp := &Species{}
	switch c := g.n(0, 99, "spmode"); {
	case c < 28:
		sp.Mode = "fnview"
		if len(dv) > 0 && g.p(5, "spdv") {
			sp.View = pick(g, dv, "spdvv")
		} else if len(ta) > 0 {
			sp.View = pick(g, ta, "spv")
		} else {
			sp.Mode = "fnplain"
		}
	case c < 62:
		sp.Mode = "fnnew"
		sp.T = g.n(0, nTypes-1, "spt")
		if g.p(55, "spsamecontent") && etypes[sp.T].Big != etypes[recv.t].Big {
			sp.T = recv.t
		}
		sp.Buf = g.anyBuf()
		if g.p(45, "spsamebuf") {
			sp.Buf = recv.buf
		}
		bl := len(g.m.bufs[sp.Buf].data)
		sz := etypes[sp.T].Size
		slots := bl / sz
		o := g.n(0, slots, "spoff")
		sp.Off = o * sz
		if g.p(5, "spmisalign") {
			sp.Off += g.n(0, sz-1, "spmis")
		}
		switch {
		case g.p(15, "sptoend"):
			sp.Len = -1
		case g.p(8, "spbig"):
			sp.Len = slots - o + g.n(1, 2, "spover")
		default:
			sp.Len = g.n(0, slots-o, "splen")
		}
	case c < 80:
		sp.Mode = "ctor"
		sp.T = g.n(0, nTypes-1, "spt")
	case c < 84:
		sp.Mode = "undef"
	case c < 87:
		sp.Mode = "prim"
	case c < 90:
		sp.Mode = "specnull"
	case c < 93:
		sp.Mode = "specprim"
	default:
		sp.Mode = "fnplain"
	}
	if (sp.Mode == "fnview" || sp.Mode == "fnnew" || sp.Mode == "fnplain") && g.p(30, "speff") {
		sp.Eff = g.effect(recv.buf)
	}
	evid.Count("sp:" + sp.Mode)
	return sp
}

// thisCtor: the `this` constructor of TypedArray.of / from
func (g *gctx) thisCtor(t int) *Species {
	if g.p(35, "thisdefault") {
		return nil
	}
	sp := g.species(&mview{t: t, buf: g.n(0, g.nb-1, "thisbuf")})
	if sp == nil {
		return nil
	}
	switch sp.Mode {
	case "fnview", "fnnew", "fnplain", "ctor":
		return sp
	}
	return nil
}

func (g *gctx) callback(n, pref, et int, rets []string) *Callback {
	cb := &Callback{At: g.n(-1, n, "cbat"), Ret: pick(g, rets, "cbret"), R: g.n(-1, n, "cbr")}
	if cb.At >= 0 && g.p(60, "cbeff") {
		cb.Eff = g.effect(pref)
	}
	if cb.Ret == "const" {
		a := g.elemArg(et, pref)
		cb.C = &a
	}
	return cb
}

func (g *gctx) hexString(n int) Val {
	c := g.n(0, 19, "hexclass")
	if c == 0 {
		return pick(g, []Val{{K: "u"}, nval(12), {K: "null"}}, "hexnon")
	}
	l := g.n(0, n+2, "hexlen")
	const digs = "0123456789abcdefABCDEF"
	bs := make([]rune, 2*l)
	for i := range bs {
		bs[i] = rune(digs[g.n(0, len(digs)-1, "hd")])
	}
	s := string(bs)
	switch {
	case c < 4 && len(bs) > 0:
		p := g.n(0, len(bs)-1, "hexbadpos")
		bs[p] = pick(g, []rune{'g', 'z', ' ', 'x', 0xe9, '-', '.', 0x131}, "hexbad")
		s = string(bs)
	case c < 6:
		s += string(rune(digs[g.n(0, 15, "hexodd")]))
	}
	return sval(s)
}

// ---------------------------------------------------------------- operations

type wop struct {
	w    int
	name string
}

func (g *gctx) weighted(ops []wop, label string) string {
	tot := 0
	for _, o := range ops {
		tot += o.w
	}
	x := g.n(0, tot-1, label)
	for _, o := range ops {
		if x < o.w {
			return o.name
		}
		x -= o.w
	}
	return ops[len(ops)-1].name
}

func (g *gctx) genNewTA() Op {
	op := Op{Op: "newta", T: g.n(0, nTypes-1, "t"), B: g.anyBuf()}
	sz := etypes[op.T].Size
	bl := len(g.m.bufs[op.B].data)
	slots := bl / sz
	o := g.n(0, slots, "off")
	var off Arg
	if g.focus {
		op.A = []Arg{{V: nval(float64(o * sz))}, {V: nval(float64(g.n(0, slots-o, "len")))}}
		return op
	}
	switch c := g.n(0, 99, "offclass"); {
	case c < 62:
		off = g.wrap(nval(float64(o*sz)), op.B, 15)
	case c < 74:
		off = g.wrap(nval(float64(o*sz+g.n(1, sz, "mis"))), op.B, 10)
	case c < 84:
		off = Arg{Absent: true}
	default:
		off = g.idxArg(bl, op.B)
	}
	op.A = append(op.A, off)
	if off.Absent {
		return op
	}
	var ln Arg
	switch c := g.n(0, 99, "lenclass"); {
	case c < 50:
		ln = g.wrap(nval(float64(g.n(0, slots-o, "len"))), op.B, 15)
	case c < 75:
		ln = Arg{Absent: true}
	case c < 85:
		ln = g.wrap(nval(float64(slots-o+g.n(1, 3, "over"))), op.B, 10)
	default:
		ln = g.idxArg(slots, op.B)
	}
	op.A = append(op.A, ln)
	return op
}

func (g *gctx) genNewDV() Op {
	op := Op{Op: "newdv", B: g.anyBuf()}
	bl := len(g.m.bufs[op.B].data)
	o := g.n(0, bl, "off")
	var off Arg
	switch c := g.n(0, 99, "offclass"); {
	case c < 65:
		off = g.wrap(nval(float64(o)), op.B, 15)
	case c < 75:
		off = Arg{Absent: true}
	case c < 82:
		off = g.wrap(nval(float64(bl+g.n(1, 2, "over"))), op.B, 10)
	default:
		off = g.idxArg(bl, op.B)
	}
	op.A = append(op.A, off)
	if off.Absent {
		return op
	}
	var ln Arg
	switch c := g.n(0, 99, "lenclass"); {
	case c < 50:
		ln = g.wrap(nval(float64(g.n(0, bl-o, "len"))), op.B, 20)
	case c < 72:
		ln = Arg{Absent: true}
	case c < 85:
		ln = g.wrap(nval(float64(bl-o+g.n(1, 3, "over"))), op.B, 20)
	default:
		ln = g.idxArg(bl, op.B)
	}
	op.A = append(op.A, ln)
	return op
}

func (g *gctx) elemList(et, pref, max int) []Arg {
	n := g.n(0, max, "listlen")
	l := make([]Arg, n)
	for i := range l {
		l[i] = g.elemArg(et, pref)
	}
	return l
}

func (g *gctx) genNewFrom(ta []int) Op {
	op := Op{Op: "newfrom", T: g.n(0, nTypes-1, "t")}
	c := g.n(0, 9, "srcclass")
	switch {
	case c < 4 && len(ta) > 0:
		op.Src = &Source{Kind: "view", View: pick(g, ta, "srcview")}
	case c < 8:
		op.Src = &Source{Kind: "list", List: g.elemList(op.T, g.n(0, g.nb-1, "pref"), 6)}
	default:
		v := pick(g, []Val{nval(0), nval(1), nval(3), nval(8), nval(-1), nval(math.NaN()), nval(1.5), nval(two(53)), nval(math.Copysign(0, -1)), nval(1e300), nval(math.Inf(1)), {K: "u"}, sval("3"), {K: "null"}, nval(two(53) - 1 + 2)}, "lenval")
		op.Src = &Source{Kind: "len", List: []Arg{{V: v}}}
	}
	return op
}

func (g *gctx) genMeth(ta []int) Op {
	vi := pick(g, ta, "recv")
	v := g.m.views[vi]
	n := v.n
	pref := v.buf
	op := Op{Op: "meth", V: vi}
	op.M = g.weighted([]wop{
		{2, "at"}, {3, "includes"}, {3, "indexOf"}, {3, "lastIndexOf"}, {2, "join"}, {6, "fill"}, {8, "copyWithin"}, {2, "reverse"},
		{9, "set"}, {7, "slice"}, {6, "subarray"}, {5, "sort"}, {2, "toSorted"}, {1, "toReversed"}, {3, "with"}, {5, "map"}, {4, "filter"},
		{1, "forEach"}, {1, "every"}, {1, "some"}, {1, "find"}, {1, "findIndex"}, {1, "findLast"}, {1, "findLastIndex"}, {1, "reduce"}, {1, "reduceRight"},
		{1, "forof"}, {1, "forofkeys"}, {1, "toHex"}, {2, "setFromHex"}, {1, "toLocaleString"},
	}, "meth")
	if g.focus {
		op.M = g.weighted([]wop{{14, "set"}, {8, "copyWithin"}, {6, "fill"}, {9, "slice"}, {5, "subarray"}, {6, "map"}, {4, "filter"}, {3, "sort"}, {2, "reverse"}, {2, "with"},
			{1, "toSorted"}, {1, "toReversed"}, {2, "setFromHex"}, {2, "includes"}, {2, "indexOf"}, {1, "lastIndexOf"}, {1, "join"}}, "focusmeth")
	}
	if len(g.m.views) >= 14 {
		switch op.M {
		case "slice", "subarray", "toSorted", "toReversed", "with", "map", "filter":
			op.M = "copyWithin"
		}
	}
	if op.M == "subarray" && g.m.isDetached(v) {
		// ES2023 uses [[ArrayLength]] of a detached receiver, ES2024 uses 0: the arguments handed to the
		// (species) constructor and hence RangeError vs TypeError depend on the edition
		evid.Excluded("subarray-on-already-detached-receiver(edition-dependent)")
		op.M = "slice"
	}
	switch op.M {
	case "at":
		op.A = []Arg{g.idxArg(n, pref)}
	case "includes", "indexOf", "lastIndexOf":
		op.A = []Arg{{V: g.searchVal(v)}, g.optIdxArg(n, pref, 45)}
	case "join":
		switch c := g.n(0, 9, "sepclass"); {
		case c < 4:
			op.A = []Arg{{Absent: true}}
		case c < 7:
			op.A = []Arg{{V: sval(pick(g, []string{"", "-", ", ", "é"}, "sep"))}}
		case c < 8:
			op.A = []Arg{{V: nval(1.5)}}
		default:
			op.A = []Arg{{V: sval("|"), Obj: true, Eff: g.effect(pref)}}
		}
	case "fill":
		op.A = []Arg{g.elemArg(v.t, pref), g.optIdxArg(n, pref, 35)}
		if !op.A[1].Absent {
			op.A = append(op.A, g.optIdxArg(n, pref, 40))
		}
	case "copyWithin":
		op.A = []Arg{g.idxArg(n, pref), g.idxArg(n, pref), g.optIdxArg(n, pref, 45)}
	case "reverse", "toReversed", "toHex":
	case "set":
		c := g.n(0, 9, "setsrc")
		if g.focus && c < 9 {
			c = 0
		}
		if c < 5 {
			// prefer sources sharing the buffer
			var same []int
			for _, i := range ta {
				if g.m.views[i].buf == v.buf {
					same = append(same, i)
				}
			}
			if len(same) > 0 && g.p(60, "setsame") {
				op.Src = &Source{Kind: "view", View: pick(g, same, "setsrcv")}
			} else {
				op.Src = &Source{Kind: "view", View: pick(g, ta, "setsrcv2")}
			}
		} else {
			op.Src = &Source{Kind: "list", List: g.elemList(v.t, pref, 5)}
			if g.p(25, "setalike") {
				op.Src.Kind = "alike"
				var lv Val
				if g.p(70, "alikelenok") {
					lv = nval(float64(g.n(0, len(op.Src.List)+2, "alikelen")))
				} else {
					lv = g.idxVal(n)
				}
				la := g.wrap(lv, pref, 30)
				op.Src.Len = &la
			}
		}
		sl := 0
		if op.Src.Kind == "view" {
			sl = g.m.views[op.Src.View].n
		} else {
			sl = len(op.Src.List)
		}
		switch c := g.n(0, 9, "setoff"); {
		case c < 3:
			op.A = []Arg{{Absent: true}}
		case c < 7:
			hi := n - sl
			if hi < 0 {
				hi = 0
			}
			op.A = []Arg{g.wrap(nval(float64(g.n(0, hi+1, "setoffv"))), pref, 25)}
		default:
			op.A = []Arg{g.idxArg(n, pref)}
		}
		if op.Src.Kind == "view" && g.p(12, "setsrcdetach") && g.m.views[op.Src.View].buf < g.nb {
			// offset coercion detaches the *source's* buffer
			op.A = []Arg{{V: nval(0), Obj: true, Eff: &Effect{Kind: "detach", Buf: g.m.views[op.Src.View].buf}}}
			evid.Count("eff:detach-source")
		}
	case "slice", "subarray":
		op.A = []Arg{g.optIdxArg(n, pref, 15)}
		if !op.A[0].Absent {
			op.A = append(op.A, g.optIdxArg(n, pref, 35))
		}
		op.Sp = g.species(v)
	case "sort", "toSorted":
		op.Cmp = g.weighted([]wop{{25, "none"}, {24, "asc"}, {17, "desc"}, {7, "zero"}, {3, "negzero"}, {4, "nan"}, {3, "undef"}, {6, "objasc"}, {2, "bad1"}, {2, "badobj"}, {2, "badnull"}}, "cmp")
		switch op.Cmp {
		case "none", "bad1", "badobj", "badnull", "negzero":
		default:
			if g.p(35, "cmpeff") {
				op.CmpEff = g.effect(pref)
			}
		}
	case "with":
		op.A = []Arg{g.idxArg(n, pref), g.elemArg(v.t, pref)}
	case "map":
		op.Sp = g.species(v)
		op.Cb = g.callback(n, pref, v.t, []string{"id", "id", "const", "const", "idx"})
	case "filter":
		op.Sp = g.species(v)
		op.Cb = g.callback(n, pref, v.t, []string{"t@", "f@", "f@", "const"})
		if op.Cb.Ret == "const" {
			op.Cb.C = &Arg{V: Val{K: "t", N: "1"}}
		}
	case "forEach", "reduce", "reduceRight":
		op.Cb = g.callback(n, pref, v.t, []string{"id"})
		if op.M != "forEach" && g.p(50, "reduceinit") {
			op.A = []Arg{{V: nval(float64(g.n(-3, 3, "init")))}}
		}
	case "every":
		op.Cb = g.callback(n, pref, v.t, []string{"f@"})
	case "some", "find", "findIndex", "findLast", "findLastIndex":
		op.Cb = g.callback(n, pref, v.t, []string{"t@"})
	case "forof", "forofkeys", "toLocaleString":
		op.Cb = g.callback(n, pref, v.t, []string{"id"})
	case "setFromHex":
		op.A = []Arg{{V: g.hexString(n)}}
	}
	return op
}

func (g *gctx) genStatic(ta []int) Op {
	op := Op{Op: "static", T: g.n(0, nTypes-1, "t")}
	op.M = g.weighted([]wop{{5, "of"}, {5, "from"}, {2, "fromHex"}}, "static")
	pref := g.n(0, g.nb-1, "pref")
	switch op.M {
	case "fromHex":
		op.A = []Arg{{V: g.hexString(6)}}
	case "of":
		op.Sp = g.thisCtor(op.T)
		if op.Sp != nil && (op.Sp.Mode == "fnnew" || op.Sp.Mode == "fnview") {
			if op.Sp.Mode == "fnnew" {
				pref = op.Sp.Buf
			} else {
				pref = g.m.views[op.Sp.View].buf
			}
		}
		et := op.T
		if op.Sp != nil && op.Sp.Mode == "fnnew" {
			et = op.Sp.T
		}
		op.A = g.elemList(et, pref, 5)
	case "from":
		op.Sp = g.thisCtor(op.T)
		if len(ta) > 0 && g.p(40, "fromview") {
			op.Src = &Source{Kind: "view", View: pick(g, ta, "fromsrc")}
		} else {
			op.Src = &Source{Kind: "list", List: g.elemList(op.T, pref, 5)}
			if g.p(25, "fromalike") {
				op.Src.Kind = "alike"
				lv := pick(g, []Val{nval(0), nval(1), nval(2), nval(3), nval(6), nval(8), nval(-1), nval(math.NaN()), nval(2.5), sval("3"), {K: "u"}, {K: "null"}}, "fromalikelen")
				la := g.wrap(lv, pref, 30)
				op.Src.Len = &la
			}
		}
		if g.p(35, "frommap") {
			op.Cb = g.callback(5, pref, op.T, []string{"id", "const", "idx"})
		}
	}
	return op
}

func (g *gctx) genDV(dv []int, set bool) Op {
	vi := pick(g, dv, "dv")
	v := g.m.views[vi]
	t := g.n(0, nTypes-1, "dvt")
	if t == tUint8C {
		t = tUint8
	}
	sz := etypes[t].Size
	op := Op{Op: "dvget", V: vi, T: t}
	var idx Arg
	switch c := g.n(0, 9, "dvidx"); {
	case c < 4:
		idx = g.wrap(nval(float64(g.n(0, v.n, "dvin"))), v.buf, 15)
	case c < 7:
		idx = g.wrap(nval(float64(v.n-sz+g.n(-1, 2, "dvedge"))), v.buf, 15)
	case c < 8:
		idx = g.wrap(nval(pick(g, []float64{two(53) - 1, two(53), two(53) - 8, two(31), two(32), two(32) - 1, two(63), -1, math.NaN(), 1.5, math.Inf(1), -0.5, 1e300, two(53) - 2}, "dvbig")), v.buf, 10)
	default:
		idx = g.idxArg(v.n, v.buf)
	}
	le := pick(g, []Arg{{V: Val{K: "t", N: "1"}}, {V: Val{K: "t", N: "1"}}, {V: Val{K: "t", N: "0"}}, {Absent: true}, {V: Val{K: "u"}}, {V: nval(0)}, {V: nval(1)}, {V: sval("")}, {V: sval("a")},
		{V: nval(math.NaN())}, {V: Val{K: "null"}}, {V: nval(0), Obj: true}}, "le")
	if set {
		op.Op = "dvset"
		op.A = []Arg{idx, g.elemArg(t, v.buf), le}
	} else {
		op.A = []Arg{idx, le}
	}
	return op
}

func (g *gctx) genABSlice() Op {
	op := Op{Op: "abslice", B: g.anyBuf()}
	bl := len(g.m.bufs[op.B].data)
	op.A = []Arg{g.optIdxArg(bl, op.B, 15)}
	if !op.A[0].Absent {
		op.A = append(op.A, g.optIdxArg(bl, op.B, 35))
	}
	if g.p(55, "absp") {
		sp := &Species{}
		switch c := g.n(0, 99, "abspmode"); {
		case c < 50:
			sp.Mode = "fnbuf"
			sp.Buf = g.n(0, len(g.m.bufs)-1, "abspbuf")
		case c < 70:
			sp.Mode = "fnnewbuf"
			sp.Len = g.n(0, 70, "absplen")
		case c < 78:
			sp.Mode = "fnplain"
		case c < 84:
			sp.Mode = "prim"
		case c < 90:
			sp.Mode = "undef"
		case c < 95:
			sp.Mode = "specnull"
		default:
			sp.Mode = "specprim"
		}
		if (sp.Mode == "fnbuf" || sp.Mode == "fnnewbuf" || sp.Mode == "fnplain") && g.p(30, "abspeff") {
			sp.Eff = g.effect(op.B)
		}
		evid.Count("sp:ab:" + sp.Mode)
		op.Sp = sp
	}
	return op
}

func (g *gctx) genOp() Op {
	ta, dv := g.taViews()
	full := len(g.m.views) >= 14
	if g.focus {
		if len(ta) < 2 || (len(ta) < 5 && g.p(20, "fmoreviews")) {
			return g.genNewTA()
		}
		if g.p(8, "fgopoke") {
			return Op{Op: "gopoke", B: 0, Off: g.n(0, len(g.m.bufs[0].data), "off"), Byte: g.byteVal()}
		}
		return g.genMeth(ta)
	}
	if len(ta) == 0 {
		switch g.weighted([]wop{{70, "newta"}, {10, "newfrom"}, {12, "newdv"}, {8, "static"}}, "op0") {
		case "newta":
			return g.genNewTA()
		case "newfrom":
			return g.genNewFrom(ta)
		case "newdv":
			return g.genNewDV()
		default:
			return g.genStatic(ta)
		}
	}
	ws := []wop{{6, "get"}, {8, "put"}, {2, "has"}, {3, "defprop"}, {3, "prop"}, {48, "meth"}, {3, "abslice"}, {1, "godetach"}, {2, "gopoke"}, {3, "goexportto"}, {2, "goexport"}}
	if !full {
		ws = append(ws, wop{10, "newta"}, wop{4, "newdv"}, wop{3, "newfrom"}, wop{5, "static"}, wop{2, "newab"})
	}
	if len(dv) > 0 {
		ws = append(ws, wop{5, "dvget"}, wop{7, "dvset"})
	}
	switch k := g.weighted(ws, "op"); k {
	case "newta":
		return g.genNewTA()
	case "newdv":
		return g.genNewDV()
	case "newfrom":
		return g.genNewFrom(ta)
	case "static":
		return g.genStatic(ta)
	case "meth":
		return g.genMeth(ta)
	case "dvget":
		return g.genDV(dv, false)
	case "dvset":
		return g.genDV(dv, true)
	case "abslice":
		return g.genABSlice()
	case "get", "has":
		vi := pick(g, ta, "recv")
		return Op{Op: k, V: vi, Key: g.keyFor(g.m.views[vi].n)}
	case "put", "defprop":
		vi := pick(g, ta, "recv")
		v := g.m.views[vi]
		return Op{Op: k, V: vi, Key: g.keyFor(v.n), A: []Arg{g.elemArg(v.t, v.buf)}}
	case "newab":
		lv := pick(g, []Val{nval(0), nval(1), nval(7), nval(8), nval(16), nval(33), nval(64), nval(-1), nval(math.NaN()), nval(1.5), nval(two(53)), nval(1e300), nval(math.Inf(1)), {K: "u"}, sval("3"), {K: "null"}, nval(math.Copysign(0, -1))}, "ablenv")
		return Op{Op: "newab", A: []Arg{g.wrap(lv, g.n(0, g.nb-1, "abpref"), 15)}}
	case "prop":
		if g.p(20, "ablen") {
			return Op{Op: "prop", M: "ablen", B: g.n(0, len(g.m.bufs)-1, "b")}
		}
		pv := g.n(0, len(g.m.views)-1, "pv")
		pm := pick(g, []string{"length", "byteLength", "byteOffset", "buffer"}, "prop")
		if g.m.views[pv].dv && pm == "length" {
			pm = "byteLength"
		}
		return Op{Op: "prop", V: pv, M: pm}
	case "godetach":
		return Op{Op: "godetach", B: g.n(0, g.nb-1, "b")}
	case "gopoke":
		b := g.n(0, g.nb-1, "b")
		return Op{Op: "gopoke", B: b, Off: g.n(0, len(g.m.bufs[b].data), "off"), Byte: g.byteVal()}
	default: // goexportto, goexport
		op := Op{Op: k, V: -1, Off: g.n(0, 63, "off"), Byte: g.byteVal()}
		if g.p(70, "expview") {
			op.V = g.n(0, len(g.m.views)-1, "ev")
		} else {
			op.B = g.n(0, len(g.m.bufs)-1, "eb")
		}
		return op
	}
}

func genCase(t *rapid.T) *Case { return genCaseMode(t, false) }

func genCaseMode(t *rapid.T, focus bool) *Case {
	c := &Case{}
	nb := uniform(t, 1, 3, "nbufs")
	if focus {
		nb = 1
	}
	for k := 0; k < nb; k++ {
		var n int
		if focus {
			n = []int{8, 16, 24, 32, 33, 40, 48, 64}[uniform(t, 0, 7, "fsize")]
		} else if uniform(t, 0, 9, "sizeclass") < 6 {
			n = []int{0, 1, 2, 3, 4, 7, 8, 9, 12, 15, 16, 17, 24, 31, 32, 33, 40, 48, 56, 63, 64}[uniform(t, 0, 20, "size")]
		} else {
			n = uniform(t, 0, 64, "sizeany")
		}
		mode := uniform(t, 0, 5, "init")
		bs := make([]byte, n)
		for i := range bs {
			switch mode {
			case 0:
				bs[i] = 0
			case 1:
				bs[i] = 0xff
			case 2:
				bs[i] = byte(i + 1)
			case 3:
				bs[i] = []byte{0, 0, 1, 0x7f, 0x80, 0xff, 0xff, 0xf0, 0xc0, 0x3f}[uniform(t, 0, 9, "ib")]
			default:
				bs[i] = byte(uniform(t, 0, 255, "ir"))
			}
		}
		c.Bufs = append(c.Bufs, BufInit{N: n, Init: hexOf(bs)})
	}
	g := &gctx{t: t, m: newModel(c), nb: nb, focus: focus}
	nops := uniform(t, 1, 25, "nops")
	if focus {
		nops = uniform(t, 3, 10, "fnops")
	}
	for i := 0; i < nops; i++ {
		op := g.genOp()
		out := g.m.step(&op)
		if g.m.taint {
			evid.Count("gen:stopped-at-nan-reread")
			break
		}
		c.Ops = append(c.Ops, op)
		if op.Cmp == "negzero" {
			// known finding (comparator result -0 is treated as "less"; the pinned suite demands it):
			// such an operation is only generated as the last one of a history so that it hides nothing
			nops = i + 1
		}
		name := opName(&op)
		evid.Count("op:" + name)
		if out.throw != "" {
			evid.Count("model:throws:" + out.throw)
		} else {
			evid.Count("model:completes")
		}
		if g.m.effects > 0 {
			evid.Count("step:reentrant-effect")
		}
	}
	nontrivial := g.m.bulkSub || g.m.anyEff || g.m.oobDV
	if g.m.bulkSub {
		evid.Count("case:bulk-on-partial-view")
	}
	if g.m.anyEff {
		evid.Count("case:reentrant-effect")
	}
	if g.m.oobDV {
		evid.Count("case:dataview-out-of-range")
	}
	evid.Case(caseText(c), nontrivial)
	if focus {
		evid.Sample("focus", c)
	} else {
		evid.Sample("hist", c)
	}
	return c
}
