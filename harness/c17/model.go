package c17

// Reference model of ArrayBuffer / TypedArray / DataView semantics written from
// ECMA-262 (sections 10.4.5, 23.2, 25.1, 25.3, 7.1, 25.1.3.x NumericToRawBytes /
// RawBytesToNumeric). It never looks at goja: buffers are Go byte slices, views
// are (buffer, byteOffset, length, element type) windows, and every abstract
// operation that can run user code (ToNumber on an object with valueOf, species
// constructors, callbacks) is interpreted over the same model state so that
// re-entrant detaches and writes happen exactly where the specification puts them.

import (
	"math"
	"math/big"
	"strings"

	"verifh/internal/jsx"
	"verifh/internal/numref"
)

// ---------------------------------------------------------------- element types

type etype struct {
	Name string
	Size int
	Big  bool
}

const (
	tInt8 = iota
	tUint8
	tUint8C
	tInt16
	tUint16
	tInt32
	tUint32
	tFloat32
	tFloat64
	tBigInt64
	tBigUint64
	nTypes
)

var etypes = [nTypes]etype{
	{"Int8Array", 1, false}, {"Uint8Array", 1, false}, {"Uint8ClampedArray", 1, false},
	{"Int16Array", 2, false}, {"Uint16Array", 2, false}, {"Int32Array", 4, false}, {"Uint32Array", 4, false},
	{"Float32Array", 4, false}, {"Float64Array", 8, false}, {"BigInt64Array", 8, true}, {"BigUint64Array", 8, true},
}

// DataView accessor suffixes per element type (Uint8Clamped has none).
var dvNames = [nTypes]string{"Int8", "Uint8", "", "Int16", "Uint16", "Int32", "Uint32", "Float32", "Float64", "BigInt64", "BigUint64"}

// ---------------------------------------------------------------- values

// mval is a model ECMAScript value (only the kinds the generated scripts use).
type mval struct {
	k    byte     // 'u' undefined, '0' null, 'n' number, 'b' bigint, 's' string, 't' boolean, 'v' view, 'B' buffer, 'w' {read,written}, 'o' adversarial object, 'x' plain object, 'l' Array
	n    float64  // number
	b    *big.Int // bigint
	s    string   // string
	t    bool     // boolean
	id   int      // view / buffer index
	r, w int      // read / written
	arg  *Arg     // for 'o'
	list []mval   // for 'l' (Array of values)
}

var undef = mval{k: 'u'}

func num(f float64) mval   { return mval{k: 'n', n: f} }
func bigv(b *big.Int) mval { return mval{k: 'b', b: b} }
func str(s string) mval    { return mval{k: 's', s: s} }
func boolv(t bool) mval    { return mval{k: 't', t: t} }
func viewv(i int) mval     { return mval{k: 'v', id: i} }
func bufv(i int) mval      { return mval{k: 'B', id: i} }

// mthrow is the model's abrupt completion (thrown error constructor name).
type mthrow struct{ name string }

func throw(name string) { panic(mthrow{name}) }

// ---------------------------------------------------------------- state

type mbuf struct {
	data     []byte
	detached bool
	slab     bool    // Go-supplied canary-guarded slab window (else allocated by the engine)
	nan      []int32 // per byte: id (>0) of the pending "any NaN encoding" group written in this step
}

type mview struct {
	dv  bool
	t   int
	buf int
	off int // byte offset
	n   int // element count (bytes for a DataView)
}

type nanGroup struct {
	buf, off, size int
	be             bool // stored big-endian (DataView)
}

type model struct {
	bufs  []*mbuf
	views []*mview

	// per-step bookkeeping
	groups  []nanGroup // pending NaN-encoding groups (index+1 = id)
	taint   bool       // an implementation-chosen NaN encoding was re-read inside the step: expectation not unique
	effects int        // number of re-entrant effects fired in this step
	bulkSub bool       // a bulk op touched a view that does not cover its whole buffer
	oobDV   bool       // out-of-range DataView access
	log     []mval     // callback log
	newV    int        // number of views registered by this step
	preB    int        // number of buffers before this step
	anyEff  bool       // some step fired a re-entrant effect
}

func (m *model) clone() *model {
	c := &model{}
	for _, b := range m.bufs {
		nb := *b
		nb.data = append([]byte(nil), b.data...)
		nb.nan = make([]int32, len(b.nan))
		c.bufs = append(c.bufs, &nb)
	}
	for _, v := range m.views {
		nv := *v
		c.views = append(c.views, &nv)
	}
	return c
}

func (m *model) beginStep() {
	m.groups = m.groups[:0]
	m.taint = false
	m.effects = 0
	m.log = nil
	m.newV = 0
	for _, b := range m.bufs {
		for i := range b.nan {
			b.nan[i] = 0
		}
	}
}

func (m *model) addBuf(n int, slab bool) int {
	m.bufs = append(m.bufs, &mbuf{data: make([]byte, n), slab: slab, nan: make([]int32, n)})
	return len(m.bufs) - 1
}

func (m *model) addView(v mview) int {
	m.views = append(m.views, &v)
	m.newV++
	return len(m.views) - 1
}

func (m *model) detach(b int) {
	mb := m.bufs[b]
	if mb.detached {
		return
	}
	mb.detached = true
}

func (v *mview) size() int {
	if v.dv {
		return 1
	}
	return etypes[v.t].Size
}

func (m *model) isDetached(v *mview) bool { return m.bufs[v.buf].detached }

// length as observed by TypedArrayLength (0 when out of bounds / detached)
func (m *model) curLen(v *mview) int {
	if m.isDetached(v) {
		return 0
	}
	return v.n
}

// ---------------------------------------------------------------- raw memory

func (m *model) rd(b, off, n int) []byte {
	mb := m.bufs[b]
	for i := off; i < off+n; i++ {
		if mb.nan[i] != 0 {
			m.taint = true
		}
	}
	return append([]byte(nil), mb.data[off:off+n]...)
}

func (m *model) wr(b, off int, bs []byte) {
	mb := m.bufs[b]
	copy(mb.data[off:], bs)
	for i := off; i < off+len(bs); i++ {
		mb.nan[i] = 0
	}
}

func (m *model) wrNaN(b, off, size int, be bool) {
	mb := m.bufs[b]
	var bs []byte
	if size == 4 {
		bs = []byte{0, 0, 0xc0, 0x7f}
	} else {
		bs = []byte{0, 0, 0, 0, 0, 0, 0xf8, 0x7f}
	}
	if be {
		bs = rev(bs)
	}
	copy(mb.data[off:], bs)
	m.groups = append(m.groups, nanGroup{b, off, size, be})
	id := int32(len(m.groups))
	for i := off; i < off+size; i++ {
		mb.nan[i] = id
	}
}

// ---------------------------------------------------------------- NumericToRawBytes / RawBytesToNumeric

func le(u uint64, n int) []byte {
	bs := make([]byte, n)
	for i := 0; i < n; i++ {
		bs[i] = byte(u >> (8 * uint(i)))
	}
	return bs
}

func unle(bs []byte) uint64 {
	var u uint64
	for i := len(bs) - 1; i >= 0; i-- {
		u = u<<8 | uint64(bs[i])
	}
	return u
}

var two64 = new(big.Int).Lsh(big.NewInt(1), 64)

// toF32Bits rounds a double to the nearest float32 (ties to even) by hand.
func toF32Bits(f float64) uint32 {
	b := math.Float64bits(f)
	sign := uint32(b>>63) << 31
	exp := int((b >> 52) & 0x7ff)
	man := b & (1<<52 - 1)
	if exp == 0x7ff {
		if man != 0 {
			return 0x7fc00000
		}
		return sign | 0x7f800000
	}
	if exp == 0 {
		return sign // zero and double subnormals (far below 2^-150)
	}
	e := exp - 1023
	if e > 127 {
		return sign | 0x7f800000
	}
	mm := man | 1<<52
	shift := uint(29)
	sub := false
	if e < -126 {
		sub = true
		d := -126 - e
		if d > 30 {
			return sign
		}
		shift = uint(29 + d)
	}
	q := mm >> shift
	rem := mm & (1<<shift - 1)
	half := uint64(1) << (shift - 1)
	if rem > half || (rem == half && q&1 == 1) {
		q++
	}
	if sub {
		return sign | uint32(q)
	}
	return sign | (uint32(e+127-1)<<23 + uint32(q))
}

// numToRaw converts an already coerced Number/BigInt to the little-endian bytes
// of element type t. isNaN reports that any NaN encoding is permitted.
func numToRaw(t int, v mval) (bs []byte, isNaN bool) {
	switch t {
	case tInt8:
		return []byte{byte(numref.ToInt8(v.n))}, false
	case tUint8:
		return []byte{numref.ToUint8(v.n)}, false
	case tUint8C:
		return []byte{numref.ToUint8Clamp(v.n)}, false
	case tInt16:
		return le(uint64(uint16(numref.ToInt16(v.n))), 2), false
	case tUint16:
		return le(uint64(numref.ToUint16(v.n)), 2), false
	case tInt32:
		return le(uint64(uint32(numref.ToInt32(v.n))), 4), false
	case tUint32:
		return le(uint64(numref.ToUint32(v.n)), 4), false
	case tFloat32:
		if math.IsNaN(v.n) {
			return []byte{0, 0, 0xc0, 0x7f}, true
		}
		return le(uint64(toF32Bits(v.n)), 4), false
	case tFloat64:
		if math.IsNaN(v.n) {
			return []byte{0, 0, 0, 0, 0, 0, 0xf8, 0x7f}, true
		}
		return le(math.Float64bits(v.n), 8), false
	case tBigInt64, tBigUint64:
		r := new(big.Int).Mod(v.b, two64) // Euclidean: [0, 2^64)
		return le(r.Uint64(), 8), false
	}
	panic("numToRaw: bad type")
}

func rawToNum(t int, bs []byte) mval {
	u := unle(bs)
	switch t {
	case tInt8:
		return num(float64(int8(u)))
	case tUint8, tUint8C:
		return num(float64(uint8(u)))
	case tInt16:
		return num(float64(int16(u)))
	case tUint16:
		return num(float64(uint16(u)))
	case tInt32:
		return num(float64(int32(u)))
	case tUint32:
		return num(float64(uint32(u)))
	case tFloat32:
		return num(f32BitsToF64(uint32(u)))
	case tFloat64:
		return num(math.Float64frombits(u))
	case tBigInt64:
		return bigv(big.NewInt(int64(u)))
	case tBigUint64:
		return bigv(new(big.Int).SetUint64(u))
	}
	panic("rawToNum: bad type")
}

// f32BitsToF64 decodes an IEEE binary32 pattern exactly (by hand).
func f32BitsToF64(u uint32) float64 {
	sign := 1.0
	if u>>31 != 0 {
		sign = -1
	}
	exp := int((u >> 23) & 0xff)
	man := float64(u & (1<<23 - 1))
	switch exp {
	case 0xff:
		if man != 0 {
			return math.NaN()
		}
		return math.Inf(int(sign))
	case 0:
		return sign * math.Ldexp(man, -149)
	}
	return sign * math.Ldexp(man+8388608, exp-150)
}

// ---------------------------------------------------------------- buffer-level get/set

func rev(bs []byte) []byte {
	o := make([]byte, len(bs))
	for i := range bs {
		o[len(bs)-1-i] = bs[i]
	}
	return o
}

// getValue = GetValueFromBuffer
func (m *model) getValue(b, off, t int, little bool) mval {
	bs := m.rd(b, off, etypes[t].Size)
	if !little {
		bs = rev(bs)
	}
	return rawToNum(t, bs)
}

// setValue = SetValueInBuffer (value already coerced)
func (m *model) setValue(b, off, t int, v mval, little bool) {
	bs, isNaN := numToRaw(t, v)
	if isNaN {
		m.wrNaN(b, off, len(bs), !little)
		return
	}
	if !little {
		bs = rev(bs)
	}
	m.wr(b, off, bs)
}

// ---------------------------------------------------------------- conversions (7.1)

func (m *model) fire(e *Effect) {
	if e == nil || e.Kind == "" {
		return
	}
	m.effects++
	m.anyEff = true
	switch e.Kind {
	case "detach":
		m.detach(e.Buf)
	case "poke":
		mb := m.bufs[e.Buf]
		if !mb.detached && e.Off < len(mb.data) {
			m.wr(e.Buf, e.Off, []byte{byte(e.Byte)})
		}
	}
}

// toPrim = ToPrimitive for the adversarial objects (valueOf / toString returns a primitive)
func (m *model) toPrim(v mval) mval {
	if v.k == 'o' {
		m.fire(v.arg.Eff)
		return v.arg.V.mv()
	}
	if v.k == 'x' || v.k == 'v' || v.k == 'B' || v.k == 'w' {
		// plain objects are never passed where a primitive is needed by the generator
		panic("model: ToPrimitive on plain object")
	}
	return v
}

func (m *model) toNumber(v mval) float64 {
	v = m.toPrim(v)
	switch v.k {
	case 'u':
		return math.NaN()
	case '0':
		return 0
	case 't':
		if v.t {
			return 1
		}
		return 0
	case 'n':
		return v.n
	case 's':
		return numref.StringToNumber(v.s)
	case 'b':
		throw("TypeError")
	}
	panic("toNumber: bad kind")
}

// bigStrings: hand-derived expectations used to cross-check stringToBigInt ("!" = SyntaxError).
var bigStrings = map[string]string{
	"12": "12", "-3": "-3", "0x10": "16", " 7 ": "7", "": "0", "  ": "0", "+5": "5", "0b11": "3",
	"18446744073709551617": "18446744073709551617", "-9223372036854775809": "-9223372036854775809",
	"1.5": "!", "abc": "!", "1n": "!", "1e3": "!", "-0x1": "!", "Infinity": "!", "1_0": "!",
}

// stringToBigInt implements StringToBigInt (7.1.14): StrWhiteSpace? (StrIntegerLiteral StrWhiteSpace?)?
// where StrIntegerLiteral is a signed decimal digit string or an unsigned 0x/0o/0b literal (no separators,
// no fraction, no exponent, no "n" suffix). The empty / all-white-space string is 0n.
func stringToBigInt(s string) (*big.Int, bool) {
	r := string(numref.TrimJS([]rune(s)))
	if r == "" {
		return new(big.Int), true
	}
	digits := func(t string, base int) (*big.Int, bool) {
		if t == "" {
			return nil, false
		}
		for _, c := range t {
			d := -1
			switch {
			case c >= '0' && c <= '9':
				d = int(c - '0')
			case c >= 'a' && c <= 'f':
				d = int(c-'a') + 10
			case c >= 'A' && c <= 'F':
				d = int(c-'A') + 10
			}
			if d < 0 || d >= base {
				return nil, false
			}
		}
		n, ok := new(big.Int).SetString(t, base)
		return n, ok
	}
	if len(r) >= 2 && r[0] == '0' {
		switch r[1] {
		case 'x', 'X':
			return digits(r[2:], 16)
		case 'o', 'O':
			return digits(r[2:], 8)
		case 'b', 'B':
			return digits(r[2:], 2)
		}
	}
	neg := false
	if r[0] == '+' || r[0] == '-' {
		neg = r[0] == '-'
		r = r[1:]
	}
	n, ok := digits(r, 10)
	if ok && neg {
		n.Neg(n)
	}
	return n, ok
}

func (m *model) toBigInt(v mval) *big.Int {
	v = m.toPrim(v)
	switch v.k {
	case 'u', '0', 'n':
		throw("TypeError")
	case 't':
		if v.t {
			return big.NewInt(1)
		}
		return big.NewInt(0)
	case 'b':
		return v.b
	case 's':
		n, ok := stringToBigInt(v.s)
		if !ok {
			throw("SyntaxError")
		}
		return n
	}
	panic("toBigInt: bad kind")
}

// toNumeric for element type t: ToBigInt for BigInt arrays, else ToNumber.
func (m *model) coerceElem(t int, v mval) mval {
	if etypes[t].Big {
		return bigv(m.toBigInt(v))
	}
	return num(m.toNumber(v))
}

func (m *model) toIntInf(v mval) float64 { return numref.ToIntegerOrInfinity(m.toNumber(v)) }

func (m *model) toIndex(v mval) float64 {
	if v.k == 'u' {
		return 0
	}
	i := m.toIntInf(v)
	if i < 0 || i > numref.MaxSafe {
		throw("RangeError")
	}
	return i
}

func toBoolean(v mval) bool {
	switch v.k {
	case 'u', '0':
		return false
	case 't':
		return v.t
	case 'n':
		return v.n != 0 && !math.IsNaN(v.n)
	case 'b':
		return v.b.Sign() != 0
	case 's':
		return v.s != ""
	}
	return true
}

func (m *model) toString(v mval) string {
	v = m.toPrim(v)
	switch v.k {
	case 'u':
		return "undefined"
	case '0':
		return "null"
	case 't':
		if v.t {
			return "true"
		}
		return "false"
	case 'n':
		return jsx.NumberToString(v.n)
	case 'b':
		return v.b.String()
	case 's':
		return v.s
	}
	panic("toString: bad kind")
}

// rel resolves a relative index (already ToIntegerOrInfinity'd) against length n.
func rel(i float64, n int) int {
	if i < 0 {
		if i+float64(n) < 0 {
			return 0
		}
		return int(i + float64(n))
	}
	if i > float64(n) {
		return n
	}
	return int(i)
}

// sameValueZero / strict equality between a search value and an element
func strictEq(a, b mval) bool {
	if a.k != b.k {
		return false
	}
	switch a.k {
	case 'u', '0':
		return true
	case 'n':
		return a.n == b.n
	case 'b':
		return a.b.Cmp(b.b) == 0
	case 's':
		return a.s == b.s
	case 't':
		return a.t == b.t
	}
	return false
}

func sameValueZero(a, b mval) bool {
	if a.k == 'n' && b.k == 'n' && math.IsNaN(a.n) && math.IsNaN(b.n) {
		return true
	}
	return strictEq(a, b)
}

// ---------------------------------------------------------------- integer-indexed exotic object (10.4.5)

// canonicalNumeric implements CanonicalNumericIndexString for a string key.
func canonicalNumeric(s string) (float64, bool) {
	if s == "-0" {
		return math.Copysign(0, -1), true
	}
	n := numref.StringToNumber(s)
	if jsx.NumberToString(n) == s {
		return n, true
	}
	return 0, false
}

func (m *model) validIndex(v *mview, idx float64) bool {
	if m.isDetached(v) {
		return false
	}
	if math.IsNaN(idx) || math.IsInf(idx, 0) || idx != math.Trunc(idx) {
		return false
	}
	if idx == 0 && math.Signbit(idx) {
		return false
	}
	return idx >= 0 && idx < float64(v.n)
}

// getElem = TypedArrayGetElement
func (m *model) getElem(v *mview, idx float64) mval {
	if !m.validIndex(v, idx) {
		return undef
	}
	return m.getValue(v.buf, v.off+int(idx)*etypes[v.t].Size, v.t, true)
}

// setElem = TypedArraySetElement (coerces first, then checks the index)
func (m *model) setElem(v *mview, idx float64, val mval) {
	cv := m.coerceElem(v.t, val)
	if m.validIndex(v, idx) {
		m.setValue(v.buf, v.off+int(idx)*etypes[v.t].Size, v.t, cv, true)
	}
}

// validate = ValidateTypedArray
func (m *model) validate(v *mview) int {
	if v.dv {
		throw("TypeError")
	}
	if m.isDetached(v) {
		throw("TypeError")
	}
	return v.n
}

func (m *model) noteBulk(v *mview) {
	if !m.isDetached(v) && (v.off != 0 || v.n*v.size() != len(m.bufs[v.buf].data)) {
		m.bulkSub = true
	}
}

func hexOf(bs []byte) string {
	const d = "0123456789abcdef"
	var sb strings.Builder
	for _, b := range bs {
		sb.WriteByte(d[b>>4])
		sb.WriteByte(d[b&15])
	}
	return sb.String()
}
