package c17

// JavaScript rendering of operations. The script side keeps three registries:
// B (ArrayBuffers), V (views), L (callback log). Every operation is one
// expression whose value is encoded by enc() into tagged arrays so that the Go
// side can compare it with the model without trusting number formatting.

import (
	"strconv"
	"strings"

	"verifh/internal/jsx"
)

const prelude = `
var B = [], V = [], L = [];
function enc(r) {
  if (r === undefined) return ["u"];
  if (r === null) return ["0"];
  var t = typeof r;
  if (t === "number") return ["n", r];
  if (t === "bigint") return ["b", r];
  if (t === "string") return ["s", r];
  if (t === "boolean") return ["t", r];
  if (t === "object") {
    var i = V.indexOf(r); if (i >= 0) return ["v", i];
    i = B.indexOf(r); if (i >= 0) return ["B", i];
    var tag = Object.prototype.toString.call(r);
    if (tag === "[object ArrayBuffer]") { B.push(r); return ["nB", B.length - 1, r.byteLength]; }
    if (ArrayBuffer.isView(r)) {
      var buf = r.buffer, bi = B.indexOf(buf), nb = false;
      if (bi < 0) { B.push(buf); bi = B.length - 1; nb = true; }
      V.push(r);
      return ["nv", V.length - 1, tag, bi, r.byteOffset, tag === "[object DataView]" ? r.byteLength : r.length, nb, buf.byteLength];
    }
    if (Array.isArray(r)) { var a = ["l"]; for (var k = 0; k < r.length; k++) a.push(enc(r[k])); return a; }
    if ("read" in r && "written" in r) return ["w", r.read, r.written];
    return ["x"];
  }
  return ["?", t];
}
function adv(f) { return {valueOf: f, toString: f}; }
`

func jsVal(v Val) string {
	switch v.K {
	case "u", "":
		return "undefined"
	case "null":
		return "null"
	case "n":
		return jsx.NumLit(v.mv().n)
	case "b":
		if strings.HasPrefix(v.N, "-") {
			return "(" + v.N + "n)"
		}
		return v.N + "n"
	case "s":
		return jsx.StrLitGo(v.N, true)
	case "t":
		if v.N == "1" {
			return "true"
		}
		return "false"
	}
	panic("jsVal")
}

func jsEff(e *Effect) string {
	if e == nil || e.Kind == "" {
		return ""
	}
	switch e.Kind {
	case "detach":
		return "detach(" + strconv.Itoa(e.Buf) + ");"
	case "poke":
		return "poke(" + strconv.Itoa(e.Buf) + "," + strconv.Itoa(e.Off) + "," + strconv.Itoa(e.Byte) + ");"
	}
	panic("jsEff")
}

func jsArg(a *Arg) string {
	if a.Absent {
		return "undefined"
	}
	if !a.Obj {
		return jsVal(a.V)
	}
	return "adv(function(){" + jsEff(a.Eff) + "return " + jsVal(a.V) + ";})"
}

func jsArgs(as []Arg) string {
	var parts []string
	for i := range as {
		if as[i].Absent {
			break
		}
		parts = append(parts, jsArg(&as[i]))
	}
	return strings.Join(parts, ",")
}

func jsList(as []Arg) string {
	var parts []string
	for i := range as {
		parts = append(parts, jsArg(&as[i]))
	}
	return "[" + strings.Join(parts, ",") + "]"
}

func jsKey(k *Key) string {
	if k.Str {
		return jsx.StrLitGo(k.S, true)
	}
	return jsVal(k.N)
}

func vref(i int) string { return "V[" + strconv.Itoa(i) + "]" }
func bref(i int) string { return "B[" + strconv.Itoa(i) + "]" }

// speciesFn renders the function used as species constructor / static `this`.
func speciesFn(sp *Species) string {
	body := jsEff(sp.Eff)
	switch sp.Mode {
	case "fnview":
		body += "return " + vref(sp.View) + ";"
	case "fnnew":
		body += "return new " + etypes[sp.T].Name + "(" + bref(sp.Buf) + "," + strconv.Itoa(sp.Off)
		if sp.Len >= 0 {
			body += "," + strconv.Itoa(sp.Len)
		}
		body += ");"
	case "fnplain":
		body += "return {};"
	case "fnbuf":
		body += "return " + bref(sp.Buf) + ";"
	case "fnnewbuf":
		body += "return new ArrayBuffer(" + strconv.Itoa(sp.Len) + ");"
	default:
		panic("speciesFn " + sp.Mode)
	}
	return "function(){" + body + "}"
}

// withSpecies wraps call (an expression using `o` as receiver) in the constructor set-up / tear-down.
func withSpecies(recv string, sp *Species, call string) string {
	if sp == nil {
		return "(function(){var o=" + recv + ";return enc(" + call + ");})()"
	}
	var set string
	switch sp.Mode {
	case "undef":
		set = "o.constructor=undefined;"
	case "prim":
		set = "o.constructor=1;"
	case "specnull":
		set = "o.constructor={};o.constructor[Symbol.species]=null;"
	case "specprim":
		set = "o.constructor={};o.constructor[Symbol.species]=1;"
	case "ctor":
		set = "o.constructor=" + etypes[sp.T].Name + ";"
	default:
		set = "o.constructor={};o.constructor[Symbol.species]=" + speciesFn(sp) + ";"
	}
	return "(function(){var o=" + recv + ";" + set + "try{return enc(" + call + ");}finally{delete o.constructor;}})()"
}

func jsCallback(cb *Callback, reduce bool) string {
	params := "v,i"
	if reduce {
		params = "a,v,i"
	}
	s := "function(" + params + "){L.push(v);"
	if cb.At >= 0 && cb.Eff != nil {
		s += "if(i===" + strconv.Itoa(cb.At) + "){" + jsEff(cb.Eff) + "}"
	}
	switch cb.Ret {
	case "t@":
		s += "return i===" + strconv.Itoa(cb.R) + ";"
	case "f@":
		s += "return i!==" + strconv.Itoa(cb.R) + ";"
	case "const":
		s += "return " + jsArg(cb.C) + ";"
	case "id":
		s += "return v;"
	case "idx":
		s += "return i;"
	}
	return s + "}"
}

func jsComparator(op *Op) string {
	first := "if(f){f=0;" + jsEff(op.CmpEff) + "}"
	wrap := func(body string) string {
		return "(function(){var f=1;return function(x,y){" + first + body + "}})()"
	}
	const nanPart = "var a=x!==x,b=y!==y;"
	switch op.Cmp {
	case "", "none":
		return ""
	case "asc":
		return wrap(nanPart + "if(a||b)return (a?1:0)-(b?1:0);return x<y?-1:x>y?1:0;")
	case "objasc":
		return wrap(nanPart + "var d;if(a||b)d=(a?1:0)-(b?1:0);else d=x<y?-1:x>y?1:0;return {valueOf:function(){return d;}};")
	case "desc":
		return wrap(nanPart + "if(a||b)return (b?1:0)-(a?1:0);return x<y?1:x>y?-1:0;")
	case "zero":
		return wrap("return 0;")
	case "negzero":
		return wrap("return -0;")
	case "nan":
		return wrap("return NaN;")
	case "undef":
		return wrap("return undefined;")
	case "bad1":
		return "1"
	case "badobj":
		return "{}"
	case "badnull":
		return "null"
	}
	panic("jsComparator " + op.Cmp)
}

func jsSource(s *Source) string {
	switch s.Kind {
	case "view":
		return vref(s.View)
	case "list":
		return jsList(s.List)
	case "len":
		return jsArg(&s.List[0])
	case "alike":
		o := "{length:" + jsArg(s.Len)
		for i := range s.List {
			o += "," + strconv.Itoa(i) + ":" + jsArg(&s.List[i])
		}
		return "(" + o + "})"
	}
	panic("jsSource " + s.Kind)
}

// render returns the script for one operation ("" for Go-side operations).
func render(op *Op) string {
	plain := func(e string) string { return "enc(" + e + ")" }
	switch op.Op {
	case "newta":
		a := jsArgs(op.A)
		if a != "" {
			a = "," + a
		}
		return plain("new " + etypes[op.T].Name + "(" + bref(op.B) + a + ")")
	case "newdv":
		a := jsArgs(op.A)
		if a != "" {
			a = "," + a
		}
		return plain("new DataView(" + bref(op.B) + a + ")")
	case "newfrom":
		return plain("new " + etypes[op.T].Name + "(" + jsSource(op.Src) + ")")
	case "newab":
		return plain("new ArrayBuffer(" + jsArgs(op.A) + ")")
	case "defprop":
		return "(function(){var o=" + vref(op.V) + ",k=" + jsKey(op.Key) + ";var r=Reflect.defineProperty(o,k,{configurable:true,enumerable:true,writable:true,value:" + jsArg(&op.A[0]) +
			"}),d=delete o[k];return enc([r,d]);})()"
	case "get":
		return plain(vref(op.V) + "[" + jsKey(op.Key) + "]")
	case "has":
		return plain("(" + jsKey(op.Key) + " in " + vref(op.V) + ")")
	case "put":
		k := jsKey(op.Key)
		return "(function(){var o=" + vref(op.V) + ",k=" + k + ";o[k]=" + jsArg(&op.A[0]) +
			";var h=Object.prototype.hasOwnProperty.call(o,k),r=o[k],d=delete o[k];return enc([h,r,d]);})()"
	case "prop":
		if op.M == "ablen" {
			return plain(bref(op.B) + ".byteLength")
		}
		return plain(vref(op.V) + "." + op.M)
	case "dvget":
		return plain(vref(op.V) + ".get" + dvNames[op.T] + "(" + jsArgs(op.A) + ")")
	case "dvset":
		return plain(vref(op.V) + ".set" + dvNames[op.T] + "(" + jsArgs(op.A) + ")")
	case "abslice":
		return withSpecies(bref(op.B), op.Sp, "o.slice("+jsArgs(op.A)+")")
	case "static":
		switch op.M {
		case "fromHex":
			return plain("Uint8Array.fromHex(" + jsArgs(op.A) + ")")
		case "of", "from":
			c := etypes[op.T].Name
			if op.Sp != nil {
				if op.Sp.Mode == "ctor" {
					c = etypes[op.Sp.T].Name
				} else {
					c = speciesFn(op.Sp)
				}
			}
			if op.M == "of" {
				a := jsArgs(op.A)
				if a != "" {
					a = "," + a
				}
				return plain(etypes[op.T].Name + ".of.call(" + c + a + ")")
			}
			a := jsSource(op.Src)
			if op.Cb != nil {
				a += "," + jsCallback(op.Cb, false)
			}
			return plain(etypes[op.T].Name + ".from.call(" + c + "," + a + ")")
		}
	case "meth":
		recv := vref(op.V)
		switch op.M {
		case "slice", "subarray":
			return withSpecies(recv, op.Sp, "o."+op.M+"("+jsArgs(op.A)+")")
		case "map", "filter":
			return withSpecies(recv, op.Sp, "o."+op.M+"("+jsCallback(op.Cb, false)+")")
		case "forEach", "every", "some", "find", "findIndex", "findLast", "findLastIndex":
			return plain(recv + "." + op.M + "(" + jsCallback(op.Cb, false) + ")")
		case "reduce", "reduceRight":
			a := jsArgs(op.A)
			if a != "" {
				a = "," + a
			}
			return plain(recv + "." + op.M + "(" + jsCallback(op.Cb, true) + a + ")")
		case "sort", "toSorted":
			return plain(recv + "." + op.M + "(" + jsComparator(op) + ")")
		case "set":
			a := jsArgs(op.A)
			if a != "" {
				a = "," + a
			}
			return plain(recv + ".set(" + jsSource(op.Src) + a + ")")
		case "toLocaleString":
			eff := ""
			if op.Cb.At >= 0 && op.Cb.Eff != nil {
				eff = "if(n===" + strconv.Itoa(op.Cb.At) + "){" + jsEff(op.Cb.Eff) + "}"
			}
			return "(function(){var o=" + recv + ",n=0,P=Number.prototype,Q=BigInt.prototype,a=P.toLocaleString,b=Q.toLocaleString;" +
				"var f=function(){L.push(this.valueOf());" + eff + "n++;return \"x\";};P.toLocaleString=f;Q.toLocaleString=f;" +
				"try{return enc(o.toLocaleString());}finally{P.toLocaleString=a;Q.toLocaleString=b;}})()"
		case "forof", "forofkeys":
			it := recv
			if op.M == "forofkeys" {
				it = recv + ".keys()"
			}
			eff := ""
			if op.Cb.At >= 0 && op.Cb.Eff != nil {
				eff = "if(n===" + strconv.Itoa(op.Cb.At) + "){" + jsEff(op.Cb.Eff) + "}"
			}
			return "(function(){var n=0;for(var x of " + it + "){L.push(x);" + eff + "n++;}return enc(undefined);})()"
		default:
			return plain(recv + "." + op.M + "(" + jsArgs(op.A) + ")")
		}
	case "godetach", "gopoke", "goexportto", "goexport":
		return ""
	}
	panic("render: unknown op " + op.Op + "/" + op.M)
}

// caseText is the canonical text of a case (distinctness hash, samples).
func caseText(c *Case) string {
	var sb strings.Builder
	for _, b := range c.Bufs {
		sb.WriteString("mkbuf(" + strconv.Itoa(b.N) + "," + b.Init + ");\n")
	}
	for i := range c.Ops {
		op := &c.Ops[i]
		s := render(op)
		if s == "" {
			s = "/*go*/ " + op.Op + "(" + strconv.Itoa(op.V) + "," + strconv.Itoa(op.B) + "," + strconv.Itoa(op.Off) + "," + strconv.Itoa(op.Byte) + ")"
		}
		sb.WriteString(s + ";\n")
	}
	return sb.String()
}
