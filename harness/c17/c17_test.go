package c17

import (
	"encoding/json"
	"fmt"
	"math"
	"math/big"
	"os"
	"reflect"
	"sort"
	"strconv"
	"strings"
	"testing"
	"unsafe"

	"github.com/dop251/goja"
	"pgregory.net/rapid"

	"verifh/internal/evid"
	"verifh/internal/jsx"
)

func TestMain(m *testing.M) { evid.Main("C17", m) }

const (
	slabSize = 4096
	slabGap  = 2048 // window start inside the slab (8-aligned); cap of the window extends to the end of the slab
)

func canary(k, i int) byte { return byte(0xA5 ^ (i * 7) ^ ((i >> 8) * 13) ^ (k * 29)) }

var preludePrg = goja.MustCompile("prelude.js", prelude, false)

type world struct {
	vm     *goja.Runtime
	slabs  [][]byte
	sizes  []int
	hand   []goja.ArrayBuffer // handles of the Go-supplied buffers
	det    []bool             // harness' own record of detaches it performed
	inner  map[int]goja.ArrayBuffer
	goFail string // failure inside a host function
}

func newWorld(c *Case) (*world, error) {
	w := &world{vm: goja.New(), inner: map[int]goja.ArrayBuffer{}}
	for k, b := range c.Bufs {
		if b.N < 0 || b.N > 1024 || len(b.Init) != 2*b.N {
			return nil, fmt.Errorf("bad buffer spec %d", k)
		}
		s := make([]byte, slabSize)
		for i := range s {
			s[i] = canary(k, i)
		}
		for j := 0; j < b.N; j++ {
			x, err := strconv.ParseUint(b.Init[2*j:2*j+2], 16, 8)
			if err != nil {
				return nil, err
			}
			s[slabGap+j] = byte(x)
		}
		w.slabs = append(w.slabs, s)
		w.sizes = append(w.sizes, b.N)
		w.det = append(w.det, false)
		w.hand = append(w.hand, w.vm.NewArrayBuffer(s[slabGap:slabGap+b.N]))
	}
	w.vm.Set("mkbuf", func(k int) goja.Value { return w.vm.ToValue(w.hand[k]) })
	w.vm.Set("detach", func(k int) {
		if k < 0 || k >= len(w.hand) {
			w.goFail = "detach of unknown buffer"
			return
		}
		w.hand[k].Detach()
		w.det[k] = true
	})
	w.vm.Set("poke", func(k, off, b int) {
		if k < 0 || k >= len(w.hand) {
			w.goFail = "poke of unknown buffer"
			return
		}
		if !w.det[k] && off >= 0 && off < w.sizes[k] {
			w.slabs[k][slabGap+off] = byte(b)
		}
	})
	if o := jsx.RunProgram(w.vm, preludePrg); o.Kind != "value" {
		return nil, fmt.Errorf("prelude: %s", o.Text)
	}
	var sb strings.Builder
	for k := range c.Bufs {
		sb.WriteString("B.push(mkbuf(" + strconv.Itoa(k) + "));")
	}
	if o := jsx.RunString(w.vm, sb.String()); o.Kind != "value" {
		return nil, fmt.Errorf("setup: %s", o.Text)
	}
	return w, nil
}

func (w *world) jsBuf(i int) (ab goja.ArrayBuffer, ok bool) {
	if i < len(w.hand) {
		return w.hand[i], true
	}
	if h, ok := w.inner[i]; ok {
		return h, true
	}
	o := jsx.RunString(w.vm, "B["+strconv.Itoa(i)+"]")
	if o.Kind != "value" {
		return ab, false
	}
	h, ok := o.Value.Export().(goja.ArrayBuffer)
	if ok {
		w.inner[i] = h
	}
	return h, ok
}

// actual bytes of buffer i as the engine holds them (nil if detached)
func (w *world) bytesOf(i int) ([]byte, bool) {
	h, ok := w.jsBuf(i)
	if !ok {
		return nil, false
	}
	return h.Bytes(), true
}

func fmtVal(v mval) string {
	switch v.k {
	case 'u':
		return "undefined"
	case '0':
		return "null"
	case 'n':
		if v.n == 0 && math.Signbit(v.n) {
			return "-0"
		}
		return strconv.FormatFloat(v.n, 'g', -1, 64)
	case 'b':
		return v.b.String() + "n"
	case 's':
		return strconv.Quote(v.s)
	case 't':
		return strconv.FormatBool(v.t)
	case 'v':
		return "V[" + strconv.Itoa(v.id) + "]"
	case 'B':
		return "B[" + strconv.Itoa(v.id) + "]"
	case 'w':
		return fmt.Sprintf("{read:%d,written:%d}", v.r, v.w)
	case 'x', 'o':
		return "<object>"
	case 'l':
		var p []string
		for _, e := range v.list {
			p = append(p, fmtVal(e))
		}
		return "[" + strings.Join(p, ",") + "]"
	}
	return "?"
}

func fmtGot(x interface{}) string {
	b, err := json.Marshal(x)
	if err != nil {
		return fmt.Sprintf("%v", x)
	}
	return string(b)
}

func asFloat(x interface{}) (float64, bool) {
	switch n := x.(type) {
	case int64:
		return float64(n), true
	case float64:
		return n, true
	case int:
		return float64(n), true
	}
	return 0, false
}

func sameNum(a, b float64) bool {
	if math.IsNaN(a) && math.IsNaN(b) {
		return true
	}
	return a == b && math.Signbit(a) == math.Signbit(b)
}

// matches compares a model value with an enc()-encoded engine value.
func (w *world) matches(m *model, exp mval, got interface{}) bool {
	g, ok := got.([]interface{})
	if !ok || len(g) == 0 {
		return false
	}
	tag, _ := g[0].(string)
	switch exp.k {
	case 'u':
		return tag == "u"
	case '0':
		return tag == "0"
	case 'n':
		if tag != "n" || len(g) != 2 {
			return false
		}
		f, ok := asFloat(g[1])
		return ok && sameNum(f, exp.n)
	case 'b':
		if tag != "b" || len(g) != 2 {
			return false
		}
		bi, ok := g[1].(*big.Int)
		return ok && bi.Cmp(exp.b) == 0
	case 's':
		return tag == "s" && len(g) == 2 && g[1] == exp.s
	case 't':
		return tag == "t" && len(g) == 2 && g[1] == exp.t
	case 'x', 'o':
		return tag == "x"
	case 'w':
		if tag != "w" || len(g) != 3 {
			return false
		}
		r, ok1 := asFloat(g[1])
		wr, ok2 := asFloat(g[2])
		return ok1 && ok2 && int(r) == exp.r && int(wr) == exp.w
	case 'l':
		if tag != "l" || len(g) != len(exp.list)+1 {
			return false
		}
		for i, e := range exp.list {
			if !w.matches(m, e, g[i+1]) {
				return false
			}
		}
		return true
	case 'B':
		if exp.id < m.preB && tag == "B" && len(g) == 2 {
			f, ok := asFloat(g[1])
			return ok && int(f) == exp.id
		}
		if tag == "nB" && len(g) == 3 {
			idx, ok1 := asFloat(g[1])
			bl, ok2 := asFloat(g[2])
			return ok1 && ok2 && int(idx) == exp.id && exp.id >= m.preB && int(bl) == len(m.bufs[exp.id].data)
		}
		return false
	case 'v':
		if tag == "v" && len(g) == 2 {
			f, ok := asFloat(g[1])
			return ok && int(f) == exp.id && m.newV == 0
		}
		if tag == "nv" && len(g) == 8 && m.newV == 1 && exp.id == len(m.views)-1 {
			v := m.views[exp.id]
			idx, _ := asFloat(g[1])
			name, _ := g[2].(string)
			bi, _ := asFloat(g[3])
			bo, _ := asFloat(g[4])
			ln, _ := asFloat(g[5])
			nb, _ := g[6].(bool)
			bl, _ := asFloat(g[7])
			want := "[object " + etypes[v.t].Name + "]"
			if v.dv {
				want = "[object DataView]"
			}
			mb := m.bufs[v.buf]
			wo, wn, wl := v.off, v.n, len(mb.data)
			if mb.detached {
				// detached during the operation that created the view: the getters report 0
				wo, wn, wl = 0, 0, 0
			}
			return int(idx) == exp.id && name == want && int(bi) == v.buf && int(bo) == wo && int(ln) == wn &&
				nb == (v.buf >= m.preB) && int(bl) == wl
		}
		return false
	}
	return false
}

// isNewBuf: buffer index i has not been seen by the Go side before this step
func (w *world) isNewBuf(i int) bool {
	_, seen := w.inner[i]
	return !seen && i >= len(w.hand)
}

type stepInfo struct {
	i  int
	op *Op
	js string
}

func opName(op *Op) string {
	if op.M != "" {
		if op.Cmp == "negzero" {
			return op.M + "[negzero]"
		}
		return op.M
	}
	return op.Op
}

func judge(c *Case) *evid.Failure {
	fail := func(key, msg string, exp, got interface{}) *evid.Failure {
		return &evid.Failure{Check: "hist", Key: key, Msg: msg, Case: c, Expected: exp, Observed: got}
	}
	if len(c.Bufs) == 0 || len(c.Bufs) > 3 || len(c.Ops) > 64 {
		return fail("harness", "bad case shape", nil, nil)
	}
	w, err := newWorld(c)
	if err != nil {
		return fail("harness", "cannot build world: "+err.Error(), nil, nil)
	}
	m := newModel(c)
	for i := range c.Ops {
		op := &c.Ops[i]
		var out outcome
		func() {
			defer func() {
				if p := recover(); p != nil {
					err = fmt.Errorf("model panic at step %d (%s): %v", i, opName(op), p)
				}
			}()
			out = m.step(op)
		}()
		if err != nil {
			return fail("harness", err.Error(), nil, nil)
		}
		if m.taint {
			evid.Excluded("nan-encoding-reread")
			return nil
		}
		name := opName(op)
		flags := ""
		if m.effects > 0 {
			flags += "+eff"
		}
		if op.Sp != nil {
			flags += "+sp"
		}
		js := render(op)
		where := fmt.Sprintf("step %d: %s", i, js)
		if js == "" {
			where = fmt.Sprintf("step %d: Go-side %s(view %d, buffer %d, off %d, byte %d)", i, op.Op, op.V, op.B, op.Off, op.Byte)
			if f := w.goStep(m, op, &out, func(aspect, msg string, e, g interface{}) *evid.Failure {
				return fail(name+":"+aspect+flags, where+"\n"+msg, e, g)
			}); f != nil {
				return f
			}
		} else {
			o := jsx.RunString(w.vm, "L=[];"+js)
			if w.goFail != "" {
				return fail("harness", where+": "+w.goFail, nil, nil)
			}
			switch o.Kind {
			case "panic":
				return fail(name+":panic"+flags, where+"\n"+o.Text+"\n"+firstLines(o.Stack, 14), "no Go panic", o.Text)
			case "exception":
				got := jsx.ExcName(w.vm, o.Err)
				if out.throw == "" {
					return fail(name+":throw"+flags, fmt.Sprintf("%s\nthrew %s (%s), specification: completes with %s", where, got, o.Text, fmtVal(out.val)), fmtVal(out.val), got)
				}
				if got != out.throw {
					return fail(name+":throwclass"+flags, fmt.Sprintf("%s\nthrew %s (%s), specification: %s", where, got, o.Text, out.throw), out.throw, got)
				}
			case "value":
				if out.throw != "" {
					return fail(name+":nothrow"+flags, fmt.Sprintf("%s\ncompleted with %s, specification: throws %s", where, fmtGot(o.Value.Export()), out.throw), out.throw, fmtGot(o.Value.Export()))
				}
				got := o.Value.Export()
				if !w.matches(m, out.val, got) {
					return fail(name+":result"+flags, fmt.Sprintf("%s\nresult %s, specification: %s", where, fmtGot(got), fmtVal(out.val)), fmtVal(out.val), fmtGot(got))
				}
			default:
				return fail("harness", where+": unexpected outcome "+o.Kind+": "+o.Text, nil, nil)
			}
			if !out.noLog {
				lo := jsx.RunString(w.vm, "L.map(enc)")
				if lo.Kind != "value" {
					return fail("harness", where+": cannot read callback log: "+lo.Text, nil, nil)
				}
				got, _ := lo.Value.Export().([]interface{})
				okLog := len(got) == len(out.log)
				for k := 0; okLog && k < len(got); k++ {
					okLog = w.matches(m, out.log[k], got[k])
				}
				if !okLog {
					var e []string
					for _, v := range out.log {
						e = append(e, fmtVal(v))
					}
					return fail(name+":calls"+flags, fmt.Sprintf("%s\ncallback saw %s, specification: [%s]", where, fmtGot(got), strings.Join(e, ",")), e, fmtGot(got))
				}
			}
		}
		// registries in step
		ro := jsx.RunString(w.vm, "[B.length,V.length]")
		if ro.Kind != "value" {
			return fail("harness", where+": registry read failed", nil, nil)
		}
		if r, _ := ro.Value.Export().([]interface{}); len(r) != 2 || fmtGot(r[0]) != strconv.Itoa(len(m.bufs)) || fmtGot(r[1]) != strconv.Itoa(len(m.views)) {
			return fail(name+":registry"+flags, fmt.Sprintf("%s\nscript holds %s buffers/views, model %d/%d", where, fmtGot(ro.Value.Export()), len(m.bufs), len(m.views)), nil, nil)
		}
		if f := w.checkMemory(m, func(aspect, msg string, e, g interface{}) *evid.Failure {
			return fail(name+":"+aspect+flags, where+"\n"+msg, e, g)
		}); f != nil {
			return f
		}
		if m.taint {
			// checkMemory found a NaN slot of this step partially overwritten (e.g. a callback poked a byte of
			// a NaN that the same operation had just stored): the other bytes of that slot are implementation-
			// chosen, the model cannot be re-synchronised, so the history ends here. Continuing would report
			// the stale difference at a later, innocent step (false alarm seen in the first thorough run).
			evid.Excluded("nan-encoding-partially-overwritten")
			return nil
		}
	}
	return nil
}

func firstLines(s string, n int) string {
	l := strings.Split(s, "\n")
	var keep []string
	for _, x := range l {
		if strings.Contains(x, "goja") && !strings.Contains(x, "verifh") {
			keep = append(keep, strings.TrimSpace(x))
			if len(keep) >= n {
				break
			}
		}
	}
	return strings.Join(keep, "\n")
}

type failFn func(aspect, msg string, exp, got interface{}) *evid.Failure

// checkMemory: every byte of every buffer == model (adopting engine-chosen NaN encodings),
// all canaries intact, Go handles alias the slab windows.
func (w *world) checkMemory(m *model, fail failFn) *evid.Failure {
	// canaries first: a write outside a buffer is the most important finding
	for k, s := range w.slabs {
		for i := range s {
			if i >= slabGap && i < slabGap+w.sizes[k] {
				continue
			}
			if s[i] != canary(k, i) {
				return fail("canary", fmt.Sprintf("byte at offset %+d relative to the start of Go-supplied buffer B[%d] (length %d) was overwritten: %#02x -> %#02x — memory outside the buffer",
					i-slabGap, k, w.sizes[k], canary(k, i), s[i]), nil, nil)
			}
		}
	}
	acts := make([][]byte, len(m.bufs))
	for i, mb := range m.bufs {
		var act []byte
		if mb.slab {
			act = w.slabs[i][slabGap : slabGap+w.sizes[i]]
			hb := w.hand[i].Bytes()
			if mb.detached {
				if hb != nil || !w.hand[i].Detached() {
					return fail("alias", fmt.Sprintf("B[%d] is detached in the model but ArrayBuffer.Bytes() is non-nil / Detached() false", i), nil, nil)
				}
			} else {
				if w.hand[i].Detached() {
					return fail("alias", fmt.Sprintf("B[%d] reports Detached() but nothing detached it", i), nil, nil)
				}
				if len(hb) != w.sizes[i] || (len(hb) > 0 && &hb[0] != &act[0]) {
					return fail("alias", fmt.Sprintf("ArrayBuffer.Bytes() of B[%d] no longer aliases the supplied slice (len %d, want %d)", i, len(hb), w.sizes[i]), nil, nil)
				}
			}
		} else {
			b, ok := w.bytesOf(i)
			if !ok {
				return fail("registry", fmt.Sprintf("B[%d] is not an ArrayBuffer", i), nil, nil)
			}
			if len(b) != len(mb.data) {
				return fail("bytes", fmt.Sprintf("engine-allocated B[%d] has %d bytes, specification: %d", i, len(b), len(mb.data)), len(mb.data), len(b))
			}
			act = b
		}
		acts[i] = act
	}
	for gi, g := range m.groups {
		if g.buf >= len(m.bufs) {
			continue // buffer of an object that became unreachable when the operation threw
		}
		mb := m.bufs[g.buf]
		id := int32(gi + 1)
		cnt := 0
		for i := g.off; i < g.off+g.size; i++ {
			if mb.nan[i] == id {
				cnt++
			}
		}
		if cnt == 0 {
			continue // completely overwritten later in the step
		}
		if cnt != g.size {
			m.taint = true // partially overwritten NaN encoding: the remaining bytes are not determined
			continue
		}
		a := acts[g.buf][g.off : g.off+g.size]
		raw := a
		if g.be {
			a = rev(a)
		}
		isNaN := false
		if g.size == 4 {
			u := uint32(unle(a))
			isNaN = u&0x7f800000 == 0x7f800000 && u&0x7fffff != 0
		} else {
			u := unle(a)
			isNaN = u&0x7ff0000000000000 == 0x7ff0000000000000 && u&0xfffffffffffff != 0
		}
		if !isNaN {
			return fail("bytes", fmt.Sprintf("B[%d] bytes %d..%d hold %x, specification: a NaN encoding", g.buf, g.off, g.off+g.size-1, a), "NaN", hexOf(a))
		}
		copy(mb.data[g.off:], raw)
	}
	if m.taint {
		return nil
	}
	for i, mb := range m.bufs {
		act := acts[i]
		for j := range mb.data {
			if act[j] != mb.data[j] {
				return fail("bytes", fmt.Sprintf("B[%d] (detached=%v) differs at byte %d: engine %s, specification %s", i, mb.detached, j, hexOf(act), hexOf(mb.data)), hexOf(mb.data), hexOf(act))
			}
		}
	}
	return nil
}

// goStep performs a Go-side operation (embedding API) and judges it.
func (w *world) goStep(m *model, op *Op, out *outcome, fail failFn) (f *evid.Failure) {
	switch op.Op {
	case "godetach":
		was := w.det[op.B]
		r := w.hand[op.B].Detach()
		w.det[op.B] = true
		if r == was {
			return fail("result", fmt.Sprintf("ArrayBuffer.Detach() returned %v for a buffer that was detached=%v", r, was), !was, r)
		}
		return nil
	case "gopoke":
		if !w.det[op.B] && op.Off < w.sizes[op.B] {
			w.slabs[op.B][slabGap+op.Off] = byte(op.Byte)
		}
		return nil
	}
	// exports
	var target string
	if op.V >= 0 {
		target = vref(op.V)
	} else {
		target = bref(op.B)
	}
	tv := jsx.RunString(w.vm, target)
	if tv.Kind != "value" {
		return fail("harness", "cannot fetch "+target, nil, nil)
	}
	exp := out.val // kind 'x': id = buffer (or -1 detached), r = byte offset, w = byte length
	var base unsafe.Pointer
	if exp.id >= 0 && exp.w > 0 {
		if m.bufs[exp.id].slab {
			base = unsafe.Pointer(&w.slabs[exp.id][slabGap+exp.r])
		} else {
			b, _ := w.bytesOf(exp.id)
			if len(b) < exp.r+exp.w {
				return fail("bytes", "engine buffer shorter than the view the model expects", nil, nil)
			}
			base = unsafe.Pointer(&b[exp.r])
		}
	}
	var got interface{}
	var gerr error
	var excPanic bool
	pan := func() (p interface{}) {
		defer func() {
			p = recover()
		}()
		if op.Op == "goexportto" {
			var bs []byte
			gerr = w.vm.ExportTo(tv.Value, &bs)
			got = bs
		} else {
			got = tv.Value.Export()
		}
		return nil
	}()
	if pan != nil {
		if _, ok := pan.(*goja.Exception); ok {
			excPanic = true
		} else {
			return fail("panic", fmt.Sprintf("%s of %s: Go panic: %v", op.Op, target, pan), "no Go panic", fmt.Sprint(pan))
		}
	}
	if ab, ok := got.(goja.ArrayBuffer); ok {
		got = ab.Bytes()
	}
	if exp.id < 0 {
		// detached: an error / exception / empty slice are all acceptable; a non-empty slice is dangling
		if excPanic || gerr != nil || got == nil {
			return nil
		}
		rv := reflect.ValueOf(got)
		if rv.Kind() == reflect.Slice && rv.Len() > 0 {
			return fail("dangling", fmt.Sprintf("%s of %s (buffer detached) returned a %d-element %T at %#x — there is no buffer it could alias", op.Op, target, rv.Len(), got, rv.Pointer()), "empty / error", rv.Len())
		}
		return nil
	}
	if excPanic || gerr != nil {
		return fail("throw", fmt.Sprintf("%s of live %s failed: %v", op.Op, target, gerr), nil, nil)
	}
	rv := reflect.ValueOf(got)
	if rv.Kind() != reflect.Slice {
		if op.V >= 0 && m.views[op.V].dv && op.Op == "goexport" {
			return nil // Export() of a DataView is not documented to give a slice
		}
		return fail("result", fmt.Sprintf("%s of %s returned %T, not a slice", op.Op, target, got), nil, nil)
	}
	wantLen := exp.w
	if op.Op == "goexport" && op.V >= 0 {
		v := m.views[op.V]
		wantLen = v.n
		if int(rv.Type().Elem().Size()) != v.size() {
			return fail("result", fmt.Sprintf("Export() of %s returned %T (element size %d), element size of the view is %d", target, got, rv.Type().Elem().Size(), v.size()), nil, nil)
		}
	}
	if rv.Len() != wantLen {
		return fail("alias", fmt.Sprintf("%s of %s has %d elements, the view/buffer has %d", op.Op, target, rv.Len(), wantLen), wantLen, rv.Len())
	}
	if wantLen > 0 && unsafe.Pointer(rv.Pointer()) != base {
		return fail("alias", fmt.Sprintf("%s of %s does not alias the buffer bytes (documented: no copy)", op.Op, target), nil, nil)
	}
	if op.Op == "goexportto" && exp.w > 0 {
		bs := got.([]byte)
		bs[op.Off%exp.w] = byte(op.Byte) // Go write through the exported slice; the model did the same
	}
	return nil
}

// ---------------------------------------------------------------- tests

func TestStringToBigInt(t *testing.T) {
	for k, want := range bigStrings {
		n, ok := stringToBigInt(k)
		if want == "!" {
			if ok {
				t.Errorf("stringToBigInt(%q) = %v, want SyntaxError", k, n)
			}
			continue
		}
		if !ok || n.String() != want {
			t.Errorf("stringToBigInt(%q) = %v,%v want %s", k, n, ok, want)
		}
	}
}

func TestF32Rounding(t *testing.T) {
	// the hand-written binary32 rounding must agree with the language conversion (both are IEEE exact)
	rapid.Check(t, func(t *rapid.T) {
		f := math.Float64frombits(rapid.Uint64().Draw(t, "bits"))
		if rapid.Bool().Draw(t, "near32") {
			f = float64(math.Float32frombits(rapid.Uint32().Draw(t, "b32")))
			f = math.Float64frombits(math.Float64bits(f) + uint64(rapid.IntRange(-3, 3).Draw(t, "d")) + uint64(rapid.SampledFrom([]uint64{0, 1 << 28, 1<<28 - 1, 1<<28 + 1}).Draw(t, "h")))
		}
		want := math.Float32bits(float32(f))
		got := toF32Bits(f)
		if math.IsNaN(f) {
			if got&0x7f800000 != 0x7f800000 || got&0x7fffff == 0 {
				t.Fatalf("NaN -> %#x", got)
			}
			return
		}
		if got != want {
			t.Fatalf("toF32Bits(%v)=%#x want %#x", f, got, want)
		}
		if back := f32BitsToF64(got); back != float64(math.Float32frombits(got)) {
			t.Fatalf("f32BitsToF64(%#x)=%v", got, back)
		}
	})
}

var survey = map[string]string{}
var surveyN = map[string]int{}

func TestQuickHist(t *testing.T) {
	sv := os.Getenv("C17_SURVEY") != ""
	evid.Check(t, "hist", 40000, 4, func(t *rapid.T) {
		c := genCase(t)
		f := judge(c)
		if sv && f != nil {
			if _, ok := survey[f.Key]; !ok || len(f.Msg) < len(survey[f.Key]) {
				survey[f.Key] = f.Msg
			}
			surveyN[f.Key]++
			return
		}
		evid.Judge(t, f)
	})
	if sv {
		keys := make([]string, 0, len(survey))
		for k := range survey {
			keys = append(keys, k)
		}
		sort.Strings(keys)
		for _, k := range keys {
			fmt.Printf("SURVEY %4d %s\n      %s\n", surveyN[k], k, strings.ReplaceAll(survey[k], "\n", "\n      "))
		}
	}
}

// TestQuickFocus: short histories over one buffer with several valid views and bulk operations
// between them (overlapping set / slice / map into same-buffer species results, copyWithin, fill, sort).
func TestQuickFocus(t *testing.T) {
	evid.Check(t, "focus", 20000, 4, func(t *rapid.T) {
		c := genCaseMode(t, true)
		f := judge(c)
		if f != nil {
			f.Check = "focus"
		}
		evid.Judge(t, f)
	})
}

func TestReplay(t *testing.T) {
	p := os.Getenv("VERIF_REPLAY")
	if p == "" {
		t.Skip("no VERIF_REPLAY")
	}
	check, raw, err := evid.LoadReplay(p)
	if err != nil {
		t.Fatal(err)
	}
	switch check {
	case "hist", "focus":
		var c Case
		if err := json.Unmarshal(raw, &c); err != nil {
			t.Fatal(err)
		}
		evid.Direct(t, judge(&c))
	default:
		t.Fatalf("unknown check %q", check)
	}
}
