// Package c16 checks property C16: a compiled Program and primitive Values can
// be shared by Runtimes running on different goroutines - no data race (the Go
// race detector is the oracle for that part: build with -race) and every run
// observes exactly what an isolated sequential run observes; Objects are
// rejected when handed to a different Runtime.
package c16

import (
	"encoding/json"
	"flag"
	"fmt"
	"os"
	"runtime"
	"strings"
	"sync"
	"sync/atomic"
	"testing"
	"time"

	"github.com/dop251/goja"
	"pgregory.net/rapid"

	"verifh/internal/evid"
	"verifh/internal/jsgen"
	"verifh/internal/jsx"
)

func TestMain(m *testing.M) {
	ensureRaceLog()
	evid.Main("C16", m)
}

// ---------------------------------------------------------------------------
// race reports -> failures

var (
	pendMu  sync.Mutex
	pending []*evid.Failure
)

// collectRaces attributes the detector's new reports to the case that just ran.
// Race failures bypass rapid's shrinking (a given race is reported once per
// process, so a re-run cannot reproduce it): they are queued and flushed with
// evid.Direct after the rapid loop, each with its own replay file.
func collectRaces(check string, c interface{}) int {
	reps := newRaceReports()
	for _, r := range reps {
		evid.Count("race-report")
		pendMu.Lock()
		pending = append(pending, &evid.Failure{Check: check, Key: r.Key, Msg: "the race detector reported a data race while this case ran:\n" + clip(r.Text, 6000), Case: c})
		pendMu.Unlock()
	}
	return len(reps)
}

func flushPending(t *testing.T) {
	pendMu.Lock()
	ps := pending
	pending = nil
	pendMu.Unlock()
	seen := map[string]bool{}
	for _, f := range ps {
		if seen[f.Key] {
			continue
		}
		seen[f.Key] = true
		evid.Direct(t, f)
	}
}

func clip(s string, n int) string {
	if len(s) > n {
		return s[:n] + "\n…"
	}
	return s
}

// ---------------------------------------------------------------------------
// Domain A: one Program, many runtimes

// ProgCase is a program with the way it is compiled and shared.
type ProgCase struct {
	Src       string   `json:"src"`
	Strict    bool     `json:"strict"`
	Mode      string   `json:"mode"`       // compile | mustcompile | ast
	N         int      `json:"n"`          // goroutines
	M         int      `json:"m"`          // runs per goroutine
	Reuse     bool     `json:"reuse"`      // the m runs of a goroutine use one runtime (else a fresh one each)
	WarmFirst bool     `json:"warm_first"` // reference run uses the shared Program itself (else a separately compiled twin, so lazily built parts of the Program are first touched concurrently)
	Frags     []string `json:"frags,omitempty"`
}

const seqLimit = 1500 * time.Millisecond
const seqSlow = 500 * time.Millisecond
const concLimit = 25 * time.Second

func compileCase(c *ProgCase) (p *goja.Program, o jsx.Outcome) {
	o = jsx.Protect(func() (goja.Value, error) {
		var err error
		switch c.Mode {
		case "mustcompile":
			func() {
				defer func() {
					if x := recover(); x != nil {
						if e, ok := x.(error); ok {
							err = e
							return
						}
						panic(x)
					}
				}()
				p = goja.MustCompile("case.js", c.Src, c.Strict)
			}()
		case "ast":
			ast, perr := goja.Parse("case.js", c.Src)
			if perr != nil {
				return nil, perr
			}
			p, err = goja.CompileAST(ast, c.Strict)
		default:
			p, err = goja.Compile("case.js", c.Src, c.Strict)
		}
		return nil, err
	})
	return
}

// runSeries performs the m runs of one goroutine (or of the sequential
// reference) and returns the m observations.
func runSeries(p *goja.Program, m int, reuse bool, slot *atomic.Pointer[goja.Runtime], limit time.Duration, barrier func()) (obs []string, interrupted bool, slowest time.Duration, spans [][2]time.Time) {
	var r *rt
	for i := 0; i < m; i++ {
		if i == 0 && barrier != nil {
			// the first runtime is made before the barrier so that the first runs of all goroutines start together
			var err error
			if r, err = newRT(); err != nil {
				return append(obs, "harness: "+err.Error()), false, slowest, spans
			}
			slot.Store(r.vm)
			barrier()
		} else if r == nil || !reuse {
			var err error
			if r, err = newRT(); err != nil {
				return append(obs, "harness: "+err.Error()), false, slowest, spans
			}
			if slot != nil {
				slot.Store(r.vm)
			}
		}
		var o jsx.Outcome
		t0 := time.Now()
		if limit > 0 {
			var intr bool
			var took time.Duration
			o, intr, took = runWatched(r.vm, limit, func() (goja.Value, error) { return r.vm.RunProgram(p) })
			if took > slowest {
				slowest = took
			}
			if intr {
				return obs, true, slowest, spans
			}
		} else {
			o = jsx.RunProgram(r.vm, p)
			if o.Kind == "interrupted" {
				return obs, true, slowest, spans
			}
		}
		spans = append(spans, [2]time.Time{t0, time.Now()})
		obs = append(obs, r.observe(o))
	}
	return obs, false, slowest, spans
}

type progStats struct {
	compiled   bool
	excluded   string
	refKinds   []string
	overlapped int // goroutines whose run intervals intersected another goroutine's
	seqKind    string
}

var refInstr = map[string]string{
	"*goja.newRegexp":           "regexp",
	"*goja.getTaggedTmplObject": "template",
	"*goja.newClass":            "class",
	"*goja.newDerivedClass":     "class",
	"*goja.newStaticFieldInit":  "class",
	"*goja.enterBlock":          "scope",
	"*goja.enterFunc":           "scope",
	"*goja.enterFuncBody":       "scope",
	"*goja.enterCatchBlock":     "scope",
}

func refKindsOf(p *goja.Program, src string) []string {
	set := map[string]bool{}
	privates := false
	for _, ty := range goja.VerifDumpTypes(p) {
		if k, ok := refInstr[ty]; ok {
			set[k] = true
		}
		if strings.Contains(ty, "Private") {
			privates = true
		}
	}
	if privates {
		set["private"] = true
	}
	if set["scope"] && (strings.Contains(src, "eval(") || strings.Contains(src, "with (")) {
		set["dynscope"] = true
	}
	delete(set, "scope")
	var out []string
	for _, k := range []string{"regexp", "template", "class", "private", "dynscope"} {
		if set[k] {
			out = append(out, k)
		}
	}
	return out
}

func progFail(c *ProgCase, key, msg string, exp, got interface{}) *evid.Failure {
	return &evid.Failure{Check: "programs", Key: key, Msg: msg, Case: c, Expected: exp, Observed: got}
}

func firstDiff(a, b string) string {
	la, lb := strings.Split(a, "\n"), strings.Split(b, "\n")
	for i := 0; i < len(la) || i < len(lb); i++ {
		x, y := "<missing>", "<missing>"
		if i < len(la) {
			x = la[i]
		}
		if i < len(lb) {
			y = lb[i]
		}
		if x != y {
			return fmt.Sprintf("line %d: expected %s | observed %s", i, clip(x, 300), clip(y, 300))
		}
	}
	return "equal"
}

// diffKey classifies a mismatch by the first differing observation line
// (completion line, a tracked global, or a log entry) - stable and short.
func diffKey(a, b string) string {
	la, lb := strings.Split(a, "\n"), strings.Split(b, "\n")
	for i := 0; i < len(la) || i < len(lb); i++ {
		x, y := "", ""
		if i < len(la) {
			x = la[i]
		}
		if i < len(lb) {
			y = lb[i]
		}
		if x != y {
			if i == 0 {
				kx, _, _ := strings.Cut(x, " ")
				ky, _, _ := strings.Cut(y, " ")
				return "completion:" + kx + "->" + ky
			}
			n, _, found := strings.Cut(x, "=")
			if !found {
				n, _, found = strings.Cut(y, "=")
			}
			if !found || len(n) > 8 || strings.ContainsAny(n, " \t(") {
				return "completion:detail" // continuation line of a multi-line completion description (stack trace)
			}
			if strings.HasPrefix(n, "log") {
				n = "log"
			}
			return "state:" + n
		}
	}
	return "none"
}

func judgeProg(c *ProgCase) (*evid.Failure, progStats) {
	var st progStats
	prg, co := compileCase(c)
	if co.Kind == "panic" {
		st.excluded = "compile-panic(C01)"
		return nil, st
	}
	if co.Kind != "value" || prg == nil {
		st.excluded = "compile-error"
		return nil, st
	}
	st.compiled = true
	st.refKinds = refKindsOf(prg, c.Src)

	// reference: isolated sequential run(s) on a fresh runtime
	refPrg := prg
	if !c.WarmFirst {
		twin, to := compileCase(c)
		if to.Kind != "value" || twin == nil {
			return progFail(c, "compile-nondeterministic", "the same source compiled once and failed to compile the second time: "+to.Text, nil, nil), st
		}
		refPrg = twin
	}
	ref, intr, slowest, _ := runSeries(refPrg, c.M, c.Reuse, nil, seqLimit, nil)
	if intr {
		st.excluded = "seq-interrupted"
		return nil, st
	}
	if slowest > seqSlow {
		st.excluded = "seq-slow"
		return nil, st
	}
	for _, o := range ref {
		if strings.HasPrefix(o, "panic") || strings.HasPrefix(o, "harness") {
			st.excluded = "seq-panic(C01)"
			return nil, st
		}
	}
	st.seqKind, _, _ = strings.Cut(ref[0], " ")
	st.seqKind, _, _ = strings.Cut(st.seqKind, "\n")

	// concurrent phase: n goroutines, each with its own runtime(s), released together;
	// nothing is shared between them except the Program (and envPrg) - in particular no
	// harness synchronisation, which would hide races from the happens-before detector.
	type gres struct {
		obs   []string
		intr  bool
		panic string
		spans [][2]time.Time
	}
	res := make([]gres, c.N)
	slots := make([]atomic.Pointer[goja.Runtime], c.N)
	start := make(chan struct{})
	var ready int32
	var wg sync.WaitGroup
	for g := 0; g < c.N; g++ {
		wg.Add(1)
		go func(g int) {
			defer wg.Done()
			defer func() {
				if x := recover(); x != nil {
					res[g].panic = fmt.Sprint(x)
				}
			}()
			res[g].obs, res[g].intr, _, res[g].spans = runSeries(prg, c.M, c.Reuse, &slots[g], 0, func() {
				// all synchronisation happens here, before the first use of the shared Program
				<-start
				atomic.AddInt32(&ready, 1)
				for spin := 0; spin < 200000 && atomic.LoadInt32(&ready) < int32(c.N); spin++ {
					runtime.Gosched()
				}
			})
		}(g)
	}
	done := make(chan struct{})
	go func() { wg.Wait(); close(done) }()
	close(start)
	timedOut := false
	select {
	case <-done:
	case <-time.After(concLimit):
		timedOut = true
	wait:
		for {
			for g := range slots {
				if vm := slots[g].Load(); vm != nil {
					vm.Interrupt("watchdog")
				}
			}
			select {
			case <-done:
				break wait
			case <-time.After(50 * time.Millisecond):
			}
		}
	}
	if timedOut {
		st.excluded = "conc-timeout"
		return nil, st
	}
	// overlap (evidence only): count goroutines with a run interval intersecting another goroutine's
	for g := range res {
		ov := false
		for h := range res {
			if h == g || ov {
				continue
			}
			for _, a := range res[g].spans {
				for _, b := range res[h].spans {
					if a[0].Before(b[1]) && b[0].Before(a[1]) {
						ov = true
					}
				}
			}
		}
		if ov {
			st.overlapped++
		}
	}
	for g := range res {
		if res[g].panic != "" {
			return progFail(c, "goroutine-panic", fmt.Sprintf("goroutine %d of %d panicked outside RunProgram: %s", g, c.N, res[g].panic), nil, res[g].panic), st
		}
		if res[g].intr {
			st.excluded = "conc-interrupted"
			return nil, st
		}
		if len(res[g].obs) != len(ref) {
			return progFail(c, "runs", fmt.Sprintf("goroutine %d produced %d observations, the sequential reference %d", g, len(res[g].obs), len(ref)), ref, res[g].obs), st
		}
		for i := range ref {
			if res[g].obs[i] != ref[i] {
				// is the program deterministic at all? run a fresh twin sequentially once more
				twin, to := compileCase(c)
				if to.Kind == "value" && twin != nil {
					again, aintr, _, _ := runSeries(twin, c.M, c.Reuse, nil, seqLimit, nil)
					if aintr {
						st.excluded = "seq-interrupted"
						return nil, st
					}
					for j := range again {
						if j < len(ref) && again[j] != ref[j] {
							// two isolated sequential runs of the same source differ: the program is not
							// deterministic, so it is outside the domain of the comparison (counted)
							st.excluded = "nondeterministic-program"
							return nil, st
						}
					}
				}
				return progFail(c, "mismatch:"+diffKey(ref[i], res[g].obs[i]),
					fmt.Sprintf("goroutine %d/%d, run %d/%d observed something different from the isolated sequential run of the same program: %s", g, c.N, i, c.M, firstDiff(ref[i], res[g].obs[i])),
					ref[i], res[g].obs[i]), st
			}
		}
	}
	// the shared Program must be unchanged afterwards: one more isolated run
	after, aintr, _, _ := runSeries(prg, c.M, c.Reuse, nil, seqLimit, nil)
	if !aintr {
		for i := range after {
			if i < len(ref) && after[i] != ref[i] {
				return progFail(c, "after:"+diffKey(ref[i], after[i]), "a sequential run of the shared Program after the concurrent phase differs from the isolated reference: "+firstDiff(ref[i], after[i]), ref[i], after[i]), st
			}
		}
	}
	return nil, st
}

var bigLits = strings.NewReplacer("2147483647", "65537", "4294967296", "65536", "9007199254740993", "65535", "123456789012345678901234567890n", "1234567n", "1e3", "1e2", "1_000", "1_00")

func genProg(t *rapid.T) *ProgCase {
	c := &ProgCase{}
	c.N = rapid.SampledFrom([]int{2, 2, 2, 4, 4, 4, 8, 8, 16}).Draw(t, "n")
	c.M = rapid.SampledFrom([]int{1, 1, 2, 2, 3, 3, 5, 8, 20}).Draw(t, "m")
	if c.N*c.M > 64 {
		c.M = 64 / c.N
	}
	c.Reuse = rapid.IntRange(0, 2).Draw(t, "reuse") == 0
	c.WarmFirst = rapid.IntRange(0, 2).Draw(t, "warm") == 0
	c.Mode = rapid.SampledFrom([]string{"compile", "compile", "mustcompile", "ast"}).Draw(t, "mode")
	shape := rapid.IntRange(0, 5).Draw(t, "shape") // 0: fragments only, 1: generated only, else both
	var pre, post []string
	sloppy := false
	if shape != 1 {
		k := rapid.IntRange(1, 4).Draw(t, "nfrag")
		for i := 0; i < k; i++ {
			f := frags[rapid.IntRange(0, len(frags)-1).Draw(t, "frag")]
			txt := f.gen(t)
			if strings.HasPrefix(txt, "(function") {
				txt = "try { " + txt + " } catch (__e) { __log.push(\"fragment threw\", __e && __e.name); }"
			}
			c.Frags = append(c.Frags, f.name)
			if f.sloppy {
				sloppy = true
			}
			if f.sloppy || rapid.Bool().Draw(t, "before") {
				pre = append(pre, txt)
			} else {
				post = append(post, txt)
			}
		}
	}
	gen := ""
	if shape != 0 {
		// G-syntax programs are well-formed modulo early errors; a program that does not compile
		// says nothing about sharing, so up to 4 candidates are drawn until one compiles
		for try := 0; try < 4; try++ {
			gen = bigLits.Replace(jsgen.GenProgram(t, &jsgen.SynOpts{
				MaxDepth: rapid.IntRange(2, 4).Draw(t, "depth"), MaxStmts: 5, Bias: "refdata",
				NoAsync: rapid.IntRange(0, 3).Draw(t, "async") != 0,
			}))
			ok := false
			func() {
				defer func() { recover() }()
				_, err := goja.Compile("gen.js", gen, false)
				ok = err == nil
			}()
			if ok {
				break
			}
			evid.Count("A:gen-retry")
		}
	}
	if !sloppy {
		c.Strict = rapid.IntRange(0, 4).Draw(t, "strict") == 0
	}
	c.Src = strings.Join(pre, "\n") + "\n" + gen + "\n" + strings.Join(post, "\n") + "\n"
	return c
}

func recordProg(c *ProgCase, st progStats) {
	nontrivial := st.compiled && st.excluded == "" && len(st.refKinds) > 0 && st.overlapped >= 2
	evid.Case(fmt.Sprintf("A|%s|%v|%d|%d|%v|%v|%s", c.Mode, c.Strict, c.N, c.M, c.Reuse, c.WarmFirst, c.Src), nontrivial)
	if st.excluded != "" {
		evid.Excluded("programs:" + st.excluded)
		return
	}
	evid.Count(fmt.Sprintf("A:n=%d", c.N))
	evid.Count("A:mode=" + c.Mode)
	evid.Count("A:seq=" + st.seqKind)
	if c.Reuse {
		evid.Count("A:reuse-runtime")
	}
	if c.WarmFirst {
		evid.Count("A:warm-first")
	}
	for _, k := range st.refKinds {
		evid.Count("A:ref=" + k)
	}
	if len(st.refKinds) == 0 {
		evid.Count("A:ref=none")
	}
	for _, f := range c.Frags {
		evid.Count("A:frag=" + f)
	}
	if st.overlapped >= 2 {
		evid.Count("A:overlapped")
	} else {
		evid.Count("A:not-overlapped")
	}
	evid.Sample("programs", map[string]interface{}{"mode": c.Mode, "n": c.N, "m": c.M, "reuse": c.Reuse, "warm_first": c.WarmFirst, "src": clip(c.Src, 600)})
}

func TestQuickPrograms(t *testing.T) {
	flag.Set("rapid.shrinktime", "8s") // concurrency failures are schedule dependent: shrinking is of little use
	evid.Check(t, "programs", 500, 1, func(t *rapid.T) {
		c := genProg(t)
		evid.SetCurrent("programs", c)
		f, st := judgeProg(c)
		evid.ClearCurrent()
		recordProg(c, st)
		collectRaces("programs", c)
		evid.Judge(t, f)
	})
	flushPending(t)
}

// ---------------------------------------------------------------------------

const replayRounds = 20

func TestReplay(t *testing.T) {
	p := os.Getenv("VERIF_REPLAY")
	if p == "" {
		t.Skip("no VERIF_REPLAY")
	}
	replayFile(t, p, replayRounds)
}

// TestQuickRegress re-runs the kept regression cases (minimised findings of earlier runs).
func TestQuickRegress(t *testing.T) {
	if evid.Shard() != 0 {
		return
	}
	dir := evid.VerifDir() + "/replay/C16/keep"
	ents, _ := os.ReadDir(dir)
	for _, e := range ents {
		if strings.HasSuffix(e.Name(), ".json") {
			evid.Count("regress-file")
			replayFile(t, dir+"/"+e.Name(), 3)
		}
	}
}

func replayFile(t *testing.T, p string, rounds int) {
	check, raw, err := evid.LoadReplay(p)
	if err != nil {
		t.Fatal(err)
	}
	// a race needs a schedule: re-run the saved case several times
	for round := 0; round < rounds; round++ {
		var f *evid.Failure
		var c interface{}
		switch check {
		case "programs":
			var pc ProgCase
			if err := json.Unmarshal(raw, &pc); err != nil {
				t.Fatal(err)
			}
			f, _ = judgeProg(&pc)
			c = &pc
		case "prims":
			var pc PrimCase
			if err := json.Unmarshal(raw, &pc); err != nil {
				t.Fatal(err)
			}
			f, _ = judgePrim(&pc)
			c = &pc
		case "xrt":
			var xc XrtCase
			if err := json.Unmarshal(raw, &xc); err != nil {
				t.Fatal(err)
			}
			f = judgeXrt(&xc)
			c = &xc
		default:
			t.Fatalf("unknown check %q in replay file", check)
		}
		n := collectRaces(check, c)
		if f != nil {
			evid.Direct(t, f)
			return
		}
		if n > 0 {
			flushPending(t)
			return
		}
	}
}
