package c16

import (
	"strings"
	"testing"

	"github.com/dop251/goja"
	"pgregory.net/rapid"
)

// TestFragSmoke (development aid, not part of the tiers): every fragment must
// compile and must reach its __log.push calls without throwing.
func TestFragSmoke(t *testing.T) {
	for _, f := range frags {
		f := f
		last := ""
		defer func() {
			if testing.Verbose() {
				t.Logf("%s:\n%s", f.name, last)
			}
		}()
		rapid.Check(t, func(rt *rapid.T) {
			src := f.gen(rt)
			p, err := goja.Compile("frag.js", src, false)
			if err != nil {
				rt.Fatalf("%s: %v\n%s", f.name, err, src)
			}
			r, err := newRT()
			if err != nil {
				rt.Fatal(err)
			}
			if _, err := r.vm.RunProgram(p); err != nil {
				rt.Fatalf("%s threw: %v\n%s", f.name, err, src)
			}
			st, _ := r.state(goja.Undefined())
			if !strings.Contains(st.String(), "log0=") {
				rt.Fatalf("%s logged nothing\n%s", f.name, src)
			}
			last = st.String()[strings.Index(st.String(), "log0="):]
		})
	}
}
