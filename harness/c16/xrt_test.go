package c16

import (
	"fmt"
	"strings"
	"testing"

	"github.com/dop251/goja"

	"verifh/internal/evid"
	"verifh/internal/jsx"
)

// ---------------------------------------------------------------------------
// Domain C: an Object of runtime A handed to runtime B.
//
// Documented: README "it's not possible to pass object values between
// runtimes"; the conversion entry point (Runtime.ToValue, used by Set, by the
// result/element conversion of wrapped Go values and by the Proxy / Promise /
// ArrayBuffer handles) rejects a foreign object with TypeError "Illegal runtime
// transition of ...". In goja's convention a thrown value surfaces as an error
// from methods that return one (Set) and as a panic carrying the thrown
// *Object / *Exception from those that do not (ToValue) - Runtime.Try turns that
// into an *Exception; script code in B sees an ordinary catchable TypeError.
// Asserted: rejection with that TypeError through every conversion route, B's
// binding untouched, both runtimes usable afterwards. NOT asserted (not
// documented): passing a foreign *Object directly as a goja.Value argument of a
// Callable, which involves no conversion.

type XrtCase struct {
	Obj   string `json:"obj"`   // how the object is made in runtime A
	Route string `json:"route"` // how it reaches runtime B
}

var xrtObjs = map[string]func(a *goja.Runtime) interface{}{
	"plain":      func(a *goja.Runtime) interface{} { return mustRun(a, "({p: 1})") },
	"array":      func(a *goja.Runtime) interface{} { return mustRun(a, "[1, 2, 3]") },
	"function":   func(a *goja.Runtime) interface{} { return mustRun(a, "(function f() { return 1; })") },
	"arrow":      func(a *goja.Runtime) interface{} { return mustRun(a, "(() => 1)") },
	"class":      func(a *goja.Runtime) interface{} { return mustRun(a, "(class K { #p = 1; })") },
	"regexp":     func(a *goja.Runtime) interface{} { return mustRun(a, "/a(?=b)/g") },
	"date":       func(a *goja.Runtime) interface{} { return mustRun(a, "new Date(0)") },
	"error":      func(a *goja.Runtime) interface{} { return mustRun(a, "new TypeError('x')") },
	"map":        func(a *goja.Runtime) interface{} { return mustRun(a, "new Map([[1, 2]])") },
	"typedarray": func(a *goja.Runtime) interface{} { return mustRun(a, "new Uint8Array(4)") },
	"jsproxy":    func(a *goja.Runtime) interface{} { return mustRun(a, "new Proxy({}, {})") },
	"jspromise":  func(a *goja.Runtime) interface{} { return mustRun(a, "Promise.resolve(1)") },
	"strobj":     func(a *goja.Runtime) interface{} { return mustRun(a, "new String('boxed string longer than 16')") },
	"symobj":     func(a *goja.Runtime) interface{} { return mustRun(a, "Object(Symbol('s'))") },
	"generator":  func(a *goja.Runtime) interface{} { return mustRun(a, "(function*() { yield 1; })()") },
	"arguments":  func(a *goja.Runtime) interface{} { return mustRun(a, "(function() { return arguments; })(1, 2)") },
	"bound":      func(a *goja.Runtime) interface{} { return mustRun(a, "(function() {}).bind(null)") },
	"global":     func(a *goja.Runtime) interface{} { return a.GlobalObject() },
	"newobject":  func(a *goja.Runtime) interface{} { return a.NewObject() },
	"newarray":   func(a *goja.Runtime) interface{} { return a.NewArray(1, "two") },
	"gostruct":   func(a *goja.Runtime) interface{} { return a.ToValue(&struct{ F int }{1}) },
	"gomap":      func(a *goja.Runtime) interface{} { return a.ToValue(map[string]interface{}{"k": 1}) },
	"goslice":    func(a *goja.Runtime) interface{} { return a.ToValue([]interface{}{1, 2}) },
	"gofunc":     func(a *goja.Runtime) interface{} { return a.ToValue(func(int) int { return 1 }) },
	"typeerror":  func(a *goja.Runtime) interface{} { return a.NewTypeError("made in A") },
	"h-proxy":    func(a *goja.Runtime) interface{} { return a.NewProxy(a.NewObject(), &goja.ProxyTrapConfig{}) },
	"h-promise":  func(a *goja.Runtime) interface{} { p, _, _ := a.NewPromise(); return p },
	"h-arraybuf": func(a *goja.Runtime) interface{} { return a.NewArrayBuffer(make([]byte, 8)) },
}

var xrtObjNames = sortedKeys(xrtObjs)

var xrtRoutes = []string{"set", "tovalue", "try-tovalue", "go-return", "go-return-value", "slice-elem", "map-elem", "struct-field", "call-arg", "new-arg", "object-set", "newarray", "define-accessor-result", "export-roundtrip"}

func sortedKeys(m map[string]func(a *goja.Runtime) interface{}) []string {
	var ks []string
	for k := range m {
		ks = append(ks, k)
	}
	for i := range ks {
		for j := i + 1; j < len(ks); j++ {
			if ks[j] < ks[i] {
				ks[i], ks[j] = ks[j], ks[i]
			}
		}
	}
	return ks
}

func mustRun(vm *goja.Runtime, src string) goja.Value {
	v, err := vm.RunString(src)
	if err != nil {
		panic("harness: " + err.Error())
	}
	return v
}

func xrtFail(c *XrtCase, key, msg string) *evid.Failure {
	return &evid.Failure{Check: "xrt", Key: key + ":" + c.Route, Msg: fmt.Sprintf("object %q of runtime A via route %q into runtime B: %s", c.Obj, c.Route, msg), Case: c}
}

// isTransitionError: err is a *goja.Exception whose value is a TypeError of
// runtime b with the documented message.
func isTransitionError(b *goja.Runtime, err error) (bool, string) {
	ex, ok := err.(*goja.Exception)
	if !ok {
		return false, fmt.Sprintf("error of type %T (%v), want *goja.Exception", err, err)
	}
	o, ok := ex.Value().(*goja.Object)
	if !ok {
		return false, "thrown value is not an object"
	}
	b.Set("__thrown", o) // must be an object of b itself, so this succeeds
	r, e := b.RunString("__thrown instanceof TypeError && String(__thrown.message)")
	if e != nil {
		return false, "thrown value is not usable in runtime B: " + e.Error()
	}
	if !strings.Contains(r.String(), "Illegal runtime transition") {
		return false, "thrown value is not the documented TypeError: " + r.String()
	}
	return true, ""
}

func judgeXrt(c *XrtCase) (fl *evid.Failure) {
	mk, ok := xrtObjs[c.Obj]
	if !ok {
		return xrtFail(c, "harness", "unknown object kind")
	}
	a, b := goja.New(), goja.New()
	var foreign interface{}
	if o := jsx.Protect(func() (goja.Value, error) { foreign = mk(a); return nil, nil }); o.Kind != "value" {
		return xrtFail(c, "harness", "cannot build object: "+o.Text)
	}
	_, isHandle := foreign.(goja.Value)
	isHandle = !isHandle // Proxy / *Promise / ArrayBuffer handles are not Values
	// script-level probe used by several routes: calls a Go function and reports what it saw
	probe := func(setup func(), script string) *evid.Failure {
		var err error
		var v goja.Value
		o := jsx.Protect(func() (goja.Value, error) {
			setup()
			v, err = b.RunString("var __r; try { __r = [\"accepted\", typeof (" + script + ")].join(); } catch (e) { __r = [e instanceof TypeError, String(e && e.message)].join(); } __r")
			return v, err
		})
		if o.Kind == "panic" {
			return xrtFail(c, "go-panic", fmt.Sprintf("Go panic %v\n%s", o.Panic, clip(o.Stack, 1500)))
		}
		if o.Kind != "value" {
			return xrtFail(c, "probe-error", o.Kind+" "+o.Text)
		}
		got := v.String()
		if !strings.HasPrefix(got, "true,") || !strings.Contains(got, "Illegal runtime transition") {
			return xrtFail(c, "accepted", "script in B observed "+got+" instead of a catchable TypeError(\"Illegal runtime transition…\")")
		}
		return nil
	}
	expectThrow := func(f func()) *evid.Failure {
		var err error
		o := jsx.Protect(func() (goja.Value, error) { err = b.Try(f); return nil, nil })
		if o.Kind == "panic" {
			return xrtFail(c, "go-panic", fmt.Sprintf("Go panic escaped Runtime.Try: %v", o.Panic))
		}
		if err == nil {
			return xrtFail(c, "accepted", "the conversion succeeded (no TypeError)")
		}
		if ok, why := isTransitionError(b, err); !ok {
			return xrtFail(c, "wrong-error", why)
		}
		return nil
	}
	switch c.Route {
	case "set":
		var err error
		o := jsx.Protect(func() (goja.Value, error) { err = b.Set("foreign", foreign); return nil, nil })
		if o.Kind == "panic" {
			return xrtFail(c, "go-panic", fmt.Sprintf("Runtime.Set panicked: %v", o.Panic))
		}
		if err == nil {
			return xrtFail(c, "accepted", "Runtime.Set returned nil")
		}
		if ok, why := isTransitionError(b, err); !ok {
			return xrtFail(c, "wrong-error", why)
		}
		if v := b.Get("foreign"); v != nil {
			return xrtFail(c, "binding-created", "Set failed but the global binding exists: "+v.String())
		}
	case "tovalue":
		// panics by design with the thrown value; must be *goja.Object (the TypeError) or *goja.Exception
		o := jsx.Protect(func() (goja.Value, error) { return b.ToValue(foreign), nil })
		if o.Kind != "panic" {
			return xrtFail(c, "accepted", "Runtime.ToValue returned normally")
		}
		switch p := o.Panic.(type) {
		case *goja.Object:
			b.Set("__thrown", p)
			r, e := b.RunString("__thrown instanceof TypeError && String(__thrown.message)")
			if e != nil || !strings.Contains(r.String(), "Illegal runtime transition") {
				return xrtFail(c, "wrong-error", fmt.Sprintf("ToValue panicked with an object that is not the documented TypeError of B (%v, %v)", r, e))
			}
		case *goja.Exception:
			if ok, why := isTransitionError(b, p); !ok {
				return xrtFail(c, "wrong-error", why)
			}
		default:
			return xrtFail(c, "go-panic", fmt.Sprintf("ToValue panicked with %T: %v", o.Panic, o.Panic))
		}
	case "try-tovalue":
		if f := expectThrow(func() { b.ToValue(foreign) }); f != nil {
			return f
		}
	case "go-return":
		if f := probe(func() { b.Set("get", func() interface{} { return foreign }) }, "get()"); f != nil {
			return f
		}
	case "go-return-value":
		if isHandle {
			return nil
		}
		// a native function that returns the foreign Value through the FunctionCall convention goes through no conversion: not asserted
		if f := probe(func() { b.Set("get", func() (interface{}, error) { return foreign, nil }) }, "get()"); f != nil {
			return f
		}
	case "slice-elem":
		if f := probe(func() { b.Set("sl", []interface{}{1, foreign}) }, "sl[1]"); f != nil {
			return f
		}
	case "map-elem":
		if f := probe(func() { b.Set("mp", map[string]interface{}{"k": foreign}) }, "mp.k"); f != nil {
			return f
		}
	case "struct-field":
		if f := probe(func() { b.Set("st", &struct{ F interface{} }{foreign}) }, "st.F"); f != nil {
			return f
		}
	case "call-arg":
		fn, _ := goja.AssertFunction(mustRun(b, "(function(x) { return typeof x; })"))
		if f := expectThrow(func() { fn(goja.Undefined(), b.ToValue(foreign)) }); f != nil {
			return f
		}
	case "new-arg":
		ctor := mustRun(b, "(function C(x) { this.x = x; })").(*goja.Object)
		if f := expectThrow(func() { b.New(ctor, b.ToValue(foreign)) }); f != nil {
			return f
		}
	case "object-set":
		obj := b.NewObject()
		var err error
		o := jsx.Protect(func() (goja.Value, error) { err = obj.Set("k", foreign); return nil, nil })
		if o.Kind == "panic" {
			return xrtFail(c, "go-panic", fmt.Sprintf("Object.Set panicked: %v", o.Panic))
		}
		if err == nil {
			return xrtFail(c, "accepted", "Object.Set returned nil")
		}
		if ok, why := isTransitionError(b, err); !ok {
			return xrtFail(c, "wrong-error", why)
		}
		if v := obj.Get("k"); v != nil {
			return xrtFail(c, "binding-created", "Object.Set failed but the property exists")
		}
	case "newarray":
		if f := expectThrow(func() { b.NewArray(1, foreign) }); f != nil {
			return f
		}
	case "define-accessor-result":
		if f := probe(func() {
			o := b.NewObject()
			o.DefineAccessorProperty("acc", b.ToValue(func() interface{} { return foreign }), nil, goja.FLAG_FALSE, goja.FLAG_TRUE)
			b.Set("ho", o)
		}, "ho.acc"); f != nil {
			return f
		}
	case "export-roundtrip":
		if isHandle {
			return nil
		}
		// Export() of most A-objects is plain Go data (map/slice/…): importing that into B is legal and must
		// not alias A's object; when Export() returns the *Object itself (functions…) the transition must be rejected.
		var exp interface{}
		if o := jsx.Protect(func() (goja.Value, error) { exp = foreign.(goja.Value).Export(); return nil, nil }); o.Kind != "value" {
			return nil
		}
		var err error
		o := jsx.Protect(func() (goja.Value, error) { err = b.Set("exp", exp); return nil, nil })
		if o.Kind == "panic" {
			return xrtFail(c, "go-panic", fmt.Sprintf("Set(exported value of type %T) panicked: %v", exp, o.Panic))
		}
		if err == nil {
			if v, ok := b.Get("exp").(*goja.Object); ok {
				if fo, ok2 := foreign.(*goja.Object); ok2 && v == fo {
					return xrtFail(c, "accepted", "the exported value re-imported into B is A's object itself")
				}
			}
		} else if ok, why := isTransitionError(b, err); !ok {
			return xrtFail(c, "wrong-error", why)
		}
	default:
		return xrtFail(c, "harness", "unknown route")
	}
	// both runtimes still work
	for name, vm := range map[string]*goja.Runtime{"A": a, "B": b} {
		o := jsx.RunString(vm, "[1, 2].map(function(v) { return v * 2; }).join()")
		if o.Kind != "value" || o.Value.String() != "2,4" {
			return xrtFail(c, "unusable", "runtime "+name+" unusable afterwards: "+o.Kind+" "+o.Text)
		}
	}
	return nil
}

// TestQuickXrt enumerates the whole (object kind x route) matrix; the matrix is
// split over the shards.
func TestQuickXrt(t *testing.T) {
	i := 0
	for _, obj := range xrtObjNames {
		for _, route := range xrtRoutes {
			i++
			if i%evid.NShards() != evid.Shard()%evid.NShards() {
				continue
			}
			c := &XrtCase{Obj: obj, Route: route}
			f := judgeXrt(c)
			evid.Case("C|"+c.Obj+"|"+c.Route, true)
			evid.Count("C:route=" + c.Route)
			evid.Sample("xrt", c)
			collectRaces("xrt", c)
			evid.Direct(t, f)
		}
	}
	flushPending(t)
}
