package c16

import (
	"flag"
	"fmt"
	"math"
	"math/big"
	"runtime"
	"strings"
	"sync"
	"sync/atomic"
	"testing"
	"time"

	"github.com/dop251/goja"
	"pgregory.net/rapid"

	"verifh/internal/evid"
	"verifh/internal/jsx"
)

// ---------------------------------------------------------------------------
// Domain B: primitive Values shared by concurrent runtimes.
//
// Documentation relied upon: Runtime.ToValue "Primitive types (numbers, string,
// bool) are converted to the corresponding JavaScript primitives. These values
// are goroutine-safe and can be transferred between runtimes." (runtime.go) and
// the String interface: "Instances of this type, as any other primitive values,
// are goroutine-safe and can be passed between runtimes." (string.go).

// ValSpec describes how one shared value is made (in a producer runtime vm0).
type ValSpec struct {
	Kind string   `json:"kind"` // gostr | concat | utf16 | jsonstr | jsstr | int | float | bool | undef | null | nan | newsym | wksym | jssym | bigint
	B    []byte   `json:"b,omitempty"`
	U    []uint16 `json:"u,omitempty"`
	I    int64    `json:"i,omitempty"`
	Bits uint64   `json:"bits,omitempty"`
	X    int      `json:"x,omitempty"` // operands of concat (indices of earlier values)
	Y2   int      `json:"y,omitempty"`
}

// PrimCase: the values, the JS operations applied by every goroutine, and the
// Go-side operations applied directly to the shared Value objects.
type PrimCase struct {
	Vals  []ValSpec `json:"vals"`
	Ops   []string  `json:"ops"`    // JS expressions over V0..Vk
	GoOps []GoOp    `json:"go_ops"` // Go API calls on the shared values
	N     int       `json:"n"`
}

type GoOp struct {
	Op string `json:"op"`
	V  int    `json:"v"`
	W2 int    `json:"w,omitempty"`
	I  int    `json:"i,omitempty"`
}

var wkSyms = []*goja.Symbol{goja.SymIterator, goja.SymToStringTag, goja.SymHasInstance, goja.SymToPrimitive, goja.SymSpecies, goja.SymUnscopables}

// buildVals makes the values from their specs with a producer runtime of its own.
func buildVals(specs []ValSpec) (vals []goja.Value, reprs []string, err error) {
	vm0 := goja.New()
	defer func() {
		if x := recover(); x != nil {
			err = fmt.Errorf("building values panicked: %v", x)
		}
	}()
	for i, s := range specs {
		var v goja.Value
		switch s.Kind {
		case "gostr":
			v = vm0.ToValue(string(s.B))
		case "concat":
			vm0.Set("A", vals[s.X])
			vm0.Set("B", vals[s.Y2])
			r, e := vm0.RunString("A + B")
			if e != nil {
				return nil, nil, e
			}
			v = r
		case "utf16":
			v = goja.StringFromUTF16(s.U)
		case "jsonstr":
			vm0.Set("A", string(s.B))
			r, e := vm0.RunString("JSON.stringify([A, {k: A}])")
			if e != nil {
				return nil, nil, e
			}
			v = r
		case "jsstr":
			vm0.Set("A", string(s.B))
			r, e := vm0.RunString("(A + '|').repeat(2).slice(1) + `${A.length}`")
			if e != nil {
				return nil, nil, e
			}
			v = r
		case "int":
			v = vm0.ToValue(s.I)
		case "float":
			v = vm0.ToValue(math.Float64frombits(s.Bits))
		case "bool":
			v = vm0.ToValue(s.I != 0)
		case "undef":
			v = goja.Undefined()
		case "null":
			v = goja.Null()
		case "nan":
			v = goja.NaN()
		case "newsym":
			v = goja.NewSymbol(string(s.B))
		case "wksym":
			v = wkSyms[int(s.I)%len(wkSyms)]
		case "jssym":
			vm0.Set("A", string(s.B))
			r, e := vm0.RunString(map[bool]string{true: "Symbol.for(A)", false: "Symbol(A)"}[s.I != 0])
			if e != nil {
				return nil, nil, e
			}
			v = r
		case "bigint":
			bi := new(big.Int).SetInt64(s.I)
			if len(s.B) > 0 {
				bi.SetBytes(s.B)
				if s.I < 0 {
					bi.Neg(bi)
				}
			}
			v = vm0.ToValue(bi)
		default:
			return nil, nil, fmt.Errorf("unknown value kind %q (#%d)", s.Kind, i)
		}
		vals = append(vals, v)
		k, _ := goja.VerifStrRepr(v)
		reprs = append(reprs, k)
	}
	return
}

func isStrKind(k string) bool {
	switch k {
	case "gostr", "concat", "utf16", "jsonstr", "jsstr":
		return true
	}
	return false
}
func isSymKind(k string) bool { return k == "newsym" || k == "wksym" || k == "jssym" }

// primProgram wraps the case's operations into one program: each goroutine runs
// it (it is a shared Program as well) and then calls __run(start).
func primProgram(c *PrimCase) string {
	var sb strings.Builder
	sb.WriteString("var __ops = [\n")
	for _, op := range c.Ops {
		sb.WriteString("  function() { return (" + op + "); },\n")
	}
	sb.WriteString("];\nfunction __run(start) { var n = __ops.length, out = new Array(n); for (var k = 0; k < n; k++) { var i = (start + k) % n; try { out[i] = __describe(__ops[i]()); } catch (e) { out[i] = \"throw:\" + (e && e.name); } } return out.join(\"\\u0001\"); }\n")
	return sb.String()
}

func goOpResult(vm *goja.Runtime, vals []goja.Value, op GoOp) (res string) {
	defer func() {
		if x := recover(); x != nil {
			switch x := x.(type) {
			case *goja.Exception:
				res = "panic:exception:" + firstLine(x.Error())
			case *goja.Object:
				res = "panic:object"
			default:
				res = fmt.Sprintf("panic:%T", x)
			}
		}
	}()
	v := vals[op.V]
	w := vals[op.W2]
	switch op.Op {
	case "String":
		return v.String()
	case "Export":
		switch x := v.Export().(type) {
		case string, int64, float64, bool, nil, *big.Int:
			return fmt.Sprintf("%T:%v", x, x)
		default:
			return fmt.Sprintf("%T", x)
		}
	case "ExportType":
		return fmt.Sprint(v.ExportType())
	case "ToInteger":
		return fmt.Sprint(v.ToInteger())
	case "ToFloat":
		return jsx.NumberToString(v.ToFloat())
	case "ToBoolean":
		return fmt.Sprint(v.ToBoolean())
	case "ToNumber":
		return v.ToNumber().String()
	case "ToString":
		return v.ToString().String()
	case "StrictEquals":
		return fmt.Sprint(v.StrictEquals(w))
	case "SameAs":
		return fmt.Sprint(v.SameAs(w))
	case "Equals":
		return fmt.Sprint(v.Equals(w))
	case "Length":
		if s, ok := v.(goja.String); ok {
			return fmt.Sprint(s.Length())
		}
		return "n/a"
	case "CharAt":
		if s, ok := v.(goja.String); ok {
			if l := s.Length(); l > 0 {
				return fmt.Sprint(s.CharAt(op.I % l))
			}
		}
		return "n/a"
	case "ToValue":
		return fmt.Sprint(vm.ToValue(v) == v)
	case "ToObject":
		return vm.ToValue(v.ToObject(vm)).String()
	case "ExportTo":
		var s string
		if err := vm.ExportTo(v, &s); err != nil {
			return "err"
		}
		return s
	}
	return "?"
}

type primStats struct {
	unscanned int
	excluded  string
}

func primFail(c *PrimCase, key, msg string, exp, got interface{}) *evid.Failure {
	return &evid.Failure{Check: "prims", Key: key, Msg: msg, Case: c, Expected: exp, Observed: got}
}

// primRun: one runtime applies all JS ops (rotated by start) and all Go ops to vals.
func primRun(prg *goja.Program, vals []goja.Value, goOps []GoOp, start int, goFirst bool) (js []string, gos []string, err string) {
	defer func() {
		if x := recover(); x != nil {
			err = fmt.Sprintf("panic: %v", x)
		}
	}()
	r, e := newRT()
	if e != nil {
		return nil, nil, "harness: " + e.Error()
	}
	for i, v := range vals {
		if e := r.vm.Set(fmt.Sprintf("V%d", i), v); e != nil {
			return nil, nil, fmt.Sprintf("Set(V%d) failed: %v", i, e)
		}
	}
	doGo := func() {
		n := len(goOps)
		gos = make([]string, n)
		for k := 0; k < n; k++ {
			i := (start + k) % n
			gos[i] = goOpResult(r.vm, vals, goOps[i])
		}
	}
	if goFirst {
		doGo()
	}
	if o := jsx.RunProgram(r.vm, prg); o.Kind != "value" {
		return nil, nil, "ops program: " + o.Kind + " " + o.Text
	}
	run, ok := goja.AssertFunction(r.vm.Get("__run"))
	if !ok {
		return nil, nil, "harness: no __run"
	}
	o := jsx.Protect(func() (goja.Value, error) { return run(goja.Undefined(), r.vm.ToValue(start)) })
	if o.Kind != "value" {
		return nil, nil, "__run: " + o.Kind + " " + o.Text
	}
	js = strings.Split(o.Value.String(), "\u0001")
	if !goFirst {
		doGo()
	}
	return js, gos, ""
}

func opClass(op string) string {
	if i := strings.IndexAny(op, "(["); i > 0 && i < 24 {
		return op[:i]
	}
	return clip(op, 24)
}

func judgePrim(c *PrimCase) (*evid.Failure, primStats) {
	var st primStats
	src := primProgram(c)
	prg, err := goja.Compile("ops.js", src, false)
	if err != nil {
		return primFail(c, "harness:ops-compile", "generated operations do not compile: "+err.Error(), nil, nil), st
	}
	// reference: equal values made separately, operations applied sequentially in an
	// unrelated runtime. The shared values themselves stay untouched (unscanned) until
	// the concurrent phase.
	refVals, _, e := buildVals(c.Vals)
	if e != nil {
		return primFail(c, "harness:build", e.Error(), nil, nil), st
	}
	refJS, refGo, rerr := primRun(prg, refVals, c.GoOps, 0, false)
	if rerr != "" {
		return primFail(c, "harness:ref", "sequential reference failed: "+rerr, nil, nil), st
	}
	shared, reprs, e := buildVals(c.Vals)
	if e != nil {
		return primFail(c, "harness:build", e.Error(), nil, nil), st
	}
	for _, k := range reprs {
		if k == "imported-unscanned" {
			st.unscanned++
		}
	}
	type gres struct {
		js, gos []string
		err     string
	}
	res := make([]gres, c.N)
	start := make(chan struct{})
	var ready int32
	var wg sync.WaitGroup
	for g := 0; g < c.N; g++ {
		wg.Add(1)
		go func(g int) {
			defer wg.Done()
			<-start
			atomic.AddInt32(&ready, 1)
			for spin := 0; spin < 200000 && atomic.LoadInt32(&ready) < int32(c.N); spin++ {
				runtime.Gosched()
			}
			rot := 0
			if len(c.Ops) > 0 {
				rot = g * len(c.Ops) / c.N
			}
			res[g].js, res[g].gos, res[g].err = primRun(prg, shared, c.GoOps, rot, g%2 == 1)
		}(g)
	}
	done := make(chan struct{})
	go func() { wg.Wait(); close(done) }()
	close(start)
	select {
	case <-done:
	case <-time.After(concLimit):
		// The operations are loop-free, so this is (almost certainly) CPU starvation on a loaded
		// machine. The wall clock must never create a verdict: keep waiting; results that arrive
		// late are judged as usual, a case that never finishes is counted as inconclusive.
		evid.Count("B:slow-case")
		select {
		case <-done:
		case <-time.After(10 * time.Minute):
			st.excluded = "hang(inconclusive)"
			evid.Note("prims: a case did not finish within 10 minutes (inconclusive, goroutines abandoned)")
			return nil, st
		}
	}
	for g := range res {
		if res[g].err != "" {
			return primFail(c, "goroutine-error", fmt.Sprintf("goroutine %d/%d: %s", g, c.N, res[g].err), nil, res[g].err), st
		}
		for i := range refJS {
			if i >= len(res[g].js) || res[g].js[i] != refJS[i] {
				got := "<missing>"
				if i < len(res[g].js) {
					got = res[g].js[i]
				}
				return primFail(c, "mismatch:js:"+opClass(c.Ops[i]), fmt.Sprintf("goroutine %d/%d: operation %q on shared values gave %s, sequentially on equal values %s", g, c.N, c.Ops[i], clip(got, 300), clip(refJS[i], 300)), refJS[i], got), st
			}
		}
		for i := range refGo {
			if res[g].gos[i] != refGo[i] {
				return primFail(c, "mismatch:go:"+c.GoOps[i].Op, fmt.Sprintf("goroutine %d/%d: Go operation %+v on shared values gave %s, sequentially on equal values %s", g, c.N, c.GoOps[i], clip(res[g].gos[i], 300), clip(refGo[i], 300)), refGo[i], res[g].gos[i]), st
			}
		}
	}
	return nil, st
}

// ---- generators

var strAlphabets = [][]rune{
	[]rune("abcdefghijklmnopqrstuvwxyzABCXYZ0123456789 _-"),
	[]rune("abcde éüßñ øå"),
	[]rune("абвгдежз abc 123"),
	[]rune("日本語テキスト漢字 ab"),
	[]rune("ab\U0001F600\U0001F4A9\U00010348 cd"),
	[]rune("e\u0301a\u0308o\u0302 \u200d\ufeff"),
	[]rune("0123456789.e+- "),
}

func genGoString(t *rapid.T, lo, hi int) []byte {
	al := strAlphabets[rapid.IntRange(0, len(strAlphabets)-1).Draw(t, "alphabet")]
	target := rapid.IntRange(lo, hi).Draw(t, "bytes")
	var sb strings.Builder
	for sb.Len() < target {
		sb.WriteRune(al[rapid.IntRange(0, len(al)-1).Draw(t, "ch")])
	}
	b := []byte(sb.String())
	if rapid.IntRange(0, 19).Draw(t, "badutf8") == 0 && len(b) > 4 {
		b[rapid.IntRange(0, len(b)-1).Draw(t, "badpos")] = 0xff // invalid UTF-8 is a legal Go string too
	}
	return b
}

func genVals(t *rapid.T) []ValSpec {
	var vs []ValSpec
	var strIdx []int
	n := rapid.IntRange(2, 7).Draw(t, "nvals")
	for len(vs) < n {
		kind := rapid.SampledFrom([]string{"gostr", "gostr", "gostr", "gostr", "concat", "concat", "utf16", "jsonstr", "jsstr", "shortstr", "int", "float", "bool", "undef", "null", "nan", "newsym", "wksym", "jssym", "bigint"}).Draw(t, "kind")
		s := ValSpec{Kind: kind}
		switch kind {
		case "gostr":
			s.B = genGoString(t, 15, 64)
		case "shortstr":
			s.Kind = "gostr"
			s.B = genGoString(t, 0, 16)
		case "concat":
			var imp []int
			for _, i := range strIdx {
				if vs[i].Kind == "gostr" && len(vs[i].B) > 16 {
					imp = append(imp, i)
				}
			}
			if len(imp) == 0 {
				s = ValSpec{Kind: "gostr", B: genGoString(t, 17, 64)}
			} else {
				s.X = imp[rapid.IntRange(0, len(imp)-1).Draw(t, "cx")]
				s.Y2 = imp[rapid.IntRange(0, len(imp)-1).Draw(t, "cy")]
			}
		case "utf16":
			k := rapid.IntRange(1, 40).Draw(t, "ulen")
			for i := 0; i < k; i++ {
				s.U = append(s.U, uint16(rapid.SampledFrom([]int{0x61, 0x62, 0x20, 0xe9, 0x416, 0x65e5, 0xd83d, 0xde00, 0xdc00, 0xffff, 0x31}).Draw(t, "unit")))
			}
		case "jsonstr", "jsstr":
			s.B = genGoString(t, 10, 40)
		case "int":
			s.I = rapid.SampledFrom([]int64{0, 1, -1, 42, 255, 256, 1 << 31, -(1 << 31), 1<<53 - 1, 1 << 53, math.MaxInt64, math.MinInt64}).Draw(t, "int")
		case "float":
			s.Bits = math.Float64bits(rapid.SampledFrom([]float64{0.5, -0.0, 1e21, 1e-7, math.Inf(1), math.Inf(-1), 123456.789, 5e-324, math.MaxFloat64, 3}).Draw(t, "float"))
		case "bool":
			s.I = int64(rapid.IntRange(0, 1).Draw(t, "bool"))
		case "newsym", "jssym":
			s.B = genGoString(t, 0, 40)
			s.I = int64(rapid.IntRange(0, 1).Draw(t, "symfor"))
		case "wksym":
			s.I = int64(rapid.IntRange(0, len(wkSyms)-1).Draw(t, "wk"))
		case "bigint":
			s.I = rapid.SampledFrom([]int64{0, 1, -1, 1 << 62, -12345678901234}).Draw(t, "bigint")
			if rapid.Bool().Draw(t, "bigbig") {
				s.B = rapid.SliceOfN(rapid.Byte(), 9, 24).Draw(t, "bigbytes")
				if s.I == 0 {
					s.I = 1
				}
			}
		}
		if isStrKind(s.Kind) {
			strIdx = append(strIdx, len(vs))
		}
		vs = append(vs, s)
	}
	// at least two lazily scanned strings in every case
	for cnt := 0; cnt < 2; cnt++ {
		have := 0
		for _, v := range vs {
			if v.Kind == "gostr" && len(v.B) > 16 {
				have++
			}
		}
		if have >= 2 {
			break
		}
		vs = append(vs, ValSpec{Kind: "gostr", B: genGoString(t, 17, 64)})
	}
	return vs
}

var strOps = []string{
	"$a.length", "$a.charCodeAt($i)", "$a.codePointAt($i)", "$a.charAt($i)", "$a[$i]", "$a.at(-$i)",
	"$a === $b", "$a == $b", "$a !== $b", "$a < $b", "$a >= $b", "Object.is($a, $b)",
	"$a + $b", "$b + $a + $a", "$a + $lit", "$lit + $a", "$a.concat($b, $lit)",
	"$a.slice($i, $j)", "$a.substring($j, $i)", "$a.substr($i, 5)", "$a.slice(-$i)",
	"$a.indexOf($lit)", "$a.lastIndexOf($lit)", "$a.indexOf($b.slice(0, 3))", "$a.includes($b)", "$a.startsWith($b.slice(0, 2))", "$a.endsWith($a.slice(-3))",
	"$a.toUpperCase()", "$a.toLowerCase()", "$a.trim()", "$a.normalize(\"NFC\")", "$a.padEnd(70, \"x\")", "$a.padStart(70, $b)", "$a.repeat(2)",
	"$re.test($a)", "$a.match($re)", "$a.replace($re, \"<$&>\")", "$a.split($lit).length", "$a.search($re)", "Array.from($a.matchAll(/./gu)).length", "$a.replaceAll($lit || \"q\", $b)", "$re.exec($a)",
	"JSON.stringify($a)", "JSON.stringify({k: $a, [$b]: 1})", "JSON.parse(JSON.stringify([$a]))[0] === $a",
	"`${$a}|${$b}`", "String($a)", "$a.toString()", "$a.valueOf() === $a", "typeof $a",
	"(function() { var m = new Map([[$a, 1], [$b, 2]]); return [m.get($a), m.get($b), m.size, m.has($lit)]; })()",
	"(function() { var s = new Set([$a, $b, $a + \"\"]); return [s.size, s.has($a), s.has($b.slice(0))]; })()",
	"(function() { var o = {}; o[$a] = 1; o[$b] = 2; return [Object.keys(o).length, Object.keys(o)[0] === $a, $a in o, o[$b], Object.getOwnPropertyNames(o).join(\"|\").length]; })()",
	"({[$a]: 7})[$a]", "(function() { var o = {}; Object.defineProperty(o, $a, {value: 3, enumerable: true}); return [o[$a], JSON.stringify(o)]; })()",
	"+$a", "parseInt($a)", "parseFloat($a)", "Number($a)", "isNaN($a)", "$a * 1", "$a | 0", "[1, 2, 3, 4, 5].slice($a).length", "\"abcdef\".charAt($a)",
	"[...$a].length", "Array.from($a).length", "$a.split(\"\").length", "Array.prototype.map.call($a, function(c) { return c.charCodeAt(0); }).join().length",
	"encodeURIComponent($a)", "escape($a)", "$a.isWellFormed()", "$a.toWellFormed().length",
	"Object($a).length", "Object($a)[$i]", "Object.keys(Object($a)).length", "[$a, $b].sort().join(\"|\")", "[$b, $a, $lit].sort(function(p, q) { return p < q ? -1 : p > q ? 1 : 0; })[0]", "[$a, $b].join()", "[$a, $b].indexOf($b)", "[$a].includes($a)",
	"Symbol($a).description === $a", "Symbol.for($a) === Symbol.for($a)", "new String($a) == $a", "!$a", "$a ? 1 : 2", "$a || $b", "$a ?? $b",
	"(function() { switch ($a) { case $b: return \"b\"; case $a: return \"a\"; } return \"none\"; })()",
	"new Function(\"return \" + JSON.stringify($a) + \".length\")()", "eval(JSON.stringify($a)) === $a", "new RegExp($a.replace(/[^a-z]/g, \"\").slice(0, 5) || \"x\").source",
	"new Error($a).message === $a", "(function() { try { throw $a; } catch (e) { return e === $a; } })()", "BigInt.asIntN(8, 5n) + $a", "$a.localeCompare === undefined",
}

var symOps = []string{
	"({[$a]: 1})[$a]", "Object.getOwnPropertySymbols({[$a]: 2})[0] === $a", "$a.description", "$a.toString()", "String($a)", "typeof $a",
	"(function() { var m = new Map([[$a, 1]]); return [m.has($a), m.get($a), new Set([$a, $a]).size]; })()", "Symbol.keyFor($a)", "Object($a) == $a", "Object($a).valueOf() === $a",
	"(function() { var o = {}; o[$a] = 1; return [$a in o, Reflect.ownKeys(o).length, Object.keys(o).length, JSON.stringify(o)]; })()",
	"typeof Array.prototype[$a]", "typeof Function.prototype[$a]", "$a === $b", "$a == $b", "Object.is($a, $a)", "$a + \"\"", "`${$a}`", "+$a", "$a.description === $b",
	"(function() { var o = {}; Object.defineProperty(o, $a, {get: function() { return 5; }}); return o[$a]; })()", "[$a].indexOf($a)", "[$a].includes($a)", "Object.prototype.toString.call($a)", "!$a",
	"(function() { class K { static [$a]() { return 1; } } return K[$a](); })()",
}

var anyOps = []string{
	"$a + 1", "$a + \"\"", "String($a)", "$a === $b", "$a == $b", "Object.is($a, $b)", "typeof $a", "JSON.stringify($a)", "JSON.stringify([$a, {v: $a}])",
	"(function() { var m = new Map([[$a, 1], [$b, 2]]); return [m.get($a), m.size, new Set([$a, $b, $a]).size]; })()",
	"[$a, $b].indexOf($a)", "[$a, $b].includes($a)", "[$a].includes(NaN)", "$a ? 1 : 2", "$a ?? \"dflt\"", "$a || 0", "!$a", "-$a", "$a * 2", "$a | 0", "$a >>> 0", "~$a",
	"Number($a)", "Number($a).toString(2)", "Number($a).toFixed(2)", "Math.floor($a)", "isNaN($a)", "$a < $b", "$a >= $b", "[$a, $b, 3].sort().join()", "`${$a}`",
	"({k: $a}).k === $a", "(function() { var o = {}; o[$a] = 1; return Object.keys(o)[0]; })()", "Object($a) == $a", "$a == null", "BigInt.asUintN(64, BigInt($a))",
	"$a * $a", "$a ** 2n", "$a.toString(16)", "$a.toLocaleString === undefined", "Array($a === 3 ? 3 : 1).length",
}

func genPrim(t *rapid.T) *PrimCase {
	c := &PrimCase{Vals: genVals(t)}
	c.N = rapid.SampledFrom([]int{2, 2, 2, 4, 4, 8, 16}).Draw(t, "n")
	var strs, syms, others []int
	for i, v := range c.Vals {
		switch {
		case isStrKind(v.Kind):
			strs = append(strs, i)
		case isSymKind(v.Kind):
			syms = append(syms, i)
		default:
			others = append(others, i)
		}
	}
	pickIdx := func(pool []int, label string) int { return pool[rapid.IntRange(0, len(pool)-1).Draw(t, label)] }
	lits := []string{"\"a\"", "\"ab\"", "\" \"", "\"é\"", "\"\"", "\"1\"", "\"\\ud83d\"", "\"日\"", "\"a long literal of twenty bytes\""}
	res := []string{"/a/", "/[a-z]+/g", "/\\d+/", "/./su", "/(?=b)a|é/", "/(\\w)\\1/", "/\\p{L}+/u", "/^.{3}/", "/\\s/g", "/[^\\x00-\\x7f]/"}
	nops := rapid.IntRange(4, 14).Draw(t, "nops")
	for i := 0; i < nops; i++ {
		var tpl string
		var pool []int
		sel := rapid.IntRange(0, 9).Draw(t, "opsel")
		switch {
		case sel >= 8 && len(syms) > 0:
			tpl, pool = rapid.SampledFrom(symOps).Draw(t, "symop"), syms
		case sel == 7 && len(others) > 0:
			tpl, pool = rapid.SampledFrom(anyOps).Draw(t, "anyop"), others
		default:
			tpl, pool = rapid.SampledFrom(strOps).Draw(t, "strop"), strs
		}
		a := pickIdx(pool, "a")
		b := pickIdx(pool, "b")
		if rapid.IntRange(0, 5).Draw(t, "crossb") == 0 {
			b = rapid.IntRange(0, len(c.Vals)-1).Draw(t, "b2")
		}
		op := strings.NewReplacer(
			"$a", fmt.Sprintf("V%d", a), "$b", fmt.Sprintf("V%d", b),
			"$i", fmt.Sprint(rapid.IntRange(0, 20).Draw(t, "i")), "$j", fmt.Sprint(rapid.IntRange(0, 40).Draw(t, "j")),
			"$lit", rapid.SampledFrom(lits).Draw(t, "lit"), "$re", rapid.SampledFrom(res).Draw(t, "re"),
		).Replace(tpl)
		c.Ops = append(c.Ops, op)
	}
	ngo := rapid.IntRange(2, 10).Draw(t, "ngo")
	for i := 0; i < ngo; i++ {
		c.GoOps = append(c.GoOps, GoOp{
			Op: rapid.SampledFrom([]string{"String", "Export", "ExportType", "ToInteger", "ToFloat", "ToBoolean", "ToNumber", "ToString", "StrictEquals", "SameAs", "Equals", "Length", "CharAt", "ToValue", "ToObject", "ExportTo"}).Draw(t, "goop"),
			V:  rapid.IntRange(0, len(c.Vals)-1).Draw(t, "gv"),
			W2: rapid.IntRange(0, len(c.Vals)-1).Draw(t, "gw"),
			I:  rapid.IntRange(0, 30).Draw(t, "gi"),
		})
	}
	return c
}

func recordPrim(c *PrimCase, st primStats) {
	var sb strings.Builder
	fmt.Fprintf(&sb, "B|%d|", c.N)
	for _, v := range c.Vals {
		fmt.Fprintf(&sb, "%s:%x:%v:%d:%d:%d:%d;", v.Kind, v.B, v.U, v.I, v.Bits, v.X, v.Y2)
		evid.Count("B:val=" + v.Kind)
	}
	sb.WriteString(strings.Join(c.Ops, ";"))
	for _, g := range c.GoOps {
		fmt.Fprintf(&sb, "|%s:%d:%d:%d", g.Op, g.V, g.W2, g.I)
	}
	evid.Case(sb.String(), st.unscanned >= 1 && c.N >= 2 && st.excluded == "")
	if st.excluded != "" {
		evid.Excluded("prims:" + st.excluded)
	}
	evid.Count(fmt.Sprintf("B:n=%d", c.N))
	evid.CountN("B:unscanned-values", int64(st.unscanned))
	evid.CountN("B:js-ops", int64(len(c.Ops)))
	evid.CountN("B:go-ops", int64(len(c.GoOps)))
	evid.Sample("prims", c)
}

func TestQuickPrims(t *testing.T) {
	flag.Set("rapid.shrinktime", "8s") // concurrency failures are schedule dependent: shrinking is of little use
	evid.Check(t, "prims", 2000, 1, func(t *rapid.T) {
		c := genPrim(t)
		evid.SetCurrent("prims", c)
		f, st := judgePrim(c)
		evid.ClearCurrent()
		recordPrim(c, st)
		collectRaces("prims", c)
		evid.Judge(t, f)
	})
	flushPending(t)
}
