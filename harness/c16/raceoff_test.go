//go:build !race

package c16

const raceEnabled = false

func raceErrors() int { return 0 }
