package c16

import (
	"fmt"
	"strings"

	"pgregory.net/rapid"

	"verifh/internal/jsx"
)

// Fragments are hand-written program pieces, parameterised by drawn literals,
// that exercise the constructs whose compiled instructions hold reference data
// (the G-syntax generator reaches them too, but rarely several times in one
// run). Every fragment appends what it saw to __log.

type frag struct {
	name   string
	sloppy bool // needs sloppy mode (with / eval-introduced var)
	gen    func(t *rapid.T) string
}

var subjPool = []string{"aabxaab", "abcabcabc", "xyzzy aab ab b", "ΑΒΓaabbΩ", "aéaéab", "\U0001F600ab\U0001F600aab", "", "foo bar foobar", "1a2b3c aab"}

// re2-compatible and regexp2-only (lookahead/backreference/lookbehind) patterns
var rePool = []string{"a+(b)?", "(a)(b)?", "[a-c]+", "\\w+\\s?", "(?<n>a)b", ".", "b|a", "a*?b", // re2
	"\\d*", "a*", "b?", "(?:)", "\\s*", // re2, can match the empty string (split/replace then need the other matcher)
	"(a)\\1", "a(?=b)", "(?<!x)a+", "(?<n>a)\\k<n>", "(?!b)[ab]", "(a+)(?=b)\\1?", "\\u{1F600}|a"} // regexp2 (last one needs u)

func drawSubj(t *rapid.T) string {
	return jsx.StrLitGo(rapid.SampledFrom(subjPool).Draw(t, "subj"), rapid.Bool().Draw(t, "asciiOnly"))
}

func drawRe(t *rapid.T, flagsPool ...string) string {
	p := rapid.SampledFrom(rePool).Draw(t, "re")
	fl := rapid.SampledFrom(flagsPool).Draw(t, "flags")
	if strings.Contains(p, "\\u{") && !strings.Contains(fl, "u") {
		fl += "u"
	}
	return "/" + p + "/" + fl
}

var frags = []frag{
	{"regex-lastindex", false, func(t *rapid.T) string {
		re := drawRe(t, "g", "y", "gi", "gu", "gy", "gs")
		return fmt.Sprintf(`(function() {
  function scan(str) { var re = %s, m, out = [re.lastIndex]; while ((m = re.exec(str)) !== null && out.length < 12) { out.push(m.index, re.lastIndex, m[1]); if (m[0] === "") re.lastIndex++; } out.push(re.lastIndex); return out.join(); }
  var sj = %s; __log.push(scan(sj), scan(sj + "ab"), scan(sj));
})();`, re, drawSubj(t))
	}},
	{"regex-shared-literal", false, func(t *rapid.T) string {
		re := drawRe(t, "g", "y", "", "i", "gm")
		return fmt.Sprintf(`(function() {
  function lit() { return %s; }
  var r1 = lit(), r2 = lit(), sj = %s; r1.lastIndex = 2; r1.own = 1;
  __log.push(r1 === r2, r2.lastIndex, "own" in r2, r1.test(sj), r1.lastIndex, r2.test(sj), r2.lastIndex, String(sj.match(r2)), sj.replace(lit(), "[$&]"), sj.split(lit()).length, sj.search(lit()));
  try { r1.compile("zz", "g"); __log.push(String(r1), String(lit()), lit().test("zz")); } catch (e) { __log.push(e.name); }
})();`, re, drawSubj(t))
	}},
	{"regex-symbol-methods", false, func(t *rapid.T) string {
		re := drawRe(t, "g", "gu", "y", "")
		return fmt.Sprintf(`(function() {
  var sj = %s, out = [];
  for (var i = 0; i < %d; i++) { var re = %s; out.push(re[Symbol.replace](sj, function(m) { return "<" + m + ">"; }), Array.from(sj.matchAll(new RegExp(re.source, re.flags.indexOf("g") < 0 ? re.flags + "g" : re.flags))).length, re[Symbol.split](sj, 3).join("|")); }
  __log.push(out.join(";"));
})();`, drawSubj(t), rapid.IntRange(1, 3).Draw(t, "iters"), re)
	}},
	{"tagged-template", false, func(t *rapid.T) string {
		chunk := rapid.SampledFrom([]string{"a", "é", "\\n", "\\u0041", "", "long chunk with more than sixteen bytes é", "\\xg", "\\unicode"}).Draw(t, "chunk")
		return fmt.Sprintf("(function() {\n  function tg(s) { return s; }\n  function site() { return tg`%s${1}b${2}`; }\n  var s1 = site(), s2 = site(), s3 = tg`%s${1}b${2}`;\n"+
			"  __log.push(s1 === s2, s1 === s3, s1.length, s1.raw.length, String(s1[0]), s1.raw.join(\"|\"), Object.isFrozen(s1), Object.isFrozen(s1.raw));\n"+
			"  var muts = [function() { s1[0] = \"Z\"; }, function() { s1.raw[0] = \"Z\"; }, function() { s1.raw.push(1); }, function() { s1.length = 0; }, function() { \"use strict\"; s1.reverse(); }, function() { \"use strict\"; s1.raw.fill(\"F\"); }, function() { Object.defineProperty(s1, 0, {value: \"D\"}); }, function() { \"use strict\"; s1.raw.sort(); }, function() { delete s1[1]; }, function() { s1.raw.copyWithin(0, 1); }];\n"+
			"  for (var i = 0; i < muts.length; i++) { try { muts[i](); __log.push(\"ok\"); } catch (e) { __log.push(e.name); } }\n"+
			"  var s4 = site(); __log.push(String(s4[0]), s4.raw.join(\"|\"), s4 === s1, String.raw`%s${s4.length}x`);\n})();", chunk, chunk, chunk)
	}},
	{"class-private", false, func(t *rapid.T) string {
		init := rapid.SampledFrom([]string{"1", "\"p\"", "[1,2]", "/x/g", "1 + 2", "`t${1}`", "{k: 1}"}).Draw(t, "init")
		return fmt.Sprintf(`(function() {
  class A {
    #x = %s; static #c = 0; static tbl = [1, 2, 3];
    static { A.#c = A.tbl.length; A.tbl.push("s"); }
    #m(v) { return [this.#x, v]; }
    get x() { return this.#x; } set x(v) { this.#x = v; }
    static inc() { return ++A.#c; }
    static has(o) { return #x in o; }
    call(v) { return this.#m(v); }
    static get #sg() { return A.#c * 2; } static sg() { return A.#sg; }
  }
  class B extends A { #y = 7; static #c = "b"; y() { return this.#y + B.#c; } static { B.tblB = A.tbl.length; } }
  var a1 = new A(), a2 = new A(), b = new B(); a1.x = 5;
  __log.push(String(a1.x), typeof a2.x, A.inc(), A.inc(), A.has(a1), A.has({}), A.has(b), String(b.call(3)), b.y(), A.sg(), A.tbl.join(), B.tblB);
  try { A.prototype.call.call({}, 1); } catch (e) { __log.push(e.name); }
  try { Object.getOwnPropertyDescriptor(A.prototype, "x").get.call({}); } catch (e) { __log.push(e.name); }
})();`, init)
	}},
	{"class-toplevel", false, func(t *rapid.T) string {
		return `class __TopC { static #n = 0; #v; constructor(v) { this.#v = v; __TopC.#n++; } static get n() { return __TopC.#n; } get v() { return this.#v; } static { __log.push("static block", typeof __TopC); } }
__log.push(new __TopC(1).v, new __TopC("s").v, __TopC.n);`
	}},
	{"dynamic-func", true, func(t *rapid.T) string {
		code := rapid.SampledFrom([]string{"var dv = 2", "loc = 5", "var loc = 9, dv2 = loc", "function df() { return loc; }", "var p = 'sh'", "let blockOnly = 1", "var dv = 1; var dw = 2; var dx = 3; var dy = 4"}).Draw(t, "code")
		code2 := rapid.SampledFrom([]string{"var dv = 20", "var other = 1", "dv = 7", "var zz = typeof dv"}).Draw(t, "code2")
		return fmt.Sprintf(`(function() {
  function dyn(code, p) { var loc = 1; eval(code); return [typeof dv, typeof dv2, typeof df, typeof dw, loc, p, typeof other, typeof zz].join(); }
  __log.push(dyn(%q, "p1"), dyn(%q, "p2"), dyn("", "p3"), dyn(%q, "p4"));
  function outer() { var ov = 1; return function inner(c) { eval(c); return typeof iv + ov; }; }
  var inn = outer(); __log.push(inn("var iv = 1"), inn("ov = 2"), inn(""), outer()("var ov = 's'"));
  var arrow = (c, q = eval(c)) => typeof av + q; __log.push(arrow("var av = 3"), arrow("4"));
})();`, code, code2, code)
	}},
	{"dynamic-param-eval", true, func(t *rapid.T) string {
		return `(function() {
  // a direct eval in a parameter initialiser declares a var in the parameter scope: the call that does not declare comes
  // first, so a later run of the same Program would see a binding left behind by an earlier run
  function pf(c, d = c ? eval("var pz = 1; 2") : 0) { var bodyv = d; function g() { return bodyv; } return [typeof pz, d, g()].join(); }
  __log.push(pf(false), pf(true));
  var arrow2 = (c, q = eval(c)) => typeof av2 + q; __log.push(arrow2("5"), arrow2("var av2 = 3"));
  function pg(c, d = eval(c), ...rest) { var inner = 1; return [typeof pgv, d, rest.length, (() => inner)()].join(); }
  __log.push(pg("7", 1), pg("var pgv = 8; 9", 1, 2));
})();`
	}},
	{"dynamic-with", true, func(t *rapid.T) string {
		return fmt.Sprintf(`(function() {
  function w(obj, code) { var lv = "local"; with (obj) { eval(code); { let bl = "block"; eval("var fromBlock = bl + lv"); } return [typeof wv, lv, typeof fromBlock, typeof wx === "undefined" ? "-" : wx].join(); } }
  __log.push(w({wx: 1}, "var wv = wx"), w({lv: "shadow"}, "lv = 'assigned'"), w({}, %q), w({wx: 2, wv: 3}, "wv++"));
  try { throw 1; } catch (ce) { eval("var fromCatch = ce + 1"); __log.push(fromCatch); }
  for (let li = 0; li < 2; li++) { eval("var fromLoop = li"); } __log.push(fromLoop);
})();`, rapid.SampledFrom([]string{"var wv = 1, wy = 2", "function wv() {}", "", "var lv = 0"}).Draw(t, "wcode"))
	}},
	{"dynamic-global", true, func(t *rapid.T) string {
		n := rapid.IntRange(0, 9).Draw(t, "gname")
		return fmt.Sprintf(`eval("var __gv%d = %d; function __gf%d() { return __gv%d; }"); __log.push(typeof __gv%d, __gf%d(), delete globalThis.__gv%d, typeof __gv%d);
{ let __bl = 1; eval("var __gvb = __bl + 1"); __log.push(__gvb); }`, n, n, n, n, n, n, n, n)
	}},
	{"const-fold", false, func(t *rapid.T) string {
		exprs := []string{"1 + 2 * 3", "\"a\" + \"b\" + 1", "typeof 1", "!0 && \"x\"", "null ?? 5", "-(-0)", "2 ** 10", "1 / 0", "\"é\" + \"long constant string beyond sixteen\"", "0 || void 0", "(1, 2)", "+\"12\"", "~5 >>> 1", "1 < 2 ? \"y\" : \"n\"", "\"abc\".length", "[1, 2][0]", "1n + 2n", "0.1 + 0.2", "\"\" + 1e21", "\"x\" in {x: 1}", "9007199254740991 + 2"}
		k := rapid.IntRange(3, 8).Draw(t, "nfold")
		var parts []string
		for i := 0; i < k; i++ {
			parts = append(parts, rapid.SampledFrom(exprs).Draw(t, "fold"))
		}
		return "(function() { function cf() { return [" + strings.Join(parts, ", ") + "]; } var c1 = cf(), c2 = cf(); c1[0] = \"mut\"; __log.push(String(c1), String(c2), Object.is(cf()[0], c2[0])); })();"
	}},
	{"literal-table", false, func(t *rapid.T) string {
		n := rapid.IntRange(8, 64).Draw(t, "tbl")
		var el, props []string
		for i := 0; i < n; i++ {
			switch i % 5 {
			case 0:
				el = append(el, fmt.Sprint(i*7))
			case 1:
				el = append(el, fmt.Sprintf("\"s%d é string constant number %d\"", i, i))
			case 2:
				el = append(el, fmt.Sprintf("[%d, {k: %d}]", i, i))
			case 3:
				el = append(el, fmt.Sprintf("%d.5", i))
			default:
				el = append(el, fmt.Sprintf("/r%d/g", i))
			}
			props = append(props, fmt.Sprintf("k%d: %d", i, i))
		}
		return "(function() { function mk() { return [" + strings.Join(el, ", ") + "]; } function mo() { return {" + strings.Join(props, ", ") + "}; }\n" +
			"  var t1 = mk(), t2 = mk(), o1 = mo(), o2 = mo(); t1[0] = \"m\"; t1[2][1].k = \"m\"; t1.length = 3; o1.k0 = \"m\"; delete o1.k1; if (t1[4]) t1[4].lastIndex = 3;\n" +
			"  __log.push(t2.length, String(t2[0]), t2[2][1].k, t2[4].lastIndex, mk()[4].lastIndex, o2.k0, \"k1\" in o2, Object.keys(mo()).length, JSON.stringify(mk()).length); })();"
	}},
	{"switch-lexical", false, func(t *rapid.T) string {
		return fmt.Sprintf(`(function() {
  function sw(v) { var fns = []; switch (v) { case 1: let q = "one"; fns.push(function() { return q; }); case 2: class Q { static n = v; } fns.push(function() { return Q.n; }); break; case "e": %s; default: const dflt = v + "!"; fns.push(function() { return dflt; }); }
    return fns.map(function(f) { try { return f(); } catch (e) { return e.name; } }).join(); }
  __log.push(sw(1), sw(2), sw(3), sw("e"), sw(1));
})();`, rapid.SampledFrom([]string{"eval(\"var se = 1\")", "let se2 = 1", "function sf() { return 1; } fns.push(sf)"}).Draw(t, "swbody"))
	}},
	{"long-strings", false, func(t *rapid.T) string {
		s := rapid.SampledFrom([]string{"constant ascii string longer than sixteen bytes", "строка длиннее шестнадцати байт", "mixed ascii and é and \U0001F600 beyond sixteen", "12345678901234567890.5"}).Draw(t, "ls")
		lit := jsx.StrLitGo(s, rapid.Bool().Draw(t, "asciiOnly"))
		return fmt.Sprintf(`(function() { function ls() { return %s; } var l = ls(), o = {}; o[l] = 1; var m = new Map([[l, 2]]);
  __log.push(l.length, l.charCodeAt(3), l.toUpperCase(), l.indexOf("e"), l.slice(-5), l + l === ls() + ls(), Object.keys(o)[0] === l, m.get(ls()), +l, JSON.stringify(l), %s === l, l.localeCompare === undefined); })();`, lit, "`"+strings.NewReplacer("\\", "\\\\", "`", "\\`", "$", "\\$").Replace(s)+"`")
	}},
	{"positions", false, func(t *rapid.T) string {
		return `(function() {
  function thrower() { return null.x; }
  try { thrower(); } catch (e) { __log.push(e.name, String(e.stack).split("\n").length > 1, String(e.stack).split("\n")[1]); }
  __log.push(String(new Error("pos").stack).split("\n").slice(0, 3).join("|"), thrower.toString().length, (function() { return 1; }).toString(), (class Z { m() {} }).toString());
})();`
	}},
	{"generators-closures", false, func(t *rapid.T) string {
		return `(function() {
  function* gen(n) { for (let i = 0; i < n; i++) { let r = /g(\d)?/g; yield [i, r.lastIndex, r.test("g" + i), r.lastIndex]; } }
  var parts = []; for (var v of gen(3)) parts.push(v.join(":")); __log.push(parts.join());
  var o = {a: 1, get b() { return this.a + 1; }, ["c" + 1]: 2, [Symbol.for("long symbol key beyond sixteen bytes")]: 3, __proto__: {inh: 1}};
  __log.push(Object.keys(o).join(), o.b, o.inh, Object.getOwnPropertySymbols(o)[0].description);
  var [d1 = 1, {k: d2 = "dk"} = {}, ...dr] = [undefined, undefined, 3, 4]; __log.push(d1, d2, dr.join());
})();`
	}},
	{"runtime-compile", false, func(t *rapid.T) string {
		re := drawRe(t, "g", "")
		return fmt.Sprintf(`(function() {
  var f1 = new Function("a", "b", "return a + b + %s.source"), f2 = Function("return /x(?=y)/g.exec('xy').index + `+"`t${1}`"+`");
  __log.push(f1(1, 2), f2(), (0, eval)("class EC { static #p = 1; static g() { return EC.#p; } } EC.g()"), eval("(function(s) { return s.raw[0]; })`+"`raw\\\\n`"+`"), new RegExp(%q, "g").test("aab"), JSON.parse("{\"k\":[1,2,{\"long key beyond sixteen bytes é\":1}]}").k.length);
})();`, re, rapid.SampledFrom(rePool).Draw(t, "rtre"))
	}},
}
