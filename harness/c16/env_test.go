package c16

import (
	"fmt"
	"strings"
	"sync/atomic"
	"time"

	"github.com/dop251/goja"

	"verifh/internal/jsgen"
	"verifh/internal/jsx"
)

// envSrc is run on every runtime before the case: the jsgen identifier pool, a
// deterministic Date (the only clock a generated program can reach), the log
// array and the fixed describe/state functions through which every observation
// is rendered. describe captures the intrinsics it needs at definition time, is
// bounded in depth and width and never throws, so a program that vandalises the
// built-ins still yields a (deterministic) observation.
const envSrc = jsgen.SynPrelude + `
var __log = [];
(function(G) {
  var D0 = G.Date;
  function FD() {
    var a = arguments;
    if (!new.target) return "Thu Jan 01 1970 00:00:00 GMT+0000 (UTC)";
    if (a.length === 0) return new D0(0);
    return Reflect.construct(D0, a, new.target === FD ? D0 : new.target);
  }
  FD.prototype = D0.prototype; FD.now = function() { return 0; }; FD.UTC = D0.UTC; FD.parse = D0.parse;
  G.Date = FD;
  Math.random = function() { return 0.5; };

  var apply = Reflect.apply, ownKeys = Reflect.ownKeys, gopd = Object.getOwnPropertyDescriptor,
      isArray = Array.isArray, Str = String, jstr = JSON.stringify, is = Object.is,
      symStr = Symbol.prototype.toString, objStr = Object.prototype.toString,
      hasOwn = Object.prototype.hasOwnProperty, push = Array.prototype.push, join = Array.prototype.join,
      reSrc = gopd(RegExp.prototype, "source").get, reFlags = gopd(RegExp.prototype, "flags").get,
      strSlice = String.prototype.slice;
  function key(k) { return typeof k === "symbol" ? "[" + apply(symStr, k, []) + "]" : k; }
  function d(v, depth) {
    try {
      switch (typeof v) {
      case "undefined": return "undefined";
      case "boolean": return v ? "true" : "false";
      case "number": return is(v, -0) ? "-0" : Str(v);
      case "bigint": return Str(v) + "n";
      case "string": { var s = jstr(v); return s.length > 200 ? apply(strSlice, s, [0, 200]) + "...(" + v.length + ")" : s; }
      case "symbol": return apply(symStr, v, []);
      }
      if (v === null) return "null";
      var tag;
      try { tag = apply(objStr, v, []); } catch (e) { tag = "[object ?]"; }
      if (typeof v === "function") {
        var nd; try { nd = gopd(v, "name"); } catch (e) {}
        return "function:" + (nd && typeof nd.value === "string" ? nd.value : "?");
      }
      if (depth <= 0) return tag;
      var out = [], keys;
      try { keys = ownKeys(v); } catch (e) { return tag + "{ownKeys threw}"; }
      if (tag === "[object RegExp]") { try { apply(push, out, ["/" + apply(reSrc, v, []) + "/" + apply(reFlags, v, [])]); } catch (e) {} }
      var n = keys.length;
      for (var i = 0; i < n && i < 8; i++) {
        var k = keys[i], pd;
        if (k === "stack") continue;
        try { pd = gopd(v, k); } catch (e) { apply(push, out, [key(k) + ":<gopd threw>"]); continue; }
        if (!pd) { apply(push, out, [key(k) + ":<none>"]); continue; }
        if (apply(hasOwn, pd, ["value"])) apply(push, out, [key(k) + ":" + d(pd.value, depth - 1)]);
        else apply(push, out, [key(k) + ":<accessor>"]);
      }
      if (n > 8) apply(push, out, ["...+" + (n - 8)]);
      return tag + "{" + apply(join, out, [","]) + "}";
    } catch (e) { return "<describe threw>"; }
  }
  var names = ["a","b","c","d","x","y","z","u","o","arr","s","n","t","v0","v1","v2","w","k","e","r","ev","p","q"];
  var desc = gopd, log = __log;
  G.__describe = function(v) { return d(v, 2); };
  G.__state = function() {
    var out = [];
    for (var i = 0; i < names.length; i++) {
      var pd; try { pd = desc(G, names[i]); } catch (e) { pd = null; }
      if (pd && apply(hasOwn, pd, ["value"])) apply(push, out, [names[i] + "=" + d(pd.value, 2)]);
    }
    var ll; try { ll = log.length; } catch (e) { ll = 0; }
    if (typeof ll !== "number" || !(ll >= 0)) ll = 0;
    for (var j = 0; j < ll && j < 64; j++) {
      var ld; try { ld = desc(log, j); } catch (e) { ld = null; }
      apply(push, out, ["log" + j + "=" + (ld && apply(hasOwn, ld, ["value"]) ? d(ld.value, 2) : "<hole>")]);
    }
    return apply(join, out, ["\n"]);
  };
})(globalThis);
`

// envPrg is itself a Program shared by every goroutine of every case.
var envPrg = goja.MustCompile("env.js", envSrc, false)

type rt struct {
	vm       *goja.Runtime
	describe goja.Callable
	state    goja.Callable
}

func newRT() (*rt, error) {
	vm := goja.New()
	vm.SetMaxCallStackSize(300)
	if o := jsx.RunProgram(vm, envPrg); o.Kind != "value" {
		return nil, fmt.Errorf("env program failed: %s %s", o.Kind, o.Text)
	}
	r := &rt{vm: vm}
	var ok bool
	if r.describe, ok = goja.AssertFunction(vm.Get("__describe")); !ok {
		return nil, fmt.Errorf("no __describe")
	}
	if r.state, ok = goja.AssertFunction(vm.Get("__state")); !ok {
		return nil, fmt.Errorf("no __state")
	}
	return r, nil
}

func (r *rt) desc(v goja.Value) string {
	if v == nil {
		return "<nil>"
	}
	o := jsx.Protect(func() (goja.Value, error) { return r.describe(goja.Undefined(), v) })
	if o.Kind != "value" {
		return "<describe:" + o.Kind + ">"
	}
	return o.Value.String()
}

// observe renders one outcome of running the case program: completion kind,
// completion value / thrown value, then the tracked globals and the log array.
func (r *rt) observe(o jsx.Outcome) string {
	var sb strings.Builder
	sb.WriteString(o.Kind)
	switch o.Kind {
	case "value":
		sb.WriteString(" " + r.desc(o.Value))
	case "exception":
		if ex, ok := o.Err.(*goja.Exception); ok {
			sb.WriteString(" " + jsx.ExcName(r.vm, ex) + " " + r.desc(ex.Value()))
			// positions come from the Program's source map / file table, which is shared too
			st := jsx.Protect(func() (goja.Value, error) { return r.vm.ToValue(ex.String()), nil })
			if st.Kind == "value" {
				sb.WriteString(" @" + st.Value.String())
			}
		}
	case "panic":
		sb.WriteString(fmt.Sprintf(" %v", o.Panic))
	default:
		if o.Err != nil {
			sb.WriteString(" " + firstLine(o.Err.Error()))
		}
	}
	sb.WriteString("\n")
	so := jsx.Protect(func() (goja.Value, error) { return r.state(goja.Undefined()) })
	if so.Kind == "value" {
		sb.WriteString(so.Value.String())
	} else {
		sb.WriteString("<state:" + so.Kind + ">")
	}
	return sb.String()
}

func firstLine(s string) string {
	if i := strings.IndexByte(s, '\n'); i >= 0 {
		return s[:i]
	}
	return s
}

// runWatched runs f on vm with a private watchdog (used for sequential runs only;
// the concurrent phase has one watchdog for all goroutines so that no
// synchronisation between the racing goroutines is introduced).
func runWatched(vm *goja.Runtime, limit time.Duration, f func() (goja.Value, error)) (o jsx.Outcome, interrupted bool, took time.Duration) {
	var fired int32
	fin := make(chan struct{})
	start := time.Now()
	tm := time.AfterFunc(limit, func() {
		atomic.StoreInt32(&fired, 1)
		vm.Interrupt("watchdog")
		close(fin)
	})
	o = jsx.Protect(f)
	took = time.Since(start)
	if !tm.Stop() {
		<-fin // the watchdog fired (or is firing): let it finish before the flag is cleared
	}
	vm.ClearInterrupt()
	return o, atomic.LoadInt32(&fired) != 0 || o.Kind == "interrupted", took
}
