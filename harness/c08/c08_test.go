package c08

import (
	"encoding/json"
	"fmt"
	"os"
	"reflect"
	"regexp"
	"strconv"
	"strings"
	"testing"

	"pgregory.net/rapid"

	"verifh/internal/evid"
	"verifh/internal/jsgen/j0"
	. "verifh/internal/refjs"
	"verifh/internal/refjs/gojarun"
)

func TestMain(m *testing.M) { evid.Main("C08", m) }

// The generated program is one function body (so that return is available)
// built from a control-flow grammar. Every try body, catch, finally, loop body
// and iterator method logs an event:
//
//	T<id>  try body entered        C<id>  catch entered       F<id>  finally entered
//	B<id>  loop body iteration     it<k>#<n>.next d=<bool> / .return / .throw   (iterator instance n of site k)
//	X<n>   a plain marker
//
// Abrupt completions (break/continue with and without label, return, throw) are
// placed at random statement positions, including inside catch and finally
// blocks and inside the iterator's own next()/return().
const helpers = `
var __inst = 0;
function deepTry(d) { try { if (d > 0) deepTry(d - 1); } finally { } } // grows the VM's try stack while an iterator is being closed
function mk(site, n, mode) {
  var id = site + '#' + (++__inst), i = 0;
  var it = {
    next: function() {
      i++;
      if (mode === 'throwNext' && i === 2) { log(id + '.next throws'); throw new RangeError('next'); }
      var d = i > n;
      if (mode === 'nonObject' && i === 2) { log(id + '.next nonobject'); return 1; }
      log(id + '.next d=' + d);
      return {value: i, done: d};
    }
  };
  if (mode !== 'noReturn') it['return'] = function(v) {
    log(id + '.return');
    deepTry(17);
    if (mode === 'throwReturn') throw new TypeError('return');
    if (mode === 'returnNonObject') return 7;
    return {};
  };
  var res = {};
  res[Symbol.iterator] = function() { log(id + '.iter ' + mode); return it; };
  return res;
}
function* genNested(site, n) {
  // a generator that is itself suspended inside for-of + try/finally: closing it (break in the consumer) must run its
  // finally block first and close the inner iterator afterwards
  var id = site + '#' + (++__inst);
  for (var x of mk(site + 'i', n, 'plain')) {
    try { log(id + '.nyield ' + x); yield x; } finally { log(id + '.loopfinally ' + x); }
  }
  log(id + '.nexhausted');
}
function* gen(site, n) {
  var id = site + '#' + (++__inst);
  try { for (var i = 1; i <= n; i++) { log(id + '.yield ' + i); yield i; } log(id + '.exhausted'); }
  finally { log(id + '.genfinally'); }
}
`

type gen struct {
	t      *rapid.T
	n      int
	budget int
	labels []string // enclosing labels (loops and blocks)
	loopLb []string // enclosing loop labels
	loops  int
	inFin  int
	depth  int
	kinds  map[string]int
	abrupt map[string]int
	hasFin bool
}

func (g *gen) draw(n int, l string) int { return rapid.IntRange(0, n-1).Draw(g.t, l) }
func (g *gen) id() int                  { g.n++; return g.n }

func (g *gen) marker() *Node { return Log(Str("X" + strconv.Itoa(g.id()))) }

func (g *gen) abruptStmt() *Node {
	// every reachable kind of abrupt completion
	opts := []string{"throw", "return", "returnv"}
	if g.loops > 0 {
		opts = append(opts, "break", "continue")
	}
	for range g.labels {
		opts = append(opts, "breakL")
	}
	for range g.loopLb {
		opts = append(opts, "continueL")
	}
	k := opts[g.draw(len(opts), "abk")]
	g.abrupt[k]++
	switch k {
	case "throw":
		return Throw(New(Id("Error"), Str("e"+strconv.Itoa(g.id()))))
	case "return":
		return Return(nil)
	case "returnv":
		return Return(Str("r" + strconv.Itoa(g.id())))
	case "break":
		return Break("")
	case "continue":
		return Continue("")
	case "breakL":
		return Break(g.labels[g.draw(len(g.labels), "bl")])
	default:
		return Continue(g.loopLb[g.draw(len(g.loopLb), "cl")])
	}
}

func (g *gen) stmts(n int) []*Node {
	var out []*Node
	for i := 0; i < n; i++ {
		out = append(out, g.stmt())
	}
	return out
}

func (g *gen) block(pre *Node, n int) *Node {
	body := g.stmts(n)
	if pre != nil {
		body = append([]*Node{pre}, body...)
	}
	return Block(body...)
}

func (g *gen) iterable(site int) *Node {
	s := Str("it" + strconv.Itoa(site))
	switch g.draw(9, "itk") {
	case 8:
		return Call(Id("genNested"), s, Num(float64(1+g.draw(3, "gnn"))))
	case 0:
		return Call(Id("gen"), s, Num(float64(1+g.draw(3, "gn"))))
	case 1:
		return Arr(Num(1), Num(2))
	}
	modes := []string{"plain", "plain", "plain", "noReturn", "throwNext", "nonObject", "throwReturn", "returnNonObject"}
	return Call(Id("mk"), s, Num(float64(g.draw(4, "n"))), Str(modes[g.draw(len(modes), "mode")]))
}

func (g *gen) stmt() *Node {
	g.budget--
	if g.budget <= 0 || g.depth >= 5 {
		if g.draw(3, "leafab") == 0 {
			return g.abruptStmt()
		}
		return g.marker()
	}
	g.depth++
	defer func() { g.depth-- }()
	k := g.draw(20, "sk")
	if k <= 2 && g.depth == 1 && g.draw(5, "topab") != 0 {
		// an abrupt statement directly in the function body ends the run before anything is pending: mostly
		// replace it by a try statement or a for-of (where the abrupt completions then occur)
		k = 3 + g.draw(7, "topsub")
	}
	switch k {
	case 0, 1, 2:
		g.kinds["abrupt"]++
		return g.abruptStmt()
	case 3, 4, 5, 6:
		// try / catch / finally in its three shapes
		g.kinds["try"]++
		id := strconv.Itoa(g.id())
		body := g.block(Log(Str("T"+id)), 1+g.draw(2, "tl"))
		shape := g.draw(3, "tshape")
		var param, handler, fin *Node
		if shape != 1 {
			switch g.draw(3, "cparam") {
			case 0:
				param = Id("e" + id)
			case 1:
				param = ObjPat(PatProp("message", Id("m"+id)))
			}
			handler = g.block(Log(Str("C"+id)), g.draw(3, "cl"))
		}
		if shape != 0 {
			g.hasFin = true
			g.inFin++
			fin = g.block(Log(Str("F"+id)), g.draw(3, "fl"))
			g.inFin--
		}
		return Try(body, param, handler, fin)
	case 7, 8, 9:
		// for-of over an instrumented iterator, optionally labelled
		g.kinds["forof"]++
		id := g.id()
		lbl := ""
		if g.draw(2, "lbl") == 0 {
			lbl = "L" + strconv.Itoa(id)
			g.labels = append(g.labels, lbl)
			g.loopLb = append(g.loopLb, lbl)
		}
		g.loops++
		body := g.block(Log(Str("B"+strconv.Itoa(id))), 1+g.draw(2, "bl"))
		g.loops--
		var head *Node
		switch g.draw(3, "head") {
		case 0:
			head = VarDecl("let", Declarator(Id("v"+strconv.Itoa(id)), nil))
		case 1:
			head = VarDecl("const", Declarator(ArrPat(Id("a"+strconv.Itoa(id))), nil))
		default:
			head = VarDecl("var", Declarator(Id("w"+strconv.Itoa(id)), nil))
		}
		it := g.iterable(id)
		if head.Kids[0].Kids[0].K == "arrpat" {
			it = Arr(Arr(Num(1)), Arr(Num(2)))
		}
		st := ForOf(head, it, body)
		if lbl != "" {
			g.labels = g.labels[:len(g.labels)-1]
			g.loopLb = g.loopLb[:len(g.loopLb)-1]
			return Labeled(lbl, st)
		}
		return st
	case 10, 11:
		// one of the other loop kinds
		g.kinds["loop"]++
		id := strconv.Itoa(g.id())
		lbl := ""
		if g.draw(2, "lbl") == 0 {
			lbl = "L" + id
			g.labels = append(g.labels, lbl)
			g.loopLb = append(g.loopLb, lbl)
		}
		g.loops++
		body := g.block(Log(Str("B"+id)), 1+g.draw(2, "bl"))
		g.loops--
		i := "i" + id
		var st *Node
		switch g.draw(4, "lk") {
		case 0:
			st = For(VarDecl("let", Declarator(Id(i), Num(0))), Bin("<", Id(i), Num(2)), Update("++", false, Id(i)), body)
		case 1:
			st = Block(VarDecl("let", Declarator(Id(i), Num(0))), While(Bin("<", Update("++", false, Id(i)), Num(2)), body))
		case 2:
			st = Block(VarDecl("let", Declarator(Id(i), Num(0))), DoWhile(body, Bin("<", Update("++", true, Id(i)), Num(2))))
		default:
			st = ForIn(VarDecl("var", Declarator(Id("k"+id), nil)), Obj(Prop("p", Num(1)), Prop("q", Num(2))), body)
		}
		if lbl != "" {
			g.labels = g.labels[:len(g.labels)-1]
			g.loopLb = g.loopLb[:len(g.loopLb)-1]
			// a labelled block statement is not a loop label: only label the loop itself
			if st.K == "block" {
				st.Kids[len(st.Kids)-1] = Labeled(lbl, st.Kids[len(st.Kids)-1])
				return st
			}
			return Labeled(lbl, st)
		}
		return st
	case 12:
		// labelled block
		g.kinds["labelblock"]++
		lbl := "K" + strconv.Itoa(g.id())
		g.labels = append(g.labels, lbl)
		b := g.block(nil, 1+g.draw(3, "kb"))
		g.labels = g.labels[:len(g.labels)-1]
		return Labeled(lbl, b)
	case 13:
		// switch: break inside targets the switch
		g.kinds["switch"]++
		g.loops++ // a plain break is legal
		saveLoopLb := g.loopLb
		cs := []*Node{Case(Num(1), g.stmts(1+g.draw(2, "c1"))...), DefaultCase(g.stmts(g.draw(2, "cd"))...), Case(Num(2), g.stmts(g.draw(2, "c2"))...)}
		g.loops--
		g.loopLb = saveLoopLb
		// a plain continue inside the switch is only legal when a loop encloses it: replace stray ones
		st := Switch(Num(float64(1+g.draw(3, "disc"))), cs...)
		if g.loops == 0 {
			replaceContinue(st)
		}
		return st
	case 14:
		// array destructuring / spread / Array.from over an instrumented iterator (iterating built-ins)
		g.kinds["builtin-iter"]++
		id := g.id()
		it := g.iterable(id)
		switch g.draw(8, "bk") {
		case 5, 6, 7:
			// built-ins that iterate with a native callback and fail on the item itself (a number is not an entry /
			// not an object): the iterator must be closed. The definitional interpreter has no Map/WeakSet/fromEntries,
			// so these programs are judged by the trace-validity oracle alone.
			g.kinds["builtin-iter-native"]++
			var e *Node
			switch g.draw(4, "bn") {
			case 0:
				e = New(Id("Map"), it)
			case 1:
				e = New(Id("WeakSet"), it)
			case 2:
				e = Call(Dot(Id("Object"), "fromEntries"), it)
			default:
				e = New(Id("WeakMap"), it)
			}
			return Try(Block(ExprStmt(e)), Id("eb"+strconv.Itoa(id)), Block(Log(Str("caught-native"))), nil)
		case 0:
			return VarDecl("var", Declarator(ArrPat(Id("d"+strconv.Itoa(id))), it))
		case 1:
			return VarDecl("var", Declarator(ArrPat(nil, Id("d"+strconv.Itoa(id)), Rest(Id("r"+strconv.Itoa(id)))), it))
		case 2:
			return Log(Dot(Arr(Spread(it)), "length"))
		case 3:
			return Log(Dot(Call(Dot(Id("Array"), "from"), it, Func("function", "", Params(Id("x")), If(Bin("===", Id("x"), Num(2)), Throw(New(Id("Error"), Str("mapfn"))), nil), Return(Id("x")))), "length"))
		default:
			return ExprStmt(Assign("=", ArrPat(Dot(Obj(), "p"), Idx(Obj(), Call(Func("function", "", Params(), Throw(New(Id("Error"), Str("key"))))))), it))
		}
	case 15:
		// with
		g.kinds["with"]++
		return With(Obj(Prop("wv", Num(1))), g.block(nil, 1+g.draw(2, "wb")))
	case 16:
		g.kinds["if"]++
		return If(Bin("<", Num(float64(g.draw(2, "ifc"))), Num(1)), g.block(nil, 1), g.block(nil, 1))
	}
	return g.marker()
}

func replaceContinue(n *Node) {
	for i, k := range n.Kids {
		if k == nil {
			continue
		}
		if k.K == "continue" && k.S == "" {
			n.Kids[i] = Break("")
			continue
		}
		switch k.K {
		case "for", "forin", "forof", "while", "dowhile", "func", "funcdecl":
			continue
		}
		replaceContinue(k)
	}
}

// Case is a generated program.
type CFCase struct {
	Prog     *Node  `json:"prog"`
	Strict   bool   `json:"strict"`
	Sloppy   bool   `json:"-"`
	Source   string `json:"source,omitempty"`
	HasWith  bool   `json:"has_with"`
	Abrupt   int    `json:"-"`
	Crossing bool   `json:"-"`
}

var helperProg = j0.JS(helpers)

func genCase(t *rapid.T) (*CFCase, *gen) {
	g := &gen{t: t, budget: rapid.IntRange(4, 40).Draw(t, "budget"), kinds: map[string]int{}, abrupt: map[string]int{}}
	body := g.stmts(1 + g.draw(4, "n"))
	fn := FuncDecl("function", "main", Params(), body...)
	prog := helperProg.Clone()
	prog.Kids = append(prog.Kids, fn,
		Try(Block(Log(Arr(Str("result"), Call(Id("main"))))), Id("ex"), Block(Log(Arr(Str("threw"), Id("ex")))), nil),
		Log(Str("end")))
	c := &CFCase{Prog: prog, Strict: g.kinds["with"] == 0 && rapid.Bool().Draw(t, "strict"), HasWith: g.kinds["with"] > 0}
	return c, g
}

// ---- trace validity (independent of the interpreter) ----

var reEvt = regexp.MustCompile(`^"?([TCF])(\d+)"?$`)
var reIt = regexp.MustCompile(`^"?(it\d+#\d+)\.(next d=(true|false)|next throws|next nonobject|return|iter \w+|yield \d+|exhausted|genfinally)"?$`)

var reNest = regexp.MustCompile(`^"?(it\d+)(i?)#\d+\.(nyield \d+|loopfinally \d+|nexhausted|return|next d=(?:true|false)|iter \w+)"?$`)

// checkTrace applies the bracket discipline and the iterator-close rules to a log.
func checkTrace(log []string, finIDs map[string]bool) string {
	var stack []string // open try regions that have a finally
	type itState struct {
		done, threw, closed bool
		returns             int
		isGen, capable      bool
	}
	its := map[string]*itState{}
	nestPending := map[string]string{}
	var order []string
	for _, raw := range log {
		e := strings.Trim(raw, `"`)
		if m := reEvt.FindStringSubmatch(e); m != nil {
			id := m[2]
			switch m[1] {
			case "T":
				if finIDs[id] {
					stack = append(stack, id)
				}
			case "F":
				if len(stack) == 0 || stack[len(stack)-1] != id {
					return fmt.Sprintf("finally F%s ran while the innermost pending finally is %v (not LIFO / ran twice / ran without its try)", id, stack)
				}
				stack = stack[:len(stack)-1]
			}
			continue
		}
		if m := reNest.FindStringSubmatch(e); m != nil && (m[2] == "i" || strings.HasPrefix(m[3], "n") && !strings.HasPrefix(m[3], "next") || strings.HasPrefix(m[3], "loopfinally")) {
			// genNested: every suspension inside its try is matched by its finally before the next one,
			// before the inner iterator is closed and before the program ends
			site, inner := m[1], m[2] == "i"
			switch {
			case !inner && strings.HasPrefix(m[3], "nyield "):
				if nestPending[site] != "" {
					return fmt.Sprintf("nested generator %s: resumed although the finally of its previous suspension (%s) has not run", site, nestPending[site])
				}
				nestPending[site] = strings.TrimPrefix(m[3], "nyield ")
			case !inner && strings.HasPrefix(m[3], "loopfinally "):
				if x := strings.TrimPrefix(m[3], "loopfinally "); nestPending[site] != x {
					return fmt.Sprintf("nested generator %s: finally for %s ran while pending is %q (twice / without suspension)", site, x, nestPending[site])
				}
				nestPending[site] = ""
			case inner && m[3] == "return":
				if nestPending[site] != "" {
					return fmt.Sprintf("nested generator %s: its inner iterator was closed before the pending finally block (%s) ran", site, nestPending[site])
				}
			}
			continue
		}
		if m := reIt.FindStringSubmatch(e); m != nil {
			id := m[1]
			st := its[id]
			if st == nil {
				st = &itState{}
				its[id] = st
				order = append(order, id)
			}
			switch {
			case strings.HasPrefix(m[2], "next d="):
				if st.done || st.threw || st.returns > 0 {
					return fmt.Sprintf("iterator %s: next() called after it reported done / threw / was closed", id)
				}
				st.done = m[3] == "true"
			case m[2] == "next throws", m[2] == "next nonobject":
				st.threw = true
			case strings.HasPrefix(m[2], "iter "):
				st.capable = m[2] != "iter noReturn"
			case m[2] == "return":
				if st.done || st.threw {
					return fmt.Sprintf("iterator %s: return() called after next() reported done or threw", id)
				}
				st.returns++
				if st.returns > 1 {
					return fmt.Sprintf("iterator %s: return() called %d times", id, st.returns)
				}
			case strings.HasPrefix(m[2], "yield"):
				st.isGen = true
			case m[2] == "exhausted":
				st.done = true
			case m[2] == "genfinally":
				st.isGen = true
				st.returns++
				if st.returns > 1 {
					return fmt.Sprintf("generator %s: its finally block ran %d times", id, st.returns)
				}
			}
		}
	}
	if len(stack) > 0 {
		return fmt.Sprintf("the program ended with pending finally blocks that never ran: %v", stack)
	}
	for site, x := range nestPending {
		if x != "" {
			return fmt.Sprintf("nested generator %s was left suspended in its try block (%s) and its finally never ran although the consumer finished", site, x)
		}
	}
	for _, id := range order {
		st := its[id]
		if st.isGen {
			if st.returns != 1 {
				return fmt.Sprintf("generator %s was started but its finally block ran %d times (a started generator is either exhausted or closed: exactly once)", id, st.returns)
			}
			continue
		}
		if !st.done && !st.threw && st.returns != 1 && st.capable {
			return fmt.Sprintf("iterator %s was left before exhaustion but return() was called %d times", id, st.returns)
		}
	}
	return ""
}

func finallyIDs(p *Node) map[string]bool {
	ids := map[string]bool{}
	var walk func(n *Node)
	walk = func(n *Node) {
		if n == nil {
			return
		}
		if n.K == "try" && len(n.Kids) == 4 && n.Kids[3] != nil {
			// first statement of the try block is Log("T<id>")
			if b := n.Kids[0]; b != nil && len(b.Kids) > 0 {
				if s := firstLogString(b.Kids[0]); strings.HasPrefix(s, "T") {
					ids[s[1:]] = true
				}
			}
		}
		for _, k := range n.Kids {
			walk(k)
		}
	}
	walk(p)
	return ids
}

func firstLogString(st *Node) string {
	if st == nil || st.K != "expr" || len(st.Kids) == 0 {
		return ""
	}
	call := st.Kids[0]
	if call == nil || call.K != "call" || len(call.Kids) < 2 || call.Kids[1] == nil || call.Kids[1].K != "str" {
		return ""
	}
	return call.Kids[1].S
}

type verdict struct {
	f        *evid.Failure
	judged   bool
	crossing bool
}

func judge(c *CFCase) verdict {
	var v verdict
	opt := Options{Strict: c.Strict, Placement: "global", MaxSteps: 50000}
	ref := Run(c.Prog, opt)
	traceOnly := false
	if ref.Unsupported != "" {
		if !strings.Contains(ref.Unsupported, "Map") && !strings.Contains(ref.Unsupported, "WeakSet") && !strings.Contains(ref.Unsupported, "fromEntries") {
			evid.Excluded("refjs: unsupported construct")
			return v
		}
		// a built-in the interpreter does not have: the interpreter-independent oracle still applies
		traceOnly = true
		evid.Count("trace-oracle-only")
	} else if ref.Fuel {
		evid.Excluded("refjs: fuel exhausted")
		return v
	}
	src := Source(c.Prog, opt)
	c.Source = src
	g := gojarun.Run(src, 0, 0)
	if g.HostError != "" {
		h := g.HostError
		if i := strings.IndexByte(h, '\n'); i > 0 {
			h = h[:i]
		}
		if len(h) > 80 {
			h = h[:80]
		}
		v.f = &evid.Failure{Check: "controlflow", Key: "host:" + h, Msg: fmt.Sprintf("goja did not complete the program: %s\n%s\nsource:\n%s", g.HostError, g.PanicStack, src), Case: c}
		return v
	}
	v.judged = true
	// (1) trace validity, no interpreter involved
	if msg := checkTrace(g.Log, finallyIDs(c.Prog)); msg != "" {
		v.f = &evid.Failure{Check: "controlflow", Key: "trace:" + strings.SplitN(msg, " ", 3)[0], Msg: fmt.Sprintf("trace validity: %s\n  goja log: %v\nsource:\n%s", msg, g.Log, src), Case: c}
		return v
	}
	if traceOnly {
		return v
	}
	// (2) exact trace, completion and exception equal the definitional interpreter
	if !reflect.DeepEqual(g.Log, ref.Log) || g.Exception != ref.Exception || g.Completion != ref.Completion {
		what := "log"
		if reflect.DeepEqual(g.Log, ref.Log) {
			what = "completion/exception"
		}
		v.f = &evid.Failure{Check: "controlflow", Key: "def:" + what, Msg: fmt.Sprintf("goja and the definitional interpreter disagree on the %s (strict=%v)\n  goja : log=%v completion=%s exception=%s\n  spec : log=%v completion=%s exception=%s\nsource:\n%s", what, c.Strict, g.Log, g.Completion, g.Exception, ref.Log, ref.Completion, ref.Exception, src), Case: c}
		return v
	}
	// non-triviality: an abrupt completion crossed a finally and an iterator, or happened inside finally/catch
	nf, ni := 0, 0
	for _, e := range g.Log {
		e = strings.Trim(e, `"`)
		if strings.HasPrefix(e, "F") {
			nf++
		}
		if strings.HasSuffix(e, ".return") || strings.HasSuffix(e, ".genfinally") {
			ni++
		}
	}
	v.crossing = nf > 0 && ni > 0 || nf > 1
	return v
}

func TestQuickControlFlow(t *testing.T) {
	evid.Check(t, "controlflow", 30000, 6, func(t *rapid.T) {
		c, g := genCase(t)
		v := judge(c)
		evid.Case(c.Source, v.judged && v.crossing)
		for k, n := range g.kinds {
			evid.CountN("construct:"+k, int64(n))
		}
		for k, n := range g.abrupt {
			evid.CountN("abrupt:"+k, int64(n))
		}
		if v.judged {
			evid.Count("judged")
		}
		evid.Sample("controlflow", map[string]interface{}{"strict": c.Strict, "source": c.Source})
		evid.Judge(t, v.f)
	})
}

func TestReplay(t *testing.T) {
	p := os.Getenv("VERIF_REPLAY")
	if p == "" {
		t.Skip("no VERIF_REPLAY")
	}
	_, raw, err := evid.LoadReplay(p)
	if err != nil {
		t.Fatal(err)
	}
	var c CFCase
	if err := json.Unmarshal(raw, &c); err != nil {
		t.Fatal(err)
	}
	evid.Direct(t, judge(&c).f)
}
