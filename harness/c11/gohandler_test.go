package c11

import (
	"strconv"
	"strings"

	"github.com/dop251/goja"
)

// jsFn fetches a global function of the prelude.
func jsFn(vm *goja.Runtime, name string) goja.Callable {
	f, ok := goja.AssertFunction(vm.Get(name))
	if !ok {
		panic("prelude function missing: " + name)
	}
	return f
}

// mustCall calls f and rethrows a script exception into the engine (a Go trap propagates an
// exception by panicking with the thrown value).
func mustCall(f goja.Callable, this goja.Value, args ...goja.Value) goja.Value {
	v, err := f(this, args...)
	if err != nil {
		if ex, ok := err.(*goja.Exception); ok {
			panic(ex.Value())
		}
		panic(err)
	}
	return v
}

func descFromJS(vm *goja.Runtime, v goja.Value) goja.PropertyDescriptor {
	var d goja.PropertyDescriptor
	o, ok := v.(*goja.Object)
	if !ok {
		return d
	}
	for _, k := range o.Keys() {
		x := o.Get(k)
		switch k {
		case "value":
			d.Value = x
		case "get":
			d.Getter = x
		case "set":
			d.Setter = x
		case "writable":
			d.Writable = goja.ToFlag(x.ToBoolean())
		case "enumerable":
			d.Enumerable = goja.ToFlag(x.ToBoolean())
		case "configurable":
			d.Configurable = goja.ToFlag(x.ToBoolean())
		}
	}
	return d
}

func descToJS(vm *goja.Runtime, d goja.PropertyDescriptor) goja.Value {
	o := vm.NewObject()
	if d.Value != nil {
		o.Set("value", d.Value)
	}
	if d.Writable != goja.FLAG_NOT_SET {
		o.Set("writable", d.Writable.Bool())
	}
	if d.Getter != nil {
		o.Set("get", d.Getter)
	}
	if d.Setter != nil {
		o.Set("set", d.Setter)
	}
	if d.Enumerable != goja.FLAG_NOT_SET {
		o.Set("enumerable", d.Enumerable.Bool())
	}
	if d.Configurable != goja.FLAG_NOT_SET {
		o.Set("configurable", d.Configurable.Bool())
	}
	return o
}

// installGoLatticeProxy defines GOPROXY(target): a Proxy built with Runtime.NewProxy whose
// ProxyTrapConfig has the single trap of the lattice point (in the Str/Idx/Sym variants GoVar
// selects). Each trap renders its arguments into the trap log and obtains its result from the
// same JS helper the JS handler uses, converted to the Go return type.
func installGoLatticeProxy(vm *goja.Runtime, c *LCase) {
	dv, goTrap, descArg, listArg := jsFn(vm, "dv"), jsFn(vm, "goTrap"), jsFn(vm, "descArg"), jsFn(vm, "listArg")
	vm.Set("GOPROXY", func(target *goja.Object) goja.Value {
		var proxyVal goja.Value
		w := func(x goja.Value) string {
			if x == nil {
				return "nil"
			}
			if o, ok := x.(*goja.Object); ok {
				if o == target {
					return "T"
				}
				if proxyVal != nil && o.SameAs(proxyVal) {
					return "P"
				}
			}
			return mustCall(dv, goja.Undefined(), x).String()
		}
		wo := func(o *goja.Object) string {
			if o == nil {
				return "null"
			}
			return w(o)
		}
		// run logs the call and returns the prescribed result; fwdArgs are the arguments Reflect.<trap> gets when the trap forwards
		run := func(log string, fwdArgs ...goja.Value) goja.Value {
			return mustCall(goTrap, goja.Undefined(), vm.ToValue(log), vm.NewArray(toIfaces(fwdArgs)...))
		}
		keyKind := "str"
		switch {
		case c.Key == `s:"2"`:
			keyKind = "idx"
		case len(c.Key) > 1 && c.Key[:2] == "y:":
			keyKind = "sym"
		}
		inst := func(variant string) bool {
			switch c.GoVar {
			case "both":
				return true
			case "str":
				return variant == "str"
			}
			return variant == keyKind
		}
		skey := func(s string) string { return "s:" + strconv.Quote(s) }
		t := c.Trap
		cfg := &goja.ProxyTrapConfig{}
		switch t {
		case "getPrototypeOf":
			cfg.GetPrototypeOf = func(tg *goja.Object) *goja.Object {
				r := run(t+"("+w(tg)+")", tg)
				if o, ok := r.(*goja.Object); ok {
					return o
				}
				return nil
			}
		case "setPrototypeOf":
			cfg.SetPrototypeOf = func(tg *goja.Object, proto *goja.Object) bool {
				var pv goja.Value = goja.Null()
				if proto != nil {
					pv = proto
				}
				return run(t+"("+w(tg)+","+wo(proto)+")", tg, pv).ToBoolean()
			}
		case "isExtensible":
			cfg.IsExtensible = func(tg *goja.Object) bool { return run(t+"("+w(tg)+")", tg).ToBoolean() }
		case "preventExtensions":
			cfg.PreventExtensions = func(tg *goja.Object) bool { return run(t+"("+w(tg)+")", tg).ToBoolean() }
		case "getOwnPropertyDescriptor":
			if inst("str") {
				cfg.GetOwnPropertyDescriptor = func(tg *goja.Object, prop string) goja.PropertyDescriptor {
					return descFromJS(vm, run(t+"("+w(tg)+","+skey(prop)+")", tg, vm.ToValue(prop)))
				}
			}
			if inst("idx") {
				cfg.GetOwnPropertyDescriptorIdx = func(tg *goja.Object, prop int) goja.PropertyDescriptor {
					return descFromJS(vm, run(t+"#idx("+w(tg)+","+strconv.Itoa(prop)+")", tg, vm.ToValue(strconv.Itoa(prop))))
				}
			}
			if inst("sym") {
				cfg.GetOwnPropertyDescriptorSym = func(tg *goja.Object, prop *goja.Symbol) goja.PropertyDescriptor {
					return descFromJS(vm, run(t+"#sym("+w(tg)+","+w(prop)+")", tg, prop))
				}
			}
		case "defineProperty":
			da := func(d goja.PropertyDescriptor) (string, goja.Value) {
				o := descToJS(vm, d)
				return mustCall(descArg, goja.Undefined(), o).String(), o
			}
			if inst("str") {
				cfg.DefineProperty = func(tg *goja.Object, key string, d goja.PropertyDescriptor) bool {
					s, o := da(d)
					return run(t+"("+w(tg)+","+skey(key)+","+s+")", tg, vm.ToValue(key), o).ToBoolean()
				}
			}
			if inst("idx") {
				cfg.DefinePropertyIdx = func(tg *goja.Object, key int, d goja.PropertyDescriptor) bool {
					s, o := da(d)
					return run(t+"#idx("+w(tg)+","+strconv.Itoa(key)+","+s+")", tg, vm.ToValue(strconv.Itoa(key)), o).ToBoolean()
				}
			}
			if inst("sym") {
				cfg.DefinePropertySym = func(tg *goja.Object, key *goja.Symbol, d goja.PropertyDescriptor) bool {
					s, o := da(d)
					return run(t+"#sym("+w(tg)+","+w(key)+","+s+")", tg, key, o).ToBoolean()
				}
			}
		case "has":
			if inst("str") {
				cfg.Has = func(tg *goja.Object, p string) bool {
					return run(t+"("+w(tg)+","+skey(p)+")", tg, vm.ToValue(p)).ToBoolean()
				}
			}
			if inst("idx") {
				cfg.HasIdx = func(tg *goja.Object, p int) bool {
					return run(t+"#idx("+w(tg)+","+strconv.Itoa(p)+")", tg, vm.ToValue(strconv.Itoa(p))).ToBoolean()
				}
			}
			if inst("sym") {
				cfg.HasSym = func(tg *goja.Object, p *goja.Symbol) bool {
					return run(t+"#sym("+w(tg)+","+w(p)+")", tg, p).ToBoolean()
				}
			}
		case "get":
			if inst("str") {
				cfg.Get = func(tg *goja.Object, p string, recv goja.Value) goja.Value {
					return run(t+"("+w(tg)+","+skey(p)+","+w(recv)+")", tg, vm.ToValue(p), recv)
				}
			}
			if inst("idx") {
				cfg.GetIdx = func(tg *goja.Object, p int, recv goja.Value) goja.Value {
					return run(t+"#idx("+w(tg)+","+strconv.Itoa(p)+","+w(recv)+")", tg, vm.ToValue(strconv.Itoa(p)), recv)
				}
			}
			if inst("sym") {
				cfg.GetSym = func(tg *goja.Object, p *goja.Symbol, recv goja.Value) goja.Value {
					return run(t+"#sym("+w(tg)+","+w(p)+","+w(recv)+")", tg, p, recv)
				}
			}
		case "set":
			if inst("str") {
				cfg.Set = func(tg *goja.Object, p string, v goja.Value, recv goja.Value) bool {
					return run(t+"("+w(tg)+","+skey(p)+","+w(v)+","+w(recv)+")", tg, vm.ToValue(p), v, recv).ToBoolean()
				}
			}
			if inst("idx") {
				cfg.SetIdx = func(tg *goja.Object, p int, v goja.Value, recv goja.Value) bool {
					return run(t+"#idx("+w(tg)+","+strconv.Itoa(p)+","+w(v)+","+w(recv)+")", tg, vm.ToValue(strconv.Itoa(p)), v, recv).ToBoolean()
				}
			}
			if inst("sym") {
				cfg.SetSym = func(tg *goja.Object, p *goja.Symbol, v goja.Value, recv goja.Value) bool {
					return run(t+"#sym("+w(tg)+","+w(p)+","+w(v)+","+w(recv)+")", tg, p, v, recv).ToBoolean()
				}
			}
		case "deleteProperty":
			if inst("str") {
				cfg.DeleteProperty = func(tg *goja.Object, p string) bool {
					return run(t+"("+w(tg)+","+skey(p)+")", tg, vm.ToValue(p)).ToBoolean()
				}
			}
			if inst("idx") {
				cfg.DeletePropertyIdx = func(tg *goja.Object, p int) bool {
					return run(t+"#idx("+w(tg)+","+strconv.Itoa(p)+")", tg, vm.ToValue(strconv.Itoa(p))).ToBoolean()
				}
			}
			if inst("sym") {
				cfg.DeletePropertySym = func(tg *goja.Object, p *goja.Symbol) bool {
					return run(t+"#sym("+w(tg)+","+w(p)+")", tg, p).ToBoolean()
				}
			}
		case "ownKeys":
			cfg.OwnKeys = func(tg *goja.Object) *goja.Object {
				r := run(t+"("+w(tg)+")", tg)
				o, _ := r.(*goja.Object)
				return o
			}
		case "apply":
			cfg.Apply = func(tg *goja.Object, this goja.Value, args []goja.Value) goja.Value {
				arr := vm.NewArray(toIfaces(args)...)
				return run(t+"("+w(tg)+","+w(this)+","+mustCall(listArg, goja.Undefined(), arr).String()+")", tg, this, arr)
			}
		case "construct":
			cfg.Construct = func(tg *goja.Object, args []goja.Value, nt *goja.Object) *goja.Object {
				arr := vm.NewArray(toIfaces(args)...)
				r := run(t+"("+w(tg)+","+mustCall(listArg, goja.Undefined(), arr).String()+","+wo(nt)+")", tg, arr, nt)
				o, _ := r.(*goja.Object)
				return o
			}
		}
		proxyVal = vm.ToValue(vm.NewProxy(target, cfg))
		return proxyVal
	})
}

func toIfaces(vs []goja.Value) []interface{} {
	out := make([]interface{}, len(vs))
	for i, v := range vs {
		out[i] = v
	}
	return out
}

// goTrapNames: bit i of a Go layer's mask installs the i-th field of ProxyTrapConfig.
var goTrapNames = []string{"GetPrototypeOf", "SetPrototypeOf", "IsExtensible", "PreventExtensions",
	"GetOwnPropertyDescriptor", "GetOwnPropertyDescriptorIdx", "GetOwnPropertyDescriptorSym",
	"DefineProperty", "DefinePropertyIdx", "DefinePropertySym",
	"Has", "HasIdx", "HasSym", "Get", "GetIdx", "GetSym", "Set", "SetIdx", "SetSym",
	"DeleteProperty", "DeletePropertyIdx", "DeletePropertySym", "OwnKeys", "Apply", "Construct"}

const goAllTraps = 1<<25 - 1

type hostStruct struct {
	A int
	B string
	C []int
	d int
}

// hostStruct has no methods: goja reports a method as a non-writable, non-configurable data property whose value is a new function
// wrapper on every read, which no proxy can forward without breaking the [[Get]]/[[GetOwnProperty]] invariants (wrapper identity: C13).

// installGoForwarding defines GOFWD(target, mask, api): a Proxy built with Runtime.NewProxy whose
// installed traps forward to the target: through the Reflect functions captured in RF (called
// as Go Callables) or, with api=true and where goja's Go object API has an equivalent
// (Prototype, SetPrototype, Get, Set, Delete, DefineDataProperty, DefineAccessorProperty,
// AssertFunction, AssertConstructor), through that API. GOHOST(kind) makes a Go-backed host object.
func installGoForwarding(vm *goja.Runtime) {
	rf := vm.Get("RF").ToObject(vm)
	R := func(name string) goja.Callable {
		f, ok := goja.AssertFunction(rf.Get(name))
		if !ok {
			panic("RF." + name + " missing")
		}
		return f
	}
	rGetProto, rSetProto, rIsExt, rPrevExt := R("getPrototypeOf"), R("setPrototypeOf"), R("isExtensible"), R("preventExtensions")
	rGopd, rDefine, rHas, rGet, rSet, rDelete := R("getOwnPropertyDescriptor"), R("defineProperty"), R("has"), R("get"), R("set"), R("deleteProperty")
	rOwnKeys, rApply, rConstruct := R("ownKeys"), R("apply"), R("construct")
	sameTag := jsFn(vm, "sameTag")
	bump := jsFn(vm, "goTrapHit")
	u := goja.Undefined()
	objOrNull := func(o *goja.Object) goja.Value {
		if o == nil {
			return goja.Null()
		}
		return o
	}
	ck := func(err error) {
		if err != nil {
			if ex, ok := err.(*goja.Exception); ok {
				panic(ex.Value())
			}
			panic(err)
		}
	}
	typeErrorCtor := vm.Get("TypeError")
	// apiBool maps the error result of a Go object API call (which turns a false internal-method result into a TypeError) back to the
	// boolean a trap returns; any other exception is rethrown
	apiBool := func(err error) bool {
		if err == nil {
			return true
		}
		if ex, ok := err.(*goja.Exception); ok {
			if o, ok := ex.Value().(*goja.Object); ok && o.Get("constructor") == typeErrorCtor {
				return false
			}
			panic(ex.Value())
		}
		panic(err)
	}
	dvF, descArgF, logPush := jsFn(vm, "dv"), jsFn(vm, "descArg"), jsFn(vm, "push")
	vm.Set("GOFWD", func(target *goja.Object, mask int, api bool, name string) goja.Value {
		// with a name the layer logs "name:trap(args)" into LOG like the JS logging handler
		rd := func(v goja.Value) string {
			if v == nil {
				return "nil"
			}
			return mustCall(dvF, u, v).String()
		}
		lg := func(trap string, args ...string) {
			if name != "" {
				mustCall(logPush, u, vm.Get("LOG"), vm.ToValue(name+":"+trap+"("+strings.Join(args, ",")+")"))
			}
		}
		on := func(name string) bool {
			for i, n := range goTrapNames {
				if n == name {
					return mask&(1<<i) != 0
				}
			}
			panic("bad trap name " + name)
		}
		hit := func() { mustCall(bump, u) }
		own := func(recv goja.Value) bool {
			// the receiver is this subject itself (some proxy layer of it or the target)
			return api && mustCall(sameTag, u, recv, target).ToBoolean()
		}
		cfg := &goja.ProxyTrapConfig{}
		if on("GetPrototypeOf") {
			cfg.GetPrototypeOf = func(t *goja.Object) *goja.Object {
				hit()
				lg("getPrototypeOf")
				if api {
					return t.Prototype()
				}
				o, _ := mustCall(rGetProto, u, t).(*goja.Object)
				return o
			}
		}
		if on("SetPrototypeOf") {
			cfg.SetPrototypeOf = func(t *goja.Object, p *goja.Object) bool {
				hit()
				lg("setPrototypeOf", rd(objOrNull(p)))
				return mustCall(rSetProto, u, t, objOrNull(p)).ToBoolean()
			}
		}
		if on("IsExtensible") {
			cfg.IsExtensible = func(t *goja.Object) bool { hit(); lg("isExtensible"); return mustCall(rIsExt, u, t).ToBoolean() }
		}
		if on("PreventExtensions") {
			cfg.PreventExtensions = func(t *goja.Object) bool { hit(); lg("preventExtensions"); return mustCall(rPrevExt, u, t).ToBoolean() }
		}
		gopd := func(t *goja.Object, k goja.Value) goja.PropertyDescriptor {
			hit()
			lg("getOwnPropertyDescriptor", rd(k))
			return descFromJS(vm, mustCall(rGopd, u, t, k))
		}
		if on("GetOwnPropertyDescriptor") {
			cfg.GetOwnPropertyDescriptor = func(t *goja.Object, p string) goja.PropertyDescriptor { return gopd(t, vm.ToValue(p)) }
		}
		if on("GetOwnPropertyDescriptorIdx") {
			cfg.GetOwnPropertyDescriptorIdx = func(t *goja.Object, p int) goja.PropertyDescriptor {
				return gopd(t, vm.ToValue(strconv.Itoa(p)))
			}
		}
		if on("GetOwnPropertyDescriptorSym") {
			cfg.GetOwnPropertyDescriptorSym = func(t *goja.Object, p *goja.Symbol) goja.PropertyDescriptor { return gopd(t, p) }
		}
		define := func(t *goja.Object, k goja.Value, name string, d goja.PropertyDescriptor) bool {
			hit()
			lg("defineProperty", rd(k), mustCall(descArgF, u, descToJS(vm, d)).String())
			if api && name != "" {
				full := d.Enumerable != goja.FLAG_NOT_SET && d.Configurable != goja.FLAG_NOT_SET
				if full && d.Value != nil && d.Writable != goja.FLAG_NOT_SET {
					return apiBool(t.DefineDataProperty(name, d.Value, d.Writable, d.Configurable, d.Enumerable))
				}
				if full && d.Getter != nil && d.Setter != nil {
					return apiBool(t.DefineAccessorProperty(name, d.Getter, d.Setter, d.Configurable, d.Enumerable))
				}
			}
			return mustCall(rDefine, u, t, k, descToJS(vm, d)).ToBoolean()
		}
		if on("DefineProperty") {
			cfg.DefineProperty = func(t *goja.Object, k string, d goja.PropertyDescriptor) bool { return define(t, vm.ToValue(k), k, d) }
		}
		if on("DefinePropertyIdx") {
			cfg.DefinePropertyIdx = func(t *goja.Object, k int, d goja.PropertyDescriptor) bool {
				return define(t, vm.ToValue(strconv.Itoa(k)), strconv.Itoa(k), d)
			}
		}
		if on("DefinePropertySym") {
			cfg.DefinePropertySym = func(t *goja.Object, k *goja.Symbol, d goja.PropertyDescriptor) bool { return define(t, k, "", d) }
		}
		has := func(t *goja.Object, k goja.Value) bool {
			hit()
			lg("has", rd(k))
			return mustCall(rHas, u, t, k).ToBoolean()
		}
		if on("Has") {
			cfg.Has = func(t *goja.Object, p string) bool { return has(t, vm.ToValue(p)) }
		}
		if on("HasIdx") {
			cfg.HasIdx = func(t *goja.Object, p int) bool { return has(t, vm.ToValue(strconv.Itoa(p))) }
		}
		if on("HasSym") {
			cfg.HasSym = func(t *goja.Object, p *goja.Symbol) bool { return has(t, p) }
		}
		get := func(t *goja.Object, k goja.Value, name string, recv goja.Value) goja.Value {
			hit()
			lg("get", rd(k), rd(recv))
			if name != "" && own(recv) {
				var v goja.Value
				if ex := vm.Try(func() { v = t.Get(name) }); ex != nil {
					panic(ex.Value())
				}
				if v == nil {
					return u
				}
				return v
			}
			return mustCall(rGet, u, t, k, recv)
		}
		if on("Get") {
			cfg.Get = func(t *goja.Object, p string, recv goja.Value) goja.Value { return get(t, vm.ToValue(p), p, recv) }
		}
		if on("GetIdx") {
			cfg.GetIdx = func(t *goja.Object, p int, recv goja.Value) goja.Value {
				return get(t, vm.ToValue(strconv.Itoa(p)), strconv.Itoa(p), recv)
			}
		}
		if on("GetSym") {
			cfg.GetSym = func(t *goja.Object, p *goja.Symbol, recv goja.Value) goja.Value { return get(t, p, "", recv) }
		}
		set := func(t *goja.Object, k goja.Value, v goja.Value, recv goja.Value) bool {
			hit()
			lg("set", rd(k), rd(v), rd(recv))
			return mustCall(rSet, u, t, k, v, recv).ToBoolean()
		}
		if on("Set") {
			cfg.Set = func(t *goja.Object, p string, v goja.Value, recv goja.Value) bool {
				return set(t, vm.ToValue(p), v, recv)
			}
		}
		if on("SetIdx") {
			cfg.SetIdx = func(t *goja.Object, p int, v goja.Value, recv goja.Value) bool {
				return set(t, vm.ToValue(strconv.Itoa(p)), v, recv)
			}
		}
		if on("SetSym") {
			cfg.SetSym = func(t *goja.Object, p *goja.Symbol, v goja.Value, recv goja.Value) bool { return set(t, p, v, recv) }
		}
		del := func(t *goja.Object, k goja.Value, name string, sym *goja.Symbol) bool {
			hit()
			lg("deleteProperty", rd(k))
			if api {
				if sym != nil {
					return apiBool(t.DeleteSymbol(sym))
				}
				return apiBool(t.Delete(name))
			}
			return mustCall(rDelete, u, t, k).ToBoolean()
		}
		if on("DeleteProperty") {
			cfg.DeleteProperty = func(t *goja.Object, p string) bool { return del(t, vm.ToValue(p), p, nil) }
		}
		if on("DeletePropertyIdx") {
			cfg.DeletePropertyIdx = func(t *goja.Object, p int) bool { return del(t, vm.ToValue(strconv.Itoa(p)), strconv.Itoa(p), nil) }
		}
		if on("DeletePropertySym") {
			cfg.DeletePropertySym = func(t *goja.Object, p *goja.Symbol) bool { return del(t, p, "", p) }
		}
		if on("OwnKeys") {
			cfg.OwnKeys = func(t *goja.Object) *goja.Object { hit(); lg("ownKeys"); return mustCall(rOwnKeys, u, t).ToObject(vm) }
		}
		if on("Apply") {
			cfg.Apply = func(t *goja.Object, this goja.Value, args []goja.Value) goja.Value {
				hit()
				if api {
					if f, ok := goja.AssertFunction(t); ok {
						v, err := f(this, args...)
						ck(err)
						return v
					}
				}
				return mustCall(rApply, u, t, this, vm.NewArray(toIfaces(args)...))
			}
		}
		if on("Construct") {
			cfg.Construct = func(t *goja.Object, args []goja.Value, nt *goja.Object) *goja.Object {
				hit()
				if api {
					if f, ok := goja.AssertConstructor(t); ok {
						o, err := f(nt, args...)
						ck(err)
						return o
					}
				}
				return mustCall(rConstruct, u, t, vm.NewArray(toIfaces(args)...), nt).ToObject(vm)
			}
		}
		return vm.ToValue(vm.NewProxy(target, cfg))
	})
	vm.Set("GOHOST", func(kind string) goja.Value {
		switch kind {
		case "gomap":
			return vm.ToValue(map[string]interface{}{"a": 1})
		case "gomapref":
			return vm.ToValue(map[string]int{"a": 1})
		case "goslice":
			return vm.ToValue([]interface{}{1, "two", 3.5})
		case "gostruct":
			return vm.ToValue(&hostStruct{A: 1, B: "b", C: []int{1, 2}})
		}
		panic(vm.NewTypeError("unknown host kind " + kind))
	})
}
