package c11

import (
	"os"
	"testing"

	"github.com/dop251/goja"
	"pgregory.net/rapid"
)

// TestDbg runs the script in $C11_JS on a runtime with the preludes loaded (development aid).
func TestDbg(t *testing.T) {
	src := os.Getenv("C11_JS")
	if src == "" {
		t.Skip("no C11_JS")
	}
	vm := goja.New()
	vm.RunProgram(preludePrg)
	vm.RunProgram(latticePrg)
	vm.RunProgram(lockstepPrg)
	installGoForwarding(vm)
	v, err := vm.RunString(src)
	t.Logf("value=%v err=%v", v, err)
}

// TestDbgTrapKeys tallies the failure keys of the trap-log check over many cases (development aid).
func TestDbgTrapKeys(t *testing.T) {
	if os.Getenv("C11_TALLY") == "" {
		t.Skip("no C11_TALLY")
	}
	keys := map[string]int{}
	first := map[string]string{}
	rapid.Check(t, func(rt *rapid.T) {
		c := genWCase(rt)
		f, _ := judgeWorld(c)
		if f != nil {
			keys[f.Key]++
			if first[f.Key] == "" {
				first[f.Key] = f.Msg + "\n" + c.Text()
			}
		}
	})
	for k, n := range keys {
		t.Logf("%5d %s\n%s", n, k, first[k])
	}
}
