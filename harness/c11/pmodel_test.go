package c11

// pmodel: an executable model of ordinary objects (ECMA-262 10.1) and Proxy exotic objects
// (10.5) whose handlers forward every installed trap to the corresponding Reflect function and
// log the call. It predicts, for an operation on any object of a small world (ordinary objects,
// proxies over them, proxies over proxies, proxies in prototype chains), the result, the exact
// sequence of trap and accessor calls, and the state of every ordinary object afterwards.
// Written from the specification text; values are dv() renderings.

import (
	"sort"
	"strconv"
	"strings"
)

type mprop struct {
	k       string
	acc     bool
	v, g, s string
	w, e, c bool
}

func (p *mprop) desc() *PDesc {
	if p.acc {
		return &PDesc{G: p.g, S: p.s, E: tf(p.e), C: tf(p.c)}
	}
	return &PDesc{V: p.v, W: tf(p.w), E: tf(p.e), C: tf(p.c)}
}

type mobj struct {
	tag   int
	proxy bool
	// ordinary
	props []*mprop
	ext   bool
	proto string // "null" | "o:N"
	// proxy
	target int
	traps  map[string]bool
	name   string
}

type mworld struct {
	objs map[int]*mobj
	log  []string
}

type mthrow struct{ name string }

func (w *mworld) throwType() { panic(mthrow{"TypeError"}) }

func (w *mworld) logf(s string) { w.log = append(w.log, s) }

func (w *mworld) obj(v string) *mobj {
	if !strings.HasPrefix(v, "o:") {
		return nil
	}
	n, _ := strconv.Atoi(v[2:])
	return w.objs[n]
}

func ref(o *mobj) string { return "o:" + strconv.Itoa(o.tag) }

func (o *mobj) find(k string) (int, *mprop) {
	for i, p := range o.props {
		if p.k == k {
			return i, p
		}
	}
	return -1, nil
}

// model functions of the registry: getters 900/901 return "g0"/"g1", setters 910/911 return undefined; all log
func (w *mworld) call(fn string, this string, args ...string) string {
	switch fn {
	case "o:900", "o:901":
		n := fn[len(fn)-1:]
		w.logf("G" + n + "(this=" + this + ")")
		return `s:"g` + n + `"`
	case "o:910", "o:911":
		n := fn[len(fn)-1:]
		a := "u"
		if len(args) > 0 {
			a = args[0]
		}
		w.logf("S" + n + "(this=" + this + "," + a + ")")
		return "u"
	}
	w.throwType()
	return ""
}

// ---- trap plumbing: trap(name) reports whether the proxy's handler has the trap; a present trap logs and forwards

func (w *mworld) trap(o *mobj, name string, args ...string) bool {
	if !o.traps[name] {
		return false
	}
	w.logf(o.name + ":" + name + "(" + strings.Join(args, ",") + ")")
	return true
}

// ---- [[GetPrototypeOf]]

func (w *mworld) getPrototypeOf(o *mobj) string {
	if !o.proxy {
		return o.proto // 10.1.1
	}
	t := w.objs[o.target]
	if !w.trap(o, "getPrototypeOf") { // 10.5.1 step 6
		return w.getPrototypeOf(t)
	}
	handlerProto := w.getPrototypeOf(t) // Reflect.getPrototypeOf(target)
	// 8. (an Object or null by construction)  9-10.
	if w.isExtensible(t) {
		return handlerProto
	}
	// 11-12.
	if targetProto := w.getPrototypeOf(t); targetProto != handlerProto {
		w.throwType()
	}
	return handlerProto
}

// ---- [[SetPrototypeOf]]

func (w *mworld) setPrototypeOf(o *mobj, v string) bool {
	if !o.proxy {
		// 10.1.2.1 OrdinarySetPrototypeOf
		if v == o.proto {
			return true
		}
		if !o.ext {
			return false
		}
		p := v
		for p != "null" {
			po := w.obj(p)
			if po == o {
				return false
			}
			if po.proxy { // p.[[GetPrototypeOf]] is not the ordinary method
				break
			}
			p = po.proto
		}
		o.proto = v
		return true
	}
	t := w.objs[o.target]
	if !w.trap(o, "setPrototypeOf", v) {
		return w.setPrototypeOf(t, v)
	}
	if !w.setPrototypeOf(t, v) { // 9.
		return false
	}
	if w.isExtensible(t) { // 10-11.
		return true
	}
	if targetProto := w.getPrototypeOf(t); targetProto != v { // 12-13.
		w.throwType()
	}
	return true
}

// ---- [[IsExtensible]]

func (w *mworld) isExtensible(o *mobj) bool {
	if !o.proxy {
		return o.ext
	}
	t := w.objs[o.target]
	if !w.trap(o, "isExtensible") {
		return w.isExtensible(t)
	}
	res := w.isExtensible(t)
	if targetResult := w.isExtensible(t); res != targetResult { // 8-9.
		w.throwType()
	}
	return res
}

// ---- [[PreventExtensions]]

func (w *mworld) preventExtensions(o *mobj) bool {
	if !o.proxy {
		o.ext = false
		return true
	}
	t := w.objs[o.target]
	if !w.trap(o, "preventExtensions") {
		return w.preventExtensions(t)
	}
	res := w.preventExtensions(t)
	if res { // 8.
		if w.isExtensible(t) {
			w.throwType()
		}
	}
	return res
}

// ---- [[GetOwnProperty]]

func (w *mworld) getOwnProperty(o *mobj, k string) *PDesc {
	if !o.proxy {
		if _, p := o.find(k); p != nil {
			return p.desc()
		}
		return nil
	}
	t := w.objs[o.target]
	if !w.trap(o, "getOwnPropertyDescriptor", k) {
		return w.getOwnProperty(t, k)
	}
	trapResult := w.getOwnProperty(t, k) // Reflect.getOwnPropertyDescriptor(target, P) -> FromPropertyDescriptor
	targetDesc := w.getOwnProperty(t, k) // 10.
	if trapResult == nil {               // 11.
		if targetDesc == nil {
			return nil
		}
		if targetDesc.C == "F" {
			w.throwType()
		}
		if !w.isExtensible(t) {
			w.throwType()
		}
		return nil
	}
	extensibleTarget := w.isExtensible(t) // 12.
	resultDesc := trapResult.complete()   // 13-14.
	if !isCompatible(extensibleTarget, &resultDesc, targetDesc) {
		w.throwType()
	}
	if resultDesc.C == "F" { // 17.
		if targetDesc == nil || targetDesc.C == "T" {
			w.throwType()
		}
		if resultDesc.W == "F" && targetDesc.W == "T" {
			w.throwType()
		}
	}
	return &resultDesc
}

// ---- [[DefineOwnProperty]]

func (w *mworld) defineOwnProperty(o *mobj, k string, d *PDesc) bool {
	if !o.proxy {
		// 10.1.6.1 OrdinaryDefineOwnProperty -> ValidateAndApplyPropertyDescriptor
		_, cur := o.find(k)
		var curDesc *PDesc
		if cur != nil {
			curDesc = cur.desc()
		}
		if !isCompatible(o.ext, d, curDesc) {
			return false
		}
		if cur == nil { // 2.c: create
			c := d.complete()
			np := &mprop{k: k, e: c.E == "T", c: c.C == "T"}
			if d.isAccessor() {
				np.acc, np.g, np.s = true, c.G, c.S
			} else {
				np.v, np.w = c.V, c.W == "T"
			}
			o.props = append(o.props, np)
			return true
		}
		// 6.
		switch {
		case !cur.acc && d.isAccessor(): // 6.a: data -> accessor, keeps configurable and enumerable
			cur.acc, cur.v, cur.w = true, "", false
			cur.g, cur.s = "u", "u"
		case cur.acc && d.isData(): // 6.b
			cur.acc, cur.g, cur.s = false, "", ""
			cur.v, cur.w = "u", false
		}
		if d.V != "" {
			cur.v = d.V
		}
		if d.W != "" {
			cur.w = d.W == "T"
		}
		if d.G != "" {
			cur.g = d.G
		}
		if d.S != "" {
			cur.s = d.S
		}
		if d.E != "" {
			cur.e = d.E == "T"
		}
		if d.C != "" {
			cur.c = d.C == "T"
		}
		return true
	}
	t := w.objs[o.target]
	if !w.trap(o, "defineProperty", k, d.trapDescArg()) {
		return w.defineOwnProperty(t, k, d)
	}
	if !w.defineOwnProperty(t, k, d) { // 9-10.
		return false
	}
	targetDesc := w.getOwnProperty(t, k)  // 11.
	extensibleTarget := w.isExtensible(t) // 12.
	settingConfigFalse := d.C == "F"
	if targetDesc == nil {
		if !extensibleTarget {
			w.throwType()
		}
		if settingConfigFalse {
			w.throwType()
		}
	} else {
		if !isCompatible(extensibleTarget, d, targetDesc) {
			w.throwType()
		}
		if settingConfigFalse && targetDesc.C == "T" {
			w.throwType()
		}
		if targetDesc.isData() && targetDesc.C == "F" && targetDesc.W == "T" && d.W == "F" {
			w.throwType()
		}
	}
	return true
}

// ---- [[HasProperty]]

func (w *mworld) hasProperty(o *mobj, k string) bool {
	if !o.proxy {
		// 10.1.7.1 OrdinaryHasProperty
		if w.getOwnProperty(o, k) != nil {
			return true
		}
		if parent := w.getPrototypeOf(o); parent != "null" {
			return w.hasProperty(w.obj(parent), k)
		}
		return false
	}
	t := w.objs[o.target]
	if !w.trap(o, "has", k) {
		return w.hasProperty(t, k)
	}
	res := w.hasProperty(t, k)
	if !res { // 9.
		if targetDesc := w.getOwnProperty(t, k); targetDesc != nil {
			if targetDesc.C == "F" {
				w.throwType()
			}
			if !w.isExtensible(t) {
				w.throwType()
			}
		}
	}
	return res
}

// ---- [[Get]]

func (w *mworld) get(o *mobj, k string, receiver string) string {
	if !o.proxy {
		// 10.1.8.1 OrdinaryGet
		desc := w.getOwnProperty(o, k)
		if desc == nil {
			parent := w.getPrototypeOf(o)
			if parent == "null" {
				return "u"
			}
			return w.get(w.obj(parent), k, receiver)
		}
		if desc.isData() {
			return desc.V
		}
		if desc.G == "u" {
			return "u"
		}
		return w.call(desc.G, receiver)
	}
	t := w.objs[o.target]
	if !w.trap(o, "get", k, receiver) {
		return w.get(t, k, receiver)
	}
	trapResult := w.get(t, k, receiver)
	if targetDesc := w.getOwnProperty(t, k); targetDesc != nil && targetDesc.C == "F" { // 9-10.
		if targetDesc.isData() && targetDesc.W == "F" && trapResult != targetDesc.V {
			w.throwType()
		}
		if targetDesc.isAccessor() && targetDesc.G == "u" && trapResult != "u" {
			w.throwType()
		}
	}
	return trapResult
}

// ---- [[Set]]

func (w *mworld) set(o *mobj, k string, v string, receiver string) bool {
	if !o.proxy {
		// 10.1.9.1 OrdinarySet / 10.1.9.2 OrdinarySetWithOwnDescriptor
		ownDesc := w.getOwnProperty(o, k)
		if ownDesc == nil {
			parent := w.getPrototypeOf(o)
			if parent != "null" {
				return w.set(w.obj(parent), k, v, receiver)
			}
			ownDesc = &PDesc{V: "u", W: "T", E: "T", C: "T"}
		}
		if ownDesc.isData() {
			if ownDesc.W == "F" {
				return false
			}
			r := w.obj(receiver)
			if r == nil {
				return false
			}
			existing := w.getOwnProperty(r, k)
			if existing != nil {
				if existing.isAccessor() {
					return false
				}
				if existing.W == "F" {
					return false
				}
				return w.defineOwnProperty(r, k, &PDesc{V: v})
			}
			return w.defineOwnProperty(r, k, &PDesc{V: v, W: "T", E: "T", C: "T"}) // CreateDataProperty
		}
		if ownDesc.S == "u" {
			return false
		}
		w.call(ownDesc.S, receiver, v)
		return true
	}
	t := w.objs[o.target]
	if !w.trap(o, "set", k, v, receiver) {
		return w.set(t, k, v, receiver)
	}
	if !w.set(t, k, v, receiver) { // 9.
		return false
	}
	if targetDesc := w.getOwnProperty(t, k); targetDesc != nil && targetDesc.C == "F" { // 10-11.
		if targetDesc.isData() && targetDesc.W == "F" && v != targetDesc.V {
			w.throwType()
		}
		if targetDesc.isAccessor() && targetDesc.S == "u" {
			w.throwType()
		}
	}
	return true
}

// ---- [[Delete]]

func (w *mworld) delete(o *mobj, k string) bool {
	if !o.proxy {
		i, p := o.find(k)
		if p == nil {
			return true
		}
		if p.c {
			o.props = append(o.props[:i], o.props[i+1:]...)
			return true
		}
		return false
	}
	t := w.objs[o.target]
	if !w.trap(o, "deleteProperty", k) {
		return w.delete(t, k)
	}
	if !w.delete(t, k) { // 9.
		return false
	}
	targetDesc := w.getOwnProperty(t, k) // 10.
	if targetDesc == nil {
		return true
	}
	if targetDesc.C == "F" {
		w.throwType()
	}
	if !w.isExtensible(t) { // 13-14.
		w.throwType()
	}
	return true
}

// ---- [[OwnPropertyKeys]]

func arrayIndexOf(k string) (int, bool) {
	if !strings.HasPrefix(k, `s:"`) {
		return 0, false
	}
	s := k[3 : len(k)-1]
	if s == "" || (len(s) > 1 && s[0] == '0') || len(s) > 9 {
		return 0, false
	}
	n, err := strconv.Atoi(s)
	if err != nil || n < 0 {
		return 0, false
	}
	return n, true
}

func (w *mworld) ownKeys(o *mobj) []string {
	if !o.proxy {
		// 10.1.11.1 OrdinaryOwnPropertyKeys: array indices ascending, then strings, then symbols, each in creation order
		var idx []int
		var strs, syms []string
		for _, p := range o.props {
			if n, ok := arrayIndexOf(p.k); ok {
				idx = append(idx, n)
			} else if strings.HasPrefix(p.k, "y:") {
				syms = append(syms, p.k)
			} else {
				strs = append(strs, p.k)
			}
		}
		sort.Ints(idx)
		out := make([]string, 0, len(o.props))
		for _, n := range idx {
			out = append(out, `s:"`+strconv.Itoa(n)+`"`)
		}
		return append(append(out, strs...), syms...)
	}
	t := w.objs[o.target]
	if !w.trap(o, "ownKeys") {
		return w.ownKeys(t)
	}
	trapResult := w.ownKeys(t)            // 7. (no duplicates, only keys: forwarding)
	extensibleTarget := w.isExtensible(t) // 9.
	targetKeys := w.ownKeys(t)            // 10.
	var conf, nonconf []string
	for _, k := range targetKeys { // 15-16.
		if d := w.getOwnProperty(t, k); d != nil && d.C == "F" {
			nonconf = append(nonconf, k)
		} else {
			conf = append(conf, k)
		}
	}
	if extensibleTarget && len(nonconf) == 0 {
		return trapResult
	}
	unchecked := map[string]bool{}
	for _, k := range trapResult {
		unchecked[k] = true
	}
	for _, k := range nonconf {
		if !unchecked[k] {
			w.throwType()
		}
		delete(unchecked, k)
	}
	if extensibleTarget {
		return trapResult
	}
	for _, k := range conf {
		if !unchecked[k] {
			w.throwType()
		}
		delete(unchecked, k)
	}
	if len(unchecked) != 0 {
		w.throwType()
	}
	return trapResult
}

// ---- state rendering (ordinary objects only), same format as the prelude's dump()

func (w *mworld) dump(o *mobj) string {
	s := "noext"
	if o.ext {
		s = "ext"
	}
	s += " proto=" + o.proto
	for _, k := range w.ownKeysRaw(o) {
		_, p := o.find(k)
		s += " | " + k + "=" + p.desc().render()
	}
	return s
}

func (w *mworld) ownKeysRaw(o *mobj) []string {
	c := &mobj{props: o.props}
	return w.ownKeys(c)
}
