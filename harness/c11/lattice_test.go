package c11

import (
	"encoding/json"
	"fmt"
	"strings"

	"github.com/dop251/goja"

	"verifh/internal/esmodel"
	"verifh/internal/evid"
	"verifh/internal/jsx"
)

var (
	preludePrg = goja.MustCompile("c11prelude.js", esmodel.PreludeJS, false)
	latticePrg = goja.MustCompile("c11lattice.js", latticeJS, false)
)

// KeyState is one additional own data property of the target (value 1, writable).
type KeyState struct {
	K string `json:"k"`
	E bool   `json:"e"`
	C bool   `json:"c"`
}

// LCase is one point of the trap-result lattice: a target state, one operation on a proxy whose
// handler has exactly one trap, and the result that trap returns.
type LCase struct {
	Trap   string     `json:"trap"`
	H      string     `json:"h"`               // js | go
	GoVar  string     `json:"govar,omitempty"` // go handler: which of the Str/Idx/Sym traps are installed: exact | str | both
	Surf   string     `json:"surf"`
	TKind  string     `json:"tkind,omitempty"` // "" plain object | func | arrow | class
	Key    string     `json:"key,omitempty"`
	NumKey bool       `json:"numkey,omitempty"` // the index key is passed to the operation as a Number instead of a String
	Ext    bool       `json:"ext"`
	Proto  string     `json:"proto"`
	Prop   *PDesc     `json:"prop,omitempty"` // own property of the target at Key (complete), nil = absent
	Keys   []KeyState `json:"keys,omitempty"`
	ArgD   *PDesc     `json:"argd,omitempty"` // defineProperty: the descriptor argument
	ArgV   string     `json:"argv,omitempty"` // set: value; setPrototypeOf: prototype
	Mutate bool       `json:"mutate,omitempty"`
	Res    Res        `json:"res"`
	// generated (non-enumerated) points only:
	SKind string            `json:"skind,omitempty"` // target built by the lock-step prelude's mkSubjectX (exotic kinds), tag 1
	Pre   []json.RawMessage `json:"pre,omitempty"`   // esmodel.Op records applied to the target first
	Inner bool              `json:"inner,omitempty"` // a forwarding proxy between the lying proxy and the target
}

func (c *LCase) Text() string { b, _ := json.Marshal(c); return string(b) }

type lrun struct {
	Out    string   `json:"out"`
	Log    []string `json:"log"`
	Before Facts    `json:"before"`
	Facts  Facts    `json:"facts"`
	Fwd    *Res     `json:"fwd"`
	FwdErr string   `json:"fwderr"` // the forwarded Reflect call inside the trap threw: the operation must throw the same
	Fns    []string `json:"fns"`    // renderings of further callable values seen in the trap result
}

var trapSurfaces = map[string][]string{
	"getPrototypeOf":           {"Reflect", "Object", "instanceof", "isProto"},
	"setPrototypeOf":           {"Reflect", "Object"},
	"isExtensible":             {"Reflect", "Object", "isFrozen", "isSealed"},
	"preventExtensions":        {"Reflect", "Object"},
	"getOwnPropertyDescriptor": {"Reflect", "Object", "hasOwn", "propIsEnum"},
	"defineProperty":           {"Reflect", "Object"},
	"has":                      {"Reflect", "in"},
	"get":                      {"Reflect", "member", "ReflectRecv"},
	"set":                      {"Reflect", "strict", "sloppy", "ReflectRecv"},
	"deleteProperty":           {"Reflect", "strict", "sloppy"},
	"ownKeys":                  {"Reflect", "names", "symbols", "keys"},
	"apply":                    {"call", "Reflect", "dotcall"},
	"construct":                {"new", "Reflect", "ReflectNT"},
}

var allTraps = []string{"getPrototypeOf", "setPrototypeOf", "isExtensible", "preventExtensions", "getOwnPropertyDescriptor", "defineProperty",
	"has", "get", "set", "deleteProperty", "ownKeys", "apply", "construct"}

var latticeKeys = []string{`s:"k"`, `s:"2"`, "y:0"}

var strictBools = []string{"b:true", "b:false"}
var looseBools = []string{"d:1", "d:0", `s:""`, `s:"x"`, "u", "null", "d:NaN", "d:-0", "o:702", "y:0"}

// propStates: absent, every complete data descriptor over 4 values, every complete accessor descriptor.
func propStates() []*PDesc {
	out := []*PDesc{nil}
	for _, v := range []string{"d:1", "d:0", "d:NaN", "u"} {
		for i := 0; i < 8; i++ {
			out = append(out, &PDesc{V: v, W: tf(i&1 != 0), E: tf(i&2 != 0), C: tf(i&4 != 0)})
		}
	}
	for _, g := range []string{"u", "o:900"} {
		for _, s := range []string{"u", "o:910"} {
			for i := 0; i < 4; i++ {
				out = append(out, &PDesc{G: g, S: s, E: tf(i&1 != 0), C: tf(i&2 != 0)})
			}
		}
	}
	return out
}

func flip(f string) string {
	if f == "T" {
		return "F"
	}
	return "T"
}

var valuePool = []string{"d:1", "d:2", "d:0", "d:-0", "d:NaN", "u", "o:702"}

// descResults: the descriptor-shaped trap results for a target property state: the honest one
// and every one differing from it in exactly one field (changed or dropped), the kind swap, and
// for an absent property every complete data descriptor plus two accessor ones.
func descResults(st *PDesc) []*PDesc {
	var out []*PDesc
	add := func(d PDesc) { out = append(out, &d) }
	if st == nil {
		for i := 0; i < 8; i++ {
			add(PDesc{V: "d:1", W: tf(i&1 != 0), E: tf(i&2 != 0), C: tf(i&4 != 0)})
		}
		add(PDesc{G: "o:900", S: "u", E: "T", C: "T"})
		add(PDesc{G: "o:900", S: "u", E: "T", C: "F"})
		add(PDesc{})
		add(PDesc{C: "T"})
		return out
	}
	add(*st)
	d := *st
	d.E = flip(d.E)
	add(d)
	d = *st
	d.C = flip(d.C)
	add(d)
	d = *st
	d.E = ""
	add(d)
	d = *st
	d.C = ""
	add(d)
	if st.isData() {
		for _, v := range valuePool {
			if v != st.V {
				d = *st
				d.V = v
				add(d)
			}
		}
		d = *st
		d.W = flip(d.W)
		add(d)
		d = *st
		d.V = ""
		add(d)
		d = *st
		d.W = ""
		add(d)
		add(PDesc{G: "o:900", S: "u", E: st.E, C: st.C})
		add(PDesc{G: "u", S: "u", E: st.E, C: st.C})
		add(PDesc{E: st.E, C: st.C}) // generic: completed to a data descriptor with value undefined
	} else {
		for _, g := range []string{"u", "o:900", "o:901"} {
			if g != st.G {
				d = *st
				d.G = g
				add(d)
			}
		}
		for _, s := range []string{"u", "o:910", "o:911"} {
			if s != st.S {
				d = *st
				d.S = s
				add(d)
			}
		}
		d = *st
		d.G = ""
		add(d)
		d = *st
		d.S = ""
		add(d)
		add(PDesc{V: "d:1", W: "T", E: st.E, C: st.C})
		add(PDesc{V: "u", W: "F", E: st.E, C: st.C})
	}
	return out
}

// invalidDescs make ToPropertyDescriptor throw.
var invalidDescs = []*PDesc{{G: "d:1", E: "T", C: "T"}, {S: `s:"x"`, E: "T", C: "T"}, {V: "d:1", G: "o:900", C: "T"}, {W: "T", S: "o:910", C: "T"}, {G: "o:702"}}

// defineArgs: the Desc arguments of [[DefineOwnProperty]] for a target property state: the
// descriptors of descResults (equal to the state, one field changed or dropped, kind swapped),
// every single-field descriptor and the empty one.
func defineArgs(st *PDesc) []*PDesc {
	out := descResults(st)
	add := func(d PDesc) { out = append(out, &d) }
	for _, v := range valuePool {
		add(PDesc{V: v})
	}
	for _, f := range []string{"T", "F"} {
		add(PDesc{W: f})
		add(PDesc{E: f})
		add(PDesc{C: f})
		add(PDesc{V: "d:1", W: f})
		add(PDesc{G: "o:900", C: f})
	}
	for _, g := range []string{"u", "o:900", "o:901"} {
		add(PDesc{G: g})
	}
	for _, x := range []string{"u", "o:910", "o:911"} {
		add(PDesc{S: x})
	}
	add(PDesc{})
	add(PDesc{G: "o:900", S: "o:910"})
	return out
}

// ownKeysTargets: own keys of the target in OrdinaryOwnPropertyKeys order (index, strings, symbols).
var ownKeysTargets = [][]KeyState{
	{},
	{{K: `s:"a"`, E: true, C: true}},
	{{K: `s:"b"`, E: true, C: false}},
	{{K: `s:"a"`, E: true, C: true}, {K: `s:"b"`, E: false, C: false}},
	{{K: `s:"1"`, E: true, C: false}, {K: `s:"a"`, E: true, C: true}, {K: `s:"b"`, E: true, C: false}, {K: "y:1", E: true, C: true}, {K: "y:2", E: false, C: false}},
}

func ownKeysResults(keys []KeyState) []Res {
	var honest []string
	for _, k := range keys {
		honest = append(honest, k.K)
	}
	cp := func(extra ...string) []string { return append(append([]string{}, honest...), extra...) }
	out := []Res{{Kind: "keys", Keys: cp()}, {Kind: "alike", Keys: cp()}}
	for i := range honest { // one key missing
		var m []string
		m = append(m, honest[:i]...)
		m = append(m, honest[i+1:]...)
		if m == nil {
			m = []string{}
		}
		out = append(out, Res{Kind: "keys", Keys: m})
	}
	for _, x := range []string{`s:"z"`, "y:0", `s:"7"`, `s:""`} { // one extra key
		out = append(out, Res{Kind: "keys", Keys: cp(x)})
		out = append(out, Res{Kind: "keys", Keys: append([]string{x}, honest...)})
	}
	for _, k := range honest { // one duplicate
		out = append(out, Res{Kind: "keys", Keys: cp(k)})
	}
	out = append(out, Res{Kind: "keys", Keys: cp(`s:"z"`, `s:"z"`)}, Res{Kind: "keys", Keys: cp("y:0", `s:"q"`, "y:0")})
	if len(honest) > 1 { // permutation
		var r []string
		for i := len(honest) - 1; i >= 0; i-- {
			r = append(r, honest[i])
		}
		out = append(out, Res{Kind: "keys", Keys: r})
	}
	for _, x := range []string{"d:1", "u", "null", "b:true", "o:702", "hole", "d:NaN"} { // one entry that is not a property key
		out = append(out, Res{Kind: "keys", Keys: cp(x)})
		out = append(out, Res{Kind: "alike", Keys: append([]string{x}, honest...)})
	}
	for _, v := range []string{"u", "null", "d:1", `s:"ab"`, "b:true", "y:0", "o:702"} {
		out = append(out, Res{Kind: "val", V: v})
	}
	return out
}

// latticeOpts selects the extra dimensions around the core lattice.
type latticeOpts struct {
	allSurfaces bool // every surface syntax of the operation instead of the Reflect.* one
	looseBools  bool // truthy / falsy non-boolean results for boolean traps
	allGoVars   bool // go handler: every Str/Idx/Sym installation variant for every trap
	goHandler   bool // the ProxyTrapConfig handler instead of a JS handler (points the Go API cannot express are skipped)
}

// enumerateLattice visits every lattice point of one trap.
func enumerateLattice(trap string, o latticeOpts, visit func(c *LCase)) {
	surfs := trapSurfaces[trap]
	if !o.allSurfaces {
		surfs = surfs[:1]
	}
	bools := append([]string{}, strictBools...)
	if o.looseBools && !o.goHandler {
		bools = append(bools, looseBools...)
	}
	var emit1 func(c LCase)
	emit := func(c LCase) {
		emit1(c)
		if c.Key == `s:"2"` && trap != "isExtensible" {
			c.NumKey = true
			emit1(c)
		}
	}
	emit1 = func(c LCase) {
		c.Trap = trap
		if c.Proto == "" {
			c.Proto = "o:700"
		}
		for _, s := range surfs {
			c.Surf = s
			if !o.goHandler {
				c.H = "js"
				cc := c
				visit(&cc)
				continue
			}
			c.H = "go"
			if !goExpressible(&c) {
				continue
			}
			vars := []string{"exact", "both"}
			if c.Key == `s:"2"` {
				vars = []string{"exact", "str", "both"}
			}
			if !o.allGoVars && c.NumKey && (trap == "defineProperty" || trap == "set") {
				continue // the two largest families: Number keys through the Go handler only in the full enumeration (and in lattice-rand)
			} else if !o.allGoVars && trap == "defineProperty" {
				vars = vars[:len(vars)-1] // the largest family: the all-three-traps-installed variant only in the full enumeration
			}
			if c.Key == "" {
				vars = []string{"exact"}
			}
			for _, v := range vars {
				c.GoVar = v
				cc := c
				visit(&cc)
			}
		}
	}
	val := func(v string) Res { return Res{Kind: "val", V: v} }
	switch trap {
	case "getPrototypeOf":
		for _, proto := range []string{"null", "o:700"} {
			for _, ext := range []bool{true, false} {
				for _, r := range []string{"null", "o:700", "o:701", "u", "d:5", `s:"x"`, "b:true", "y:0", "d:NaN"} {
					emit(LCase{Proto: proto, Ext: ext, Res: val(r)})
				}
			}
		}
	case "setPrototypeOf":
		for _, proto := range []string{"null", "o:700"} {
			for _, ext := range []bool{true, false} {
				for _, v := range []string{"null", "o:700", "o:701"} {
					for _, r := range bools {
						emit(LCase{Proto: proto, Ext: ext, ArgV: v, Res: val(r)})
					}
					emit(LCase{Proto: proto, Ext: ext, ArgV: v, Mutate: true, Res: Res{Kind: "fwd"}})
					emit(LCase{Proto: proto, Ext: ext, ArgV: v, Mutate: true, Res: val("b:true")})
				}
			}
		}
	case "isExtensible":
		states := []*PDesc{nil, {V: "d:1", W: "T", E: "T", C: "T"}, {V: "d:1", W: "F", E: "T", C: "T"}, {V: "d:1", W: "T", E: "T", C: "F"}, {V: "d:1", W: "F", E: "T", C: "F"},
			{G: "o:900", S: "u", E: "T", C: "T"}, {G: "o:900", S: "u", E: "T", C: "F"}}
		for _, st := range states {
			for _, ext := range []bool{true, false} {
				for _, r := range bools {
					emit(LCase{Key: `s:"k"`, Prop: st, Ext: ext, Res: val(r)})
				}
			}
		}
	case "preventExtensions":
		for _, ext := range []bool{true, false} {
			for _, r := range bools {
				emit(LCase{Ext: ext, Res: val(r)})
				emit(LCase{Ext: ext, Mutate: true, Res: val(r)})
			}
			emit(LCase{Ext: ext, Mutate: true, Res: Res{Kind: "fwd"}})
		}
	case "getOwnPropertyDescriptor":
		for _, key := range latticeKeys {
			for _, st := range propStates() {
				for _, ext := range []bool{true, false} {
					for _, v := range []string{"u", "null", "d:1", `s:"x"`, "b:false", "y:0", "o:702"} {
						emit(LCase{Key: key, Prop: st, Ext: ext, Res: val(v)})
					}
					for _, d := range descResults(st) {
						emit(LCase{Key: key, Prop: st, Ext: ext, Res: Res{Kind: "desc", D: d}})
					}
					for _, d := range invalidDescs {
						emit(LCase{Key: key, Prop: st, Ext: ext, Res: Res{Kind: "desc", D: d}})
					}
					emit(LCase{Key: key, Prop: st, Ext: ext, Mutate: true, Res: Res{Kind: "fwd"}})
				}
			}
		}
	case "defineProperty":
		for _, key := range latticeKeys {
			for _, st := range propStates() {
				for _, ext := range []bool{true, false} {
					for _, a := range defineArgs(st) {
						for _, r := range bools {
							emit(LCase{Key: key, Prop: st, Ext: ext, ArgD: a, Res: val(r)})
						}
						emit(LCase{Key: key, Prop: st, Ext: ext, ArgD: a, Mutate: true, Res: Res{Kind: "fwd"}})
					}
				}
			}
		}
	case "has":
		for _, key := range latticeKeys {
			for _, st := range propStates() {
				for _, ext := range []bool{true, false} {
					for _, r := range bools {
						emit(LCase{Key: key, Prop: st, Ext: ext, Res: val(r)})
					}
					emit(LCase{Key: key, Prop: st, Ext: ext, Mutate: true, Res: Res{Kind: "fwd"}})
				}
			}
		}
	case "get":
		for _, key := range latticeKeys {
			for _, st := range propStates() {
				for _, ext := range []bool{true, false} {
					for _, v := range valuePool {
						emit(LCase{Key: key, Prop: st, Ext: ext, Res: val(v)})
					}
					emit(LCase{Key: key, Prop: st, Ext: ext, Mutate: true, Res: Res{Kind: "fwd"}})
				}
			}
		}
	case "set":
		for _, key := range latticeKeys {
			for _, st := range propStates() {
				for _, ext := range []bool{true, false} {
					for _, v := range valuePool {
						for _, r := range bools {
							emit(LCase{Key: key, Prop: st, Ext: ext, ArgV: v, Res: val(r)})
						}
						emit(LCase{Key: key, Prop: st, Ext: ext, ArgV: v, Mutate: true, Res: Res{Kind: "fwd"}})
						emit(LCase{Key: key, Prop: st, Ext: ext, ArgV: v, Mutate: true, Res: val("b:true")})
					}
				}
			}
		}
	case "deleteProperty":
		for _, key := range latticeKeys {
			for _, st := range propStates() {
				for _, ext := range []bool{true, false} {
					for _, r := range bools {
						emit(LCase{Key: key, Prop: st, Ext: ext, Res: val(r)})
					}
					emit(LCase{Key: key, Prop: st, Ext: ext, Mutate: true, Res: Res{Kind: "fwd"}})
					emit(LCase{Key: key, Prop: st, Ext: ext, Mutate: true, Res: val("b:true")})
				}
			}
		}
	case "ownKeys":
		for _, keys := range ownKeysTargets {
			for _, ext := range []bool{true, false} {
				for _, r := range ownKeysResults(keys) {
					emit(LCase{Keys: keys, Ext: ext, Res: r})
				}
				emit(LCase{Keys: keys, Ext: ext, Mutate: true, Res: Res{Kind: "fwd"}})
			}
		}
	case "apply":
		for _, tk := range []string{"func", "arrow", "class", ""} {
			for _, v := range append([]string{"null", `s:"r"`, "o:700"}, valuePool...) {
				emit(LCase{TKind: tk, Ext: true, Res: val(v)})
			}
			emit(LCase{TKind: tk, Ext: true, Mutate: true, Res: Res{Kind: "fwd"}})
		}
	case "construct":
		for _, tk := range []string{"func", "class", "arrow", ""} {
			for _, v := range []string{"u", "null", "d:1", `s:"x"`, "b:true", "y:0", "o:702", "o:700", "o:900", "d:NaN"} {
				emit(LCase{TKind: tk, Ext: true, Res: val(v)})
			}
			emit(LCase{TKind: tk, Ext: true, Mutate: true, Res: Res{Kind: "fwd"}})
		}
	}
}

// goExpressible: can ProxyTrapConfig return this result?
func goExpressible(c *LCase) bool {
	r := &c.Res
	if r.Kind == "fwd" || r.Kind == "fwdmod" {
		return true
	}
	switch c.Trap {
	case "getPrototypeOf": // *Object, nil = null
		return r.V == "null" || isObjectVal(r.V)
	case "setPrototypeOf", "isExtensible", "preventExtensions", "defineProperty", "has", "set", "deleteProperty":
		return r.V == "b:true" || r.V == "b:false"
	case "getOwnPropertyDescriptor": // a PropertyDescriptor struct; the empty one means undefined
		if r.Kind == "val" {
			return r.V == "u"
		}
		return !r.D.empty()
	case "ownKeys": // *Object
		return r.Kind != "val" || isObjectVal(r.V)
	case "construct": // *Object
		return isObjectVal(r.V)
	}
	return true
}

func keysJoin(ks []string) string { return strings.Join(ks, ",") }

// testIntegrity is TestIntegrityLevel (7.3.16) steps 2-5 on the target facts (the proxy has no
// ownKeys / getOwnPropertyDescriptor trap in these cases, so both fall through to the target).
func testIntegrity(f *Facts, frozen bool) bool {
	for _, p := range f.Props {
		if p.D.C == "T" {
			return false
		}
		if frozen && p.D.isData() && p.D.W == "T" {
			return false
		}
	}
	return true
}

// expectL computes the expected outcome rendering and trap log of a lattice point from the
// case, the result the trap returned (res; for forwarding traps read from the run) and the
// target facts after the operation.
func expectL(c *LCase, res *Res, f *Facts) (out string, log []string, harnessErr string) {
	keyArg := c.Key
	trapName := c.Trap
	if c.H == "go" && c.Key != "" {
		// which of the Go traps must be called, and how it sees the key
		switch {
		case c.Key == `s:"2"` && c.GoVar != "str":
			trapName += "#idx"
			keyArg = "2"
		case strings.HasPrefix(c.Key, "y:"):
			trapName += "#sym"
		}
	}
	boolOut := func(v Verdict, onTrue string, throwOnFalse bool) string {
		switch {
		case v.Throw:
			return typeError
		case v.Bool:
			return onTrue
		case throwOnFalse:
			return typeError
		}
		return "b:false"
	}
	var v Verdict
	switch c.Trap {
	case "getPrototypeOf":
		v = invGetPrototypeOf(res.V, f)
		log = []string{trapName + "(T)"}
		switch {
		case v.Throw:
			out = typeError
		case c.Surf == "instanceof" || c.Surf == "isProto":
			// OrdinaryHasInstance (7.3.22) / isPrototypeOf (20.1.3.4) walk the chain: o:700 itself, or an object whose
			// (ordinary) chain contains it - of the registry objects only o:700
			out = "b:false"
			if v.Val == "o:700" {
				out = "b:true"
			}
		default:
			out = v.Val
		}
	case "setPrototypeOf":
		v = invSetPrototypeOf(c.ArgV, res.V, f)
		log = []string{trapName + "(T," + c.ArgV + ")"}
		if c.Surf == "Object" {
			out = boolOut(v, "P", true)
		} else {
			out = boolOut(v, "b:true", false)
		}
	case "isExtensible":
		v = invIsExtensible(res.V, f)
		log = []string{trapName + "(T)"}
		switch {
		case v.Throw:
			out = typeError
		case c.Surf == "isFrozen" || c.Surf == "isSealed":
			if v.Bool {
				out = "b:false"
			} else {
				out = esBool(testIntegrity(f, c.Surf == "isFrozen"))
			}
		default:
			out = esBool(v.Bool)
		}
	case "preventExtensions":
		v = invPreventExtensions(res.V, f)
		log = []string{trapName + "(T)"}
		if c.Surf == "Object" {
			out = boolOut(v, "P", true)
		} else {
			out = boolOut(v, "b:true", false)
		}
	case "getOwnPropertyDescriptor":
		v = invGetOwnProperty(c.Key, res, f)
		log = []string{trapName + "(T," + keyArg + ")"}
		switch {
		case v.Throw:
			out = typeError
		case c.Surf == "hasOwn":
			out = esBool(v.Desc != nil)
		case c.Surf == "propIsEnum":
			out = esBool(v.Desc != nil && v.Desc.E == "T")
		default:
			out = v.Desc.render()
		}
	case "defineProperty":
		// ToPropertyDescriptor of the argument happens before the proxy is reached; all arguments here are valid
		v = invDefineOwnProperty(c.Key, c.ArgD, res.V, f)
		log = []string{trapName + "(T," + keyArg + "," + c.ArgD.trapDescArg() + ")"}
		if c.Surf == "Object" {
			out = boolOut(v, "P", true)
		} else {
			out = boolOut(v, "b:true", false)
		}
	case "has":
		v = invHas(c.Key, res.V, f)
		log = []string{trapName + "(T," + keyArg + ")"}
		out = boolOut(v, "b:true", false)
	case "get":
		v = invGet(c.Key, res.V, f)
		recv := "P"
		if c.Surf == "ReflectRecv" {
			recv = "o:702"
		}
		log = []string{trapName + "(T," + keyArg + "," + recv + ")"}
		if v.Throw {
			out = typeError
		} else {
			out = v.Val
		}
	case "set":
		v = invSet(c.Key, c.ArgV, res.V, f)
		recv := "P"
		if c.Surf == "ReflectRecv" {
			recv = "o:702"
		}
		log = []string{trapName + "(T," + keyArg + "," + c.ArgV + "," + recv + ")"}
		switch c.Surf {
		case "strict":
			out = boolOut(v, "ok", true)
		case "sloppy":
			out = boolOut(v, "ok", false)
			if out == "b:false" {
				out = "ok"
			}
		default:
			out = boolOut(v, "b:true", false)
		}
	case "deleteProperty":
		v = invDelete(c.Key, res.V, f)
		log = []string{trapName + "(T," + keyArg + ")"}
		out = boolOut(v, "b:true", c.Surf == "strict")
	case "ownKeys":
		v = invOwnKeys(res, f)
		log = []string{trapName + "(T)"}
		if v.Throw {
			out = typeError
			break
		}
		var ks []string
		for _, k := range v.Keys {
			sym := strings.HasPrefix(k, "y:")
			switch c.Surf {
			case "names":
				if sym {
					continue
				}
			case "symbols":
				if !sym {
					continue
				}
			case "keys":
				// EnumerableOwnProperties (7.3.23): string keys whose [[GetOwnProperty]] (not trapped: the target's) is enumerable
				if sym {
					continue
				}
				if d := f.prop(k); d == nil || d.E != "T" {
					continue
				}
			}
			ks = append(ks, k)
		}
		out = keysJoin(ks)
	case "apply":
		// 10.5.12: a proxy has [[Call]] only if its target has; the trap result is returned as is
		if c.TKind == "" {
			return typeError, nil, ""
		}
		this := "u"
		if c.Surf != "call" {
			this = "o:702"
		}
		log = []string{trapName + "(T," + this + `,[d:1,s:"a"])`}
		out = res.V
		if res.Kind != "val" {
			return "", nil, "apply: no result recorded"
		}
		if c.Mutate {
			if c.TKind == "class" {
				out = typeError // the forwarded call of a class constructor throws
			} else {
				log = append(log, "target-called")
			}
		}
	case "construct":
		// 10.5.13: a proxy has [[Construct]] only if its target has
		if c.TKind == "" || c.TKind == "arrow" {
			return typeError, nil, ""
		}
		nt := "P"
		if c.Surf == "ReflectNT" {
			nt = "o:703"
		}
		log = []string{trapName + `(T,[d:1,s:"a"],` + nt + ")"}
		if c.Mutate {
			log = append(log, "target-called")
			// OrdinaryCreateFromConstructor(newTarget, "%Object.prototype%"): newTarget.prototype read through the proxy
			// (no get trap) is the target's
			switch {
			case c.Surf == "ReflectNT":
				out = "newobj:o:701"
			case c.TKind == "func":
				out = "newobj:o:702"
			default:
				out = "newobj:unreg"
			}
			return out, log, ""
		}
		v = invConstruct(res.V)
		if v.Throw {
			out = typeError
		} else {
			out = v.Val
		}
	default:
		return "", nil, "unknown trap " + c.Trap
	}
	return out, log, ""
}

func esBool(b bool) string {
	if b {
		return "b:true"
	}
	return "b:false"
}

func latticeKey(c *LCase, what string) string {
	st := "absent"
	if c.Prop != nil {
		st = "data"
		if c.Prop.isAccessor() {
			st = "accessor"
		}
		if c.Prop.C == "F" {
			st += "-nc"
		}
	}
	kk := ""
	switch {
	case c.Key == "":
	case strings.HasPrefix(c.Key, "y:"):
		kk = ":sym"
	case c.Key == `s:"2"`:
		kk = ":idx"
	default:
		kk = ":str"
	}
	ext := "ext"
	if !c.Ext {
		ext = "noext"
	}
	if c.SKind != "" {
		st, ext = "kind-"+c.SKind, "gen"
	}
	return fmt.Sprintf("lattice:%s:%s/%s:%s%s:%s:%s", c.H, c.Trap, c.Surf, st, kk, ext, what)
}

// judgeLattice runs one lattice point on a fresh runtime.
func judgeLattice(c *LCase) *evid.Failure {
	fail := func(key, msg string, exp, obs interface{}) *evid.Failure {
		return &evid.Failure{Check: "lattice", Key: key, Msg: msg + "\n  case: " + c.Text(), Case: c, Expected: exp, Observed: obs}
	}
	vm := goja.New()
	if o := jsx.RunProgram(vm, preludePrg); o.Kind != "value" {
		return fail("harness", "prelude: "+o.Text, nil, nil)
	}
	if c.SKind != "" {
		if o := jsx.RunProgram(vm, lockstepPrg); o.Kind != "value" {
			return fail("harness", "lockstep prelude: "+o.Text, nil, nil)
		}
	}
	if o := jsx.RunProgram(vm, latticePrg); o.Kind != "value" {
		return fail("harness", "lattice prelude: "+o.Text, nil, nil)
	}
	if c.H == "go" {
		installGoLatticeProxy(vm, c)
	}
	runL, _ := goja.AssertFunction(vm.Get("runL"))
	o := jsx.Protect(func() (goja.Value, error) { return runL(goja.Undefined(), vm.ToValue(c.Text())) })
	if o.Kind == "panic" {
		return fail(latticeKey(c, "panic"), "Go panic: "+o.Text+"\n"+o.Stack, nil, o.Text)
	}
	if o.Kind != "value" {
		return fail("harness", "runL failed: "+o.Text, nil, nil)
	}
	var run lrun
	if err := json.Unmarshal([]byte(o.Value.String()), &run); err != nil {
		return fail("harness", "bad runL output: "+err.Error(), nil, nil)
	}
	// the constructed target state is what the case says
	if c.SKind != "" {
		// generated target: its state is whatever reflection reports
	} else if run.Before.Ext != c.Ext || run.Before.Proto != c.Proto {
		return fail("harness", fmt.Sprintf("target built wrongly: %+v", run.Before), nil, nil)
	}
	if c.Key != "" && c.SKind == "" {
		got := run.Before.prop(c.Key)
		if (got == nil) != (c.Prop == nil) || (got != nil && *got != *c.Prop) {
			return fail("harness", fmt.Sprintf("target property built wrongly: %+v want %+v", got, c.Prop), nil, nil)
		}
	}
	res := &c.Res
	if res.Kind == "fwd" || res.Kind == "fwdmod" {
		if run.Fwd == nil {
			// the trap was never reached (non-callable target etc.)
			res = &Res{Kind: "val", V: "u"}
		} else {
			res = run.Fwd
		}
	}
	runCallables = map[string]bool{}
	for _, f := range run.Fns {
		runCallables[f] = true
	}
	wantOut, wantLog, herr := expectL(c, res, &run.Facts)
	if herr != "" {
		return fail("harness", herr, nil, nil)
	}
	if run.FwdErr != "" && len(wantLog) > 0 {
		wantOut, wantLog = run.FwdErr, wantLog[:1]
	}
	if run.Out != wantOut {
		what := "accepted-but-must-throw"
		switch {
		case strings.HasPrefix(run.Out, "throw:") && !strings.HasPrefix(wantOut, "throw:"):
			what = "throws-but-must-accept"
		case strings.HasPrefix(run.Out, "throw:") && strings.HasPrefix(wantOut, "throw:"):
			what = "wrong-error"
		case !strings.HasPrefix(wantOut, "throw:"):
			what = "wrong-result"
		}
		return fail(latticeKey(c, what), fmt.Sprintf("%s via %s handler: outcome %s, ECMA-262 10.5 requires %s (trap returned %s; target after: %s)", c.Trap, c.H, run.Out, wantOut, resText(res), factsText(&run.Facts)), wantOut, run.Out)
	}
	if strings.Join(run.Log, ";") != strings.Join(wantLog, ";") {
		return fail(latticeKey(c, "traplog"), fmt.Sprintf("%s via %s handler: trap calls %v, expected %v", c.Trap, c.H, run.Log, wantLog), wantLog, run.Log)
	}
	if !c.Mutate {
		a, _ := json.Marshal(run.Before)
		b, _ := json.Marshal(run.Facts)
		if string(a) != string(b) {
			return fail(latticeKey(c, "target-changed"), fmt.Sprintf("the target changed although the trap did not touch it: before %s after %s", a, b), string(a), string(b))
		}
	}
	return nil
}

func resText(r *Res) string { b, _ := json.Marshal(r); return string(b) }
func factsText(f *Facts) string {
	b, _ := json.Marshal(f)
	return string(b)
}
