package c11

import (
	"testing"

	"github.com/dop251/goja"

	"verifh/internal/evid"
	"verifh/internal/jsx"
)

// pinned: small fixed scripts for deviations that are recorded as known findings (they are
// excluded from the generators so that they do not mask other failures) and for defects fixed
// during the construction of this check. Each script evaluates to the string ECMA-262 requires.
type pinnedCase struct {
	Key  string `json:"key"`
	Src  string `json:"src"`
	Want string `json:"want"`
}

var pinnedCases = []pinnedCase{
	{"pinned:hole-as-undefined",
		`var log = []; var p = new Proxy(function(a, b) {}, {has(t, k) { log.push("has:" + String(k)); return Reflect.has(t, k); }, get(t, k, r) { log.push("get:" + String(k)); return Reflect.get(t, k, r); }});
		 var r = Array.prototype.slice.call(p); (0 in r) + "," + (1 in r) + "," + r.length + "|" + log.join(" ")`,
		"false,false,2|get:length has:0 has:1"},
	{"pinned:error-message-reads-toStringTag",
		`var log = []; var p = new Proxy(new Uint8Array(2), {get(t, k, r) { log.push(String(k)); return Reflect.get(t, k, r); }});
		 try { p.length; } catch (e) { log.push(e.constructor.name); } log.join(" ")`,
		"length TypeError"},
	{"pinned:nonconfig-accessor-honest",
		`var g = function() { return 1; }; var t = {}; Object.defineProperty(t, "x", {get: g, configurable: false});
		 var p = new Proxy(t, {getOwnPropertyDescriptor(t, k) { return Reflect.getOwnPropertyDescriptor(t, k); }});
		 var q = new Proxy(t, {getOwnPropertyDescriptor(t, k) { return {get: function() {}, set: undefined, enumerable: false, configurable: false}; }});
		 var a = Object.getOwnPropertyDescriptor(p, "x").get === g, b; try { Object.getOwnPropertyDescriptor(q, "x"); b = "accepted"; } catch (e) { b = e.constructor.name; } a + "," + b`,
		"true,TypeError"},
	{"pinned:forin-proxy-proto",
		`var r = []; for (var k in Object.create(new Proxy({a: 1, b: 2}, {}))) r.push(k); r.join()`,
		"a,b"},
	{"pinned:instanceof-proxy-function",
		`function F() {} String(new F() instanceof new Proxy(F, {}))`,
		"true"},
	{"pinned:ownkeys-hole",
		`var r; try { Reflect.ownKeys(new Proxy({}, {ownKeys() { return [, "a"]; }})); r = "accepted"; } catch (e) { r = e.constructor.name; } r`,
		"TypeError"},
	{"pinned:revoked-function-toString",
		`var rv = Proxy.revocable(function() {}, {}); rv.revoke(); typeof Function.prototype.toString.call(rv.proxy) + "," + typeof Function.prototype.toString.call(new Proxy(new Proxy(function() {}, {}), {}))`,
		"string,string"},
}

func judgePinned(pc *pinnedCase) *evid.Failure {
	vm := goja.New()
	o := jsx.RunString(vm, pc.Src)
	got := o.Text
	if o.Kind == "value" {
		got = o.Value.String()
	}
	if got != pc.Want {
		return &evid.Failure{Check: "pinned", Key: pc.Key, Msg: pc.Key + ": script gives " + got + ", ECMA-262 requires " + pc.Want + "\n  " + pc.Src, Case: pc, Expected: pc.Want, Observed: got}
	}
	return nil
}

func TestQuickPinned(t *testing.T) {
	if evid.Shard() != 0 {
		return
	}
	for i := range pinnedCases {
		pc := &pinnedCases[i]
		evid.Case(pc.Src, true)
		evid.Count("pinned")
		evid.Direct(t, judgePinned(pc))
	}
}
