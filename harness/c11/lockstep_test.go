package c11

import (
	"encoding/json"
	"fmt"
	"strconv"
	"strings"

	"github.com/dop251/goja"
	"pgregory.net/rapid"

	"verifh/internal/esmodel"
	"verifh/internal/evid"
	"verifh/internal/jsx"
)

var lockstepPrg = goja.MustCompile("c11lockstep.js", lockstepJS, false)

// Layer is one proxy layer around a subject.
type Layer struct {
	H    string `json:"h"`             // js | go
	Mask int    `json:"mask"`          // installed traps: bit i = TRAPS[i] (js) / goTrapNames[i] (go)
	API  bool   `json:"api,omitempty"` // go: forward through the Go object API where it has an equivalent
}

type ASubject struct {
	Tag    int     `json:"tag"`
	Kind   string  `json:"kind"`
	Layers []Layer `json:"layers"`
}

// AOp is a C04 operation (esmodel.Op, executed by the shared prelude's doOpS), an extended
// operation (X=true: executed by doXS) or an Array.prototype method call (M != nil: doMethodS).
type AOp struct {
	esmodel.Op
	X  bool     `json:"x,omitempty"`
	M  *AMethod `json:"m,omitempty"`
	NK bool     `json:"nk,omitempty"` // an array-index key is passed as a Number instead of a String
}

type AMethod struct {
	O    int      `json:"o"`
	Name string   `json:"name"`
	Args []string `json:"args"`
}

type ACase struct {
	Subjects []ASubject `json:"subjects"`
	Ops      []*AOp     `json:"ops"`
}

func (c *ACase) Text() string { b, _ := json.Marshal(c); return string(b) }

var aKinds = []string{"plain", "plainp", "nullproto", "func", "strictfunc", "arrow", "bound", "class", "method", "genfunc", "asyncfunc", "ctor",
	"array", "arrayholes", "arraysparse", "arrayempty", "frozenarray", "args", "argsstrict", "string", "number", "boolean", "symbolobj", "date", "regexp", "error", "map", "promise",
	"Math", "arraybuffer", "generator", "objectproto", "sealedplain", "nonextacc", "typedarray", "proxyplain", "proxyarray", "proxyfunc",
	"gomap", "gomapref", "goslice", "gostruct"}

// heavier weight for the kinds the property names
var aKindsWeighted = append(append([]string{}, aKinds...),
	"plainp", "objectproto", "nonextacc", "sealedplain", "array", "array", "frozenarray", "func", "ctor", "ctor", "class", "bound", "args", "string", "typedarray", "proxyarray", "proxyfunc", "proxyplain")

var aKeyPool = []string{`s:"a"`, `s:"b"`, `s:"length"`, `s:"0"`, `s:"1"`, `s:"2"`, `s:"3"`, `s:"7"`, `s:"5000"`, `s:"4294967295"`, `s:"-0"`, `s:"1.5"`, `s:"01"`,
	`s:"prototype"`, `s:"name"`, `s:"constructor"`, `s:"__proto__"`, `s:"toString"`, `s:"acc"`, `s:"ro"`, `s:"z"`, `s:"p0"`, `s:"viaproxy"`, `s:"callee"`, `s:"A"`, `s:"M"`, `s:""`,
	"y:0", "y:1", "y:2", "y:3", "y:8"}

var aPrimVals = []string{"u", "null", "b:true", "b:false", "d:0", "d:-0", "d:1", "d:2", "d:5", "d:NaN", `s:""`, `s:"v"`, `s:"7"`, "y:0"}
var aObjVals = []string{"o:900", "o:901", "o:910", "o:911", "o:820", "o:821", "o:822", "o:704"}
var aProtos = []int{-1, 800, 801, 802, 803, 820, 821, 822}

func aGenKey(t *rapid.T) string { return rapid.SampledFrom(aKeyPool).Draw(t, "key") }

// aGenVal: subjects are allowed as values except where the value would become a prototype
// (a cycle through a proxy is not detected by OrdinarySetPrototypeOf and would recurse forever).
func aGenVal(t *rapid.T, c *ACase, subjectsOK bool) string {
	switch rapid.IntRange(0, 5).Draw(t, "vk") {
	case 0:
		if subjectsOK {
			return "o:" + strconv.Itoa(c.Subjects[rapid.IntRange(0, len(c.Subjects)-1).Draw(t, "vsubj")].Tag)
		}
	case 1:
		return rapid.SampledFrom(aObjVals).Draw(t, "vobj")
	}
	return rapid.SampledFrom(aPrimVals).Draw(t, "vprim")
}

func aGenDesc(t *rapid.T, c *ACase, key string) *esmodel.Desc {
	d := &esmodel.Desc{Value: esmodel.Undef, Get: esmodel.Undef, Set: esmodel.Undef}
	form := rapid.IntRange(0, 9).Draw(t, "dform")
	bits := rapid.IntRange(0, 63).Draw(t, "dbits")
	switch {
	case form <= 3:
		bits &^= 4 | 8
	case form <= 6:
		bits &^= 1 | 2
	}
	mv := func(s string) esmodel.Val {
		v, err := esmodel.ParseVal(s)
		if err != nil {
			panic(err)
		}
		return v
	}
	if bits&1 != 0 {
		d.HasValue = true
		d.Value = mv(aGenVal(t, c, key != `s:"__proto__"`))
	}
	if bits&2 != 0 {
		d.HasW = true
		d.W = rapid.Bool().Draw(t, "w")
	}
	if bits&4 != 0 {
		d.HasGet = true
		d.Get = mv(rapid.SampledFrom([]string{"u", "o:900", "o:901"}).Draw(t, "g"))
	}
	if bits&8 != 0 {
		d.HasSet = true
		d.Set = mv(rapid.SampledFrom([]string{"u", "o:910", "o:911"}).Draw(t, "s"))
	}
	if bits&16 != 0 {
		d.HasE = true
		d.E = rapid.Bool().Draw(t, "e")
	}
	if bits&32 != 0 {
		d.HasC = true
		d.C = rapid.Bool().Draw(t, "c")
	}
	return d
}

var aOpKinds = []string{"define", "define", "define", "define", "get", "get", "set", "set", "set", "delete", "delete", "has", "hasOwn", "gopd", "gopd", "ownKeys", "names", "symbols", "keys",
	"preventExt", "seal", "freeze", "isExt", "isSealed", "isFrozen", "getProto", "setProto", "setProto", "forin", "assign", "assignFrom",
	"x:isArray", "x:typeof", "x:tostring", "x:json", "x:entries", "x:values", "x:ospread", "x:gopds", "x:instL", "x:instR", "x:isProtoOf", "x:concatL", "x:concatR",
	"x:call", "x:call", "x:callm", "x:construct", "x:construct", "x:constructNT", "x:aspread", "x:join", "m:method", "m:method"}

var aMethods = []string{"push", "pop", "shift", "unshift", "splice", "reverse", "sort", "fill", "copyWithin", "slice", "indexOf", "lastIndexOf", "includes", "map", "filter", "forEach", "some", "every", "find", "findIndex", "flat", "at", "spread"}

func hasKind(c *ACase, kinds ...string) bool {
	for _, s := range c.Subjects {
		for _, k := range kinds {
			if s.Kind == k {
				return true
			}
		}
	}
	return false
}

func kindOfTag(c *ACase, tag int) string {
	for _, s := range c.Subjects {
		if s.Tag == tag {
			return s.Kind
		}
	}
	return ""
}

func aGenOp(t *rapid.T, c *ACase) *AOp {
	name := rapid.SampledFrom(aOpKinds).Draw(t, "op")
	subj := c.Subjects[rapid.IntRange(0, len(c.Subjects)-1).Draw(t, "subj")]
	op := &AOp{}
	op.O = subj.Tag
	if strings.HasPrefix(name, "x:") {
		op.X = true
		op.Op.Op = name[2:]
		op.Surf = "x"
		op.V = aGenVal(t, c, true)
		return op
	}
	if name == "m:method" {
		m := &AMethod{O: subj.Tag, Name: rapid.SampledFrom(aMethods).Draw(t, "mname")}
		n := rapid.IntRange(0, 3).Draw(t, "nargs")
		for i := 0; i < n; i++ {
			m.Args = append(m.Args, rapid.SampledFrom([]string{"d:0", "d:1", "d:2", "d:-1", "d:5", "u", `s:"v"`, "d:NaN", "o:820"}).Draw(t, "marg"))
		}
		switch m.Name {
		case "map", "filter", "forEach", "some", "every", "find", "findIndex":
			cb := rapid.SampledFrom([]string{"ident", "isnum", "double", "shrink", "grow", "throwAt2"}).Draw(t, "cb")
			m.Args = append([]string{`s:"` + cb + `"`}, m.Args...)
		}
		op.M = m
		op.Op.Op = "method"
		op.Surf = "m"
		return op
	}
	op.Op.Op = name
	op.NK = rapid.IntRange(0, 2).Draw(t, "nk") == 0
	op.Surf = rapid.SampledFrom([]string{"strict", "sloppy", "Object", "Reflect"}).Draw(t, "surf")
	switch name {
	case "define":
		op.K = aGenKey(t)
		op.D = aGenDesc(t, c, op.K)
		if op.Surf == "strict" || op.Surf == "sloppy" {
			op.Surf = "Object"
		}
		if op.K == `s:"length"` && op.D.HasValue && rapid.Bool().Draw(t, "lenval") {
			op.D.Value = esmodel.Num(float64(rapid.SampledFrom([]int{0, 1, 2, 3, 4, 5000, 5001}).Draw(t, "len")))
		}
	case "get":
		op.K = aGenKey(t)
		if op.Surf == "Reflect" && rapid.Bool().Draw(t, "recv") {
			op.R = aGenVal(t, c, true)
		} else if op.Surf != "Reflect" {
			op.Surf = "strict"
		}
	case "set":
		op.K = aGenKey(t)
		op.V = aGenVal(t, c, op.K != `s:"__proto__"`)
		if op.Surf == "Object" {
			op.Surf = "strict"
		}
		if op.Surf == "Reflect" && rapid.IntRange(0, 2).Draw(t, "recv") > 0 {
			op.R = aGenVal(t, c, true)
		}
		if op.K == `s:"length"` && rapid.Bool().Draw(t, "lenval") {
			op.V = "d:" + strconv.Itoa(rapid.SampledFrom([]int{0, 1, 2, 3, 4, 5000, 5001}).Draw(t, "len"))
		}
	case "delete":
		op.K = aGenKey(t)
		if op.Surf == "Object" {
			op.Surf = "strict"
		}
	case "has", "hasOwn", "gopd":
		op.K = aGenKey(t)
		if op.Surf != "Reflect" {
			op.Surf = "Object"
		}
	case "setProto":
		op.P = rapid.SampledFrom(aProtos).Draw(t, "proto")
		if op.Surf != "Reflect" {
			op.Surf = "Object"
		}
	case "assign":
		op.P = rapid.SampledFrom([]int{820, 821, 822, 803}).Draw(t, "src")
		op.Surf = "Object"
	case "assignFrom":
		// Object.assign(<fresh plain object>, subject) rendered as a dump: executed as an extended op
		op.X = true
		op.Op.Op = "ospread"
		op.Surf = "x"
	case "preventExt", "isExt", "getProto":
		if op.Surf != "Reflect" {
			op.Surf = "Object"
		}
	default:
		op.Surf = "Object"
	}
	return op
}

func genLayers(t *rapid.T) []Layer {
	n := rapid.SampledFrom([]int{1, 1, 1, 2, 2, 3}).Draw(t, "nlayers")
	var ls []Layer
	for i := 0; i < n; i++ {
		l := Layer{H: rapid.SampledFrom([]string{"js", "js", "go"}).Draw(t, "lh")}
		full := rapid.IntRange(0, 2).Draw(t, "lfull") > 0
		if l.H == "js" {
			l.Mask = 1<<13 - 1
			if !full {
				l.Mask = rapid.IntRange(0, 1<<13-1).Draw(t, "lmask")
			}
		} else {
			l.Mask = goAllTraps
			if !full {
				l.Mask = rapid.IntRange(0, goAllTraps).Draw(t, "lmask")
			}
			l.API = rapid.Bool().Draw(t, "lapi")
		}
		ls = append(ls, l)
	}
	return ls
}

func genACase(t *rapid.T) *ACase {
	c := &ACase{}
	n := rapid.IntRange(1, 3).Draw(t, "nsubj")
	used := map[string]bool{}
	for i := 0; i < n; i++ {
		kind := rapid.SampledFrom(aKindsWeighted).Draw(t, "kind")
		if used[kind] && kind == "Math" {
			kind = "plain"
		}
		used[kind] = true
		c.Subjects = append(c.Subjects, ASubject{Tag: 1 + i, Kind: kind, Layers: genLayers(t)})
	}
	nops := rapid.IntRange(1, 30).Draw(t, "nops")
	for i := 0; i < nops; i++ {
		c.Ops = append(c.Ops, aGenOp(t, c))
	}
	return c
}

type side struct {
	vm                                     *goja.Runtime
	doOp, doX, doM, dump, param, nt, holes goja.Callable
}

func callS(f goja.Callable, args ...goja.Value) (s string, err error) {
	defer func() {
		if p := recover(); p != nil {
			err = fmt.Errorf("Go panic: %v", p)
		}
	}()
	v, err := f(goja.Undefined(), args...)
	if err != nil {
		return "", err
	}
	return v.String(), nil
}

// callV calls f ignoring its result.
func callV(f goja.Callable, args ...goja.Value) (err error) {
	defer func() {
		if p := recover(); p != nil {
			err = fmt.Errorf("Go panic: %v", p)
		}
	}()
	_, err = f(goja.Undefined(), args...)
	return err
}

func newSide(c *ACase, proxied bool) (*side, string) {
	vm := goja.New()
	vm.SetMaxCallStackSize(300)
	for _, p := range []*goja.Program{preludePrg, latticePrg, lockstepPrg} {
		if o := jsx.RunProgram(vm, p); o.Kind != "value" {
			return nil, "prelude: " + o.Text
		}
	}
	installGoForwarding(vm)
	s := &side{vm: vm}
	s.doOp, s.doX, s.doM, s.dump, s.param, s.nt = jsFn(vm, "doOpS"), jsFn(vm, "doXS"), jsFn(vm, "doMethodS"), jsFn(vm, "dump"), jsFn(vm, "param"), jsFn(vm, "ntFacts")
	s.holes = jsFn(vm, "hasHoles")
	mk, wrap := jsFn(vm, "mkSubjectX"), jsFn(vm, "wrap")
	for _, sub := range c.Subjects {
		if err := callV(mk, vm.ToValue(sub.Kind), vm.ToValue(sub.Tag)); err != nil {
			return nil, "mkSubjectX " + sub.Kind + ": " + err.Error()
		}
	}
	if proxied {
		for _, sub := range c.Subjects {
			b, _ := json.Marshal(sub.Layers)
			var layers interface{}
			json.Unmarshal(b, &layers)
			if err := callV(wrap, vm.ToValue(sub.Tag), vm.ToValue(layers)); err != nil {
				return nil, "wrap: " + err.Error()
			}
		}
	}
	return s, ""
}

func (s *side) obj(name string, tag int) goja.Value {
	return s.vm.Get(name).ToObject(s.vm).Get(strconv.Itoa(tag))
}

func (s *side) exec(op *AOp) (string, error) {
	switch {
	case op.M != nil:
		b, _ := json.Marshal(op.M)
		return callS(s.doM, s.vm.ToValue(string(b)))
	case op.X:
		b, _ := json.Marshal(op.Op)
		return callS(s.doX, s.vm.ToValue(string(b)))
	}
	o := op.Op
	if op.NK {
		o.K = numericKey(o.K)
	}
	b, _ := json.Marshal(o)
	return callS(s.doOp, s.vm.ToValue(string(b)))
}

// numericKey turns the rendering of an array-index string key into the rendering of the Number (the prelude's pv() then yields a Number).
func numericKey(k string) string {
	key, err := esmodel.ParseKey(k)
	if err != nil {
		return k
	}
	if idx, ok := key.ArrayIndex(); ok {
		return "d:" + strconv.FormatUint(uint64(idx), 10)
	}
	return k
}

func (s *side) log() string {
	var out []string
	if arr, ok := s.vm.Get("LOG").Export().([]interface{}); ok {
		for _, x := range arr {
			out = append(out, fmt.Sprint(x))
		}
	}
	return strings.Join(out, ";")
}

func (s *side) trapCount() int64 { return s.vm.Get("TRAPN").ToInteger() }

func aOpText(op *AOp) string { b, _ := json.Marshal(op); return string(b) }

func aKeyClass(k string) string {
	switch {
	case k == "":
		return "-"
	case strings.HasPrefix(k, "y:"):
		return "sym"
	case k == `s:"length"`:
		return "length"
	}
	key, _ := esmodel.ParseKey(k)
	if _, ok := key.ArrayIndex(); ok {
		return "idx"
	}
	return "str"
}

func layerText(ls []Layer) string {
	var p []string
	for _, l := range ls {
		s := l.H
		if l.API {
			s += "api"
		}
		if (l.H == "js" && l.Mask != 1<<13-1) || (l.H == "go" && l.Mask != goAllTraps) {
			s += "-partial"
		}
		p = append(p, s)
	}
	return strings.Join(p, "+")
}

// excludedOp: operations whose result on a proxy legitimately differs from the result on the
// target (ECMA-262 gives proxies no access to internal slots), by subject kind.
func excludedOp(c *ACase, op *AOp) string {
	kind := kindOfTag(c, op.O)
	// ToPrimitive of a subject runs toString/valueOf methods that need internal slots (%TypedArray%.prototype.join, Date.prototype.valueOf,
	// Function.prototype.toString, the Arguments builtinTag ...): where an operation coerces a value that is a subject, proxy and target differ legitimately
	val := op.V
	if op.D != nil && op.D.HasValue {
		val = op.D.Value.String()
	}
	if !op.X && op.M == nil && strings.HasPrefix(val, "o:") && (op.K == `s:"name"` || op.K == `s:"message"`) && hasKind(c, "error") {
		// side finding (C01's domain, not fixed here): e = new Error("x"); e.name = e; String(e) recurses natively in Error.prototype.toString
		// until the Go stack is exhausted (fatal, kills the host); goja also stringifies operands while building TypeError messages
		return "an object stored as name/message in a case with an Error subject (Error.prototype.toString of a cyclic name: fatal Go stack overflow, side finding)"
	}
	if _, host := hostOwnKeys[kind]; host && !op.X && op.M == nil && strings.HasPrefix(val, "o:") {
		return "an object is stored in a Go host object (exported to Go and re-wrapped on every read: wrapper identity is C13's subject)"
	}
	if !op.X && op.M == nil && isSubjectVal(c, val) {
		switch kind {
		case "typedarray", "gomapref", "gostruct", "goslice", "gomap":
			return "a subject is stored where the target coerces or exports the value (typed array element, Go field / element: object identity is C13's subject)"
		case "array", "arrayholes", "arraysparse", "arrayempty", "frozenarray", "proxyarray":
			if op.K == `s:"length"` {
				return "a subject is assigned to an array length (ToNumber of the subject)"
			}
		}
	}
	if kind == "gomap" || kind == "gomapref" {
		// the own-key order of a Go map wrapper is Go's map iteration order (random): only single-entry maps are comparable
		adds := op.M != nil || op.Op.Op == "assign" || ((op.Op.Op == "define" || op.Op.Op == "set") && strings.HasPrefix(op.K, "s:") && op.K != `s:"a"`)
		if adds {
			return "operation that can add a second string key to a Go map wrapper (own-key order = random Go map iteration order)"
		}
	}
	if op.Op.Op == "define" && op.K == `s:"length"` && op.D.HasValue && arrayKinds[kind] {
		if v := op.D.Value; v.K != 'd' || v.N < 0 || v.N != float64(int64(v.N)) || v.String() == "d:-0" {
			// ArraySetLength stores ToUint32(value); the proxy's post-check (10.5.6 step 16.a) compares the *unconverted* Desc.[[Value]]
			// with the stored number, so a forwarding proxy legitimately throws once the length is non-writable
			return "array length defined with a value that ArraySetLength converts (null, \"3\", -0 ...): the defineProperty post-check compares the unconverted value"
		}
	}
	if (kind == "gomap" || kind == "gomapref") && op.Op.Op == "delete" {
		return "delete on a Go map wrapper (a later set would re-create the key by [[Set]], see property creation on host objects)"
	}
	if kind == "goslice" && op.K == `s:"length"` && (op.Op.Op == "define" || op.Op.Op == "set") {
		return "length of a Go slice wrapper defined before its first read (host crash found and fixed by the C13 check, not yet in this tree)"
	}
	if kind == "goslice" && op.K == `s:"4294967295"` {
		return "index 4294967295 on a Go slice wrapper (the wrapper grows the slice: 64 GiB allocation)"
	}
	if own, host := hostOwnKeys[kind]; host {
		// [[Set]] of a Go host object is not OrdinarySet: a new element/field is created by the wrapper itself, while [[Set]] with a proxy
		// receiver arrives as [[DefineOwnProperty]] {configurable: true}, which the wrappers refuse ("Host object field cannot be made configurable")
		if op.Op.Op == "define" && (op.D.HasW || op.D.HasE || op.D.HasC || op.D.HasGet || op.D.HasSet) {
			return "defineProperty with attribute fields on a Go host object (the wrapper reports success without honouring e.g. configurable:false; the proxy must then throw)"
		}
		if (op.Op.Op == "define" && !op.D.HasValue) || op.Op.Op == "seal" || op.Op.Op == "freeze" {
			return "defineProperty without a value on a Go host object (host crash, nil dereference: found and fixed by the C13 check, not yet in this tree)"
		}
		if op.Op.Op == "delete" && (own[op.K] || (kind == "goslice" && aKeyClass(op.K) == "idx")) && kind != "gomap" && kind != "gomapref" {
			return "delete of a Go slice element / struct field (the wrapper reports success for a property it reports as non-configurable: the host object breaks the [[Delete]] invariant, the proxy must throw)"
		}
		if op.M != nil || op.Op.Op == "assign" || (op.Op.Op == "set" && !own[op.K]) {
			return "property creation by [[Set]] on a Go host object (host [[Set]] is not OrdinarySet; CreateDataProperty through the proxy is refused by the wrapper)"
		}
	}
	if op.X && (op.Op.Op == "concatL" || op.Op.Op == "concatR") && hasKind(c, "typedarray") {
		return "concat with a typed array subject in the case (a spreadable typed array needs its length accessor, which needs an internal slot of the receiver)"
	}
	if op.M != nil && len(op.M.Args) > 0 && op.M.Args[0] == `s:"shrink"` {
		return "callback that truncates the array during iteration (creates holes: known finding hole-as-undefined)"
	}
	if kind == "typedarray" {
		// %TypedArray%.prototype.length / @@toStringTag are accessors that need the [[TypedArrayName]] slot of their receiver
		if !op.X && op.M == nil && (strings.HasPrefix(val, "o:") || strings.HasPrefix(val, "y:")) {
			return "an object or symbol is stored into a typed array (ToNumber of the object; with a proxy receiver the spec skips the conversion for an invalid index)"
		}
		if (op.K == `s:"length"` || op.K == "y:3") && (op.Op.Op == "get" || op.Op.Op == "set") {
			return "length of a typed array read through a proxy (prototype accessor needing an internal slot of the receiver)"
		}
		if op.M != nil || (op.X && (op.Op.Op == "join" || op.Op.Op == "tostring")) {
			return "Array.prototype method / Object.prototype.toString on a proxied typed array (length, @@toStringTag accessors need an internal slot of the receiver)"
		}
	}
	if (op.M != nil || (op.X && (op.Op.Op == "join" || op.Op.Op == "concatL" || op.Op.Op == "concatR" || op.Op.Op == "aspread"))) && storesSubjectAtLength(c) {
		return "array method in a case where a subject is stored as a length (ToLength -> ToPrimitive of the subject)"
	}
	if !op.X && op.M == nil && op.Op.Op == "set" && op.R != "" {
		for _, s := range c.Subjects {
			if _, host := hostOwnKeys[s.Kind]; host && op.R == "o:"+strconv.Itoa(s.Tag) {
				return "Reflect.set with a Go host object as receiver (see property creation / stored objects on host objects)"
			}
			if s.Kind == "typedarray" && op.R == "o:"+strconv.Itoa(s.Tag) {
				return "Reflect.set with a typed array as receiver (value conversion differs between receiver === target and a proxy receiver)"
			}
		}
	}
	if (op.X && op.Op.Op == "join") || (op.M != nil && (op.M.Name == "sort" || op.M.Name == "join")) {
		if storesSubjects(c) || hasKind(c, "goslice", "gomap") {
			return "join/sort (ToString of the elements) in a case where subjects are stored as values"
		}
	}
	if op.M != nil && op.M.Name == "spread" && (kind == "string" || kind == "map" || kind == "generator" || kind == "typedarray") {
		return "[...P(x)] where x's @@iterator method needs an internal slot of its receiver"
	}
	if op.X {
		switch op.Op.Op {
		case "json":
			// SerializeJSONProperty unwraps [[StringData]]/[[NumberData]]/[[BooleanData]] objects and calls Date.prototype.toJSON -> toISOString
			// (thisTimeValue); a proxy has none of these slots. Excluded whenever such a subject is reachable.
			if hasKind(c, "string", "number", "boolean", "date") {
				return "JSON.stringify with a primitive-wrapper or Date subject in the case (internal slots are not forwarded by a Proxy)"
			}
		case "call", "callm", "constructNT":
			if !callableKinds[kind] {
				return "call/construct of a non-callable subject (TypeError on both sides; goja builds the message with ToString of the callee, which runs user accessors on the direct target only)"
			}
		case "construct":
			if !callableKinds[kind] {
				return "call/construct of a non-callable subject (TypeError on both sides; goja builds the message with ToString of the callee, which runs user accessors on the direct target only)"
			}
			if kind == "bound" {
				return "new P(bound function): the bound function's [[Construct]] replaces newTarget only when it is the bound function itself, so behind a proxy the instance gets the proxy's (absent) prototype"
			}
		case "instR":
			if kind == "bound" {
				return "x instanceof P(bound function): InstanceofOperator unwraps [[BoundTargetFunction]], which a Proxy does not have"
			}
		case "aspread":
			if kind == "string" || kind == "map" || kind == "generator" || kind == "typedarray" {
				return "[...P(x)] where x's @@iterator method needs an internal slot of its receiver"
			}
		case "concatL", "concatR", "join":
			if kind == "typedarray" || kind == "string" {
				// fine: generic; kept
			}
		}
	}
	return ""
}

var arrayKinds = map[string]bool{"array": true, "arrayholes": true, "arraysparse": true, "arrayempty": true, "frozenarray": true, "proxyarray": true}

var callableKinds = map[string]bool{"func": true, "strictfunc": true, "arrow": true, "bound": true, "class": true, "method": true, "genfunc": true, "asyncfunc": true, "ctor": true, "proxyfunc": true}

var hostOwnKeys = map[string]map[string]bool{
	"goslice":  {`s:"0"`: true, `s:"1"`: true, `s:"2"`: true},
	"gostruct": {`s:"A"`: true, `s:"B"`: true, `s:"C"`: true},
	"gomap":    {`s:"a"`: true},
	"gomapref": {`s:"a"`: true},
}

func isSubjectVal(c *ACase, v string) bool {
	for _, s := range c.Subjects {
		if v == "o:"+strconv.Itoa(s.Tag) {
			return true
		}
	}
	return false
}

func storesSubjectAtLength(c *ACase) bool {
	for _, op := range c.Ops {
		if op.X || op.M != nil || op.K != `s:"length"` {
			continue
		}
		if isSubjectVal(c, op.V) || (op.D != nil && op.D.HasValue && isSubjectVal(c, op.D.Value.String())) {
			return true
		}
	}
	return false
}

func storesSubjects(c *ACase) bool {
	for _, op := range c.Ops {
		if op.X || op.M != nil {
			continue
		}
		if isSubjectVal(c, op.V) || isSubjectVal(c, op.R) || (op.D != nil && op.D.HasValue && isSubjectVal(c, op.D.Value.String())) {
			return true
		}
	}
	return false
}

// judgeLockstep runs the history on a direct target (runtime D) and on an identically built twin
// behind the proxy layers (runtime P).
func judgeLockstep(c *ACase) (f *evid.Failure, executed int, nontrivial bool) {
	fail := func(key, msg string, exp, obs interface{}) *evid.Failure {
		return &evid.Failure{Check: "lockstep", Key: key, Msg: msg, Case: c, Expected: exp, Observed: obs}
	}
	evid.SetCurrent("lockstep", c)
	defer evid.ClearCurrent()
	d, err := newSide(c, false)
	if err != "" {
		return fail("harness", "direct side: "+err, nil, nil), 0, false
	}
	p, err := newSide(c, true)
	if err != "" {
		return fail("setup:"+subjectKinds(c), "proxied side: "+err, nil, nil), 0, false
	}
	compare := func(step int, what string) *evid.Failure {
		opn, kc := "init", "-"
		if step >= 0 {
			opn, kc = c.Ops[step].Op.Op+"/"+c.Ops[step].Surf, aKeyClass(c.Ops[step].K)
			if c.Ops[step].M != nil {
				opn = "method:" + c.Ops[step].M.Name
			}
		}
		for _, s := range c.Subjects {
			want, e1 := callS(d.dump, d.obj("OBJ", s.Tag))
			if e1 != nil {
				return fail("harness", fmt.Sprintf("step %d: dump of the direct target failed: %v", step, e1), nil, nil)
			}
			key := fmt.Sprintf("state:%s:%s:%s:%s", opn, s.Kind, kc, layerText(s.Layers))
			got, e2 := callS(p.dump, p.obj("OBJ", s.Tag))
			if e2 != nil {
				return fail(key+":dump-throws", fmt.Sprintf("step %d (%s): the state dump through the proxy of o:%d (%s, layers %s) throws: %v\n  direct target: %s", step, what, s.Tag, s.Kind, layerText(s.Layers), e2, want), want, e2.Error())
			}
			if got != want {
				return fail(key+":via-proxy", fmt.Sprintf("step %d (%s): state of o:%d (%s, layers %s) seen through the proxy differs from the direct target\n  proxy : %s\n  direct: %s", step, what, s.Tag, s.Kind, layerText(s.Layers), got, want), want, got)
			}
			raw, e3 := callS(p.dump, p.obj("RAW", s.Tag))
			if e3 != nil {
				return fail("harness", fmt.Sprintf("step %d: dump of the twin target failed: %v", step, e3), nil, nil)
			}
			if raw != want {
				return fail(key+":twin", fmt.Sprintf("step %d (%s): state of the twin target behind the proxy o:%d (%s, layers %s) differs from the direct target\n  twin  : %s\n  direct: %s", step, what, s.Tag, s.Kind, layerText(s.Layers), raw, want), want, raw)
			}
			if s.Kind == "args" {
				for i := 0; i < 2; i++ {
					a, _ := callS(d.param, d.vm.ToValue(s.Tag), d.vm.ToValue(i))
					b, _ := callS(p.param, p.vm.ToValue(s.Tag), p.vm.ToValue(i))
					if a != b {
						return fail(key+":args-param", fmt.Sprintf("step %d (%s): formal parameter %d mapped to the arguments object: %s behind the proxy, %s direct", step, what, i, b, a), a, b)
					}
				}
			}
		}
		return nil
	}
	if f := compare(-1, "initial"); f != nil {
		return f, 0, false
	}
	for i, op := range c.Ops {
		if why := excludedOp(c, op); why != "" {
			evid.Excluded(why)
			continue
		}
		if op.M != nil || (op.X && (op.Op.Op == "concatL" || op.Op.Op == "concatR")) {
			// known finding hole-as-undefined: goja's array methods test "element present" by a nil result of the internal get, so on a proxy the
			// has trap is not consulted and an absent element reads as undefined. Not generated (see the pinned case for the finding itself).
			h, _ := callS(d.holes, d.vm.ToValue(op.O))
			callS(p.holes, p.vm.ToValue(op.O)) // same accessor calls on the twin
			if op.X && isSubjectVal(c, op.V) && h == "false" {
				tag, _ := strconv.Atoi(op.V[2:])
				h, _ = callS(d.holes, d.vm.ToValue(tag))
				callS(p.holes, p.vm.ToValue(tag))
			}
			if h != "false" {
				evid.Excluded("Array.prototype method on a subject with holes below its length (known finding hole-as-undefined)")
				continue
			}
		}
		ntBefore, _ := callS(d.nt, d.vm.ToValue(op.O), d.vm.ToValue(op.K))
		trapsBefore := p.trapCount()
		want, e1 := d.exec(op)
		if e1 != nil {
			return fail("exec-direct:"+op.Op.Op, fmt.Sprintf("step %d (%s) on the direct target: %v", i, aOpText(op), e1), nil, nil), i, nontrivial
		}
		got, e2 := p.exec(op)
		opn := op.Op.Op + "/" + op.Surf
		if op.M != nil {
			opn = "method:" + op.M.Name
		}
		sub := c.Subjects[0]
		for _, s := range c.Subjects {
			if s.Tag == op.O {
				sub = s
			}
		}
		key := fmt.Sprintf("result:%s:%s:%s:%s", opn, sub.Kind, aKeyClass(op.K), layerText(sub.Layers))
		if e2 != nil {
			return fail(key+":exec", fmt.Sprintf("step %d (%s) through the proxy (%s, layers %s): %v; direct target gives %s", i, aOpText(op), sub.Kind, layerText(sub.Layers), e2, want), want, e2.Error()), i, nontrivial
		}
		if got != want {
			return fail(key, fmt.Sprintf("step %d (%s) on %s: through the proxy (layers %s) %s, on the direct target %s", i, aOpText(op), sub.Kind, layerText(sub.Layers), got, want), want, got), i, nontrivial
		}
		if dl, pl := d.log(), p.log(); dl != pl {
			return fail("log:"+opn+":"+sub.Kind+":"+layerText(sub.Layers), fmt.Sprintf("step %d (%s): accessor calls differ\n  proxy : %s\n  direct: %s", i, aOpText(op), pl, dl), dl, pl), i, nontrivial
		}
		if p.trapCount() > trapsBefore && ntBefore == "true" {
			nontrivial = true
		}
		if f := compare(i, aOpText(op)); f != nil {
			return f, i, nontrivial
		}
		executed++
	}
	return nil, executed, nontrivial
}

func subjectKinds(c *ACase) string {
	var k []string
	for _, s := range c.Subjects {
		k = append(k, s.Kind)
	}
	return strings.Join(k, ",")
}

func recordLockstep(c *ACase, executed int, nontrivial bool) {
	evid.Case(c.Text(), nontrivial && executed > 0)
	for _, s := range c.Subjects {
		evid.Count("kind:" + s.Kind)
		evid.Count("layers:depth" + strconv.Itoa(len(s.Layers)))
		for _, l := range s.Layers {
			evid.Count("layer:" + layerText([]Layer{l}))
		}
	}
	for _, op := range c.Ops {
		n := op.Op.Op
		if op.M != nil {
			n = "method"
		}
		evid.Count("op:" + n)
	}
	evid.CountN("ops-executed", int64(executed))
	evid.Sample("lockstep", c)
}
