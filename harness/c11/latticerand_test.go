package c11

import (
	"encoding/json"
	"strconv"

	"pgregory.net/rapid"

	"verifh/internal/esmodel"
	"verifh/internal/evid"
)

// The generated part of the lattice: exotic targets (arrays, String wrappers, arguments,
// functions, typed arrays, frozen / sealed objects ...) brought into a random state by a short
// prefix of ordinary operations, optionally behind a forwarding proxy layer; the trap forwards
// to the target and returns the honest result or the honest result changed in one component.
// The verdict comes from the same 10.5 oracle, computed from the target facts read afterwards.

var lrKinds = []string{"plain", "plainp", "nullproto", "objectproto", "sealedplain", "nonextacc", "array", "arrayholes", "arrayempty", "frozenarray",
	"args", "argsstrict", "string", "func", "strictfunc", "arrow", "bound", "class", "ctor", "typedarray", "error", "regexp", "proxyplain", "proxyarray"}

var lrKeys = []string{`s:"a"`, `s:"b"`, `s:"length"`, `s:"0"`, `s:"1"`, `s:"2"`, `s:"3"`, `s:"prototype"`, `s:"name"`, `s:"callee"`, `s:"acc"`, `s:"ro"`, `s:"x"`, `s:"lastIndex"`, `s:"message"`, "y:0", "y:1", "y:3"}

var lrVals = []string{"u", "null", "b:true", "d:0", "d:-0", "d:1", "d:2", "d:3", "d:NaN", `s:"a"`, `s:"b"`, `s:"v"`, "o:702", "o:900"}

func lrGenPre(t *rapid.T) []json.RawMessage {
	n := rapid.IntRange(0, 4).Draw(t, "npre")
	var out []json.RawMessage
	for i := 0; i < n; i++ {
		op := esmodel.Op{O: 1, Surf: "Reflect"}
		switch rapid.IntRange(0, 7).Draw(t, "prekind") {
		case 0, 1, 2:
			op.Op = "define"
			op.K = rapid.SampledFrom(lrKeys).Draw(t, "prek")
			d := &esmodel.Desc{Value: esmodel.Undef, Get: esmodel.Undef, Set: esmodel.Undef, HasE: true, HasC: true}
			d.E, d.C = rapid.Bool().Draw(t, "pe"), rapid.Bool().Draw(t, "pc")
			if rapid.IntRange(0, 2).Draw(t, "pacc") == 0 {
				d.HasGet, d.HasSet = true, true
				g, _ := esmodel.ParseVal(rapid.SampledFrom([]string{"u", "o:900"}).Draw(t, "pg"))
				s, _ := esmodel.ParseVal(rapid.SampledFrom([]string{"u", "o:910"}).Draw(t, "ps"))
				d.Get, d.Set = g, s
			} else {
				d.HasValue, d.HasW = true, true
				v, _ := esmodel.ParseVal(rapid.SampledFrom(lrVals[:12]).Draw(t, "pv"))
				d.Value, d.W = v, rapid.Bool().Draw(t, "pw")
			}
			op.D = d
		case 3:
			op.Op = "freeze"
			op.Surf = "Object"
		case 4:
			op.Op = "seal"
			op.Surf = "Object"
		case 5:
			op.Op = "preventExt"
		case 6:
			op.Op = "delete"
			op.K = rapid.SampledFrom(lrKeys).Draw(t, "prek")
		case 7:
			op.Op = "setProto"
			op.P = rapid.SampledFrom([]int{-1, 700, 701}).Draw(t, "prep")
		}
		b, _ := json.Marshal(op)
		out = append(out, b)
	}
	return out
}

var lrTraps = allTraps[:11]

func genLCaseRand(t *rapid.T) *LCase {
	c := &LCase{Trap: rapid.SampledFrom(lrTraps).Draw(t, "trap"), Ext: true, Proto: "o:800"}
	c.SKind = rapid.SampledFrom(lrKinds).Draw(t, "skind")
	c.Pre = lrGenPre(t)
	c.Inner = rapid.IntRange(0, 2).Draw(t, "inner") == 0
	c.H = rapid.SampledFrom([]string{"js", "js", "go"}).Draw(t, "h")
	c.Surf = rapid.SampledFrom(trapSurfaces[c.Trap]).Draw(t, "surf")
	switch c.Trap {
	case "getOwnPropertyDescriptor", "defineProperty", "has", "get", "set", "deleteProperty":
		c.Key = rapid.SampledFrom(lrKeys).Draw(t, "key")
	case "isExtensible":
		c.Key = `s:"a"` // unused by the operation; kept for the Go trap variant selection
	}
	if c.SKind == "typedarray" && (c.Trap == "get" || c.Trap == "set") && (c.Key == `s:"length"` || c.Key == "y:3") {
		// the forwarded read runs a %TypedArray%.prototype accessor with the proxy as receiver: TypeError, and goja builds the message
		// with Object.prototype.toString(receiver), which reads @@toStringTag through the proxy (known finding error-message-reads-toStringTag)
		evid.Excluded("get of an inherited typed-array accessor through the lying proxy (known finding error-message-reads-toStringTag)")
		c.Key = `s:"a"`
	}
	if c.H == "go" {
		c.GoVar = "exact"
		if c.Key != "" {
			c.GoVar = rapid.SampledFrom([]string{"exact", "both"}).Draw(t, "govar")
			if _, isIdx := map[string]bool{`s:"0"`: true, `s:"1"`: true, `s:"2"`: true, `s:"3"`: true}[c.Key]; isIdx {
				// the generic Go trap log expectation only knows the index key "2"
				c.Key = `s:"2"`
				c.GoVar = rapid.SampledFrom([]string{"exact", "str", "both"}).Draw(t, "govaridx")
			}
		}
	}
	if _, isIdx := map[string]bool{`s:"0"`: true, `s:"1"`: true, `s:"2"`: true, `s:"3"`: true}[c.Key]; isIdx && c.Trap != "isExtensible" {
		c.NumKey = rapid.Bool().Draw(t, "numkey")
	}
	c.Mutate = true
	val := func() string { return rapid.SampledFrom(lrVals).Draw(t, "val") }
	mod := "same"
	switch c.Trap {
	case "getPrototypeOf":
		mod = rapid.SampledFrom([]string{"same", "same", "value:null", "value:o:700", "value:o:800", "value:o:802", "value:d:1", "value:u"}).Draw(t, "mod")
		if c.H == "go" && (mod == "value:d:1" || mod == "value:u") {
			mod = "value:null"
		}
	case "setPrototypeOf":
		c.ArgV = rapid.SampledFrom([]string{"null", "o:700", "o:701", "o:800", "o:802"}).Draw(t, "argv")
		mod = rapid.SampledFrom([]string{"same", "same", "not"}).Draw(t, "mod")
	case "isExtensible", "preventExtensions", "has", "deleteProperty":
		mod = rapid.SampledFrom([]string{"same", "same", "not"}).Draw(t, "mod")
	case "getOwnPropertyDescriptor":
		mod = rapid.SampledFrom([]string{"same", "same", "same", "undef", "flipC", "flipE", "flipW", "dropC", "value:" + val(), "get:o:900", "get:u", "set:o:910", "set:u"}).Draw(t, "mod")
	case "defineProperty":
		d := wGenPartialDesc(t, 1)
		if d.V != "" {
			d.V = val()
		}
		c.ArgD = d
		mod = rapid.SampledFrom([]string{"same", "same", "not"}).Draw(t, "mod")
	case "get":
		mod = rapid.SampledFrom([]string{"same", "same", "value:" + val()}).Draw(t, "mod")
	case "set":
		c.ArgV = val()
		mod = rapid.SampledFrom([]string{"same", "same", "not"}).Draw(t, "mod")
	case "ownKeys":
		i := strconv.Itoa(rapid.IntRange(0, 5).Draw(t, "ki"))
		mod = rapid.SampledFrom([]string{"same", "same", "drop:" + i, "dup:" + i, "add:s:\"zz\"", "add:y:2", "add:d:1", "reverse"}).Draw(t, "mod")
	}
	// instanceof / isProto surfaces assume the registry prototypes; the prefix may install others: fine, the oracle only
	// looks at the trap result (o:700 or not)
	c.Res = Res{Kind: "fwdmod", Mod: mod}
	if mod == "same" {
		c.Res = Res{Kind: "fwd"}
	}
	return c
}
