package c11

import (
	"encoding/json"
	"fmt"
	"os"
	"runtime"
	"runtime/debug"
	"testing"

	"pgregory.net/rapid"

	"verifh/internal/evid"
)

func TestMain(m *testing.M) {
	runtime.GOMAXPROCS(2)
	debug.SetGCPercent(400)
	evid.Main("C11", m)
}

// runLattice enumerates the lattice of every trap under the given options; this shard judges
// every NShards-th point.
func runLattice(t *testing.T, name string, o latticeOpts) {
	n, mine := 0, 0
	perTrap := map[string]int{}
	var firstFail *evid.Failure
	fails := map[string]int{}
	for _, trap := range allTraps {
		enumerateLattice(trap, o, func(c *LCase) {
			n++
			perTrap[trap]++
			if n%evid.NShards() != evid.Shard() {
				return
			}
			mine++
			evid.Case(c.Text(), true)
			evid.Count(name + ":" + trap)
			f := judgeLattice(c)
			if f == nil {
				return
			}
			f.Check = name
			if fails[f.Key] == 0 && !evid.Known(f.Key) {
				if firstFail == nil {
					firstFail = f
				}
				t.Logf("%s [%s] %s", name, f.Key, f.Msg)
			}
			fails[f.Key]++
		})
	}
	evid.Note(fmt.Sprintf("%s: exhaustive enumeration of %d lattice points (%v), this shard judged %d; %d distinct failure keys", name, n, perTrap, mine, len(fails)))
	t.Logf("%s: %d points (%v), judged %d", name, n, perTrap, mine)
	if len(fails) > 0 {
		t.Logf("%s: failure keys: %v", name, fails)
	}
	if firstFail != nil {
		evid.Direct(t, firstFail)
	}
}

func TestQuickLatticeJS(t *testing.T) { runLattice(t, "lattice-js", latticeOpts{}) }
func TestQuickLatticeGo(t *testing.T) { runLattice(t, "lattice-go", latticeOpts{goHandler: true}) }

func TestQuickLatticeRand(t *testing.T) {
	evid.Check(t, "lattice-rand", 20000, 3, func(t *rapid.T) {
		c := genLCaseRand(t)
		evid.Case(c.Text(), true)
		evid.Count("lattice-rand:" + c.Trap)
		evid.Count("lattice-rand:kind:" + c.SKind)
		evid.Sample("lattice-rand", c)
		f := judgeLattice(c)
		if f != nil {
			f.Check = "lattice-rand"
		}
		evid.Judge(t, f)
	})
}

func TestQuickRevoked(t *testing.T) {
	n, mine := 0, 0
	var firstFail *evid.Failure
	fails := map[string]int{}
	enumerateRevoked(func(c *RCase) {
		n++
		if n%evid.NShards() != evid.Shard() {
			return
		}
		mine++
		evid.Case(c.Text(), true)
		evid.Count("revoked:" + c.How)
		f := judgeRevoked(c)
		if f == nil {
			return
		}
		if fails[f.Key] == 0 && !evid.Known(f.Key) {
			if firstFail == nil {
				firstFail = f
			}
			t.Logf("revoked [%s] %s", f.Key, f.Msg)
		}
		fails[f.Key]++
	})
	evid.Note(fmt.Sprintf("revoked: exhaustive enumeration of %d (operation, key, target kind, revocation path) points, this shard judged %d", n, mine))
	t.Logf("revoked: %d points, judged %d, %d failure keys", n, mine, len(fails))
	if firstFail != nil {
		evid.Direct(t, firstFail)
	}
}

func TestQuickLockstep(t *testing.T) {
	evid.Check(t, "lockstep", 3000, 3, func(t *rapid.T) {
		c := genACase(t)
		f, executed, nontrivial := judgeLockstep(c)
		recordLockstep(c, executed, nontrivial)
		evid.Judge(t, f)
	})
}

func TestQuickTrapLog(t *testing.T) {
	evid.Check(t, "traplog", 10000, 4, func(t *rapid.T) {
		c := genWCase(t)
		f, nontrivial := judgeWorld(c)
		evid.Case(c.Text(), nontrivial)
		for _, o := range c.Objs {
			if o.Proxy {
				evid.Count("world:proxy:" + o.H)
			} else {
				evid.Count("world:ordinary")
			}
		}
		for _, op := range c.Ops {
			evid.Count("wop:" + op.Op)
		}
		evid.Sample("traplog", c)
		evid.Judge(t, f)
	})
}

func TestReplay(t *testing.T) {
	p := os.Getenv("VERIF_REPLAY")
	if p == "" {
		t.Skip("no VERIF_REPLAY")
	}
	check, raw, err := evid.LoadReplay(p)
	if err != nil {
		t.Fatal(err)
	}
	switch check {
	case "pinned":
		var c pinnedCase
		if err := json.Unmarshal(raw, &c); err != nil {
			t.Fatal(err)
		}
		evid.Direct(t, judgePinned(&c))
	case "lattice-rand", "lattice-js", "lattice-go", "lattice-js-full", "lattice-go-full":
		var c LCase
		if err := json.Unmarshal(raw, &c); err != nil {
			t.Fatal(err)
		}
		evid.Direct(t, judgeLattice(&c))
	case "traplog":
		var c WCase
		if err := json.Unmarshal(raw, &c); err != nil {
			t.Fatal(err)
		}
		f, _ := judgeWorld(&c)
		evid.Direct(t, f)
	case "revoked":
		var c RCase
		if err := json.Unmarshal(raw, &c); err != nil {
			t.Fatal(err)
		}
		evid.Direct(t, judgeRevoked(&c))
	case "lockstep":
		var c ACase
		if err := json.Unmarshal(raw, &c); err != nil {
			t.Fatal(err)
		}
		f, _, _ := judgeLockstep(&c)
		evid.Direct(t, f)
	default:
		var c LCase
		if err := json.Unmarshal(raw, &c); err != nil {
			t.Fatal(err)
		}
		evid.Direct(t, judgeLattice(&c))
	}
}

// TestThoroughLatticeFull: the lattice with every surface syntax and with truthy/falsy
// non-boolean trap results (thorough tier; the 16 shards split the enumeration).
func TestThoroughLatticeFull(t *testing.T) {
	if !evid.Thorough() && os.Getenv("C11_FULL") == "" {
		t.Skip("thorough tier only")
	}
	runLattice(t, "lattice-js-full", latticeOpts{allSurfaces: true, looseBools: true})
	runLattice(t, "lattice-go-full", latticeOpts{allSurfaces: true, goHandler: true, allGoVars: true})
}
