package c11

import (
	"encoding/json"
	"fmt"

	"github.com/dop251/goja"

	"verifh/internal/evid"
	"verifh/internal/jsx"
)

var revokedPrg = goja.MustCompile("c11revoked.js", revokedJS, false)

// RCase is one operation on a revoked proxy.
type RCase struct {
	Target string `json:"target"` // plain array func class arrow proxy nonext
	How    string `json:"how"`    // js (empty handler) | js-traps (forwarding handler) | go (Runtime.NewProxy + Proxy.Revoke)
	Twice  bool   `json:"twice"`  // revoke called twice
	Op     string `json:"op"`
	Key    string `json:"key,omitempty"`
}

func (c *RCase) Text() string { b, _ := json.Marshal(c); return string(b) }

var revKeyedOps = []string{"Object.getOwnPropertyDescriptor", "Reflect.getOwnPropertyDescriptor", "hasOwnProperty", "Object.hasOwn", "propertyIsEnumerable",
	"Object.defineProperty", "Reflect.defineProperty", "in", "Reflect.has", "get", "Reflect.get", "Reflect.get-recv", "optional-chain", "method-call", "destructure",
	"set-strict", "set-sloppy", "Reflect.set", "Reflect.set-recv", "compound-assign", "delete-strict", "delete-sloppy", "Reflect.deleteProperty",
	"proto-get", "proto-in", "proto-set", "outer-proxy-get", "outer-proxy-has"}

var revPlainOps = []string{"Object.getPrototypeOf", "Reflect.getPrototypeOf", "__proto__", "instanceof", "isPrototypeOf", "Object.setPrototypeOf", "Reflect.setPrototypeOf",
	"Object.isExtensible", "Reflect.isExtensible", "Object.isFrozen", "Object.isSealed", "Object.preventExtensions", "Reflect.preventExtensions", "Object.freeze", "Object.seal",
	"Object.getOwnPropertyDescriptors", "Object.defineProperties", "with", "Reflect.ownKeys", "Object.keys", "Object.values", "Object.entries", "Object.getOwnPropertyNames",
	"Object.getOwnPropertySymbols", "for-in", "Object.assign-from", "Object.assign-to", "object-spread", "JSON.stringify", "JSON.stringify-nested",
	"call", "new", "Reflect.apply", "Reflect.construct", "Reflect.construct-newTarget", "Function.prototype.call", "Function.prototype.bind-call",
	"Array.isArray", "Object.prototype.toString", "String", "concat-string", "Number", "loose-equals-prim", "Array.prototype.concat", "array-spread", "Array.from",
	"Array.prototype.slice", "Array.prototype.push", "outer-proxy-keys"}

// operations that do not reach an internal method of the proxy and therefore do not throw
var revNoThrowOps = []string{"typeof", "identity", "Object.fromEntries-map", "WeakMap-key", "Promise.resolve"}

func enumerateRevoked(visit func(c *RCase)) {
	for _, target := range []string{"plain", "array", "func", "class", "arrow", "proxy", "nonext"} {
		for _, how := range []string{"js", "js-traps", "go"} {
			for _, twice := range []bool{false, true} {
				for _, op := range revKeyedOps {
					for _, k := range []string{`s:"k"`, `s:"2"`, "y:0", `s:"length"`, `s:"then"`} {
						visit(&RCase{Target: target, How: how, Twice: twice, Op: op, Key: k})
					}
				}
				for _, op := range revPlainOps {
					visit(&RCase{Target: target, How: how, Twice: twice, Op: op, Key: `s:"k"`})
				}
				for _, op := range revNoThrowOps {
					visit(&RCase{Target: target, How: how, Twice: twice, Op: op})
				}
			}
		}
	}
}

// expectRevoked: 10.5.1-10.5.13 step 2-3 (Perform ? ValidateNonRevokedProxy / "If handler is null, throw a TypeError exception")
// for every internal method; 7.2.2 IsArray step 3.a for Array.isArray; typeof (13.5.3) only looks at the presence of [[Call]].
func expectRevoked(c *RCase) string {
	switch c.Op {
	case "typeof":
		if c.Target == "func" || c.Target == "class" || c.Target == "arrow" {
			return "function"
		}
		return "object"
	case "identity":
		return "true"
	case "Object.fromEntries-map", "WeakMap-key":
		return "d:1"
	case "Promise.resolve":
		// PromiseResolve -> the resolve function reads "then" of the resolution: Get on the revoked proxy throws inside
		// the resolving function, which rejects the promise; nothing is thrown to the caller
		return "ok"
	}
	return typeError
}

func judgeRevoked(c *RCase) *evid.Failure {
	fail := func(key, msg string, exp, obs interface{}) *evid.Failure {
		return &evid.Failure{Check: "revoked", Key: key, Msg: msg + "\n  case: " + c.Text(), Case: c, Expected: exp, Observed: obs}
	}
	vm := goja.New()
	for _, p := range []*goja.Program{preludePrg, latticePrg, lockstepPrg, revokedPrg} {
		if o := jsx.RunProgram(vm, p); o.Kind != "value" {
			return fail("harness", "prelude: "+o.Text, nil, nil)
		}
	}
	goAPI := ""
	vm.Set("GOREVOKED", func(target *goja.Object, twice bool) goja.Value {
		px := vm.NewProxy(target, &goja.ProxyTrapConfig{})
		v := vm.ToValue(px)
		px.Revoke()
		if twice {
			px.Revoke()
		}
		if px.Handler() != nil || px.Target() != nil {
			goAPI = "Handler()/Target() of a revoked Proxy are not nil"
		}
		return v
	})
	run := jsFn(vm, "runRevoked")
	o := jsx.Protect(func() (goja.Value, error) { return run(goja.Undefined(), vm.ToValue(c.Text())) })
	key := fmt.Sprintf("revoked:%s:%s:%s", c.Op, c.Target, c.How)
	if o.Kind == "panic" {
		return fail(key+":panic", "Go panic: "+o.Text+"\n"+o.Stack, typeError, o.Text)
	}
	if o.Kind != "value" {
		return fail("harness", "runRevoked failed: "+o.Text, nil, nil)
	}
	if goAPI != "" {
		return fail(key+":goapi", goAPI, nil, nil)
	}
	want := expectRevoked(c)
	if got := o.Value.String(); got != want {
		return fail(key, fmt.Sprintf("%s on a revoked proxy of a %s target gives %s, expected %s", c.Op, c.Target, got, want), want, got)
	}
	return nil
}
