package c11

import (
	"encoding/json"
	"fmt"
	"sort"
	"strconv"
	"strings"

	"github.com/dop251/goja"
	"pgregory.net/rapid"

	"verifh/internal/evid"
	"verifh/internal/jsx"
)

var worldPrg = goja.MustCompile("c11world.js", worldJS, false)

// WProp / WObj / WOp / WCase: a world of ordinary objects and logging forwarding proxies, and
// operations on them.
type WProp struct {
	K string `json:"k"`
	D PDesc  `json:"d"` // complete
}

type WObj struct {
	Tag    int     `json:"tag"`
	Proxy  bool    `json:"proxy,omitempty"`
	Props  []WProp `json:"props"`
	Ext    bool    `json:"ext"`
	Proto  string  `json:"proto,omitempty"`
	Target int     `json:"target,omitempty"`
	Mask   int     `json:"mask,omitempty"`   // bit i = TRAPS[i], i < 11
	H      string  `json:"h,omitempty"`      // js | go
	GoMask int     `json:"gomask,omitempty"` // derived from Mask
}

type WOp struct {
	Op   string `json:"op"`
	Surf string `json:"surf"`
	O    int    `json:"o"`
	K    string `json:"k,omitempty"`
	V    string `json:"v,omitempty"`
	R    string `json:"r,omitempty"`
	P    int    `json:"p,omitempty"`
	D    *PDesc `json:"pd,omitempty"`
	NK   bool   `json:"nk,omitempty"` // the index key is passed as a Number
}

type WCase struct {
	Objs []WObj `json:"objs"`
	Ops  []*WOp `json:"ops"`
}

func (c *WCase) Text() string { b, _ := json.Marshal(c); return string(b) }

var trapNames = []string{"getPrototypeOf", "setPrototypeOf", "isExtensible", "preventExtensions", "getOwnPropertyDescriptor", "defineProperty", "has", "get", "set", "deleteProperty", "ownKeys"}

// goMaskOf installs all three (Str/Idx/Sym) Go traps of every JS trap in mask.
func goMaskOf(mask int) int {
	groups := map[string][]string{
		"getPrototypeOf": {"GetPrototypeOf"}, "setPrototypeOf": {"SetPrototypeOf"}, "isExtensible": {"IsExtensible"}, "preventExtensions": {"PreventExtensions"},
		"getOwnPropertyDescriptor": {"GetOwnPropertyDescriptor", "GetOwnPropertyDescriptorIdx", "GetOwnPropertyDescriptorSym"},
		"defineProperty":           {"DefineProperty", "DefinePropertyIdx", "DefinePropertySym"},
		"has":                      {"Has", "HasIdx", "HasSym"}, "get": {"Get", "GetIdx", "GetSym"}, "set": {"Set", "SetIdx", "SetSym"},
		"deleteProperty": {"DeleteProperty", "DeletePropertyIdx", "DeletePropertySym"}, "ownKeys": {"OwnKeys"},
	}
	g := 0
	for i, t := range trapNames {
		if mask&(1<<i) == 0 {
			continue
		}
		for _, n := range groups[t] {
			for j, gn := range goTrapNames {
				if gn == n {
					g |= 1 << j
				}
			}
		}
	}
	return g
}

var wKeys = []string{`s:"a"`, `s:"b"`, `s:"c"`, `s:"0"`, `s:"1"`, `s:"2"`, "y:0", "y:1", "y:3"}
var wPrims = []string{"u", "null", "b:true", "d:0", "d:-0", "d:1", "d:2", "d:NaN", `s:"v"`, `s:"T"`}

func wGenVal(t *rapid.T, n int) string {
	if rapid.IntRange(0, 4).Draw(t, "vobj") == 0 {
		return "o:" + strconv.Itoa(rapid.IntRange(1, n).Draw(t, "vtag"))
	}
	return rapid.SampledFrom(wPrims).Draw(t, "vprim")
}

func wGenFullDesc(t *rapid.T, n int) PDesc {
	e, c := tf(rapid.Bool().Draw(t, "e")), tf(rapid.IntRange(0, 2).Draw(t, "c") > 0)
	if rapid.IntRange(0, 3).Draw(t, "acc") == 0 {
		return PDesc{G: rapid.SampledFrom([]string{"u", "o:900", "o:901"}).Draw(t, "g"), S: rapid.SampledFrom([]string{"u", "o:910", "o:911"}).Draw(t, "s"), E: e, C: c}
	}
	return PDesc{V: wGenVal(t, n), W: tf(rapid.IntRange(0, 2).Draw(t, "w") > 0), E: e, C: c}
}

func wGenPartialDesc(t *rapid.T, n int) *PDesc {
	d := wGenFullDesc(t, n)
	drop := rapid.IntRange(0, 63).Draw(t, "drop")
	if drop&1 != 0 {
		d.E = ""
	}
	if drop&2 != 0 {
		d.C = ""
	}
	if d.isAccessor() {
		if drop&4 != 0 && d.S != "" {
			d.G = ""
		}
		if drop&8 != 0 && d.G != "" {
			d.S = ""
		}
	} else {
		if drop&4 != 0 {
			d.V = ""
		}
		if drop&8 != 0 {
			d.W = ""
		}
	}
	return &d
}

// baseTag: the tag of the ordinary object at the bottom of o's proxy chain.
func (c *WCase) baseTag(tag int) int {
	for {
		o := &c.Objs[tag-1]
		if !o.Proxy {
			return tag
		}
		tag = o.Target
	}
}

func genWCase(t *rapid.T) *WCase {
	c := &WCase{}
	n := rapid.IntRange(2, 6).Draw(t, "nobj")
	nOrd := 0
	for tag := 1; tag <= n; tag++ {
		o := WObj{Tag: tag}
		makeProxy := tag > 1 && rapid.IntRange(0, 9).Draw(t, "isproxy") < 6
		if makeProxy {
			o.Proxy = true
			o.Target = rapid.IntRange(1, tag-1).Draw(t, "target")
			switch rapid.IntRange(0, 3).Draw(t, "maskkind") {
			case 0:
				o.Mask = rapid.IntRange(0, 1<<11-1).Draw(t, "mask")
			default:
				o.Mask = 1<<11 - 1
			}
			o.H = rapid.SampledFrom([]string{"js", "js", "go"}).Draw(t, "h")
			o.GoMask = goMaskOf(o.Mask)
		} else {
			nOrd++
			o.Ext = rapid.IntRange(0, 3).Draw(t, "ext") > 0
			o.Proto = "o:800"
			switch rapid.IntRange(0, 3).Draw(t, "protokind") {
			case 0:
				o.Proto = "null"
			case 1, 2:
				if tag > 1 {
					o.Proto = "o:" + strconv.Itoa(rapid.IntRange(1, tag-1).Draw(t, "proto"))
				}
			}
			np := rapid.IntRange(0, 4).Draw(t, "nprops")
			seen := map[string]bool{}
			for i := 0; i < np; i++ {
				k := rapid.SampledFrom(wKeys).Draw(t, "pk")
				if seen[k] {
					continue
				}
				seen[k] = true
				d := wGenFullDesc(t, tag-1+1)
				if strings.HasPrefix(d.V, "o:") {
					if n, _ := strconv.Atoi(d.V[2:]); n >= tag {
						d.V = "d:7"
					}
				}
				if k == "y:3" && d.isData() {
					d.V = `s:"T"`
				}
				o.Props = append(o.Props, WProp{K: k, D: d})
			}
		}
		if o.Props == nil {
			o.Props = []WProp{}
		}
		c.Objs = append(c.Objs, o)
	}
	nops := rapid.IntRange(1, 12).Draw(t, "nops")
	opKinds := []string{"define", "define", "get", "get", "set", "set", "set", "delete", "has", "hasOwn", "gopd", "ownKeys", "names", "symbols", "keys",
		"preventExt", "seal", "freeze", "isExt", "isSealed", "isFrozen", "getProto", "setProto", "forin", "assign",
		"entries", "values", "ospread", "gopds", "instanceof", "isProtoOf", "tostring", "propIsEnum", "isArray", "typeof"}
	for i := 0; i < nops; i++ {
		op := &WOp{Op: rapid.SampledFrom(opKinds).Draw(t, "op"), O: rapid.IntRange(1, n).Draw(t, "o")}
		// proxies are the interesting subjects
		if !c.Objs[op.O-1].Proxy && rapid.Bool().Draw(t, "retarget") {
			for j := n; j >= 1; j-- {
				if c.Objs[j-1].Proxy {
					op.O = j
					break
				}
			}
		}
		op.Surf = rapid.SampledFrom([]string{"strict", "sloppy", "Object", "Reflect"}).Draw(t, "surf")
		op.NK = rapid.IntRange(0, 2).Draw(t, "nk") == 0
		switch op.Op {
		case "define":
			op.K = rapid.SampledFrom(wKeys).Draw(t, "k")
			op.D = wGenPartialDesc(t, n)
			if op.Surf != "Reflect" {
				op.Surf = "Object"
			}
		case "get":
			op.K = rapid.SampledFrom(wKeys).Draw(t, "k")
			if op.Surf == "Reflect" && rapid.Bool().Draw(t, "recv") {
				op.R = "o:" + strconv.Itoa(rapid.IntRange(1, n).Draw(t, "r"))
			} else if op.Surf != "Reflect" {
				op.Surf = "strict"
			}
		case "set":
			op.K = rapid.SampledFrom(wKeys).Draw(t, "k")
			op.V = wGenVal(t, n)
			if op.Surf == "Object" {
				op.Surf = "strict"
			}
			if op.Surf == "Reflect" && rapid.Bool().Draw(t, "recv") {
				op.R = "o:" + strconv.Itoa(rapid.IntRange(1, n).Draw(t, "r"))
			}
		case "delete":
			op.K = rapid.SampledFrom(wKeys).Draw(t, "k")
			if op.Surf == "Object" {
				op.Surf = "strict"
			}
		case "has", "hasOwn", "gopd":
			op.K = rapid.SampledFrom(wKeys).Draw(t, "k")
			if op.Surf != "Reflect" {
				op.Surf = "Object"
			}
		case "propIsEnum":
			op.K = rapid.SampledFrom(wKeys).Draw(t, "k")
			op.Surf = "w"
		case "setProto":
			// only towards lower tags than the base of the subject: the prototype graph stays acyclic (a cycle through
			// a proxy is legal and makes every lookup recurse forever)
			base := c.baseTag(op.O)
			op.P = -1
			if base > 1 && rapid.IntRange(0, 3).Draw(t, "sp") > 0 {
				op.P = rapid.IntRange(1, base-1).Draw(t, "p")
			} else if rapid.Bool().Draw(t, "sp800") {
				op.P = 800
			}
			if op.Surf != "Reflect" {
				op.Surf = "Object"
			}
		case "assign":
			op.P = rapid.IntRange(1, n).Draw(t, "src")
			op.Surf = "Object"
		case "instanceof", "isProtoOf":
			op.P = rapid.IntRange(1, n).Draw(t, "p")
			op.Surf = "w"
		case "preventExt", "isExt", "getProto":
			if op.Surf != "Reflect" {
				op.Surf = "Object"
			}
		case "entries", "values", "ospread", "gopds", "tostring", "isArray", "typeof":
			op.Surf = "x"
		default:
			op.Surf = "Object"
		}
		c.Ops = append(c.Ops, op)
	}
	return c
}

// ---- the model side of the operations (surface syntax -> internal method calls)

func newModelWorld(c *WCase) *mworld {
	w := &mworld{objs: map[int]*mobj{}}
	w.objs[800] = &mobj{tag: 800, ext: true, proto: "null"} // Object.prototype: none of the generated keys exists on it
	for _, o := range c.Objs {
		m := &mobj{tag: o.Tag, proxy: o.Proxy}
		if o.Proxy {
			m.target = o.Target
			m.name = "P" + strconv.Itoa(o.Tag)
			m.traps = map[string]bool{}
			for i, t := range trapNames {
				if o.Mask&(1<<i) != 0 {
					m.traps[t] = true
				}
			}
		} else {
			m.ext, m.proto = o.Ext, o.Proto
			for _, p := range o.Props {
				mp := &mprop{k: p.K, e: p.D.E == "T", c: p.D.C == "T"}
				if p.D.isAccessor() {
					mp.acc, mp.g, mp.s = true, p.D.G, p.D.S
				} else {
					mp.v, mp.w = p.D.V, p.D.W == "T"
				}
				m.props = append(m.props, mp)
			}
		}
		w.objs[o.Tag] = m
	}
	return w
}

func (w *mworld) enumerableOwn(o *mobj, kind string) []string {
	// 7.3.23 EnumerableOwnProperties
	var out []string
	for _, k := range w.ownKeys(o) {
		if strings.HasPrefix(k, "y:") {
			continue
		}
		d := w.getOwnProperty(o, k)
		if d == nil || d.E != "T" {
			continue
		}
		switch kind {
		case "key":
			out = append(out, k)
		case "value":
			out = append(out, w.get(o, k, ref(o)))
		default:
			out = append(out, k+"="+w.get(o, k, ref(o)))
		}
	}
	return out
}

func (w *mworld) setIntegrity(o *mobj, frozen bool) bool {
	// 7.3.15 SetIntegrityLevel
	if !w.preventExtensions(o) {
		return false
	}
	keys := w.ownKeys(o)
	for _, k := range keys {
		if !frozen {
			if !w.defineOwnProperty(o, k, &PDesc{C: "F"}) {
				w.throwType()
			}
			continue
		}
		cur := w.getOwnProperty(o, k)
		if cur == nil {
			continue
		}
		d := &PDesc{C: "F", W: "F"}
		if cur.isAccessor() {
			d = &PDesc{C: "F"}
		}
		if !w.defineOwnProperty(o, k, d) {
			w.throwType()
		}
	}
	return true
}

func (w *mworld) testIntegrity(o *mobj, frozen bool) bool {
	// 7.3.16 TestIntegrityLevel
	if w.isExtensible(o) {
		return false
	}
	for _, k := range w.ownKeys(o) {
		cur := w.getOwnProperty(o, k)
		if cur == nil {
			continue
		}
		if cur.C == "T" {
			return false
		}
		if frozen && cur.isData() && cur.W == "T" {
			return false
		}
	}
	return true
}

func (w *mworld) forIn(o *mobj) []string {
	// 14.7.5.10.2.1 %ForInIteratorPrototype%.next, run to completion
	var out []string
	visited := map[string]bool{}
	obj := o
	for {
		var remaining []string
		for _, k := range w.ownKeys(obj) {
			if !strings.HasPrefix(k, "y:") {
				remaining = append(remaining, k)
			}
		}
		for _, r := range remaining {
			if visited[r] {
				continue
			}
			d := w.getOwnProperty(obj, r)
			if d != nil {
				visited[r] = true
				if d.E == "T" {
					out = append(out, r)
				}
			}
		}
		p := w.getPrototypeOf(obj)
		if p == "null" {
			return out
		}
		obj = w.obj(p)
	}
}

func dumpFresh(keys []string, vals map[string]string) string {
	m := &mobj{ext: true, proto: "o:800"}
	for _, k := range keys {
		m.props = append(m.props, &mprop{k: k, v: vals[k], w: true, e: true, c: true})
	}
	w := &mworld{}
	return w.dump(m)
}

// apply runs one operation on the model and returns its rendering.
func (w *mworld) apply(op *WOp) (res string) {
	defer func() {
		if p := recover(); p != nil {
			if t, ok := p.(mthrow); ok {
				res = "throw:" + t.name
				return
			}
			panic(p)
		}
	}()
	o := w.objs[op.O]
	self := ref(o)
	recv := self
	if op.R != "" {
		recv = op.R
	}
	orThrow := func(ok bool, onTrue string) string {
		if op.Surf == "Reflect" {
			return esBool(ok)
		}
		if !ok {
			w.throwType()
		}
		return onTrue
	}
	switch op.Op {
	case "define":
		return orThrow(w.defineOwnProperty(o, op.K, op.D), self)
	case "get":
		return w.get(o, op.K, recv)
	case "set":
		ok := w.set(o, op.K, op.V, recv)
		switch op.Surf {
		case "Reflect":
			return esBool(ok)
		case "sloppy":
			return "ok"
		}
		if !ok {
			w.throwType()
		}
		return "ok"
	case "delete":
		ok := w.delete(o, op.K)
		if op.Surf == "strict" && !ok {
			w.throwType()
		}
		return esBool(ok)
	case "has":
		return esBool(w.hasProperty(o, op.K))
	case "hasOwn":
		return esBool(w.getOwnProperty(o, op.K) != nil)
	case "propIsEnum":
		d := w.getOwnProperty(o, op.K)
		return esBool(d != nil && d.E == "T")
	case "gopd":
		return w.getOwnProperty(o, op.K).render()
	case "ownKeys":
		return keysJoin(w.ownKeys(o))
	case "names", "symbols":
		var ks []string
		for _, k := range w.ownKeys(o) {
			if strings.HasPrefix(k, "y:") == (op.Op == "symbols") {
				ks = append(ks, k)
			}
		}
		return keysJoin(ks)
	case "keys":
		return keysJoin(w.enumerableOwn(o, "key"))
	case "values":
		return keysJoin(w.enumerableOwn(o, "value"))
	case "entries":
		return keysJoin(w.enumerableOwn(o, "entry"))
	case "preventExt":
		return orThrow(w.preventExtensions(o), self)
	case "seal", "freeze":
		if !w.setIntegrity(o, op.Op == "freeze") {
			w.throwType()
		}
		return self
	case "isExt":
		return esBool(w.isExtensible(o))
	case "isSealed", "isFrozen":
		return esBool(w.testIntegrity(o, op.Op == "isFrozen"))
	case "getProto":
		return w.getPrototypeOf(o)
	case "setProto":
		v := "null"
		if op.P > 0 {
			v = "o:" + strconv.Itoa(op.P)
		}
		return orThrow(w.setPrototypeOf(o, v), self)
	case "forin":
		return keysJoin(w.forIn(o))
	case "assign":
		// 20.1.2.1 Object.assign(target, source)
		from := w.objs[op.P]
		for _, k := range w.ownKeys(from) {
			d := w.getOwnProperty(from, k)
			if d != nil && d.E == "T" {
				v := w.get(from, k, ref(from))
				if !w.set(o, k, v, self) {
					w.throwType()
				}
			}
		}
		return self
	case "ospread":
		// 7.3.26 CopyDataProperties into a fresh object
		var keys []string
		vals := map[string]string{}
		for _, k := range w.ownKeys(o) {
			d := w.getOwnProperty(o, k)
			if d != nil && d.E == "T" {
				if _, dup := vals[k]; !dup {
					keys = append(keys, k)
				}
				vals[k] = w.get(o, k, self)
			}
		}
		return dumpFresh(keys, vals)
	case "gopds":
		// 20.1.2.9 Object.getOwnPropertyDescriptors
		var keys []string
		descs := map[string]string{}
		for _, k := range w.ownKeys(o) {
			if d := w.getOwnProperty(o, k); d != nil {
				if _, dup := descs[k]; !dup {
					keys = append(keys, k)
				}
				descs[k] = d.render()
			}
		}
		// the result object lists its keys in OrdinaryOwnPropertyKeys order
		m := &mobj{}
		for _, k := range keys {
			m.props = append(m.props, &mprop{k: k})
		}
		var parts []string
		for _, k := range (&mworld{}).ownKeys(m) {
			parts = append(parts, k+"="+descs[k])
		}
		return strings.Join(parts, " | ")
	case "instanceof":
		// 7.3.22 OrdinaryHasInstance(F, o) with F.prototype = objs[P]
		p := "o:" + strconv.Itoa(op.P)
		cur := o
		for {
			pr := w.getPrototypeOf(cur)
			if pr == "null" {
				return "b:false"
			}
			if pr == p {
				return "b:true"
			}
			cur = w.obj(pr)
		}
	case "isProtoOf":
		// 20.1.3.4 Object.prototype.isPrototypeOf
		p := "o:" + strconv.Itoa(op.P)
		cur := o
		for {
			pr := w.getPrototypeOf(cur)
			if pr == "null" {
				return "b:false"
			}
			if pr == p {
				return "b:true"
			}
			cur = w.obj(pr)
		}
	case "tostring":
		// 20.1.3.6: IsArray does not call traps; Get(O, @@toStringTag)
		tag := w.get(o, "y:3", self)
		if strings.HasPrefix(tag, "s:") {
			var s string
			json.Unmarshal([]byte(tag[2:]), &s)
			return "[object " + s + "]"
		}
		return "[object Object]"
	case "isArray":
		return "b:false"
	case "typeof":
		return "object"
	}
	panic("pmodel: unknown op " + op.Op)
}

// opJSON renders the operation in the shape the JS executors expect (esmodel.Op field names).
func opJSON(op *WOp) string {
	m := map[string]interface{}{"op": op.Op, "surf": op.Surf, "o": op.O}
	if op.K != "" {
		m["k"] = op.K
		if op.NK {
			m["k"] = numericKey(op.K)
		}
	}
	if op.V != "" {
		m["v"] = op.V
	}
	if op.R != "" {
		m["r"] = op.R
	}
	if op.P != 0 {
		m["p"] = op.P
	}
	if op.D != nil {
		d := map[string]interface{}{"v": "u", "g": "u", "st": "u"}
		if op.D.V != "" {
			d["hv"], d["v"] = true, op.D.V
		}
		if op.D.W != "" {
			d["hw"], d["w"] = true, op.D.W == "T"
		}
		if op.D.G != "" {
			d["hg"], d["g"] = true, op.D.G
		}
		if op.D.S != "" {
			d["hs"], d["st"] = true, op.D.S
		}
		if op.D.E != "" {
			d["he"], d["e"] = true, op.D.E == "T"
		}
		if op.D.C != "" {
			d["hc"], d["c"] = true, op.D.C == "T"
		}
		m["d"] = d
	}
	b, _ := json.Marshal(m)
	return string(b)
}

func wOpText(op *WOp) string { b, _ := json.Marshal(op); return string(b) }

func judgeWorld(c *WCase) (f *evid.Failure, nontrivial bool) {
	fail := func(key, msg string, exp, obs interface{}) *evid.Failure {
		return &evid.Failure{Check: "traplog", Key: key, Msg: msg, Case: c, Expected: exp, Observed: obs}
	}
	vm := goja.New()
	vm.SetMaxCallStackSize(400)
	for _, p := range []*goja.Program{preludePrg, latticePrg, lockstepPrg} {
		if o := jsx.RunProgram(vm, p); o.Kind != "value" {
			return fail("harness", "prelude: "+o.Text, nil, nil), false
		}
	}
	installGoForwarding(vm)
	if o := jsx.RunProgram(vm, worldPrg); o.Kind != "value" {
		return fail("harness", "world prelude: "+o.Text, nil, nil), false
	}
	objsJSON, _ := json.Marshal(c.Objs)
	if err := callV(jsFn(vm, "mkWorld"), vm.ToValue(string(objsJSON))); err != nil {
		return fail("harness", "mkWorld: "+err.Error(), nil, nil), false
	}
	doOp, doW, dump, clearLog := jsFn(vm, "doOpS"), jsFn(vm, "doW"), jsFn(vm, "dump"), jsFn(vm, "clearLog")
	w := newModelWorld(c)
	ordinary := []int{}
	for _, o := range c.Objs {
		if !o.Proxy {
			ordinary = append(ordinary, o.Tag)
		}
	}
	sort.Ints(ordinary)
	objOf := func(tag int) goja.Value { return vm.Get("OBJ").ToObject(vm).Get(strconv.Itoa(tag)) }
	compareState := func(step int, what, opn string) *evid.Failure {
		for _, tag := range ordinary {
			got, err := callS(dump, objOf(tag))
			if err != nil {
				return fail("harness", "dump: "+err.Error(), nil, nil)
			}
			if want := w.dump(w.objs[tag]); got != want {
				return fail("state:"+opn, fmt.Sprintf("step %d (%s): state of ordinary object o:%d differs\n  goja : %s\n  model: %s", step, what, tag, got, want), want, got)
			}
		}
		return nil
	}
	if f := compareState(-1, "initial", "init"); f != nil {
		f.Key = "harness"
		return f, false
	}
	for i, op := range c.Ops {
		callV(clearLog)
		w.log = nil
		want := w.apply(op)
		exec := doOp
		switch op.Surf {
		case "x", "w":
			exec = doW
		}
		got, err := callS(exec, vm.ToValue(opJSON(op)))
		opn := op.Op + "/" + op.Surf
		hk := "js"
		if c.Objs[op.O-1].H == "go" {
			hk = "go"
		}
		if !c.Objs[op.O-1].Proxy {
			hk = "ordinary"
		}
		if err != nil {
			return fail("exec:"+opn+":"+hk, fmt.Sprintf("step %d (%s): %v (model: %s)", i, wOpText(op), err, want), want, err.Error()), nontrivial
		}
		if got != want {
			return fail("result:"+opn+":"+hk, fmt.Sprintf("step %d (%s): goja returns %s, the model (ECMA-262 10.1/10.5) %s", i, wOpText(op), got, want), want, got), nontrivial
		}
		var gotLog []string
		if arr, ok := vm.Get("LOG").Export().([]interface{}); ok {
			for _, x := range arr {
				gotLog = append(gotLog, fmt.Sprint(x))
			}
		}
		if strings.Join(gotLog, ";") != strings.Join(w.log, ";") {
			return fail("traps:"+opn+":"+hk+":"+logDiffClass(gotLog, w.log), fmt.Sprintf("step %d (%s): trap/accessor call sequence differs\n  goja : %s\n  model: %s", i, wOpText(op), strings.Join(gotLog, " "), strings.Join(w.log, " ")), w.log, gotLog), nontrivial
		}
		if len(w.log) >= 2 {
			nontrivial = true
		}
		if f := compareState(i, wOpText(op), opn); f != nil {
			return f, nontrivial
		}
	}
	return nil, nontrivial
}

// logDiffClass names the first difference: the trap the model expects / goja calls there.
func logDiffClass(got, want []string) string {
	name := func(s string) string {
		if i := strings.Index(s, ":"); i >= 0 {
			s = s[i+1:]
		}
		if i := strings.Index(s, "("); i >= 0 {
			s = s[:i]
		}
		return s
	}
	for i := 0; i < len(got) || i < len(want); i++ {
		switch {
		case i >= len(got):
			return "missing-" + name(want[i])
		case i >= len(want):
			return "extra-" + name(got[i])
		case got[i] != want[i]:
			return name(got[i]) + "-instead-of-" + name(want[i])
		}
	}
	return "same"
}
