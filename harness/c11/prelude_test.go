package c11

// latticeJS extends esmodel.PreludeJS (registry, dv/pv/dd renderers) with the executor of one
// trap-result lattice point: build the target, build a handler with exactly one trap that logs
// its arguments and returns the prescribed result, run one operation on the proxy, report the
// outcome, the trap log and the target's facts read by direct reflection afterwards.
const latticeJS = `"use strict";
reg({pa: 1}, 700); reg({pb: 2}, 701); reg({}, 702); reg(function NT() {}, 703); reg(function LF() {}, 704);
OBJ[704].prototype = OBJ[700];
OBJ[703].prototype = OBJ[701];
var TL = [];
var R_apply = Reflect.apply;
function mkd(d) {
  var r = {};
  if (d.v) r.value = pv(d.v);
  if (d.w) r.writable = d.w === "T";
  if (d.g) r.get = pv(d.g);
  if (d.s) r.set = pv(d.s);
  if (d.e) r.enumerable = d.e === "T";
  if (d.c) r.configurable = d.c === "T";
  return r;
}
function factsOf(t) {
  var res = {ext: O_isExt(t), proto: dv(O_gpo(t)), props: []};
  var keys = R_ownKeys(t);
  for (var i = 0; i < keys.length; i++) {
    var d = R_gopd(t, keys[i]);
    var pd = {e: d.enumerable ? "T" : "F", c: d.configurable ? "T" : "F"};
    if ("get" in d || "set" in d) { pd.g = dv(d.get); pd.s = dv(d.set); } else { pd.v = dv(d.value); pd.w = d.writable ? "T" : "F"; }
    push(res.props, {k: dv(keys[i]), d: pd});
  }
  return res;
}
function mkLTarget(c) {
  var t;
  if (c.skind) {
    t = mkSubjectX(c.skind, 1);
    var pre = c.pre || [];
    for (var pi = 0; pi < pre.length; pi++) doOp(pre[pi]);
    return t;
  }
  switch (c.tkind) {
  case "func": t = function(a, b) { push(TL, "target-called"); return "tret"; }; break;
  case "arrow": t = (a, b) => { push(TL, "target-called"); return "tret"; }; break;
  case "class": t = class { constructor() { push(TL, "target-called"); } }; break;
  default: t = {};
  }
  if (c.tkind === "func") t.prototype = OBJ[702];
  Object.setPrototypeOf(t, pv(c.proto));
  var ks = c.keys || [];
  for (var i = 0; i < ks.length; i++) O_dp(t, pv(ks[i].k), {value: 1, writable: true, enumerable: ks[i].e, configurable: ks[i].c});
  if (c.prop) O_dp(t, pv(c.key), mkd(c.prop));
  if (!c.ext) Object.preventExtensions(t);
  return t;
}
function descArg(o) {
  if (o === null || typeof o !== "object") return "notobj:" + dv(o);
  if (O_gpo(o) !== Object.prototype) return "badproto";
  var keys = R_ownKeys(o), s = "{";
  for (var i = 0; i < keys.length; i++) {
    var d = R_gopd(o, keys[i]);
    if (!("value" in d) || !d.writable || !d.enumerable || !d.configurable) return "badfield";
    s += (i ? "," : "") + String(keys[i]) + "=" + dv(d.value);
  }
  return s + "}";
}
function listArg(a) {
  if (!Array.isArray(a)) return "notarray:" + dv(a);
  var s = "[";
  for (var i = 0; i < a.length; i++) s += (i ? "," : "") + dv(a[i]);
  return s + "]";
}
// applyMod changes the honestly forwarded trap result in one component
function applyMod(mod, fwd) {
  var i = mod.indexOf(":"), what = i < 0 ? mod : mod.slice(0, i), arg = i < 0 ? "" : mod.slice(i + 1), a, j;
  switch (what) {
  case "same": return fwd;
  case "not": return !fwd;
  case "value": if (fwd !== null && typeof fwd === "object" && ("value" in fwd || "get" in fwd || "configurable" in fwd)) { fwd.value = pv(arg); delete fwd.get; delete fwd.set; if (!("writable" in fwd)) fwd.writable = false; return fwd; } if (CASE.h === "go" && CASE.trap === "getOwnPropertyDescriptor") return fwd; return pv(arg);
  case "undef": return undefined;
  case "flipC": if (fwd) fwd.configurable = !fwd.configurable; return fwd;
  case "flipE": if (fwd) fwd.enumerable = !fwd.enumerable; return fwd;
  case "flipW": if (fwd && "writable" in fwd) fwd.writable = !fwd.writable; return fwd;
  case "dropV": if (fwd) delete fwd.value; return fwd;
  case "dropC": if (fwd) delete fwd.configurable; return fwd;
  case "get": if (fwd) { fwd.get = pv(arg); delete fwd.value; delete fwd.writable; } return fwd;
  case "set": if (fwd) { fwd.set = pv(arg); delete fwd.value; delete fwd.writable; } return fwd;
  case "desc": return mkd(JSON.parse(arg));
  case "drop": a = []; for (j = 0; j < fwd.length; j++) if (j !== Number(arg) % fwd.length) push(a, fwd[j]); return a;
  case "dup": a = []; for (j = 0; j < fwd.length; j++) push(a, fwd[j]); if (fwd.length) push(a, fwd[Number(arg) % fwd.length]); return a;
  case "add": a = []; for (j = 0; j < fwd.length; j++) push(a, fwd[j]); push(a, pv(arg)); return a;
  case "reverse": a = []; for (j = fwd.length - 1; j >= 0; j--) push(a, fwd[j]); return a;
  }
  throw new Error("bad mod " + mod);
}
function mkRes(r, fwd) {
  var i, a;
  if (!r.keys) r.keys = [];
  switch (r.kind) {
  case "fwd": return fwd;
  case "fwdmod": return applyMod(r.mod, fwd);
  case "val": return pv(r.v);
  case "desc": return mkd(r.d);
  case "keys":
    a = [];
    for (i = 0; i < r.keys.length; i++) { if (r.keys[i] === "hole") a.length = i + 1; else O_dp(a, i, {value: pv(r.keys[i]), writable: true, enumerable: true, configurable: true}); }
    return a;
  case "alike":
    a = {length: r.keys.length};
    for (i = 0; i < r.keys.length; i++) { if (r.keys[i] !== "hole") a[i] = pv(r.keys[i]); }
    return a;
  }
  throw new Error("bad result kind " + r.kind);
}
var CUR = null, FWD = null, FNS = [];
function innerHandler() {
  var h = {};
  for (var t in RF0) (function(t) { h[t] = function() { return R_apply(RF0[t], null, arguments); }; })(t);
  return h;
}
function resOf(trap, r) {
  var i, d, pd, ks;
  switch (trap) {
  case "getOwnPropertyDescriptor":
    if (r === undefined || r === null || typeof r !== "object") return {kind: "val", v: dv(r)};
    pd = {};
    if ("enumerable" in r) pd.e = r.enumerable ? "T" : "F";
    if ("configurable" in r) pd.c = r.configurable ? "T" : "F";
    if ("get" in r) { pd.g = dv(r.get); if (typeof r.get === "function") push(FNS, pd.g); }
    if ("set" in r) { pd.s = dv(r.set); if (typeof r.set === "function") push(FNS, pd.s); }
    if ("value" in r) pd.v = dv(r.value);
    if ("writable" in r) pd.w = r.writable ? "T" : "F";
    return {kind: "desc", d: pd};
  case "ownKeys":
    ks = [];
    for (i = 0; i < r.length; i++) push(ks, dv(r[i]));
    return {kind: "keys", keys: ks};
  case "construct": return {kind: "val", v: rn(r)};
  }
  return {kind: "val", v: dv(r)};
}
var CASE = null;
function goTrap(log, args) { push(TL, log); var fwd; if (CASE.mutate) fwd = doFwd(CASE.trap, args); var out = mkRes(CASE.res, fwd); if (CASE.res.kind === "fwdmod") FWD = resOf(CASE.trap, out); return out; }
var FWDERR = "";
function doFwd(trap, args) { var r; try { r = R_apply(RF0[trap], null, args); } catch (e) { FWDERR = excName(e); throw e; } FWD = resOf(trap, r); return r; }
var RF0 = {};
(function() { var ts = ["getPrototypeOf", "setPrototypeOf", "isExtensible", "preventExtensions", "getOwnPropertyDescriptor", "defineProperty", "has", "get", "set", "deleteProperty", "ownKeys", "apply", "construct"]; for (var i = 0; i < ts.length; i++) RF0[ts[i]] = Reflect[ts[i]]; })();
function trapArgs(trap, a, T, P) {
  var w = function(x) { return x === T ? "T" : x === P ? "P" : dv(x); };
  var s = trap + "(";
  for (var i = 0; i < a.length; i++) {
    var x;
    if (trap === "defineProperty" && i === 2) x = descArg(a[i]);
    else if ((trap === "apply" && i === 2) || (trap === "construct" && i === 1)) x = listArg(a[i]);
    else x = w(a[i]);
    s += (i ? "," : "") + x;
  }
  return s + ")";
}
function mkLHandler(c, T) {
  var h = {};
  h[c.trap] = function() {
    if (this !== h) push(TL, "badthis");
    push(TL, trapArgs(c.trap, arguments, T, CUR));
    var fwd;
    if (c.mutate) fwd = doFwd(c.trap, arguments);
    var out = mkRes(c.res, fwd);
    if (c.res.kind === "fwdmod") FWD = resOf(c.trap, out);
    return out;
  };
  return h;
}
function lsurf(p, c) {
  var k = c.key ? pv(c.key) : undefined, v = c.argv ? pv(c.argv) : undefined;
  if (c.numkey) k = Number(k);
  var rp = function(x) { return x === p ? "P" : dv(x); };
  switch (c.trap + "/" + c.surf) {
  case "getPrototypeOf/Reflect": return dv(Reflect.getPrototypeOf(p));
  case "getPrototypeOf/Object": return dv(Object.getPrototypeOf(p));
  case "getPrototypeOf/instanceof": return dv(p instanceof OBJ[704]);
  case "getPrototypeOf/isProto": return dv(Object.prototype.isPrototypeOf.call(OBJ[700], p));
  case "setPrototypeOf/Reflect": return dv(Reflect.setPrototypeOf(p, v));
  case "setPrototypeOf/Object": return rp(Object.setPrototypeOf(p, v));
  case "isExtensible/Reflect": return dv(Reflect.isExtensible(p));
  case "isExtensible/Object": return dv(Object.isExtensible(p));
  case "isExtensible/isFrozen": return dv(Object.isFrozen(p));
  case "isExtensible/isSealed": return dv(Object.isSealed(p));
  case "preventExtensions/Reflect": return dv(Reflect.preventExtensions(p));
  case "preventExtensions/Object": return rp(Object.preventExtensions(p));
  case "getOwnPropertyDescriptor/Reflect": return dd(Reflect.getOwnPropertyDescriptor(p, k));
  case "getOwnPropertyDescriptor/Object": return dd(Object.getOwnPropertyDescriptor(p, k));
  case "getOwnPropertyDescriptor/hasOwn": return dv(Object.prototype.hasOwnProperty.call(p, k));
  case "getOwnPropertyDescriptor/propIsEnum": return dv(Object.prototype.propertyIsEnumerable.call(p, k));
  case "defineProperty/Reflect": return dv(Reflect.defineProperty(p, k, mkd(c.argd)));
  case "defineProperty/Object": return rp(Object.defineProperty(p, k, mkd(c.argd)));
  case "has/Reflect": return dv(Reflect.has(p, k));
  case "has/in": return dv(k in p);
  case "get/Reflect": return dv(Reflect.get(p, k));
  case "get/member": return dv(p[k]);
  case "get/ReflectRecv": return dv(Reflect.get(p, k, OBJ[702]));
  case "set/Reflect": return dv(Reflect.set(p, k, v));
  case "set/ReflectRecv": return dv(Reflect.set(p, k, v, OBJ[702]));
  case "set/strict": p[k] = v; return "ok";
  case "set/sloppy": return sloppy(k, p, "set", v);
  case "deleteProperty/Reflect": return dv(Reflect.deleteProperty(p, k));
  case "deleteProperty/strict": return dv(delete p[k]);
  case "deleteProperty/sloppy": return dv(sloppy(k, p, "delete"));
  case "ownKeys/Reflect": return keysStr(Reflect.ownKeys(p));
  case "ownKeys/names": return keysStr(Object.getOwnPropertyNames(p));
  case "ownKeys/symbols": return keysStr(Object.getOwnPropertySymbols(p));
  case "ownKeys/keys": return keysStr(Object.keys(p));
  case "apply/call": return dv(p(1, "a"));
  case "apply/Reflect": return dv(Reflect.apply(p, OBJ[702], [1, "a"]));
  case "apply/dotcall": return dv(Function.prototype.call.call(p, OBJ[702], 1, "a"));
  case "construct/new": return rn(new p(1, "a"));
  case "construct/Reflect": return rn(Reflect.construct(p, [1, "a"]));
  case "construct/ReflectNT": return rn(Reflect.construct(p, [1, "a"], OBJ[703]));
  }
  throw new Error("unknown surface " + c.trap + "/" + c.surf);
}
function rn(x) {
  var fresh = function(y) { if (y === null || (typeof y !== "object" && typeof y !== "function")) return false; var t = M_get.call(TAG, y); return t === undefined || t >= 1000; };
  if (fresh(x)) {
    var pr = O_gpo(x);
    return "newobj:" + (fresh(pr) ? "unreg" : dv(pr));
  }
  return dv(x);
}
function excName(e) {
  if (e !== null && typeof e === "object" && typeof e.constructor === "function") return "throw:" + e.constructor.name;
  return "throw:" + dv(e);
}
function runL(s) {
  var c = JSON.parse(s);
  TL = []; FWD = null; CASE = c; FNS = []; FWDERR = "";
  var RAWT = mkLTarget(c), T = RAWT;
  var before = factsOf(RAWT);
  if (c.inner) T = new Proxy(RAWT, innerHandler());
  var p;
  if (c.h === "go") p = GOPROXY(T); else p = new Proxy(T, mkLHandler(c, T));
  CUR = p;
  var out;
  try { out = lsurf(p, c); } catch (e) { out = excName(e); }
  return J_str({out: out, log: TL, before: before, facts: factsOf(RAWT), fwd: FWD, fns: FNS, fwderr: FWDERR});
}
`

// lockstepJS extends esmodel.PreludeJS for the forwarding-proxy lock-step check: forwarding
// handlers (all traps or a subset), wrapping of a subject in 1-3 proxy layers, additional
// subject kinds, and the extended operation executor.
const lockstepJS = `"use strict";
var RAW = Object.create(null), TRAPN = 0, DIRECT = true;
var TRAPS = ["getPrototypeOf", "setPrototypeOf", "isExtensible", "preventExtensions", "getOwnPropertyDescriptor", "defineProperty", "has", "get", "set", "deleteProperty", "ownKeys", "apply", "construct"];
var RF = {};
for (var ti = 0; ti < TRAPS.length; ti++) RF[TRAPS[ti]] = Reflect[TRAPS[ti]];
var R_apply = Reflect.apply, A_isArray = Array.isArray, O_toString = Object.prototype.toString, J_stringify = JSON.stringify, A_concat = Array.prototype.concat, A_joinM = Array.prototype.join;
var O_entries = Object.entries, O_values = Object.values, O_gopds = Object.getOwnPropertyDescriptors, O_isProto = Object.prototype.isPrototypeOf, R_construct = Reflect.construct;
function fwdHandler(mask) {
  var h = {};
  for (var i = 0; i < TRAPS.length; i++) {
    if (mask & (1 << i)) (function(t) { h[t] = function() { TRAPN++; return R_apply(RF[t], null, arguments); }; })(TRAPS[i]);
  }
  return h;
}
reg({p0: "proto", a: "pa"}, 820);
reg(Object.create(null, {acc: {get: OBJ[901], set: OBJ[911], enumerable: true, configurable: true}, 1: {value: "p1", writable: false, enumerable: true, configurable: true}, z: {value: 26, writable: true, enumerable: true, configurable: true}}), 821);
reg(new Proxy({viaproxy: 1, acc: 5}, fwdHandler(8191)), 822);
reg(function LF() {}, 704); OBJ[704].prototype = OBJ[820];
function mkSubjectX(kind, tag) {
  var o;
  switch (kind) {
  case "frozenarray": o = Object.freeze([1, 2, 3]); break;
  case "sealedplain": o = Object.seal({a: 1, b: 2, 0: "z"}); break;
  case "nonextacc": o = Object.preventExtensions(Object.create(OBJ[820], {acc: {get: OBJ[900], set: undefined, enumerable: true, configurable: false}, ro: {value: -0, writable: false, enumerable: false, configurable: false}, 2: {value: NaN, writable: false, enumerable: true, configurable: false}})); break;
  case "ctor": o = function Ctor(a, b) { if (new.target) { this.a = a; this.nt = new.target; } return b; }; break;
  case "proxyplain": o = new Proxy({a: 1, b: 2}, fwdHandler(8191)); break;
  case "proxyarray": o = new Proxy([1, 2, 3], fwdHandler(8191)); break;
  case "proxyfunc": o = new Proxy(function pf(a) { return a; }, fwdHandler(8191)); break;
  case "gomap": case "goslice": case "gostruct": case "gomapref": o = GOHOST(kind); break;
  default: return mkSubject(kind, tag);
  }
  return reg(o, tag);
}
// wrap(tag, layers): OBJ[tag] becomes the outermost proxy; every layer and the raw target render as the same tag
function wrap(tag, layers) {
  var cur = OBJ[tag];
  RAW[tag] = cur;
  for (var i = 0; i < layers.length; i++) {
    var l = layers[i];
    cur = l.h === "go" ? GOFWD(cur, l.mask, !!l.api, "") : new Proxy(cur, fwdHandler(l.mask));
    M_set.call(TAG, cur, tag);
  }
  OBJ[tag] = cur;
  DIRECT = false;
}
function goTrapHit() { TRAPN++; }
function sameTag(a, b) { return M_get.call(TAG, a) !== undefined && M_get.call(TAG, a) === M_get.call(TAG, b); }
function rv(x) {
  if (x !== null && (typeof x === "object" || typeof x === "function")) {
    var t = M_get.call(TAG, x);
    if (t === undefined || t >= 1000) return "fresh:" + typeof x + (A_isArray(x) ? ":array" : "");
  }
  return dv(x);
}
function rnew(x, f) {
  var s = rv(x);
  if (s.slice(0, 6) !== "fresh:") return s;
  var pr = O_gpo(x);
  s += " proto=" + (pr === R_gopdv(f, "prototype") ? "F.prototype" : rv(pr)) + " keys=";
  var keys = R_ownKeys(x);
  for (var i = 0; i < keys.length; i++) { var d = R_gopd(x, keys[i]); s += (i ? "," : "") + dv(keys[i]) + "=" + ("value" in d ? rv(d.value) : "acc"); }
  return s;
}
function R_gopdv(f, k) { var d = R_gopd(RAW[M_get.call(TAG, f)] || f, k); return d && d.value; }
function doX(op) {
  try { return doX1(op); } catch (e) {
    if (e !== null && typeof e === "object" && typeof e.constructor === "function") return "throw:" + e.constructor.name;
    return "throw:" + dv(e);
  }
}
function doX1(op) {
  var o = OBJ[op.o], v = op.v ? pv(op.v) : undefined, i, s, ks, r;
  switch (op.op) {
  case "isArray": return dv(A_isArray(o));
  case "typeof": return typeof o;
  case "tostring":
    if (DIRECT) {
      // what ECMA-262 20.1.3.6 gives for a proxy of o: builtinTag is Array (IsArray sees through proxies), Function (the proxy is callable) or Object
      r = A_isArray(o) ? "Array" : typeof o === "function" ? "Function" : "Object";
      s = o[Symbol.toStringTag];
      return "[object " + (typeof s === "string" ? s : r) + "]";
    }
    return O_toString.call(o);
  case "json": return dv(J_stringify(o));
  case "entries": r = O_entries(o); s = ""; for (i = 0; i < r.length; i++) s += (i ? "," : "") + dv(r[i][0]) + "=" + dv(r[i][1]); return s;
  case "values": r = O_values(o); s = ""; for (i = 0; i < r.length; i++) s += (i ? "," : "") + dv(r[i]); return s;
  case "ospread": return dump({...o});
  case "gopds": r = O_gopds(o); ks = R_ownKeys(r); s = ""; for (i = 0; i < ks.length; i++) s += (i ? " | " : "") + dv(ks[i]) + "=" + dd(r[ks[i]]); return s;
  case "instL": return dv(o instanceof OBJ[704]);
  case "instR": return dv(v instanceof o);
  case "isProtoOf": return dv(O_isProto.call(o, v));
  case "concatL": return ra(A_concat.call(o, v, [7]));
  case "concatR": return ra(A_concat.call([0], o, v));
  case "call": return rv(o(1, v));
  case "callm": return rv(R_apply(o, v, [1, 2]));
  case "construct": return rnew(new o(1, v), o);
  case "constructNT": return rnew(R_construct(o, [1, v], OBJ[704]), o);
  case "aspread": return ra([...o]);
  case "join": return dv(A_joinM.call(o, "-"));
  }
  throw new Error("unknown op " + op.op);
}
function doXS(s) { return doX(JSON.parse(s)); }
// hasHoles: is some index below the (array-like) length of the direct target absent (not even inherited)
function hasHoles(tag) {
  var t = RAW[tag] || OBJ[tag];
  try {
    var n = Number(t.length);
    if (!(n > 0)) return false;
    if (n > 10000) return true;
    for (var i = 0; i < n; i++) if (!(i in t)) return true;
  } catch (e) { return true; }
  return false;
}
// ntFacts: is the target of tag non-extensible, or is key k an own non-configurable / accessor property of it
function ntFacts(tag, ks) {
  var t = RAW[tag] || OBJ[tag];
  try {
    if (!O_isExt(t)) return true;
    if (ks) { var d = R_gopd(t, pv(ks)); if (d && (!d.configurable || "get" in d)) return true; }
  } catch (e) {}
  return false;
}
`

// revokedJS: one operation on a revoked proxy.
const revokedJS = `"use strict";
function mkRevTarget(kind) {
  switch (kind) {
  case "plain": return {k: 1, 2: "two", [SYMS[0]]: 3};
  case "array": return [1, 2, 3];
  case "func": return function f(a) { return a; };
  case "class": return class K {};
  case "arrow": return (a) => a;
  case "proxy": return new Proxy({k: 1}, {});
  case "nonext": return Object.freeze({k: 1});
  }
  throw new Error("bad target kind " + kind);
}
var sloppyRev = new Function("p", "k", "op", "switch (op) { case 'set': p[k] = 1; return 'ok'; case 'delete': return String(delete p[k]); case 'with': with (p) { return typeof k; } case 'forin': for (var x in p) {} return 'ok'; }");
function revOp(p, op, k, wrapKind) {
  switch (op) {
  case "typeof": return typeof p;
  case "identity": return String(p === p && p == p);
  case "Object.getPrototypeOf": return dv(Object.getPrototypeOf(p));
  case "Reflect.getPrototypeOf": return dv(Reflect.getPrototypeOf(p));
  case "__proto__": return dv(p.__proto__);
  case "instanceof": return dv(p instanceof OBJ[704]);
  case "isPrototypeOf": return dv(Object.prototype.isPrototypeOf.call(OBJ[700], p));
  case "Object.setPrototypeOf": Object.setPrototypeOf(p, OBJ[700]); return "ok";
  case "Reflect.setPrototypeOf": return dv(Reflect.setPrototypeOf(p, null));
  case "Object.isExtensible": return dv(Object.isExtensible(p));
  case "Reflect.isExtensible": return dv(Reflect.isExtensible(p));
  case "Object.isFrozen": return dv(Object.isFrozen(p));
  case "Object.isSealed": return dv(Object.isSealed(p));
  case "Object.preventExtensions": Object.preventExtensions(p); return "ok";
  case "Reflect.preventExtensions": return dv(Reflect.preventExtensions(p));
  case "Object.freeze": Object.freeze(p); return "ok";
  case "Object.seal": Object.seal(p); return "ok";
  case "Object.getOwnPropertyDescriptor": return dd(Object.getOwnPropertyDescriptor(p, k));
  case "Reflect.getOwnPropertyDescriptor": return dd(Reflect.getOwnPropertyDescriptor(p, k));
  case "hasOwnProperty": return dv(Object.prototype.hasOwnProperty.call(p, k));
  case "Object.hasOwn": return dv(Object.hasOwn(p, k));
  case "propertyIsEnumerable": return dv(Object.prototype.propertyIsEnumerable.call(p, k));
  case "Object.getOwnPropertyDescriptors": Object.getOwnPropertyDescriptors(p); return "ok";
  case "Object.defineProperty": Object.defineProperty(p, k, {value: 1}); return "ok";
  case "Reflect.defineProperty": return dv(Reflect.defineProperty(p, k, {}));
  case "Object.defineProperties": Object.defineProperties(p, {z: {value: 1}}); return "ok";
  case "in": return dv(k in p);
  case "Reflect.has": return dv(Reflect.has(p, k));
  case "with": return sloppyRev(p, k, "with");
  case "get": return dv(p[k]);
  case "Reflect.get": return dv(Reflect.get(p, k));
  case "Reflect.get-recv": return dv(Reflect.get(p, k, {}));
  case "optional-chain": return dv(p?.[k]);
  case "method-call": return dv(p[k]());
  case "destructure": var {[k]: dz} = p; return dv(dz);
  case "set-strict": p[k] = 1; return "ok";
  case "set-sloppy": return sloppyRev(p, k, "set");
  case "Reflect.set": return dv(Reflect.set(p, k, 1));
  case "Reflect.set-recv": return dv(Reflect.set({}, k, 1, p));
  case "compound-assign": p[k] += 1; return "ok";
  case "delete-strict": return dv(delete p[k]);
  case "delete-sloppy": return sloppyRev(p, k, "delete");
  case "Reflect.deleteProperty": return dv(Reflect.deleteProperty(p, k));
  case "Reflect.ownKeys": return keysStr(Reflect.ownKeys(p));
  case "Object.keys": return keysStr(Object.keys(p));
  case "Object.values": Object.values(p); return "ok";
  case "Object.entries": Object.entries(p); return "ok";
  case "Object.getOwnPropertyNames": return keysStr(Object.getOwnPropertyNames(p));
  case "Object.getOwnPropertySymbols": return keysStr(Object.getOwnPropertySymbols(p));
  case "for-in": return sloppyRev(p, k, "forin");
  case "Object.assign-from": Object.assign({}, p); return "ok";
  case "Object.assign-to": Object.assign(p, {a: 1}); return "ok";
  case "object-spread": ({...p}); return "ok";
  case "JSON.stringify": return dv(JSON.stringify(p));
  case "JSON.stringify-nested": return dv(JSON.stringify({a: [p]}));
  case "call": return dv(p(1));
  case "new": return dv(typeof new p(1));
  case "Reflect.apply": return dv(Reflect.apply(p, undefined, [1]));
  case "Reflect.construct": return dv(typeof Reflect.construct(p, [1]));
  case "Reflect.construct-newTarget": return dv(typeof Reflect.construct(function() {}, [1], p));
  case "Function.prototype.call": return dv(Function.prototype.call.call(p, null, 1));
  case "Function.prototype.bind-call": return dv(Function.prototype.bind.call(p, null)(1));
  case "Array.isArray": return dv(Array.isArray(p));
  case "Object.prototype.toString": return Object.prototype.toString.call(p);
  case "String": return String(p);
  case "concat-string": return p + "";
  case "Number": return dv(Number(p));
  case "loose-equals-prim": return dv(p == 1);
  case "Array.prototype.concat": return ra(Array.prototype.concat.call([], p));
  case "array-spread": return ra([...p]);
  case "Array.from": return ra(Array.from(p));
  case "Array.prototype.slice": return ra(Array.prototype.slice.call(p));
  case "Array.prototype.push": return dv(Array.prototype.push.call(p, 1));
  case "proto-get": return dv(Object.create(p)[k]);
  case "proto-in": return dv(k in Object.create(p));
  case "proto-set": Object.create(p)[k] = 1; return "ok";
  case "outer-proxy-get": return dv(new Proxy(p, fwdHandler(8191))[k]);
  case "outer-proxy-has": return dv(k in new Proxy(p, {}));
  case "outer-proxy-keys": return keysStr(Reflect.ownKeys(new Proxy(p, fwdHandler(8191))));
  case "Object.fromEntries-map": return dv(new Map([[p, 1]]).get(p));
  case "WeakMap-key": var wm = new WeakMap(); wm.set(p, 1); return dv(wm.get(p));
  case "Promise.resolve": Promise.resolve(p); return "ok";
  }
  throw new Error("unknown revoked op " + op);
}
function runRevoked(s) {
  var c = JSON.parse(s);
  var T = mkRevTarget(c.target), p, r1, r2;
  if (c.how === "go") { p = GOREVOKED(T, c.twice); }
  else {
    var rv = Proxy.revocable(T, c.how === "js-traps" ? fwdHandler(8191) : {});
    p = rv.proxy;
    var shape = keysStr(Reflect.ownKeys(rv)) + "/" + typeof rv.revoke + "/" + rv.revoke.length + "/" + dv(O_gpo(rv));
    if (shape !== 's:"proxy",s:"revoke"/function/0/o:800') return "badshape:" + shape;
    r1 = rv.revoke();
    if (c.twice) r2 = rv.revoke();
    if (r1 !== undefined || r2 !== undefined) return "badrevoke";
  }
  try { return revOp(p, c.op, c.key ? pv(c.key) : undefined); } catch (e) { return excName(e); }
}
`

// worldJS builds the small world of the trap-sequence check: ordinary objects and proxies whose
// handlers log every trap call into LOG (the same log the accessor functions 900..911 write to)
// and forward to the captured Reflect function.
const worldJS = `"use strict";
function logArgs(t, a) {
  switch (t) {
  case "getOwnPropertyDescriptor": case "has": case "deleteProperty": return dv(a[1]);
  case "get": return dv(a[1]) + "," + dv(a[2]);
  case "set": return dv(a[1]) + "," + dv(a[2]) + "," + dv(a[3]);
  case "defineProperty": return dv(a[1]) + "," + descArg(a[2]);
  case "setPrototypeOf": return dv(a[1]);
  }
  return "";
}
function logHandler(mask, name) {
  var h = {};
  for (var i = 0; i < 11; i++) {
    if (mask & (1 << i)) (function(t) { h[t] = function() { push(LOG, name + ":" + t + "(" + logArgs(t, arguments) + ")"); return R_apply(RF[t], null, arguments); }; })(TRAPS[i]);
  }
  return h;
}
function mkWorld(s) {
  var objs = JSON.parse(s);
  DIRECT = false;
  for (var i = 0; i < objs.length; i++) {
    var d = objs[i], o;
    if (d.proxy) {
      o = d.h === "go" ? GOFWD(OBJ[d.target], d.gomask, false, "P" + d.tag) : new Proxy(OBJ[d.target], logHandler(d.mask, "P" + d.tag));
    } else {
      o = Object.create(pv(d.proto));
      for (var j = 0; j < d.props.length; j++) O_dp(o, pv(d.props[j].k), mkd(d.props[j].d));
      if (!d.ext) Object.preventExtensions(o);
    }
    reg(o, d.tag);
  }
}
function clearLog() { LOG.length = 0; }
function doW(s) {
  var op = JSON.parse(s);
  try { return doW1(op); } catch (e) { return excName(e); }
}
function doW1(op) {
  var o = OBJ[op.o], F;
  switch (op.op) {
  case "instanceof": F = function() {}; F.prototype = OBJ[op.p]; return dv(o instanceof F);
  case "isProtoOf": return dv(O_isProto.call(OBJ[op.p], o));
  case "propIsEnum": return dv(Object.prototype.propertyIsEnumerable.call(o, pv(op.k)));
  }
  return doX1(op);
}
`
