package c11

// The oracle of the trap-result lattice: ECMA-262 (2023) 10.5.1 - 10.5.13, the numbered
// post-condition steps of every Proxy internal method, written from the specification text.
// Nothing here looks at goja. Values are the dv() renderings of the JS prelude ("u", "null",
// "b:true", "d:-0", "d:NaN", `s:"x"`, "y:0", "o:700"): two renderings are equal exactly when
// the values are SameValue (numbers are rendered with the sign of zero, NaN is unique, objects
// and symbols by registry tag).

import (
	"sort"
	"strings"
)

// PDesc is a (possibly partial) property descriptor: absent fields are "".
type PDesc struct {
	V string `json:"v,omitempty"` // dv value
	G string `json:"g,omitempty"` // dv value ("u" = the field is present and undefined)
	S string `json:"s,omitempty"`
	W string `json:"w,omitempty"` // "T" | "F"
	E string `json:"e,omitempty"`
	C string `json:"c,omitempty"`
}

func (d *PDesc) isAccessor() bool { return d.G != "" || d.S != "" }
func (d *PDesc) isData() bool     { return d.V != "" || d.W != "" }
func (d *PDesc) isGeneric() bool  { return !d.isAccessor() && !d.isData() }
func (d *PDesc) empty() bool      { return *d == PDesc{} }

func tf(b bool) string {
	if b {
		return "T"
	}
	return "F"
}

// complete is CompletePropertyDescriptor (6.2.6.6).
func (d PDesc) complete() PDesc {
	if d.isGeneric() || d.isData() {
		if d.V == "" {
			d.V = "u"
		}
		if d.W == "" {
			d.W = "F"
		}
	} else {
		if d.G == "" {
			d.G = "u"
		}
		if d.S == "" {
			d.S = "u"
		}
	}
	if d.E == "" {
		d.E = "F"
	}
	if d.C == "" {
		d.C = "F"
	}
	return d
}

// render mirrors the prelude's dd().
func (d *PDesc) render() string {
	if d == nil {
		return "none"
	}
	f := "e"
	if d.E == "T" {
		f = "E"
	}
	if d.C == "T" {
		f += "C"
	} else {
		f += "c"
	}
	if d.isAccessor() {
		return "A[" + d.G + "," + d.S + "]" + f
	}
	w := "w"
	if d.W == "T" {
		w = "W"
	}
	return "D[" + d.V + "]" + w + f
}

// trapDescArg renders the object FromPropertyDescriptor (6.2.6.4) builds: the fields that are
// present, in the order value, writable, get, set, enumerable, configurable.
func (d *PDesc) trapDescArg() string {
	var p []string
	if d.V != "" {
		p = append(p, "value="+d.V)
	}
	if d.W != "" {
		p = append(p, "writable=b:"+boolWord(d.W))
	}
	if d.G != "" {
		p = append(p, "get="+d.G)
	}
	if d.S != "" {
		p = append(p, "set="+d.S)
	}
	if d.E != "" {
		p = append(p, "enumerable=b:"+boolWord(d.E))
	}
	if d.C != "" {
		p = append(p, "configurable=b:"+boolWord(d.C))
	}
	return "{" + strings.Join(p, ",") + "}"
}

func boolWord(f string) string {
	if f == "T" {
		return "true"
	}
	return "false"
}

// runCallables: callable values outside the registry that the current run reported (e.g. %ThrowTypeError%)
var runCallables = map[string]bool{}

func isCallableVal(v string) bool {
	if runCallables[v] {
		return true
	}
	// the only callables in the registry
	switch v {
	case "o:900", "o:901", "o:910", "o:911", "o:703", "o:704":
		return true
	}
	return false
}

func isObjectVal(v string) bool { return strings.HasPrefix(v, "o:") }

// toBoolean is ToBoolean (7.1.2) on a dv rendering.
func toBoolean(v string) bool {
	switch {
	case v == "u", v == "null", v == "b:false", v == "d:0", v == "d:-0", v == "d:NaN", v == `s:""`:
		return false
	}
	return true
}

// toPropertyDescriptor is the validation part of ToPropertyDescriptor (6.2.6.5) for a
// descriptor object whose fields are given by d; ok=false means TypeError.
func toPropertyDescriptor(d *PDesc) bool {
	if d.G != "" && d.G != "u" && !isCallableVal(d.G) {
		return false
	}
	if d.S != "" && d.S != "u" && !isCallableVal(d.S) {
		return false
	}
	if (d.G != "" || d.S != "") && (d.V != "" || d.W != "") {
		return false
	}
	return true
}

// isCompatible is IsCompatiblePropertyDescriptor (10.1.6.2) =
// ValidateAndApplyPropertyDescriptor(undefined, "", Extensible, Desc, Current) (10.1.6.3).
func isCompatible(extensible bool, desc *PDesc, current *PDesc) bool {
	// 2. If current is undefined, then
	if current == nil {
		// a. If extensible is false, return false.  c. (O is undefined)  d. Return true.
		return extensible
	}
	// 4. If Desc does not have any fields, return true.
	if desc.empty() {
		return true
	}
	// 5. If current.[[Configurable]] is false, then
	if current.C == "F" {
		// a. If Desc has a [[Configurable]] field and Desc.[[Configurable]] is true, return false.
		if desc.C == "T" {
			return false
		}
		// b. If Desc has an [[Enumerable]] field and Desc.[[Enumerable]] is not current.[[Enumerable]], return false.
		if desc.E != "" && desc.E != current.E {
			return false
		}
		// c. If IsGenericDescriptor(Desc) is false and IsAccessorDescriptor(Desc) is not IsAccessorDescriptor(current), return false.
		if !desc.isGeneric() && desc.isAccessor() != current.isAccessor() {
			return false
		}
		// d. If current is an accessor descriptor, then
		if current.isAccessor() {
			// i. If Desc has a [[Get]] field and SameValue(Desc.[[Get]], current.[[Get]]) is false, return false.
			if desc.G != "" && desc.G != current.G {
				return false
			}
			// ii. If Desc has a [[Set]] field and SameValue(Desc.[[Set]], current.[[Set]]) is false, return false.
			if desc.S != "" && desc.S != current.S {
				return false
			}
		} else if current.W == "F" {
			// e. Else if current.[[Writable]] is false, then
			// i. If Desc has a [[Writable]] field and Desc.[[Writable]] is true, return false.
			if desc.W == "T" {
				return false
			}
			// ii. If Desc has a [[Value]] field and SameValue(Desc.[[Value]], current.[[Value]]) is false, return false.
			if desc.V != "" && desc.V != current.V {
				return false
			}
		}
	}
	// 6. (O is undefined)  7. Return true.
	return true
}

// Facts is what direct (non-proxy) reflection reports about the target after the operation.
type Facts struct {
	Ext   bool        `json:"ext"`
	Proto string      `json:"proto"`
	Props []FactsProp `json:"props"`
}

type FactsProp struct {
	K string `json:"k"`
	D PDesc  `json:"d"`
}

func (f *Facts) prop(k string) *PDesc {
	for i := range f.Props {
		if f.Props[i].K == k {
			d := f.Props[i].D
			return &d
		}
	}
	return nil
}

const typeError = "throw:TypeError"

// Res is the result a trap returns.
type Res struct {
	Kind string   `json:"kind"`           // fwd | fwdmod | val | desc | keys | alike
	Mod  string   `json:"mod,omitempty"`  // fwdmod: the one component of the honest result that is changed
	V    string   `json:"v,omitempty"`    // val
	D    *PDesc   `json:"d,omitempty"`    // desc
	Keys []string `json:"keys,omitempty"` // keys (array) / alike (array-like object): dv renderings, "hole" = missing element
}

// Verdict is the outcome of the proxy internal method: Throw, or a value in the
// representation natural for the method.
type Verdict struct {
	Throw bool
	Bool  bool     // boolean-valued internal methods
	Val   string   // get, getPrototypeOf, apply, construct
	Desc  *PDesc   // getOwnPropertyDescriptor (nil = undefined)
	Keys  []string // ownKeys
}

var throwV = Verdict{Throw: true}

// 10.5.1 [[GetPrototypeOf]] ( ), steps 7-12. res is the trap result.
func invGetPrototypeOf(res string, f *Facts) Verdict {
	// 8. If handlerProto is not an Object and handlerProto is not null, throw a TypeError exception.
	if !isObjectVal(res) && res != "null" {
		return throwV
	}
	// 9-10. If extensibleTarget is true, return handlerProto.
	if f.Ext {
		return Verdict{Val: res}
	}
	// 11-12. If SameValue(handlerProto, targetProto) is false, throw a TypeError exception.
	if res != f.Proto {
		return throwV
	}
	return Verdict{Val: res}
}

// 10.5.2 [[SetPrototypeOf]] ( V ), steps 8-14.
func invSetPrototypeOf(v string, res string, f *Facts) Verdict {
	// 8-9. If booleanTrapResult is false, return false.
	if !toBoolean(res) {
		return Verdict{Bool: false}
	}
	// 10-11. If extensibleTarget is true, return true.
	if f.Ext {
		return Verdict{Bool: true}
	}
	// 12-13. If SameValue(V, targetProto) is false, throw a TypeError exception.
	if v != f.Proto {
		return throwV
	}
	return Verdict{Bool: true}
}

// 10.5.3 [[IsExtensible]] ( ), steps 7-10.
func invIsExtensible(res string, f *Facts) Verdict {
	b := toBoolean(res)
	// 9. If booleanTrapResult is not targetResult, throw a TypeError exception.
	if b != f.Ext {
		return throwV
	}
	return Verdict{Bool: b}
}

// 10.5.4 [[PreventExtensions]] ( ), steps 7-9.
func invPreventExtensions(res string, f *Facts) Verdict {
	b := toBoolean(res)
	// 8. If booleanTrapResult is true, then a-b. If extensibleTarget is true, throw a TypeError exception.
	if b && f.Ext {
		return throwV
	}
	return Verdict{Bool: b}
}

// 10.5.5 [[GetOwnProperty]] ( P ), steps 8-17. res.Kind is "val" (undefined or a non-object),
// or "desc".
func invGetOwnProperty(key string, res *Res, f *Facts) Verdict {
	targetDesc := f.prop(key)
	if res.Kind == "val" {
		// 9. If trapResultObj is not an Object and trapResultObj is not undefined, throw a TypeError exception.
		if res.V != "u" && !isObjectVal(res.V) {
			return throwV
		}
		if res.V == "u" {
			// 11. If trapResultObj is undefined, then
			// a. If targetDesc is undefined, return undefined.
			if targetDesc == nil {
				return Verdict{}
			}
			// b. If targetDesc.[[Configurable]] is false, throw a TypeError exception.
			if targetDesc.C == "F" {
				return throwV
			}
			// c-d. If extensibleTarget is false, throw a TypeError exception.
			if !f.Ext {
				return throwV
			}
			// e. Return undefined.
			return Verdict{}
		}
		// an object without descriptor fields (the registry's plain objects): ToPropertyDescriptor gives an empty record
		res = &Res{Kind: "desc", D: &PDesc{}}
	}
	// 13. Let resultDesc be ? ToPropertyDescriptor(trapResultObj).
	if !toPropertyDescriptor(res.D) {
		return throwV
	}
	// 14. Perform CompletePropertyDescriptor(resultDesc).
	resultDesc := res.D.complete()
	// 15-16. valid = IsCompatiblePropertyDescriptor(extensibleTarget, resultDesc, targetDesc); if false throw.
	if !isCompatible(f.Ext, &resultDesc, targetDesc) {
		return throwV
	}
	// 17. If resultDesc.[[Configurable]] is false, then
	if resultDesc.C == "F" {
		// a. If targetDesc is undefined or targetDesc.[[Configurable]] is true, throw a TypeError exception.
		if targetDesc == nil || targetDesc.C == "T" {
			return throwV
		}
		// b. If resultDesc has a [[Writable]] field and resultDesc.[[Writable]] is false, then
		//    ii. If targetDesc.[[Writable]] is true, throw a TypeError exception.
		if resultDesc.W == "F" && targetDesc.W == "T" {
			return throwV
		}
	}
	// 18. Return resultDesc.
	return Verdict{Desc: &resultDesc}
}

// 10.5.6 [[DefineOwnProperty]] ( P, Desc ), steps 9-17.
func invDefineOwnProperty(key string, desc *PDesc, res string, f *Facts) Verdict {
	// 9-10. If booleanTrapResult is false, return false.
	if !toBoolean(res) {
		return Verdict{Bool: false}
	}
	targetDesc := f.prop(key)
	// 13-14. settingConfigFalse
	settingConfigFalse := desc.C == "F"
	// 15. If targetDesc is undefined, then
	if targetDesc == nil {
		// a. If extensibleTarget is false, throw a TypeError exception.
		if !f.Ext {
			return throwV
		}
		// b. If settingConfigFalse is true, throw a TypeError exception.
		if settingConfigFalse {
			return throwV
		}
	} else {
		// 16.a. If IsCompatiblePropertyDescriptor(extensibleTarget, Desc, targetDesc) is false, throw a TypeError exception.
		if !isCompatible(f.Ext, desc, targetDesc) {
			return throwV
		}
		// b. If settingConfigFalse is true and targetDesc.[[Configurable]] is true, throw a TypeError exception.
		if settingConfigFalse && targetDesc.C == "T" {
			return throwV
		}
		// c. If IsDataDescriptor(targetDesc) is true, targetDesc.[[Configurable]] is false, and targetDesc.[[Writable]] is true, then
		//    i. If Desc has a [[Writable]] field and Desc.[[Writable]] is false, throw a TypeError exception.
		if targetDesc.isData() && targetDesc.C == "F" && targetDesc.W == "T" && desc.W == "F" {
			return throwV
		}
	}
	// 17. Return true.
	return Verdict{Bool: true}
}

// 10.5.7 [[HasProperty]] ( P ), steps 8-10.
func invHas(key string, res string, f *Facts) Verdict {
	b := toBoolean(res)
	// 9. If booleanTrapResult is false, then
	if !b {
		// a-b. If targetDesc is not undefined, then
		if targetDesc := f.prop(key); targetDesc != nil {
			// i. If targetDesc.[[Configurable]] is false, throw a TypeError exception.
			if targetDesc.C == "F" {
				return throwV
			}
			// ii-iii. If extensibleTarget is false, throw a TypeError exception.
			if !f.Ext {
				return throwV
			}
		}
	}
	return Verdict{Bool: b}
}

// 10.5.8 [[Get]] ( P, Receiver ), steps 8-11.
func invGet(key string, res string, f *Facts) Verdict {
	// 10. If targetDesc is not undefined and targetDesc.[[Configurable]] is false, then
	if targetDesc := f.prop(key); targetDesc != nil && targetDesc.C == "F" {
		// a. If IsDataDescriptor(targetDesc) is true and targetDesc.[[Writable]] is false, then
		//    i. If SameValue(trapResult, targetDesc.[[Value]]) is false, throw a TypeError exception.
		if targetDesc.isData() && targetDesc.W == "F" && res != targetDesc.V {
			return throwV
		}
		// b. If IsAccessorDescriptor(targetDesc) is true and targetDesc.[[Get]] is undefined and trapResult is not undefined, throw a TypeError exception.
		if targetDesc.isAccessor() && targetDesc.G == "u" && res != "u" {
			return throwV
		}
	}
	// 11. Return trapResult.
	return Verdict{Val: res}
}

// 10.5.9 [[Set]] ( P, V, Receiver ), steps 8-12.
func invSet(key string, v string, res string, f *Facts) Verdict {
	// 9. If booleanTrapResult is false, return false.
	if !toBoolean(res) {
		return Verdict{Bool: false}
	}
	// 11. If targetDesc is not undefined and targetDesc.[[Configurable]] is false, then
	if targetDesc := f.prop(key); targetDesc != nil && targetDesc.C == "F" {
		// a. If IsDataDescriptor(targetDesc) is true and targetDesc.[[Writable]] is false, then
		//    i. If SameValue(V, targetDesc.[[Value]]) is false, throw a TypeError exception.
		if targetDesc.isData() && targetDesc.W == "F" && v != targetDesc.V {
			return throwV
		}
		// b. If IsAccessorDescriptor(targetDesc) is true, then i. If targetDesc.[[Set]] is undefined, throw a TypeError exception.
		if targetDesc.isAccessor() && targetDesc.S == "u" {
			return throwV
		}
	}
	// 12. Return true.
	return Verdict{Bool: true}
}

// 10.5.10 [[Delete]] ( P ), steps 8-15.
func invDelete(key string, res string, f *Facts) Verdict {
	// 9. If booleanTrapResult is false, return false.
	if !toBoolean(res) {
		return Verdict{Bool: false}
	}
	// 10-11. If targetDesc is undefined, return true.
	targetDesc := f.prop(key)
	if targetDesc == nil {
		return Verdict{Bool: true}
	}
	// 12. If targetDesc.[[Configurable]] is false, throw a TypeError exception.
	if targetDesc.C == "F" {
		return throwV
	}
	// 13-14. If extensibleTarget is false, throw a TypeError exception.
	if !f.Ext {
		return throwV
	}
	// 15. Return true.
	return Verdict{Bool: true}
}

// 10.5.11 [[OwnPropertyKeys]] ( ), steps 7-23. res.Kind is "val" (a non-object: CreateListFromArrayLike
// throws), "keys" / "alike" (array / array-like object with the given elements, "hole" = absent
// element, which Get reads as undefined).
func invOwnKeys(res *Res, f *Facts) Verdict {
	if res.Kind == "val" {
		if !isObjectVal(res.V) {
			// 7. CreateListFromArrayLike: If obj is not an Object, throw a TypeError exception.
			return throwV
		}
		// a registry object without length: LengthOfArrayLike = 0, the list is empty
		res = &Res{Kind: "keys"}
	}
	trapResult := make([]string, 0, len(res.Keys))
	for _, k := range res.Keys {
		if k == "hole" {
			k = "u"
		}
		// 7. CreateListFromArrayLike(trapResultArray, « String, Symbol »): an element of another type throws a TypeError.
		if !strings.HasPrefix(k, "s:") && !strings.HasPrefix(k, "y:") {
			return throwV
		}
		trapResult = append(trapResult, k)
	}
	// 8. If trapResult contains any duplicate entries, throw a TypeError exception.
	seen := map[string]bool{}
	for _, k := range trapResult {
		if seen[k] {
			return throwV
		}
		seen[k] = true
	}
	// 10-16. targetKeys split into configurable and nonconfigurable keys.
	var targetConfigurableKeys, targetNonconfigurableKeys []string
	for _, p := range f.Props {
		if p.D.C == "F" {
			targetNonconfigurableKeys = append(targetNonconfigurableKeys, p.K)
		} else {
			targetConfigurableKeys = append(targetConfigurableKeys, p.K)
		}
	}
	// 17. If extensibleTarget is true and targetNonconfigurableKeys is empty, return trapResult.
	if f.Ext && len(targetNonconfigurableKeys) == 0 {
		return Verdict{Keys: trapResult}
	}
	// 18. uncheckedResultKeys
	unchecked := map[string]bool{}
	for _, k := range trapResult {
		unchecked[k] = true
	}
	// 19. For each element key of targetNonconfigurableKeys: if key is not in uncheckedResultKeys, throw; remove it.
	for _, k := range targetNonconfigurableKeys {
		if !unchecked[k] {
			return throwV
		}
		delete(unchecked, k)
	}
	// 20. If extensibleTarget is true, return trapResult.
	if f.Ext {
		return Verdict{Keys: trapResult}
	}
	// 21. For each element key of targetConfigurableKeys: if key is not in uncheckedResultKeys, throw; remove it.
	for _, k := range targetConfigurableKeys {
		if !unchecked[k] {
			return throwV
		}
		delete(unchecked, k)
	}
	// 22. If uncheckedResultKeys is not empty, throw a TypeError exception.
	if len(unchecked) != 0 {
		return throwV
	}
	// 23. Return trapResult.
	return Verdict{Keys: trapResult}
}

// 10.5.13 [[Construct]], step 10: If newObj is not an Object, throw a TypeError exception.
func invConstruct(res string) Verdict {
	if !isObjectVal(res) {
		return throwV
	}
	return Verdict{Val: res}
}

// sortedCopy is used for order-insensitive comparisons in sanity checks.
func sortedCopy(s []string) []string {
	c := append([]string(nil), s...)
	sort.Strings(c)
	return c
}
