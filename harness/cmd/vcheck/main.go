// vcheck is the driver behind /verif/check: it rebuilds one property's test
// package against /repo's current working tree (build tag verif), runs it in
// one or more seed-derived shards, merges the shards' counters into
// /verif/evidence/<id>.json and maps the outcome to the exit-code contract
// (0 held, 1 violation, 2 infrastructure trouble).
package main

import (
	"bufio"
	"bytes"
	"encoding/binary"
	"encoding/json"
	"fmt"
	"os"
	"os/exec"
	"path/filepath"
	"regexp"
	"sort"
	"strconv"
	"strings"
	"sync"
	"time"
)

type propCfg struct {
	pkg              string
	race             bool // race detector is (part of) the oracle
	quickShards      int
	thorShards       int
	quickTimeout     time.Duration
	thorTimeout      time.Duration
	crashIsViolation bool // a dying test process is itself a violation (C01, C17): replay = the case in flight
	rule             string
	assumptions      []string
}

func cfgFor(id string) (propCfg, bool) {
	c, ok := props[id]
	if !ok {
		return c, false
	}
	if c.pkg == "" {
		c.pkg = "./" + strings.ToLower(id)
	}
	if c.quickShards == 0 {
		c.quickShards = 4
	}
	if c.thorShards == 0 {
		c.thorShards = 16
	}
	if c.quickTimeout == 0 {
		c.quickTimeout = 8 * time.Minute
	}
	if c.thorTimeout == 0 {
		c.thorTimeout = 40 * time.Minute
	}
	return c, true
}

type shardOut struct {
	Property    string            `json:"property"`
	Shard       int               `json:"shard"`
	Evaluations int64             `json:"evaluations"`
	Nontrivial  int64             `json:"nontrivial"`
	Classes     map[string]int64  `json:"classes"`
	Samples     []json.RawMessage `json:"samples"`
	KnownHits   map[string]int64  `json:"known_hits"`
	Excluded    map[string]int64  `json:"excluded"`
	Violations  int               `json:"violations"`
	HashFile    string            `json:"hash_file"`
	Checks      map[string]int64  `json:"checks"`
	Notes       []string          `json:"notes"`
}

var verifDir = "/verif"

func goEnv() []string {
	env := []string{}
	for _, e := range os.Environ() {
		k := e
		if i := strings.IndexByte(e, '='); i >= 0 {
			k = e[:i]
		}
		switch k {
		case "GOFLAGS", "GOPROXY", "GOSUMDB", "GOTOOLCHAIN", "GOMEMLIMIT":
			continue
		}
		env = append(env, e)
	}
	// GOSUMDB must stay unset: "off" breaks the offline switch to the go1.25.0
	// toolchain that /repo's go.mod asks for.
	env = append(env, "GOFLAGS=-mod=mod", "GOPROXY=off", "GOTOOLCHAIN=auto")
	return env
}

func harnessDir() string { return filepath.Join(verifDir, "harness") }

func syncGoSum() {
	// go.sum = /repo/go.sum + rapid lines; keep the committed file unless /repo's changed.
	dst := filepath.Join(harnessDir(), "go.sum")
	have, _ := os.ReadFile(dst)
	src, err := os.ReadFile("/repo/go.sum")
	if err != nil {
		return
	}
	lines := map[string]bool{}
	for _, l := range strings.Split(string(have), "\n") {
		if l != "" {
			lines[l] = true
		}
	}
	changed := false
	for _, l := range strings.Split(string(src), "\n") {
		if l != "" && !lines[l] {
			lines[l] = true
			changed = true
		}
	}
	if changed {
		all := make([]string, 0, len(lines))
		for l := range lines {
			all = append(all, l)
		}
		sort.Strings(all)
		os.WriteFile(dst, []byte(strings.Join(all, "\n")+"\n"), 0o644)
	}
}

func build(cfg propCfg, out string, race bool) error {
	args := []string{"test", "-c", "-tags", "verif", "-vet=off", "-o", out}
	if race {
		args = append(args, "-race")
	}
	args = append(args, cfg.pkg)
	cmd := exec.Command("go", args...)
	cmd.Dir = harnessDir()
	cmd.Env = goEnv()
	var buf bytes.Buffer
	cmd.Stdout = &buf
	cmd.Stderr = &buf
	if err := cmd.Run(); err != nil {
		return fmt.Errorf("build failed: %v\n%s", err, buf.String())
	}
	return nil
}

func usage() {
	fmt.Fprintln(os.Stderr, "usage: vcheck setup | run <id> <quick|thorough> | replay <id> <path> | list")
	os.Exit(2)
}

func main() {
	if v := os.Getenv("VERIF_DIR"); v != "" {
		verifDir = v
	}
	if len(os.Args) < 2 {
		usage()
	}
	switch os.Args[1] {
	case "setup":
		os.Exit(setup())
	case "list":
		ids := make([]string, 0, len(props))
		for id := range props {
			ids = append(ids, id)
		}
		sort.Strings(ids)
		fmt.Println(strings.Join(ids, " "))
	case "run":
		if len(os.Args) < 4 {
			usage()
		}
		os.Exit(run(os.Args[2], os.Args[3]))
	case "replay":
		if len(os.Args) < 4 {
			usage()
		}
		os.Exit(replay(os.Args[2], os.Args[3]))
	default:
		usage()
	}
}

func scratchDir() (string, func()) {
	base := os.Getenv("VERIF_SCRATCH")
	if base == "" {
		base = filepath.Join(verifDir, "scratch")
	}
	os.MkdirAll(base, 0o755)
	d, err := os.MkdirTemp(base, "run-")
	if err != nil {
		fmt.Fprintln(os.Stderr, "vcheck: cannot create scratch dir:", err)
		os.Exit(2)
	}
	return d, func() { os.RemoveAll(d) }
}

func setup() int {
	syncGoSum()
	// warm the build cache: compile every registered package's test binary once.
	d, clean := scratchDir()
	defer clean()
	ids := make([]string, 0, len(props))
	for id := range props {
		ids = append(ids, id)
	}
	sort.Strings(ids)
	rc := 0
	for _, id := range ids {
		cfg, _ := cfgFor(id)
		if _, err := os.Stat(filepath.Join(harnessDir(), cfg.pkg)); err != nil {
			continue
		}
		if err := build(cfg, filepath.Join(d, "warm.test"), false); err != nil {
			fmt.Fprintf(os.Stderr, "vcheck setup: %s: %v\n", id, err)
			rc = 2
		}
		if cfg.race {
			if err := build(cfg, filepath.Join(d, "warm.test"), true); err != nil {
				fmt.Fprintf(os.Stderr, "vcheck setup: %s (race): %v\n", id, err)
				rc = 2
			}
		}
	}
	return rc
}

func seedFromEnv() uint64 {
	s := uint64(1)
	if v := os.Getenv("VERIF_SEED"); v != "" {
		if n, err := strconv.ParseUint(v, 10, 64); err == nil {
			s = n
		} else if n, err := strconv.ParseInt(v, 10, 64); err == nil {
			s = uint64(n)
		}
	}
	if s == 0 {
		s = 1
	}
	return s
}

type shardResult struct {
	idx      int
	exit     int
	timedOut bool
	stdout   string
	stderr   string
	out      *shardOut
}

func run(id, tier string) int {
	cfg, ok := cfgFor(id)
	if !ok {
		fmt.Fprintf(os.Stderr, "vcheck: unknown property %s\n", id)
		return 2
	}
	if tier != "quick" && tier != "thorough" {
		usage()
	}
	start := time.Now()
	seed := seedFromEnv()
	syncGoSum()
	scratch, clean := scratchDir()
	defer clean()
	evPath := filepath.Join(verifDir, "evidence", id+".json")
	os.MkdirAll(filepath.Dir(evPath), 0o755)
	os.Remove(evPath)

	bin := filepath.Join(scratch, strings.ToLower(id)+".test")
	if err := build(cfg, bin, cfg.race); err != nil {
		fmt.Fprintf(os.Stderr, "vcheck: %v\n", err)
		return 2
	}
	n := cfg.quickShards
	timeout := cfg.quickTimeout
	if tier == "thorough" {
		n = cfg.thorShards
		timeout = cfg.thorTimeout
	}
	if v := os.Getenv("VERIF_SHARDS"); v != "" {
		if k, err := strconv.Atoi(v); err == nil && k > 0 {
			n = k
		}
	}
	results := make([]shardResult, n)
	var wg sync.WaitGroup
	for i := 0; i < n; i++ {
		wg.Add(1)
		go func(i int) {
			defer wg.Done()
			results[i] = runShard(bin, id, tier, seed, i, n, scratch, timeout)
		}(i)
	}
	wg.Wait()

	// merge
	merged := shardOut{Classes: map[string]int64{}, KnownHits: map[string]int64{}, Excluded: map[string]int64{}, Checks: map[string]int64{}}
	hashSet := map[uint64]struct{}{}
	violationLines := []string{}
	knownLines := map[string]bool{}
	infra := []string{}
	for _, r := range results {
		sc := bufio.NewScanner(strings.NewReader(r.stdout))
		sc.Buffer(make([]byte, 1<<20), 1<<26)
		inDetail := false
		for sc.Scan() {
			l := sc.Text()
			switch {
			case strings.HasPrefix(l, "VIOLATION property="):
				violationLines = append(violationLines, l)
				inDetail = true
			case strings.HasPrefix(l, "KNOWN-FINDING:"):
				knownLines[l] = true
				inDetail = false
			case inDetail && strings.HasPrefix(l, "  "):
				violationLines = append(violationLines, l)
			default:
				inDetail = false
			}
		}
		if r.out != nil {
			merged.Evaluations += r.out.Evaluations
			merged.Nontrivial += r.out.Nontrivial
			merged.Violations += r.out.Violations
			for k, v := range r.out.Classes {
				merged.Classes[k] += v
			}
			for k, v := range r.out.KnownHits {
				merged.KnownHits[k] += v
			}
			for k, v := range r.out.Excluded {
				merged.Excluded[k] += v
			}
			for k, v := range r.out.Checks {
				merged.Checks[k] += v
			}
			if len(merged.Samples) < 12 {
				for _, s := range r.out.Samples {
					if len(merged.Samples) < 12 {
						merged.Samples = append(merged.Samples, s)
					}
				}
			}
			merged.Notes = append(merged.Notes, r.out.Notes...)
			if b, err := os.ReadFile(r.out.HashFile); err == nil {
				for j := 0; j+8 <= len(b); j += 8 {
					hashSet[binary.LittleEndian.Uint64(b[j:])] = struct{}{}
				}
			}
		}
		hasViolation := strings.Contains(r.stdout, "VIOLATION property=")
		if r.exit != 0 && !hasViolation && !r.timedOut && cfg.crashIsViolation && looksLikeCrash(r.stderr+r.stdout) {
			cur := filepath.Join(scratch, fmt.Sprintf("wd_%d", r.idx), "current.json")
			if b, err := os.ReadFile(cur); err == nil {
				dir := filepath.Join(verifDir, "replay", id)
				os.MkdirAll(dir, 0o755)
				path := filepath.Join(dir, fmt.Sprintf("crash-%d-%d.json", seed, r.idx))
				os.WriteFile(path, b, 0o644)
				violationLines = append(violationLines, fmt.Sprintf("VIOLATION property=%s replay=%s", id, path), "  detail: test process died (Go fatal error / unrecovered panic) while running the case:", "  "+tail(r.stderr, 12))
				hasViolation = true
			}
		}
		if r.exit != 0 && !hasViolation {
			why := fmt.Sprintf("shard %d exit %d", r.idx, r.exit)
			if r.timedOut {
				why += " (timeout)"
			}
			infra = append(infra, why+"\n"+tail(r.stdout, 60)+"\n"+tail(r.stderr, 60))
		} else if r.out == nil && !hasViolation {
			infra = append(infra, fmt.Sprintf("shard %d wrote no counters\n%s\n%s", r.idx, tail(r.stdout, 40), tail(r.stderr, 40)))
		}
	}
	kl := make([]string, 0, len(knownLines))
	for l := range knownLines {
		kl = append(kl, l)
	}
	sort.Strings(kl)
	for _, l := range kl {
		fmt.Println(l)
	}
	for _, l := range violationLines {
		fmt.Println(l)
	}

	wall := time.Since(start).Seconds()
	cov := map[string]interface{}{
		"evaluations":         merged.Evaluations,
		"nontrivial_total":    merged.Nontrivial,
		"distinct_nontrivial": len(hashSet),
		"rule":                cfg.rule,
		"samples":             merged.Samples,
		"classes":             merged.Classes,
		"excluded":            merged.Excluded,
		"known_finding_hits":  merged.KnownHits,
		"subcheck_ms":         merged.Checks,
		"shards":              n,
		"exhaustive":          false,
	}
	if len(merged.Notes) > 0 {
		cov["notes"] = dedup(merged.Notes)
	}
	if merged.Samples == nil {
		cov["samples"] = []interface{}{}
	}
	ev := map[string]interface{}{
		"property_id": id,
		"tier":        tier,
		"seed":        seed,
		"level":       "exploration",
		"coverage":    cov,
		"assumptions": cfg.assumptions,
		"wall_s":      float64(int(wall*10)) / 10,
		"violations":  len(filterPrefix(violationLines, "VIOLATION")),
	}
	if ev["assumptions"] == nil {
		ev["assumptions"] = []string{}
	}
	b, _ := json.MarshalIndent(ev, "", " ")
	if err := os.WriteFile(evPath, append(b, '\n'), 0o644); err != nil {
		fmt.Fprintln(os.Stderr, "vcheck: cannot write evidence:", err)
		return 2
	}
	fmt.Printf("%s %s: evaluations=%d distinct_nontrivial=%d shards=%d wall=%.1fs known_hits=%d\n", id, tier, merged.Evaluations, len(hashSet), n, wall, sumVals(merged.KnownHits))
	if len(filterPrefix(violationLines, "VIOLATION")) > 0 {
		return 1
	}
	if len(infra) > 0 {
		for _, s := range infra {
			fmt.Fprintln(os.Stderr, "vcheck: INFRA:", s)
		}
		return 2
	}
	if merged.Evaluations == 0 {
		fmt.Fprintln(os.Stderr, "vcheck: no cases evaluated")
		return 2
	}
	return 0
}

func looksLikeCrash(out string) bool {
	if strings.Contains(out, "out of memory") || strings.Contains(out, "cannot allocate memory") {
		// memory exhaustion is not what the property is about - except a single absurd
		// allocation request (>= 8 GiB), which means a corrupted size inside the engine
		if m := regexp.MustCompile(`cannot allocate (\d+)-byte block`).FindStringSubmatch(out); m != nil {
			if n, err := strconv.ParseUint(m[1], 10, 64); err == nil && n >= 8<<30 {
				return true
			}
		}
		return false
	}
	return strings.Contains(out, "fatal error:") || strings.Contains(out, "\npanic:") || strings.HasPrefix(out, "panic:") || strings.Contains(out, "[signal SIG")
}

func dedup(in []string) []string {
	seen := map[string]bool{}
	out := []string{}
	for _, s := range in {
		if !seen[s] {
			seen[s] = true
			out = append(out, s)
		}
	}
	return out
}

func sumVals(m map[string]int64) int64 {
	var s int64
	for _, v := range m {
		s += v
	}
	return s
}

func filterPrefix(ls []string, p string) []string {
	out := []string{}
	for _, l := range ls {
		if strings.HasPrefix(l, p) {
			out = append(out, l)
		}
	}
	return out
}

func tail(s string, n int) string {
	ls := strings.Split(strings.TrimRight(s, "\n"), "\n")
	if len(ls) > n {
		ls = ls[len(ls)-n:]
	}
	return strings.Join(ls, "\n")
}

func runShard(bin, id, tier string, seed uint64, i, n int, scratch string, timeout time.Duration) shardResult {
	outPath := filepath.Join(scratch, fmt.Sprintf("shard_%d.json", i))
	wd := filepath.Join(scratch, fmt.Sprintf("wd_%d", i))
	os.MkdirAll(wd, 0o755)
	args := []string{
		"-test.run", "^Test(Quick|Check)",
		"-test.timeout", (timeout + 30*time.Second).String(),
		"-test.count", "1",
	}
	if tier == "thorough" {
		args[1] = "^Test(Quick|Check|Thorough)"
	}
	if os.Getenv("VERIF_VERBOSE") != "" {
		args = append(args, "-test.v")
	}
	cmd := exec.Command(bin, args...)
	cmd.Dir = wd
	cmd.Env = append(os.Environ(),
		"VERIF_TIER="+tier,
		"VERIF_SEED="+strconv.FormatUint(seed, 10),
		"VERIF_SHARD="+strconv.Itoa(i),
		"VERIF_NSHARDS="+strconv.Itoa(n),
		"VERIF_OUT="+outPath,
		"VERIF_DIR="+verifDir,
		"VERIF_WD="+wd,
		"VERIF_BUDGET_S="+strconv.Itoa(int(timeout/time.Second)),
		"GOMEMLIMIT=3GiB",
		"GORACE=halt_on_error=0 log_path="+filepath.Join(wd, "race"),
	)
	var so, se bytes.Buffer
	cmd.Stdout = &so
	cmd.Stderr = &se
	res := shardResult{idx: i}
	if err := cmd.Start(); err != nil {
		res.exit = 2
		res.stderr = err.Error()
		return res
	}
	done := make(chan error, 1)
	go func() { done <- cmd.Wait() }()
	select {
	case err := <-done:
		if err != nil {
			if ee, ok := err.(*exec.ExitError); ok {
				res.exit = ee.ExitCode()
				if res.exit == 0 {
					res.exit = 2
				}
			} else {
				res.exit = 2
			}
		}
	case <-time.After(timeout + 90*time.Second):
		cmd.Process.Kill()
		<-done
		res.exit = 2
		res.timedOut = true
	}
	res.stdout = so.String()
	res.stderr = se.String()
	if b, err := os.ReadFile(outPath); err == nil {
		var o shardOut
		if json.Unmarshal(b, &o) == nil {
			res.out = &o
		}
	}
	return res
}

func replay(id, path string) int {
	cfg, ok := cfgFor(id)
	if !ok {
		fmt.Fprintf(os.Stderr, "vcheck: unknown property %s\n", id)
		return 2
	}
	abs, err := filepath.Abs(path)
	if err != nil {
		return 2
	}
	syncGoSum()
	scratch, clean := scratchDir()
	defer clean()
	bin := filepath.Join(scratch, strings.ToLower(id)+".test")
	if err := build(cfg, bin, cfg.race); err != nil {
		fmt.Fprintf(os.Stderr, "vcheck: %v\n", err)
		return 2
	}
	cmd := exec.Command(bin, "-test.run", "^TestReplay$", "-test.v", "-test.timeout", "5m")
	cmd.Dir = scratch
	cmd.Env = append(os.Environ(), "VERIF_REPLAY="+abs, "VERIF_DIR="+verifDir, "VERIF_TIER=quick")
	var so bytes.Buffer
	cmd.Stdout = &so
	cmd.Stderr = os.Stderr
	err = cmd.Run()
	fmt.Print(so.String())
	if strings.Contains(so.String(), "VIOLATION property=") {
		return 1
	}
	if err != nil {
		return 2
	}
	return 0
}
