package main

// Per-property driver configuration. rule/assumptions go verbatim into the
// evidence file; the counts next to them are measured by the test processes.
var props = map[string]propCfg{
	"C05": {
		rule: "pairs of numeric expression trees constructed to evaluate to the same double (exact Go float64/math/big oracle) compared through a matrix of observers, plus single conversions against numref; a case is non-trivial when the two producers differ and at least one is not a plain literal (pairs), or the operand is outside the trivially safe range (|x|>=2^31, non-integer, or a string needing trimming/prefix handling); distinct = FNV-64 of the case's script text",
		assumptions: []string{
			"Go float64 arithmetic (+,-,*,/,sqrt, math.Mod, math.Trunc/Floor/Ceil) is IEEE-754 exact and math/big is correct",
			"only Math functions whose result is exactly specified at the generated arguments are used as producers",
		},
	},
}
