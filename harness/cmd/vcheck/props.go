package main

// Per-property driver configuration. rule/assumptions go verbatim into the
// evidence file; the counts next to them are measured by the test processes.
var props = map[string]propCfg{
	"C10": {
		rule: "programs of a promise DSL (<=12 top-level operations over <=5 promise variables: new Promise with executors calling resolve/reject 0-3 times or stashing them, later settle calls, thenables with logging/throwing/getter/non-callable/native(Go) then, then/catch/finally chains with returning/throwing/non-callable/native(Go) handlers, Promise.resolve/reject/all/allSettled/race/any, async functions/arrows/methods with awaits nested to depth 3 and try/catch/finally, promises given an own 'then' (observing every lookup/call) or constructor=undefined, nested RunString from host functions) split into 1-3 runs (RunString, Callable, Callable of an async function) with Go-side calls between runs (Runtime.NewPromise resolve/reject, exported resolving functions as Callable, Runtime.New / AssertConstructor of Promise), optionally one interruptNow() at a logged point or a throw at top level; the reference model promref (ECMA-262 27.2 + Await + async function start, one FIFO queue drained when the outermost call returns) predicts the exact global log, Promise.State()/Result() of every variable after every outermost call, the HostPromiseRejectionTracker call sequence, an empty job queue and a clear interrupt flag after each call; sub-checks: programs (general generator), combinators (focused on all/allSettled/race/any with promises whose then calls its reactions directly), enum (exhaustive enumeration of all programs with <=3 operations over 2 variables from a reduced alphabet, each as 1 run / 1 Callable / split in 2 runs); a case is non-trivial when it contains >=2 then-chains/await sequences of different lengths, or a promise is resolved with a thenable/promise (a NewPromiseResolveThenableJob is queued), or a resolving function is called again after its latch was set; distinct = FNV-64 of the printed program text",
		assumptions: []string{
			"no Symbol.species / subclassing, iterables are array literals, handlers and thenables are the DSL's own logging functions",
			"calls into the runtime are Run*, Callable, Constructor, Runtime.New and the NewPromise functions; property access from Go (Object.Get/Set running accessors) is not treated as a call that drains the queue",
			"Go-side resolving functions are called only on the VM goroutine: between runs, or from host functions called by the running script/job",
			"generated programs must terminate: a case whose model run exceeds 4000 jobs / call depth 400, or in which an interrupt/exception makes a later segment call a never-assigned function, is discarded (counted under excluded)",
		},
	},
	"C16": {
		race: true,
		rule: "built with -race, the Go race detector is part of the oracle (every report is read back from GORACE log_path, attributed to the case that just ran and classified by the two racing goja functions). programs: one Program (G-syntax program biased to reference-holding constructs plus 1-4 hand-written fragments: stateful g/y regex literals of both engines, tagged templates, classes with private names/static blocks, eval/with dynamic scopes, constant folding, literal tables, lexical switch, source positions, run-time compilation) compiled once by Compile/MustCompile/Parse+CompileAST and run m in 1..20 times by each of n in {2,4,8,16} goroutines on runtimes of their own, released by one barrier and not synchronised afterwards; every observation (completion value or thrown value through a fixed describe function, tracked globals, log array) must equal that of an isolated sequential run (of the Program itself or of a separately compiled twin) and of one more sequential run afterwards; non-trivial = compiled, not excluded, the bytecode holds at least one regexp/template/class/private-name/dynamic-scope instruction and at least 2 goroutines' run intervals overlapped. prims: 2-9 primitive Values (ToValue of Go strings of 15..64 bytes still unscanned, concatenations of them, StringFromUTF16, JSON.stringify results, numbers, booleans, BigInts, NewSymbol/well-known/script-made symbols, Undefined/Null/NaN) made once and handed by vm.Set to n goroutines that apply 4-14 generated JS operations and 2-10 Go API calls, results compared with the same operations applied sequentially to separately built equal values; non-trivial = at least one shared value was an unscanned imported string. xrt: every (28 object kinds of runtime A) x (14 conversion routes into runtime B) pair must raise the documented TypeError. distinct = FNV-64 of the whole case",
		assumptions: []string{
			"the race detector is happens-before based: it reports unsynchronised conflicting accesses that executed in the run, whatever their interleaving; a race in code no generated case executes is not seen",
			"result comparison needs a deterministic program: Date is replaced by a fixed clock and Math.random by a constant in the case environment; a case whose sequential run is interrupted by the 1.5 s watchdog, takes more than 500 ms, or panics (C01 territory), or whose two isolated sequential runs differ, is excluded and counted; a concurrent phase exceeding 25 s is interrupted and excluded (programs) or waited for (prims) - the wall clock never creates a verdict",
			"a foreign *Object passed directly as a goja.Value argument of a Callable involves no conversion and is not covered by the documented rejection; it is not asserted",
			"the goroutine-overlap figure used by the non-triviality rule is measured with the monotonic clock (evidence only, never a verdict)",
		},
	},
	"C09": {
		rule: "generator bodies from a grammar with yield / yield* (to generators, to instrumented iterators with or without return/throw, to arrays) in statement, operand, call-argument, computed-key, destructuring-default, for-head, switch, conditional and template positions, inside try/catch/finally and loops, with closures over locals read after resumption, driven by histories of up to 6 next(v)/throw(e)/return(v) calls; one quarter of the bodies are async functions with await in place of yield (awaiting values, promises, rejected promises and thenables). Oracle 1: records, thrown values and the side-effect log equal the generator state machine / promise job queue of refjs. Oracle 2 (metamorphic, no interpreter): the same history issued from call depth 1..20 gives the same observation. Non-trivial = the history contains a throw()/return() call or the body is async; distinct = FNV-64 of the printed source and depth",
		assumptions: []string{
			"refjs is the trusted definitional interpreter for oracle 1; oracle 2 compares goja with itself",
			"inside finally blocks only plain yields are generated and throw() is not issued after return(): generator restrictions for two known findings (kept visible by the C02 probes)",
		},
	},
	"C08": {
		rule: "function bodies from a control-flow grammar (nesting <= 5): try/catch/finally in its three shapes with and without (destructuring) catch parameters, for-of over instrumented iterators (plain, without return(), next() throwing, next() returning a non-object, return() throwing or returning a non-object) and over generators, the other four loop kinds, labelled loops and blocks, switch, with, array destructuring/spread/Array.from over the same iterators; break/continue (labelled and not), return and throw are placed at random statement positions incl. inside catch and finally; every try body, catch, finally, loop body and iterator method logs an event. Oracle 1 (no interpreter): per run the try/finally events obey LIFO bracket discipline with every pending finally run exactly once, each iterator receives return() at most once, never after next() reported done or threw, exactly once when it was left before exhaustion, each started generator runs its finally exactly once. Oracle 2: the whole trace, completion value and exception equal refjs. Non-trivial = the trace contains a finally and an iterator close, or two finally blocks; distinct = FNV-64 of the printed source",
		assumptions: []string{
			"refjs is the trusted definitional interpreter for oracle 2; oracle 1 depends only on the event log",
			"interrupt/stack-overflow unwinding (no finally, no return()) is exercised by C15",
		},
	},
	"C12": {
		rule: "fmt: one float64 bit pattern (structured: uniform bits, every exponent x boundary mantissas, powers of two and ten +-2 ulp, subnormals of every bit length, 2^53 neighbourhood, short decimals, exact dyadic ties odd/2^(f+1), nearest doubles to (k+1/2)*10^-f, 99..9 carry patterns, doubles adjacent to a midpoint that is a short decimal such as 1e23) x 4-5 requests out of String/concat/template/property key/JSON.stringify, round trips through every printer, toFixed/toExponential/toPrecision with digits 0..100 (and out-of-range / non-integer spellings), toString(radix 2..36 and invalid); s2n: one numeric text (decimal strings up to 800 digits on / one unit above / one unit below the midpoint of two adjacent doubles, short decimals D*10^e that are exact ties, random long and short decimals, renderings of doubles, 0x/0o/0b and legacy octal up to 300 digits, digits in radix 2..36) presented to Number(s), +s, s*1, parseFloat(s+junk), parseInt(s+junk, radix), the source literal and JSON.parse; a case is non-trivial when x is not an integer below 2^53 with <=15 digits or a request discards a non-zero tail (fmt), or the text has more than 17 significant decimal digits / more than 53 significant bits (s2n); distinct = FNV-64 of bits+requests or of the text+junk+radix",
		assumptions: []string{
			"math/big integer arithmetic and big.Rat.Float64 (round to nearest even) are correct; strconv.FormatFloat/ParseFloat and big.Float are used only as a second reference and a disagreement between the references is reported as a harness error, not a violation",
			"String(x) must be the minimal-length digit string that rounds back to x AND the one closest to x (Note 2 of Number::toString); toFixed/toExponential/toPrecision round half up in magnitude from the exact binary value (the specification's 'pick the larger n')",
			"Number(s), literals, parseFloat, JSON numbers must give the double nearest to the exact decimal value for any length (the property's reading; ECMA-262's RoundMVResult licence to truncate after 20 significant digits is accepted only for parseInt radix 10, as the property states); parseInt in radices other than 2,4,8,10,16,32 with more than 53 bits may be off by one ulp",
			"toString(radix) for non-integers / integers above 2^53 is only required to have the form [-]digits[.digits] and to parse back exactly to x (digits themselves are implementation-approximated in ECMA-262)",
			"whether the parser accepts NonOctalDecimalIntegerLiteral (08, 09) is excluded: goja rejects the syntax, which is not a conversion question",
		},
	},
	"C14": {
		rule: "call chains of depth 1..8 whose frames are drawn from 21 script frame kinds (function, arrow, method, getter, setter, class constructor, field initialiser, generator step before/after a yield, yield* delegate, Proxy get/apply trap, toString/valueOf/Symbol.toPrimitive/Symbol.hasInstance coercion, built-in callback (sort, map, replace, JSON reviver, ...), iterator next, async function before/after an await, promise reaction job) and 7 native kinds (func(FunctionCall), reflect-wrapped func with/without error result, func(ConstructorCall), DynamicObject.Get, Go Proxy get/apply trap), reached by script expressions or by the Go APIs RunString (nested), Callable, ExportTo'd func with/without error result, Object.Get/Set, AssertConstructor, Runtime.New, Object.String/ToNumber/ToFloat/ToInteger, Runtime.ForOf, Runtime.InstanceOf, optionally inside Runtime.Try / a ForOf step; the innermost frame raises one of 48 payloads (script throws of primitives, objects, Error subclasses, pre-built errors, GoErrors, Proxies, engine-raised errors, call-depth overflow; Go panics with Value / *Object / *Exception / GoError, returned errors incl. wrapped, joined, custom, nil, typed nil, a returned *Exception, foreign Go panics, Interrupt); script frames wrap the call in try/catch (rethrow / replace / swallow) and/or finally; the expectation (what every catch block sees, what the host gets: type, value identity, errors.Is/As/Unwrap, GoError.value, Stack()[0], promise state) is computed from the chain alone; non-trivial = at least 2 alternations between script and native frames and at least one script frame with try on the path; distinct = FNV-64 of the case JSON",
		assumptions: []string{
			"object identity is Go pointer equality of *goja.Object (plus e === <global> evaluated by the script itself); primitives are compared with StrictEquals and export type",
			"Stack()[0] is asserted only for values thrown by a script throw statement (or raised by the engine) where creation site and throw site coincide, or rethrown non-Error values; FuncName is asserted only for functions with an explicit name",
			"for a foreign Go panic only its arrival at the host's recover with the same value is asserted; after a typed-nil error only absence of a Go panic",
		},
	},
	"C17": {
		rule: "stateful model-based histories (<=25 operations) over 1-3 Go-supplied ArrayBuffers of 0..64 bytes that live inside canary-filled 4 KiB slabs, judged after every step against a byte-array model written from ECMA-262 (result or thrown constructor, callback log, every byte of every buffer, all canary bytes, aliasing of Go handles and exported slices); a history is non-trivial when it contains at least one bulk operation (fill/copyWithin/set/slice/subarray/sort/reverse/with/toSorted/toReversed/map/filter/of/from/setFromHex) on a view that does not cover its whole buffer, or at least one re-entrant effect (valueOf / callback / species constructor / comparator that detaches a buffer or writes into it), or an out-of-range DataView access; distinct = FNV-64 of the rendered script of the history",
		assumptions: []string{
			"the reference model (harness/c17/model.go, ops.go) is a faithful transcription of ECMA-262 for fixed-length ArrayBuffers; numref conversions and math/big are correct",
			"NaN encodings written through Number values are implementation-chosen: the model accepts any NaN bit pattern and adopts the engine's; a history in which such bytes are re-read inside the same operation is dropped (counted as excluded)",
			"the number and order of comparator calls in sort is implementation-defined: comparator effects fire on the first call only and the callback log of sort/toSorted is not compared",
			"a write outside a buffer is detected only if it lands inside the 4 KiB slab around that buffer (2 KiB on either side)",
			"the implementation-defined list separator of %TypedArray%.prototype.toLocaleString is \",\" (element toLocaleString methods are replaced by a logging stub, so no locale formatting is compared)",
		},
	},
	"C20": {
		rule: "diff: a generated pattern p (restricted to syntax with ECMAScript-defined meaning) and its engine-forcing neutral variant (p(?=), (?=)p, (?:p)(?!\\b\\B)) are run in a pristine runtime (fast path) and in a runtime de-optimised by forwarding wrappers / subclassing (generic path); a case is non-trivial when the hook VerifRegexpEngine shows the pair on two different engines, the pattern has >=1 capture group, the first exec matches, and the match is non-empty or a code unit >= 0x80 precedes it; syntax: a pattern/flags pair whose (in)validity is known by construction is non-trivial when it is invalid; distinct = FNV-64 of pattern, flags, subject, representation, lastIndex, variant, de-optimisation, constructor form and operation list",
		assumptions: []string{
			"the three variants are semantically neutral in ECMAScript ((?=) always succeeds, \\b\\B can never both hold)",
			"the reference protocol (Symbol.match/matchAll/replace/search/split, GetSubstitution) in the JS prelude transcribes ECMA-262 2023 correctly; it is evaluated by goja itself on top of exec()",
			"under the i flag every character >= 0x80 in pattern and subject has no case mapping (generator restriction), so Canonicalize is exact for the ASCII-only model",
			"the specification matcher (model.go) is used only to attribute blame and for informative counters, never for the verdict",
		},
	},
	"C06": {
		rule: "pairs of string-producing step sequences (operator trees of depth <= 4 in SSA form) constructed so that the strref reference value of both final steps is the same UTF-16 sequence; tree B is tree A with independently chosen leaf origins (literal styles, fromCharCode/fromCodePoint, Go string via vm.Set, JSON.parse, unescape, decodeURIComponent, NFKC of fullwidth text) plus value-preserving route edits; a case is non-trivial when the common value is non-empty and the step values of the case were held in at least two different internal representations (ascii / utf16 / imported-unscanned / imported-ascii / imported-utf16, read with the VerifStrRepr hook); normalize sub-check: non-trivial when the operand is non-empty and non-ASCII; distinct = FNV-64 of the Go bindings and all step sources",
		assumptions: []string{
			"strref (harness/internal/strref) implements the ECMA-262 String algorithms on code units correctly; case mapping is modelled only on a closed alphabet (ASCII, Latin-1, Greek/Cyrillic basic letters, Deseret, a few special-cased letters) and U+03A3 is never lower-cased (Final_Sigma context)",
			"normalize is judged only by UAX #15 invariants (idempotence, NFC(NFD(s))=NFC(s) etc.), ASCII identity, inertness of ASCII/CJK ideographs/emoticons/unpaired surrogates and the fullwidth->ASCII compatibility mappings; no normalisation tables are used",
			"JSON.parse of unpaired surrogates is excluded (README: documented incompatibility); Go strings cannot carry unpaired surrogates, the documented lossy direction (U+FFFD) is checked on Export/ExportTo/String only",
			"the escaped-literal RegExp arguments contain no U+FFFF (known regexp2 library defect, kept visible by a fixed probe)",
		},
	},
	"C19": {
		rule: "JSON texts drawn from an ECMA-404 grammar generator and single-edit corruptions of them, judged against an independent recogniser/parser (internal/jsonref); JSON.stringify on generated values x replacer x space x toJSON placement judged against a model of SerializeJSONProperty/Object/Array/QuoteJSONString; revivers from a fixed catalogue against a model of InternalizeJSONProperty; the laws parse(stringify(v)) = v, stringify(parse(t)) = canonical(t), MarshalJSON = stringify. A case is non-trivial when the text/value has nesting >= 2, or a number outside the safe-integer range (incl. -0, fractions, non-finite), or an escape / non-ASCII character; corruptions always count; revive cases count when the text contains a container. distinct = FNV-64 of the text's code units (plus reviver) or of the serialised case",
		assumptions: []string{
			"math/big rational arithmetic and strconv's shortest-digit formatting (used for Number::toString in the model) are correct; encoding/json is used only to store cases, never as an oracle",
			"for number literals with more than 20 significant digits the three values permitted by ECMA-262 RoundMVResult are accepted",
			"lone surrogates (escaped or raw) in JSON.parse input are excluded by construction and counted (README: documented incompatibility)",
			"toJSON methods, replacer functions and revivers come from a fixed catalogue (jsonref.DumpJS FN) that is modelled exactly; Date values from a fixed list",
			"when JSON.stringify(o) is undefined, (*Object).MarshalJSON is expected to return null (value.go)",
		},
	},
	"C02": {
		rule: "closed programs in the subset J0 (var/let/const with shadowing, closures, arrows, default/rest/destructuring parameters, arguments, all loop kinds with per-iteration bindings, switch, labels, try/catch/finally, getters/setters, classes with super, compound/logical assignment and update operators on every reference kind, direct eval, with, generators) in strict/sloppy mode and global/function/eval placement; (b) definitional oracle: log sequence, completion value and exception must equal the environment-record interpreter refjs; (a) metamorphic oracle: 1-3 rewrites from {constant->variable, closure capture of every identifier, dynamic scope via if(false)eval(''), dead code, function -> eval of its own source, block wrap} must not change the observation; non-trivial = the program logged or threw (definitional) or a rewrite changed the multiset of bytecode instruction types (VerifDumpTypes); distinct = FNV-64 of printed source + mode + rewrites",
		assumptions: []string{
			"refjs (11k lines, written from ECMA-262, validated against goja on ~100k programs with every disagreement triaged against the spec) is the trusted definitional interpreter; programs it declines (unsupported construct, fuel) are counted under excluded",
			"constructs that trip goja defects recorded as known findings are avoided by the generator and counted",
		},
	},
	"C18": {
		rule: "mapset: stateful histories (<= 40 operations, callbacks' operations included) over a pool of 12 keys on one Map or Set with up to 3 live iterators, judged against an append-only-list model of [[MapData]] with SameValueZero lookup; a case is non-trivial when a live iterator (or a running forEach/for-of) was advanced after a delete/clear that emptied a record at or before its cursor, or a set/get/has/delete found a stored key through a different representation of a SameValueZero-equal value (another producer expression or Go-injected value). symtable: histories on the symbol-keyed property table of one object, non-trivial when a deleted symbol was re-created and the key order observed afterwards, or the table was mutated while an enumeration (for-of over getOwnPropertySymbols, Object.assign / spread with mutating getters) was in progress; distinct = FNV-64 of the case's JSON",
		assumptions: []string{
			"the value of every key producer is known by construction (exact doubles, strings, BigInts) and re-checked through Value.Export when the pool is installed; producers whose own correctness is the subject of C05/C06/C12 are assumed right here",
			"the hash-collision key classes rely on reading goja's hash methods (small integer n / double with bit pattern n / object address; BigInt bytes / ASCII string): if those change the classes lose their purpose but stay sound",
			"Value.Export of a symbol is undocumented: the expectation is whatever exporting the same symbol directly gives",
		},
	},
	"C07": {
		rule: "(a) array histories (<=30 steps: indexed set/delete/define incl. accessor and non-configurable elements, length set/define incl. invalid values, freeze/seal, indexed properties on Array.prototype/Object.prototype, bulk fills that cross the dense<->sparse thresholds, 27 Array.prototype methods incl. mutating callbacks) run on the array, on a twin forced into sparse storage, and on esmodel (Array exotic object + the 23.1.3 method algorithms written generically from the spec); results, accessor logs and full state must agree three ways after every step; non-trivial = the storage kind (VerifArrayKind) changed during the history or a length operation was executed; (b) sort cases: element lists with holes/undefined/duplicates x 18 comparators x dense/sparse/array-like receivers; consistent comparators must give the unique stable order (incl. results -0, NaN, undefined, numeric strings, huge and fractional values), inconsistent ones a permutation, mutating ones must not crash; distinct = FNV-64 of the JSON case",
		assumptions: []string{
			"esmodel's array algorithms are written from ECMA-262 23.1.3 and are the trusted reference; whole-array walks over lengths above 20000 are not modelled (history is cut there and counted)",
			"Go-backed slice wrappers are judged by C13, typed arrays by C17",
		},
	},
	"C04": {
		rule: "operation histories (<=40 ops over 1-3 subjects drawn from 32 object kinds, keys from index/canonical-numeric/string/symbol pools, descriptors over all 64 field-presence patterns, explicit receivers) executed in lock-step on goja and on esmodel (ECMA-262 10.1/10.4.2-4 written from the spec, seeded from the runtime's own initial property tables); after every step the result, the accessor call log and the full state dump of every subject must be equal; a history is non-trivial when it redefines an existing property with a partial descriptor or uses a receiver different from the target; distinct = FNV-64 of the JSON history",
		assumptions: []string{
			"the initial property table of each subject is read from the runtime through Reflect.ownKeys/getOwnPropertyDescriptor and loaded into the model (only the behaviour under operations is predicted)",
			"a history stops (counted under excluded) at the first step that would run code of an object the model does not track (native accessors such as Object.prototype.__proto__)",
		},
	},
	"C01": {
		crashIsViolation: true,
		rule:             "three layers of source text, each in strict/sloppy and global/function/eval/new Function placement: L1 grammar-generated programs over the whole syntax (plus deep-nesting forms up to depth 196), L2 token-level mutations of L1 programs (delete/duplicate/swap/replace/insert/truncate/splice), L3 byte strings biased to JS fragments and malformed UTF-8; every input goes through Parse, Compile and RunProgram/RunString under a 150 ms interrupt watchdog; a case is non-trivial when (L1) it compiled and reached the VM or (L2/L3) it parsed or is longer than 8 bytes; distinct = FNV-64 of placement+mode+source",
		assumptions: []string{
			"inputs above 64 KiB or with bracket nesting above 200 are outside the property and are skipped (counted under excluded)",
			"a run that exceeds 150 ms is interrupted (InterruptedError is a documented outcome); non-interruptible hangs are counted as inconclusive, never as violations",
			"a Go fatal error that kills the test process is reported by the driver from the case recorded before execution",
		},
	},
	"C05": {
		rule: "pairs of numeric expression trees constructed to evaluate to the same double (exact Go float64/math/big oracle) compared through a matrix of observers, plus single conversions against numref; a case is non-trivial when the two producers differ and at least one is not a plain literal (pairs), or the operand is outside the trivially safe range (|x|>=2^31, non-integer, or a string needing trimming/prefix handling); distinct = FNV-64 of the case's script text",
		assumptions: []string{
			"Go float64 arithmetic (+,-,*,/,sqrt, math.Mod, math.Trunc/Floor/Ceil) is IEEE-754 exact and math/big is correct",
			"only Math functions whose result is exactly specified at the generated arguments are used as producers",
		},
	},
}
