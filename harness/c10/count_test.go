package c10

import (
	"os"
	"testing"

	pr "verifh/internal/promref"
)

// TestCountEnum prints the size of the enumeration spaces (only with C10_COUNT=1).
func TestCountEnum(t *testing.T) {
	if os.Getenv("C10_COUNT") == "" {
		t.Skip()
	}
	for _, cfg := range [][2]int{{3, 1}, {3, 2}, {4, 1}} {
		n := 0
		enumPrograms(cfg[0], cfg[1], func(ops []pr.Op) { n++ })
		t.Logf("len<=%d level %d: %d programs", cfg[0], cfg[1], n)
	}
}
