package c10

import (
	"os"
	"strconv"

	"pgregory.net/rapid"

	"verifh/internal/evid"
	pr "verifh/internal/promref"
)

const maxOps = 12

type gen struct {
	t        *rapid.T
	assigned []int // promise variables assigned so far (program order)
	free     int   // next free variable index
	jsCaps   []int // capabilities created by new Promise (functions stashed in R/J)
	goCaps   []int // capabilities created by Runtime.NewPromise (R/J hold host wrappers)
	allCaps  []int
	nextCap  int
	nextID   int
	intrLeft int
	ops      int
	labels   map[string]int
}

func (g *gen) id(prefix string) string {
	g.nextID++
	return prefix + strconv.Itoa(g.nextID)
}

func (g *gen) label(s string) { g.labels[s]++ }

func (g *gen) pick(label string, weights ...int) int {
	total := 0
	for _, w := range weights {
		total += w
	}
	if total == 0 {
		return 0
	}
	x := rapid.IntRange(0, total-1).Draw(g.t, label)
	for i, w := range weights {
		if x < w {
			return i
		}
		x -= w
	}
	return len(weights) - 1
}

func (g *gen) chance(label string, percent int) bool {
	// rapid biases integer draws towards the lower bound: map that end to "false"
	return rapid.IntRange(0, 99).Draw(g.t, label) >= 100-percent
}

func b2i(b bool, w int) int {
	if b {
		return w
	}
	return 0
}

type vctx struct {
	inHandler bool
	self      string
	depth     int // remaining nesting budget for thenables / op expressions
	async     int // async nesting level so far
}

func (g *gen) val(c vctx) *pr.Val {
	k := g.pick("val",
		3, 1, 1,
		b2i(len(g.assigned) > 0, 5),
		b2i(c.inHandler, 2),
		b2i(c.self != "", 3),
		b2i(c.depth > 0, 3),
		b2i(c.depth > 0, 3))
	switch k {
	case 0:
		return &pr.Val{K: "int", I: rapid.IntRange(0, 9).Draw(g.t, "int")}
	case 1:
		return &pr.Val{K: "str", S: string(rune('a' + rapid.IntRange(0, 3).Draw(g.t, "str")))}
	case 2:
		return &pr.Val{K: "undef"}
	case 3:
		return &pr.Val{K: "var", I: g.assigned[rapid.IntRange(0, len(g.assigned)-1).Draw(g.t, "var")]}
	case 4:
		return &pr.Val{K: "arg"}
	case 5:
		return &pr.Val{K: "self", S: c.self}
	case 6:
		c.depth--
		return &pr.Val{K: "then", T: g.thenable(c)}
	}
	c.depth--
	o := g.exprOp(c)
	return &pr.Val{K: "op", Op: &o}
}

// simpleVal is a value a host function can build without calling into the runtime.
func (g *gen) simpleVal() *pr.Val {
	switch g.pick("sval", 3, 1, 1, b2i(len(g.assigned) > 0, 4)) {
	case 0:
		return &pr.Val{K: "int", I: rapid.IntRange(0, 9).Draw(g.t, "int")}
	case 1:
		return &pr.Val{K: "str", S: string(rune('a' + rapid.IntRange(0, 3).Draw(g.t, "str")))}
	case 2:
		return &pr.Val{K: "undef"}
	}
	return &pr.Val{K: "var", I: g.assigned[rapid.IntRange(0, len(g.assigned)-1).Draw(g.t, "var")]}
}

func (g *gen) intrUsed() bool {
	for k := range g.labels {
		if len(k) > 10 && k[:10] == "intr-site:" {
			return true
		}
	}
	return false
}

func (g *gen) maybeIntr(label string) bool {
	if g.intrLeft > 0 && g.chance("intr-"+label, 10) {
		g.intrLeft--
		g.label("intr-site:" + label)
		return true
	}
	return false
}

// acts for executor (own=true allows res/rej), thenable then (own=true) or handler (own=false).
func (g *gen) acts(c vctx, own bool, max int, site string) []pr.Act {
	n := rapid.IntRange(0, max).Draw(g.t, "nacts")
	var out []pr.Act
	for i := 0; i < n; i++ {
		if g.maybeIntr(site) {
			out = append(out, pr.Act{K: "intr"})
			continue
		}
		k := g.pick("act", b2i(own, 5), b2i(own, 3), b2i(len(g.allCaps) > 0, 2), b2i(own, 1), b2i(c.depth > 0, 1), b2i(c.depth > 0, 1))
		switch {
		case k == 4:
			c2 := c
			c2.depth--
			o := g.exprOp(c2)
			out = append(out, pr.Act{K: "eval", V: &pr.Val{K: "op", Op: &o}})
		case k == 5:
			out = append(out, pr.Act{K: "nested", Ops: g.nestedOps(c.depth - 1)})
		case own && k == 0:
			out = append(out, pr.Act{K: "res", V: g.val(c)})
		case own && k == 1:
			out = append(out, pr.Act{K: "rej", V: g.val(c)})
		case k == 2 && len(g.allCaps) > 0:
			out = append(out, pr.Act{K: "settle", Cap: g.allCaps[rapid.IntRange(0, len(g.allCaps)-1).Draw(g.t, "cap")], Rej: g.chance("rej", 35), V: g.val(c)})
		case own && k == 3:
			out = append(out, pr.Act{K: "throw", V: g.val(c)})
			return out
		}
	}
	return out
}

// nestedOps is a small script run by the host function nested() through RunString.
func (g *gen) nestedOps(depth int) []pr.Op {
	c := vctx{depth: depth}
	n := rapid.IntRange(1, 2).Draw(g.t, "nnested")
	var out []pr.Op
	for i := 0; i < n; i++ {
		if g.maybeIntr("nested") {
			out = append(out, pr.Op{K: "intr", Dst: -1})
			continue
		}
		if len(g.allCaps) > 0 && g.chance("nestedsettle", 40) {
			out = append(out, pr.Op{K: "settle", Dst: -1, Cap: g.allCaps[rapid.IntRange(0, len(g.allCaps)-1).Draw(g.t, "cap")], Rej: g.chance("rej", 35), V: g.val(c)})
		} else {
			out = append(out, g.exprOp(c))
		}
	}
	g.label("nested-script")
	return out
}

func (g *gen) thenable(c vctx) *pr.Thenable {
	t := &pr.Thenable{ID: g.id("t")}
	switch g.pick("thenkind", 66, 9, 9, 6, 10) {
	case 0:
		if g.chance("nativethen", 10) {
			t.Native = true
			n := rapid.IntRange(0, 3).Draw(g.t, "nacts")
			for i := 0; i < n; i++ {
				switch g.pick("nact", 5, 3, b2i(len(g.allCaps) > 0, 2)) {
				case 0:
					t.Acts = append(t.Acts, pr.Act{K: "res", V: g.simpleVal()})
				case 1:
					t.Acts = append(t.Acts, pr.Act{K: "rej", V: g.simpleVal()})
				case 2:
					t.Acts = append(t.Acts, pr.Act{K: "settle", Cap: g.allCaps[rapid.IntRange(0, len(g.allCaps)-1).Draw(g.t, "cap")], Rej: g.chance("rej", 35), V: g.simpleVal()})
				}
			}
			g.label("thenable:native")
			return t
		}
		g.label("thenable:plain")
	case 1:
		t.Get = "fn"
		g.label("thenable:getter-fn")
	case 2:
		t.Get = "throw"
		t.GV = g.val(vctx{inHandler: c.inHandler, self: c.self})
		g.label("thenable:getter-throw")
		return t
	case 3:
		t.NonFn = true
		g.label("thenable:then-not-callable")
		return t
	case 4:
		t.Ctor = true
		g.label("thenable:constructor-Promise")
	}
	t.Acts = g.acts(c, true, 3, "thenable")
	return t
}

func (g *gen) handler(c vctx, finally bool, self string) pr.Handler {
	switch g.pick("hkind", 86, 7, 7) {
	case 1:
		g.label("handler:undefined")
		return pr.Handler{K: "undef", V: pr.Val{K: "undef"}}
	case 2:
		g.label("handler:number")
		return pr.Handler{K: "num", V: pr.Val{K: "undef"}}
	}
	prefix := "h"
	if finally {
		prefix = "f"
	}
	h := pr.Handler{K: "fn", ID: g.id(prefix)}
	if g.chance("native", 8) {
		// a host (Go) function as reaction handler: logs, settles through the Go API, returns its argument
		h.Native = true
		h.V = pr.Val{K: "arg"}
		if len(g.allCaps) > 0 && g.chance("nativesettle", 70) {
			h.Acts = []pr.Act{{K: "settle", Cap: g.allCaps[rapid.IntRange(0, len(g.allCaps)-1).Draw(g.t, "cap")], Rej: g.chance("rej", 35), V: g.simpleVal()}}
		}
		g.label("handler:native")
		return h
	}
	hc := vctx{inHandler: true, self: self, depth: c.depth, async: c.async}
	h.Acts = g.acts(hc, false, 1, "handler")
	h.Throw = g.chance("throw", 35)
	h.V = *g.val(hc)
	if h.Throw {
		g.label("handler:throw:" + h.V.K)
	} else {
		g.label("handler:return:" + h.V.K)
	}
	return h
}

func (g *gen) links(c vctx, max int) []pr.Link {
	n := rapid.IntRange(1, max).Draw(g.t, "nlinks")
	out := make([]pr.Link, 0, n)
	for i := 0; i < n; i++ {
		l := pr.Link{}
		self := ""
		if g.chance("self", 10) {
			self = g.id("s")
			l.SelfID = self
		}
		switch g.pick("link", 55, 25, 20) {
		case 0:
			l.K = "then"
			l.A = g.handler(c, false, self)
			if g.chance("two", 40) {
				b := g.handler(c, false, self)
				l.B = &b
			}
		case 1:
			l.K = "catch"
			l.A = g.handler(c, false, self)
		case 2:
			l.K = "finally"
			l.A = g.handler(c, true, self)
		}
		g.label("link:" + l.K)
		out = append(out, l)
	}
	return out
}

func (g *gen) items(c vctx) []pr.Val {
	n := rapid.IntRange(0, 4).Draw(g.t, "nitems")
	out := make([]pr.Val, n)
	for i := range out {
		out[i] = *g.val(c)
	}
	return out
}

func (g *gen) stmts(c vctx, max int, tryDepth int) []pr.Stmt {
	n := rapid.IntRange(1, max).Draw(g.t, "nstmts")
	var out []pr.Stmt
	for i := 0; i < n; i++ {
		if g.maybeIntr("async") {
			out = append(out, pr.Stmt{K: "intr"})
			continue
		}
		switch g.pick("stmt", 10, 2, b2i(len(g.allCaps) > 0, 2), b2i(tryDepth < 2, 3), 1, 1) {
		case 0:
			out = append(out, pr.Stmt{K: "await", ID: g.id("w"), X: g.val(c)})
		case 1:
			out = append(out, pr.Stmt{K: "log", ID: g.id("l")})
		case 2:
			out = append(out, pr.Stmt{K: "settle", Cap: g.allCaps[rapid.IntRange(0, len(g.allCaps)-1).Draw(g.t, "cap")], Rej: g.chance("rej", 35), X: g.val(c)})
		case 3:
			st := pr.Stmt{K: "try", ID: g.id("c"), Body: g.stmts(c, 3, tryDepth+1)}
			if g.chance("catchbody", 30) {
				st.Catch = g.stmts(c, 2, tryDepth+1)
				g.label("async:catch-body")
			}
			if g.chance("finally", 40) {
				st.Fin = g.stmts(c, 2, tryDepth+1)
				st.NoCatch = g.chance("nocatch", 50)
				g.label("async:try-finally")
			}
			out = append(out, st)
		case 4:
			out = append(out, pr.Stmt{K: "return", X: g.val(c)})
			return out
		case 5:
			out = append(out, pr.Stmt{K: "throw", X: g.val(c)})
			return out
		}
	}
	return out
}

// exprOp generates a promise-producing op used as an expression (Dst = -1).
func (g *gen) exprOp(c vctx) pr.Op {
	k := g.pick("exprop", 3, 3, 4, 3, b2i(c.async < 3, 4))
	o := pr.Op{Dst: -1}
	switch k {
	case 0:
		o.K = "resolve"
		o.V = g.val(c)
	case 1:
		o.K = "reject"
		o.V = g.val(c)
	case 2:
		o.K = "chain"
		o.Src = g.chainSrc(c)
		o.Links = g.links(c, 2)
	case 3:
		o.K = []string{"all", "allSettled", "race", "any"}[rapid.IntRange(0, 3).Draw(g.t, "comb")]
		o.Items = g.items(c)
	case 4:
		o.K = "async"
		o.ID = g.id("a")
		g.asyncForm(&o)
		c.async++
		o.Body = g.stmts(c, 3, 0)
	}
	g.label("op:" + o.K)
	return o
}

func (g *gen) asyncForm(o *pr.Op) {
	switch g.pick("asyncform", 4, 3, 2) {
	case 1:
		o.Arrow = true
	case 2:
		o.Meth = true
	}
}

func (g *gen) chainSrc(c vctx) *pr.Val {
	if len(g.assigned) > 0 && (c.depth <= 0 || g.chance("srcvar", 75)) {
		return &pr.Val{K: "var", I: g.assigned[rapid.IntRange(0, len(g.assigned)-1).Draw(g.t, "var")]}
	}
	c.depth--
	if c.depth < 0 {
		c.depth = 0
	}
	var o pr.Op
	if g.chance("srcstatic", 70) {
		o = pr.Op{K: []string{"resolve", "reject"}[rapid.IntRange(0, 1).Draw(g.t, "which")], Dst: -1, V: g.val(vctx{inHandler: c.inHandler, self: c.self})}
	} else {
		o = g.exprOp(c)
	}
	return &pr.Val{K: "op", Op: &o}
}

func (g *gen) dst() int {
	if g.free < pr.NVars && g.chance("dst", 65) {
		return g.free
	}
	return -1
}

func (g *gen) commit(dst int) {
	if dst >= 0 {
		g.assigned = append(g.assigned, dst)
		g.free = dst + 1
	}
}

// topOp generates one top-level op of a JS segment.
func (g *gen) topOp() pr.Op {
	c := vctx{depth: 2}
	if g.maybeIntr("top") {
		return pr.Op{K: "intr", Dst: -1}
	}
	k := g.pick("topop", 5, b2i(len(g.allCaps) > 0, 4), b2i(len(g.assigned) > 0, 8), 2, 2, 3, 1, b2i(len(g.assigned) > 0, 1), b2i(len(g.assigned) > 0, 1))
	switch k {
	case 8:
		g.label("op:constructor-undefined")
		return pr.Op{K: "noctor", Dst: -1, V: &pr.Val{K: "var", I: g.assigned[rapid.IntRange(0, len(g.assigned)-1).Draw(g.t, "var")]}}
	case 7:
		g.label("op:patch-then")
		o := pr.Op{K: "patch", Dst: -1, ID: g.id("m"), Getter: g.chance("getter", 40)}
		o.V = &pr.Val{K: "var", I: g.assigned[rapid.IntRange(0, len(g.assigned)-1).Draw(g.t, "var")]}
		// the body must not look up "then" synchronously again (unbounded recursion): settle with a simple value only
		if g.maybeIntr("patched-then") {
			o.Acts = []pr.Act{{K: "intr"}}
		} else if g.chance("patchcall", 35) {
			// call the reaction arguments synchronously, possibly twice
			n := rapid.IntRange(1, 2).Draw(g.t, "ncalls")
			for i := 0; i < n; i++ {
				k := "res"
				if g.chance("rej", 35) {
					k = "rej"
				}
				o.Acts = append(o.Acts, pr.Act{K: k, V: &pr.Val{K: "int", I: rapid.IntRange(0, 9).Draw(g.t, "int")}})
			}
			g.label("patched-then:calls-reactions")
		} else if len(g.allCaps) > 0 && g.chance("patchsettle", 50) {
			o.Acts = []pr.Act{{K: "settle", Cap: g.allCaps[rapid.IntRange(0, len(g.allCaps)-1).Draw(g.t, "cap")], Rej: g.chance("rej", 35), V: g.simpleVal()}}
		}
		return o
	case 6:
		g.label("op:nested")
		return pr.Op{K: "nested", Dst: -1, Ops: g.nestedOps(1)}
	case 0:
		o := pr.Op{K: "new", ID: g.id("e"), Cap: g.nextCap}
		o.Dst = g.dst()
		o.Acts = g.acts(c, true, 3, "executor")
		g.nextCap++
		g.jsCaps = append(g.jsCaps, o.Cap)
		g.allCaps = append(g.allCaps, o.Cap)
		g.commit(o.Dst)
		g.label("op:new")
		return o
	case 1:
		cap := g.allCaps[rapid.IntRange(0, len(g.allCaps)-1).Draw(g.t, "cap")]
		g.label("op:settle")
		return pr.Op{K: "settle", Dst: -1, Cap: cap, Rej: g.chance("rej", 35), V: g.val(c)}
	case 2:
		o := pr.Op{K: "chain", Src: g.chainSrc(c)}
		o.Links = g.links(c, 4)
		o.Dst = g.dst()
		g.commit(o.Dst)
		g.label("op:chain")
		return o
	case 3:
		o := pr.Op{K: []string{"resolve", "reject"}[rapid.IntRange(0, 1).Draw(g.t, "which")], V: g.val(c)}
		o.Dst = g.dst()
		g.commit(o.Dst)
		g.label("op:" + o.K)
		return o
	case 4:
		o := pr.Op{K: []string{"all", "allSettled", "race", "any"}[rapid.IntRange(0, 3).Draw(g.t, "comb")], Items: g.items(c)}
		o.Dst = g.dst()
		g.commit(o.Dst)
		g.label("op:" + o.K)
		return o
	}
	o := pr.Op{K: "async", ID: g.id("a")}
	g.asyncForm(&o)
	c.async = 1
	o.Body = g.stmts(c, 4, 0)
	o.Dst = g.dst()
	g.commit(o.Dst)
	g.label("op:async")
	return o
}

func (g *gen) goVal() *pr.Val {
	k := g.pick("goval", 3, 1, 1, b2i(len(g.assigned) > 0, 4), 3)
	switch k {
	case 0:
		return &pr.Val{K: "int", I: rapid.IntRange(0, 9).Draw(g.t, "int")}
	case 1:
		return &pr.Val{K: "str", S: string(rune('a' + rapid.IntRange(0, 3).Draw(g.t, "str")))}
	case 2:
		return &pr.Val{K: "undef"}
	case 3:
		return &pr.Val{K: "var", I: g.assigned[rapid.IntRange(0, len(g.assigned)-1).Draw(g.t, "var")]}
	}
	return &pr.Val{K: "then", T: g.thenable(vctx{depth: 1})}
}

func (g *gen) goSegs(max int, out *[]pr.Seg) {
	n := rapid.IntRange(0, max).Draw(g.t, "ngo")
	for i := 0; i < n && g.ops < maxOps; i++ {
		k := g.pick("goseg", b2i(g.free < pr.NVars, 3), b2i(len(g.goCaps) > 0, 5), b2i(len(g.jsCaps) > 0, 4), 2)
		switch {
		case k == 3:
			// the Promise constructor called from Go with a JS executor
			s := pr.Seg{K: []string{"rtnew", "ctor"}[rapid.IntRange(0, 1).Draw(g.t, "via")], ID: g.id("e"), Cap: g.nextCap, Dst: -1}
			s.Acts = g.acts(vctx{depth: 2}, true, 3, "executor")
			s.Dst = g.dst()
			g.nextCap++
			g.jsCaps = append(g.jsCaps, s.Cap)
			g.allCaps = append(g.allCaps, s.Cap)
			g.commit(s.Dst)
			*out = append(*out, s)
		case k == 0 && g.free < pr.NVars:
			s := pr.Seg{K: "gonew", Dst: g.free, Cap: g.nextCap}
			g.goCaps = append(g.goCaps, s.Cap)
			g.allCaps = append(g.allCaps, s.Cap)
			g.nextCap++
			g.commit(s.Dst)
			*out = append(*out, s)
		case k == 1 && len(g.goCaps) > 0:
			*out = append(*out, pr.Seg{K: "gosettle", Dst: -1, Cap: g.goCaps[rapid.IntRange(0, len(g.goCaps)-1).Draw(g.t, "cap")], Rej: g.chance("rej", 35), V: g.goVal()})
		case k == 2 && len(g.jsCaps) > 0:
			*out = append(*out, pr.Seg{K: "callsettle", Dst: -1, Cap: g.jsCaps[rapid.IntRange(0, len(g.jsCaps)-1).Draw(g.t, "cap")], Rej: g.chance("rej", 35), V: g.goVal()})
		default:
			continue
		}
		g.ops++
		g.label("seg:" + (*out)[len(*out)-1].K)
	}
}

// stripIntr removes every interrupt from a case (used when the interrupt would
// make a later segment read a variable that was never assigned).
func stripIntr(c *pr.Case) {
	acts := func(in []pr.Act) []pr.Act {
		out := in[:0]
		for i := range in {
			if in[i].K != "intr" {
				out = append(out, in[i])
			}
		}
		return out
	}
	stmts := func(in []pr.Stmt) []pr.Stmt {
		out := in[:0]
		for i := range in {
			if in[i].K != "intr" {
				out = append(out, in[i])
			}
		}
		return out
	}
	ops := func(in []pr.Op) []pr.Op {
		out := in[:0]
		for i := range in {
			if in[i].K != "intr" {
				out = append(out, in[i])
			}
		}
		return out
	}
	pr.Walk(c, &pr.Visitor{
		Seg:      func(s *pr.Seg) { s.Ops = ops(s.Ops); s.Body = stmts(s.Body); s.Acts = acts(s.Acts) },
		Op:       func(o *pr.Op) { o.Acts = acts(o.Acts); o.Body = stmts(o.Body); o.Ops = ops(o.Ops) },
		Handler:  func(h *pr.Handler, _ bool) { h.Acts = acts(h.Acts) },
		Thenable: func(t *pr.Thenable) { t.Acts = acts(t.Acts) },
		Act:      func(a *pr.Act) { a.Ops = ops(a.Ops) },
		Stmt:     func(s *pr.Stmt) { s.Body = stmts(s.Body); s.Fin = stmts(s.Fin); s.Catch = stmts(s.Catch) },
	})
}

func countAwaits(ss []pr.Stmt) int {
	n := 0
	for i := range ss {
		if ss[i].K == "await" {
			n++
		}
		n += countAwaits(ss[i].Body)
		n += countAwaits(ss[i].Fin)
		n += countAwaits(ss[i].Catch)
	}
	return n
}

// chainLengths collects the lengths of all then-chains and await sequences.
func chainLengths(c *pr.Case) map[int]bool {
	set := map[int]bool{}
	pr.Walk(c, &pr.Visitor{
		Seg: func(s *pr.Seg) {
			if s.K == "acall" {
				set[countAwaits(s.Body)] = true
			}
		},
		Op: func(o *pr.Op) {
			switch o.K {
			case "chain":
				set[len(o.Links)] = true
			case "async":
				set[countAwaits(o.Body)] = true
			}
		},
	})
	return set
}

func nontrivial(c *pr.Case, m *pr.Model) bool {
	if m == nil {
		return false
	}
	return len(chainLengths(c)) >= 2 || m.Stats.ThenableJobs > 0 || m.Stats.LateCalls > 0
}

func genCase(t *rapid.T) *pr.Case {
	g := &gen{t: t, labels: map[string]int{}}
	if g.chance("wantintr", 30) {
		g.intrLeft = 1
	}
	c := &pr.Case{}
	nruns := g.pick("nruns", 5, 3, 2) + 1
	if g.chance("gofirst", 25) {
		g.goSegs(2, &c.Segs)
	}
	for r := 0; r < nruns; r++ {
		if r > 0 {
			g.goSegs(2, &c.Segs)
		}
		remainingRuns := nruns - r
		budget := (maxOps - g.ops) / remainingRuns
		if budget < 1 {
			break
		}
		if budget > 6 {
			budget = 6
		}
		if g.chance("acallseg", 10) {
			// the run is one call of a global async function through goja.Callable
			s := pr.Seg{K: "acall", Dst: -1, ID: g.id("a")}
			s.Body = g.stmts(vctx{depth: 2, async: 1}, 4, 0)
			s.Dst = g.dst()
			g.commit(s.Dst)
			g.ops++
			g.label("seg:acall")
			c.Segs = append(c.Segs, s)
			continue
		}
		n := rapid.IntRange(1, budget).Draw(t, "nops")
		s := pr.Seg{K: "run", Dst: -1}
		if g.chance("callseg", 30) {
			s.K = "call"
		}
		for i := 0; i < n; i++ {
			s.Ops = append(s.Ops, g.topOp())
			g.ops++
		}
		if g.chance("topthrow", 8) {
			s.Ops = append(s.Ops, pr.Op{K: "throw", Dst: -1, V: g.simpleVal()})
			g.label("op:throw-at-top-level")
		}
		g.label("seg:" + s.K)
		c.Segs = append(c.Segs, s)
	}
	if g.chance("gotail", 20) {
		g.goSegs(2, &c.Segs)
	}
	m, perr := runModel(c)
	if perr == "" && m.Hazard != "" && g.intrUsed() {
		stripIntr(c)
		evid.Excluded("interrupt removed: it would leave a later segment reading an unassigned variable")
		m, perr = runModel(c)
	}
	if perr == "" && m.Hazard != "" {
		// e.g. an exception escaping to the top level made a later op read a never-assigned function
		if os.Getenv("C10_DUMP_HAZARD") != "" {
			os.WriteFile(os.Getenv("C10_DUMP_HAZARD"), []byte(m.Hazard+"\n"+pr.Text(c)), 0o644)
		}
		evid.Excluded("case discarded: " + hazardClass(m.Hazard))
		t.Skip("hazard: " + m.Hazard)
	}
	for k, n := range g.labels {
		evid.CountN(k, int64(n))
	}
	evid.Count("runs:" + strconv.Itoa(nruns))
	if m != nil && perr == "" {
		if m.InterruptHit() {
			evid.Count("interrupt-fired")
		}
		if m.Stats.ThenableJobs > 0 {
			evid.Count("feature:thenable-job")
		}
		if m.Stats.LateCalls > 0 {
			evid.Count("feature:resolving-function-called-again")
		}
		if len(m.Track) > 0 {
			evid.Count("feature:tracker-calls")
		}
		switch {
		case m.Stats.Jobs == 0:
			evid.Count("jobs:0")
		case m.Stats.Jobs < 5:
			evid.Count("jobs:1-4")
		case m.Stats.Jobs < 15:
			evid.Count("jobs:5-14")
		default:
			evid.Count("jobs:15+")
		}
	}
	evid.Case(pr.Text(c), nontrivial(c, m))
	cls := "plain"
	if m != nil && m.InterruptHit() {
		cls = "interrupt"
	} else if len(c.Segs) > 1 {
		cls = "multi-run"
	}
	evid.Sample(cls, c)
	return c
}

// genCombCase is a focused generator for the combinators: a few promises (pending, settled, patched with a
// "then" that calls its reaction arguments directly once or twice), combinators over mixes of them, plain
// values and thenables, reactions on the results, and settle calls in arbitrary order and multiplicity.
func genCombCase(t *rapid.T) *pr.Case {
	g := &gen{t: t, labels: map[string]int{}}
	c := &pr.Case{}
	seg := pr.Seg{K: "run", Dst: -1}
	if g.chance("callseg", 30) {
		seg.K = "call"
	}
	nprom := rapid.IntRange(1, 3).Draw(t, "nprom")
	for i := 0; i < nprom; i++ {
		o := pr.Op{K: "new", ID: g.id("e"), Cap: g.nextCap, Dst: g.free}
		switch g.pick("presettle", 5, 2, 2) {
		case 1:
			o.Acts = []pr.Act{{K: "res", V: &pr.Val{K: "int", I: rapid.IntRange(0, 9).Draw(t, "int")}}}
		case 2:
			o.Acts = []pr.Act{{K: "rej", V: &pr.Val{K: "int", I: rapid.IntRange(0, 9).Draw(t, "int")}}}
		}
		g.nextCap++
		g.jsCaps = append(g.jsCaps, o.Cap)
		g.allCaps = append(g.allCaps, o.Cap)
		g.commit(o.Dst)
		seg.Ops = append(seg.Ops, o)
		if g.chance("patch", 55) {
			po := pr.Op{K: "patch", Dst: -1, ID: g.id("m"), Getter: g.chance("getter", 25), V: &pr.Val{K: "var", I: o.Dst}}
			n := rapid.IntRange(1, 3).Draw(t, "ncalls")
			for j := 0; j < n; j++ {
				k := "res"
				if g.chance("rej", 40) {
					k = "rej"
				}
				po.Acts = append(po.Acts, pr.Act{K: k, V: &pr.Val{K: "int", I: rapid.IntRange(0, 9).Draw(t, "int")}})
			}
			seg.Ops = append(seg.Ops, po)
			g.label("comb:patched")
		}
		if g.chance("noctor", 10) {
			seg.Ops = append(seg.Ops, pr.Op{K: "noctor", Dst: -1, V: &pr.Val{K: "var", I: o.Dst}})
		}
	}
	item := func() pr.Val {
		switch g.pick("item", 8, 2, 3, 1, 1) {
		case 0:
			return pr.Val{K: "var", I: g.assigned[rapid.IntRange(0, len(g.assigned)-1).Draw(t, "var")]}
		case 1:
			return pr.Val{K: "int", I: rapid.IntRange(0, 9).Draw(t, "int")}
		case 2:
			th := &pr.Thenable{ID: g.id("t")}
			n := rapid.IntRange(0, 3).Draw(t, "nacts")
			for j := 0; j < n; j++ {
				k := "res"
				if g.chance("rej", 40) {
					k = "rej"
				}
				th.Acts = append(th.Acts, pr.Act{K: k, V: &pr.Val{K: "int", I: rapid.IntRange(0, 9).Draw(t, "int")}})
			}
			return pr.Val{K: "then", T: th}
		case 3:
			return pr.Val{K: "op", Op: &pr.Op{K: "reject", Dst: -1, V: &pr.Val{K: "int", I: rapid.IntRange(0, 9).Draw(t, "int")}}}
		}
		return pr.Val{K: "op", Op: &pr.Op{K: "resolve", Dst: -1, V: &pr.Val{K: "int", I: rapid.IntRange(0, 9).Draw(t, "int")}}}
	}
	ncomb := rapid.IntRange(1, 2).Draw(t, "ncomb")
	for i := 0; i < ncomb && g.free < pr.NVars; i++ {
		o := pr.Op{K: []string{"all", "allSettled", "race", "any"}[rapid.IntRange(0, 3).Draw(t, "comb")], Dst: g.free}
		n := rapid.IntRange(0, 4).Draw(t, "nitems")
		for j := 0; j < n; j++ {
			o.Items = append(o.Items, item())
		}
		g.label("comb:" + o.K)
		g.commit(o.Dst)
		seg.Ops = append(seg.Ops, o)
		seg.Ops = append(seg.Ops, pr.Op{K: "chain", Dst: -1, Src: &pr.Val{K: "var", I: o.Dst}, Links: []pr.Link{{K: "then",
			A: pr.Handler{K: "fn", ID: g.id("h"), V: pr.Val{K: "arg"}},
			B: &pr.Handler{K: "fn", ID: g.id("h"), V: pr.Val{K: "arg"}}}}})
	}
	// a tick counter chain to expose timing differences
	seg.Ops = append(seg.Ops, pr.Op{K: "chain", Dst: -1, Src: &pr.Val{K: "op", Op: &pr.Op{K: "resolve", Dst: -1, V: &pr.Val{K: "undef"}}}, Links: []pr.Link{
		{K: "then", A: pr.Handler{K: "fn", ID: g.id("n"), V: pr.Val{K: "undef"}}},
		{K: "then", A: pr.Handler{K: "fn", ID: g.id("n"), V: pr.Val{K: "undef"}}},
		{K: "then", A: pr.Handler{K: "fn", ID: g.id("n"), V: pr.Val{K: "undef"}}},
	}})
	c.Segs = append(c.Segs, seg)
	// settle calls, in a second run / from Go
	nset := rapid.IntRange(0, 5).Draw(t, "nsettle")
	var cur *pr.Seg
	for i := 0; i < nset; i++ {
		capI := g.jsCaps[rapid.IntRange(0, len(g.jsCaps)-1).Draw(t, "cap")]
		rej := g.chance("rej", 40)
		v := g.simpleVal()
		switch g.pick("how", 4, 2, 2) {
		case 0:
			if cur == nil {
				c.Segs = append(c.Segs, pr.Seg{K: "run", Dst: -1})
				cur = &c.Segs[len(c.Segs)-1]
			}
			cur.Ops = append(cur.Ops, pr.Op{K: "settle", Dst: -1, Cap: capI, Rej: rej, V: v})
		case 1:
			c.Segs = append(c.Segs, pr.Seg{K: "callsettle", Dst: -1, Cap: capI, Rej: rej, V: v})
			cur = nil
		case 2:
			c.Segs = append(c.Segs, pr.Seg{K: "run", Dst: -1, Ops: []pr.Op{{K: "settle", Dst: -1, Cap: capI, Rej: rej, V: v}}})
			cur = nil
		}
	}
	m, perr := runModel(c)
	if perr == "" && m.Hazard != "" {
		evid.Excluded("case discarded: " + hazardClass(m.Hazard))
		t.Skip("hazard: " + m.Hazard)
	}
	for k, n := range g.labels {
		evid.CountN(k, int64(n))
	}
	evid.Case(pr.Text(c), nontrivial(c, m))
	evid.Sample("combinators", c)
	return c
}

func hazardClass(h string) string {
	for i := 0; i < len(h); i++ {
		if h[i] >= '0' && h[i] <= '9' {
			return h[:i] + "N" + trimDigits(h[i:])
		}
	}
	return h
}

func trimDigits(s string) string {
	i := 0
	for i < len(s) && s[i] >= '0' && s[i] <= '9' {
		i++
	}
	return s[i:]
}
