package c10

import (
	"fmt"
	"strconv"
	"testing"

	"verifh/internal/evid"
	pr "verifh/internal/promref"
)

// Exhaustive enumeration of all DSL programs with at most maxLen top-level ops
// over two promise variables from a reduced alphabet; every program is judged
// as one run and split into two runs after each op position.

type estate struct {
	assigned []int
	caps     []int
	nextID   int
}

func (s *estate) clone() *estate {
	return &estate{assigned: append([]int(nil), s.assigned...), caps: append([]int(nil), s.caps...), nextID: s.nextID}
}

func (s *estate) id(p string) string {
	s.nextID++
	return p + strconv.Itoa(s.nextID)
}

func eInt(i int) *pr.Val { return &pr.Val{K: "int", I: i} }

func (s *estate) thenableRes() *pr.Val {
	return &pr.Val{K: "then", T: &pr.Thenable{ID: s.id("t"), Acts: []pr.Act{{K: "res", V: eInt(2)}}}}
}

func (s *estate) thenableThrow() *pr.Val {
	return &pr.Val{K: "then", T: &pr.Thenable{ID: s.id("t"), Acts: []pr.Act{{K: "res", V: eInt(2)}, {K: "throw", V: eInt(3)}}}}
}

// values returns constructors (so that ids are allocated only for the chosen one).
func (s *estate) values(level int) []func() *pr.Val {
	out := []func() *pr.Val{func() *pr.Val { return eInt(1) }}
	for _, x := range s.assigned {
		x := x
		out = append(out, func() *pr.Val { return &pr.Val{K: "var", I: x} })
	}
	out = append(out, s.thenableRes)
	if level >= 2 {
		out = append(out, s.thenableThrow)
		out = append(out, func() *pr.Val {
			return &pr.Val{K: "then", T: &pr.Thenable{ID: s.id("t"), Get: "throw", GV: eInt(6)}}
		})
	}
	return out
}

// ops enumerates every op available in state s; each element builds the op and
// returns the successor state.
func enumOps(s *estate, level int, yield func(pr.Op, *estate)) {
	dstOf := func(n *estate) int {
		if len(n.assigned) < 2 {
			d := len(n.assigned)
			n.assigned = append(n.assigned, d)
			return d
		}
		return -1
	}
	emit := func(build func(n *estate) pr.Op) {
		n := s.clone()
		o := build(n)
		if o.K != "settle" && o.K != "patch" && o.K != "noctor" {
			o.Dst = dstOf(n)
		} else {
			o.Dst = -1
		}
		yield(o, n)
	}
	nv := len(s.values(level))
	// new
	newWith := func(mk func(n *estate) []pr.Act) {
		emit(func(n *estate) pr.Op {
			o := pr.Op{K: "new", ID: n.id("e"), Cap: len(n.caps)}
			o.Acts = mk(n)
			n.caps = append(n.caps, o.Cap)
			return o
		})
	}
	newWith(func(n *estate) []pr.Act { return nil })
	for i := 0; i < nv; i++ {
		i := i
		newWith(func(n *estate) []pr.Act { return []pr.Act{{K: "res", V: n.values(level)[i]()}} })
	}
	newWith(func(n *estate) []pr.Act { return []pr.Act{{K: "rej", V: eInt(1)}} })
	newWith(func(n *estate) []pr.Act { return []pr.Act{{K: "res", V: eInt(1)}, {K: "rej", V: eInt(2)}} })
	newWith(func(n *estate) []pr.Act { return []pr.Act{{K: "throw", V: eInt(3)}} })
	// settle
	for _, cap := range s.caps {
		cap := cap
		for i := 0; i < nv; i++ {
			i := i
			emit(func(n *estate) pr.Op { return pr.Op{K: "settle", Cap: cap, V: n.values(level)[i]()} })
		}
		emit(func(n *estate) pr.Op { return pr.Op{K: "settle", Cap: cap, Rej: true, V: eInt(1)} })
	}
	// chain
	arg := pr.Val{K: "arg"}
	for _, x := range s.assigned {
		x := x
		src := func() *pr.Val { return &pr.Val{K: "var", I: x} }
		link := func(mk func(n *estate) pr.Link) {
			emit(func(n *estate) pr.Op { return pr.Op{K: "chain", Src: src(), Links: []pr.Link{mk(n)}} })
		}
		link(func(n *estate) pr.Link { return pr.Link{K: "then", A: pr.Handler{K: "fn", ID: n.id("h"), V: arg}} })
		link(func(n *estate) pr.Link {
			return pr.Link{K: "then", A: pr.Handler{K: "fn", ID: n.id("h"), Throw: true, V: *eInt(4)}}
		})
		for _, y := range s.assigned {
			y := y
			link(func(n *estate) pr.Link {
				return pr.Link{K: "then", A: pr.Handler{K: "fn", ID: n.id("h"), V: pr.Val{K: "var", I: y}}}
			})
		}
		link(func(n *estate) pr.Link {
			return pr.Link{K: "then", A: pr.Handler{K: "fn", ID: n.id("h"), V: *n.thenableRes()}}
		})
		link(func(n *estate) pr.Link {
			return pr.Link{K: "then", A: pr.Handler{K: "undef"}, B: &pr.Handler{K: "fn", ID: n.id("h"), V: arg}}
		})
		link(func(n *estate) pr.Link { return pr.Link{K: "catch", A: pr.Handler{K: "fn", ID: n.id("h"), V: arg}} })
		link(func(n *estate) pr.Link {
			return pr.Link{K: "finally", A: pr.Handler{K: "fn", ID: n.id("f"), V: pr.Val{K: "undef"}}}
		})
		link(func(n *estate) pr.Link {
			return pr.Link{K: "finally", A: pr.Handler{K: "fn", ID: n.id("f"), Throw: true, V: *eInt(5)}}
		})
		if level >= 2 {
			link(func(n *estate) pr.Link {
				sid := n.id("s")
				return pr.Link{K: "then", SelfID: sid, A: pr.Handler{K: "fn", ID: n.id("h"), V: pr.Val{K: "self", S: sid}}}
			})
			link(func(n *estate) pr.Link {
				return pr.Link{K: "finally", A: pr.Handler{K: "fn", ID: n.id("f"), V: *n.thenableRes()}}
			})
		}
	}
	// resolve / reject
	for i := 0; i < nv; i++ {
		i := i
		emit(func(n *estate) pr.Op { return pr.Op{K: "resolve", V: n.values(level)[i]()} })
	}
	emit(func(n *estate) pr.Op { return pr.Op{K: "reject", V: eInt(1)} })
	// async
	for i := 0; i < nv; i++ {
		i := i
		emit(func(n *estate) pr.Op {
			return pr.Op{K: "async", ID: n.id("a"), Body: []pr.Stmt{{K: "await", ID: n.id("w"), X: n.values(level)[i]()}}}
		})
		emit(func(n *estate) pr.Op {
			return pr.Op{K: "async", ID: n.id("a"), Arrow: true, Body: []pr.Stmt{{K: "try", ID: n.id("c"), Body: []pr.Stmt{{K: "await", ID: n.id("w"), X: n.values(level)[i]()}}}, {K: "log", ID: n.id("l")}}}
		})
		emit(func(n *estate) pr.Op {
			return pr.Op{K: "async", ID: n.id("a"), Body: []pr.Stmt{{K: "return", X: n.values(level)[i]()}}}
		})
	}
	if level >= 2 {
		for i := 0; i < nv; i++ {
			i := i
			emit(func(n *estate) pr.Op {
				return pr.Op{K: "async", ID: n.id("a"), Meth: true, Body: []pr.Stmt{{K: "try", ID: n.id("c"), NoCatch: true, Body: []pr.Stmt{{K: "return", X: eInt(8)}}, Fin: []pr.Stmt{{K: "await", ID: n.id("w"), X: n.values(level)[i]()}}}}}
			})
		}
		for _, x := range s.assigned {
			x := x
			emit(func(n *estate) pr.Op {
				return pr.Op{K: "patch", ID: n.id("m"), V: &pr.Val{K: "var", I: x}}
			})
			emit(func(n *estate) pr.Op {
				return pr.Op{K: "noctor", V: &pr.Val{K: "var", I: x}}
			})
		}
	}
	// combinators
	for _, x := range s.assigned {
		x := x
		emit(func(n *estate) pr.Op { return pr.Op{K: "all", Items: []pr.Val{{K: "var", I: x}, *eInt(1)}} })
		emit(func(n *estate) pr.Op { return pr.Op{K: "allSettled", Items: []pr.Val{{K: "var", I: x}}} })
		emit(func(n *estate) pr.Op { return pr.Op{K: "any", Items: []pr.Val{{K: "var", I: x}}} })
	}
	if len(s.assigned) == 2 {
		emit(func(n *estate) pr.Op { return pr.Op{K: "race", Items: []pr.Val{{K: "var", I: 0}, {K: "var", I: 1}}} })
	}
}

func enumPrograms(maxLen, level int, yield func([]pr.Op)) {
	var rec func(prefix []pr.Op, s *estate)
	rec = func(prefix []pr.Op, s *estate) {
		if len(prefix) > 0 {
			yield(prefix)
		}
		if len(prefix) == maxLen {
			return
		}
		enumOps(s, level, func(o pr.Op, n *estate) {
			rec(append(prefix[:len(prefix):len(prefix)], o), n)
		})
	}
	rec(nil, &estate{})
}

func runEnum(t *testing.T) {
	if evid.Thorough() {
		// everything of the quick tier plus the richer alphabet, and 4-op programs of the basic alphabet
		if enumPass(t, 3, 2, true) {
			enumPass(t, 4, 1, false)
		}
		return
	}
	enumPass(t, 3, 1, true)
}

// enumPass judges all programs with <=maxLen ops of alphabet level. allSplits: every program as one run, as
// one Callable call and split into two runs at every position; otherwise as one run and split in the middle.
func enumPass(t *testing.T, maxLen, level int, allSplits bool) (ok bool) {
	idx := 0
	programs, judged := 0, 0
	failed := false
	enumPrograms(maxLen, level, func(ops []pr.Op) {
		programs++
		if failed {
			return
		}
		var splits []int
		if allSplits {
			for sp := 0; sp <= len(ops); sp++ {
				splits = append(splits, sp)
			}
		} else {
			splits = []int{0}
			if len(ops) >= 2 {
				splits = append(splits, len(ops)/2)
			}
		}
		for _, split := range splits {
			idx++
			if idx%evid.NShards() != evid.Shard() {
				continue
			}
			var c pr.Case
			switch {
			case split == 0:
				c.Segs = []pr.Seg{{K: "run", Dst: -1, Ops: ops}}
			case split == len(ops):
				c.Segs = []pr.Seg{{K: "call", Dst: -1, Ops: ops}}
			default:
				c.Segs = []pr.Seg{{K: "run", Dst: -1, Ops: ops[:split]}, {K: "call", Dst: -1, Ops: ops[split:]}}
			}
			m, _ := runModel(&c)
			evid.Case(pr.Text(&c), nontrivial(&c, m))
			judged++
			if f := judge("enum", &c); f != nil {
				evid.Direct(t, f)
				if t.Failed() {
					failed = true
					return
				}
			}
		}
	})
	if evid.Shard() == 0 {
		evid.CountN(fmt.Sprintf("enum:len<=%d/level%d:programs", maxLen, level), int64(programs))
	}
	evid.CountN(fmt.Sprintf("enum:len<=%d/level%d:judged-variants", maxLen, level), int64(judged))
	if evid.Shard() == 0 {
		how := "each judged as 1 run, as 1 Callable call and split into 2 runs at every position"
		if !allSplits {
			how = "each judged as 1 run and split into run+Callable in the middle"
		}
		evid.Note(fmt.Sprintf("exhaustive: all %d DSL programs with <=%d ops over 2 promise variables (alphabet level %d), %s; shard 0 judged %d of the variants (variant index mod %d)", programs, maxLen, level, how, judged, evid.NShards()))
	}
	return !failed
}
