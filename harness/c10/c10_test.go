package c10

import (
	"encoding/json"
	"fmt"
	"os"
	"reflect"
	"runtime/debug"
	"sort"
	"strconv"
	"strings"
	"testing"

	"github.com/dop251/goja"
	"pgregory.net/rapid"

	"verifh/internal/evid"
	"verifh/internal/jsx"
	pr "verifh/internal/promref"
)

func TestMain(m *testing.M) {
	debug.SetGCPercent(400) // every case builds a fresh runtime: the default GC pacing dominates the run time
	evid.Main("C10", m)
}

// ---------------------------------------------------------------- observation

type logRec struct {
	id  string
	v   goja.Value
	has bool
}

type trackRec struct {
	op string
	p  *goja.Promise
}

type varObs struct {
	assigned bool
	p        *goja.Promise
	state    goja.PromiseState
	result   goja.Value
}

type segObs struct {
	outcome     string // ok | interrupted | <other kind>: text
	logLen      int
	trackLen    int
	jobQueue    int
	interrupted bool // the vm's interrupt flag after the call returned
	vars        [pr.NVars]varObs
}

type world struct {
	vm     *goja.Runtime
	log    []logRec
	track  []trackRec
	goRes  map[int]func(interface{}) error
	goRej  map[int]func(interface{}) error
	names  map[*goja.Promise]string
	segs   []segObs
	fmtErr string
}

func newWorld() *world {
	w := &world{vm: goja.New(), goRes: map[int]func(interface{}) error{}, goRej: map[int]func(interface{}) error{}}
	vm := w.vm
	vm.Set("log", func(call goja.FunctionCall) goja.Value {
		r := logRec{id: call.Argument(0).String()}
		if len(call.Arguments) > 1 {
			r.v, r.has = call.Arguments[1], true
		}
		w.log = append(w.log, r)
		return goja.Undefined()
	})
	vm.Set("nested", func(call goja.FunctionCall) goja.Value {
		// RunString from a host function, i.e. while another call into the runtime is active
		if _, err := vm.RunString(call.Argument(0).String()); err != nil {
			panic(err)
		}
		return goja.Undefined()
	})
	vm.Set("interruptNow", func(call goja.FunctionCall) goja.Value {
		vm.Interrupt("c10")
		return goja.Undefined()
	})
	vm.SetPromiseRejectionTracker(func(p *goja.Promise, op goja.PromiseRejectionOperation) {
		name := "?"
		switch op {
		case goja.PromiseRejectionReject:
			name = "reject"
		case goja.PromiseRejectionHandle:
			name = "handle"
		}
		w.track = append(w.track, trackRec{op: name, p: p})
	})
	return w
}

func promiseOf(v goja.Value) *goja.Promise {
	o, ok := v.(*goja.Object)
	if !ok {
		return nil
	}
	// Export() of an ordinary object reads every property (runs getters): ask for the type first
	if o.ExportType() != typePromise {
		return nil
	}
	p, _ := o.Export().(*goja.Promise)
	return p
}

func promiseOfAny(x interface{}) *goja.Promise {
	if v, ok := x.(goja.Value); ok {
		return promiseOf(v)
	}
	return nil
}

func (w *world) observe(outcome string) {
	st := goja.VerifVMState(w.vm)
	so := segObs{outcome: outcome, logLen: len(w.log), trackLen: len(w.track), jobQueue: st.JobQueue, interrupted: st.Interrupted}
	for i := 0; i < pr.NVars; i++ {
		if p := promiseOf(w.vm.Get("p" + strconv.Itoa(i))); p != nil {
			so.vars[i] = varObs{assigned: true, p: p, state: p.State(), result: p.Result()}
		}
	}
	w.segs = append(w.segs, so)
}

func outcomeOf(o jsx.Outcome) string {
	switch o.Kind {
	case "value":
		return "ok"
	case "interrupted":
		return "interrupted"
	case "exception":
		return "exception"
	}
	return o.Kind + ": " + o.Text
}

func errOutcome(err error) string {
	if err == nil {
		return "ok"
	}
	if _, ok := err.(*goja.InterruptedError); ok {
		return "interrupted"
	}
	return fmt.Sprintf("error %T: %v", err, err)
}

// goValue builds the argument of a Go-side settle call.
func (w *world) goValue(v *pr.Val) (interface{}, error) {
	if v == nil {
		return goja.Undefined(), nil
	}
	switch v.K {
	case "undef":
		return goja.Undefined(), nil
	case "int":
		return v.I, nil
	case "str":
		return v.S, nil
	case "var":
		return w.vm.Get("p" + strconv.Itoa(v.I)), nil
	case "then":
		o := jsx.RunString(w.vm, "("+pr.PrintVal(v)+")")
		if o.Kind != "value" {
			return nil, fmt.Errorf("thenable literal: %s", o.Text)
		}
		return o.Value, nil
	}
	return nil, fmt.Errorf("unsupported go value kind %s", v.K)
}

func (w *world) runSeg(c *pr.Case, i int) (harnessErr string) {
	s := &c.Segs[i]
	vm := w.vm
	switch s.K {
	case "run":
		w.observe(outcomeOf(jsx.RunString(vm, pr.PrintOps(s.Ops))))
	case "call":
		fn, ok := goja.AssertFunction(vm.Get("seg" + strconv.Itoa(i)))
		if !ok {
			return "segment function missing"
		}
		w.observe(outcomeOf(jsx.Protect(func() (goja.Value, error) { return fn(goja.Undefined()) })))
	case "acall":
		fn, ok := goja.AssertFunction(vm.Get("seg" + strconv.Itoa(i)))
		if !ok {
			return "segment function missing"
		}
		o := jsx.Protect(func() (goja.Value, error) { return fn(goja.Undefined()) })
		if o.Kind == "value" && s.Dst >= 0 {
			if err := vm.Set("p"+strconv.Itoa(s.Dst), o.Value); err != nil {
				return err.Error()
			}
		}
		w.observe(outcomeOf(o))
	case "rtnew", "ctor":
		fo := jsx.RunString(vm, pr.PrintExecutor(s))
		if fo.Kind != "value" {
			return "executor literal: " + fo.Text
		}
		o := jsx.Protect(func() (goja.Value, error) {
			if s.K == "rtnew" {
				return vm.New(vm.Get("Promise"), fo.Value)
			}
			ctor, ok := goja.AssertConstructor(vm.Get("Promise"))
			if !ok {
				return nil, fmt.Errorf("Promise is not a constructor")
			}
			return ctor(nil, fo.Value)
		})
		if o.Kind == "value" && s.Dst >= 0 {
			if err := vm.Set("p"+strconv.Itoa(s.Dst), o.Value); err != nil {
				return err.Error()
			}
		}
		w.observe(outcomeOf(o))
	case "gonew":
		o := jsx.Protect(func() (goja.Value, error) {
			p, res, rej := vm.NewPromise()
			w.goRes[s.Cap], w.goRej[s.Cap] = res, rej
			// host functions through which JS code reaches the Go resolving functions
			for name, f := range map[string]func(interface{}) error{"R": res, "J": rej} {
				f := f
				arr, _ := vm.Get(name).(*goja.Object)
				if arr == nil {
					return nil, fmt.Errorf("stash array missing")
				}
				if err := arr.Set(strconv.Itoa(s.Cap), func(call goja.FunctionCall) goja.Value {
					if err := f(call.Argument(0)); err != nil {
						panic(err)
					}
					return goja.Undefined()
				}); err != nil {
					return nil, err
				}
			}
			if s.Dst >= 0 {
				return nil, vm.Set("p"+strconv.Itoa(s.Dst), p)
			}
			return nil, nil
		})
		w.observe(outcomeOf(o))
	case "gosettle":
		arg, err := w.goValue(s.V)
		if err != nil {
			return err.Error()
		}
		if !s.Rej {
			// hand over the Go wrapper instead of the JS value: ToValue(*Promise) must give the same object
			if p := promiseOfAny(arg); p != nil {
				arg = p
			}
		}
		f := w.goRes[s.Cap]
		if s.Rej {
			f = w.goRej[s.Cap]
		}
		if f == nil {
			return "go capability missing"
		}
		o := jsx.Protect(func() (goja.Value, error) { return nil, f(arg) })
		if o.Kind == "panic" {
			w.observe(outcomeOf(o))
		} else {
			w.observe(errOutcome(o.Err))
		}
	case "callsettle":
		arg, err := w.goValue(s.V)
		if err != nil {
			return err.Error()
		}
		name := "R"
		if s.Rej {
			name = "J"
		}
		arr, _ := vm.Get(name).(*goja.Object)
		if arr == nil {
			return "stash array missing"
		}
		fn, ok := goja.AssertFunction(arr.Get(strconv.Itoa(s.Cap)))
		if !ok {
			return "stashed function missing"
		}
		o := jsx.Protect(func() (goja.Value, error) { return fn(goja.Undefined(), vm.ToValue(arg)) })
		w.observe(outcomeOf(o))
	default:
		return "bad segment kind " + s.K
	}
	return ""
}

// settleFromGo calls the resolving function of capability cap through the Go API.
func (w *world) settleFromGo(cap int, rej bool, v *pr.Val) {
	arg, err := w.goValue(v)
	if err != nil {
		panic(w.vm.NewGoError(err))
	}
	f := w.goRes[cap]
	if rej {
		f = w.goRej[cap]
	}
	if f != nil {
		if err := f(arg); err != nil {
			panic(err)
		}
		return
	}
	name := "R"
	if rej {
		name = "J"
	}
	arr, _ := w.vm.Get(name).(*goja.Object)
	fn, ok := goja.AssertFunction(arr.Get(strconv.Itoa(cap)))
	if !ok {
		panic(w.vm.NewTypeError("stashed function missing"))
	}
	if _, err := fn(goja.Undefined(), w.vm.ToValue(arg)); err != nil {
		panic(err)
	}
}

// registerNatives creates the host functions N.<id> for native handlers and native thenables.
func (w *world) registerNatives(c *pr.Case) error {
	vm := w.vm
	n := vm.NewObject()
	if err := vm.Set("N", n); err != nil {
		return err
	}
	var firstErr error
	set := func(id string, f func(goja.FunctionCall) goja.Value) {
		if err := n.Set(id, f); err != nil && firstErr == nil {
			firstErr = err
		}
	}
	pr.Walk(c, &pr.Visitor{
		Handler: func(h *pr.Handler, finally bool) {
			if !h.Native {
				return
			}
			set(h.ID, func(call goja.FunctionCall) goja.Value {
				w.log = append(w.log, logRec{id: h.ID, v: call.Argument(0), has: true})
				for i := range h.Acts {
					a := &h.Acts[i]
					w.settleFromGo(a.Cap, a.Rej, a.V)
				}
				return call.Argument(0)
			})
		},
		Thenable: func(t *pr.Thenable) {
			if !t.Native {
				return
			}
			set(t.ID, func(call goja.FunctionCall) goja.Value {
				var thisID goja.Value = goja.Undefined()
				if o, ok := call.This.(*goja.Object); ok {
					thisID = o.Get("id")
				}
				w.log = append(w.log, logRec{id: t.ID, v: thisID, has: true})
				for i := range t.Acts {
					a := &t.Acts[i]
					switch a.K {
					case "res", "rej":
						target := call.Argument(0)
						if a.K == "rej" {
							target = call.Argument(1)
						}
						fn, ok := goja.AssertFunction(target)
						if !ok {
							panic(vm.NewTypeError("native then: argument is not callable"))
						}
						arg, err := w.goValue(a.V)
						if err != nil {
							panic(vm.NewGoError(err))
						}
						if _, err := fn(goja.Undefined(), vm.ToValue(arg)); err != nil {
							panic(err)
						}
					case "settle":
						w.settleFromGo(a.Cap, a.Rej, a.V)
					}
				}
				return goja.Undefined()
			})
		},
	})
	return firstErr
}

// ---------------------------------------------------------------- formatting of engine values

func (w *world) buildNames() {
	w.names = map[*goja.Promise]string{}
	for i := 0; i < pr.NVars; i++ {
		n := "p" + strconv.Itoa(i)
		if p := promiseOf(w.vm.Get(n)); p != nil {
			if _, ok := w.names[p]; !ok {
				w.names[p] = n
			}
		}
	}
	if s, ok := w.vm.Get("S").(*goja.Object); ok {
		keys := s.Keys()
		sort.Strings(keys)
		for _, k := range keys {
			if p := promiseOf(s.Get(k)); p != nil {
				if _, ok := w.names[p]; !ok {
					w.names[p] = "S." + k
				}
			}
		}
	}
}

func (w *world) nameOf(p *goja.Promise) string {
	if n, ok := w.names[p]; ok {
		return n
	}
	return "promise"
}

func (w *world) format(v goja.Value) (s string) {
	defer func() {
		if x := recover(); x != nil {
			w.fmtErr = fmt.Sprint(x) + "\n" + string(debug.Stack())
			s = "?panic"
		}
	}()
	return w.format1(v, 0)
}

func (w *world) format1(v goja.Value, depth int) string {
	if v == nil {
		return "<none>"
	}
	if depth > 6 {
		return "?deep"
	}
	if goja.IsUndefined(v) {
		return "undefined"
	}
	if goja.IsNull(v) {
		return "null"
	}
	o, ok := v.(*goja.Object)
	if !ok {
		switch x := v.Export().(type) {
		case int64:
			return strconv.FormatInt(x, 10)
		case string:
			return strconv.Quote(x)
		default:
			return fmt.Sprintf("?%T(%v)", x, x)
		}
	}
	if p := promiseOf(o); p != nil {
		return w.nameOf(p)
	}
	switch o.ClassName() {
	case "Array":
		n := int(o.Get("length").ToInteger())
		parts := make([]string, n)
		for i := 0; i < n; i++ {
			parts[i] = w.format1(o.Get(strconv.Itoa(i)), depth+1)
		}
		return "[" + strings.Join(parts, ",") + "]"
	case "Error":
		name := o.Get("name").String()
		if name == "AggregateError" {
			return name + w.format1(o.Get("errors"), depth+1)
		}
		return name
	case "Function":
		return "function"
	}
	if st := o.Get("status"); st != nil && !goja.IsUndefined(st) {
		key := "value"
		if st.String() == "rejected" {
			key = "reason"
		}
		return "{" + st.String() + ":" + w.format1(o.Get(key), depth+1) + "}"
	}
	if id := o.Get("id"); id != nil && !goja.IsUndefined(id) {
		return id.String()
	}
	return "?object"
}

func (w *world) formatLog(from, to int) []string {
	out := make([]string, 0, to-from)
	for _, e := range w.log[from:to] {
		if e.has {
			out = append(out, e.id+":"+w.format(e.v))
		} else {
			out = append(out, e.id)
		}
	}
	return out
}

func (w *world) formatTrack(from, to int) []string {
	anon := map[*goja.Promise]int{}
	out := []string{}
	for i, e := range w.track[:to] {
		name := w.nameOf(e.p)
		if name == "promise" {
			n, ok := anon[e.p]
			if !ok {
				n = len(anon) + 1
				anon[e.p] = n
			}
			name = "anon" + strconv.Itoa(n)
		}
		if i >= from {
			out = append(out, e.op+":"+name)
		}
	}
	return out
}

func stateName(s goja.PromiseState) string {
	switch s {
	case goja.PromiseStatePending:
		return "pending"
	case goja.PromiseStateFulfilled:
		return "fulfilled"
	case goja.PromiseStateRejected:
		return "rejected"
	}
	return "?"
}

// ---------------------------------------------------------------- judge

func idClass(entry string) string {
	id := entry
	if i := strings.IndexByte(id, ':'); i >= 0 {
		id = id[:i]
	}
	return strings.TrimRight(id, "0123456789")
}

func firstDiff(a, b []string) int {
	for i := 0; i < len(a) && i < len(b); i++ {
		if a[i] != b[i] {
			return i
		}
	}
	if len(a) != len(b) {
		if len(a) < len(b) {
			return len(a)
		}
		return len(b)
	}
	return -1
}

func at(a []string, i int) string {
	if i < len(a) {
		return a[i]
	}
	return "<end>"
}

func runModel(c *pr.Case) (m *pr.Model, perr string) {
	defer func() {
		if x := recover(); x != nil {
			perr = fmt.Sprint(x)
		}
	}()
	return pr.Run(c), ""
}

// features is a short structural summary used to make failure keys specific.
func judge(check string, c *pr.Case) *evid.Failure {
	fail := func(key, msg string, exp, obs interface{}) *evid.Failure {
		return &evid.Failure{Check: check, Key: key, Msg: msg + "\n" + pr.Text(c), Case: c, Expected: exp, Observed: obs}
	}
	m, perr := runModel(c)
	if perr != "" {
		return fail("harness:model-panic", "model panicked: "+perr, nil, nil)
	}
	if m.Hazard != "" {
		return fail("harness:hazard", "case is outside the DSL's well-formedness rules: "+m.Hazard, nil, nil)
	}
	w := newWorld()
	if o := jsx.RunString(w.vm, pr.PrintSetup(c)); o.Kind != "value" {
		return fail("harness:setup", "setup script failed: "+o.Text, nil, nil)
	}
	if err := w.registerNatives(c); err != nil {
		return fail("harness:natives", "registering host functions failed: "+err.Error(), nil, nil)
	}
	for i := range c.Segs {
		if herr := w.runSeg(c, i); herr != "" {
			return fail("harness:seg", fmt.Sprintf("segment %d (%s): %s", i, c.Segs[i].K, herr), nil, nil)
		}
	}
	w.buildNames()
	prevLog, prevTrack := 0, 0
	for i := range c.Segs {
		so := &w.segs[i]
		cp := &m.Checks[i]
		kind := c.Segs[i].K
		where := fmt.Sprintf("segment %d (%s)", i, kind)
		expLog := m.FormatLog(prevLog0(m, i), cp.LogLen)
		obsLog := w.formatLog(prevLog, so.logLen)
		expTrack := m.FormatTrack(prevTrack0(m, i), cp.TrackLen)
		obsTrack := w.formatTrack(prevTrack, so.trackLen)
		prevLog, prevTrack = so.logLen, so.trackLen

		if strings.HasPrefix(so.outcome, "panic") {
			return fail("panic:"+kind, where+": Go panic escaped: "+so.outcome, "no panic", so.outcome)
		}
		// (5) / outcome
		expOutcome := "ok"
		if cp.Interrupted {
			expOutcome = "interrupted"
		} else if cp.Threw {
			expOutcome = "exception"
		}
		if so.outcome != expOutcome {
			// show the log difference too: it usually explains the outcome
			return fail("outcome:"+kind+":"+expOutcome, fmt.Sprintf("%s: call returned %q, expected %q; log so far %v, model %v", where, so.outcome, expOutcome, obsLog, expLog), expOutcome, so.outcome)
		}
		// (1) log
		if d := firstDiff(expLog, obsLog); d >= 0 {
			key := "log:" + idClass(at(expLog, d)) + "/" + idClass(at(obsLog, d))
			if cp.Interrupted || anyInterruptedBefore(m, i) {
				key = "log-intr:" + idClass(at(expLog, d)) + "/" + idClass(at(obsLog, d))
			}
			return fail(key, fmt.Sprintf("%s: log differs at entry %d: spec order gives %q, engine logged %q\n spec:   %v\n engine: %v", where, d, at(expLog, d), at(obsLog, d), expLog, obsLog), expLog, obsLog)
		}
		// (3) tracker
		if d := firstDiff(expTrack, obsTrack); d >= 0 {
			key := "tracker:" + strings.SplitN(at(expTrack, d), ":", 2)[0] + "/" + strings.SplitN(at(obsTrack, d), ":", 2)[0]
			return fail(key, fmt.Sprintf("%s: rejection tracker calls differ at %d: HostPromiseRejectionTracker sequence %v, engine %v", where, d, expTrack, obsTrack), expTrack, obsTrack)
		}
		// (4) queue empty, interrupt flag clear
		if so.jobQueue != 0 {
			return fail("queue:"+kind+":"+expOutcome, fmt.Sprintf("%s: job queue holds %d jobs after the outermost call returned (%s)", where, so.jobQueue, so.outcome), 0, so.jobQueue)
		}
		if so.interrupted {
			return fail("intrflag:"+kind, where+": interrupt flag still set after the outermost call returned", false, true)
		}
		// (2) states
		for v := 0; v < pr.NVars; v++ {
			e, o := cp.Vars[v], so.vars[v]
			if e.Assigned != o.assigned {
				return fail("harness:var", fmt.Sprintf("%s: p%d assigned: model %v engine %v", where, v, e.Assigned, o.assigned), nil, nil)
			}
			if !e.Assigned {
				continue
			}
			es, os_ := pr.StateName(e.State), stateName(o.state)
			if es != os_ {
				return fail("state:"+es+"/"+os_, fmt.Sprintf("%s: p%d.State() is %s, spec says %s", where, v, os_, es), es, os_)
			}
			er, or := m.Format(e.Result), w.format(o.result)
			if er != or {
				return fail("result:"+es, fmt.Sprintf("%s: p%d.Result() is %s, spec says %s %s", where, v, or, er, w.fmtErr), er, or)
			}
		}
	}
	if w.fmtErr != "" {
		return fail("harness:format", "formatting an engine value panicked: "+w.fmtErr, nil, nil)
	}
	return nil
}

func prevLog0(m *pr.Model, i int) int {
	if i == 0 {
		return 0
	}
	return m.Checks[i-1].LogLen
}

func prevTrack0(m *pr.Model, i int) int {
	if i == 0 {
		return 0
	}
	return m.Checks[i-1].TrackLen
}

func anyInterruptedBefore(m *pr.Model, i int) bool {
	for j := 0; j < i; j++ {
		if m.Checks[j].Interrupted {
			return true
		}
	}
	return false
}

// ---------------------------------------------------------------- tests

func property(check string, gen func(*rapid.T) *pr.Case) func(*rapid.T) {
	return func(t *rapid.T) {
		c := gen(t)
		evid.SetCurrent(check, c)
		f := judge(check, c)
		evid.ClearCurrent()
		evid.Judge(t, f)
	}
}

func TestQuickPrograms(t *testing.T) {
	evid.Check(t, "programs", 160000, 2, property("programs", genCase))
}

func TestQuickCombinators(t *testing.T) {
	evid.Check(t, "combinators", 60000, 2, property("combinators", genCombCase))
}

func TestQuickEnum(t *testing.T) {
	runEnum(t)
}

func TestReplay(t *testing.T) {
	p := os.Getenv("VERIF_REPLAY")
	if p == "" {
		t.Skip("no VERIF_REPLAY")
	}
	check, raw, err := evid.LoadReplay(p)
	if err != nil {
		t.Fatal(err)
	}
	var c pr.Case
	if err := json.Unmarshal(raw, &c); err != nil {
		t.Fatal(err)
	}
	evid.Direct(t, judge(check, &c))
}

var typePromise = reflect.TypeOf((*goja.Promise)(nil))
