package c14

import (
	"fmt"
	"testing"

	"verifh/internal/evid"
)

// frameOptions lists every (kind, mech, var) a frame at this position can have, with the given
// option sets for script frames (try/fin) and native frames (prop), Wrap always "".
func frameOptions(callerJS, callerPrefix bool, pos int, prefixAllowed bool, maxVars int) []Frame {
	var out []Frame
	for _, k := range kindList {
		if k.prefix && !prefixAllowed {
			continue
		}
		var base []Frame
		if callerJS {
			vs := validVars(&k, callerPrefix)
			if len(vs) > maxVars {
				vs = vs[:maxVars]
			}
			for _, v := range vs {
				base = append(base, Frame{Kind: k.name, Mech: "js", Var: v})
			}
		} else {
			for _, m := range k.goMechs {
				if m == "run" {
					vs := validVars(&k, false)
					if len(vs) > maxVars {
						vs = vs[:maxVars]
					}
					for _, v := range vs {
						base = append(base, Frame{Kind: k.name, Mech: "run", Var: v})
					}
				} else {
					base = append(base, Frame{Kind: k.name, Mech: m})
				}
			}
		}
		for _, b := range base {
			if k.js {
				for _, o := range [][2]string{{"", ""}, {"rethrow", "log"}} {
					f := b
					f.Try, f.Fin = o[0], o[1]
					out = append(out, f)
				}
			} else {
				for _, p := range propOpts(k.name) {
					if p == "panicval" {
						continue
					}
					f := b
					f.Prop = p
					out = append(out, f)
				}
			}
		}
	}
	return out
}

// enumerate calls visit for every valid chain of exactly the given depth.
func enumerate(depth int, maxVars int, payloads []string, visit func(c *Case)) {
	var rec func(frames []Frame)
	rec = func(frames []Frame) {
		if len(frames) == depth {
			last := kinds[frames[len(frames)-1].Kind]
			pls := nativePayloads
			if last.js {
				pls = jsPayloads
			}
			for _, p := range pls {
				if payloads != nil && !contains(payloads, p) {
					continue
				}
				c := &Case{Frames: append([]Frame(nil), frames...), Payload: p}
				if validate(c) == "" {
					visit(c)
				}
			}
			return
		}
		pos := len(frames)
		callerJS := pos > 0 && kinds[frames[pos-1].Kind].js
		prefixAllowed := pos == 0 || kinds[frames[pos-1].Kind].prefix
		callerPrefix := pos > 0 && kinds[frames[pos-1].Kind].prefix
		for _, f := range frameOptions(callerJS, callerPrefix, pos, prefixAllowed, maxVars) {
			rec(append(frames, f))
		}
	}
	rec(nil)
}

func runExhaustive(t *testing.T, name string, depth int, maxVars int, payloads []string) {
	n, mine := 0, 0
	var firstFail *evid.Failure
	fails := map[string]int{}
	enumerate(depth, maxVars, payloads, func(c *Case) {
		n++
		if n%evid.NShards() != evid.Shard() {
			return
		}
		mine++
		evid.Case(c.Text(), nontrivial(c))
		evid.Count("exhaustive:payload:" + c.Payload)
		if f := judge(c); f != nil {
			f.Check = name
			if fails[f.Key] == 0 && !evid.Known(f.Key) {
				if firstFail == nil {
					firstFail = f
				}
				t.Logf("%s [%s] %s", name, f.Key, c.Text())
			}
			fails[f.Key]++
		}
	})
	vars := fmt.Sprintf("the first %d script invocation form(s) per kind", maxVars)
	if maxVars >= 100 {
		vars = "every script invocation form"
	}
	pls := "all payloads"
	if payloads != nil {
		pls = fmt.Sprintf("payloads %v", payloads)
	}
	evid.Note(fmt.Sprintf("exhaustive: %s enumerates all %d chains of depth %d over frame kinds x call mechanisms (%s) x "+pls+" x {no try, catch-rethrow+finally} x native propagation {panic, ret, retwrap}; this shard judged %d", name, n, depth, vars, mine))
	if firstFail != nil {
		evid.Direct(t, firstFail)
	}
}

func TestQuickExhaustive1(t *testing.T) { runExhaustive(t, "exhaustive1", 1, 100, nil) }
func TestQuickExhaustive2(t *testing.T) { runExhaustive(t, "exhaustive2", 2, 1, nil) }

func TestThoroughExhaustive2All(t *testing.T) {
	if !evid.Thorough() {
		t.Skip("thorough tier only")
	}
	runExhaustive(t, "exhaustive2all", 2, 100, nil)
}

func TestThoroughExhaustive3(t *testing.T) {
	if !evid.Thorough() {
		t.Skip("thorough tier only")
	}
	runExhaustive(t, "exhaustive3", 3, 1, depth3Payloads)
}

// one representative per payload class for the depth-3 enumeration
var depth3Payloads = []string{"jstr", "jerr", "jgoerr", "jhproxy", "itype", "jover", "pvobj", "pex", "esent", "eexc", "ferr", "intr"}
