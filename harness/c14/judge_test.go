package c14

import (
	"errors"
	"fmt"
	"runtime"
	"runtime/debug"
	"strconv"
	"strings"

	"github.com/dop251/goja"

	"verifh/internal/evid"
)

type observed struct {
	val      goja.Value
	err      error
	panicked bool
	pval     interface{}
	pstack   string
}

func (r *rt) entry() (o observed) {
	defer func() {
		if p := recover(); p != nil {
			o = observed{panicked: true, pval: p, pstack: string(debug.Stack())}
		}
	}()
	switch r.c.Frames[0].Mech {
	case "get", "str", "num", "flt", "int", "forof", "instof":
		// documented usage outside a running script: enclose in Runtime.Try
		var v goja.Value
		var err error
		if ex := r.vm.Try(func() { v, err = r.invoke(0) }); ex != nil {
			o.err = ex
		} else {
			o.val, o.err = v, err
		}
	default:
		o.val, o.err = r.invoke(0)
	}
	return
}

// safely runs f, turning a Go panic into a description.
func safely(f func()) (panicked string) {
	defer func() {
		if p := recover(); p != nil {
			panicked = fmt.Sprintf("%v", p)
			if len(panicked) > 200 {
				panicked = panicked[:200]
			}
		}
	}()
	f()
	return ""
}

func describe(v goja.Value) (s string) {
	if v == nil {
		return "<nil>"
	}
	defer func() {
		if recover() != nil {
			s = fmt.Sprintf("<%T, not printable>", v)
		}
	}()
	if o, ok := v.(*goja.Object); ok {
		return fmt.Sprintf("object %p %s", o, o.ClassName())
	}
	return fmt.Sprintf("%T %s", v.Export(), v.String())
}

// resolve maps an oracle value id to the actual value; ok=false for values only goja can name
// (GoError objects created at a reflect boundary).
func (r *rt) resolve(id string) (goja.Value, bool) {
	switch id {
	case "num":
		return r.vm.ToValue(42.5), true
	case "str":
		return r.vm.ToValue("s!"), true
	case "pvstr":
		return r.vm.ToValue("ps"), true
	case "pvnum":
		return r.vm.ToValue(-3), true
	case "undef":
		return goja.Undefined(), true
	case "null":
		return goja.Null(), true
	case "SYM":
		return r.sym, true
	case "OBJ":
		return r.obj, true
	case "OBJ2":
		return r.obj2, true
	case "GOERR":
		return r.goerr, true
	case "GOERRW":
		return r.goerrw, true
	case "nat":
		return r.natVal, r.natVal != nil
	}
	if strings.HasPrefix(id, "mk:") {
		i, _ := strconv.Atoi(id[3:])
		o := r.made[i]
		return o, o != nil
	}
	if strings.HasPrefix(id, "fresh:") {
		return nil, false
	}
	if strings.HasPrefix(id, "rep:") {
		return r.vm.ToValue("rep" + id[4:]), true
	}
	v := r.vm.Get(id) // EXP, EXPi, PRE, PROXY, HPROXY, REVOKED, FAKEGO, VALOBJ
	return v, v != nil
}

func sameValue(a, b goja.Value) bool {
	if a == nil || b == nil {
		return a == nil && b == nil
	}
	ao, aok := a.(*goja.Object)
	bo, bok := b.(*goja.Object)
	if aok || bok {
		return aok && bok && ao == bo
	}
	return a.StrictEquals(b) && a.ExportType() == b.ExportType()
}

func (r *rt) rawTopErr(e *Expect) error { return r.rawTopOf(e.RawTop, e.GoErr) }

func (r *rt) rawTopOf(rawTop, goErr string) error {
	if rawTop == "payload" {
		switch goErr {
		case "sent":
			return errSentinel
		case "wrap":
			return r.wrapE
		case "join":
			return r.joinE
		case "custom":
			return r.custE
		}
		return nil
	}
	if strings.HasPrefix(rawTop, "wrap@") {
		i, _ := strconv.Atoi(rawTop[5:])
		return r.wraps[i]
	}
	return nil
}

// checkGoErrorObject: got must be an instance of GoError whose 'value' exports to want.
func (r *rt) checkGoErrorObject(c *Case, got goja.Value, want error, where string) *evid.Failure {
	fail := func(k, msg string, args ...interface{}) *evid.Failure {
		return &evid.Failure{Check: "chains", Key: k, Msg: fmt.Sprintf(msg, args...), Case: c}
	}
	o, ok := got.(*goja.Object)
	if !ok {
		return fail("goerror:instance:"+c.Payload, "%s: the value (%s) is not a GoError object", where, describe(got))
	}
	var inst bool
	var val interface{}
	if p := safely(func() {
		if ex := r.vm.Try(func() {
			inst = r.vm.InstanceOf(o, r.object("GoError"))
			if v := o.Get("value"); v != nil {
				val = v.Export()
			}
		}); ex != nil {
			panic(ex)
		}
	}); p != "" {
		return fail("goerror:inspect:"+c.Payload, "%s: inspecting the GoError failed: %s", where, p)
	}
	if !inst {
		return fail("goerror:instance:"+c.Payload, "%s: the value (%s) is not an instance of GoError", where, describe(got))
	}
	ve, _ := val.(error)
	if want == nil || ve != want {
		return fail("goerror:value:"+c.Payload, "%s: GoError.value exports to %T %v, want the original Go error %T %v", where, val, val, want, want)
	}
	return nil
}

func judge(c *Case) *evid.Failure {
	fail := func(key, msg string, args ...interface{}) *evid.Failure {
		return &evid.Failure{Check: "chains", Key: key, Msg: fmt.Sprintf(msg, args...), Case: c}
	}
	if why := validate(c); why != "" {
		return fail("harness", "invalid case: %s", why)
	}
	exp := simulate(c)
	src := buildScript(c, exp.CatchIDs)
	r := newRT(c)
	withSrc := func(f *evid.Failure) *evid.Failure {
		if f == nil {
			return nil
		}
		f.Msg += "\n--- prelude.js ---\n" + preludeBase + " " + preludeFor(c.Payload) + "\n--- " + scriptName + " ---\n" + src
		f.Expected = exp
		return f
	}
	var declErr error
	if p := safely(func() {
		if _, declErr = r.vm.RunProgram(preludePrg(c.Payload)); declErr == nil {
			_, declErr = r.vm.RunScript(scriptName, src)
		}
	}); p != "" || declErr != nil {
		return withSrc(fail("harness", "declarations failed: %v %s", declErr, p))
	}
	obs := r.entry()
	if st := goja.VerifVMState(r.vm); st.NativeDepth != 0 {
		// bookkeeping of Go-level nesting must be back at zero whichever way the chain ended
		return withSrc(fail("idle:nativeDepth", "after the chain returned to the host the runtime still counts %d nested native calls", st.NativeDepth))
	}
	if r.bad != "" {
		return withSrc(fail("harness", "%s", r.bad))
	}
	if obs.panicked && isHarnessPanic(obs.pval) {
		return withSrc(fail("harness", "%v\n%s", obs.pval, obs.pstack))
	}
	pl := c.Payload

	// normalise a documented panic carrying a goja error into an error outcome
	err := obs.err
	viaPanic := false
	if obs.panicked {
		if pe, ok := obs.pval.(error); ok && exp.PanicOK {
			var ie *goja.InterruptedError
			var so *goja.StackOverflowError
			_, isEx := pe.(*goja.Exception)
			if isEx || errors.As(pe, &ie) || errors.As(pe, &so) {
				err = pe
				viaPanic = true
			}
		}
	}
	obsClass := func() string {
		switch {
		case obs.panicked && !viaPanic:
			return fmt.Sprintf("gopanic(%T)", obs.pval)
		case err == nil:
			return "none"
		}
		return fmt.Sprintf("%T", err)
	}()

	// ---- final outcome ----
	switch exp.Final {
	case "foreign":
		if !obs.panicked {
			return withSrc(fail("foreign:swallowed:"+pl, "a non-goja Go panic in a native frame did not reach the host as a panic: got %s (%v)", obsClass, err))
		}
		ok := false
		switch exp.Foreign {
		case "fstr":
			s, is := obs.pval.(string)
			ok = is && s == "boom"
		case "ferr":
			e, is := obs.pval.(error)
			ok = is && e == errForeign
		case "frt":
			e, is := obs.pval.(runtime.Error)
			ok = is && strings.Contains(e.Error(), "nil map")
		}
		if !ok {
			return withSrc(fail("foreign:converted:"+pl, "the host recovered %T (%v) instead of the original panic value", obs.pval, obs.pval))
		}
		return nil // nothing is asserted about script observations or runtime reuse
	case "any":
		if _, isEx := obs.pval.(*goja.Exception); obs.panicked && !isEx {
			return withSrc(fail("gopanic:"+pl, "Go panic %v\n%s", obs.pval, obs.pstack))
		}
		return nil
	}
	if obs.panicked && !viaPanic {
		return withSrc(fail("gopanic:"+pl, "expected %s but a Go panic reached the host: %T %v\n%s", exp.Final, obs.pval, obs.pval, obs.pstack))
	}

	// ---- script observations ----
	if f := r.checkLogs(c, exp); f != nil {
		return withSrc(f)
	}

	switch exp.Final {
	case "none":
		if err != nil {
			return withSrc(fail("final:none:"+pl, "expected normal completion, got %s: %v", obsClass, errText(err)))
		}
		if exp.Promise {
			return withSrc(r.checkPromise(c, exp, obs.val))
		}
		return nil
	case "uncatch":
		if err == nil {
			return withSrc(fail("uncatchable:lost:"+pl, "expected an uncatchable %s error at the host, the call completed normally", exp.Unc))
		}
		if p := safely(func() { _ = err.Error() }); p != "" {
			return withSrc(fail("errstring:"+pl, "err.Error() panicked: %s", p))
		}
		if exp.Unc == "over" {
			so, direct := err.(*goja.StackOverflowError)
			if exp.UncWrapped {
				direct = errors.As(err, &so)
			}
			if !direct {
				return withSrc(fail("uncatchable:type:"+pl, "expected *StackOverflowError, got %s: %v", obsClass, errText(err)))
			}
			return nil
		}
		ie, direct := err.(*goja.InterruptedError)
		if exp.UncWrapped {
			direct = errors.As(err, &ie)
		}
		if !direct {
			return withSrc(fail("uncatchable:type:"+pl, "expected *InterruptedError, got %s: %v", obsClass, errText(err)))
		}
		if exp.Unc == "intr" {
			if s, ok := ie.Value().(string); !ok || s != "TOKEN" {
				return withSrc(fail("uncatchable:value:"+pl, "InterruptedError.Value() = %v, want the token passed to Interrupt", ie.Value()))
			}
		} else {
			if e, ok := ie.Value().(error); !ok || e != errToken {
				return withSrc(fail("uncatchable:value:"+pl, "InterruptedError.Value() = %v, want the token passed to Interrupt", ie.Value()))
			}
			if !errors.Is(err, errToken) {
				return withSrc(fail("uncatchable:unwrap:"+pl, "errors.Is(err, token) is false for an error token"))
			}
		}
		if p := safely(func() { _ = ie.String() }); p != "" {
			return withSrc(fail("errstring:"+pl, "InterruptedError.String() panicked: %s", p))
		}
		return nil
	}

	// throw / raw
	if exp.Promise {
		if err != nil {
			return withSrc(fail("final:promise:"+pl, "expected a promise, got %s: %v", obsClass, errText(err)))
		}
		return withSrc(r.checkPromise(c, exp, obs.val))
	}
	if err == nil {
		return withSrc(fail("final:lost:"+pl, "expected an error carrying %s at the host, the call completed normally", exp.Val))
	}
	if p := safely(func() { _ = err.Error() }); p != "" {
		return withSrc(fail("errstring:"+pl, "err.Error() panicked: %s", p))
	}
	if exp.Final == "raw" {
		// an ExportTo'd func with an error result called by the harness: the GoError's value itself is returned
		want := r.rawTopErr(exp)
		if want == nil || err != want {
			return withSrc(fail("raw:identity:"+pl, "ExportTo'd func returned %T %v, want the Go error held by the GoError (%v)", err, errText(err), want))
		}
		return withSrc(r.checkGoErr(c, exp, err))
	}
	ex, ok := err.(*goja.Exception)
	if !ok {
		return withSrc(fail("final:type:"+pl, "expected *Exception, got %s: %v", obsClass, errText(err)))
	}
	if p := safely(func() { _ = ex.String() }); p != "" {
		return withSrc(fail("errstring:"+pl, "Exception.String() panicked: %s", p))
	}
	if f := r.checkValue(c, exp, ex.Value(), "final"); f != nil {
		return withSrc(f)
	}
	if f := r.checkGoErr(c, exp, err); f != nil {
		return withSrc(f)
	}
	if exp.StackKnown {
		st := ex.Stack()
		if len(st) == 0 {
			return withSrc(fail("stack:empty:"+pl, "Exception.Stack() is empty, want top frame at %s:%d", scriptName, exp.Line))
		}
		top := st[0]
		pos := top.Position()
		if top.SrcName() != scriptName || pos.Line != exp.Line {
			return withSrc(fail("stack:position:"+pl, "Stack()[0] is %s at %s:%d, want the throw site %v at %s:%d", top.FuncName(), top.SrcName(), pos.Line, exp.Fns, scriptName, exp.Line))
		}
		if len(exp.Fns) > 0 && !contains(exp.Fns, top.FuncName()) {
			return withSrc(fail("stack:funcname:"+pl, "Stack()[0].FuncName() = %q at line %d, want one of %v", top.FuncName(), pos.Line, exp.Fns))
		}
	}
	return nil
}

func errText(err error) (s string) {
	if err == nil {
		return "<nil>"
	}
	if p := safely(func() { s = err.Error() }); p != "" {
		return "<Error() panicked: " + p + ">"
	}
	if len(s) > 300 {
		s = s[:300] + "..."
	}
	return s
}

func (r *rt) checkLogs(c *Case, exp *Expect) *evid.Failure {
	pl := c.Payload
	fail := func(key, msg string, args ...interface{}) *evid.Failure {
		return &evid.Failure{Check: "chains", Key: key, Msg: fmt.Sprintf(msg, args...), Case: c}
	}
	if exp.LooseLogs {
		return nil
	}
	show := func() string {
		var sb strings.Builder
		for _, l := range r.logs {
			fmt.Fprintf(&sb, " (%d,%s,%s)", l.Frame, l.Kind, describe(l.Val))
		}
		return sb.String()
	}
	if exp.Final == "uncatch" && len(r.logs) > 0 {
		return fail("uncatchable:observed:"+exp.Unc, "an uncatchable %s condition was observed by script catch/finally blocks:%s", exp.Unc, show())
	}
	if len(r.logs) != len(exp.Logs) {
		return fail("logs:count:"+pl, "catch/finally blocks logged%s, expected %v", show(), exp.Logs)
	}
	fresh := map[string]goja.Value{}
	for i, want := range exp.Logs {
		got := r.logs[i]
		if got.Frame != want.Frame || got.Kind != want.Kind {
			return fail("logs:order:"+pl, "catch/finally blocks logged%s, expected %v", show(), exp.Logs)
		}
		if want.Kind != "c" {
			continue
		}
		if f := r.checkIdentity(c, want.Val, got.Val, fresh, fmt.Sprintf("catch block of frame %d", want.Frame), "catch"); f != nil {
			return f
		}
		if want.GoInst {
			if f := r.checkGoErrorObject(c, got.Val, r.rawTopOf(want.RawTop, want.GoErr), fmt.Sprintf("catch block of frame %d", want.Frame)); f != nil {
				return f
			}
		}
		if got.Same != nil && !got.Same.ToBoolean() {
			return fail("identity:catch-js:"+pl, "in the catch block of frame %d, e === %s was false (e is %s)", want.Frame, idExpr(want.Val), describe(got.Val))
		}
	}
	// a value goja created at a boundary must be the same object for all observers up to the next
	// replacement: the final value is compared against these in checkValue
	r.freshSeen = fresh
	return nil
}

func (r *rt) checkIdentity(c *Case, id string, got goja.Value, fresh map[string]goja.Value, where, key string) *evid.Failure {
	fail := func(k, msg string, args ...interface{}) *evid.Failure {
		return &evid.Failure{Check: "chains", Key: k, Msg: fmt.Sprintf(msg, args...), Case: c}
	}
	if got == nil {
		return fail("identity:"+key+":"+c.Payload, "%s received no value, want %s", where, id)
	}
	want, known := r.resolve(id)
	if known {
		if !sameValue(want, got) {
			return fail("identity:"+key+":"+c.Payload, "%s received %s, want the very value %s (%s)", where, describe(got), id, describe(want))
		}
		return nil
	}
	if prev, seen := fresh[id]; seen {
		if !sameValue(prev, got) {
			return fail("identity:"+key+":"+c.Payload, "%s received %s, an earlier observer of the same exception received %s", where, describe(got), describe(prev))
		}
	} else {
		fresh[id] = got
	}
	if _, ok := got.(*goja.Object); !ok {
		return fail("identity:"+key+":"+c.Payload, "%s received %s, want an object created by the engine", where, describe(got))
	}
	return nil
}

// checkValue checks the value the host finally sees (Exception.Value() or the rejection value).
func (r *rt) checkValue(c *Case, exp *Expect, got goja.Value, key string) *evid.Failure {
	fail := func(k, msg string, args ...interface{}) *evid.Failure {
		return &evid.Failure{Check: "chains", Key: k, Msg: fmt.Sprintf(msg, args...), Case: c}
	}
	fresh := r.freshSeen
	if fresh == nil {
		fresh = map[string]goja.Value{}
	}
	if f := r.checkIdentity(c, exp.Val, got, fresh, "the host", key); f != nil {
		return f
	}
	if exp.Ctor != "" {
		var inst bool
		if p := safely(func() {
			if ex := r.vm.Try(func() { inst = r.vm.InstanceOf(got, r.object(exp.Ctor)) }); ex != nil {
				panic(ex)
			}
		}); p != "" || !inst {
			return fail("engine-error:class:"+c.Payload, "the value (%s) is not an instance of %s %s", describe(got), exp.Ctor, p)
		}
	}
	if exp.GoInst {
		if f := r.checkGoErrorObject(c, got, r.rawTopErr(exp), "at the host"); f != nil {
			return f
		}
	}
	return nil
}

// checkGoErr: errors.Is / errors.As / errors.Unwrap on the error the host sees.
func (r *rt) checkGoErr(c *Case, exp *Expect, err error) *evid.Failure {
	pl := c.Payload
	fail := func(k, msg string, args ...interface{}) *evid.Failure {
		return &evid.Failure{Check: "chains", Key: k, Msg: fmt.Sprintf(msg, args...), Case: c}
	}
	var isSent, isB, asCust bool
	var cust *customErr
	var chainSent bool
	if p := safely(func() {
		isSent = errors.Is(err, errSentinel)
		isB = errors.Is(err, errSentinelB)
		asCust = errors.As(err, &cust)
		for e, k := err, 0; e != nil && k < 64; e, k = errors.Unwrap(e), k+1 {
			if e == errSentinel {
				chainSent = true
			}
		}
	}); p != "" {
		return fail("errors:panic:"+pl, "errors.Is/As/Unwrap on the returned error panicked: %s", p)
	}
	wantSent := exp.GoErr == "sent" || exp.GoErr == "wrap" || exp.GoErr == "join"
	if isSent != wantSent {
		return fail("errors.Is:"+pl, "errors.Is(err, sentinel) = %v, want %v (payload Go error class %q)", isSent, wantSent, exp.GoErr)
	}
	if isB != (exp.GoErr == "join") {
		return fail("errors.Is:"+pl, "errors.Is(err, sentinelB) = %v, want %v", isB, exp.GoErr == "join")
	}
	wantChain := exp.GoErr == "sent" || exp.GoErr == "wrap"
	if chainSent != wantChain {
		return fail("errors.Unwrap:"+pl, "repeated errors.Unwrap reaches the sentinel: %v, want %v", chainSent, wantChain)
	}
	if asCust != (exp.GoErr == "custom") {
		return fail("errors.As:"+pl, "errors.As(err, *customErr) = %v, want %v", asCust, exp.GoErr == "custom")
	}
	if asCust && cust != r.custE {
		return fail("errors.As:"+pl, "errors.As found a different *customErr")
	}
	return nil
}

func (r *rt) checkPromise(c *Case, exp *Expect, v goja.Value) *evid.Failure {
	pl := c.Payload
	fail := func(k, msg string, args ...interface{}) *evid.Failure {
		return &evid.Failure{Check: "chains", Key: k, Msg: fmt.Sprintf(msg, args...), Case: c}
	}
	if v == nil {
		return fail("promise:missing:"+pl, "the outermost async frame returned no value")
	}
	p, ok := v.Export().(*goja.Promise)
	if !ok {
		return fail("promise:missing:"+pl, "the outermost async frame returned %s, not a promise", describe(v))
	}
	switch exp.Final {
	case "none":
		if p.State() != goja.PromiseStateFulfilled {
			return fail("promise:state:"+pl, "promise state %v, want fulfilled (result %s)", p.State(), describe(p.Result()))
		}
	default:
		if p.State() != goja.PromiseStateRejected {
			return fail("promise:state:"+pl, "promise state %v, want rejected with %s", p.State(), exp.Val)
		}
		if f := r.checkValue(c, exp, p.Result(), "rejection"); f != nil {
			return f
		}
	}
	return nil
}
