package c14

import (
	"encoding/json"
	"os"
	"testing"
)

// TestCase judges one case given as JSON in VERIF_CASE (development aid).
func TestCase(t *testing.T) {
	js := os.Getenv("VERIF_CASE")
	if js == "" {
		t.Skip("no VERIF_CASE")
	}
	var c Case
	if err := json.Unmarshal([]byte(js), &c); err != nil {
		t.Fatal(err)
	}
	if f := judge(&c); f != nil {
		t.Fatalf("[%s] %s", f.Key, f.Msg)
	}
	exp := simulate(&c)
	b, _ := json.Marshal(exp)
	t.Logf("ok; expectation %s\n%s", b, buildScript(&c, exp.CatchIDs))
}
