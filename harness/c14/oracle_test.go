package c14

import "strconv"

// The oracle is computed from the chain description alone. It follows the property text and goja's
// documentation (README "Exceptions", the ExportTo doc comment on functions, the doc comments of
// Interrupt / SetMaxCallStackSize / Try / Object.Get), never the interpreter.

type sig struct {
	kind string // none, throw (a script-catchable exception carrying val), raw (a plain Go error travelling between Go frames), uncatch, foreign, pend (interrupt requested, not yet delivered)
	via  string // in Go context: "err" (returned error) or "panic"
	val  string // value id
	// properties of val
	errObj bool   // an Error object: goja documents/reuses the stack captured when it was created
	goInst bool   // an instance of GoError carrying a Go error
	goerr  string // class of the payload Go error still reachable by errors.Is/As: sent, wrap, join, custom
	rawTop string // which Go error is GoError.value: "payload" or "wrap@i"
	// top stack frame, when the property fixes it
	stackKnown bool
	line       int
	fns        []string
	unc        string // intr, intre, over
	uncWrapped bool   // a native frame wrapped the uncatchable error with fmt.Errorf("%w")
	foreign    string
	ctor       string // the value must be an instance of this built-in error constructor (errors raised by the engine)
}

type LogExp struct {
	Frame  int    `json:"frame"`
	Kind   string `json:"kind"`
	Val    string `json:"val,omitempty"`
	GoInst bool   `json:"go_inst,omitempty"` // the caught value is a GoError whose value is the Go error named by GoErr/RawTop
	GoErr  string `json:"go_err,omitempty"`
	RawTop string `json:"raw_top,omitempty"`
}

type Expect struct {
	Logs       []LogExp `json:"logs"`
	LooseLogs  bool     `json:"loose_logs,omitempty"`
	Final      string   `json:"final"` // none, throw, raw, uncatch, foreign, any
	Promise    bool     `json:"promise,omitempty"`
	PanicOK    bool     `json:"panic_ok,omitempty"`
	Val        string   `json:"val,omitempty"`
	GoInst     bool     `json:"go_inst,omitempty"`
	GoErr      string   `json:"go_err,omitempty"`
	RawTop     string   `json:"raw_top,omitempty"`
	StackKnown bool     `json:"stack_known,omitempty"`
	Line       int      `json:"line,omitempty"`
	Fns        []string `json:"fns,omitempty"`
	Unc        string   `json:"unc,omitempty"`
	UncWrapped bool     `json:"unc_wrapped,omitempty"`
	Foreign    string   `json:"foreign,omitempty"`
	Ctor       string   `json:"ctor,omitempty"`
	CatchIDs   []string `json:"catch_ids"`
}

// throwSiteNames lists the acceptable FuncName() values of the top stack frame for a throw statement
// placed in the body of frame i (nil = not asserted).
func throwSiteNames(kind string, i int, innermostRaise bool) []string {
	is := strconv.Itoa(i)
	switch kind {
	case "ctor", "field":
		return nil // the frame name of a class constructor / field initialiser is not specified anywhere
	case "getter":
		return []string{"f" + is, "get f" + is}
	case "setter":
		return []string{"f" + is, "set f" + is}
	case "ystar":
		if innermostRaise {
			return []string{"n" + is}
		}
		return []string{"f" + is}
	case "then":
		return nil // not observable: the rejection has no stack
	}
	return []string{"f" + is}
}

func initialSignal(c *Case) sig {
	n := len(c.Frames)
	last := c.Frames[n-1]
	here := func(s sig) sig {
		s.stackKnown = true
		s.line = frameLine(n - 1)
		s.fns = throwSiteNames(last.Kind, n-1, true)
		return s
	}
	switch c.Payload {
	case "jnum":
		return here(sig{kind: "throw", val: "num"})
	case "jstr":
		return here(sig{kind: "throw", val: "str"})
	case "jundef":
		return here(sig{kind: "throw", val: "undef"})
	case "jnull":
		return here(sig{kind: "throw", val: "null"})
	case "jsym":
		return here(sig{kind: "throw", val: "SYM"})
	case "jobj":
		return here(sig{kind: "throw", val: "OBJ"})
	case "jfresh", "jvalnull", "jthenable":
		return here(sig{kind: "throw", val: "EXP"})
	case "jerr", "jtype", "jrange", "jcustom":
		return here(sig{kind: "throw", val: "EXP", errObj: true})
	case "jpre":
		return sig{kind: "throw", val: "PRE", errObj: true}
	case "jgoerr":
		return sig{kind: "throw", val: "GOERR", errObj: true, goInst: true, goerr: "sent", rawTop: "payload"}
	case "jgoerrw":
		return sig{kind: "throw", val: "GOERRW", errObj: true, goInst: true, goerr: "wrap", rawTop: "payload"}
	case "jproxy":
		return here(sig{kind: "throw", val: "PROXY"})
	case "jhproxy":
		return here(sig{kind: "throw", val: "HPROXY"})
	case "jrevoked":
		return here(sig{kind: "throw", val: "REVOKED"})
	case "jfakego":
		return here(sig{kind: "throw", val: "FAKEGO"})
	case "jvalobj":
		return here(sig{kind: "throw", val: "VALOBJ"})
	case "jover", "jovern":
		return sig{kind: "uncatch", unc: "over"}
	case "itype":
		return here(sig{kind: "throw", val: "fresh:p", errObj: true, ctor: "TypeError"})
	case "iref":
		return here(sig{kind: "throw", val: "fresh:p", errObj: true, ctor: "ReferenceError"})
	case "irange":
		return sig{kind: "throw", val: "fresh:p", errObj: true, ctor: "RangeError"}
	case "isyntax":
		return sig{kind: "throw", val: "fresh:p", errObj: true, ctor: "SyntaxError"}

	case "pvstr":
		return sig{kind: "throw", via: "panic", val: "pvstr"}
	case "pvnum":
		return sig{kind: "throw", via: "panic", val: "pvnum"}
	case "pvundef":
		return sig{kind: "throw", via: "panic", val: "undef"}
	case "pvnull":
		return sig{kind: "throw", via: "panic", val: "null"}
	case "pvsym":
		return sig{kind: "throw", via: "panic", val: "SYM"}
	case "pvobj":
		return sig{kind: "throw", via: "panic", val: "OBJ"}
	case "pvtype":
		return sig{kind: "throw", via: "panic", val: "nat", errObj: true}
	case "pgoerr":
		return sig{kind: "throw", via: "panic", val: "nat", errObj: true, goInst: true, goerr: "sent", rawTop: "payload"}
	case "pex":
		return sig{kind: "throw", via: "panic", val: "OBJ2"}
	case "eexc":
		return sig{kind: "throw", via: "err", val: "OBJ2"}
	case "esent":
		return sig{kind: "raw", via: "err", goerr: "sent", rawTop: "payload"}
	case "ewrap":
		return sig{kind: "raw", via: "err", goerr: "wrap", rawTop: "payload"}
	case "ejoin":
		return sig{kind: "raw", via: "err", goerr: "join", rawTop: "payload"}
	case "ecustom":
		return sig{kind: "raw", via: "err", goerr: "custom", rawTop: "payload"}
	case "etnil":
		return sig{kind: "raw", via: "err", goerr: "tnil", rawTop: "payload"}
	case "enil":
		return sig{kind: "none"}
	case "fstr", "ferr", "frt":
		return sig{kind: "foreign", via: "panic", foreign: c.Payload}
	case "intr", "intre":
		return sig{kind: "pend", unc: c.Payload}
	}
	panic("initialSignal: " + c.Payload)
}

// goBody: what a native frame does with what its inner call (or its own payload) produced.
func goBody(i int, f Frame, s sig) sig {
	is := strconv.Itoa(i)
	switch s.kind {
	case "none", "pend":
		return s
	}
	if s.via == "panic" {
		// a Go panic passes through the frame (Runtime.Try / Runtime.ForOf re-panic the same exception)
		return s
	}
	// via == "err": the frame received an error value and forwards it as its Prop says
	switch s.kind {
	case "throw": // err is an *Exception
		switch f.Prop {
		case "panic", "ret":
			// panic(ex) / returning the *Exception from a reflect-wrapped func: passed through unchanged
		case "panicval":
			// panic(ex.Value()): same value; a non-Error value gets its stack captured anew at the native frame
			if !s.errObj {
				s.stackKnown = false
			}
		case "retwrap":
			// fmt.Errorf("%w", ex) returned from a reflect-wrapped func: a new GoError wrapping the wrapper
			s.val = "fresh:" + is
			s.errObj, s.goInst = true, true
			s.rawTop = "wrap@" + is
			s.stackKnown = false
		}
	case "raw":
		switch f.Prop {
		case "panic", "panicval":
			s.val = "mk:" + is
		case "ret":
			s.val = "fresh:" + is
		case "retwrap":
			s.val = "fresh:" + is
			s.rawTop = "wrap@" + is
		}
		s.kind = "throw"
		s.errObj, s.goInst = true, true
		s.stackKnown = false
	case "uncatch":
		if f.Prop == "retwrap" {
			s.uncWrapped = true
		}
	}
	s.via = "panic"
	return s
}

// jsTry: what the try/catch/finally of script frame i does with the completion of its inner call.
func jsTry(i int, f Frame, s sig, logs *[]LogExp, catchIDs []string) sig {
	is := strconv.Itoa(i)
	if s.kind == "pend" {
		// the interrupt is delivered when control is back in script code: before the frame executes anything else
		s = sig{kind: "uncatch", unc: s.unc}
	}
	s.via = ""
	switch s.kind {
	case "throw":
		if f.Try != "" {
			*logs = append(*logs, LogExp{Frame: i, Kind: "c", Val: s.val, GoInst: s.goInst, GoErr: s.goerr, RawTop: s.rawTop})
			catchIDs[i] = s.val
			site := func() {
				s.stackKnown = true
				s.line = frameLine(i)
				s.fns = throwSiteNames(f.Kind, i, false)
			}
			switch f.Try {
			case "rethrow":
				if !s.errObj {
					site() // a non-Error value: the stack is captured by this throw statement
				}
			case "replace":
				s = sig{kind: "throw", val: "EXP" + is, errObj: true}
				site()
			case "replprim":
				s = sig{kind: "throw", val: "rep:" + is}
				site()
			case "swallow":
				s = sig{kind: "none"}
			}
		}
		if f.Fin != "" {
			*logs = append(*logs, LogExp{Frame: i, Kind: "f"})
			if f.Fin == "ret" {
				s = sig{kind: "none"}
			}
		}
	case "none":
		if f.Fin != "" {
			*logs = append(*logs, LogExp{Frame: i, Kind: "f"})
		}
	}
	return s
}

// toGo: how a completion leaving frame i appears to a Go caller that used mech.
func toGo(mech string, s sig) sig {
	switch s.kind {
	case "none", "pend":
		s.via = ""
		return s
	case "foreign":
		s.via = "panic"
		return s
	case "throw":
		switch mech {
		case "run", "call", "ctor", "set", "new":
			s.via = "err"
		case "expe":
			s.via = "err"
			if s.goInst {
				// "instances of GoError are unwrapped, i.e. their 'value' is returned instead"
				s.kind = "raw"
				s.val = ""
				s.errObj, s.goInst = false, false
				s.stackKnown = false
			}
		default: // expn, get, str, num, flt, int, forof, instof: documented to panic with the *Exception
			s.via = "panic"
		}
		return s
	case "uncatch":
		switch mech {
		case "run", "call", "ctor", "expe", "new": // Runtime.New returns the condition as its error result, like the Constructor of AssertConstructor (fix ca4b743)
			s.via = "err"
		default:
			s.via = "panic"
		}
		return s
	}
	panic("toGo: " + s.kind)
}

func simulate(c *Case) *Expect {
	n := len(c.Frames)
	e := &Expect{CatchIDs: make([]string, n)}
	s := initialSignal(c)
	if c.Payload == "etnil" {
		e.LooseLogs = true
	}
	for i := n - 1; i >= 0; i-- {
		f := c.Frames[i]
		if kinds[f.Kind].js {
			s = jsTry(i, f, s, &e.Logs, e.CatchIDs)
		} else {
			s = goBody(i, f, s)
		}
		if i == 0 {
			break
		}
		if kinds[c.Frames[i-1].Kind].js {
			s.via = ""
			continue
		}
		s = toGo(f.Mech, s)
	}
	f0 := c.Frames[0]
	if kinds[f0.Kind].prefix && (s.kind == "none" || s.kind == "throw") {
		e.Promise = true
	} else {
		s = toGo(f0.Mech, s)
	}
	if s.kind == "pend" {
		s.kind = "none" // no script frame ever ran after the request (cannot happen in the generated domain)
	}
	e.Final = s.kind
	if c.Payload == "etnil" {
		e.Final = "any"
	}
	e.Val, e.GoInst, e.GoErr, e.RawTop = s.val, s.goInst, s.goerr, s.rawTop
	e.StackKnown, e.Line, e.Fns = s.stackKnown, s.line, s.fns
	e.Unc, e.UncWrapped, e.Foreign = s.unc, s.uncWrapped, s.foreign
	if s.kind == "throw" && s.val == "fresh:p" {
		e.Ctor = s.ctor
	}
	if s.kind != "throw" && s.kind != "raw" {
		e.GoErr, e.RawTop, e.GoInst = "", "", false
	}
	if e.Promise {
		e.StackKnown = false
	}
	switch s.kind {
	case "throw":
		e.PanicOK = f0.Mech == "expn"
	case "uncatch":
		e.PanicOK = s.via == "panic"
	}
	return e
}
