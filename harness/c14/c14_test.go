package c14

import (
	"encoding/json"
	"os"
	"runtime"
	"runtime/debug"
	"testing"

	"pgregory.net/rapid"

	"verifh/internal/evid"
)

func TestMain(m *testing.M) {
	// every case builds a fresh runtime and the property function is single-threaded: keep the collector
	// from fanning out over all cores (16 shards run side by side) and let the small heap grow a little
	runtime.GOMAXPROCS(2)
	debug.SetGCPercent(1000)
	evid.Main("C14", m)
}

func record(c *Case) {
	evid.Case(c.Text(), nontrivial(c))
	evid.Count("payload:" + c.Payload)
	evid.Count("depth:" + string(rune('0'+len(c.Frames))))
	for i, f := range c.Frames {
		evid.Count("kind:" + f.Kind)
		evid.Count("mech:" + f.Mech)
		if i > 0 {
			evid.Count("edge:" + c.Frames[i-1].Kind + ">" + f.Kind)
		}
		if f.Try != "" {
			evid.Count("try:" + f.Try)
		}
		if f.Fin != "" {
			evid.Count("fin:" + f.Fin)
		}
		if f.Wrap != "" {
			evid.Count("wrap:" + f.Wrap)
		}
		if f.Prop != "" {
			evid.Count("prop:" + f.Prop)
		}
	}
	exp := simulate(c)
	cls := exp.Final
	if exp.Promise {
		cls = "promise-" + cls
	}
	evid.Count("expect:" + cls)
	evid.Sample("expect:"+cls, c)
}

func TestQuickChains(t *testing.T) {
	evid.Check(t, "chains", 100000, 4, func(t *rapid.T) {
		c := genCase(t)
		record(c)
		evid.Judge(t, judge(c))
	})
}

func TestReplay(t *testing.T) {
	p := os.Getenv("VERIF_REPLAY")
	if p == "" {
		t.Skip("no VERIF_REPLAY")
	}
	_, raw, err := evid.LoadReplay(p)
	if err != nil {
		t.Fatal(err)
	}
	var c Case
	if err := json.Unmarshal(raw, &c); err != nil {
		t.Fatal(err)
	}
	evid.Direct(t, judge(&c))
}
