package c14

import (
	"errors"
	"fmt"
	"strconv"
	"strings"
	"sync"

	"github.com/dop251/goja"
)

// ---- Go errors used as payloads ----

var errSentinel = errors.New("c14 sentinel")
var errSentinelB = errors.New("c14 sentinel B")
var errForeign = errors.New("c14 foreign panic")
var errToken = errors.New("c14 interrupt token")

type customErr struct{ Code int }

func (e *customErr) Error() string {
	if e == nil {
		return "customErr(nil)"
	}
	return "customErr " + strconv.Itoa(e.Code)
}

const scriptName = "chain.js"
const firstFrameLine = 1 // frame i is printed on line i+firstFrameLine of chain.js (the prelude is a separate script)
const maxCallStack = 400

func fname(i int) string { return "f" + strconv.Itoa(i) }
func oname(i int) string { return "o" + strconv.Itoa(i) }

func frameLine(i int) int { return i + firstFrameLine }

// jsInv is the script expression by which a script caller (or a nested RunString) reaches frame i.
func jsInv(c *Case, i int) string {
	f := c.Frames[i]
	tmpl := kinds[f.Kind].jsVars[f.Var]
	return strings.NewReplacer("$F", fname(i), "$O", oname(i), "$G", "G"+strconv.Itoa(i)).Replace(tmpl)
}

// throwExpr is the operand of the throw statement for a script payload.
func throwExpr(p string) string {
	switch p {
	case "jnum":
		return "42.5"
	case "jstr":
		return `"s!"`
	case "jundef":
		return "undefined"
	case "jnull":
		return "null"
	case "jsym":
		return "SYM"
	case "jobj":
		return "OBJ"
	case "jfresh":
		return "(EXP = {a: 1})"
	case "jerr":
		return `(EXP = new Error("m"))`
	case "jtype":
		return `(EXP = new TypeError("m"))`
	case "jrange":
		return `(EXP = new RangeError("m"))`
	case "jcustom":
		return `(EXP = new MyErr("m"))`
	case "jpre":
		return "PRE"
	case "jgoerr":
		return "GOERR"
	case "jgoerrw":
		return "GOERRW"
	case "jproxy":
		return "PROXY"
	case "jhproxy":
		return "HPROXY"
	case "jrevoked":
		return "REVOKED"
	case "jfakego":
		return "FAKEGO"
	case "jvalobj":
		return "VALOBJ"
	case "jvalnull":
		return "(EXP = {value: null})"
	case "jthenable":
		return "(EXP = {then(res, rej) { res(1); }})"
	}
	panic("throwExpr: " + p)
}

// raiseExpr: payloads that are not throw statements but expressions whose evaluation raises.
func raiseExpr(p string) string {
	switch p {
	case "jover":
		return "(function rec() { return 1 + rec(); })()"
	case "jovern":
		return "RECN(0)"
	case "itype":
		return "null.x"
	case "iref":
		return "c14_not_defined"
	case "irange":
		return "new Array(-1)"
	case "isyntax":
		return `eval("(")`
	}
	return ""
}

// idExpr gives a script expression denoting the value with the given oracle id, or "" when the
// script cannot name it.
func idExpr(id string) string {
	switch id {
	case "num":
		return "42.5"
	case "str":
		return `"s!"`
	case "undef":
		return "undefined"
	case "null":
		return "null"
	case "pvstr":
		return `"ps"`
	case "pvnum":
		return "-3"
	case "SYM", "OBJ", "OBJ2", "EXP", "PRE", "GOERR", "GOERRW", "PROXY", "HPROXY", "REVOKED", "FAKEGO", "VALOBJ":
		return id
	}
	if strings.HasPrefix(id, "EXP") {
		return id
	}
	if strings.HasPrefix(id, "rep:") {
		return `"rep` + id[4:] + `"`
	}
	return ""
}

const preludeBase = `var EXP, EXP0, EXP1, EXP2, EXP3, EXP4, EXP5, EXP6, EXP7, G0, G1, G2, G3, G4, G5, G6, G7, r;`

// preludeFor declares only what the payload needs (every case builds a fresh runtime, so this is the hot path).
func preludeFor(payload string) string {
	switch payload {
	case "jcustom":
		return `class MyErr extends Error {}`
	case "jpre":
		return `var PRE = new RangeError("pre");`
	case "jproxy":
		return `var PROXY = new Proxy({}, {});`
	case "jhproxy":
		return `var HPROXY = new Proxy({}, {get() { throw 1; }, getPrototypeOf() { throw 2; }, has() { throw 3; }, getOwnPropertyDescriptor() { throw 4; }});`
	case "jrevoked":
		return `var REVOKED = (function() { var p = Proxy.revocable({}, {}); p.revoke(); return p.proxy; })();`
	case "jfakego":
		return `var FAKEGO = Object.create(GoError.prototype, {value: {get() { throw 5; }}});`
	case "jvalobj":
		return `var VALOBJ = {value: GOERR.value};`
	case "pex", "eexc":
		return `function thrower() { throw OBJ2; }`
	case "jovern":
		return `function recjs(d) { try { return RECN(d + 1); } catch (e) { L(90, "c", e); throw e; } finally { L(90, "f"); } }`
	}
	return ""
}

var preludeMu sync.Mutex
var preludePrgs = map[string]*goja.Program{}

func preludePrg(payload string) *goja.Program {
	preludeMu.Lock()
	defer preludeMu.Unlock()
	p := preludePrgs[payload]
	if p == nil {
		p = goja.MustCompile("prelude.js", preludeBase+" "+preludeFor(payload), false)
		preludePrgs[payload] = p
	}
	return p
}

// buildScript prints the declarations, one frame per line.
// catchIDs[i] is the oracle's id of the value frame i's catch block receives ("" when it never runs).
func buildScript(c *Case, catchIDs []string) string {
	var sb strings.Builder
	n := len(c.Frames)
	for i, f := range c.Frames {
		k := kinds[f.Kind]
		if !k.js {
			sb.WriteString("// native frame " + strconv.Itoa(i) + " " + f.Kind + "\n")
			continue
		}
		is := strconv.Itoa(i)
		F, O := fname(i), oname(i)
		// core statement
		var core, coreExpr string // coreExpr: expression form for 'then'
		isThrow := false
		if i == n-1 {
			if x := raiseExpr(c.Payload); x != "" {
				coreExpr = x
				core = "var r = " + coreExpr + ";"
			} else {
				core = "throw " + throwExpr(c.Payload) + ";"
				isThrow = true
			}
		} else {
			coreExpr = jsInv(c, i+1)
			if k.prefix && f.Kind != "then" {
				coreExpr = "await (" + coreExpr + ")"
			}
			core = "var r = " + coreExpr + ";"
		}
		same := ""
		if x := idExpr(catchIDs[i]); x != "" {
			same = ", e === " + x
		}
		action := ""
		switch f.Try {
		case "rethrow":
			action = " throw e;"
		case "replace":
			action = " throw (EXP" + is + ` = new Error("r` + is + `"));`
		case "replprim":
			action = ` throw "rep` + is + `";`
		}
		catchBody := `L(` + is + `, "c", e` + same + `);` + action
		ret := ""
		if k.ret != "" {
			ret = " return " + k.ret + ";"
		}
		wrapTry := func(stmt string) string {
			if f.Try == "" && f.Fin == "" {
				return stmt
			}
			s := "try { " + stmt + " }"
			if f.Try != "" {
				s += " catch (e) { " + catchBody + " }"
			}
			switch f.Fin {
			case "log":
				s += ` finally { L(` + is + `, "f"); }`
			case "ret":
				r := "return;"
				if k.ret != "" {
					r = "return " + k.ret + ";"
				}
				s += ` finally { L(` + is + `, "f"); ` + r + ` }`
			}
			return s
		}
		body := wrapTry(core) + ret
		switch f.Kind {
		case "fn", "cb":
			fmt.Fprintf(&sb, "function %s(a, b) { %s }", F, body)
		case "arrow":
			fmt.Fprintf(&sb, "var %s = () => { %s };", F, body)
		case "method":
			fmt.Fprintf(&sb, "var %s = { %s() { %s } };", O, F, body)
		case "getter":
			fmt.Fprintf(&sb, "var %s = { get %s() { %s } };", O, F, body)
		case "setter":
			fmt.Fprintf(&sb, "var %s = { set %s(v) { %s } };", O, F, body)
		case "ctor":
			fmt.Fprintf(&sb, "class %s { constructor() { %s } }", F, body)
		case "gen":
			fmt.Fprintf(&sb, "function* %s() { %s }", F, body)
		case "gen2":
			fmt.Fprintf(&sb, "function* %s() { yield 0; %s }", F, body)
		case "ystar":
			fmt.Fprintf(&sb, "var %s = {[Symbol.iterator]() { return this; }, next: function n%s() { %s return {done: true}; }}; function* %s() { %s%s }", O, is, core, F, wrapTry("yield* "+O+";"), ret)
		case "pget":
			fmt.Fprintf(&sb, "var %s = new Proxy({}, {get: function %s(t, k, rc) { %s }});", O, F, body)
		case "papply":
			fmt.Fprintf(&sb, "var %s = new Proxy(function() {}, {apply: function %s(t, th, a) { %s }});", O, F, body)
		case "tostr":
			fmt.Fprintf(&sb, "var %s = {toString: function %s() { %s }};", O, F, body)
		case "valof":
			fmt.Fprintf(&sb, "var %s = {valueOf: function %s() { %s }};", O, F, body)
		case "toprim":
			fmt.Fprintf(&sb, "var %s = {[Symbol.toPrimitive]: function %s(hint) { %s }};", O, F, body)
		case "hasinst":
			fmt.Fprintf(&sb, "var %s = {[Symbol.hasInstance]: function %s(v) { %s }};", O, F, body)
		case "field":
			fmt.Fprintf(&sb, "class %s { x = (() => { %s })(); }", F, body)
		case "iter":
			fmt.Fprintf(&sb, "var %s = {[Symbol.iterator]() { return this; }, next: function %s() { %s }};", O, F, body)
		case "async":
			fmt.Fprintf(&sb, "async function %s() { %s }", F, body)
		case "asyncaw":
			fmt.Fprintf(&sb, "async function %s() { await 0; %s }", F, body)
		case "then":
			inner := "return " + coreExpr + ";"
			if isThrow {
				inner = core
			}
			chain := ""
			if f.Try != "" {
				chain += ".catch(function(e) { " + catchBody + " })"
			}
			if f.Fin == "log" {
				chain += `.finally(function() { L(` + is + `, "f"); })`
			}
			fmt.Fprintf(&sb, "function %s() { return Promise.resolve().then(function j%s() { %s })%s; }", F, is, inner, chain)
		default:
			panic("buildScript: kind " + f.Kind)
		}
		sb.WriteByte('\n')
	}
	return sb.String()
}

// ---- runtime side ----

type logRec struct {
	Frame int
	Kind  string
	Val   goja.Value
	Same  goja.Value // result of e === <expected> computed by the script, nil when not passed
}

type rt struct {
	c      *Case
	vm     *goja.Runtime
	logs   []logRec
	wraps  map[int]error        // errors built by 'retwrap' frames
	made   map[int]*goja.Object // GoError objects built by the harness in frame i
	natVal goja.Value           // the value a native payload panicked with
	rawErr error                // the Go error of an e* payload
	caught *goja.Exception      // the Exception re-panicked / returned by pex / eexc
	sym    *goja.Symbol
	obj    *goja.Object
	obj2   *goja.Object
	goerr  *goja.Object
	goerrw *goja.Object
	wrapE  error
	joinE  error
	custE  *customErr
	bad    string // harness-level trouble (not a verdict)

	freshSeen map[string]goja.Value
}

type dynObj struct {
	r *rt
	i int
}

func (d *dynObj) Get(key string) goja.Value           { v, _ := d.r.native(d.i); return v }
func (d *dynObj) Set(key string, val goja.Value) bool { return true }
func (d *dynObj) Has(key string) bool                 { return true }
func (d *dynObj) Delete(key string) bool              { return true }
func (d *dynObj) Keys() []string                      { return nil }

func newRT(c *Case) *rt {
	vm := goja.New()
	vm.SetMaxCallStackSize(maxCallStack)
	if c.Payload == "jovern" {
		vm.SetMaxCallStackSize(120) // every level of this recursion re-enters the VM from Go: keep it shallow
	}
	r := &rt{c: c, vm: vm, wraps: map[int]error{}, made: map[int]*goja.Object{}}
	r.sym = goja.NewSymbol("c14")
	r.obj = vm.NewObject()
	r.obj.Set("tag", "OBJ")
	r.obj2 = vm.NewObject()
	r.wrapE = fmt.Errorf("outer: %w", fmt.Errorf("inner: %w", errSentinel))
	r.joinE = errors.Join(errSentinel, errSentinelB)
	r.custE = &customErr{Code: 42}
	switch c.Payload {
	case "jgoerr", "jvalobj":
		r.goerr = vm.NewGoError(errSentinel)
		vm.Set("GOERR", r.goerr)
	case "jgoerrw":
		r.goerrw = vm.NewGoError(r.wrapE)
		vm.Set("GOERRW", r.goerrw)
	}
	vm.Set("SYM", r.sym)
	vm.Set("OBJ", r.obj)
	vm.Set("OBJ2", r.obj2)
	vm.Set("L", func(call goja.FunctionCall) goja.Value {
		rec := logRec{Frame: int(call.Argument(0).ToInteger()), Kind: call.Argument(1).String()}
		if len(call.Arguments) > 2 {
			rec.Val = call.Arguments[2]
		}
		if len(call.Arguments) > 3 {
			rec.Same = call.Arguments[3]
		}
		r.logs = append(r.logs, rec)
		return goja.Undefined()
	})
	if c.Payload == "jovern" {
		// recursion that alternates a native frame (calling back through a Callable) and a script frame with try/catch/finally
		vm.Set("RECN", func(call goja.FunctionCall) goja.Value {
			fn, ok := goja.AssertFunction(vm.Get("recjs"))
			if !ok {
				panic("c14 harness: recjs is not a function")
			}
			v, err := fn(goja.Undefined(), call.Argument(0))
			if err != nil {
				panic(err)
			}
			return v
		})
	}
	for i, f := range c.Frames {
		i := i
		switch f.Kind {
		case "nfc":
			vm.Set(fname(i), func(call goja.FunctionCall) goja.Value { v, _ := r.native(i); return v })
		case "rnoerr":
			// (an int parameter so that ExportTo to func() ... cannot hand back this very Go func)
			vm.Set(fname(i), func(int) goja.Value { v, _ := r.native(i); return v })
		case "rerr":
			vm.Set(fname(i), func(int) (goja.Value, error) { return r.native(i) })
		case "nctor":
			vm.Set(fname(i), func(call goja.ConstructorCall) *goja.Object { r.native(i); return nil })
		case "dyn":
			vm.Set(oname(i), vm.NewDynamicObject(&dynObj{r, i}))
		case "gpget":
			vm.Set(oname(i), vm.NewProxy(vm.NewObject(), &goja.ProxyTrapConfig{
				Get: func(target *goja.Object, property string, receiver goja.Value) goja.Value {
					v, _ := r.native(i)
					return v
				},
			}))
		case "gpapply":
			target := vm.ToValue(func(call goja.FunctionCall) goja.Value { return goja.Undefined() }).(*goja.Object)
			vm.Set(oname(i), vm.NewProxy(target, &goja.ProxyTrapConfig{
				Apply: func(target *goja.Object, this goja.Value, args []goja.Value) goja.Value {
					v, _ := r.native(i)
					return v
				},
			}))
		}
	}
	return r
}

// native is the body of native frame i.
func (r *rt) native(i int) (goja.Value, error) {
	f := r.c.Frames[i]
	var err error
	inner := func() {
		if i == len(r.c.Frames)-1 {
			_, err = r.raise()
		} else {
			_, err = r.invoke(i + 1)
		}
	}
	switch f.Wrap {
	case "try":
		if ex := r.vm.Try(inner); ex != nil {
			panic(ex)
		}
	case "forof":
		r.vm.ForOf(r.vm.NewArray(1), func(goja.Value) bool { inner(); return false })
	default:
		inner()
	}
	if err != nil {
		_, isEx := err.(*goja.Exception)
		uncatchable := false
		if !isEx {
			var ie *goja.InterruptedError
			var so *goja.StackOverflowError
			uncatchable = errors.As(err, &ie) || errors.As(err, &so)
		}
		switch f.Prop {
		case "ret":
			return nil, err
		case "retwrap":
			w := fmt.Errorf("w%d: %w", i, err)
			r.wraps[i] = w
			return nil, w
		case "panicval":
			if isEx {
				panic(err.(*goja.Exception).Value())
			}
			fallthrough
		default:
			if isEx || uncatchable {
				panic(err)
			}
			o := r.vm.NewGoError(err)
			r.made[i] = o
			panic(o)
		}
	}
	return r.vm.ToValue(7), nil
}

// raise performs a native payload.
func (r *rt) raise() (goja.Value, error) {
	vm := r.vm
	seven := vm.ToValue(7)
	switch r.c.Payload {
	case "pvstr":
		r.natVal = vm.ToValue("ps")
		panic(r.natVal)
	case "pvnum":
		r.natVal = vm.ToValue(-3)
		panic(r.natVal)
	case "pvundef":
		r.natVal = goja.Undefined()
		panic(r.natVal)
	case "pvnull":
		r.natVal = goja.Null()
		panic(r.natVal)
	case "pvsym":
		r.natVal = r.sym
		panic(r.natVal)
	case "pvobj":
		r.natVal = r.obj
		panic(r.natVal)
	case "pvtype":
		o := vm.NewTypeError("te %d", 1)
		r.natVal = o
		panic(o)
	case "pgoerr":
		o := vm.NewGoError(errSentinel)
		r.natVal = o
		panic(o)
	case "pex", "eexc":
		th, ok := goja.AssertFunction(vm.Get("thrower"))
		if !ok {
			r.bad = "thrower is not a function"
			return seven, nil
		}
		_, err := th(goja.Undefined())
		ex, ok := err.(*goja.Exception)
		if !ok {
			r.bad = fmt.Sprintf("thrower returned %T", err)
			return seven, nil
		}
		r.caught = ex
		if r.c.Payload == "pex" {
			panic(ex)
		}
		return nil, ex
	case "esent":
		r.rawErr = errSentinel
		return nil, r.rawErr
	case "ewrap":
		r.rawErr = r.wrapE
		return nil, r.rawErr
	case "ejoin":
		r.rawErr = r.joinE
		return nil, r.rawErr
	case "ecustom":
		r.rawErr = r.custE
		return nil, r.rawErr
	case "enil":
		return seven, nil
	case "etnil":
		var p *customErr
		r.rawErr = p
		return nil, p
	case "fstr":
		panic("boom")
	case "ferr":
		panic(errForeign)
	case "frt":
		var m map[string]int
		m["x"] = 1
		return seven, nil
	case "intr":
		vm.Interrupt("TOKEN")
		return seven, nil
	case "intre":
		vm.Interrupt(errToken)
		return seven, nil
	}
	r.bad = "raise: unknown payload " + r.c.Payload
	return seven, nil
}

func (r *rt) object(name string) *goja.Object {
	o, _ := r.vm.Get(name).(*goja.Object)
	if o == nil {
		panic("c14 harness: global " + name + " is not an object")
	}
	return o
}

// invoke reaches frame i from Go code (a native frame or the harness).
func (r *rt) invoke(i int) (goja.Value, error) {
	vm := r.vm
	f := r.c.Frames[i]
	k := kinds[f.Kind]
	und := goja.Undefined()
	usesObj := strings.Contains(k.jsVars[0], "$O")
	var fn goja.Value // the callable for call/expn/expe
	var this goja.Value = und
	switch f.Kind {
	case "method":
		o := r.object(oname(i))
		this = o
		fn = o.Get(fname(i))
	default:
		if usesObj {
			fn = r.object(oname(i))
		} else {
			fn = vm.Get(fname(i))
		}
	}
	switch f.Mech {
	case "run":
		if k.prefix {
			return vm.RunString(jsInv(r.c, i))
		}
		return vm.RunString("r = " + jsInv(r.c, i) + ";")
	case "call":
		switch f.Kind {
		case "gen", "gen2", "ystar":
			mk, ok := goja.AssertFunction(fn)
			if !ok {
				panic("c14 harness: not callable")
			}
			g, err := mk(und)
			if err != nil {
				return nil, err
			}
			gobj := g.(*goja.Object)
			next, _ := goja.AssertFunction(gobj.Get("next"))
			if f.Kind == "gen2" {
				if _, err := next(gobj); err != nil {
					return nil, err
				}
			}
			return next(gobj)
		case "cb":
			m, _ := goja.AssertFunction(r.object("Array").Get("prototype").(*goja.Object).Get("map"))
			return m(vm.NewArray(1), fn)
		case "tostr":
			s, _ := goja.AssertFunction(vm.Get("String"))
			return s(und, fn)
		}
		call, ok := goja.AssertFunction(fn)
		if !ok {
			panic("c14 harness: not callable: " + f.Kind)
		}
		return call(this)
	case "expn":
		var gf func() goja.Value
		if err := vm.ExportTo(fn, &gf); err != nil {
			panic("c14 harness: ExportTo: " + err.Error())
		}
		return gf(), nil
	case "expe":
		var gf func() (goja.Value, error)
		if err := vm.ExportTo(fn, &gf); err != nil {
			panic("c14 harness: ExportTo: " + err.Error())
		}
		return gf()
	case "get":
		return r.object(oname(i)).Get(fname(i)), nil
	case "set":
		return und, r.object(oname(i)).Set(fname(i), 1)
	case "ctor":
		ct, ok := goja.AssertConstructor(fn)
		if !ok {
			panic("c14 harness: not a constructor")
		}
		o, err := ct(nil)
		if err != nil {
			return nil, err
		}
		return o, nil
	case "new":
		o, err := vm.New(fn)
		if err != nil {
			return nil, err
		}
		return o, nil
	case "str":
		_ = r.object(oname(i)).String()
		return und, nil
	case "num":
		return r.object(oname(i)).ToNumber(), nil
	case "flt":
		_ = r.object(oname(i)).ToFloat()
		return und, nil
	case "int":
		_ = r.object(oname(i)).ToInteger()
		return und, nil
	case "instof":
		return vm.ToValue(vm.InstanceOf(vm.NewObject(), r.object(oname(i)))), nil
	case "forof":
		vm.ForOf(r.object(oname(i)), func(goja.Value) bool { return true })
		return und, nil
	}
	panic("c14 harness: unknown mech " + f.Mech)
}

// harnessPanic marks a panic raised by the harness itself (a bug in the check, not a verdict).
func isHarnessPanic(p interface{}) bool {
	s, ok := p.(string)
	return ok && strings.HasPrefix(s, "c14 harness:")
}
