package c14

import (
	"encoding/json"
	"fmt"
	"strings"

	"pgregory.net/rapid"
)

// Frame is one frame of the call chain. Frame 0 is called by the Go harness
// (outside any running script); frame i+1 is called by frame i; the last frame
// raises the payload.
type Frame struct {
	Kind string `json:"kind"`
	// Mech says how the caller reaches this frame. "js" = by a script expression
	// (variant Var of the kind's invocation forms) when the caller is a script
	// frame; otherwise the Go API the native caller (or the harness) uses.
	Mech string `json:"mech"`
	Var  int    `json:"var,omitempty"`
	// script frames only
	Try string `json:"try,omitempty"` // "", rethrow, replace, replprim, swallow
	Fin string `json:"fin,omitempty"` // "", log, ret
	// native frames only
	Wrap string `json:"wrap,omitempty"` // "", try, forof
	Prop string `json:"prop,omitempty"` // panic, panicval, ret, retwrap
}

type Case struct {
	Frames  []Frame `json:"frames"`
	Payload string  `json:"payload"`
}

func (c *Case) Text() string {
	b, _ := json.Marshal(c)
	return string(b)
}

type kindInfo struct {
	name   string
	js     bool // the frame's body is script code
	prefix bool // returns a promise (async function / promise reaction); only as a prefix of the chain
	// script invocation forms; $F = function name f<i>, $O = object name o<i>
	jsVars  []string
	goMechs []string
	ret     string // what a script body returns after its inner call
}

var fnCallVars = []string{"$F()", "$F.call(null)", "$F.apply(null, [])", "Reflect.apply($F, null, [])", "$F.bind(null)()", "(0, $F)()", "$F?.()", "$F``", "eval('$F()')", "new Function('return $F()')()", "Promise.resolve().then($F)", "Promise.reject(0).catch($F)", "Promise.resolve().finally($F)"}
var fnGoMechs = []string{"run", "call", "expn", "expe"}
var getVars = []string{"$O.$F", "$O['$F']", "Reflect.get($O, '$F')", "$O?.$F", "(({$F: x}) => x)($O)"}

var kindList = []kindInfo{
	{name: "fn", js: true, jsVars: fnCallVars, goMechs: fnGoMechs, ret: "7"},
	{name: "arrow", js: true, jsVars: fnCallVars, goMechs: fnGoMechs, ret: "7"},
	{name: "method", js: true, jsVars: []string{"$O.$F()", "$O['$F']()", "$O?.$F()", "$O.$F.call($O)"}, goMechs: fnGoMechs, ret: "7"},
	{name: "getter", js: true, jsVars: getVars, goMechs: []string{"run", "get"}, ret: "7"},
	{name: "setter", js: true, jsVars: []string{"$O.$F = 1", "Reflect.set($O, '$F', 1)", "Object.assign($O, {$F: 1})"}, goMechs: []string{"run", "set"}, ret: ""},
	{name: "ctor", js: true, jsVars: []string{"new $F()", "Reflect.construct($F, [])", "new $F", "new (class extends $F {})()"}, goMechs: []string{"run", "ctor", "new"}, ret: ""},
	{name: "gen", js: true, jsVars: []string{"$F().next()", "[...$F()]", "Array.from($F())", "$F().next().value"}, goMechs: []string{"run", "call"}, ret: "7"},
	{name: "gen2", js: true, jsVars: []string{"($G = $F(), $G.next(), $G.next())", "($G = $F(), $G.next(), $G.next(5).value)"}, goMechs: []string{"run", "call"}, ret: "7"},
	{name: "ystar", js: true, jsVars: []string{"$F().next()", "[...$F()]"}, goMechs: []string{"run", "call"}, ret: "7"},
	{name: "pget", js: true, jsVars: getVars, goMechs: []string{"run", "get"}, ret: "7"},
	{name: "papply", js: true, jsVars: []string{"$O()", "$O.call(null)", "Reflect.apply($O, null, [])"}, goMechs: fnGoMechs, ret: "7"},
	{name: "tostr", js: true, jsVars: []string{"String($O)", "`${$O}`", "'' + $O", "[$O].join()", "({})[$O]", "parseInt($O)", "'x'.indexOf($O)", "new Error($O)"}, goMechs: []string{"run", "str", "call"}, ret: `"s"`},
	{name: "valof", js: true, jsVars: []string{"+$O", "$O * 1", "$O < 1", "Number($O)", "Math.abs($O)", "$O | 0", "-$O", "isNaN($O)", "$O == 1"}, goMechs: []string{"run", "num", "flt", "int"}, ret: "1"},
	{name: "toprim", js: true, jsVars: []string{"+$O", "`${$O}`", "$O + ''", "String($O)", "$O == 1", "new Date($O)"}, goMechs: []string{"run", "str", "num", "flt", "int"}, ret: "1"},
	{name: "hasinst", js: true, jsVars: []string{"({}) instanceof $O", "1 instanceof $O"}, goMechs: []string{"run", "instof"}, ret: "true"},
	{name: "field", js: true, jsVars: []string{"new $F()", "Reflect.construct($F, [])"}, goMechs: []string{"run", "ctor", "new"}, ret: "7"},
	{name: "cb", js: true, jsVars: []string{"[2, 1].sort($F)", "[1].map($F)", "[1].forEach($F)", "[1, 2].reduce($F)", "[1].find($F)", "[1].some($F)", "'a'.replace(/a/, $F)", "'a'.replace('a', $F)", "Array.from([1], $F)", "JSON.parse('1', $F)", "JSON.stringify({toJSON: $F})", "new Map([[1, 1]]).forEach($F)", "new Set([1]).forEach($F)", "new Uint8Array(1).map($F)", "[1].flatMap($F)", "[1].filter($F)", "[1, 2].reduceRight($F)", "[1].every($F)", "[1].findIndex($F)", "new Uint8Array([2, 1]).sort($F)"}, goMechs: []string{"run", "call"}, ret: "0"},
	{name: "iter", js: true, jsVars: []string{"Array.from($O)", "[...$O]", "new Set($O)", "new Map($O)", "(([x]) => 0)($O)", "(() => { for (var x of $O) {} })()", "Math.max(...$O)", "Uint8Array.from($O)", "new WeakSet($O)"}, goMechs: []string{"run", "forof"}, ret: "{done: true}"},
	{name: "async", js: true, prefix: true, jsVars: []string{"$F()"}, goMechs: []string{"run", "call"}, ret: "7"},
	{name: "asyncaw", js: true, prefix: true, jsVars: []string{"$F()"}, goMechs: []string{"run", "call"}, ret: "7"},
	{name: "then", js: true, prefix: true, jsVars: []string{"$F()"}, goMechs: []string{"run", "call"}, ret: "7"},

	{name: "nfc", jsVars: fnCallVars, goMechs: fnGoMechs},
	{name: "rnoerr", jsVars: fnCallVars, goMechs: fnGoMechs},
	{name: "rerr", jsVars: fnCallVars, goMechs: fnGoMechs},
	{name: "nctor", jsVars: []string{"new $F()", "Reflect.construct($F, [])", "new $F"}, goMechs: []string{"run", "ctor", "new"}},
	{name: "dyn", jsVars: getVars, goMechs: []string{"run", "get"}},
	{name: "gpget", jsVars: getVars, goMechs: []string{"run", "get"}},
	{name: "gpapply", jsVars: []string{"$O()", "$O.call(null)", "Reflect.apply($O, null, [])"}, goMechs: fnGoMechs},
}

var kinds = func() map[string]*kindInfo {
	m := map[string]*kindInfo{}
	for i := range kindList {
		m[kindList[i].name] = &kindList[i]
	}
	return m
}()

var jsKinds, nativeKinds, prefixKinds []string

func init() {
	for _, k := range kindList {
		switch {
		case k.prefix:
			prefixKinds = append(prefixKinds, k.name)
		case k.js:
			jsKinds = append(jsKinds, k.name)
		default:
			nativeKinds = append(nativeKinds, k.name)
		}
	}
}

var tryOpts = []string{"", "rethrow", "replace", "replprim", "swallow"}
var finOpts = []string{"", "log", "ret"}
var wrapOpts = []string{"", "try", "forof"}

// payloads raised by a script frame
var jsPayloads = []string{"jnum", "jstr", "jundef", "jnull", "jsym", "jobj", "jfresh", "jerr", "jtype", "jrange", "jcustom", "jpre", "jgoerr", "jgoerrw", "jproxy", "jhproxy", "jrevoked", "jfakego", "jvalobj", "jvalnull", "jthenable", "itype", "iref", "irange", "isyntax", "jover", "jovern"}

// payloads raised by a native frame
var nativePayloads = []string{"pvstr", "pvnum", "pvundef", "pvnull", "pvsym", "pvobj", "pvtype", "pex", "pgoerr",
	"esent", "ewrap", "ejoin", "ecustom", "enil", "etnil", "eexc",
	"fstr", "ferr", "frt", "intr", "intre"}

func propOpts(kind string) []string {
	if kind == "rerr" {
		return []string{"panic", "panicval", "ret", "retwrap"}
	}
	return []string{"panic", "panicval"}
}

// varOK: the promise-producing invocation forms only make sense where the caller awaits the result.
func varOK(k *kindInfo, v int, callerPrefix bool) bool {
	if v < 0 || v >= len(k.jsVars) {
		return false
	}
	if strings.Contains(k.jsVars[v], "Promise.") {
		return callerPrefix
	}
	return true
}

func validVars(k *kindInfo, callerPrefix bool) []int {
	var l []int
	for v := range k.jsVars {
		if varOK(k, v, callerPrefix) {
			l = append(l, v)
		}
	}
	return l
}

func contains(l []string, s string) bool {
	for _, x := range l {
		if x == s {
			return true
		}
	}
	return false
}

// validate returns "" when the case is inside the generated domain.
func validate(c *Case) string {
	n := len(c.Frames)
	if n < 1 || n > 8 {
		return "depth"
	}
	inPrefix := true
	for i, f := range c.Frames {
		k := kinds[f.Kind]
		if k == nil {
			return "kind"
		}
		if k.prefix {
			if !inPrefix {
				return "promise-returning frame below a synchronous one"
			}
		} else {
			inPrefix = false
		}
		callerJS := i > 0 && kinds[c.Frames[i-1].Kind].js
		callerPrefix := i > 0 && kinds[c.Frames[i-1].Kind].prefix
		if callerJS {
			if f.Mech != "js" || !varOK(k, f.Var, callerPrefix) {
				return "mech/js"
			}
		} else {
			if !contains(k.goMechs, f.Mech) {
				return "mech/go"
			}
			if f.Mech == "run" {
				if !varOK(k, f.Var, false) {
					return "var"
				}
			} else if f.Var != 0 {
				return "var"
			}
		}
		if k.js {
			if !contains(tryOpts, f.Try) || !contains(finOpts, f.Fin) || f.Wrap != "" || f.Prop != "" {
				return "opts/js"
			}
			if f.Kind == "then" && f.Fin == "ret" {
				return "then/finret"
			}
		} else {
			if f.Try != "" || f.Fin != "" || !contains(wrapOpts, f.Wrap) || !contains(propOpts(f.Kind), f.Prop) {
				return "opts/native"
			}
		}
	}
	last := kinds[c.Frames[n-1].Kind]
	if last.js {
		if !contains(jsPayloads, c.Payload) {
			return "payload/js"
		}
	} else {
		if !contains(nativePayloads, c.Payload) {
			return "payload/native"
		}
		if c.Payload == "intr" || c.Payload == "intre" {
			// the interrupt fires in the nearest running script frame: require it to be the direct caller
			if n < 2 || !kinds[c.Frames[n-2].Kind].js {
				return "interrupt needs a script caller"
			}
			// called as a promise reaction the native frame returns into the job queue, not into script code:
			// whether any script instruction runs afterwards (and so whether the interrupt is ever delivered)
			// depends on the rest of the chain
			if strings.Contains(kinds[c.Frames[n-1].Kind].jsVars[c.Frames[n-1].Var], "Promise.") {
				return "interrupt from a promise reaction"
			}
		}
	}
	if c.Payload == "jfakego" {
		// an object that inherits from GoError.prototype but whose 'value' is a throwing getter: what an
		// ExportTo'd func with an error result should do with it is not documented
		for _, f := range c.Frames {
			if f.Mech == "expe" {
				return "fakego/expe"
			}
		}
	}
	return ""
}

func alternations(c *Case) int {
	a := 0
	for i := 1; i < len(c.Frames); i++ {
		if kinds[c.Frames[i].Kind].js != kinds[c.Frames[i-1].Kind].js {
			a++
		}
	}
	return a
}

func nontrivial(c *Case) bool {
	if alternations(c) < 2 {
		return false
	}
	for _, f := range c.Frames {
		if f.Try != "" || f.Fin != "" {
			return true
		}
	}
	return false
}

func pick(t *rapid.T, l []string, label string) string {
	return l[rapid.IntRange(0, len(l)-1).Draw(t, label)]
}

func genCase(t *rapid.T) *Case {
	n := rapid.SampledFrom([]int{1, 2, 3, 3, 4, 4, 5, 5, 6, 6, 7, 8}).Draw(t, "depth")
	c := &Case{}
	npre := 0
	if rapid.IntRange(0, 4).Draw(t, "prefix") == 0 {
		npre = rapid.IntRange(1, 3).Draw(t, "npre")
		if npre > n {
			npre = n
		}
	}
	for i := 0; i < n; i++ {
		var kind string
		switch {
		case i < npre:
			kind = pick(t, prefixKinds, "pk")
		case rapid.IntRange(0, 99).Draw(t, "side") < 50:
			kind = pick(t, jsKinds, "jk")
		default:
			kind = pick(t, nativeKinds, "nk")
		}
		k := kinds[kind]
		f := Frame{Kind: kind}
		callerJS := i > 0 && kinds[c.Frames[i-1].Kind].js
		callerPrefix := i > 0 && kinds[c.Frames[i-1].Kind].prefix
		if callerJS {
			f.Mech = "js"
			f.Var = rapid.SampledFrom(validVars(k, callerPrefix)).Draw(t, "var")
		} else {
			f.Mech = pick(t, k.goMechs, "mech")
			if f.Mech == "run" {
				f.Var = rapid.SampledFrom(validVars(k, false)).Draw(t, "var")
			}
		}
		if k.js {
			if rapid.IntRange(0, 99).Draw(t, "hastry") < 55 {
				f.Try = pick(t, []string{"rethrow", "rethrow", "rethrow", "replace", "replprim", "swallow"}, "try")
			}
			switch x := rapid.IntRange(0, 99).Draw(t, "fin"); {
			case x < 30:
				f.Fin = "log"
			case x < 36 && kind != "then":
				f.Fin = "ret"
			}
		} else {
			switch x := rapid.IntRange(0, 99).Draw(t, "wrap"); {
			case x < 15:
				f.Wrap = "try"
			case x < 30:
				f.Wrap = "forof"
			}
			f.Prop = pick(t, propOpts(kind), "prop")
		}
		c.Frames = append(c.Frames, f)
	}
	last := kinds[c.Frames[n-1].Kind]
	if last.js {
		c.Payload = pick(t, jsPayloads, "payload")
		if c.Payload == "jfakego" {
			for _, f := range c.Frames {
				if f.Mech == "expe" {
					c.Payload = "jgoerr"
				}
			}
		}
	} else {
		pl := nativePayloads
		lf := c.Frames[n-1]
		if n < 2 || !kinds[c.Frames[n-2].Kind].js || strings.Contains(kinds[lf.Kind].jsVars[lf.Var], "Promise.") {
			pl = pl[:len(pl)-2] // no interrupt without a script caller that continues after the call
		}
		c.Payload = pick(t, pl, "payload")
	}
	if why := validate(c); why != "" {
		panic(fmt.Sprintf("generator produced an invalid case (%s): %s", why, c.Text()))
	}
	return c
}

func (c *Case) shape() string {
	var sb strings.Builder
	for _, f := range c.Frames {
		if kinds[f.Kind].js {
			sb.WriteByte('J')
		} else {
			sb.WriteByte('N')
		}
	}
	return sb.String()
}
