package c01

import (
	"encoding/json"
	"fmt"
	"os"
	"runtime"
	"strings"
	"sync/atomic"
	"testing"
	"time"

	"github.com/dop251/goja"
	"pgregory.net/rapid"

	"verifh/internal/evid"
	"verifh/internal/jsgen"
	"verifh/internal/jsx"
)

func TestMain(m *testing.M) { evid.Main("C01", m) }

// Case is one source text with the way it is handed to the engine.
type Case struct {
	Layer     string `json:"layer"` // L1 grammar, L1deep, L2 mutation, L3 bytes
	Src       []byte `json:"src"`   // base64 in JSON: arbitrary bytes
	SrcText   string `json:"src_text,omitempty"`
	Strict    bool   `json:"strict"`
	Placement string `json:"placement"` // global | function | eval | newfunc
	Prelude   bool   `json:"prelude"`
}

const maxNesting = 200
const maxSize = 64 << 10

var preludePrg = goja.MustCompile("prelude.js", jsgen.SynPrelude, false)

var hangs int32

// runGuarded runs f under a watchdog: Interrupt after 150ms or when the heap
// grows beyond 1 GiB; gives up (inconclusive) after 20 s.
func runGuarded(vm *goja.Runtime, f func() (goja.Value, error)) (out jsx.Outcome, hung bool) {
	done := make(chan jsx.Outcome, 1)
	stop := make(chan struct{})
	stopped := make(chan struct{})
	go func() {
		defer close(stopped)
		start := time.Now()
		tick := time.NewTicker(15 * time.Millisecond)
		defer tick.Stop()
		interrupted := false
		for {
			select {
			case <-stop:
				return
			case <-tick.C:
				if interrupted {
					continue
				}
				if time.Since(start) > 150*time.Millisecond {
					vm.Interrupt("watchdog: time")
					interrupted = true
					continue
				}
				var ms runtime.MemStats
				if time.Since(start) > 45*time.Millisecond {
					runtime.ReadMemStats(&ms)
					if ms.HeapAlloc > 1<<30 {
						vm.Interrupt("watchdog: heap")
						interrupted = true
					}
				}
			}
		}
	}()
	go func() { done <- jsx.Protect(f) }()
	select {
	case out = <-done:
		close(stop)
		<-stopped
		return out, false
	case <-time.After(20 * time.Second):
		close(stop)
		atomic.AddInt32(&hangs, 1)
		return jsx.Outcome{Kind: "hang"}, true
	}
}

func allowedKind(k string) bool {
	switch k {
	case "value", "exception", "syntax", "reference", "interrupted", "stackoverflow":
		return true
	}
	return false
}

func fail(c *Case, key, msg string) *evid.Failure {
	c.SrcText = string(c.Src)
	return &evid.Failure{Check: "source", Key: key, Msg: msg, Case: c}
}

// panicKey classifies a Go panic by its message (first words) so that distinct
// crashes get distinct known-finding keys.
func panicKey(o jsx.Outcome) string {
	s := fmt.Sprint(o.Panic)
	if i := strings.IndexAny(s, ":\n"); i > 0 {
		s = s[:i]
	}
	if len(s) > 60 {
		s = s[:60]
	}
	// find the innermost goja frame
	frame := ""
	for _, l := range strings.Split(o.Stack, "\n") {
		if strings.HasPrefix(l, "github.com/dop251/goja") && !strings.Contains(l, "verif") {
			frame = l
			if i := strings.LastIndex(frame, "("); i > 0 {
				frame = frame[:i]
			}
			frame = strings.TrimPrefix(frame, "github.com/dop251/goja")
			break
		}
	}
	return "panic:" + s + "@" + frame
}

func checkOutcome(c *Case, step string, o jsx.Outcome) *evid.Failure {
	if o.Kind == "panic" {
		return fail(c, panicKey(o), fmt.Sprintf("%s: Go panic escaped: %v\n%s", step, o.Panic, trimStack(o.Stack)))
	}
	if !allowedKind(o.Kind) {
		return fail(c, "kind:"+step+":"+o.Kind, fmt.Sprintf("%s returned an undocumented error kind %T: %v", step, o.Err, o.Err))
	}
	if o.Err != nil {
		msg := o.Err.Error()
		if strings.Contains(msg, "Compiler bug") || strings.Contains(msg, "Internal compiler") {
			return fail(c, "compilerbug:"+firstWords(msg), fmt.Sprintf("%s reported an internal diagnostic: %s", step, msg))
		}
	}
	return nil
}

func firstWords(msg string) string {
	if i := strings.Index(msg, "Compiler bug"); i >= 0 {
		msg = msg[i:]
	}
	if i := strings.Index(msg, " at "); i > 0 {
		msg = msg[:i]
	}
	if len(msg) > 70 {
		msg = msg[:70]
	}
	return msg
}

func trimStack(s string) string {
	ls := strings.Split(s, "\n")
	var out []string
	for _, l := range ls {
		if strings.Contains(l, "goja") || strings.Contains(l, "panic") {
			out = append(out, l)
		}
		if len(out) > 24 {
			break
		}
	}
	return strings.Join(out, "\n")
}

func wrapSource(c *Case) (text string, viaVar bool) {
	src := string(c.Src)
	sp := ""
	if c.Strict {
		sp = "\"use strict\";\n"
	}
	switch c.Placement {
	case "function":
		return "(function(){" + sp + src + "\n})()", false
	case "eval":
		return sp + "eval(__src)", true
	case "newfunc":
		return sp + "new Function(__src)()", true
	}
	return sp + src, false
}

type stats struct {
	parsed, compiled, ran bool
	kind                  string
}

func judge(c *Case) (*evid.Failure, stats) {
	var st stats
	if len(c.Src) > maxSize {
		evid.Excluded("size>64KiB")
		return nil, st
	}
	if jsgen.Nesting(string(c.Src)) > maxNesting {
		evid.Excluded("nesting>200")
		return nil, st
	}
	text, viaVar := wrapSource(c)
	evid.SetCurrent("source", c)
	defer evid.ClearCurrent()

	// 1. Parse
	o := jsx.Protect(func() (goja.Value, error) {
		_, err := goja.Parse("case.js", text)
		return nil, err
	})
	if f := checkOutcome(c, "Parse", o); f != nil {
		return f, st
	}
	st.parsed = o.Kind == "value"
	if !viaVar {
		o2 := jsx.Protect(func() (goja.Value, error) {
			_, err := goja.Parse("case.js", string(c.Src))
			return nil, err
		})
		if f := checkOutcome(c, "Parse(raw)", o2); f != nil {
			return f, st
		}
	}
	// 2. Compile
	var prg *goja.Program
	o = jsx.Protect(func() (goja.Value, error) {
		p, err := goja.Compile("case.js", text, c.Strict)
		prg = p
		return nil, err
	})
	if f := checkOutcome(c, "Compile", o); f != nil {
		return f, st
	}
	st.compiled = o.Kind == "value"
	if st.parsed != st.compiled && o.Kind != "syntax" {
		// Parse ok but Compile failed must be a compile-time syntax/reference error
		if o.Kind != "reference" {
			return fail(c, "kind:Compile:"+o.Kind, "Compile failed with "+o.Kind+" although Parse succeeded: "+o.Text), st
		}
	}
	// 3. Run
	vm := goja.New()
	vm.SetMaxCallStackSize(400)
	if c.Prelude {
		if po := jsx.RunProgram(vm, preludePrg); po.Kind != "value" {
			return &evid.Failure{Check: "source", Key: "harness", Msg: "prelude failed: " + po.Text, Case: c}, st
		}
	}
	if viaVar {
		vm.Set("__src", string(c.Src))
	}
	var hung bool
	if prg != nil {
		o, hung = runGuarded(vm, func() (goja.Value, error) { return vm.RunProgram(prg) })
	} else {
		o, hung = runGuarded(vm, func() (goja.Value, error) { return vm.RunString(text) })
	}
	if hung {
		evid.Count("inconclusive:hang")
		return nil, st
	}
	vm.ClearInterrupt()
	st.ran = true
	st.kind = o.Kind
	if f := checkOutcome(c, "Run", o); f != nil {
		return f, st
	}
	s := goja.VerifVMState(vm)
	if s.SP != 0 || s.CallStack != 0 || s.TryStack != 0 || s.IterStack != 0 || s.RefStack != 0 || !s.StashGlobal || !s.PrivEnvNil || s.JobQueue != 0 || s.NativeDepth != 0 {
		return fail(c, fmt.Sprintf("vmstate:sp=%d,cs=%d,try=%d,iter=%d,ref=%d,stash=%v,priv=%v,jobs=%d", s.SP, s.CallStack, s.TryStack, s.IterStack, s.RefStack, s.StashGlobal, s.PrivEnvNil, s.JobQueue),
			fmt.Sprintf("after the top-level run (outcome %s) the VM is not idle: %+v", o.Kind, s)), st
	}
	// the runtime must still be usable for a trivial script
	o3 := jsx.RunString(vm, "1+1")
	if o3.Kind != "value" || o3.Value.ToInteger() != 2 {
		return fail(c, "reuse", "runtime unusable after the run: "+o3.Kind+" "+o3.Text), st
	}
	return nil, st
}

func record(c *Case, st stats, kinds map[string]int) {
	nontrivial := false
	switch c.Layer {
	case "L1", "L1deep":
		nontrivial = st.compiled
	default:
		nontrivial = st.parsed || len(c.Src) > 8
	}
	evid.Case(c.Placement+fmt.Sprint(c.Strict)+string(c.Src), nontrivial)
	evid.Count("layer:" + c.Layer)
	evid.Count("placement:" + c.Placement)
	if st.compiled {
		evid.Count(c.Layer + ":compiled")
	}
	if st.ran {
		evid.Count("outcome:" + st.kind)
	}
	for k, n := range kinds {
		evid.CountN("kind:"+k, int64(n))
	}
	evid.Sample(c.Layer, map[string]interface{}{"layer": c.Layer, "placement": c.Placement, "strict": c.Strict, "src": truncate(string(c.Src), 400)})
}

func truncate(s string, n int) string {
	if len(s) > n {
		return s[:n] + "…"
	}
	return s
}

func genModes(t *rapid.T, c *Case) {
	c.Strict = rapid.IntRange(0, 3).Draw(t, "strict") == 0
	c.Placement = rapid.SampledFrom([]string{"global", "global", "function", "eval", "newfunc"}).Draw(t, "placement")
}

// tooManyHangs: after three cases that did not come back within 20 s (a native operation that cannot be
// interrupted is still running in an abandoned goroutine and competes for the CPU) the remaining cases of this
// process are not run. They are counted as excluded; nothing is claimed about them.
func tooManyHangs(t *rapid.T) bool {
	if atomic.LoadInt32(&hangs) >= 3 {
		evid.Excluded("not run: three earlier cases of this shard hung in a non-interruptible native operation (inconclusive)")
		return true
	}
	return false
}

func TestQuickL1(t *testing.T) {
	evid.Check(t, "L1", 36000, 5, func(t *rapid.T) {
		if tooManyHangs(t) {
			return
		}
		kinds := map[string]int{}
		c := &Case{Layer: "L1", Prelude: true}
		if rapid.IntRange(0, 9).Draw(t, "deepsel") == 0 {
			c.Layer = "L1deep"
			c.Src = []byte(jsgen.GenDeep(t, maxNesting-4))
		} else {
			c.Src = []byte(jsgen.GenProgram(t, &jsgen.SynOpts{MaxDepth: rapid.IntRange(2, 5).Draw(t, "depth"), Kinds: kinds}))
		}
		genModes(t, c)
		f, st := judge(c)
		record(c, st, kinds)
		evid.Judge(t, f)
	})
}

func TestQuickL2(t *testing.T) {
	evid.Check(t, "L2", 36000, 5, func(t *rapid.T) {
		if tooManyHangs(t) {
			return
		}
		base := jsgen.GenProgram(t, &jsgen.SynOpts{MaxDepth: rapid.IntRange(2, 4).Draw(t, "depth")})
		other := jsgen.GenProgram(t, &jsgen.SynOpts{MaxDepth: 2})
		c := &Case{Layer: "L2", Prelude: true, Src: []byte(jsgen.Mutate(t, base, other))}
		genModes(t, c)
		f, st := judge(c)
		record(c, st, nil)
		evid.Judge(t, f)
	})
}

func TestQuickL3(t *testing.T) {
	evid.Check(t, "L3", 24000, 5, func(t *rapid.T) {
		if tooManyHangs(t) {
			return
		}
		c := &Case{Layer: "L3", Prelude: rapid.Bool().Draw(t, "prelude"), Src: jsgen.GenBytes(t)}
		genModes(t, c)
		f, st := judge(c)
		record(c, st, nil)
		evid.Judge(t, f)
	})
}

// TestQuickRegress replays the kept regression inputs (minimised failures found earlier).
func TestQuickRegress(t *testing.T) {
	dir := evid.VerifDir() + "/replay/C01/keep"
	ents, _ := os.ReadDir(dir)
	for _, e := range ents {
		if !strings.HasSuffix(e.Name(), ".json") {
			continue
		}
		_, raw, err := evid.LoadReplay(dir + "/" + e.Name())
		if err != nil {
			t.Fatalf("%s: %v", e.Name(), err)
		}
		var c Case
		if err := json.Unmarshal(raw, &c); err != nil {
			t.Fatalf("%s: %v", e.Name(), err)
		}
		f, st := judge(&c)
		record(&c, st, nil)
		evid.Direct(t, f)
	}
}

func TestReplay(t *testing.T) {
	p := os.Getenv("VERIF_REPLAY")
	if p == "" {
		t.Skip("no VERIF_REPLAY")
	}
	_, raw, err := evid.LoadReplay(p)
	if err != nil {
		t.Fatal(err)
	}
	var c Case
	if err := json.Unmarshal(raw, &c); err != nil {
		t.Fatal(err)
	}
	f, _ := judge(&c)
	evid.Direct(t, f)
}
