package c15

import (
	"fmt"
	"strconv"
	"strings"

	"pgregory.net/rapid"

	"verifh/internal/jsx"
)

// Program generator for the deterministic-position check.
//
// A program is a statement list. Every statement boundary of interest carries
// a call `probe(<label>);` of the Go-implemented host function; the probe is
// always a statement of *script* code (never handed to a built-in as the
// callback itself), so after it returns the VM executes at least one more
// instruction of the same run loop and therefore polls the interrupt flag.
//
// The grammar covers every position kind the property names: all loop kinds,
// try / catch / finally (nested, with break/continue/return/throw crossing
// them), getters / setters, comparator and other built-in callbacks, iterator
// next / return / @@iterator methods, generator bodies (driven by
// next/throw/return, yield*), async functions and promise reaction jobs
// (including chains that re-enqueue themselves), Proxy traps, class
// constructors / field initialisers / static blocks, eval, and intermediate Go
// frames (Callable, reflect-wrapped func returning error, ExportTo'd funcs,
// Runtime.New, AssertConstructor, Object.Get, Runtime.ForOf, Runtime.Try,
// nested RunString / RunProgram).

type fnState struct {
	kind  int  // 0 plain, 1 generator, 2 async
	inFn  bool // return allowed
	brk   int  // enclosing break targets inside this function
	cont  int  // enclosing continue targets inside this function
	inFin int
}

type gen struct {
	t      *rapid.T
	n      int
	budget int
	maxD   int
	tags   map[string]string
	ctx    []string
	fs     fnState
	catch  int
	nested []string
	kinds  map[string]int
	strict bool
	noJobs bool // no promise jobs / async functions (sub-check "recover": the continuation must be known)
}

func (g *gen) draw(n int, l string) int { return rapid.IntRange(0, n-1).Draw(g.t, l) }
func (g *gen) flip(l string) bool       { return rapid.Bool().Draw(g.t, l) }
func (g *gen) id() string               { g.n++; return strconv.Itoa(g.n) }

// deepKinds are the position kinds that make a case non-trivial (DESIGN.md C15):
// a finally-bearing try statement or an open iterator is live, or the position
// is inside a nested run loop (native->JS re-entry, generator, job).
var deepKinds = map[string]bool{
	"try+f": true, "catch+f": true, "finally": true, "forof": true, "forof-iter": true, "iter-next": true, "iter-return": true, "iter-get": true,
	"getter": true, "setter": true, "coerce": true, "gen": true, "async": true, "job": true, "class": true, "eval": true,
}

func isDeep(path string) bool {
	for _, p := range strings.Split(path, "/") {
		if deepKinds[p] || strings.HasPrefix(p, "cb:") || strings.HasPrefix(p, "trap:") || strings.HasPrefix(p, "go:") {
			return true
		}
	}
	return false
}

func (g *gen) probe() string {
	l := g.id()
	g.tags[l] = strings.Join(g.ctx, "/")
	return "probe(" + l + ");"
}

func (g *gen) in(ctx string, f func() string) string {
	g.ctx = append(g.ctx, ctx)
	s := f()
	g.ctx = g.ctx[:len(g.ctx)-1]
	return s
}

// fn generates the body of a nested function of the given kind (0 plain, 1 generator, 2 async).
func (g *gen) fn(ctx string, kind int, depth int) string {
	save := g.fs
	g.fs = fnState{kind: kind, inFn: true}
	s := g.in(ctx, func() string { return g.block(depth) })
	g.fs = save
	return s
}

// block: 1..3 statements.
func (g *gen) block(depth int) string {
	n := 1 + g.draw(3, "nstmt")
	var sb strings.Builder
	for i := 0; i < n; i++ {
		sb.WriteString(g.stmt(depth))
		sb.WriteByte(' ')
	}
	return sb.String()
}

func (g *gen) simple() string {
	switch {
	case g.fs.kind == 1 && g.draw(3, "y") == 0:
		g.kinds["yield"]++
		return g.probe() + " yield " + g.id() + ";"
	case g.fs.kind == 2 && g.draw(3, "a") == 0:
		g.kinds["await"]++
		if g.flip("awp") {
			return g.probe() + " await Promise.resolve(" + g.id() + ");"
		}
		return g.probe() + " await " + g.id() + ";"
	}
	return g.probe()
}

func (g *gen) abrupt() (string, bool) {
	switch g.draw(4, "abr") {
	case 0:
		if g.fs.brk > 0 {
			g.kinds["break"]++
			return "break;", true
		}
	case 1:
		if g.fs.cont > 0 {
			g.kinds["continue"]++
			return "continue;", true
		}
	case 2:
		if g.fs.inFn {
			g.kinds["return"]++
			return "return " + g.id() + ";", true
		}
	case 3:
		if g.catch > 0 {
			g.kinds["throw"]++
			return "throw new Error(\"e" + g.id() + "\");", true
		}
	}
	return "", false
}

func (g *gen) loopBody(depth int) string {
	g.fs.brk++
	g.fs.cont++
	s := g.block(depth + 1)
	g.fs.brk--
	g.fs.cont--
	return s
}

// retKind: 0 script return() (half of the time), 1 native return, 2 no return method.
func (g *gen) retKind() int { return []int{0, 0, 1, 2}[g.draw(4, "ret")] }

func (g *gen) count() int { return 1 + g.draw(3, "cnt") }

// customIter returns the source of an expression evaluating to an iterable
// whose methods carry probes. retKind: 0 script return(), 1 native return, 2 none.
func (g *gen) customIter(depth int, n int, retKind int) string {
	var sb strings.Builder
	sb.WriteString("({i:0, [Symbol.iterator]: function(){ ")
	if g.flip("probeIter") {
		sb.WriteString(g.in("iter-get", func() string { return g.probe() }))
	}
	sb.WriteString(" return this; }, next: function(){ ")
	if g.budget > 0 && depth < g.maxD && g.draw(3, "richNext") == 0 {
		sb.WriteString(g.fn("iter-next", 0, depth+1))
	} else {
		sb.WriteString(g.in("iter-next", func() string { return g.probe() }))
	}
	fmt.Fprintf(&sb, " return {done: this.i >= %d, value: this.i++}; }", n)
	switch retKind {
	case 0:
		sb.WriteString(", return: function(){ ")
		if g.budget > 0 && depth < g.maxD && g.draw(3, "richRet") == 0 {
			sb.WriteString(g.fn("iter-return", 0, depth+1))
		} else {
			sb.WriteString(g.in("iter-return", func() string { return g.probe() }))
		}
		sb.WriteString(" return {}; }")
	case 1:
		sb.WriteString(", return: nret")
	}
	sb.WriteString("})")
	return sb.String()
}

func (g *gen) genDef(name string, depth int) string {
	return "function* " + name + "(){ " + g.fn("gen", 1, depth+1) + " }"
}

func (g *gen) stmt(depth int) string {
	g.budget--
	if depth >= g.maxD || g.budget <= 0 {
		return g.simple()
	}
	if g.draw(7, "abrq") == 0 {
		if s, ok := g.abrupt(); ok {
			return g.probe() + " " + s
		}
	}
	k := g.draw(41, "kind")
	n := g.id()
	if g.noJobs && k >= 24 && k <= 26 {
		k = 28
	}
	switch k {
	case 0, 1:
		return g.simple()
	case 2:
		g.kinds["for"]++
		return fmt.Sprintf("for (var i%s = 0; i%s < %d; i%s++) { %s}", n, n, g.count(), n, g.in("loop", func() string { return g.loopBody(depth) }))
	case 3:
		g.kinds["while"]++
		return fmt.Sprintf("var i%s = 0; while (i%s++ < %d) { %s}", n, n, g.count(), g.in("loop", func() string { return g.loopBody(depth) }))
	case 4:
		g.kinds["dowhile"]++
		return fmt.Sprintf("var i%s = 0; do { %s} while (++i%s < %d);", n, g.in("loop", func() string { return g.loopBody(depth) }), n, g.count())
	case 5:
		g.kinds["forin"]++
		return fmt.Sprintf("for (var k%s in {a: 1, b: 2}) { %s}", n, g.in("loop", func() string { return g.loopBody(depth) }))
	case 6:
		g.kinds["forof-array"]++
		return fmt.Sprintf("for (var v%s of [1, 2]) { %s}", n, g.in("forof", func() string { return g.loopBody(depth) }))
	case 7, 8:
		g.kinds["forof-iter"]++
		it := g.customIter(depth, g.count(), g.retKind())
		body := g.in("forof-iter", func() string { return g.loopBody(depth) })
		// leave the loop early so that the iterator is closed (return() is called)
		switch g.draw(5, "leave") {
		case 0:
			body += "break; "
		case 1:
			body += "if (v" + n + " >= 1) break; "
		case 2:
			if g.catch > 0 {
				body += "throw new Error(\"l" + n + "\"); "
			}
		case 3:
			if g.fs.inFn {
				body += "if (v" + n + " >= 1) return; "
			}
		}
		return fmt.Sprintf("for (var v%s of %s) { %s}", n, it, body)
	case 9, 10, 11:
		shape := g.draw(3, "tryshape") // 0 try-catch, 1 try-finally, 2 try-catch-finally
		g.kinds[[]string{"try-catch", "try-finally", "try-catch-finally"}[shape]]++
		tctx, cctx := "try", "catch"
		if shape != 0 {
			tctx, cctx = "try+f", "catch+f"
		}
		var sb strings.Builder
		if shape != 1 {
			g.catch++
		}
		sb.WriteString("try { " + g.in(tctx, func() string { return g.block(depth + 1) }) + "}")
		if shape != 1 {
			g.catch--
			sb.WriteString(" catch (e" + n + ") { " + g.in(cctx, func() string { return g.block(depth + 1) }) + "}")
		}
		if shape != 0 {
			g.fs.inFin++
			sb.WriteString(" finally { " + g.in("finally", func() string { return g.block(depth + 1) }) + "}")
			g.fs.inFin--
		}
		return sb.String()
	case 12:
		g.kinds["accessor"]++
		return fmt.Sprintf("var o%s = {get x(){ %s return 1; }, set x(v){ %s}}; o%s.x; o%s.x = 2;", n, g.fn("getter", 0, depth+1), g.fn("setter", 0, depth+1), n, n)
	case 13:
		g.kinds["cb:sort"]++
		return fmt.Sprintf("[3, 1, 2].sort(function(a, b){ %s return a - b; });", g.fn("cb:sort", 0, depth+1))
	case 14:
		m := []string{"map", "forEach", "filter", "some", "every", "find", "findIndex", "flatMap", "reduce", "reduceRight", "findLast"}[g.draw(11, "arrcb")]
		g.kinds["cb:"+m]++
		return fmt.Sprintf("[1, 2].%s(function(x){ %s return 0; }, 0);", m, g.fn("cb:"+m, 0, depth+1))
	case 15:
		g.kinds["cb:from"]++
		thr := ""
		if g.catch > 0 && g.flip("fromThrow") {
			thr = "if (x >= 1) throw new Error(\"f" + n + "\"); "
		}
		return fmt.Sprintf("Array.from(%s, function(x){ %s %sreturn x; });", g.customIter(depth, 1+g.count(), g.retKind()), g.fn("cb:from", 0, depth+1), thr)
	case 16:
		g.kinds["cb:replace"]++
		return fmt.Sprintf("\"aXbX\".replace(/X/g, function(m){ %s return \"y\"; });", g.fn("cb:replace", 0, depth+1))
	case 17:
		switch g.draw(3, "json") {
		case 0:
			g.kinds["cb:toJSON"]++
			return fmt.Sprintf("JSON.stringify({a: {toJSON: function(){ %s return 1; }}});", g.fn("cb:toJSON", 0, depth+1))
		case 1:
			g.kinds["cb:replacer"]++
			return fmt.Sprintf("JSON.stringify({a: 1}, function(k, v){ %s return v; });", g.fn("cb:replacer", 0, depth+1))
		default:
			g.kinds["cb:reviver"]++
			return fmt.Sprintf("JSON.parse(\"[1,2]\", function(k, v){ %s return v; });", g.fn("cb:reviver", 0, depth+1))
		}
	case 18:
		g.kinds["coerce"]++
		switch g.draw(3, "coerce") {
		case 0:
			return fmt.Sprintf("\"\" + {toString: function(){ %s return \"s\"; }};", g.fn("coerce", 0, depth+1))
		case 1:
			return fmt.Sprintf("+{valueOf: function(){ %s return 1; }};", g.fn("coerce", 0, depth+1))
		default:
			return fmt.Sprintf("`${{[Symbol.toPrimitive]: function(h){ %s return 1; }}}`;", g.fn("coerce", 0, depth+1))
		}
	case 19, 20:
		g.kinds["proxy"]++
		switch g.draw(8, "trap") {
		case 0:
			return fmt.Sprintf("var p%s = new Proxy({a: 1}, {get: function(t, k, r){ %s return Reflect.get(t, k, r); }}); p%s.a; p%s.b;", n, g.fn("trap:get", 0, depth+1), n, n)
		case 1:
			return fmt.Sprintf("var p%s = new Proxy({a: 1}, {set: function(t, k, v, r){ %s return Reflect.set(t, k, v, r); }}); p%s.a = 2;", n, g.fn("trap:set", 0, depth+1), n)
		case 2:
			return fmt.Sprintf("var p%s = new Proxy({a: 1}, {has: function(t, k){ %s return k in t; }}); \"a\" in p%s;", n, g.fn("trap:has", 0, depth+1), n)
		case 3:
			return fmt.Sprintf("var p%s = new Proxy({a: 1, b: 2}, {ownKeys: function(t){ %s return Reflect.ownKeys(t); }, getOwnPropertyDescriptor: function(t, k){ %s return Reflect.getOwnPropertyDescriptor(t, k); }}); Object.keys(p%s);", n, g.fn("trap:ownKeys", 0, depth+1), g.fn("trap:gopd", 0, depth+1), n)
		case 4:
			return fmt.Sprintf("var p%s = new Proxy({a: 1}, {deleteProperty: function(t, k){ %s return delete t[k]; }}); delete p%s.a;", n, g.fn("trap:delete", 0, depth+1), n)
		case 5:
			return fmt.Sprintf("var p%s = new Proxy(function(){ %s}, {apply: function(t, th, args){ %s return Reflect.apply(t, th, args); }}); p%s();", n, g.fn("fn", 0, depth+1), g.fn("trap:apply", 0, depth+1), n)
		case 6:
			return fmt.Sprintf("var p%s = new Proxy(function(){ %s}, {construct: function(t, args, nt){ %s return Reflect.construct(t, args); }}); new p%s();", n, g.fn("fn", 0, depth+1), g.fn("trap:construct", 0, depth+1), n)
		default:
			return fmt.Sprintf("var p%s = new Proxy({}, {defineProperty: function(t, k, d){ %s return Reflect.defineProperty(t, k, d); }, getPrototypeOf: function(t){ %s return null; }}); Object.defineProperty(p%s, \"z\", {value: 1, configurable: true}); Object.getPrototypeOf(p%s);", n, g.fn("trap:define", 0, depth+1), g.fn("trap:getProto", 0, depth+1), n, n)
		}
	case 21, 22:
		g.kinds["generator"]++
		var sb strings.Builder
		sb.WriteString(g.genDef("g"+n, depth) + " var t" + n + " = g" + n + "(); ")
		g.catch++
		steps := 1 + g.draw(4, "gsteps")
		body := ""
		for i := 0; i < steps; i++ {
			switch g.draw(6, "gstep") {
			case 0, 1, 2:
				body += "t" + n + ".next(" + strconv.Itoa(i) + "); "
			case 3:
				body += "t" + n + ".throw(new Error(\"gt\")); "
			case 4:
				body += "t" + n + ".return(7); "
			default:
				body += fmt.Sprintf("for (var w%s of t%s) { %s break; } ", n, n, g.in("forof", func() string { return g.probe() }))
			}
		}
		g.catch--
		sb.WriteString("try { " + body + "} catch (e" + n + ") { " + g.in("catch", func() string { return g.probe() }) + " }")
		return sb.String()
	case 23:
		g.kinds["yield*"]++
		inner := ""
		if g.flip("ystarGen") {
			inner = "(" + g.genDef("h"+n, depth+1) + ")()"
		} else {
			inner = g.customIter(depth+1, g.count(), g.retKind())
		}
		drive := "t" + n + ".next(); t" + n + ".next(); "
		if g.flip("ystarRet") {
			drive += "t" + n + ".return(1); "
		} else {
			drive += "t" + n + ".next(); "
		}
		return fmt.Sprintf("function* g%s(){ %s yield* %s; %s } var t%s = g%s(); try { %s} catch (e%s) { %s }",
			n, g.in("gen", func() string { return g.probe() }), inner, g.in("gen", func() string { return g.probe() }), n, n, drive, n, g.in("catch", func() string { return g.probe() }))
	case 24, 25:
		g.kinds["async"]++
		savec := g.catch
		g.catch = 1
		body := g.fn("async", 2, depth+1)
		g.catch = savec
		then := ""
		if g.flip("asyncThen") {
			sc := g.catch
			g.catch = 1
			then = ".then(function(v){ " + g.fn("job", 0, depth+1) + "}, function(e){ " + g.fn("job", 0, depth+1) + "})"
			g.catch = sc
		}
		return fmt.Sprintf("(async function(){ %s})()%s;", body, then)
	case 26:
		g.kinds["promise-chain"]++
		sc := g.catch
		g.catch = 1
		defer func() { g.catch = sc }()
		switch g.draw(3, "pchain") {
		case 0:
			return fmt.Sprintf("Promise.resolve(1).then(function(v){ %s}).then(function(v){ %s});", g.fn("job", 0, depth+1), g.fn("job", 0, depth+1))
		case 1:
			return fmt.Sprintf("var c%s = 0; function s%s(){ %s if (++c%s < %d) Promise.resolve().then(s%s); } Promise.resolve().then(s%s);", n, n, g.fn("job", 0, depth+1), n, 1+g.count(), n, n)
		default:
			return fmt.Sprintf("Promise.reject(new Error(\"r\")).catch(function(e){ %s}).finally(function(){ %s}); new Promise(function(res, rej){ %s res(1); }).then(function(v){ %s});",
				g.fn("job", 0, depth+1), g.fn("job", 0, depth+1), g.fn("fn", 0, depth+1), g.fn("job", 0, depth+1))
		}
	case 27:
		g.kinds["class"]++
		// class bodies are strict mode code
		defer func(s bool) { g.strict = s }(g.strict)
		g.strict = true
		return fmt.Sprintf("class B%s { constructor(){ %s} } class K%s extends B%s { f = (function(){ %s return 1; })(); static { %s} constructor(){ super(); %s} m(){ %s} get g(){ %s return 1; } static s(){ %s} } var k%s = new K%s(); k%s.m(); k%s.g; K%s.s();",
			n, g.fn("class", 0, depth+1), n, n, g.fn("class", 0, depth+1), g.in("class", func() string { return g.probe() }), g.fn("class", 0, depth+1), g.fn("class", 0, depth+1), g.fn("getter", 0, depth+1), g.fn("class", 0, depth+1), n, n, n, n, n)
	case 28:
		g.kinds["fn"]++
		switch g.draw(5, "fnk") {
		case 0:
			return fmt.Sprintf("function r%s(d){ %s if (d > 0) r%s(d - 1); } r%s(%d);", n, g.fn("fn", 0, depth+1), n, n, g.draw(3, "rec"))
		case 1:
			return fmt.Sprintf("(function(){ %s})();", g.fn("fn", 0, depth+1))
		case 2:
			return fmt.Sprintf("(() => { %s})();", g.fn("fn", 0, depth+1))
		case 3:
			return fmt.Sprintf("(function(){ %s}).call(null); Reflect.apply(function(){ %s}, null, []);", g.fn("fn", 0, depth+1), g.fn("fn", 0, depth+1))
		default:
			return fmt.Sprintf("(function(){ %s}).bind(null)(); new (function(){ %s})();", g.fn("fn", 0, depth+1), g.fn("fn", 0, depth+1))
		}
	case 29:
		g.kinds["eval"]++
		save := g.fs
		if g.flip("indirect") {
			g.fs = fnState{}
			src := g.in("eval", func() string { return g.block(depth + 1) })
			g.fs = save
			return "(0, eval)(" + jsx.StrLitGo(src, true) + ");"
		}
		if g.flip("newFunction") {
			src := g.fn("eval", 0, depth+1)
			return "new Function(" + jsx.StrLitGo(src, true) + ")();"
		}
		// direct eval: break/continue cannot cross it, return is not allowed, yield/await neither
		g.fs = fnState{}
		src := g.in("eval", func() string { return g.block(depth + 1) })
		g.fs = save
		return "eval(" + jsx.StrLitGo(src, true) + ");"
	case 30:
		g.kinds["switch"]++
		g.fs.brk++
		s := fmt.Sprintf("switch (%d) { case 0: %scase 1: %sbreak; default: %s}", g.draw(3, "sw"), g.block(depth+1), g.block(depth+1), g.block(depth+1))
		g.fs.brk--
		return s
	case 31:
		g.kinds["destructure"]++
		it := g.customIter(depth, g.count(), g.retKind())
		d := g.draw(5, "destr")
		if g.noJobs && d == 3 {
			d = 1
		}
		switch d {
		case 0:
			return "var [a" + n + ", b" + n + "] = " + it + ";"
		case 1:
			return "[..." + it + "];"
		case 2:
			return "new Map(" + strings.Replace(it, "value: this.i++", "value: [this.i++, 1]", 1) + ");"
		case 3:
			return "Promise.all(" + it + ");"
		default:
			return "Math.max(..." + it + ");"
		}
	case 32, 33, 34:
		return g.misc(depth, n)
	default: // 35..40: intermediate Go frames
		return g.goFrame(depth, n)
	}
}

// misc: further places where a built-in calls back into script code, and abrupt completions through labels.
func (g *gen) misc(depth int, n string) string {
	k := g.draw(16, "misc")
	if g.noJobs && k == 0 {
		k = 1
	}
	if g.strict && k == 15 {
		k = 14
	}
	switch k {
	case 0:
		g.kinds["thenable"]++
		sc := g.catch
		g.catch = 1
		defer func() { g.catch = sc }()
		return fmt.Sprintf("Promise.resolve({then: function(res, rej){ %s res(1); }}).then(function(v){ %s});", g.fn("job", 0, depth+1), g.fn("job", 0, depth+1))
	case 1:
		g.kinds["cb:mapForEach"]++
		return fmt.Sprintf("new Map([[1, 2], [3, 4]]).forEach(function(v, k){ %s}); new Set([1, 2]).forEach(function(v){ %s});", g.fn("cb:mapForEach", 0, depth+1), g.fn("cb:setForEach", 0, depth+1))
	case 2:
		g.kinds["cb:typedSort"]++
		return fmt.Sprintf("new Int8Array([3, 1, 2]).sort(function(a, b){ %s return a - b; }); [3, 1, 2].toSorted(function(a, b){ %s return a - b; });", g.fn("cb:typedSort", 0, depth+1), g.fn("cb:toSorted", 0, depth+1))
	case 3:
		g.kinds["cb:replaceAll"]++
		return fmt.Sprintf("\"abcb\".replaceAll(\"b\", function(m){ %s return \"x\"; });", g.fn("cb:replaceAll", 0, depth+1))
	case 4:
		g.kinds["cb:symbolReplace"]++
		return fmt.Sprintf("\"abc\".replace({[Symbol.replace]: function(s, r){ %s return \"z\"; }}, \"q\"); \"abc\".split({[Symbol.split]: function(s, l){ %s return []; }});", g.fn("cb:symbolReplace", 0, depth+1), g.fn("cb:symbolSplit", 0, depth+1))
	case 5:
		g.kinds["cb:regexpExec"]++
		return fmt.Sprintf("var re%s = /b/g; re%s.exec = function(s){ %s return null; }; \"abc\".replace(re%s, \"x\"); re%s.test(\"abc\");", n, n, g.fn("cb:regexpExec", 0, depth+1), n, n)
	case 6:
		g.kinds["cb:hasInstance"]++
		return fmt.Sprintf("({}) instanceof {[Symbol.hasInstance]: function(v){ %s return true; }};", g.fn("cb:hasInstance", 0, depth+1))
	case 7:
		g.kinds["cb:assign"]++
		return fmt.Sprintf("Object.assign({set a(v){ %s}}, {get a(){ %s return 1; }}); ({...{get b(){ %s return 2; }}});", g.fn("setter", 0, depth+1), g.fn("getter", 0, depth+1), g.fn("getter", 0, depth+1))
	case 8:
		g.kinds["cb:join"]++
		return fmt.Sprintf("[{toString: function(){ %s return \"a\"; }}, 1].join(\"-\"); String([{toString: function(){ %s return \"b\"; }}]);", g.fn("coerce", 0, depth+1), g.fn("coerce", 0, depth+1))
	case 9:
		g.kinds["tagged-template"]++
		return fmt.Sprintf("(function(s, v){ %s})`a${(function(){ %s return 1; })()}b`;", g.fn("fn", 0, depth+1), g.fn("fn", 0, depth+1))
	case 10:
		g.kinds["default-param"]++
		return fmt.Sprintf("(function(a = (function(){ %s return 1; })(), {b = (function(){ %s return 2; })()} = {}){ %s})();", g.fn("fn", 0, depth+1), g.fn("fn", 0, depth+1), g.fn("fn", 0, depth+1))
	case 11:
		g.kinds["labelled"]++
		g.fs.brk++
		g.fs.cont++
		inner := g.in("try+f", func() string { return g.block(depth + 1) })
		g.fs.brk--
		g.fs.cont--
		fin := g.in("finally", func() string { return g.block(depth + 1) })
		how := []string{"break L" + n + ";", "continue L" + n + ";", "break;"}[g.draw(3, "lbl")]
		return fmt.Sprintf("L%s: for (var i%s = 0; i%s < 2; i%s++) { for (var j%s = 0; j%s < 2; j%s++) { try { %s %s } finally { %s} } }", n, n, n, n, n, n, n, inner, how, fin)
	case 12:
		g.kinds["cb:defineGetter"]++
		return fmt.Sprintf("var d%s = {}; Object.defineProperty(d%s, \"x\", {get: function(){ %s return 1; }, configurable: true}); JSON.stringify(d%s); Object.entries(Object.create(null, {y: {enumerable: true, get: function(){ %s return 1; }}}));", n, n, g.fn("getter", 0, depth+1), n, g.fn("getter", 0, depth+1))
	case 13:
		g.kinds["cb:species"]++
		defer func(s bool) { g.strict = s }(g.strict)
		g.strict = true
		return fmt.Sprintf("class A%s extends Array { static get [Symbol.species]() { %s return Array; } } new A%s(1, 2, 3).map(function(x){ %s return x; });", n, g.fn("getter", 0, depth+1), n, g.fn("cb:map", 0, depth+1))
	case 14:
		g.kinds["cb:matchAll"]++
		return fmt.Sprintf("for (var m%s of \"a1b2\".matchAll(/\\d/g)) { %s} Array.from({length: 2, get 0(){ %s return 1; }});", n, g.in("forof", func() string { return g.loopBody(depth) }), g.fn("getter", 0, depth+1))
	default:
		g.kinds["with-proxy"]++
		return fmt.Sprintf("with (new Proxy({q%s: 1}, {has: function(t, k){ %s return k in t; }, get: function(t, k, r){ %s return Reflect.get(t, k, r); }})) { q%s; }", n, g.fn("trap:has", 0, depth+1), g.fn("trap:get", 0, depth+1), n)
	}
}

func (g *gen) nestedSrc(depth int) int {
	save := g.fs
	g.fs = fnState{}
	src := g.block(depth + 1)
	g.fs = save
	g.nested = append(g.nested, src)
	return len(g.nested) - 1
}

func (g *gen) goFrame(depth int, n string) string {
	switch g.draw(12, "gofr") {
	case 0:
		g.kinds["go:call"]++
		return fmt.Sprintf("goCall(function(){ %s}, %d);", g.fn("go:call", 0, depth+1), g.draw(2, "mode"))
	case 1:
		g.kinds["go:callerr"]++
		return fmt.Sprintf("goCallErr(function(){ %s});", g.fn("go:callerr", 0, depth+1))
	case 2:
		g.kinds["go:run"]++
		i := 0
		g.in("go:run", func() string { i = g.nestedSrc(depth); return "" })
		return fmt.Sprintf("goRun(%d, %d);", i, g.draw(2, "mode"))
	case 3:
		g.kinds["go:prog"]++
		i := 0
		g.in("go:prog", func() string { i = g.nestedSrc(depth); return "" })
		return fmt.Sprintf("goProg(%d, %d);", i, g.draw(2, "mode"))
	case 4:
		g.kinds["go:export-err"]++
		return fmt.Sprintf("goExport(function(){ %s}, true);", g.fn("go:export-err", 0, depth+1))
	case 5:
		g.kinds["go:export-panic"]++
		return fmt.Sprintf("goExport(function(){ %s}, false);", g.fn("go:export-panic", 0, depth+1))
	case 6:
		g.kinds["go:new"]++
		return fmt.Sprintf("goNew(function(){ %s});", g.fn("go:new", 0, depth+1))
	case 7:
		g.kinds["go:ctor"]++
		return fmt.Sprintf("goCtor(function(){ %s});", g.fn("go:ctor", 0, depth+1))
	case 8:
		g.kinds["go:get"]++
		return fmt.Sprintf("goGet({get x(){ %s return 1; }}, \"x\");", g.fn("go:get", 0, depth+1))
	case 9:
		g.kinds["go:forof"]++
		return fmt.Sprintf("goForOf(%s, function(v){ %s});", g.customIter(depth, g.count(), g.retKind()), g.fn("go:forof", 0, depth+1))
	case 10:
		g.kinds["go:try"]++
		return fmt.Sprintf("goTry(function(){ %s});", g.fn("go:try", 0, depth+1))
	default:
		g.kinds["go:raw"]++
		return fmt.Sprintf("goRaw(function(){ %s});", g.fn("go:raw", 0, depth+1))
	}
}

var entryKinds = []string{"run-string", "run-string", "run-program", "callable", "callable", "construct", "new", "export-err", "export-panic", "get-try", "native-outer"}
var tokenKinds = []string{"str", "str", "err", "int", "struct", "nil"}

func genProgram(t *rapid.T) *Case {
	g := &gen{t: t, tags: map[string]string{}, kinds: map[string]int{}}
	g.budget = rapid.IntRange(3, 22).Draw(t, "budget")
	g.maxD = rapid.IntRange(2, 4).Draw(t, "maxdepth")
	c := &Case{
		Entry:  rapid.SampledFrom(entryKinds).Draw(t, "entry"),
		Strict: rapid.Bool().Draw(t, "strict"),
		Token:  rapid.SampledFrom(tokenKinds).Draw(t, "token"),
		Post:   rapid.IntRange(0, len(postKinds)-1).Draw(t, "post"),
		Twice:  rapid.IntRange(0, 4).Draw(t, "twice") == 0,
	}
	g.strict = c.Strict
	if c.Entry != "run-string" && c.Entry != "run-program" {
		g.fs = fnState{inFn: true}
	}
	var sb strings.Builder
	n := 1 + g.draw(3, "top")
	for i := 0; i < n; i++ {
		sb.WriteString(g.stmt(0))
		sb.WriteByte('\n')
	}
	// a final probe so that the last statement boundary of the outermost code is a position too
	sb.WriteString(g.probe())
	c.Src = sb.String()
	c.Nested = g.nested
	c.Tags = g.tags
	c.kinds = g.kinds
	return c
}
