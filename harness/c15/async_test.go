package c15

import (
	"fmt"
	"runtime"
	"strconv"
	"strings"
	"sync"
	"sync/atomic"
	"time"

	"github.com/dop251/goja"
	"pgregory.net/rapid"

	"verifh/internal/evid"
)

// Asynchronous positions: one to three other goroutines call Interrupt while a
// long-running (but terminating) program executes. The interrupters do not
// sleep: each busy-waits until the program has made a generated number of
// tick() calls (tick is a Go function that bumps an atomic counter; it is
// always called as a statement of script code), so that the position is
// generated and the promptness bound is expressed in events, not in time.
//
// Promptness bound. The VM loads the flag atomically before every instruction.
// Let A be the counter value an interrupter reads right after its Interrupt
// call has returned, and F the final value. A tick that is counted after that
// read belongs to a call instruction whose poll preceded the store of the flag;
// there is at most one such instruction (the one in flight), the poll of the
// following instruction sees the flag. Hence F <= A + 1 whenever the run was
// still pending when Interrupt returned.

type shape struct {
	name string
	src  string // @N is replaced by the size
}

var shapes = []shape{
	{"jobs", `var c = 0; function step(){ tick(); if (++c < @N) Promise.resolve().then(step); } step();`},
	{"async-await", `(async function(){ for (var i = 0; i < @N / 2; i++) { tick(); try { await i; } finally { tick(); } } })();`},
	{"generator", `function* g(){ try { for (var i = 0; ; i++) { tick(); yield i; } } finally { tick(); } } for (var v of g()) { tick(); if (v >= @N / 2) break; }`},
	{"go-frames", `for (var i = 0; i < @N / 4; i++) { goCall(function(){ tick(); goCallErr(function(){ tick(); }); goRun(0, 0); }, 0); tick(); }`},
	{"array-from", `var it = {i: 0, next: function(){ tick(); return {done: this.i >= @N / 2, value: this.i++}; }, "return": function(){ tick(); return {}; }}; it[Symbol.iterator] = function(){ return this; }; Array.from(it, function(v){ tick(); return v; });`},
	{"iterator", `var it = {i: 0, next: function(){ tick(); return {done: this.i >= @N / 2, value: this.i++}; }, "return": function(){ tick(); return {}; }}; it[Symbol.iterator] = function(){ return this; }; for (var v of it) { tick(); }`},
	{"while-try-finally", `var i = 0; while (i < @N) { try { tick(); i += 2; } finally { tick(); } }`},
	{"sort", `var a = []; for (var i = 0; i < @N / 8; i++) a.push((i * 7919) % 1009); a.sort(function(x, y){ tick(); return x - y; });`},
	{"json", `var o = []; for (var i = 0; i < 20; i++) o.push({a: i, b: [i, "x"]}); for (var j = 0; j < @N / 90; j++) { tick(); JSON.parse(JSON.stringify(o), function(k, v){ tick(); return v; }); }`},
	{"regexp", `var s = "ab".repeat(20); for (var i = 0; i < @N / 24; i++) { tick(); /(a|b)*c/.test(s); /(?=a)(ab)+$/.exec(s); s.replace(/b/g, function(m){ tick(); return "b"; }); }`},
	{"proxy-getter", `var p = new Proxy({}, {get: function(t, k){ tick(); return 1; }}); var o = {get x(){ tick(); return p.a; }}; for (var i = 0; i < @N / 3; i++) { tick(); o.x; }`},
	{"forEach", `var a = []; for (var i = 0; i < @N; i++) a.push(i); a.forEach(function(v){ tick(); });`},
	{"map-reduce", `var a = []; for (var i = 0; i < @N / 2; i++) a.push(i); a.map(function(v){ tick(); return v + 1; }).reduce(function(s, v){ tick(); return s + v; }, 0);`},
	{"recursion", `function r(d){ tick(); if (d > 0) r(d - 1); } for (var i = 0; i < @N / 50; i++) r(49);`},
	{"string", `var s = ""; for (var i = 0; i < @N; i++) { tick(); s += "abc" + i; if (s.length > 3000) s = s.slice(1500); }`},
	{"for", `for (var i = 0, x = 0; i < @N; i++) { tick(); x += i; }`},
}

// clearShape makes the owner goroutine call ClearInterrupt while the others call Interrupt.
const clearShape = `for (var i = 0; i < @N / 2; i++) { tick(); clr(); }`

// AsyncCase is one asynchronous run.
type AsyncCase struct {
	Shapes    []string `json:"shapes"`
	N         int      `json:"n"`
	Entry     string   `json:"entry"`
	Strict    bool     `json:"strict"`
	Targets   []int    `json:"targets"` // per interrupter: issue Interrupt once this many permille of the uninterrupted run's ticks were made
	Tokens    []string `json:"tokens"`
	ClearRace bool     `json:"clear_race"`
	Post      int      `json:"post"`
}

func genAsync(t *rapid.T) *AsyncCase {
	c := &AsyncCase{
		N:      rapid.IntRange(200, 4000).Draw(t, "n"),
		Entry:  rapid.SampledFrom([]string{"run-string", "run-program", "callable", "export-err", "new"}).Draw(t, "entry"),
		Strict: rapid.Bool().Draw(t, "strict"),
		Post:   rapid.IntRange(0, len(postKinds)-1).Draw(t, "post"),
	}
	ns := rapid.IntRange(1, 2).Draw(t, "nshapes")
	for i := 0; i < ns; i++ {
		c.Shapes = append(c.Shapes, shapes[rapid.IntRange(0, len(shapes)-1).Draw(t, "shape")].name)
	}
	c.ClearRace = rapid.IntRange(0, 5).Draw(t, "clearRace") == 0
	ni := rapid.IntRange(1, 3).Draw(t, "ninterrupters")
	for i := 0; i < ni; i++ {
		c.Targets = append(c.Targets, rapid.IntRange(0, 1100).Draw(t, "target"))
		c.Tokens = append(c.Tokens, rapid.SampledFrom(tokenKinds).Draw(t, "tok"))
	}
	if rapid.IntRange(0, 3).Draw(t, "sameTarget") == 0 {
		for i := range c.Targets {
			c.Targets[i] = c.Targets[0] // several goroutines call Interrupt at once
		}
	}
	return c
}

func (c *AsyncCase) program() *Case {
	var sb strings.Builder
	for _, name := range c.Shapes {
		for _, s := range shapes {
			if s.name == name {
				sb.WriteString("(function(){ " + strings.ReplaceAll(s.src, "@N", strconv.Itoa(c.N)) + " })();\n")
			}
		}
	}
	if c.ClearRace {
		sb.WriteString("(function(){ " + strings.ReplaceAll(clearShape, "@N", strconv.Itoa(c.N)) + " })();\n")
	}
	return &Case{Src: sb.String(), Entry: c.Entry, Strict: c.Strict, Nested: []string{"tick();"}, Post: c.Post}
}

type astats struct {
	excluded  string
	outcome   string
	total     int64
	final     int64
	slack     int64 // F - min A over the interrupters that fired while the run was pending
	pending   int   // interrupters whose Interrupt returned while the run was pending
	nextIntr  bool
	elapsedMs int64
}

const hangGuard = 60 * time.Second

var watchdogToken = &tokErr{n: -1}

type asyncEnv struct {
	*env
	ticks atomic.Int64
}

func newAsyncEnv(p *Case) *asyncEnv {
	ae := &asyncEnv{env: newEnv(p, 0, nil)}
	ae.vm.Set("tick", func(call goja.FunctionCall) goja.Value {
		ae.ticks.Add(1)
		return goja.Undefined()
	})
	ae.vm.Set("clr", func(call goja.FunctionCall) goja.Value {
		ae.vm.ClearInterrupt()
		return goja.Undefined()
	})
	return ae
}

func judgeAsync(c *AsyncCase) (*evid.Failure, *astats) {
	st := &astats{}
	p := c.program()
	bad := func(key, msg string, exp, obs interface{}) *evid.Failure {
		return fail(c, "async", key+":"+strings.Join(c.Shapes, "+"), msg, exp, obs)
	}
	// uninterrupted run: number of ticks
	eb := newAsyncEnv(p)
	var bcall func() outcome
	if eb.herr == "" {
		bcall = prepEntry(eb.env, p)
	}
	if eb.herr != "" {
		return fail(c, "async", "harness", eb.herr, nil, nil), st
	}
	if bo := bcall(); bo.kind != "value" {
		return fail(c, "async", "harness", "uninterrupted run of a fixed shape ends with "+bo.String(), nil, nil), st
	}
	total := eb.ticks.Load()
	st.total = total

	e := newAsyncEnv(p)
	var call func() outcome
	if e.herr == "" {
		call = prepEntry(e.env, p)
	}
	if e.herr != "" {
		return fail(c, "async", "harness", e.herr, nil, nil), st
	}
	vm := e.vm
	n := len(c.Targets)
	toks := make([]interface{}, n)
	after := make([]int64, n)
	wasDone := make([]bool, n)
	var done atomic.Bool
	var wg sync.WaitGroup
	var ready sync.WaitGroup
	for i := 0; i < n; i++ {
		toks[i] = makeToken(c.Tokens[i], 10+i)
		target := total * int64(c.Targets[i]) / 1000
		wg.Add(1)
		ready.Add(1)
		go func(i int, target int64) {
			defer wg.Done()
			ready.Done()
			for e.ticks.Load() < target && !done.Load() {
				runtime.Gosched()
			}
			vm.Interrupt(toks[i])
			after[i] = e.ticks.Load()
			wasDone[i] = done.Load()
		}(i, target)
	}
	ready.Wait()
	var hung atomic.Bool
	guard := time.AfterFunc(hangGuard, func() { hung.Store(true); vm.Interrupt(watchdogToken) })
	start := time.Now()
	o := call()
	final := e.ticks.Load()
	done.Store(true)
	wg.Wait()
	guard.Stop()
	st.elapsedMs = int64(time.Since(start) / time.Millisecond)
	st.final = final
	if hung.Load() {
		st.excluded = "inconclusive: hang guard fired (wall clock), not a verdict"
		vm.ClearInterrupt()
		return nil, st
	}
	if o.kind == "panic" {
		return bad("go-panic", "a Go panic escaped the outermost call: "+describePanic(o.pan), nil, nil), st
	}
	interrupted := false
	switch {
	case o.kind == "value":
		st.outcome = "completed"
		if final != total && !c.ClearRace {
			return bad("completed-short", fmt.Sprintf("the call completed normally after %d ticks, the uninterrupted run makes %d", final, total), total, final), st
		}
	default:
		if m := checkInterrupted(o.err, toks[0], toks...); m != "" {
			return bad("outcome", "the call returned "+o.String()+": "+m, "*InterruptedError or normal completion", o.String()), st
		}
		interrupted = true
		st.outcome = "interrupted"
	}
	if c.ClearRace {
		// Interrupt racing with ClearInterrupt on the owner goroutine: an interrupt may be lost (documented:
		// synchronisation is up to the user); only race freedom, the outcome kind and reusability are asserted
		vm.ClearInterrupt()
		if what, msg := afterChecks(e.env, c.Post, e.log[:len(e.log):len(e.log)]); what != "" {
			return bad("clear-race:"+what, msg, nil, nil), st
		}
		return nil, st
	}
	if interrupted {
		minA := int64(-1)
		for i := range after {
			if !wasDone[i] {
				st.pending++
				if minA < 0 || after[i] < minA {
					minA = after[i]
				}
			}
		}
		if minA >= 0 {
			st.slack = final - minA
			if final > minA+1 {
				return bad("not-prompt", fmt.Sprintf("%d tick() calls were made after an Interrupt call had returned (counter %d right after Interrupt returned, %d at the end); at most one call instruction can be in flight", final-minA, minA, final), minA+1, final), st
			}
		}
	}
	// the next call
	mustBeInterrupted := !interrupted // every Interrupt came after the run's last poll: the flag is pending
	mayBeInterrupted := interrupted && n > 1
	before := e.ticks.Load()
	_, err := vm.RunString("tick()")
	switch {
	case err == nil:
		if mustBeInterrupted {
			return bad("next-call-not-interrupted", "the call completed normally, so every Interrupt arrived after its end while the runtime was idle; the next call must fail with the InterruptedError, but it ran", nil, nil), st
		}
		if e.ticks.Load() != before+1 {
			return bad("next-call", "the next call did not run its tick()", nil, nil), st
		}
	default:
		st.nextIntr = true
		if !mustBeInterrupted && !mayBeInterrupted {
			return bad("next-call-interrupted", "the only Interrupt call was consumed by the interrupted run, yet the next call failed: "+err.Error(), nil, nil), st
		}
		if m := checkInterrupted(err, toks[0], toks...); m != "" {
			return bad("next-call-error", "next call: "+m, nil, nil), st
		}
		if e.ticks.Load() != before {
			return bad("next-call-ran", "the next call ran script code although an interrupt was pending", nil, nil), st
		}
	}
	if what, msg := afterChecks(e.env, c.Post, e.log[:len(e.log):len(e.log)]); what != "" {
		return bad(what, msg, nil, nil), st
	}
	return nil, st
}
