package c15

import (
	"fmt"
	"os"
	"path/filepath"
	"regexp"
	"sort"
	"strings"
	"syscall"
	"time"
)

// The race detector is (part of) the oracle. It is configured through GORACE
// before the process starts: halt_on_error=0 (keep running after a report) and
// log_path=<prefix> (reports are appended to <prefix>.<pid>). The driver sets
// both; when the binary is started some other way (go test, vcheck replay) the
// process re-executes itself once with a log_path of its own, so that a report
// can always be read back, classified and attributed to the case that ran.

var (
	raceLogPrefix string
	raceLogOff    int64
	raceSeen      int
)

func raceLogPrefixFromEnv() string {
	for _, f := range strings.Fields(os.Getenv("GORACE")) {
		if strings.HasPrefix(f, "log_path=") {
			return strings.TrimPrefix(f, "log_path=")
		}
	}
	return ""
}

// ensureRaceLog must be called first thing in TestMain.
func ensureRaceLog() {
	if !raceEnabled {
		return
	}
	raceLogPrefix = raceLogPrefixFromEnv()
	if raceLogPrefix != "" && raceLogPrefix != "stderr" && raceLogPrefix != "stdout" {
		raceSeen = raceErrors()
		return
	}
	if os.Getenv("C15_REEXEC") != "" {
		raceLogPrefix = ""
		return // give up: reports stay on stderr, only counted
	}
	dir := os.Getenv("VERIF_WD")
	if dir == "" {
		d, err := os.MkdirTemp("", "c15race-")
		if err != nil {
			return
		}
		dir = d
	}
	exe, err := os.Executable()
	if err != nil {
		return
	}
	env := []string{}
	for _, e := range os.Environ() {
		if !strings.HasPrefix(e, "GORACE=") {
			env = append(env, e)
		}
	}
	env = append(env, "GORACE=halt_on_error=0 log_path="+filepath.Join(dir, "race"), "C15_REEXEC=1")
	syscall.Exec(exe, os.Args, env)
}

type raceReport struct {
	Key  string `json:"key"`
	Text string `json:"text"`
}

var (
	reFrameFn = regexp.MustCompile(`^  (\S.*)$`)
	reAccess  = regexp.MustCompile(`^(Previous )?(atomic )?([Rr]ead|[Ww]rite) at 0x[0-9a-f]+ by `)
)

// simplify turns "github.com/dop251/goja.(*importedString).scan()" into "importedString.scan".
func simplifyFn(fn string) string {
	fn = strings.TrimSpace(fn)
	if i := strings.LastIndex(fn, "("); i > 0 && strings.HasSuffix(fn, ")") && !strings.HasSuffix(fn, ".func1()") {
		fn = fn[:i]
	} else {
		fn = strings.TrimSuffix(fn, "()")
	}
	fn = strings.TrimPrefix(fn, "github.com/dop251/goja/")
	fn = strings.TrimPrefix(fn, "github.com/dop251/goja.")
	fn = strings.NewReplacer("(*", "", ")", "", "(", "").Replace(fn)
	return fn
}

// parseRaceReports splits detector output into reports and derives a key from
// the innermost goja frame of each of the two conflicting accesses.
func parseRaceReports(text string) []raceReport {
	var out []raceReport
	for _, blk := range strings.Split(text, "==================") {
		if !strings.Contains(blk, "WARNING: DATA RACE") {
			continue
		}
		lines := strings.Split(blk, "\n")
		var sites []string
		for i := 0; i < len(lines) && len(sites) < 2; i++ {
			if !reAccess.MatchString(lines[i]) {
				continue
			}
			first, goja := "", ""
			for j := i + 1; j < len(lines) && strings.HasPrefix(lines[j], "  "); j++ {
				if strings.HasPrefix(lines[j], "      ") {
					continue // file:line
				}
				m := reFrameFn.FindStringSubmatch(lines[j])
				if m == nil {
					continue
				}
				if first == "" {
					first = m[1]
				}
				if goja == "" && strings.Contains(m[1], "dop251/goja") {
					goja = m[1]
				}
			}
			if goja == "" {
				goja = first
			}
			sites = append(sites, simplifyFn(goja))
		}
		sort.Strings(sites)
		out = append(out, raceReport{Key: "race:" + strings.Join(sites, "/"), Text: strings.TrimSpace(blk)})
	}
	return out
}

func raceLogFile() string {
	if raceLogPrefix == "" {
		return ""
	}
	return fmt.Sprintf("%s.%d", raceLogPrefix, os.Getpid())
}

// newRaceReports returns the reports the detector produced since the last call.
func newRaceReports() []raceReport {
	if !raceEnabled {
		return nil
	}
	n := raceErrors()
	if n == raceSeen {
		return nil
	}
	delta := n - raceSeen
	raceSeen = n
	path := raceLogFile()
	if path == "" {
		return []raceReport{{Key: "race:unparsed", Text: fmt.Sprintf("%d race report(s) on stderr (no log_path)", delta)}}
	}
	var reps []raceReport
	var size int64
	for try := 0; try < 40; try++ {
		b, err := os.ReadFile(path)
		if err == nil && int64(len(b)) > raceLogOff {
			reps = parseRaceReports(string(b[raceLogOff:]))
			size = int64(len(b))
			if len(reps) >= delta {
				break
			}
		}
		time.Sleep(10 * time.Millisecond)
	}
	if size > raceLogOff {
		raceLogOff = size
	}
	if len(reps) == 0 {
		return []raceReport{{Key: "race:unparsed", Text: fmt.Sprintf("%d race report(s); log %s could not be parsed", delta, path)}}
	}
	return reps
}
