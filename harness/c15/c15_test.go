// Package c15 checks property C15: an interrupt issued at any moment, from the
// running goroutine or from another one, stops the script promptly and
// cleanly, and the runtime is reusable afterwards.
package c15

import (
	"encoding/json"
	"flag"
	"fmt"
	"os"
	"sort"
	"sync"
	"testing"

	"pgregory.net/rapid"

	"verifh/internal/evid"
)

func TestMain(m *testing.M) {
	ensureRaceLog()
	evid.Main("C15", m)
}

var (
	pendMu  sync.Mutex
	pending []*evid.Failure
)

func clip(s string, n int) string {
	if len(s) > n {
		return s[:n] + "\n…"
	}
	return s
}

// collectRaces attributes the detector's new reports to the case that just ran.
func collectRaces(check string, c interface{}) int {
	reps := newRaceReports()
	for _, r := range reps {
		evid.Count("race-report")
		pendMu.Lock()
		pending = append(pending, &evid.Failure{Check: check, Key: r.Key, Msg: "the race detector reported a data race while this case ran:\n" + clip(r.Text, 6000), Case: c})
		pendMu.Unlock()
	}
	return len(reps)
}

func flushPending(t *testing.T) {
	pendMu.Lock()
	ps := pending
	pending = nil
	pendMu.Unlock()
	seen := map[string]bool{}
	for _, f := range ps {
		if seen[f.Key] {
			continue
		}
		seen[f.Key] = true
		evid.Direct(t, f)
	}
}

func harnessTrouble(t *rapid.T, f *evid.Failure) bool {
	if f != nil && f.Key == "harness" {
		b, _ := json.Marshal(f.Case)
		t.Fatalf("HARNESS: %s\ncase: %s", f.Msg, b)
		return true
	}
	return false
}

func recordProgram(c *Case, st *stats) {
	text := fmt.Sprintf("%s|%v|%s|%v|%v", c.Entry, c.Strict, c.Src, c.Nested, c.Ks)
	evid.Case(text, st.excluded == "" && st.deep > 0)
	evid.Count("entry:" + c.Entry)
	evid.Count("token:" + c.Token)
	if st.excluded != "" {
		evid.Excluded(st.excluded)
		return
	}
	evid.Count("base:" + st.baseKind)
	evid.CountN("interrupted-runs", int64(st.runs))
	if len(c.Ks) == 0 {
		evid.Count("sweep:exhaustive")
	} else {
		evid.Count("sweep:sampled")
	}
	evid.CountN("fired:open-iterator(dyn)", int64(st.dynIter))
	evid.CountN("fired:script-try-frame(dyn)", int64(st.dynTry))
	evid.CountN("fired:nested-call-depth(dyn)", int64(st.dynNested))
	ks := make([]string, 0, len(st.posKinds))
	for k := range st.posKinds {
		ks = append(ks, k)
	}
	sort.Strings(ks)
	for _, k := range ks {
		evid.CountN("pos:"+k, int64(st.posKinds[k]))
		evid.CountN("pos×entry:"+k+"×"+c.Entry, int64(st.posKinds[k]))
	}
	ks = ks[:0]
	for k := range st.frameKinds {
		ks = append(ks, k)
	}
	sort.Strings(ks)
	for _, k := range ks {
		evid.CountN("frame:"+k, int64(st.frameKinds[k]))
	}
	ks = ks[:0]
	for k := range c.kinds {
		ks = append(ks, k)
	}
	sort.Strings(ks)
	for _, k := range ks {
		evid.CountN("stmt:"+k, int64(c.kinds[k]))
	}
	evid.Sample("positions:"+c.Entry, c)
}

// genCase draws a program and, when the uninterrupted run has more probe
// events than maxExhaustive, the sample of positions to interrupt at.
func genCase(t *rapid.T) *Case {
	c := genProgram(t)
	base := newEnv(c, 0, nil)
	if base.herr == "" {
		runEntry(base, c)
	}
	if n := base.nprobe; n > maxExhaustive {
		ks := rapid.SliceOfNDistinct(rapid.IntRange(1, n), maxExhaustive-2, maxExhaustive-2, rapid.ID[int]).Draw(t, "ks")
		ks = append(ks, 1, n)
		sort.Ints(ks)
		out := ks[:0]
		for i, k := range ks {
			if i == 0 || k != ks[i-1] {
				out = append(out, k)
			}
		}
		c.Ks = out
	}
	return c
}

func TestQuickPositions(t *testing.T) {
	evid.Check(t, "positions", 1200, 1.5, func(t *rapid.T) {
		c := genCase(t)
		evid.SetCurrent("positions", c)
		f, st := judgeProgram(c)
		evid.ClearCurrent()
		if harnessTrouble(t, f) {
			return
		}
		recordProgram(c, st)
		collectRaces("positions", c)
		evid.Judge(t, f)
	})
	flushPending(t)
}

func TestQuickIdle(t *testing.T) {
	evid.Check(t, "idle", 1600, 2, func(t *rapid.T) {
		c := genIdle(t)
		evid.SetCurrent("idle", c)
		f, excl := judgeIdle(c)
		evid.ClearCurrent()
		if harnessTrouble(t, f) {
			return
		}
		evid.Case(fmt.Sprintf("idle|%s|%v|%v|%s|%v|%s", c.Prep, c.Tokens, c.Clear, c.Prog.Entry, c.Prog.Strict, c.Prog.Src), excl == "")
		if excl != "" {
			evid.Excluded(excl)
		}
		evid.Count("idle:entry:" + c.Prog.Entry)
		evid.Count("idle:prep:" + c.Prep)
		evid.Count(fmt.Sprintf("idle:clear=%v,interrupts=%d", c.Clear, len(c.Tokens)))
		evid.Sample("idle", c)
		collectRaces("idle", c)
		evid.Judge(t, f)
	})
	flushPending(t)
}

func TestQuickRecover(t *testing.T) {
	evid.Check(t, "recover", 400, 1.5, func(t *rapid.T) {
		c := genRecover(t)
		evid.SetCurrent("recover", c)
		f, st := judgeRecover(c)
		evid.ClearCurrent()
		if harnessTrouble(t, f) {
			return
		}
		evid.Case("recover|"+c.Prog.Entry+"|"+c.Prog.Src, st.excluded == "" && st.runs > 0)
		if st.excluded != "" {
			evid.Excluded(st.excluded)
		}
		evid.CountN("recover:interrupted-runs", int64(st.runs))
		evid.Count("recover:entry:" + c.Prog.Entry)
		evid.Sample("recover", c)
		collectRaces("recover", c)
		evid.Judge(t, f)
	})
	flushPending(t)
}

func recordAsync(c *AsyncCase, st *astats) {
	text, _ := json.Marshal(c)
	evid.Case("async|"+string(text), st.excluded == "" && st.outcome == "interrupted")
	if st.excluded != "" {
		evid.Excluded(st.excluded)
		return
	}
	if raceEnabled {
		evid.Count("async:race-detector:on")
	} else {
		evid.Count("async:race-detector:off")
	}
	evid.Count("async:outcome:" + st.outcome)
	for _, s := range c.Shapes {
		evid.Count("async:shape:" + s + ":" + st.outcome)
	}
	evid.Count("async:entry:" + c.Entry)
	evid.Count(fmt.Sprintf("async:interrupters=%d", len(c.Targets)))
	if c.ClearRace {
		evid.Count("async:clear-race")
	} else if st.outcome == "interrupted" {
		evid.Count(fmt.Sprintf("async:ticks-after-interrupt-returned=%d", st.slack))
		evid.Count(fmt.Sprintf("async:interrupts-while-pending=%d", st.pending))
	}
	if st.nextIntr {
		evid.Count("async:next-call-interrupted")
	}
	evid.Sample("async:"+st.outcome, c)
}

func TestQuickAsync(t *testing.T) {
	flag.Set("rapid.shrinktime", "5s") // schedule dependent: shrinking is of little use
	evid.Check(t, "async", 500, 2, func(t *rapid.T) {
		c := genAsync(t)
		evid.SetCurrent("async", c)
		f, st := judgeAsync(c)
		evid.ClearCurrent()
		if harnessTrouble(t, f) {
			return
		}
		recordAsync(c, st)
		collectRaces("async", c)
		evid.Judge(t, f)
	})
	flushPending(t)
}

func TestReplay(t *testing.T) {
	p := os.Getenv("VERIF_REPLAY")
	if p == "" {
		t.Skip("no VERIF_REPLAY")
	}
	replayFile(t, p)
}

func replayFile(t *testing.T, p string) {
	check, raw, err := evid.LoadReplay(p)
	if err != nil {
		t.Fatal(err)
	}
	var f *evid.Failure
	switch check {
	case "positions":
		var c Case
		if err := json.Unmarshal(raw, &c); err != nil {
			t.Fatal(err)
		}
		f, _ = judgeProgram(&c)
	case "idle":
		var c IdleCase
		if err := json.Unmarshal(raw, &c); err != nil {
			t.Fatal(err)
		}
		f, _ = judgeIdle(&c)
	case "recover":
		var c RecoverCase
		if err := json.Unmarshal(raw, &c); err != nil {
			t.Fatal(err)
		}
		f, _ = judgeRecover(&c)
	case "async":
		var c AsyncCase
		if err := json.Unmarshal(raw, &c); err != nil {
			t.Fatal(err)
		}
		// schedule dependent: several rounds
		for i := 0; i < 20 && f == nil; i++ {
			f, _ = judgeAsync(&c)
			collectRaces(check, &c)
		}
	default:
		t.Fatalf("unknown check %q", check)
	}
	collectRaces(check, raw)
	flushPending(t)
	evid.Direct(t, f)
}
