//go:build !race

package c15

const raceEnabled = false

func raceErrors() int { return 0 }
