package c15

import (
	"fmt"
	"strings"
	"sync"

	"github.com/dop251/goja"

	"verifh/internal/evid"
)

// Case is one generated program with the way it is entered.
type Case struct {
	Src    string            `json:"src"`
	Entry  string            `json:"entry"`
	Strict bool              `json:"strict"`
	Nested []string          `json:"nested,omitempty"`
	Token  string            `json:"token"`
	Post   int               `json:"post"`
	Twice  bool              `json:"twice,omitempty"` // Interrupt is called twice (different values) inside the probe
	Ks     []int             `json:"ks,omitempty"`    // interrupt positions to try; empty = every probe call of the uninterrupted run
	Tags   map[string]string `json:"tags,omitempty"`
	kinds  map[string]int
	progs  []*goja.Program // compiled Nested (cache)
}

var postKinds = []string{"bat,run-string", "bat,run-program", "bat,callable", "bat,new", "bat,export", "bat,get", "run-string,bat", "callable,bat"}

type outcome struct {
	kind string // value | exception | error:<type> | panic
	err  error
	pan  interface{}
}

func (o outcome) String() string {
	switch {
	case o.kind == "panic":
		return "Go panic " + describePanic(o.pan)
	case o.err != nil:
		return fmt.Sprintf("%s (%T: %v)", o.kind, o.err, o.err)
	}
	return o.kind
}

func protect(f func() error) (o outcome) {
	defer func() {
		if x := recover(); x != nil {
			o = outcome{kind: "panic", pan: x}
		}
	}()
	err := f()
	switch err.(type) {
	case nil:
		return outcome{kind: "value"}
	case *goja.Exception:
		return outcome{kind: "exception", err: err}
	}
	return outcome{kind: fmt.Sprintf("error:%T", err), err: err}
}

func strictPrefix(c *Case) string {
	if c.Strict {
		return "\"use strict\";\n"
	}
	return ""
}

var progCache sync.Map

func compileCached(name, src string) (*goja.Program, error) {
	if p, ok := progCache.Load(src); ok {
		return p.(*goja.Program), nil
	}
	p, err := goja.Compile(name, src, false)
	if err == nil && len(src) < 400 {
		progCache.Store(src, p)
	}
	return p, err
}

// prepEntry prepares the outermost API call of the case (compiles the program or
// evaluates the function expression, which runs no probe) and returns the call
// itself. nil means harness trouble (e.herr is set).
func prepEntry(e *env, c *Case) func() outcome {
	vm := e.vm
	global := strictPrefix(c) + c.Src
	switch c.Entry {
	case "run-string":
		if _, err := goja.Compile("case.js", global, false); err != nil {
			e.herr = "harness: program does not compile: " + err.Error()
			return nil
		}
		return func() outcome { return protect(func() error { _, err := vm.RunString(global); return err }) }
	case "run-program":
		p, err := goja.Compile("case.js", global, false)
		if err != nil {
			e.herr = "harness: program does not compile: " + err.Error()
			return nil
		}
		return func() outcome { return protect(func() error { _, err := vm.RunProgram(p); return err }) }
	}
	fsrc := "(function(){ " + strictPrefix(c) + c.Src + "\n})"
	if c.Entry == "get-try" {
		fsrc = "({get x(){ " + strictPrefix(c) + c.Src + "\n}})"
	}
	fv, err := vm.RunString(fsrc)
	if err != nil {
		e.herr = "harness: program does not compile: " + err.Error()
		return nil
	}
	switch c.Entry {
	case "callable":
		f, _ := goja.AssertFunction(fv)
		return func() outcome { return protect(func() error { _, err := f(goja.Undefined()); return err }) }
	case "construct":
		ctor, _ := goja.AssertConstructor(fv)
		return func() outcome { return protect(func() error { _, err := ctor(nil); return err }) }
	case "new":
		return func() outcome { return protect(func() error { _, err := vm.New(fv); return err }) }
	case "export-err":
		var f func() (goja.Value, error)
		if err := vm.ExportTo(fv, &f); err != nil {
			e.herr = "harness: ExportTo: " + err.Error()
			return nil
		}
		return func() outcome { return protect(func() error { _, err := f(); return err }) }
	case "export-panic":
		var f func() goja.Value
		if err := vm.ExportTo(fv, &f); err != nil {
			e.herr = "harness: ExportTo: " + err.Error()
			return nil
		}
		return func() outcome {
			o := protect(func() error { f(); return nil })
			if ex, ok := o.pan.(*goja.Exception); ok && o.kind == "panic" {
				// documented: without an error result exceptions result in a panic
				return outcome{kind: "exception", err: ex}
			}
			return o
		}
	case "get-try":
		obj := fv.(*goja.Object)
		return func() outcome {
			return protect(func() error {
				if ex := vm.Try(func() { obj.Get("x") }); ex != nil {
					return ex
				}
				return nil
			})
		}
	case "native-outer":
		f, _ := goja.AssertFunction(vm.Get("goCall"))
		return func() outcome {
			return protect(func() error { _, err := f(goja.Undefined(), fv, vm.ToValue(0)); return err })
		}
	}
	e.herr = "harness: unknown entry " + c.Entry
	return nil
}

func runEntry(e *env, c *Case) outcome {
	call := prepEntry(e, c)
	if call == nil {
		return outcome{kind: "value"}
	}
	return call()
}

// panicEntry tells whether the entry point has no error result, so that the
// documented way for an uncatchable error to reach the host is a Go panic.
func panicEntry(entry string) bool { return entry == "export-panic" || entry == "get-try" }

var (
	twinOnce sync.Once
	twinBat  string
)

// twinBattery is what the behavioural battery observes on a fresh runtime.
func twinBattery() string {
	twinOnce.Do(func() {
		e := newEnv(&Case{}, 0, nil)
		twinBat = e.battery()
		if e2 := newEnv(&Case{}, 0, nil); e2.battery() != twinBat {
			twinBat = "NONDETERMINISTIC"
		}
	})
	return twinBat
}

// postCall performs one follow-up API call that must execute exactly one probe("post").
func postCall(e *env, kind string) string {
	vm := e.vm
	before := len(e.log)
	var o outcome
	switch kind {
	case "run-string":
		o = protect(func() error { _, err := vm.RunString(`probe("post")`); return err })
	case "run-program":
		p, _ := compileCached("post.js", `probe("post")`)
		o = protect(func() error { _, err := vm.RunProgram(p); return err })
	case "callable":
		f, _ := goja.AssertFunction(vm.Get("__post"))
		o = protect(func() error { _, err := f(goja.Undefined()); return err })
	case "new":
		o = protect(func() error { _, err := vm.New(vm.Get("__post")); return err })
	case "export":
		var f func() (goja.Value, error)
		if err := vm.ExportTo(vm.Get("__post"), &f); err != nil {
			return "harness: " + err.Error()
		}
		o = protect(func() error { _, err := f(); return err })
	case "get":
		obj := vm.Get("__postObj").(*goja.Object)
		o = protect(func() error {
			if ex := vm.Try(func() { obj.Get("x") }); ex != nil {
				return ex
			}
			return nil
		})
	}
	if o.kind != "value" {
		return fmt.Sprintf("follow-up %s call did not complete normally: %s", kind, o)
	}
	if got := e.log[before:]; len(got) != 1 || got[0] != "p:post" {
		return fmt.Sprintf("follow-up %s call logged %v, want exactly [p:post] (events of the interrupted run surfaced later)", kind, got)
	}
	return ""
}

func fail(c interface{}, check, key, msg string, exp, obs interface{}) *evid.Failure {
	return &evid.Failure{Check: check, Key: key, Msg: msg, Case: c, Expected: exp, Observed: obs}
}

type stats struct {
	n          int // probe events of the uninterrupted run
	runs       int
	baseKind   string
	excluded   string
	posKinds   map[string]int
	deep       int
	dynTry     int
	dynIter    int
	dynNested  int
	frameKinds map[string]int
}

func lastKind(path string) string {
	if i := strings.LastIndexByte(path, '/'); i >= 0 {
		return path[i+1:]
	}
	if path == "" {
		return "top"
	}
	return path
}

// afterChecks verifies the post-conditions shared by all sub-checks once the
// outermost call has returned: idle state, behavioural battery and follow-up
// calls equal to a fresh runtime, and no event of the earlier run surfacing.
func afterChecks(e *env, post int, wantLog []string) (what, msg string) {
	if p := idleProblem(e.vm, false); p != "" {
		return "idle-state", "after the outermost call returned the runtime is not idle/clean: " + p
	}
	return afterCalls(e, post, wantLog)
}

func afterCalls(e *env, post int, wantLog []string) (what, msg string) {
	for _, step := range strings.Split(postKinds[post], ",") {
		if step == "bat" {
			if got, want := e.battery(), twinBattery(); got != want {
				return "battery", "behavioural battery differs from a fresh runtime:\n got  " + got + "\n want " + want
			}
			if !equalLog(e.log, wantLog) {
				return "late-events", fmt.Sprintf("events of the finished run appeared during a later call: log %v, want %v", e.log, wantLog)
			}
			continue
		}
		if m := postCall(e, step); m != "" {
			return "followup:" + step, m
		}
		wantLog = append(wantLog[:len(wantLog):len(wantLog)], "p:post")
	}
	if p := idleProblem(e.vm, false); p != "" {
		return "idle-state-later", "after the follow-up calls the runtime is not idle/clean: " + p
	}
	return "", ""
}

func equalLog(a, b []string) bool {
	if len(a) != len(b) {
		return false
	}
	for i := range a {
		if a[i] != b[i] {
			return false
		}
	}
	return true
}

const maxExhaustive = 48

// judgeProgram is the deterministic-position oracle.
func judgeProgram(c *Case) (*evid.Failure, *stats) {
	st := &stats{posKinds: map[string]int{}, frameKinds: map[string]int{}}
	tok := makeToken(c.Token, 1)
	base := newEnv(c, 0, tok)
	if base.herr != "" {
		return fail(c, "positions", "harness", base.herr, nil, nil), st
	}
	bo := runEntry(base, c)
	if base.herr != "" {
		return fail(c, "positions", "harness", base.herr, nil, nil), st
	}
	st.baseKind = bo.kind
	st.n = base.nprobe
	if bo.kind != "value" && bo.kind != "exception" {
		st.excluded = "uninterrupted run ends with " + bo.kind
		return nil, st
	}
	if c.Entry == "get-try" {
		// Runtime.Try + Object.Get is a low-level path without the top-level wrapper: jobs stay queued
		if p := idleProblem(base.vm, false, true); p != "" {
			st.excluded = "uninterrupted run leaves the runtime not idle (C03 matter)"
			return nil, st
		}
	} else if p := idleProblem(base.vm, false); p != "" {
		st.excluded = "uninterrupted run leaves the runtime not idle (C03 matter)"
		return nil, st
	}
	ks := c.Ks
	if len(ks) == 0 {
		for k := 1; k <= st.n; k++ {
			ks = append(ks, k)
		}
	}
	// index of the k-th probe event in the base log
	pos := make([]int, 0, st.n+1)
	pos = append(pos, -1)
	for i, ev := range base.log {
		if strings.HasPrefix(ev, "p:") {
			pos = append(pos, i)
		}
	}
	for _, k := range ks {
		if k < 1 || k > st.n {
			continue
		}
		st.runs++
		label := strings.TrimPrefix(base.log[pos[k]], "p:")
		path := c.Tags[label]
		pk := lastKind(path)
		st.posKinds[pk]++
		if isDeep(path) {
			st.deep++
		}
		cc := *c
		cc.Ks = []int{k}
		bad := func(what, msg string, exp, obs interface{}) *evid.Failure {
			return fail(&cc, "positions", what+":"+pk, fmt.Sprintf("interrupt inside probe call #%d (label %s, position %s, entry %s): %s", k, label, path, c.Entry, msg), exp, obs)
		}
		e := newEnv(c, k, tok)
		e.twice, e.first = c.Twice, makeToken(c.Token, 0)
		if c.Token == "nil" {
			e.first = "c15-first"
		}
		o := runEntry(e, c)
		if e.herr != "" {
			return fail(&cc, "positions", "harness", e.herr, nil, nil), st
		}
		if !e.fired {
			return bad("nondeterministic", "the k-th probe call was not reached although the uninterrupted run reached it", nil, e.log), st
		}
		if e.firedAt.IterStack > 0 {
			st.dynIter++
		}
		if e.firedAt.TryStack > 2 {
			st.dynTry++
		}
		if e.firedAt.CallStack > 1 {
			st.dynNested++
		}
		wantLog := base.log[: pos[k]+1 : pos[k]+1]
		// (1) the outermost call reports the interrupt
		if panicEntry(c.Entry) {
			if o.kind != "panic" {
				return bad("outcome", "the entry point has no error result: a Go panic carrying the *InterruptedError is documented, got "+o.String(), "panic(*InterruptedError)", o.String()), st
			}
			err, _ := o.pan.(error)
			if m := checkInterrupted(err, tok, e.alts()...); m != "" {
				return bad("outcome", "panic value "+describePanic(o.pan)+": "+m, nil, nil), st
			}
		} else {
			if o.kind == "panic" {
				return bad("go-panic", "a Go panic escaped the outermost call: "+describePanic(o.pan), "*InterruptedError returned", o.String()), st
			}
			if m := checkInterrupted(o.err, tok, e.alts()...); m != "" {
				return bad("outcome", "the outermost call returned "+o.String()+": "+m, "*InterruptedError", o.String()), st
			}
		}
		// (2) nothing ran after the interrupting probe returned
		if !equalLog(e.log, wantLog) {
			extra := ""
			if len(e.log) > len(wantLog) && equalLog(e.log[:len(wantLog)], wantLog) {
				extra = e.log[len(wantLog)]
				if strings.HasPrefix(extra, "p:") {
					extra = "probe in " + c.Tags[strings.TrimPrefix(extra, "p:")]
				}
				return bad("ran-after", fmt.Sprintf("%d further event(s) were logged after the interrupting probe returned, first: %s", len(e.log)-len(wantLog), extra), wantLog, e.log), st
			}
			return bad("log-differs", "the event log before the interrupt differs from the uninterrupted run", wantLog, e.log), st
		}
		// (3) intermediate Go frames saw the interruption
		for i, fo := range e.frames {
			st.frameKinds[fo.Kind]++
			if fo.FiredAtEntry {
				return bad("frame-entered-after", fmt.Sprintf("Go frame #%d %s was entered after the interrupt", i, fo.Kind), nil, nil), st
			}
			if !fo.Exited {
				return bad("frame-not-exited", fmt.Sprintf("Go frame #%d %s never completed", i, fo.Kind), nil, nil), st
			}
			if fo.FiredAtExit && !strings.HasPrefix(fo.Saw, "interrupted") {
				return bad("frame-saw:"+fo.Kind, fmt.Sprintf("intermediate Go frame #%d %s was active when the interrupt hit but observed %q instead of the InterruptedError", i, fo.Kind, fo.Saw), "interrupted", fo.Saw), st
			}
		}
		// (4) afterwards
		if c.Entry == "get-try" {
			// Runtime.Try is a low-level API without the top-level wrapper; ClearInterrupt is the documented way back
			e.vm.ClearInterrupt()
			if s := goja.VerifVMState(e.vm); s.JobQueue != 0 {
				// nothing drops the queue on this path; the jobs belong to a run that never "returned" in the documented sense
				continue
			}
		}
		if what, msg := afterChecks(e, c.Post, wantLog); what != "" {
			return bad(what, msg, nil, nil), st
		}
	}
	return nil, st
}
