package c15

import (
	"errors"
	"fmt"
	"strconv"
	"strings"
	"sync"

	"github.com/dop251/goja"
)

// ---------------------------------------------------------------------------
// tokens: the distinctive values handed to Interrupt

type tokErr struct{ n int }

func (e *tokErr) Error() string { return "c15-token-error-" + strconv.Itoa(e.n) }

type tokStruct struct {
	N int
	S string
}

var tokErrs = []*tokErr{{0}, {1}, {2}, {3}}

func makeToken(kind string, n int) interface{} {
	switch kind {
	case "err":
		return tokErrs[n%len(tokErrs)]
	case "int":
		return 7_150_000 + n
	case "struct":
		return tokStruct{N: n, S: "c15"}
	case "nil":
		return nil
	}
	return "c15-token-" + strconv.Itoa(n)
}

// checkInterrupted verifies that err is the documented error for token tok.
func checkInterrupted(err error, tok interface{}, alts ...interface{}) string {
	if err == nil {
		return "no error returned"
	}
	var ie *goja.InterruptedError
	if !errors.As(err, &ie) {
		return fmt.Sprintf("error is %T (%v), errors.As(*InterruptedError) fails", err, err)
	}
	if _, direct := err.(*goja.InterruptedError); !direct {
		return fmt.Sprintf("error is %T wrapping an InterruptedError, not the *InterruptedError itself", err)
	}
	if ie.Value() != tok {
		found := false
		for _, a := range alts {
			if ie.Value() == a {
				tok, found = a, true
				break
			}
		}
		if !found {
			return fmt.Sprintf("InterruptedError.Value() = %#v, want the value passed to Interrupt %#v", ie.Value(), tok)
		}
	}
	msg := ""
	func() {
		defer func() {
			if x := recover(); x != nil {
				msg = fmt.Sprintf("InterruptedError.Error()/String() panicked: %v", x)
			}
		}()
		e, s := ie.Error(), ie.String()
		if tok != nil {
			want := fmt.Sprint(tok)
			if !strings.HasPrefix(e, want) || !strings.HasPrefix(s, want) {
				msg = fmt.Sprintf("Error()=%q String()=%q do not start with the interrupt value %q", e, s, want)
			}
		}
	}()
	if msg != "" {
		return msg
	}
	if te, ok := tok.(*tokErr); ok {
		if !errors.Is(err, te) || ie.Unwrap() != error(te) {
			return "the error passed to Interrupt is not reachable through Unwrap / errors.Is"
		}
	} else if ie.Unwrap() != nil {
		return "Unwrap() of a non-error interrupt value is not nil"
	}
	return ""
}

func describePanic(x interface{}) string {
	if e, ok := x.(error); ok {
		return fmt.Sprintf("%T: %v", x, e)
	}
	return fmt.Sprintf("%T: %v", x, x)
}

// ---------------------------------------------------------------------------
// environment: one runtime with the host functions

type frameObs struct {
	Kind         string
	FiredAtEntry bool
	FiredAtExit  bool
	Exited       bool
	Saw          string // "", "value", "exception", "interrupted", "bad: ..."
}

type env struct {
	vm      *goja.Runtime
	log     []string
	nprobe  int
	k       int // interrupt inside the k-th probe call (0 = never)
	tok     interface{}
	first   interface{} // when set, Interrupt(first) is issued immediately before Interrupt(tok)
	twice   bool
	fired   bool
	firedAt goja.VerifVMStateInfo
	frames  []*frameObs
	nested  []string
	progs   []*goja.Program
	bat     goja.Callable
	herr    string // harness trouble (not a verdict)
	// recover mode (sub-check "recover"): goRecover clears the interrupt and returns an ordinary error
	recovered int
}

func (e *env) event(s string) { e.log = append(e.log, s) }

// alts lists the other values an InterruptedError may carry: when Interrupt was
// called twice before the flag was polled the documentation does not say which
// value wins (the implementation keeps the latest).
func (e *env) alts() []interface{} {
	if e.twice {
		return []interface{}{e.first}
	}
	return nil
}

func (e *env) sawErr(fo *frameObs, err error) {
	switch {
	case err == nil:
		fo.Saw = "value"
	default:
		if _, ok := err.(*goja.Exception); ok {
			fo.Saw = "exception"
			return
		}
		if m := checkInterrupted(err, e.tok, e.alts()...); m != "" {
			fo.Saw = "bad: " + m
		} else {
			fo.Saw = "interrupted"
		}
	}
}

// frame runs body as an intermediate Go frame and records what it observed.
func (e *env) frame(kind string, body func(fo *frameObs)) {
	fo := &frameObs{Kind: kind, FiredAtEntry: e.fired}
	e.frames = append(e.frames, fo)
	e.event("n:" + kind)
	defer func() {
		fo.Exited, fo.FiredAtExit = true, e.fired
		if x := recover(); x != nil {
			if fo.Saw == "" {
				if err, ok := x.(error); ok {
					e.sawErr(fo, err)
					if fo.Saw == "interrupted" || fo.Saw == "exception" {
						fo.Saw += "(panic)"
					}
				} else if _, ok := x.(goja.Value); ok {
					fo.Saw = "exception(panic)"
				} else {
					fo.Saw = "bad: foreign panic " + describePanic(x)
				}
			}
			panic(x)
		}
	}()
	body(fo)
}

func (e *env) callable(v goja.Value) goja.Callable {
	f, ok := goja.AssertFunction(v)
	if !ok {
		e.herr = "harness: argument is not a function"
		panic(e.vm.NewTypeError("not a function"))
	}
	return f
}

const setupSrc = `
var __post = function(){ probe("post"); }; var __postObj = {get x(){ probe("post"); return 1; }};
var __bat = function __bat() {
  var out = [];
  out.push("stack:" + new Error().stack);
  function* g() { try { var x = yield 1; out.push("g:" + x); yield 2; } finally { out.push("gfin"); } }
  var it = g();
  out.push(JSON.stringify(it.next())); out.push(JSON.stringify(it.next("a"))); out.push(JSON.stringify(it.return(9))); out.push(JSON.stringify(it.next()));
  var itr = {i: 0, next: function() { return {done: this.i > 5, value: this.i++}; }, "return": function() { out.push("ret"); return {}; }};
  itr[Symbol.iterator] = function() { return this; };
  for (var v of itr) { if (v == 2) break; out.push("v" + v); }
  try { try { throw new Error("x"); } finally { out.push("fin"); } } catch (e) { out.push("c:" + e.message); }
  Promise.resolve(1).then(function(v) { out.push("p1:" + v); return v + 1; }).then(function(v) { out.push("p2:" + v); });
  (async function() { out.push("a0"); await null; out.push("a1"); try { await Promise.reject(3); } catch (e) { out.push("a2:" + e); } })();
  out.push("rec:" + (function r(n) { return n ? 1 + r(n - 1) : 0; })(50));
  var o = {get x() { return new Error().stack.split("\n").length; }};
  out.push("depth:" + o.x + ":" + [1].map(function() { return new Error().stack.split("\n").length; })[0]);
  return out;
};
`

func newEnv(c *Case, k int, tok interface{}) *env {
	e := &env{vm: goja.New(), k: k, tok: tok, nested: c.Nested}
	vm := e.vm
	vm.Set("probe", func(call goja.FunctionCall) goja.Value {
		e.nprobe++
		e.event("p:" + call.Argument(0).String())
		if e.nprobe == e.k {
			e.firedAt = goja.VerifVMState(vm)
			e.fired = true
			if e.twice {
				vm.Interrupt(e.first)
			}
			vm.Interrupt(e.tok)
		}
		return goja.Undefined()
	})
	vm.Set("nret", func(call goja.FunctionCall) goja.Value {
		e.event("n:nret")
		return vm.NewObject()
	})
	// goCall(fn, mode): Callable; mode 0 propagates the error as a panic, mode 1 swallows it
	vm.Set("goCall", func(call goja.FunctionCall) goja.Value {
		f := e.callable(call.Argument(0))
		mode := call.Argument(1).ToInteger()
		var err error
		e.frame("go:call", func(fo *frameObs) {
			_, err = f(goja.Undefined())
			e.sawErr(fo, err)
		})
		if err != nil && (mode == 0 || !e.fired) {
			panic(err)
		}
		return goja.Undefined()
	})
	// reflect-wrapped Go function with an error result, as in goja's own tests
	vm.Set("goCallErr", func(f goja.Callable) (v goja.Value, err error) {
		e.frame("go:callerr", func(fo *frameObs) {
			v, err = f(nil)
			e.sawErr(fo, err)
		})
		return
	})
	vm.Set("goRun", func(call goja.FunctionCall) goja.Value {
		i := int(call.Argument(0).ToInteger())
		mode := call.Argument(1).ToInteger()
		var err error
		e.frame("go:run", func(fo *frameObs) {
			_, err = vm.RunString(e.nested[i])
			e.sawErr(fo, err)
		})
		if err != nil && (mode == 0 || !e.fired) {
			panic(err)
		}
		return goja.Undefined()
	})
	vm.Set("goProg", func(call goja.FunctionCall) goja.Value {
		i := int(call.Argument(0).ToInteger())
		mode := call.Argument(1).ToInteger()
		var err error
		e.frame("go:prog", func(fo *frameObs) {
			_, err = vm.RunProgram(e.progs[i])
			e.sawErr(fo, err)
		})
		if err != nil && (mode == 0 || !e.fired) {
			panic(err)
		}
		return goja.Undefined()
	})
	vm.Set("goExport", func(call goja.FunctionCall) goja.Value {
		if call.Argument(1).ToBoolean() {
			var f func() (goja.Value, error)
			if err := vm.ExportTo(call.Argument(0), &f); err != nil {
				e.herr = "harness: ExportTo: " + err.Error()
				return goja.Undefined()
			}
			var err error
			e.frame("go:export-err", func(fo *frameObs) {
				_, err = f()
				e.sawErr(fo, err)
			})
			if err != nil {
				panic(err)
			}
			return goja.Undefined()
		}
		var f func() goja.Value
		if err := vm.ExportTo(call.Argument(0), &f); err != nil {
			e.herr = "harness: ExportTo: " + err.Error()
			return goja.Undefined()
		}
		e.frame("go:export-panic", func(fo *frameObs) {
			f()
			fo.Saw = "value"
		})
		return goja.Undefined()
	})
	vm.Set("goNew", func(call goja.FunctionCall) goja.Value {
		var err error
		e.frame("go:new", func(fo *frameObs) {
			_, err = vm.New(call.Argument(0))
			e.sawErr(fo, err)
		})
		if err != nil {
			panic(err)
		}
		return goja.Undefined()
	})
	vm.Set("goCtor", func(call goja.FunctionCall) goja.Value {
		ctor, ok := goja.AssertConstructor(call.Argument(0))
		if !ok {
			e.herr = "harness: not a constructor"
			return goja.Undefined()
		}
		var err error
		e.frame("go:ctor", func(fo *frameObs) {
			_, err = ctor(nil)
			e.sawErr(fo, err)
		})
		if err != nil {
			panic(err)
		}
		return goja.Undefined()
	})
	vm.Set("goGet", func(call goja.FunctionCall) goja.Value {
		o := call.Argument(0).ToObject(vm)
		name := call.Argument(1).String()
		e.frame("go:get", func(fo *frameObs) {
			o.Get(name)
			fo.Saw = "value"
		})
		return goja.Undefined()
	})
	vm.Set("goForOf", func(call goja.FunctionCall) goja.Value {
		f := e.callable(call.Argument(1))
		e.frame("go:forof", func(fo *frameObs) {
			vm.ForOf(call.Argument(0), func(v goja.Value) bool {
				if _, err := f(goja.Undefined(), v); err != nil {
					panic(err)
				}
				return true
			})
			fo.Saw = "value"
		})
		return goja.Undefined()
	})
	vm.Set("goTry", func(call goja.FunctionCall) goja.Value {
		raw, ok := call.Argument(0).Export().(func(goja.FunctionCall) goja.Value)
		if !ok {
			e.herr = "harness: Export() of a function is not func(FunctionCall) Value"
			return goja.Undefined()
		}
		var ex *goja.Exception
		e.frame("go:try", func(fo *frameObs) {
			ex = vm.Try(func() { raw(goja.FunctionCall{This: goja.Undefined()}) })
			if ex != nil {
				fo.Saw = "exception"
			} else {
				fo.Saw = "value"
			}
		})
		if ex != nil {
			panic(ex)
		}
		return goja.Undefined()
	})
	vm.Set("goRaw", func(call goja.FunctionCall) goja.Value {
		raw, ok := call.Argument(0).Export().(func(goja.FunctionCall) goja.Value)
		if !ok {
			e.herr = "harness: Export() of a function is not func(FunctionCall) Value"
			return goja.Undefined()
		}
		e.frame("go:raw", func(fo *frameObs) {
			raw(goja.FunctionCall{This: goja.Undefined()})
			fo.Saw = "value"
		})
		return goja.Undefined()
	})
	// goRecover(fn): the documented way for a Go frame to recover from an interrupt: ClearInterrupt and
	// return an ordinary error (goja's TestInterruptInWrappedFunction2Recover)
	vm.Set("goRecover", func(f goja.Callable) (v goja.Value, err error) {
		e.frame("go:recover", func(fo *frameObs) {
			v, err = f(nil)
			e.sawErr(fo, err)
		})
		if err != nil {
			var ie *goja.InterruptedError
			if errors.As(err, &ie) {
				vm.ClearInterrupt()
				e.recovered++
				return nil, errors.New("recovered from interrupt")
			}
		}
		return
	})
	setupOnce.Do(func() { setupProg = goja.MustCompile("setup.js", setupSrc, false) })
	if _, err := vm.RunProgram(setupProg); err != nil {
		e.herr = "harness: setup failed: " + err.Error()
		return e
	}
	e.bat, _ = goja.AssertFunction(vm.Get("__bat"))
	if c.progs == nil && len(c.Nested) > 0 {
		for _, s := range c.Nested {
			p, err := goja.Compile("nested.js", s, false)
			if err != nil {
				e.herr = "harness: nested source does not compile: " + err.Error() + "\n" + s
				return e
			}
			c.progs = append(c.progs, p)
		}
	}
	e.progs = c.progs
	return e
}

var (
	setupOnce sync.Once
	setupProg *goja.Program
)

// battery runs the behavioural probe function through a Callable and renders its observations.
func (e *env) battery() (res string) {
	defer func() {
		if x := recover(); x != nil {
			res = "GO PANIC: " + describePanic(x)
		}
	}()
	v, err := e.bat(goja.Undefined())
	if err != nil {
		return "ERROR: " + err.Error()
	}
	o, ok := v.(*goja.Object)
	if !ok {
		return "not an object"
	}
	var parts []string
	n := int(o.Get("length").ToInteger())
	for i := 0; i < n; i++ {
		parts = append(parts, o.Get(strconv.Itoa(i)).String())
	}
	return strings.Join(parts, " | ")
}

// idleProblem reports what is wrong with the white-box idle state ("" if nothing).
func idleProblem(vm *goja.Runtime, wantFlag bool, jobsAllowed ...bool) string {
	s := goja.VerifVMState(vm)
	var bad []string
	if s.SP != 0 {
		bad = append(bad, fmt.Sprintf("sp=%d", s.SP))
	}
	if s.CallStack != 0 {
		bad = append(bad, fmt.Sprintf("callStack=%d", s.CallStack))
	}
	if s.TryStack != 0 {
		bad = append(bad, fmt.Sprintf("tryStack=%d", s.TryStack))
	}
	if s.IterStack != 0 {
		bad = append(bad, fmt.Sprintf("iterStack=%d", s.IterStack))
	}
	if s.RefStack != 0 {
		bad = append(bad, fmt.Sprintf("refStack=%d", s.RefStack))
	}
	if !s.StashGlobal {
		bad = append(bad, "stash!=global")
	}
	if !s.PrivEnvNil {
		bad = append(bad, "privEnv!=nil")
	}
	if s.JobQueue != 0 && len(jobsAllowed) == 0 {
		bad = append(bad, fmt.Sprintf("jobQueue=%d", s.JobQueue))
	}
	if s.Interrupted != wantFlag {
		bad = append(bad, fmt.Sprintf("interruptFlag=%v", s.Interrupted))
	}
	if s.AsyncRunner {
		bad = append(bad, "asyncRunner!=nil")
	}
	if s.NativeDepth != 0 {
		bad = append(bad, fmt.Sprintf("nativeDepth=%d", s.NativeDepth))
	}
	return strings.Join(bad, ",")
}
