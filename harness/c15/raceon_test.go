//go:build race

package c15

import "runtime"

// raceEnabled tells whether the binary was built with -race. runtime.RaceErrors
// (exported only in race builds) is the detector's report counter, the same
// number the testing package consults to fail a test.
const raceEnabled = true

func raceErrors() int { return runtime.RaceErrors() }
