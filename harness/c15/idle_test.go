package c15

import (
	"fmt"
	"strings"

	"github.com/dop251/goja"
	"pgregory.net/rapid"

	"verifh/internal/evid"
)

// ---------------------------------------------------------------------------
// Interrupt while the runtime is idle

// IdleCase: Interrupt is called (once or twice) while no call is pending, with
// or without a following ClearInterrupt; then one API call is made.
type IdleCase struct {
	Prog   Case     `json:"prog"`   // the program and the API call that runs it
	Prep   string   `json:"prep"`   // what the runtime did before: fresh | ran | interrupted
	Tokens []string `json:"tokens"` // kinds of the values of the Interrupt calls
	Clear  bool     `json:"clear"`
}

var prepKinds = []string{"fresh", "ran", "interrupted"}

func genIdle(t *rapid.T) *IdleCase {
	c := &IdleCase{Prog: *genProgram(t)}
	c.Prog.Twice = false
	c.Prep = rapid.SampledFrom(prepKinds).Draw(t, "prep")
	n := rapid.IntRange(1, 2).Draw(t, "ninterrupts")
	for i := 0; i < n; i++ {
		c.Tokens = append(c.Tokens, rapid.SampledFrom(tokenKinds).Draw(t, "tok"))
	}
	c.Clear = rapid.Bool().Draw(t, "clear")
	return c
}

const prepRan = `var z = 0; Promise.resolve().then(function(){ z++; }); (function(){ try { z++; } finally { z++; } for (var v of [1, 2]) { if (v) break; } })();`

func idlePrep(e *env, prep string) string {
	switch prep {
	case "ran":
		if _, err := e.vm.RunString(prepRan); err != nil {
			return "harness: prep run failed: " + err.Error()
		}
	case "interrupted":
		e.k, e.tok = e.nprobe+1, "c15-prep-token"
		_, err := e.vm.RunString(`try { probe("prep"); } finally { probe("prep-finally"); }`)
		if m := checkInterrupted(err, "c15-prep-token"); m != "" {
			return "harness: prep interrupt: " + m
		}
		e.k, e.fired = 0, false
	}
	return ""
}

func judgeIdle(c *IdleCase) (*evid.Failure, string) {
	bad := func(key, msg string, exp, obs interface{}) *evid.Failure {
		return fail(c, "idle", key+":"+c.Prog.Entry, fmt.Sprintf("prep %s, %d Interrupt call(s) while idle, clear=%v, then %s: %s", c.Prep, len(c.Tokens), c.Clear, c.Prog.Entry, msg), exp, obs)
	}
	// reference: the same call without any interrupt
	eb := newEnv(&c.Prog, 0, nil)
	if eb.herr == "" {
		eb.herr = idlePrep(eb, c.Prep)
	}
	var bo outcome
	var bcall func() outcome
	if eb.herr == "" {
		bcall = prepEntry(eb, &c.Prog)
	}
	if eb.herr != "" {
		return fail(c, "idle", "harness", eb.herr, nil, nil), ""
	}
	bmark := len(eb.log)
	bo = bcall()
	if bo.kind != "value" && bo.kind != "exception" {
		return nil, "uninterrupted run ends with " + bo.kind
	}
	blog := eb.log[bmark:]

	e := newEnv(&c.Prog, 0, nil)
	if e.herr == "" {
		e.herr = idlePrep(e, c.Prep)
	}
	var call func() outcome
	if e.herr == "" {
		call = prepEntry(e, &c.Prog)
	}
	if e.herr != "" {
		return fail(c, "idle", "harness", e.herr, nil, nil), ""
	}
	if p := idleProblem(e.vm, false); p != "" {
		return nil, "preparation leaves the runtime not idle (C03 matter)"
	}
	var toks []interface{}
	for i, k := range c.Tokens {
		tok := makeToken(k, 2+i)
		toks = append(toks, tok)
		e.vm.Interrupt(tok)
	}
	if !goja.VerifVMState(e.vm).Interrupted {
		return fail(c, "idle", "harness", "hook does not show the flag", nil, nil), ""
	}
	if c.Clear {
		e.vm.ClearInterrupt()
	}
	mark := len(e.log)
	o := call()
	got := e.log[mark:]
	if c.Clear {
		// "unless ClearInterrupt was called": the call runs as if nothing had happened
		if o.kind != bo.kind {
			return bad("cleared-outcome", "after ClearInterrupt the call must run normally; it ended with "+o.String()+", the reference run with "+bo.String(), bo.String(), o.String()), ""
		}
		if !equalLog(got, blog) {
			return bad("cleared-log", "after ClearInterrupt the call logged different events than the reference run", blog, got), ""
		}
	} else {
		last := toks[len(toks)-1]
		if panicEntry(c.Prog.Entry) {
			if o.kind != "panic" {
				return bad("outcome", "the entry point has no error result: a Go panic carrying the *InterruptedError is documented, got "+o.String(), nil, o.String()), ""
			}
			err, _ := o.pan.(error)
			if m := checkInterrupted(err, last, toks...); m != "" {
				return bad("outcome", "panic value "+describePanic(o.pan)+": "+m, nil, nil), ""
			}
		} else {
			if o.kind == "panic" {
				return bad("go-panic", "a Go panic escaped the call: "+describePanic(o.pan), nil, nil), ""
			}
			if m := checkInterrupted(o.err, last, toks...); m != "" {
				return bad("outcome", "the next call after an idle Interrupt returned "+o.String()+": "+m, "*InterruptedError", o.String()), ""
			}
		}
		// immediately: no script code ran. (native-outer: the outermost callee is a Go function, which
		// by documentation is not interrupted; it logs its own entry and then calls into the script.)
		want := []string{}
		if c.Prog.Entry == "native-outer" {
			want = []string{"n:go:call"}
		}
		if !equalLog(got, want) {
			return bad("ran-script", fmt.Sprintf("the call ran %d event(s) although the interrupt was pending", len(got)), want, got), ""
		}
		if c.Prog.Entry == "get-try" {
			e.vm.ClearInterrupt()
		}
	}
	if c.Prog.Entry == "get-try" && goja.VerifVMState(e.vm).JobQueue != 0 {
		return nil, ""
	}
	if what, msg := afterChecks(e, c.Prog.Post, e.log[:len(e.log):len(e.log)]); what != "" {
		return bad(what, msg, nil, nil), ""
	}
	return nil, ""
}

// ---------------------------------------------------------------------------
// explicit recovery inside an intermediate Go frame

// RecoverCase: the generated body runs inside goRecover(fn), a reflect-wrapped
// Go function that, on an InterruptedError from its Callable, calls
// ClearInterrupt and returns an ordinary error (the documented way to recover,
// pinned by goja's TestInterruptInWrappedFunction2Recover). The envelope
// around it is fixed, so the continuation is known by construction:
//
//	try { goRecover(function(){ BODY }); probe("A"); } catch (e) { probe("B"); } finally { probe("C"); } probe("D");
type RecoverCase struct {
	Prog Case `json:"prog"`
}

func genRecover(t *rapid.T) *RecoverCase {
	g := &gen{t: t, tags: map[string]string{}, kinds: map[string]int{}, noJobs: true}
	g.budget = rapid.IntRange(3, 16).Draw(t, "budget")
	g.maxD = rapid.IntRange(2, 4).Draw(t, "maxdepth")
	c := &Case{
		Entry:  rapid.SampledFrom(entryKinds).Draw(t, "entry"),
		Strict: rapid.Bool().Draw(t, "strict"),
		Token:  rapid.SampledFrom(tokenKinds).Draw(t, "token"),
		Post:   rapid.IntRange(0, len(postKinds)-1).Draw(t, "post"),
	}
	if c.Entry == "get-try" {
		c.Entry = "callable"
	}
	g.strict = c.Strict
	body := g.fn("go:recover", 0, 1)
	c.Src = `try { goRecover(function(){ ` + body + `}); probe("A"); } catch (e) { probe("B"); } finally { probe("C"); } probe("D");`
	c.Nested = g.nested
	c.Tags = g.tags
	c.kinds = g.kinds
	return &RecoverCase{Prog: *c}
}

func judgeRecover(rc *RecoverCase) (*evid.Failure, *stats) {
	c := &rc.Prog
	st := &stats{posKinds: map[string]int{}, frameKinds: map[string]int{}}
	tok := makeToken(c.Token, 1)
	base := newEnv(c, 0, tok)
	var bo outcome
	if base.herr == "" {
		bo = runEntry(base, c)
	}
	if base.herr != "" {
		return fail(rc, "recover", "harness", base.herr, nil, nil), st
	}
	st.baseKind, st.n = bo.kind, base.nprobe
	if bo.kind != "value" && bo.kind != "exception" {
		st.excluded = "uninterrupted run ends with " + bo.kind
		return nil, st
	}
	ks := c.Ks
	if len(ks) == 0 {
		for k := 1; k <= st.n; k++ {
			ks = append(ks, k)
		}
	}
	pos := []int{-1}
	for i, ev := range base.log {
		if strings.HasPrefix(ev, "p:") {
			pos = append(pos, i)
		}
	}
	for _, k := range ks {
		if k < 1 || k > st.n {
			continue
		}
		label := strings.TrimPrefix(base.log[pos[k]], "p:")
		path, inBody := c.Tags[label]
		if !inBody {
			continue // a probe of the envelope: not inside goRecover
		}
		st.runs++
		pk := lastKind(path)
		st.posKinds[pk]++
		st.deep++
		cc := *rc
		cc.Prog.Ks = []int{k}
		bad := func(what, msg string, exp, obs interface{}) *evid.Failure {
			return fail(&cc, "recover", what+":"+pk, fmt.Sprintf("interrupt inside probe call #%d (label %s, position %s, entry %s) recovered by the enclosing Go frame: %s", k, label, path, c.Entry, msg), exp, obs)
		}
		e := newEnv(c, k, tok)
		o := runEntry(e, c)
		if e.herr != "" {
			return fail(&cc, "recover", "harness", e.herr, nil, nil), st
		}
		if o.kind != "value" {
			return bad("outcome", "after ClearInterrupt in the Go frame the script continues and the outermost call completes normally; got "+o.String(), "value", o.String()), st
		}
		if e.recovered != 1 {
			return bad("recovered", fmt.Sprintf("goRecover saw an InterruptedError %d times, want once", e.recovered), 1, e.recovered), st
		}
		want := append(append([]string{}, base.log[:pos[k]+1]...), "p:B", "p:C", "p:D")
		if !equalLog(e.log, want) {
			return bad("log", "event log differs: nothing of the body may run after the interrupt, then the catch/finally of the caller run because the Go frame turned the interrupt into an ordinary error", want, e.log), st
		}
		inside := false
		for i, fo := range e.frames {
			if fo.Kind == "go:recover" {
				inside = true // later frames were entered inside goRecover (it stays active until the interrupt)
			}
			if inside && fo.FiredAtExit && !fo.FiredAtEntry && !strings.HasPrefix(fo.Saw, "interrupted") {
				return bad("frame-saw:"+fo.Kind, fmt.Sprintf("intermediate Go frame #%d %s observed %q instead of the InterruptedError", i, fo.Kind, fo.Saw), "interrupted", fo.Saw), st
			}
		}
		if what, msg := afterChecks(e, c.Post, want); what != "" {
			return bad(what, msg, nil, nil), st
		}
	}
	return nil, st
}
