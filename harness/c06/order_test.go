package c06

// Sub-check "order": two strings that share a prefix and differ in one position, each freshly
// materialised in a storage of its own (literal, Go-imported and not yet scanned, concatenation of
// imported parts, StringFromUTF16, fromCharCode), whose FIRST use is a comparison. ECMA-262 orders
// strings by UTF-16 code units (7.2.13 IsLessThan step 3); an implementation that compares the
// underlying Go strings orders by code points, which differs exactly for an astral character
// against a BMP character >= U+E000 - and only while neither operand has been converted yet.

import (
	"encoding/json"
	"fmt"
	"strconv"
	"strings"
	"testing"

	"github.com/dop251/goja"
	"pgregory.net/rapid"

	"verifh/internal/evid"
	"verifh/internal/jsx"
	"verifh/internal/strref"
)

type OrderCase struct {
	X, Y         string // UTF-16 units, hex
	XRepr, YRepr string
	First        int // which comparison runs first (rotation of the battery)
}

var orderReprs = []string{"literal", "imported", "imported-concat", "utf16", "fromCharCode", "imported-slice"}

// tail classes: where code-unit order and code-point order can disagree, and their neighbours
func orderTail(t *rapid.T, label string) strref.Str {
	switch rapid.IntRange(0, 9).Draw(t, label) {
	case 0:
		return strref.Str{uint16(rapid.IntRange(0x20, 0x7e).Draw(t, label+"a"))}
	case 1:
		return strref.Str{uint16(rapid.IntRange(0x80, 0xd7ff).Draw(t, label+"b"))}
	case 2, 3, 4:
		return strref.Str{uint16(rapid.IntRange(0xe000, 0xffff).Draw(t, label+"e"))}
	case 5, 6, 7:
		cp := rapid.IntRange(0x10000, 0x10ffff).Draw(t, label+"s")
		cp -= 0x10000
		return strref.Str{uint16(0xd800 + cp>>10), uint16(0xdc00 + cp&0x3ff)}
	case 8:
		return strref.Str{}
	default:
		return strref.Str{uint16(rapid.SampledFrom([]int{0xd7ff, 0xe000, 0xfffd, 0xffff, 0xff5e, 0x7f, 0x80}).Draw(t, label+"x"))}
	}
}

func genOrder(t *rapid.T) *OrderCase {
	// prefix: long enough (or not) for the lazily scanned imported representation (> 16 bytes)
	plen := rapid.SampledFrom([]int{0, 1, 8, 15, 16, 17, 20, 33}).Draw(t, "plen")
	var prefix strref.Str
	for i := 0; i < plen; i++ {
		prefix = append(prefix, uint16("0123456789abcdefghijklmnopqrstuvwxyz"[i%36]))
	}
	if rapid.IntRange(0, 3).Draw(t, "nonascii-prefix") == 0 {
		prefix = append(prefix, orderTail(t, "pt")...)
	}
	x := strref.Concat(prefix, orderTail(t, "xt"))
	y := strref.Concat(prefix, orderTail(t, "yt"))
	if rapid.IntRange(0, 2).Draw(t, "suffix") == 0 {
		x = append(x, 'z')
		y = append(y, 'a')
	}
	c := &OrderCase{X: hexOf(x), Y: hexOf(y), First: rapid.IntRange(0, 7).Draw(t, "first")}
	c.XRepr = orderReprs[rapid.IntRange(0, len(orderReprs)-1).Draw(t, "xr")]
	c.YRepr = orderReprs[rapid.IntRange(0, len(orderReprs)-1).Draw(t, "yr")]
	if rapid.IntRange(0, 1).Draw(t, "both-imported") == 0 {
		c.XRepr, c.YRepr = "imported", "imported"
	}
	return c
}

// bindOrder makes the value v available as global `name` in the requested storage, without reading it.
func bindOrder(vm *goja.Runtime, name string, v strref.Str, repr string) (string, error) {
	gs := strref.ToGoLossy(v)
	switch repr {
	case "imported":
		return "", vm.Set(name, string(append([]byte(nil), gs...)))
	case "imported-concat":
		// split at a rune boundary
		k := len(gs) / 2
		for k > 0 && k < len(gs) && gs[k]&0xc0 == 0x80 {
			k--
		}
		if err := vm.Set(name+"1", string(append([]byte(nil), gs[:k]...))); err != nil {
			return "", err
		}
		if err := vm.Set(name+"2", string(append([]byte(nil), gs[k:]...))); err != nil {
			return "", err
		}
		return fmt.Sprintf("var %s = %s1 + %s2;\n", name, name, name), nil
	case "imported-slice":
		if err := vm.Set(name+"w", "0123456789abcdefg"+gs+"é"); err != nil {
			return "", err
		}
		return fmt.Sprintf("var %s = %sw.slice(17, %d);\n", name, name, 17+len(v)), nil
	case "utf16":
		return "", vm.Set(name, goja.StringFromUTF16(append([]uint16(nil), v...)))
	case "fromCharCode":
		var parts []string
		for _, u := range v {
			parts = append(parts, strconv.Itoa(int(u)))
		}
		return fmt.Sprintf("var %s = String.fromCharCode(%s);\n", name, strings.Join(parts, ",")), nil
	default:
		return fmt.Sprintf("var %s = %s;\n", name, lit(v, 1)), nil
	}
}

var orderOps = []string{"X<Y", "X>Y", "X<=Y", "X>=Y", "Y<X", "[X,Y].sort()[0]===X", "[Y,X].sort()[0]===X", "[Y,X].sort(function(a,b){return a<b?-1:a>b?1:0})[0]===X"}

func judgeOrder(c *OrderCase) *evid.Failure {
	fail := func(key, msg string, exp, obs interface{}) *evid.Failure {
		return &evid.Failure{Check: "order", Key: key, Msg: msg, Case: c, Expected: exp, Observed: obs}
	}
	x, err1 := unhex(c.X)
	y, err2 := unhex(c.Y)
	if err1 != nil || err2 != nil {
		return fail("harness", "bad case", nil, nil)
	}
	cmp := strref.Compare(x, y)
	firstX := cmp <= 0 // which one sort puts first (equal strings: either is "X" by value)
	want := []bool{cmp < 0, cmp > 0, cmp <= 0, cmp >= 0, cmp > 0, firstX, firstX, firstX}
	vm := goja.New()
	var pre strings.Builder
	for _, b := range []struct {
		n string
		v strref.Str
		r string
	}{{"X", x, c.XRepr}, {"Y", y, c.YRepr}} {
		s, err := bindOrder(vm, b.n, b.v, b.r)
		if err != nil {
			return fail("harness", "bind: "+err.Error(), nil, nil)
		}
		pre.WriteString(s)
	}
	var sb strings.Builder
	sb.WriteString("(function(){\n" + pre.String() + "var r = [];\n")
	for i := 0; i < len(orderOps); i++ {
		j := (i + c.First) % len(orderOps)
		op := orderOps[j]
		if strings.Contains(op, "sort") && cmp == 0 {
			op = "true"
		}
		fmt.Fprintf(&sb, "r[%d] = (%s);\n", j, op)
	}
	sb.WriteString("return JSON.stringify(r);\n})()")
	o := jsx.RunString(vm, sb.String())
	if o.Kind != "value" {
		return fail("outcome:"+o.Kind, "comparison script did not complete: "+o.Text+"\n"+sb.String(), nil, o.Text)
	}
	var got []bool
	if err := json.Unmarshal([]byte(o.Value.String()), &got); err != nil || len(got) != len(want) {
		return fail("harness", "unexpected result "+o.Value.String(), nil, nil)
	}
	for i := range want {
		w := want[i]
		if strings.Contains(orderOps[i], "sort") && cmp == 0 {
			w = true
		}
		if got[i] != w {
			first := orderOps[c.First%len(orderOps)]
			return fail("order:"+orderOps[i]+":"+c.XRepr+"/"+c.YRepr,
				fmt.Sprintf("%s is %v, code-unit order says %v (X=[%s] as %s, Y=[%s] as %s; first comparison executed: %s)", orderOps[i], got[i], w, unitsDec(x), c.XRepr, unitsDec(y), c.YRepr, first), w, got[i])
		}
	}
	// Go API: String.CompareTo on freshly made values
	vm2 := goja.New()
	mk := func(v strref.Str, repr string) goja.Value {
		if repr == "utf16" || strref.HasLoneSurrogate(v) {
			return goja.StringFromUTF16(append([]uint16(nil), v...))
		}
		return vm2.ToValue(string(append([]byte(nil), strref.ToGoLossy(v)...)))
	}
	xv, yv := mk(x, c.XRepr), mk(y, c.YRepr)
	if xs, ok := xv.(goja.String); ok {
		if ys, ok := yv.(goja.String); ok {
			g := xs.CompareTo(ys)
			sign := func(n int) int {
				switch {
				case n < 0:
					return -1
				case n > 0:
					return 1
				}
				return 0
			}
			if sign(g) != sign(cmp) {
				return fail("order:CompareTo:"+c.XRepr+"/"+c.YRepr, fmt.Sprintf("String.CompareTo gives %d, code-unit order %d (X=[%s], Y=[%s])", g, cmp, unitsDec(x), unitsDec(y)), cmp, g)
			}
		}
	}
	return nil
}

func TestQuickOrder(t *testing.T) {
	evid.Check(t, "order", 6000, 3, func(t *rapid.T) {
		c := genOrder(t)
		x, _ := unhex(c.X)
		y, _ := unhex(c.Y)
		// non-trivial: code-unit order and code-point order of the two strings differ
		gx, gy := strref.ToGoLossy(x), strref.ToGoLossy(y)
		cpOrder := strings.Compare(gx, gy)
		cuOrder := strref.Compare(x, y)
		differ := (cpOrder < 0) != (cuOrder < 0) || (cpOrder > 0) != (cuOrder > 0)
		evid.Case("order:"+c.X+":"+c.Y+":"+c.XRepr+":"+c.YRepr+":"+strconv.Itoa(c.First), differ)
		if differ {
			evid.Count("order:utf8-vs-utf16-differ")
		}
		evid.Count("order-repr:" + c.XRepr + "/" + c.YRepr)
		evid.Sample("order", c)
		evid.Judge(t, judgeOrder(c))
	})
}
