//go:build verif

package c06

import (
	"fmt"
	"math"
	"strconv"
	"strings"

	"pgregory.net/rapid"

	"verifh/internal/evid"
	"verifh/internal/jsx"
	"verifh/internal/strref"
)

type Str = strref.Str

var (
	nan = math.NaN()
	inf = math.Inf(1)
)

// Step is one statement "var <Name> = <Src>;" of the generated script together
// with the value the reference model predicts for it.
type Step struct {
	Name string `json:"n"`
	Op   string `json:"op"`   // operation label (for failure keys and class counters)
	Src  string `json:"src"`  // JS expression; refers to earlier steps and Go globals by name
	U    string `json:"u"`    // expected UTF-16 code units, 4 hex digits each
	Lone bool   `json:"lone"` // some operand contains an unpaired surrogate
}

// GoVal is a Go string bound as a global with vm.Set before the script runs.
type GoVal struct {
	Name string `json:"name"`
	Val  string `json:"val"` // valid UTF-8
}

// Case is a self-contained generated case: two step sequences ending in the
// steps named A and B whose reference values are equal.
type Case struct {
	Steps []Step  `json:"steps"`
	A     string  `json:"a"`
	B     string  `json:"b"`
	Go    []GoVal `json:"go"`
	// P names the step holding a third string against which A and B are
	// compared and searched; PPos is the position argument used with it
	// ("undefined", "NaN", "Infinity", "-Infinity" or a decimal integer).
	P    string `json:"p,omitempty"`
	PPos string `json:"ppos,omitempty"`
}

// ex is an expression usable as an operand: a step name or an inline literal.
type ex struct {
	src string
	val Str
}

type genCtx struct {
	t     *rapid.T
	steps []Step
	gos   []GoVal
	cnt   int
	ops   map[string]int
}

const maxLen = 160  // no generated value is longer than this many code units
const maxSteps = 36 // soft bound on the number of steps of one case

func (g *genCtx) n(lo, hi int) int {
	if hi <= lo {
		return lo
	}
	return rapid.IntRange(lo, hi).Draw(g.t, "n")
}
func (g *genCtx) chance(pct int) bool { return rapid.IntRange(0, 99).Draw(g.t, "p") < pct }

func hexOf(s Str) string {
	var sb strings.Builder
	for _, c := range s {
		fmt.Fprintf(&sb, "%04x", c)
	}
	return sb.String()
}

func unhex(h string) (Str, error) {
	if len(h)%4 != 0 {
		return nil, fmt.Errorf("bad unit string")
	}
	out := make(Str, 0, len(h)/4)
	for i := 0; i < len(h); i += 4 {
		v, err := strconv.ParseUint(h[i:i+4], 16, 16)
		if err != nil {
			return nil, err
		}
		out = append(out, uint16(v))
	}
	return out, nil
}

func (g *genCtx) emit(op, src string, val Str, lone bool) ex {
	g.cnt++
	name := "t" + strconv.Itoa(g.cnt)
	g.steps = append(g.steps, Step{Name: name, Op: op, Src: src, U: hexOf(val), Lone: lone})
	g.ops[op]++
	return ex{name, val}
}

func anyLone(vs ...Str) bool {
	for _, v := range vs {
		if strref.HasLoneSurrogate(v) {
			return true
		}
	}
	return false
}

// ---------------------------------------------------------------------------
// values

var poolASCII = []uint16{'a', 'b', 'c', 'x', 'y', 'z', 'A', 'B', 'Z', 'I', 'i', 's', 'S', '0', '1', '9', ' ', ' ', '_', '-', '$', '$', '%', '"', '\\', '\'', '`', '/', '.', '*', '+', '?', '(', ')', '[', ']', '{', '}', '|', '^', ',', ';', ':', '&', '<', '>', '\t', '\n', '\r', 0x0b, 0x0c, 0x00, 0x7f, 'e', 'n', 'u', '='}
var poolLatin1 = []uint16{0xe9, 0xe9, 0xc9, 0xdf, 0xff, 0xb5, 0xe0, 0xf1, 0xd6, 0xd7, 0xf7, 0xa0, 0xad, 0x80, 0xaa, 0xfe, 0xde, 0xc0}
var poolBMP = []uint16{0x3b1, 0x3a3, 0x3c3, 0x3c2, 0x3a9, 0x391, 0x430, 0x42f, 0x451, 0x400, 0x44f, 0x4e2d, 0x4e00, 0x3042, 0x20ac, 0x2603, 0x2003, 0xfeff, 0x2028, 0x2029, 0x3000, 0x130, 0x131, 0x178, 0x17f, 0x1e9e, 0xfffd, 0xffff, 0x100, 0x307, 0x212a, 0x212a, 0x2126, 0x1680, 0x202f, 0x205f}
var poolAstral = []rune{0x1f600, 0x1f64f, 0x1f603, 0x10400, 0x10427, 0x10428, 0x1044f, 0x10000, 0x10ffff, 0x1d11e}
var poolLone = []uint16{0xd800, 0xdbff, 0xdc00, 0xdfff, 0xd83d, 0xde00, 0xd801}
var poolWords = []string{"0", "1", "7", "9", "10", "-0", "01", "1e3", "4294967294", "4294967295", "2147483648", "1.5", "Infinity", "NaN", "length", "__proto__", "constructor", "toString", "undefined", "null", "true", "$&", "$1", "$$", "$'", "$`", "$<a>", "%41", "%u0041", "%E9", "\\u0041"}

func (g *genCtx) unit(class int) Str {
	switch class {
	case 0:
		return Str{poolASCII[g.n(0, len(poolASCII)-1)]}
	case 1:
		return Str{poolLatin1[g.n(0, len(poolLatin1)-1)]}
	case 2:
		return Str{poolBMP[g.n(0, len(poolBMP)-1)]}
	case 3:
		return strref.AppendCodePoint(nil, poolAstral[g.n(0, len(poolAstral)-1)])
	default:
		return Str{poolLone[g.n(0, len(poolLone)-1)]}
	}
}

// value draws a string value; the class label is counted by the caller.
func (g *genCtx) value() (Str, string) {
	cls := g.n(0, 19)
	var l int
	switch k := g.n(0, 99); {
	case k < 3:
		l = 0
	case k < 28:
		l = g.n(1, 3)
	case k < 68:
		l = g.n(4, 12)
	case k < 88:
		l = g.n(13, 20)
	default:
		l = g.n(21, 40)
	}
	mix := func(weights [5]int) Str {
		total := 0
		for _, w := range weights {
			total += w
		}
		out := Str{}
		for len(out) < l {
			k := g.n(0, total-1)
			c := 0
			for k >= weights[c] {
				k -= weights[c]
				c++
			}
			out = append(out, g.unit(c)...)
		}
		return out
	}
	switch {
	case cls < 6:
		return mix([5]int{1, 0, 0, 0, 0}), "ascii"
	case cls < 9:
		return mix([5]int{5, 3, 0, 0, 0}), "latin1"
	case cls < 12:
		return mix([5]int{5, 1, 3, 0, 0}), "bmp"
	case cls < 14:
		return mix([5]int{5, 1, 1, 3, 0}), "astral"
	case cls < 16:
		return mix([5]int{5, 1, 1, 1, 3}), "lone"
	case cls < 18:
		return mix([5]int{8, 1, 1, 1, 1}), "mostly-ascii"
	default:
		return strref.FromGo(poolWords[g.n(0, len(poolWords)-1)]), "word"
	}
}

// short non-ASCII filler used by representation-changing edits
func (g *genCtx) nonASCII() Str {
	l := g.n(1, 2)
	out := Str{}
	for len(out) < l {
		out = append(out, g.unit(g.n(1, 4))...)
	}
	return out
}

// ---------------------------------------------------------------------------
// literal printers

func printable(c uint16) bool { return c >= 0x20 && c < 0x7f }

// lit prints a JS string literal denoting v. style: 0 double quoted with raw
// non-ASCII, 1 double quoted ASCII-only source, 2 single quoted raw, 3 template
// literal, 4 \x / \u{...} escapes, 5 template literal with ASCII-only source.
func lit(v Str, style int) string {
	var sb strings.Builder
	q := byte('"')
	switch style {
	case 2:
		q = '\''
	case 3, 5:
		q = '`'
	}
	tmpl := q == '`'
	if style == 5 {
		style = 1
	}
	sb.WriteByte(q)
	for i := 0; i < len(v); i++ {
		c := v[i]
		switch {
		case c == uint16(q) || c == '\\':
			sb.WriteByte('\\')
			sb.WriteByte(byte(c))
		case c == '$' && tmpl:
			sb.WriteString(`\$`)
		case c == '\n':
			sb.WriteString(`\n`)
		case c == '\r':
			sb.WriteString(`\r`)
		case c == '\t' && style != 4:
			sb.WriteString(`\t`)
		case printable(c):
			sb.WriteByte(byte(c))
		case c < 0x100 && style == 4:
			fmt.Fprintf(&sb, `\x%02x`, c)
		case c < 0x80 || c == 0x2028 || c == 0x2029:
			fmt.Fprintf(&sb, `\u%04x`, c)
		case strref.IsHigh(c) && i+1 < len(v) && strref.IsLow(v[i+1]):
			cp := (rune(c)-0xD800)<<10 + (rune(v[i+1]) - 0xDC00) + 0x10000
			switch style {
			case 1:
				fmt.Fprintf(&sb, `\u%04x\u%04x`, c, v[i+1])
			case 4:
				fmt.Fprintf(&sb, `\u{%x}`, cp)
			default:
				sb.WriteRune(cp)
			}
			i++
		case strref.IsSurrogate(c):
			fmt.Fprintf(&sb, `\u%04x`, c)
		case style == 1:
			fmt.Fprintf(&sb, `\u%04X`, c)
		case style == 4:
			fmt.Fprintf(&sb, `\u{%x}`, c)
		default:
			sb.WriteRune(rune(c))
		}
	}
	sb.WriteByte(q)
	return sb.String()
}

func (g *genCtx) lit(v Str) string { return lit(v, g.n(0, 5)) }

// tmplChunk prints v as the literal text part of a template literal.
func tmplChunk(v Str, raw bool) string {
	st := 3
	if !raw {
		st = 5
	}
	s := lit(v, st)
	return s[1 : len(s)-1]
}

func num(a strref.Arg) string {
	if a.Undef {
		return "undefined"
	}
	return jsx.NumLit(a.V)
}

// regexSrc returns the source of a pattern matching exactly the code unit
// sequence v (every syntax character escaped; no classes, groups or
// quantifiers). rawOK allows non-ASCII characters to appear unescaped.
func regexSrc(v Str, rawOK bool) string {
	if len(v) == 0 {
		return "(?:)"
	}
	var sb strings.Builder
	for i := 0; i < len(v); i++ {
		c := v[i]
		switch {
		case strings.ContainsRune(`\^$.*+?()[]{}|/`, rune(c)) && c < 0x80:
			sb.WriteByte('\\')
			sb.WriteByte(byte(c))
		case printable(c):
			sb.WriteByte(byte(c))
		case rawOK && c >= 0xa0 && !strref.IsSurrogate(c) && c != 0x2028 && c != 0x2029 && c != 0xfeff:
			sb.WriteRune(rune(c))
		default:
			fmt.Fprintf(&sb, `\u%04x`, c)
		}
	}
	return sb.String()
}

// ---------------------------------------------------------------------------
// leaves

func (g *genCtx) goVar(s string) string {
	name := "g" + strconv.Itoa(len(g.gos))
	g.gos = append(g.gos, GoVal{Name: name, Val: s})
	if len(s) <= 16 {
		evid.Count("go:le16")
	} else {
		evid.Count("go:gt16")
	}
	return name
}

func unitArgs(g *genCtx, v Str) string {
	parts := make([]string, len(v))
	for i, c := range v {
		x := int(c)
		switch g.n(0, 9) {
		case 0:
			x += 0x10000 * g.n(1, 3) // ToUint16 wraps
			parts[i] = strconv.Itoa(x)
		case 1:
			parts[i] = "0x" + strconv.FormatInt(int64(x), 16)
		case 2:
			parts[i] = `"` + strconv.Itoa(x) + `"`
		default:
			parts[i] = strconv.Itoa(x)
		}
	}
	return strings.Join(parts, ",")
}

// leaf produces an operand with value v by a randomly chosen origin.
// inlineOK allows a plain literal to be returned without a step of its own.
func (g *genCtx) leaf(v Str, inlineOK bool) ex {
	wf := !strref.HasLoneSurrogate(v)
	for {
		switch g.n(0, 12) {
		case 12:
			// NFKC maps the fullwidth forms U+FF01..FF5E to U+0021..007E and U+3000 to U+0020
			// (their <wide> compatibility decompositions): a non-ASCII origin of an ASCII value
			if len(v) == 0 || len(v) > 40 {
				continue
			}
			ok := true
			for _, c := range v {
				if c < 0x20 || c > 0x7e {
					ok = false
				}
			}
			if !ok {
				continue
			}
			w := strref.Clone(v)
			k := g.n(0, len(w)-1)
			for i := range w {
				if i == k || g.chance(40) {
					if w[i] == 0x20 {
						w[i] = 0x3000
					} else {
						w[i] = w[i] - 0x21 + 0xff01
					}
				}
			}
			form := "NFKC"
			if g.chance(30) {
				form = "NFKD"
			}
			return g.emit("normalize:"+form+"(fullwidth)", g.lit(w)+`.normalize("`+form+`")`, v, false)
		case 0, 1, 2, 3:
			if inlineOK {
				return ex{g.lit(v), v}
			}
			return g.emit("literal", g.lit(v), v, anyLone(v))
		case 4:
			if len(v) > 40 {
				continue
			}
			return g.emit("fromCharCode", "String.fromCharCode("+unitArgs(g, v)+")", v, anyLone(v))
		case 5:
			if len(v) > 40 {
				continue
			}
			var parts []string
			if g.chance(50) {
				for _, cp := range strref.CodePoints(v) {
					parts = append(parts, strconv.Itoa(int(cp)))
				}
			} else {
				for _, c := range v {
					parts = append(parts, "0x"+strconv.FormatInt(int64(c), 16))
				}
			}
			return g.emit("fromCodePoint", "String.fromCodePoint("+strings.Join(parts, ",")+")", v, anyLone(v))
		case 6, 7:
			if !wf {
				evid.Excluded("go-string-cannot-carry-lone-surrogate")
				continue
			}
			return g.emit("go", g.goVar(strref.ToGoLossy(v)), v, false)
		case 8:
			if !wf {
				evid.Excluded("JSON.parse-lone-surrogate(README: documented incompatibility)")
				continue
			}
			return g.emit("JSON.parse", "JSON.parse("+g.lit(g.jsonText(v))+")", v, false)
		case 9:
			if len(v) < 2 {
				continue
			}
			k := g.n(1, len(v)-1)
			return g.emit("literal+literal", g.lit(v[:k])+" + "+g.lit(v[k:]), v, anyLone(v))
		case 10:
			return g.emit("unescape", "unescape("+g.lit(strref.Escape(v))+")", v, anyLone(v))
		case 11:
			if !wf {
				continue
			}
			enc, _ := strref.EncodeURIComponent(v)
			return g.emit("decodeURIComponent", "decodeURIComponent("+g.lit(enc)+")", v, false)
		}
	}
}

// jsonText returns a JSON text whose value is the string v: QuoteJSONString
// output, optionally with some characters written as \uXXXX escapes.
func (g *genCtx) jsonText(v Str) Str {
	if g.chance(60) {
		return strref.JSONQuote(v)
	}
	out := Str{'"'}
	for _, c := range v {
		if c < 0x20 || c == '"' || c == '\\' || c >= 0x7f || g.chance(15) {
			for _, h := range fmt.Sprintf(`\u%04x`, c) {
				out = append(out, uint16(h))
			}
		} else {
			out = append(out, c)
		}
	}
	return append(out, '"')
}

// argPair gives two independently produced operands with value v.
func (g *genCtx) argPair(v Str) (ex, ex) {
	return g.leaf(v, true), g.leaf(v, true)
}

// ---------------------------------------------------------------------------
// trees

func (g *genCtx) pair(depth int) (ex, ex) {
	if depth <= 0 || g.cnt > maxSteps || g.chance(12) {
		v, cls := g.value()
		evid.Count("value:" + cls)
		a, b := g.leaf(v, false), g.leaf(v, false)
		return a, g.maybeEdit(b, 35)
	}
	a, b := g.opNode(depth)
	if g.chance(12) {
		a = g.edit(a)
	}
	return a, g.maybeEdit(b, 45)
}

func (g *genCtx) maybeEdit(x ex, pct int) ex {
	if g.cnt <= maxSteps+10 && g.chance(pct) {
		x = g.edit(x)
		if g.cnt <= maxSteps+10 && g.chance(20) {
			x = g.edit(x)
		}
	}
	return x
}

func (g *genCtx) subOf(v Str) Str {
	if len(v) == 0 || g.chance(15) {
		s, _ := g.value()
		if len(s) > 3 {
			s = s[:g.n(0, 3)]
		}
		return strref.Clone(s)
	}
	i := g.n(0, len(v)-1)
	j := i + g.n(0, 3)
	if j > len(v) {
		j = len(v)
	}
	return strref.Clone(v[i:j])
}

func (g *genCtx) idxArg(l int, allowUndef bool) strref.Arg {
	switch k := g.n(0, 19); {
	case k == 0 && allowUndef:
		return strref.U()
	case k == 1:
		return strref.N(nan)
	case k == 2:
		return strref.N(inf)
	case k == 3:
		return strref.N(-inf)
	case k == 4:
		return strref.N(float64(g.n(-l-1, l+1)) + 0.5)
	case k == 5:
		return strref.N([]float64{2147483648, -2147483648, 4294967296, 9007199254740992, -9007199254740992, 1e21, -0.0}[g.n(0, 6)])
	default:
		return strref.I(g.n(-l-2, l+2))
	}
}

var opNames = []string{"concat", "concat", "template", "slice", "slice", "substring", "substr", "at", "charAt", "index", "pad", "pad", "repeat", "trim", "trim", "case", "case", "replace", "replace", "replace", "splitjoin", "splitjoin", "JSON.stringify", "spreadjoin", "normalize", "jsonroundtrip"}

func (g *genCtx) opNode(depth int) (ex, ex) {
	for try := 0; try < 8; try++ {
		op := opNames[g.n(0, len(opNames)-1)]
		switch op {
		case "concat":
			n := g.n(2, 3)
			var ka, kb []ex
			val := Str{}
			for i := 0; i < n; i++ {
				a, b := g.pair(depth - 1)
				ka, kb = append(ka, a), append(kb, b)
				val = append(val, a.val...)
			}
			if len(val) > maxLen {
				return ka[0], kb[0]
			}
			lone := anyLone(val)
			return g.concatStep(ka, val, lone), g.concatStep(kb, val, lone)
		case "template":
			n := g.n(1, 2)
			var ka, kb []ex
			chunks := []Str{}
			for i := 0; i <= n; i++ {
				c := Str{}
				if g.chance(60) {
					c = g.subOf(nil)
				}
				chunks = append(chunks, c)
			}
			val := strref.Clone(chunks[0])
			for i := 0; i < n; i++ {
				a, b := g.pair(depth - 1)
				ka, kb = append(ka, a), append(kb, b)
				val = append(val, a.val...)
				val = append(val, chunks[i+1]...)
			}
			if len(val) > maxLen {
				return ka[0], kb[0]
			}
			mk := func(k []ex) string {
				var sb strings.Builder
				sb.WriteByte('`')
				sb.WriteString(tmplChunk(chunks[0], g.chance(50)))
				for i, e := range k {
					sb.WriteString("${" + e.src + "}")
					sb.WriteString(tmplChunk(chunks[i+1], g.chance(50)))
				}
				sb.WriteByte('`')
				return sb.String()
			}
			lone := anyLone(val)
			return g.emit("template", mk(ka), val, lone), g.emit("template", mk(kb), val, lone)
		case "slice", "substring", "substr":
			a, b := g.pair(depth - 1)
			l := len(a.val)
			s, e := g.idxArg(l, false), g.idxArg(l, true)
			var val Str
			switch op {
			case "slice":
				val = strref.Slice(a.val, s, e)
			case "substring":
				val = strref.Substring(a.val, s, e)
			default:
				val = strref.Substr(a.val, s, e)
			}
			args := "(" + num(s) + "," + num(e) + ")"
			if e.Undef && g.chance(50) {
				args = "(" + num(s) + ")"
			}
			lone := anyLone(a.val)
			return g.emit(op, a.src+"."+op+args, val, lone), g.emit(op, b.src+"."+op+args, val, lone)
		case "at", "charAt", "index":
			a, b := g.pair(depth - 1)
			l := len(a.val)
			lone := anyLone(a.val)
			if l == 0 || (op == "charAt" && g.chance(20)) {
				p := g.idxArg(l, true)
				val := strref.CharAt(a.val, p)
				return g.emit("charAt", a.src+".charAt("+num(p)+")", val, lone), g.emit("charAt", b.src+".charAt("+num(p)+")", val, lone)
			}
			i := g.n(0, l-1)
			val := Str{a.val[i]}
			switch op {
			case "at":
				p := i
				if g.chance(50) {
					p = i - l
				}
				if v2, ok := strref.At(a.val, strref.I(p)); !ok || !strref.Equal(v2, val) {
					panic("strref.At disagrees with itself")
				}
				return g.emit("at", a.src+".at("+strconv.Itoa(p)+")", val, lone), g.emit("at", b.src+".at("+strconv.Itoa(p)+")", val, lone)
			case "charAt":
				return g.emit("charAt", a.src+".charAt("+strconv.Itoa(i)+")", val, lone), g.emit("charAt", b.src+".charAt("+strconv.Itoa(i)+")", val, lone)
			default:
				ia, ib := "["+strconv.Itoa(i)+"]", "["+strconv.Itoa(i)+"]"
				if g.chance(30) {
					ib = `["` + strconv.Itoa(i) + `"]`
				}
				return g.emit("index", "("+a.src+")"+ia, val, lone), g.emit("index", "("+b.src+")"+ib, val, lone)
			}
		case "pad":
			a, b := g.pair(depth - 1)
			l := len(a.val)
			atStart := g.chance(50)
			name := "padEnd"
			if atStart {
				name = "padStart"
			}
			ml := strref.I(g.n(0, l+9))
			if g.chance(5) {
				ml = strref.N(nan)
			}
			if g.chance(25) {
				val := strref.Pad(a.val, ml, nil, true, atStart)
				args := "(" + num(ml) + ")"
				lone := anyLone(a.val)
				return g.emit(name, a.src+"."+name+args, val, lone), g.emit(name, b.src+"."+name+args, val, lone)
			}
			var fv Str
			if g.chance(70) {
				fv, _ = g.value()
				if len(fv) > 4 {
					fv = fv[:g.n(1, 4)]
				}
			} else {
				fv = append(g.subOf(nil), g.nonASCII()...)
			}
			fa, fb := g.argPair(fv)
			val := strref.Pad(a.val, ml, fv, false, atStart)
			lone := anyLone(a.val, fv)
			return g.emit(name, a.src+"."+name+"("+num(ml)+","+fa.src+")", val, lone), g.emit(name, b.src+"."+name+"("+num(ml)+","+fb.src+")", val, lone)
		case "repeat":
			a, b := g.pair(depth - 1)
			n := g.n(0, 3)
			if len(a.val)*n > maxLen {
				n = 1
			}
			val := strref.Repeat(a.val, n)
			lone := anyLone(a.val)
			return g.emit("repeat", a.src+".repeat("+strconv.Itoa(n)+")", val, lone), g.emit("repeat", b.src+".repeat("+strconv.Itoa(n)+")", val, lone)
		case "trim":
			a, b := g.pair(depth - 1)
			// give the operand something to trim: wrap with white space half of the time
			if g.chance(60) {
				ws := Str{}
				for i := g.n(1, 2); i > 0; i-- {
					ws = append(ws, []uint16{' ', '\t', '\n', 0xa0, 0x2003, 0xfeff, 0x2028, 0x3000, 0x0b, 0x1680}[g.n(0, 9)])
				}
				w1, w2 := g.argPair(ws)
				v := strref.Concat(ws, a.val, ws)
				if len(v) <= maxLen {
					lone := anyLone(v)
					a = g.emit("+", w1.src+" + "+a.src+" + "+w1.src, v, lone)
					b = g.emit("concat()", concatOf(w2.src, b.src, w2.src), v, lone)
				}
			}
			where := g.n(0, 2)
			name := []string{"trim", "trimStart", "trimEnd"}[where]
			nb := name
			if g.chance(15) {
				nb = []string{"trim", "trimLeft", "trimRight"}[where]
			}
			val := strref.Trim(a.val, where)
			lone := anyLone(a.val)
			return g.emit(name, a.src+"."+name+"()", val, lone), g.emit(name, b.src+"."+nb+"()", val, lone)
		case "case":
			a, b := g.pair(depth - 1)
			lower := g.chance(50)
			if !strref.CaseEligible(a.val, lower) {
				evid.Excluded("case-mapping-outside-modelled-alphabet")
				if g.chance(50) {
					return a, b
				}
				continue
			}
			var val Str
			name := "toUpperCase"
			if lower {
				name = "toLowerCase"
				val = strref.ToLower(a.val)
			} else {
				val = strref.ToUpper(a.val)
			}
			nb := name
			if g.chance(15) {
				nb = strings.Replace(name, "to", "toLocale", 1)
			}
			lone := anyLone(a.val)
			return g.emit(name, a.src+"."+name+"()", val, lone), g.emit(name, b.src+"."+nb+"()", val, lone)
		case "replace":
			a, b := g.pair(depth - 1)
			all := g.chance(50)
			search := g.subOf(a.val)
			var repl Str
			switch g.n(0, 3) {
			case 0:
				repl = Str{}
			case 1:
				repl = g.subOf(nil)
			case 2:
				repl = append(g.subOf(nil), strref.FromGo([]string{"$&", "$$", "$`", "$'", "$1", "$<x>", "$", "$0", "$12"}[g.n(0, 8)])...)
				repl = append(repl, g.subOf(nil)...)
			default:
				repl = g.nonASCII()
			}
			if len(a.val)*(len(repl)+len(a.val)+1) > 4*maxLen {
				repl = Str{}
			}
			// literalRepl: the replacement is returned by a function (no $ expansion)
			literalRepl := g.chance(25)
			var val Str
			if all {
				val = strref.ReplaceAll(a.val, search, repl, literalRepl)
			} else {
				val = strref.Replace(a.val, search, repl, literalRepl)
			}
			if len(val) > maxLen {
				return a, b
			}
			lone := anyLone(a.val, search, repl)
			sa, oa := g.replaceSrc(a, search, repl, all, literalRepl)
			sb, ob := g.replaceSrc(b, search, repl, all, literalRepl)
			return g.emit(oa, sa, val, lone), g.emit(ob, sb, val, lone)
		case "splitjoin":
			a, b := g.pair(depth - 1)
			sep := g.subOf(a.val)
			sepUndef := g.chance(4)
			limit := int64(-1)
			if g.chance(25) {
				limit = int64(g.n(0, 4))
			}
			var joiner Str
			joinUndef := false
			switch g.n(0, 4) {
			case 0:
				joiner = Str{}
			case 1:
				joiner = strref.Clone(sep)
			case 2:
				joiner = g.nonASCII()
			case 3:
				joiner = g.subOf(nil)
			default:
				joinUndef = true
			}
			parts := strref.Split(a.val, sep, sepUndef, limit)
			val := strref.Join(parts, joiner, joinUndef)
			if len(val) > maxLen {
				return a, b
			}
			lone := anyLone(a.val, sep, joiner)
			sa, oa := g.splitSrc(a, sep, sepUndef, limit, joiner, joinUndef)
			sb, ob := g.splitSrc(b, sep, sepUndef, limit, joiner, joinUndef)
			return g.emit(oa, sa, val, lone), g.emit(ob, sb, val, lone)
		case "JSON.stringify":
			a, b := g.pair(depth - 1)
			val := strref.JSONQuote(a.val)
			if len(val) > maxLen {
				return a, b
			}
			lone := anyLone(a.val)
			sb := "JSON.stringify(" + b.src + ")"
			if g.chance(20) {
				sb = "JSON.stringify([" + b.src + "]).slice(1,-1)"
			}
			return g.emit("JSON.stringify", "JSON.stringify("+a.src+")", val, lone), g.emit("JSON.stringify", sb, val, lone)
		case "jsonroundtrip":
			a, b := g.pair(depth - 1)
			if anyLone(a.val) {
				evid.Excluded("JSON.parse-lone-surrogate(README: documented incompatibility)")
				continue
			}
			return g.emit("JSON.parse(JSON.stringify)", "JSON.parse(JSON.stringify("+a.src+"))", a.val, false),
				g.emit("JSON.parse(JSON.stringify)", "JSON.parse(JSON.stringify({k:["+b.src+"]})).k[0]", a.val, false)
		case "spreadjoin":
			a, b := g.pair(depth - 1)
			var sep Str
			if g.chance(50) {
				sep = g.subOf(nil)
			}
			byUnit := g.chance(30)
			var parts []Str
			if byUnit {
				parts = strref.Split(a.val, Str{}, false, -1)
			} else {
				parts = strref.SpreadParts(a.val)
			}
			val := strref.Join(parts, sep, false)
			if len(val) > maxLen {
				return a, b
			}
			s1, s2 := g.argPair(sep)
			forms := []string{"[...%s].join(%s)", "Array.from(%s).join(%s)", "Array.from(%s, function(c){return c}).join(%s)", "(function(s,j){var r=[];for(var c of s)r.push(c);return r.join(j)})(%s,%s)"}
			op := "spread+join"
			if byUnit {
				forms = []string{"%s.split(\"\").join(%s)", "Array.prototype.map.call(%s, function(c){return c}).join(%s)", "Object.values(%s).join(%s)", "Array.from({length:%[1]s.length}, function(_,i){return %[1]s[i]}).join(%[2]s)"}
				op = "units+join"
			}
			lone := anyLone(a.val, sep)
			return g.emit(op, fmt.Sprintf(forms[g.n(0, len(forms)-1)], a.src, s1.src), val, lone),
				g.emit(op, fmt.Sprintf(forms[g.n(0, len(forms)-1)], b.src, s2.src), val, lone)
		case "normalize":
			a, b := g.pair(depth - 1)
			if !strref.AllNormInert(a.val) {
				evid.Excluded("normalize-of-non-inert-text(no independent tables)")
				continue
			}
			form := []string{"", `"NFC"`, `"NFD"`, `"NFKC"`, `"NFKD"`}
			lone := anyLone(a.val)
			return g.emit("normalize", a.src+".normalize("+form[g.n(0, 4)]+")", a.val, lone), g.emit("normalize", b.src+".normalize("+form[g.n(0, 4)]+")", a.val, lone)
		}
	}
	v, _ := g.value()
	return g.leaf(v, false), g.leaf(v, false)
}

// concatOf prints a concatenation by the concat method on an empty receiver.
func concatOf(parts ...string) string {
	return `"".concat(` + strings.Join(parts, ",") + `)`
}

func (g *genCtx) concatStep(k []ex, val Str, lone bool) ex {
	srcs := make([]string, len(k))
	for i, e := range k {
		srcs[i] = e.src
	}
	switch g.n(0, 8) {
	case 7:
		return g.sbStep(k, val, lone)
	case 8:
		return g.emit("String.raw", "String.raw`${"+strings.Join(srcs, "}${")+"}`", val, lone)
	case 0, 1:
		return g.emit("+", strings.Join(srcs, " + "), val, lone)
	case 2:
		return g.emit("concat()", "("+srcs[0]+").concat("+strings.Join(srcs[1:], ",")+")", val, lone)
	case 3:
		return g.emit("template", "`${"+strings.Join(srcs, "}${")+"}`", val, lone)
	case 4:
		return g.emit("join", "["+strings.Join(srcs, ",")+`].join("")`, val, lone)
	case 5:
		return g.emit("concat()", concatOf(srcs...), val, lone)
	default:
		body := "var s=" + srcs[0] + ";"
		for _, s := range srcs[1:] {
			body += " s+=" + s + ";"
		}
		return g.emit("+=", "(function(){"+body+" return s})()", val, lone)
	}
}

// sbStep builds the concatenation of k on the Go side with goja.StringBuilder
// (bound as __sb, see judge): "S" WriteString, "U" WriteUTF8String of the
// exported Go string, "B" WriteSubstring, "R" WriteRune per code point,
// "L" LikelyUnicode, "G" Grow.
func (g *genCtx) sbStep(k []ex, val Str, lone bool) ex {
	var args []string
	if g.chance(30) {
		args = append(args, `"L"`, strconv.Itoa(g.n(0, 8)))
	} else if g.chance(20) {
		args = append(args, `"G"`, strconv.Itoa(g.n(0, 8)))
	}
	for _, e := range k {
		l := len(e.val)
		switch m := g.n(0, 5); {
		case m == 0 && !anyLone(e.val):
			args = append(args, `"U"`, e.src)
		case m == 1 && l > 0:
			c := g.n(0, l)
			args = append(args, `"B"`, e.src, "0", strconv.Itoa(c), `"B"`, e.src, strconv.Itoa(c), strconv.Itoa(l))
		case m == 2 && l <= 6:
			for _, cp := range strref.CodePoints(e.val) {
				args = append(args, `"R"`, strconv.Itoa(int(cp)))
			}
		case m == 3 && l > 0:
			args = append(args, `"B"`, e.src, "0", strconv.Itoa(l))
		default:
			args = append(args, `"S"`, e.src)
		}
		if g.chance(10) {
			args = append(args, `"L"`, "1")
		}
	}
	return g.emit("go:StringBuilder", "__sb("+strings.Join(args, ",")+")", val, lone)
}

// patternSrc prints the search/separator operand: a string operand, a regular
// expression literal or a RegExp constructor call that matches exactly the code
// unit sequence pat. global adds the g flag. It returns the source and a label.
func (g *genCtx) patternSrc(subject, pat Str, global bool) (string, string) {
	mode := g.n(0, 5)
	flags := ""
	if global {
		flags = "g"
	}
	if mode > 2 {
		for _, c := range pat {
			if c == 0xffff {
				// known defect of the regexp2 library (literal prefix starting with U+FFFF is not found);
				// kept visible by the fixed probe in probes.go
				evid.Excluded("regexp-pattern-containing-U+FFFF(known regexp2 library defect)")
				mode = 0
			}
		}
	}
	switch mode {
	case 0, 1, 2:
		return g.leaf(pat, true).src, "str"
	}
	// the u flag changes matching to code points: only equivalent for
	// well-formed, non-empty patterns on well-formed subjects
	if len(pat) > 0 && !anyLone(pat, subject) && g.chance(25) {
		flags += "u"
	}
	if g.chance(15) {
		flags += "m"
	}
	if g.chance(15) {
		flags += "s"
	}
	if mode == 3 {
		return "/" + regexSrc(pat, g.chance(50)) + "/" + flags, "re"
	}
	src := strref.FromGo(regexSrc(pat, g.chance(50)))
	if len(pat) == 0 && g.chance(50) {
		src = Str{}
	}
	return "new RegExp(" + g.lit(src) + `,"` + flags + `")`, "re"
}

func (g *genCtx) replaceSrc(x ex, search, repl Str, all, literalRepl bool) (string, string) {
	method := "replace"
	if all && g.chance(70) {
		method = "replaceAll"
	}
	pat, kind := g.patternSrc(x.val, search, all)
	if kind == "str" && all {
		method = "replaceAll"
	}
	var r string
	if literalRepl {
		r = "function(){return " + g.leaf(repl, true).src + "}"
	} else {
		r = g.leaf(repl, true).src
	}
	return x.src + "." + method + "(" + pat + "," + r + ")", method + ":" + kind
}

func (g *genCtx) splitSrc(x ex, sep Str, sepUndef bool, limit int64, joiner Str, joinUndef bool) (string, string) {
	var pat, kind string
	if sepUndef {
		pat, kind = "undefined", "undef"
		if limit < 0 && g.chance(50) {
			pat = ""
		}
	} else {
		pat, kind = g.patternSrc(x.val, sep, false)
	}
	args := pat
	if limit >= 0 {
		args += "," + strconv.FormatInt(limit, 10)
	}
	j := ""
	if !joinUndef {
		j = g.leaf(joiner, true).src
	}
	return x.src + ".split(" + args + ").join(" + j + ")", "split:" + kind + "+join"
}

// ---------------------------------------------------------------------------
// value-preserving edits

// edit returns an operand with the same reference value as x reached by a
// different route. Every intermediate value is computed by strref; an edit
// whose result would differ from x.val (for instance because the inserted
// marker already occurs in x) is dropped.
func (g *genCtx) edit(x ex) ex {
	mark := len(g.steps)
	cnt := g.cnt
	gmark := len(g.gos)
	y, name := g.tryEdit(x)
	if name == "" || !strref.Equal(y.val, x.val) {
		// roll back the steps emitted by the rejected edit
		for _, s := range g.steps[mark:] {
			g.ops[s.Op]--
		}
		g.steps = g.steps[:mark]
		g.cnt = cnt
		g.gos = g.gos[:gmark]
		evid.Count("edit-dropped")
		return x
	}
	evid.Count("edit:" + name)
	return y
}

func (g *genCtx) tryEdit(x ex) (ex, string) {
	v := x.val
	l := len(v)
	wf := !strref.HasLoneSurrogate(v)
	lone := !wf
	switch g.n(0, 28) {
	case 0, 1: // (x + N).slice(0, -len N)
		nv := g.nonASCII()
		nx := g.leaf(nv, true)
		t1v := strref.Concat(v, nv)
		t1 := g.concatStep([]ex{x, nx}, t1v, anyLone(t1v))
		switch g.n(0, 3) {
		case 0:
			return g.emit("slice", t1.src+".slice(0,"+strconv.Itoa(-len(nv))+")", strref.Slice(t1v, strref.I(0), strref.I(-len(nv))), anyLone(t1v)), "append-slice"
		case 1:
			return g.emit("substring", t1.src+".substring(0,"+strconv.Itoa(l)+")", strref.Substring(t1v, strref.I(0), strref.I(l)), anyLone(t1v)), "append-substring"
		case 2:
			return g.emit("substr", t1.src+".substr(0,"+strconv.Itoa(l)+")", strref.Substr(t1v, strref.I(0), strref.I(l)), anyLone(t1v)), "append-substr"
		default:
			return g.emit("substring", t1.src+".substring("+strconv.Itoa(l)+",0)", strref.Substring(t1v, strref.I(l), strref.I(0)), anyLone(t1v)), "append-substring"
		}
	case 2: // (N + x).slice(len N)
		nv := g.nonASCII()
		nx := g.leaf(nv, true)
		t1v := strref.Concat(nv, v)
		t1 := g.concatStep([]ex{nx, x}, t1v, anyLone(t1v))
		k := len(nv)
		switch g.n(0, 2) {
		case 0:
			return g.emit("slice", t1.src+".slice("+strconv.Itoa(k)+")", strref.Slice(t1v, strref.I(k), strref.U()), anyLone(t1v)), "prepend-slice"
		case 1:
			return g.emit("substring", t1.src+".substring("+strconv.Itoa(k)+")", strref.Substring(t1v, strref.I(k), strref.U()), anyLone(t1v)), "prepend-substring"
		default:
			return g.emit("substr", t1.src+".substr("+strconv.Itoa(k)+")", strref.Substr(t1v, strref.I(k), strref.U()), anyLone(t1v)), "prepend-substr"
		}
	case 3, 4: // Go-imported twin
		if !wf {
			evid.Excluded("go-string-cannot-carry-lone-surrogate")
			return x, ""
		}
		return g.emit("go", g.goVar(strref.ToGoLossy(v)), v, false), "go-twin"
	case 5, 6: // slice of a longer Go string
		if !wf {
			evid.Excluded("go-string-cannot-carry-lone-surrogate")
			return x, ""
		}
		var pre, post Str
		wfSub := func() Str {
			s := g.subOf(nil)
			if anyLone(s) {
				return Str{}
			}
			return s
		}
		if g.chance(70) {
			pre = append(wfSub(), g.nonASCIIwf()...)
		}
		if g.chance(70) {
			post = append(g.nonASCIIwf(), wfSub()...)
		}
		if g.chance(50) {
			filler := strref.FromGo("0123456789abcdefg")
			if g.chance(50) {
				pre = append(filler, pre...)
			} else {
				post = append(post, filler...)
			}
		}
		whole := strref.Concat(pre, v, post)
		gv := g.emit("go", g.goVar(strref.ToGoLossy(whole)), whole, false)
		s, e := len(pre), len(pre)+l
		switch g.n(0, 2) {
		case 0:
			return g.emit("slice", gv.src+".slice("+strconv.Itoa(s)+","+strconv.Itoa(e)+")", strref.Slice(whole, strref.I(s), strref.I(e)), false), "go-slice"
		case 1:
			return g.emit("substring", gv.src+".substring("+strconv.Itoa(e)+","+strconv.Itoa(s)+")", strref.Substring(whole, strref.I(e), strref.I(s)), false), "go-substring"
		default:
			return g.emit("substr", gv.src+".substr("+strconv.Itoa(s)+","+strconv.Itoa(l)+")", strref.Substr(whole, strref.I(s), strref.I(l)), false), "go-substr"
		}
	case 7: // JSON.parse of the quoted text
		if !wf {
			evid.Excluded("JSON.parse-lone-surrogate(README: documented incompatibility)")
			return x, ""
		}
		return g.emit("JSON.parse", "JSON.parse("+g.leaf(g.jsonText(v), true).src+")", v, false), "json-parse-text"
	case 8, 9: // split at a random point and re-concatenate
		if l < 1 {
			return x, ""
		}
		k := g.n(0, l)
		p1, p2 := g.leaf(v[:k], true), g.leaf(v[k:], true)
		return g.concatStep([]ex{p1, p2}, strref.Concat(v[:k], v[k:]), lone), "resplit"
	case 10: // String.fromCharCode(...units)
		if l > 40 {
			return x, ""
		}
		if g.chance(50) {
			return g.emit("fromCharCode", "String.fromCharCode("+unitArgs(g, v)+")", v, lone), "fromCharCode"
		}
		return g.emit("fromCharCode", "String.fromCharCode.apply(null, "+x.src+".split(\"\").map(function(c){return c.charCodeAt(0)}))", v, lone), "fromCharCode-apply"
	case 11: // template
		k := g.n(0, l)
		p1, p2 := g.leaf(v[:k], false), g.leaf(v[k:], false)
		return g.emit("template", "`${"+p1.src+"}${"+p2.src+"}`", strref.Concat(v[:k], v[k:]), lone), "template"
	case 12, 13: // pad with non-ASCII, cut it off again
		nv := g.nonASCII()
		nx := g.leaf(nv, true)
		k := g.n(1, 4)
		if g.chance(50) {
			t1v := strref.Pad(v, strref.I(l+k), nv, false, false)
			t1 := g.emit("padEnd", x.src+".padEnd("+strconv.Itoa(l+k)+","+nx.src+")", t1v, anyLone(v, nv))
			return g.emit("slice", t1.src+".slice(0,"+strconv.Itoa(l)+")", strref.Slice(t1v, strref.I(0), strref.I(l)), anyLone(t1v)), "padEnd-slice"
		}
		t1v := strref.Pad(v, strref.I(l+k), nv, false, true)
		t1 := g.emit("padStart", x.src+".padStart("+strconv.Itoa(l+k)+","+nx.src+")", t1v, anyLone(v, nv))
		return g.emit("slice", t1.src+".slice("+strconv.Itoa(k)+")", strref.Slice(t1v, strref.I(k), strref.U()), anyLone(t1v)), "padStart-slice"
	case 14: // iterate and join
		forms := []string{"[...%s].join(\"\")", "Array.from(%s).join(\"\")", "%s.split(\"\").join(\"\")", "Array.from({length:%[1]s.length}, function(_,i){return %[1]s.charAt(i)}).join(\"\")", "%s.split(\"\").reverse().reverse().join(\"\")"}
		k := g.n(0, len(forms)-1)
		var val Str
		if k < 2 {
			val = strref.Join(strref.SpreadParts(v), Str{}, false)
		} else {
			val = strref.Join(strref.Split(v, Str{}, false, -1), Str{}, false)
		}
		return g.emit([]string{"spread+join", "spread+join", "units+join", "units+join", "units+join"}[k], fmt.Sprintf(forms[k], x.src), val, lone), "iterate-join"
	case 15, 16: // insert a marker, remove it by replace / split+join
		nv := g.nonASCII()
		k := g.n(0, l)
		whole := strref.Concat(v[:k], nv, v[k:])
		p1, nx, p2 := g.leaf(v[:k], true), g.leaf(nv, true), g.leaf(v[k:], true)
		var t1 ex
		if k == l && g.chance(50) {
			t1 = g.concatStep([]ex{x, nx}, whole, anyLone(whole))
		} else {
			t1 = g.concatStep([]ex{p1, nx, p2}, whole, anyLone(whole))
		}
		switch g.n(0, 2) {
		case 0:
			src, op := g.replaceSrc(t1, nv, Str{}, false, false)
			return g.emit(op, src, strref.Replace(whole, nv, Str{}, false), anyLone(whole)), "marker-replace"
		case 1:
			src, op := g.replaceSrc(t1, nv, Str{}, true, g.chance(30))
			return g.emit(op, src, strref.ReplaceAll(whole, nv, Str{}, false), anyLone(whole)), "marker-replaceAll"
		default:
			src, op := g.splitSrc(t1, nv, false, -1, Str{}, false)
			return g.emit(op, src, strref.Join(strref.Split(whole, nv, false, -1), Str{}, false), anyLone(whole)), "marker-split-join"
		}
	case 17: // JSON round trip
		if !wf {
			evid.Excluded("JSON.parse-lone-surrogate(README: documented incompatibility)")
			return x, ""
		}
		forms := []string{"JSON.parse(JSON.stringify(%s))", "JSON.parse(JSON.stringify([%s]))[0]", "JSON.parse(JSON.stringify({k:%s})).k", "Object.keys(JSON.parse(JSON.stringify({[%s]:1})))[0]", "JSON.parse('{' + JSON.stringify(%s) + ':1}', function(k,v){return typeof v===\"object\"?Object.keys(v)[0]:v})"}
		return g.emit("JSON.parse(JSON.stringify)", fmt.Sprintf(forms[g.n(0, len(forms)-1)], x.src), v, false), "json-roundtrip"
	case 18: // repeat and cut
		if 2*l > maxLen {
			return x, ""
		}
		t1v := strref.Repeat(v, 2)
		t1 := g.emit("repeat", x.src+".repeat(2)", t1v, lone)
		if g.chance(50) {
			return g.emit("slice", t1.src+".slice("+strconv.Itoa(l)+")", strref.Slice(t1v, strref.I(l), strref.U()), lone), "repeat-slice"
		}
		return g.emit("substr", t1.src+".substr(0,"+strconv.Itoa(l)+")", strref.Substr(t1v, strref.I(0), strref.I(l)), lone), "repeat-substr"
	case 19: // wrap in non-ASCII white space and trim
		ws := Str{[]uint16{0xa0, 0x2003, 0xfeff, 0x2028, 0x3000, 0x1680}[g.n(0, 5)]}
		wx := g.leaf(ws, true)
		switch g.n(0, 2) {
		case 0:
			t1v := strref.Concat(ws, v, ws)
			t1 := g.concatStep([]ex{wx, x, wx}, t1v, lone)
			return g.emit("trim", t1.src+".trim()", strref.Trim(t1v, 0), lone), "ws-trim"
		case 1:
			t1v := strref.Concat(ws, v)
			t1 := g.concatStep([]ex{wx, x}, t1v, lone)
			return g.emit("trimStart", t1.src+".trimStart()", strref.Trim(t1v, 1), lone), "ws-trimStart"
		default:
			t1v := strref.Concat(v, ws)
			t1 := g.concatStep([]ex{x, wx}, t1v, lone)
			return g.emit("trimEnd", t1.src+".trimEnd()", strref.Trim(t1v, 2), lone), "ws-trimEnd"
		}
	case 20: // case-map with a non-ASCII letter attached, cut it off
		lower := g.chance(50)
		if !strref.CaseEligible(v, lower) {
			return x, ""
		}
		var nv, mapped Str
		name := "toUpperCase"
		if lower {
			nv = Str{[]uint16{0xc9, 0x42f, 0x3a9, 0x178}[g.n(0, 3)]}
			mapped = strref.ToLower(strref.Concat(v, nv))
			name = "toLowerCase"
		} else {
			nv = Str{[]uint16{0xe9, 0x44f, 0x3c9, 0xff, 0xdf}[g.n(0, 4)]}
			mapped = strref.ToUpper(strref.Concat(v, nv))
		}
		t1v := strref.Concat(v, nv)
		t1 := g.concatStep([]ex{x, g.leaf(nv, true)}, t1v, lone)
		t2 := g.emit(name, t1.src+"."+name+"()", mapped, lone)
		return g.emit("slice", t2.src+".slice(0,"+strconv.Itoa(l)+")", strref.Slice(mapped, strref.I(0), strref.I(l)), lone), "case-slice"
	case 21: // normalize of inert text
		if !strref.AllNormInert(v) {
			return x, ""
		}
		return g.emit("normalize", x.src+".normalize("+[]string{"", `"NFC"`, `"NFD"`, `"NFKC"`, `"NFKD"`}[g.n(0, 4)]+")", v, lone), "normalize"
	case 22: // identity forms
		forms := []string{"String(%s)", "`${%s}`", "%s.toString()", "%s.valueOf()", "(%s).concat()", "%s + \"\"", "\"\" + %s", "%s.slice()", "%s.substring(0)", "%s.padEnd(0)", "Object(%s) + \"\"", "new String(%s).valueOf()", "[%s].join()", "[%s] + \"\"", "%s.split()[0]", "%s.replace(/(?:)/, \"\")", "%s.match(/[\\s\\S]*/)[0]", "%s.replace(/[\\s\\S]*/, \"$&\")", "/^[\\s\\S]*$/.exec(%s)[0]", "%s.repeat(1)", "%s.substr(0)"}
		k := g.n(0, len(forms)-1)
		return g.emit("ident:"+strings.ReplaceAll(forms[k], "%s", "x"), fmt.Sprintf(forms[k], x.src), v, lone), "identity-form"
	case 23: // round trip through a property key / symbol description
		forms := []string{"Object.keys({[%s]:1})[0]", "Reflect.ownKeys({[%s]:1})[0]", "Object.getOwnPropertyNames({[%s]:1})[0]", "Object.entries({[%s]:1})[0][0]", "(function(o){for(var k in o)return k})({[%s]:1})", "Symbol.keyFor(Symbol.for(%s))", "Symbol(%s).description", "(function(o,k){o[k]=1;return Object.keys(o)[0]})(Object.create(null),%s)", "new Map([[%s,1]]).keys().next().value", "Object.keys(Object.defineProperty({}, %s, {value:1,enumerable:true}))[0]", "({get [%s](){return 1}}, Object.getOwnPropertyNames(class{static [%[1]s](){}}).filter(function(k){return k!==\"length\"&&k!==\"name\"&&k!==\"prototype\"})[0])"}
		k := g.n(0, len(forms)-1)
		if k == len(forms)-1 {
			// static method keys "length", "name", "prototype" would be filtered / rejected
			s := strref.ToGoLossy(v)
			if s == "length" || s == "name" || s == "prototype" {
				return x, ""
			}
		}
		return g.emit("key:"+strings.ReplaceAll(forms[k], "%s", "x"), fmt.Sprintf(forms[k], x.src), v, lone), "key-roundtrip"
	case 24: // escape / URI round trips
		if wf && g.chance(50) {
			enc, _ := strref.EncodeURIComponent(v)
			t1 := g.emit("encodeURIComponent", "encodeURIComponent("+x.src+")", enc, false)
			return g.emit("decodeURIComponent", "decodeURIComponent("+t1.src+")", v, false), "uri-roundtrip"
		}
		t1 := g.emit("escape", "escape("+x.src+")", strref.Escape(v), lone)
		return g.emit("unescape", "unescape("+t1.src+")", v, lone), "escape-roundtrip"
	case 25: // split with limit
		nv := g.nonASCII()
		junk := g.subOf(nil)
		whole := strref.Concat(v, nv, junk)
		t1 := g.concatStep([]ex{x, g.leaf(nv, true), g.leaf(junk, true)}, whole, anyLone(whole))
		parts := strref.Split(whole, nv, false, 1)
		pat, kind := g.patternSrc(whole, nv, false)
		val := Str{}
		if len(parts) > 0 {
			val = parts[0]
		}
		return g.emit("split:"+kind+"[0]", t1.src+".split("+pat+",1)[0]", val, anyLone(whole)), "split-limit"
	case 26: // rebuild from code points
		if l > 40 {
			return x, ""
		}
		if g.chance(50) {
			var parts []string
			for _, cp := range strref.CodePoints(v) {
				parts = append(parts, strconv.Itoa(int(cp)))
			}
			return g.emit("fromCodePoint", "String.fromCodePoint("+strings.Join(parts, ",")+")", v, lone), "fromCodePoint"
		}
		return g.emit("fromCodePoint", "String.fromCodePoint.apply(null, Array.from("+x.src+", function(c){return c.codePointAt(0)}))", strref.FromCodePoints(strref.CodePoints(v)), lone), "fromCodePoint-apply"
	case 27:
		if !strings.HasPrefix(x.src, "t") {
			return x, ""
		}
		pre := g.leaf(g.nonASCII(), true)
		whole := strref.Concat(pre.val, v)
		t1 := g.concatStep([]ex{pre, x}, whole, anyLone(whole))
		k := len(pre.val)
		args := []string{`"B"`, t1.src, strconv.Itoa(k), strconv.Itoa(len(whole))}
		if g.chance(50) {
			args = append([]string{`"L"`, "4"}, args...)
		}
		if g.chance(30) {
			args = append(args, `"S"`, `""`)
		}
		return g.emit("go:StringBuilder", "__sb("+strings.Join(args, ",")+")", strref.Clone(whole[k:]), anyLone(whole)), "go-builder-substring"
	default: // a fresh leaf
		return g.leaf(v, false), "fresh-leaf"
	}
}

// nonASCIIwf is nonASCII without unpaired surrogates.
func (g *genCtx) nonASCIIwf() Str {
	l := g.n(1, 2)
	out := Str{}
	for len(out) < l {
		out = append(out, g.unit(g.n(1, 3))...)
	}
	return out
}

func genCase(t *rapid.T) *Case {
	g := &genCtx{t: t, ops: map[string]int{}}
	depth := g.n(0, 4)
	a, b := g.pair(depth)
	// the final operands must be steps
	if !strings.HasPrefix(a.src, "t") {
		a = g.emit("literal", a.src, a.val, anyLone(a.val))
	}
	if !strings.HasPrefix(b.src, "t") {
		b = g.emit("literal", b.src, b.val, anyLone(b.val))
	}
	if !strref.Equal(a.val, b.val) {
		panic("generator bug: pair values differ")
	}
	for _, s := range g.steps {
		op := s.Op
		if strings.HasPrefix(op, "ident:") {
			op = "ident"
		} else if strings.HasPrefix(op, "key:") {
			op = "key"
		}
		evid.Count("op:" + op)
	}
	evid.Count("depth:" + strconv.Itoa(depth))
	// the third string: related to the common value so that searches hit and comparisons are close
	u := a.val
	var pv Str
	pcls := ""
	switch k := g.n(0, 9); {
	case k < 3:
		pv, pcls = g.subOf(u), "substring"
	case k < 5 && len(u) > 0:
		pv = strref.Clone(u)
		i := g.n(0, len(pv)-1)
		pv[i] = g.unit(g.n(0, 4))[0]
		if g.chance(30) {
			pv = pv[:g.n(i+1, len(pv))]
		}
		pcls = "one-unit-changed"
	case k < 7:
		pv, pcls = strref.Concat(u, g.subOf(nil)), "extension"
		if g.chance(40) && len(u) > 0 {
			pv, pcls = strref.Clone(u[:g.n(0, len(u)-1)]), "prefix"
		}
	case k < 8:
		pv, pcls = strref.Clone(u), "equal"
	default:
		pv, _ = g.value()
		pcls = "random"
	}
	if len(pv) > maxLen {
		pv = pv[:maxLen]
	}
	evid.Count("third:" + pcls)
	pe := g.maybeEdit(g.leaf(pv, false), 30)
	ppos := []string{"undefined", "NaN", "Infinity", "-Infinity", "0", "1", "-1"}[g.n(0, 6)]
	if g.chance(60) {
		ppos = strconv.Itoa(g.n(-1, len(u)+1))
	}
	return &Case{Steps: g.steps, A: a.src, B: b.src, Go: g.gos, P: pe.src, PPos: ppos}
}
