//go:build verif

package c06

import (
	"fmt"
	"strconv"

	"github.com/dop251/goja"
	"pgregory.net/rapid"

	"verifh/internal/evid"
	"verifh/internal/jsx"
	"verifh/internal/strref"
)

// NormCase: String.prototype.normalize is only judged through relations that
// hold for every conforming normaliser (UAX #15): each form is idempotent,
// NFC(NFD(s)) = NFC(s), NFD(NFC(s)) = NFD(s), NFKC(NFKD(s)) = NFKC(s),
// NFKD(NFC(s)) = NFKD(s); ASCII text is unchanged; the result does not depend
// on how the operand is stored. The two results A and B then go through the
// same indistinguishability observers as every other pair.
type NormCase struct {
	S       string `json:"s"` // well-formed operand, hex code units
	Variant int    `json:"variant"`
}

var normForms = []string{"NFC", "NFD", "NFKC", "NFKD"}

var normPool = []rune{'a', 'e', 'A', 'o', ' ', '1', 'f', 'i', 0x301, 0x308, 0x323, 0x327, 0xe9, 0xc5, 0x212b, 0xfb01, 0xff21, 0xff41, 0x2460, 0xb2, 0x2122,
	0xac00, 0x1100, 0x1161, 0x11a8, 0x1e9b, 0x3a9, 0x2126, 0x1d15e, 0x2f800, 0x4e2d, 0x1f600, 0x3000, 0xa0, 0x1e0a, 0x1e0c, 0x44, 0x307, 0x345, 0x3b1, 0x958, 0xfdfa}

func genNorm(t *rapid.T) *NormCase {
	n := rapid.IntRange(0, 12).Draw(t, "len")
	var s strref.Str
	for i := 0; i < n; i++ {
		s = strref.AppendCodePoint(s, normPool[rapid.IntRange(0, len(normPool)-1).Draw(t, "cp")])
	}
	return &NormCase{S: hexOf(s), Variant: rapid.IntRange(0, 13).Draw(t, "variant")}
}

func judgeNorm(c *NormCase) *evid.Failure {
	fail := func(key, msg string) *evid.Failure {
		return &evid.Failure{Check: "normalize", Key: key, Msg: msg, Case: c}
	}
	s, err := unhex(c.S)
	if err != nil || strref.HasLoneSurrogate(s) {
		return fail("harness", "bad case")
	}
	vm := goja.New()
	vm.Set("G", strref.ToGoLossy(s))
	if o := jsx.RunProgram(vm, obsPrg); o.Kind != "value" {
		return fail("harness", "prelude failed: "+o.Text)
	}
	var a, b string
	L := lit(s, 1)
	switch {
	case c.Variant < 4: // idempotence
		f := normForms[c.Variant]
		a = fmt.Sprintf("%s.normalize(%q)", L, f)
		b = fmt.Sprintf("%s.normalize(%q).normalize(%q)", L, f, f)
	case c.Variant == 4:
		a, b = L+`.normalize("NFC")`, L+`.normalize("NFD").normalize("NFC")`
	case c.Variant == 5:
		a, b = L+`.normalize("NFD")`, L+`.normalize("NFC").normalize("NFD")`
	case c.Variant == 6:
		a, b = L+`.normalize("NFKC")`, L+`.normalize("NFKD").normalize("NFKC")`
	case c.Variant == 7:
		a, b = L+`.normalize("NFKD")`, L+`.normalize("NFC").normalize("NFKD")`
	case c.Variant == 8:
		a, b = L+`.normalize()`, `G.normalize("NFC")`
	default: // storage independence
		f := normForms[c.Variant%4]
		a = fmt.Sprintf("%s.normalize(%q)", L, f)
		b = fmt.Sprintf("G.normalize(%q)", f)
		if c.Variant >= 12 {
			b = fmt.Sprintf(`(G + "é").slice(0,-1).normalize(%q)`, f)
		}
	}
	listing := "  G = Go string " + strconv.Quote(strref.ToGoLossy(s)) + "\n  A = " + a + "\n  B = " + b
	o := jsx.RunString(vm, "(function(){ var A = "+a+"; var B = "+b+"; var S = "+L+"; return {a:A, b:B, obs:obs(A,B), ascii: EQ(A,S), lite: lite(B,A,3)}; })()")
	if o.Kind != "value" {
		return fail("outcome:"+o.Kind, "script did not complete: "+o.Text+"\n"+listing)
	}
	res := o.Value.(*goja.Object)
	av, ok := res.Get("a").(goja.String)
	if !ok {
		return fail("harness", "A is not a string")
	}
	u := make(strref.Str, av.Length())
	for i := range u {
		u[i] = av.CharAt(i)
	}
	if strref.IsASCII(s) {
		if !strref.Equal(u, s) {
			return fail("ascii-identity:units", "normalize changed an ASCII string\n"+listing)
		}
		if !res.Get("ascii").ToBoolean() {
			return fail("ascii-identity:eq", "normalize of an ASCII string is not equal to the string\n"+listing)
		}
	}
	get := func(n string) *goja.Object { ob, _ := res.Get(n).(*goja.Object); return ob }
	what := fmt.Sprintf("A=%s B=%s (units of A: [%s])", a, b, unitsDec(u))
	if f := checkArr(c, "normalize", listing, "observer", obsNames, get("obs"), expectedObs(u), what); f != nil {
		return f
	}
	if f := checkArr(c, "normalize", listing, "lite", liteNames, get("lite"), nil, what); f != nil {
		return f
	}
	ka, _ := goja.VerifStrRepr(res.Get("a"))
	kb, _ := goja.VerifStrRepr(res.Get("b"))
	evid.Count("norm-repr:" + ka + "/" + kb)
	return nil
}
