//go:build verif

package c06

import (
	"testing"

	"verifh/internal/evid"
)

// Fixed minimal inputs of defects that are recorded as known findings and whose
// input class the generator no longer produces. Each probe is judged by the
// ordinary judge; a failure is reported under the probe's own key so that the
// KNOWN-FINDING line stays visible for as long as the defect exists (and an
// unlisted probe failure alarms like any other violation).
var probes = []struct {
	key string
	c   Case
}{
	{"probe:regexp2-U+FFFF-prefix", Case{
		Steps: []Step{
			{Name: "t1", Op: "literal", Src: `"ab"`, U: "00610062"},
			{Name: "t2", Op: "literal", Src: `"a￿xb"`, U: "0061ffff00780062"},
			{Name: "t3", Op: "replace:re", Src: `t2.replace(/￿x/g, "")`, U: "00610062"},
		}, A: "t1", B: "t3"}},
}

func TestQuickProbes(t *testing.T) {
	for i := range probes {
		p := &probes[i]
		evid.Count("probe")
		f := judge(&p.c)
		if f != nil {
			f.Key = p.key
			f.Check = "pairs"
		}
		evid.Direct(t, f)
	}
}
