//go:build verif

package c06

import (
	"encoding/json"
	"fmt"
	"os"
	"strconv"
	"strings"
	"testing"

	"github.com/dop251/goja"
	"pgregory.net/rapid"

	"verifh/internal/evid"
	"verifh/internal/jsx"
	"verifh/internal/strref"
)

func TestMain(m *testing.M) { evid.Main("C06", m) }

const obsSrc = `
var arr10 = ["e0","e1","e2","e3","e4","e5","e6","e7","e8","e9"];
function UN(s){ var r=[]; for (var i=0;i<s.length;i++) r.push(s.charCodeAt(i)); return r.join(","); }
function CPS(s){ var r=[]; for (var c of s) r.push(c.codePointAt(0)+":"+c.length); return r.join(","); }
function TRY(f){ try { return f(); } catch(e){ return "threw:"+e.name; } }
function EQ(t,l){
  return typeof t==="string" && t===l && l===t && Object.is(t,l) && new Set([l]).has(t) && ({[l]:1})[t]===1 &&
    !(t<l) && !(l<t) && [l].indexOf(t)===0 && t.length===l.length;
}
function obs(A,B){
  var r=[];
  r.push(typeof A+typeof B);
  r.push(A===B, B===A, A!==B, Object.is(A,B), Object.is(B,A), A==B, B==A, A!=B);
  r.push(A<B, A>B, A<=B, A>=B, B<A, B<=A);
  var sw; switch(A){case B: sw=true; break; default: sw=false}; r.push(sw);
  r.push(new Map([[A,1]]).get(B)===1, new Set([A]).has(B), new Map([[B,1]]).has(A));
  var m=new Map(); m.set(A,1); m.set(B,2); r.push(m.size*10+m.get(A));
  r.push(new Set([A,B]).size);
  var o={[A]:1}; r.push(o[B]===1, Object.keys(o)[0]===B, B in o, Object.prototype.hasOwnProperty.call(o,B));
  var o2={[A]:1,[B]:2}; r.push(Object.keys(o2).length*10+o2[A]);
  var on=Object.create(null); on[A]=1; on[B]=2; r.push(Object.keys(on).length*10+on[A]);
  var k, kk; for(k in o){kk=k}; r.push(kk===A && kk===B);
  r.push([A].includes(B), [A].indexOf(B), [A,A].lastIndexOf(B), [B,A].indexOf(A));
  r.push(A.length, B.length);
  r.push(UN(A), UN(B));
  r.push(CPS(A), CPS(B));
  r.push(arr10[A]===arr10[B], String(arr10[A]));
  r.push(TRY(function(){ var q=[]; q[A]="x"; return (q[B]==="x")+":"+q.length; }));
  r.push(TRY(function(){ var u8=new Uint8Array(4); u8[A]=7; return String(u8[B])===String(u8[A]); }));
  r.push("abcdefghij"[A]==="abcdefghij"[B]);
  r.push(Symbol.for(A)===Symbol.for(B));
  r.push(A+""===B, ` + "`${A}`" + `===B, A.concat("")===B, String(A)===B);
  r.push(JSON.stringify(A)===JSON.stringify(B), UN(JSON.stringify(A)), UN(JSON.stringify([B])));
  r.push(A.indexOf(B), B.indexOf(A), A.lastIndexOf(B), A.startsWith(B), B.endsWith(A), A.includes(B));
  r.push(A.split(B).length, A.replace(B,"").length, B.replaceAll(A,"").length);
  r.push(Object.is(Number(A),Number(B)), Object.is(parseInt(A),parseInt(B)), Object.is(parseFloat(B),parseFloat(A)));
  r.push(UN(A.toUpperCase())===UN(B.toUpperCase()), UN(A.toLowerCase())===UN(B.toLowerCase()), UN(A.trim())===UN(B.trim()));
  r.push(UN(A.normalize("NFC"))===UN(B.normalize("NFC")), UN(A.normalize("NFD"))===UN(B.normalize("NFD")),
         UN(A.normalize("NFKC"))===UN(B.normalize("NFKC")), UN(A.normalize("NFKD"))===UN(B.normalize("NFKD")));
  r.push(TRY(function(){return encodeURIComponent(A)}), TRY(function(){return encodeURIComponent(B)}));
  r.push(escape(A), escape(B));
  r.push(TRY(function(){return encodeURI(A)})===TRY(function(){return encodeURI(B)}));
  r.push(A.codePointAt(0)===B.codePointAt(0), A.at(-1)===B.at(-1), A[0]===B[0], A.charAt(0)===B.charAt(0));
  r.push(Reflect.ownKeys({[A]:1})[0]===B, Object.entries({[B]:1})[0][0]===A, JSON.stringify({[A]:1})===JSON.stringify({[B]:1}));
  r.push((A+B).length, (A+B)===(B+A), [...A].length, B.split("").length);
  r.push(A.localeCompare === B.localeCompare);
  r.push(UN(JSON.stringify({a:1}, null, A)), UN(JSON.stringify([1,[2]], null, B)), JSON.stringify({a:1}, null, A) === JSON.stringify({a:1}, null, B));
  return r;
}
function obsP(X,P,k){
  return [X<P, X<=P, X>P, X>=P, P<X, P>=X, X===P, P==X, Object.is(P,X), new Map([[X,1]]).has(P), [P].includes(X),
    X.indexOf(P), X.indexOf(P,k), X.lastIndexOf(P), X.lastIndexOf(P,k), X.includes(P), X.includes(P,k),
    X.startsWith(P), X.startsWith(P,k), X.endsWith(P), X.endsWith(P,k),
    P.indexOf(X), P.lastIndexOf(X), P.includes(X), P.startsWith(X), P.endsWith(X),
    X.split(P).length, UN(X.replace(P,"#")), UN(X.replaceAll(P,"#")), UN(X+P), UN(P+X), UN(X.concat(P)),
    [X,P].sort().map(UN).join("|"), [P,X].sort().map(UN).join("|")];
}
function lite(X,Y,k){
  var f=[
   function(){return X===Y}, function(){return new Map([[X,1]]).get(Y)===1}, function(){return new Set([Y]).has(X)},
   function(){return ({[X]:1})[Y]===1}, function(){return Object.is(Y,X)}, function(){return [X].indexOf(Y)===0},
   function(){return !(X<Y)&&!(Y<X)&&X<=Y&&Y>=X}, function(){return X.length===Y.length}, function(){return Y==X},
   function(){return X.indexOf(Y)===0 && Y.indexOf(X)===0}, function(){return Object.keys({[Y]:1})[0]===X},
   function(){return [Y].includes(X)}, function(){return UN(X)===UN(Y)},
   function(){var m=new Map(); m.set(X,1); m.set(Y,2); return m.size===1},
   function(){return Y===X}, function(){return Symbol.for(X)===Symbol.for(Y)}, function(){return (X+"")===(Y+"")},
   function(){return Y.startsWith(X) && X.endsWith(Y)}
  ];
  var r=[];
  for (var i=0;i<f.length;i++){ var j=(i+k)%f.length; r[j]=f[j](); }
  return r;
}
`

var obsNames = []string{"typeof",
	"A===B", "B===A", "A!==B", "Object.is(A,B)", "Object.is(B,A)", "A==B", "B==A", "A!=B",
	"A<B", "A>B", "A<=B", "A>=B", "B<A", "B<=A",
	"switch",
	"Map.get", "Set.has", "Map.has(rev)",
	"Map set/set", "Set size",
	"o[B]", "keys(o)[0]===B", "B in o", "hasOwnProperty",
	"{[A]:1,[B]:2}", "null-proto o[A];o[B]", "for-in key",
	"includes", "indexOf", "lastIndexOf", "[B,A].indexOf(A)",
	"A.length", "B.length", "units(A)", "units(B)", "codepoints(A)", "codepoints(B)",
	"arr10[A]===arr10[B]", "arr10[A]", "q[A]=x;q[B]", "u8[A]",
	"str[A]===str[B]", "Symbol.for",
	"A+''===B", "template===B", "A.concat('')===B", "String(A)===B",
	"JSON.stringify agree", "JSON.stringify(A)", "JSON.stringify([B])",
	"A.indexOf(B)", "B.indexOf(A)", "A.lastIndexOf(B)", "A.startsWith(B)", "B.endsWith(A)", "A.includes(B)",
	"A.split(B).length", "A.replace(B,'')", "B.replaceAll(A,'')",
	"Number agree", "parseInt agree", "parseFloat agree",
	"toUpperCase agree", "toLowerCase agree", "trim agree",
	"NFC agree", "NFD agree", "NFKC agree", "NFKD agree",
	"encodeURIComponent(A)", "encodeURIComponent(B)", "escape(A)", "escape(B)", "encodeURI agree",
	"codePointAt agree", "at(-1) agree", "A[0]===B[0]", "charAt agree",
	"Reflect.ownKeys", "Object.entries", "JSON.stringify key agree",
	"(A+B).length", "(A+B)===(B+A)", "[...A].length", "B.split('').length",
	"same method",
	"JSON.stringify({a:1},null,A)", "JSON.stringify([1,[2]],null,B)", "stringify gap agree"}

var liteNames = []string{"===", "Map.get", "Set.has", "key", "Object.is", "indexOf", "relational", "length", "==", "String.indexOf", "keys()[0]", "includes", "units", "Map set/set", "===(rev)", "Symbol.for", "+''", "startsWith/endsWith"}

var obsPNames = []string{"X<P", "X<=P", "X>P", "X>=P", "P<X", "P>=X", "X===P", "P==X", "Object.is(P,X)", "Map.has", "[P].includes(X)",
	"X.indexOf(P)", "X.indexOf(P,k)", "X.lastIndexOf(P)", "X.lastIndexOf(P,k)", "X.includes(P)", "X.includes(P,k)",
	"X.startsWith(P)", "X.startsWith(P,k)", "X.endsWith(P)", "X.endsWith(P,k)",
	"P.indexOf(X)", "P.lastIndexOf(X)", "P.includes(X)", "P.startsWith(X)", "P.endsWith(X)",
	"X.split(P).length", "X.replace(P,'#')", "X.replaceAll(P,'#')", "X+P", "P+X", "X.concat(P)",
	"[X,P].sort()", "[P,X].sort()"}

func parsePos(s string) (strref.Arg, bool) {
	switch s {
	case "undefined":
		return strref.U(), true
	case "NaN":
		return strref.N(nan), true
	case "Infinity":
		return strref.N(inf), true
	case "-Infinity":
		return strref.N(-inf), true
	}
	n, err := strconv.Atoi(s)
	if err != nil {
		return strref.Arg{}, false
	}
	return strref.I(n), true
}

func expectedObsP(u, p strref.Str, k strref.Arg) []interface{} {
	cmp := strref.Compare(u, p)
	eq := cmp == 0
	hash := strref.Str{'#'}
	sorted := unitsDec(u) + "|" + unitsDec(p)
	if cmp > 0 {
		sorted = unitsDec(p) + "|" + unitsDec(u)
	}
	z := strref.I(0)
	return []interface{}{cmp < 0, cmp <= 0, cmp > 0, cmp >= 0, cmp > 0, cmp <= 0, eq, eq, eq, eq, eq,
		int64(strref.IndexOfPos(u, p, z)), int64(strref.IndexOfPos(u, p, k)), int64(strref.LastIndexOfPos(u, p, strref.U())), int64(strref.LastIndexOfPos(u, p, k)),
		strref.Includes(u, p, z), strref.Includes(u, p, k),
		strref.StartsWith(u, p, z), strref.StartsWith(u, p, k), strref.EndsWith(u, p, strref.U()), strref.EndsWith(u, p, k),
		int64(strref.IndexOfPos(p, u, z)), int64(strref.LastIndexOfPos(p, u, strref.U())), strref.Includes(p, u, z), strref.StartsWith(p, u, z), strref.EndsWith(p, u, strref.U()),
		int64(len(strref.Split(u, p, false, -1))), unitsDec(strref.Replace(u, p, hash, false)), unitsDec(strref.ReplaceAll(u, p, hash, false)),
		unitsDec(strref.Concat(u, p)), unitsDec(strref.Concat(p, u)), unitsDec(strref.Concat(u, p)),
		sorted, sorted}
}

var obsPrg = goja.MustCompile("obs.js", obsSrc, false)

type skip struct{}

func unitsDec(u strref.Str) string {
	parts := make([]string, len(u))
	for i, c := range u {
		parts[i] = strconv.Itoa(int(c))
	}
	return strings.Join(parts, ",")
}

func expectedObs(u strref.Str) []interface{} {
	l := int64(len(u))
	cps := strref.CodePoints(u)
	cpParts := make([]string, len(cps))
	for i, cp := range cps {
		n := 1
		if cp > 0xFFFF {
			n = 2
		}
		cpParts[i] = strconv.Itoa(int(cp)) + ":" + strconv.Itoa(n)
	}
	cpStr := strings.Join(cpParts, ",")
	un := unitsDec(u)
	gs := strref.ToGoLossy(u)
	var arr10 interface{} = skip{}
	var qres interface{} = "true:0"
	if idx, ok := strref.CanonicalArrayIndex(u); ok {
		qres = "true:" + strconv.FormatUint(uint64(idx)+1, 10)
		if idx < 10 {
			arr10 = "e" + strconv.Itoa(int(idx))
		} else {
			arr10 = "undefined"
		}
	} else if strref.IsASCII(u) && (gs == "length" || gs == "__proto__") {
		qres = skip{}
	}
	var u8res interface{} = true
	if gs == "__proto__" && strref.IsASCII(u) {
		u8res = skip{} // String(Uint8Array.prototype) throws by specification
	}
	var enc interface{} = "threw:URIError"
	if e, ok := strref.EncodeURIComponent(u); ok {
		enc = strref.ToGoLossy(e)
	}
	esc := strref.ToGoLossy(strref.Escape(u))
	jq := strref.JSONQuote(u)
	// JSON.stringify with the string as the gap (its first 10 code units)
	var gapObj, gapArr interface{} = skip{}, skip{}
	gap := u
	if len(gap) > 10 {
		gap = gap[:10]
	}
	if !strref.HasLoneSurrogate(gap) { // a lone surrogate in the gap (also one made by the cut at 10 units) is a known finding of C19
		a := func(s string) strref.Str { return strref.FromGo(s) }
		if len(gap) == 0 {
			gapObj, gapArr = unitsDec(a(`{"a":1}`)), unitsDec(a(`[1,[2]]`))
		} else {
			gapObj = unitsDec(strref.Concat(a("{\n"), gap, a("\"a\": 1\n}")))
			gapArr = unitsDec(strref.Concat(a("[\n"), gap, a("1,\n"), gap, a("[\n"), gap, gap, a("2\n"), gap, a("]\n]")))
		}
	}
	splitLen := int64(2)
	if l == 0 {
		splitLen = 0
	}
	return []interface{}{"stringstring",
		true, true, false, true, true, true, true, false,
		false, false, true, true, false, true,
		true,
		true, true, true,
		int64(12), int64(1),
		true, true, true, true,
		int64(12), int64(12), true,
		true, int64(0), int64(1), int64(0),
		l, l, un, un, cpStr, cpStr,
		true, arr10, qres, u8res,
		true, true,
		true, true, true, true,
		true, unitsDec(jq), unitsDec(strref.Concat(strref.Str{'['}, jq, strref.Str{']'})),
		int64(0), int64(0), int64(0), true, true, true,
		splitLen, int64(0), int64(0),
		true, true, true,
		true, true, true,
		true, true, true, true,
		enc, enc, esc, esc, true,
		true, true, true, true,
		true, true, true,
		2 * l, true, int64(len(cps)), l,
		true,
		gapObj, gapArr, true}
}

func stepListing(c *Case) string {
	var sb strings.Builder
	for _, g := range c.Go {
		fmt.Fprintf(&sb, "  vm.Set(%q, %q) // %d bytes\n", g.Name, g.Val, len(g.Val))
	}
	for _, s := range c.Steps {
		fmt.Fprintf(&sb, "  var %s = %s;   // expect units %s\n", s.Name, s.Src, s.U)
	}
	fmt.Fprintf(&sb, "  A = %s, B = %s", c.A, c.B)
	if c.P != "" {
		fmt.Fprintf(&sb, ", P = %s, k = %s", c.P, c.PPos)
	}
	return sb.String()
}

func script(c *Case, upto int, full bool, wf bool) string {
	var sb strings.Builder
	sb.WriteString("(function(){\n")
	for _, s := range c.Steps[:upto] {
		sb.WriteString("var " + s.Name + " = " + s.Src + ";")
		if full {
			sb.WriteString(" __r(" + s.Name + ");")
		}
		sb.WriteString("\n")
	}
	if !full {
		sb.WriteString("return 0;\n})()")
		return sb.String()
	}
	names := make([]string, len(c.Steps))
	uns := make([]string, len(c.Steps))
	eqs := make([]string, len(c.Steps))
	for i, s := range c.Steps {
		names[i] = s.Name
		uns[i] = "typeof " + s.Name + "===\"string\"?UN(" + s.Name + "):\"not a string: \"+typeof " + s.Name
		u, _ := unhex(s.U)
		eqs[i] = "EQ(" + s.Name + "," + lit(u, 1) + ")"
	}
	var u strref.Str
	for _, s := range c.Steps {
		if s.Name == c.A {
			u, _ = unhex(s.U)
		}
	}
	k := len(u)
	sb.WriteString("var L = " + lit(u, 1) + ";\n")
	sb.WriteString("var res = {steps:[" + strings.Join(names, ",") + "], un:[" + strings.Join(uns, ",") + "], eq:[" + strings.Join(eqs, ",") + "]};\n")
	sb.WriteString("res.obs = obs(" + c.A + "," + c.B + ");\n")
	fmt.Fprintf(&sb, "res.litA = lite(%s, L, %d); res.litB = lite(L, %s, %d);\n", c.A, k, c.B, k+7)
	if wf {
		fmt.Fprintf(&sb, "res.twinA = lite(%s, T0, %d); res.twinB = lite(T1, %s, %d); res.twinA2 = lite(T2, %s, %d); res.twinB2 = lite(%s, T3, %d); res.twins = lite(T4, T5, %d);\n",
			c.A, k+1, c.B, k+2, c.A, k+3, c.B, k+10, k+5)
		sb.WriteString("res.goobj = (GOOBJ[" + c.A + "]===1) + \":\" + (GOOBJ[" + c.B + "]===1) + \":\" + (Object.keys(GOOBJ)[0]===" + c.A + ");\n")
		sb.WriteString("res.gomap = (GOMAP[" + c.A + "]===1) + \":\" + (GOMAP[" + c.B + "]===1) + \":\" + (Object.keys(GOMAP)[0]===" + c.B + ") + \":\" + (" + c.A + " in GOMAP);\n")
	}
	if c.P != "" {
		fmt.Fprintf(&sb, "res.pa = obsP(%s, %s, %s); res.pb = obsP(%s, %s, %s);\n", c.A, c.P, c.PPos, c.B, c.P, c.PPos)
	}
	sb.WriteString("res.keyobj = {[" + c.A + "]: 7};\n")
	sb.WriteString("return res;\n})()")
	return sb.String()
}

func bindGo(vm *goja.Runtime, c *Case) {
	for _, g := range c.Go {
		vm.Set(g.Name, g.Val)
	}
}

// bindBuilder exposes goja.StringBuilder (the documented Go-side way to build
// ECMAScript strings) as __sb(op, args..., op, args...).
func bindBuilder(vm *goja.Runtime) {
	vm.Set("__sb", func(call goja.FunctionCall) goja.Value {
		var sb goja.StringBuilder
		a := call.Arguments
		for i := 0; i < len(a); {
			op := a[i].String()
			switch op {
			case "S":
				sb.WriteString(a[i+1].(goja.String))
				i += 2
			case "U":
				sb.WriteUTF8String(a[i+1].String())
				i += 2
			case "R":
				sb.WriteRune(rune(a[i+1].ToInteger()))
				i += 2
			case "B":
				sb.WriteSubstring(a[i+1].(goja.String), int(a[i+2].ToInteger()), int(a[i+3].ToInteger()))
				i += 4
			case "L":
				sb.LikelyUnicode(int(a[i+1].ToInteger()))
				i += 2
			case "G":
				sb.Grow(int(a[i+1].ToInteger()))
				i += 2
			default:
				panic(vm.NewTypeError("__sb: bad op " + op))
			}
		}
		return sb.String()
	})
}

type reprInfo struct {
	ulen      int
	kinds     map[string]bool
	downgrade bool // u is ASCII and some operand value on the way was held in UTF-16 storage
	odd       int  // values reported as utf16 storage with only ASCII units
}

func judge(c *Case) *evid.Failure {
	f, _ := judgeInfo(c)
	return f
}

func judgeInfo(c *Case) (*evid.Failure, *reprInfo) {
	fail := func(key, msg string, exp, obs interface{}) (*evid.Failure, *reprInfo) {
		return &evid.Failure{Check: "pairs", Key: key, Msg: msg + "\n" + stepListing(c), Case: c, Expected: exp, Observed: obs}, nil
	}
	if len(c.Steps) == 0 {
		return fail("harness", "empty case", nil, nil)
	}
	byName := map[string]int{}
	exp := make([]strref.Str, len(c.Steps))
	for i, s := range c.Steps {
		u, err := unhex(s.U)
		if err != nil {
			return fail("harness", "bad case: "+err.Error(), nil, nil)
		}
		exp[i] = u
		byName[s.Name] = i
	}
	ia, oka := byName[c.A]
	ib, okb := byName[c.B]
	if !oka || !okb || !strref.Equal(exp[ia], exp[ib]) {
		return fail("harness", "bad case: A/B", nil, nil)
	}
	u := exp[ia]
	wf := !strref.HasLoneSurrogate(u)
	goStr := strref.ToGoLossy(u)

	vm := goja.New()
	bindGo(vm, c)
	if wf {
		for i := 0; i < 6; i++ {
			// a distinct Go string header per global so that every twin is a separate imported value
			vm.Set("T"+strconv.Itoa(i), string(append([]byte(nil), goStr...)))
		}
		goobj := vm.NewObject()
		if err := goobj.DefineDataProperty(goStr, vm.ToValue(1), goja.FLAG_TRUE, goja.FLAG_TRUE, goja.FLAG_TRUE); err != nil {
			return fail("harness", "Object.DefineDataProperty failed: "+err.Error(), nil, nil)
		}
		vm.Set("GOOBJ", goobj)
		vm.Set("GOMAP", map[string]interface{}{goStr: 1})
	}
	if o := jsx.RunProgram(vm, obsPrg); o.Kind != "value" {
		return fail("harness", "prelude failed: "+o.Text, nil, nil)
	}
	// __r records the storage of each step value right after it was produced (before any observer touches it)
	var fresh []string
	vm.Set("__r", func(call goja.FunctionCall) goja.Value {
		kind, ao := goja.VerifStrRepr(call.Argument(0))
		if kind == "utf16" && ao {
			kind = "utf16(ascii-only)"
		}
		fresh = append(fresh, kind)
		return goja.Undefined()
	})
	bindBuilder(vm)
	src := script(c, len(c.Steps), true, wf)
	o := jsx.RunString(vm, src)
	if o.Kind != "value" {
		// localise: first step at which a fresh runtime fails
		for k := 1; k <= len(c.Steps); k++ {
			vm2 := goja.New()
			bindGo(vm2, c)
			bindBuilder(vm2)
			if o2 := jsx.RunString(vm2, script(c, k, false, wf)); o2.Kind != "value" {
				s := c.Steps[k-1]
				return fail("outcome:"+o2.Kind+":"+stepKey(s), fmt.Sprintf("step %s = %s did not complete: %s\n%s", s.Name, s.Src, o2.Text, o2.Stack), "a string value", o2.Text)
			}
		}
		return fail("outcome:"+o.Kind+":observers", "observer script did not complete: "+o.Text+"\n"+o.Stack, nil, o.Text)
	}
	res, ok := o.Value.(*goja.Object)
	if !ok {
		return fail("harness", "unexpected result shape", nil, nil)
	}
	getArr := func(name string) *goja.Object {
		v := res.Get(name)
		if v == nil {
			return nil
		}
		ob, _ := v.(*goja.Object)
		return ob
	}
	stepsArr, unArr, eqArr := getArr("steps"), getArr("un"), getArr("eq")
	if stepsArr == nil || unArr == nil || eqArr == nil {
		return fail("harness", "unexpected result shape", nil, nil)
	}
	info := &reprInfo{kinds: map[string]bool{}, ulen: len(u)}
	vals := make([]goja.Value, len(c.Steps))
	reprs := make([]string, len(c.Steps))
	for i, s := range c.Steps {
		idx := strconv.Itoa(i)
		v := stepsArr.Get(idx)
		vals[i] = v
		kind := "?"
		if i < len(fresh) {
			kind = fresh[i]
		}
		reprs[i] = kind
		if kind == "utf16(ascii-only)" {
			info.odd++
		}
		got := unArr.Get(idx).String()
		want := unitsDec(exp[i])
		if got != want {
			return fail("value:"+stepKey(s), fmt.Sprintf("step %s = %s evaluated to units [%s], the specification gives [%s] (storage: %s)", s.Name, s.Src, got, want, reprs[i]), want, got)
		}
		if !eqArr.Get(idx).ToBoolean() {
			return fail("step-eq:"+stepKey(s), fmt.Sprintf("step %s = %s has the right code units [%s] but is not equal (===, Object.is, Set, key, <, indexOf) to the literal with the same units (storage: %s)", s.Name, s.Src, want, reprs[i]), true, false)
		}
		if len(exp[i]) > 0 {
			info.kinds[kind] = true
		}
	}
	if strref.IsASCII(u) && len(u) > 0 {
		for i := range c.Steps {
			if reprs[i] == "utf16" || reprs[i] == "imported-utf16" || (strings.HasPrefix(reprs[i], "imported") && !strref.IsASCII(exp[i])) {
				info.downgrade = true
			}
		}
	}

	// observers on the pair
	check := func(group string, names []string, arr *goja.Object, want []interface{}) *evid.Failure {
		return checkArr(c, "pairs", stepListing(c), group, names, arr, want,
			fmt.Sprintf("A=%s B=%s with units [%s] (storage A: %s, B: %s)", c.A, c.B, unitsDec(u), reprs[ia], reprs[ib]))
	}
	if f := check("observer", obsNames, getArr("obs"), expectedObs(u)); f != nil {
		return f, nil
	}
	if c.P != "" {
		ip, okp := byName[c.P]
		k, okk := parsePos(c.PPos)
		if !okp || !okk {
			return fail("harness", "bad case: P", nil, nil)
		}
		want := expectedObsP(u, exp[ip], k)
		for _, nm := range []string{"pa", "pb"} {
			if f := checkArr(c, "pairs", stepListing(c), "third-string("+nm[1:]+")", obsPNames, getArr(nm), want,
				fmt.Sprintf("X=%s (units [%s], storage %s) against P=%s (units [%s], storage %s), k=%s", map[string]string{"pa": c.A, "pb": c.B}[nm], unitsDec(u), reprs[map[string]int{"pa": ia, "pb": ib}[nm]], c.P, unitsDec(exp[ip]), reprs[ip], c.PPos)); f != nil {
				return f, nil
			}
		}
	}
	if f := check("literal-twin", liteNames, getArr("litA"), nil); f != nil {
		return f, nil
	}
	if f := check("literal-twin", liteNames, getArr("litB"), nil); f != nil {
		return f, nil
	}
	if wf {
		for _, nm := range []string{"twinA", "twinB", "twinA2", "twinB2", "twins"} {
			if f := check("go-twin", liteNames, getArr(nm), nil); f != nil {
				return f, nil
			}
		}
		if got := res.Get("goobj").String(); got != "true:true:true" {
			return fail("go-api:Object.DefineDataProperty key", fmt.Sprintf("object with key defined from Go (%q): GOOBJ[A]===1 : GOOBJ[B]===1 : keys[0]===A gave %s", goStr, got), "true:true:true", got)
		}
		if got := res.Get("gomap").String(); got != "true:true:true:true" {
			return fail("go-api:map[string]interface{} key", fmt.Sprintf("Go map with key %q: GOMAP[A]===1 : GOMAP[B]===1 : keys[0]===B : A in GOMAP gave %s", goStr, got), "true:true:true:true", got)
		}
	}

	// Go API observers
	av, bv := vals[ia], vals[ib]
	for _, p := range []struct {
		n string
		v goja.Value
	}{{"A", av}, {"B", bv}} {
		var got string
		out := jsx.Protect(func() (goja.Value, error) {
			got = fmt.Sprint(p.v.Export())
			return nil, nil
		})
		if out.Kind == "panic" {
			return fail("go-api:Export:panic", "Export() panicked: "+out.Text, nil, nil)
		}
		if got != goStr {
			return fail("go-api:Export", fmt.Sprintf("%s.Export() = %q, documented: UTF-8 with unpaired surrogates replaced by U+FFFD = %q (storage %s)", p.n, got, goStr, reprs[byName[map[string]string{"A": c.A, "B": c.B}[p.n]]]), goStr, got)
		}
		if got := p.v.String(); got != goStr {
			return fail("go-api:String", fmt.Sprintf("%s.String() = %q, want %q", p.n, got, goStr), goStr, got)
		}
		var s string
		if err := vm.ExportTo(p.v, &s); err != nil || s != goStr {
			return fail("go-api:ExportTo", fmt.Sprintf("ExportTo(%s, *string) = %q, %v; want %q", p.n, s, err, goStr), goStr, s)
		}
		var ifc interface{}
		if err := vm.ExportTo(p.v, &ifc); err != nil || ifc != interface{}(goStr) {
			return fail("go-api:ExportTo(interface)", fmt.Sprintf("ExportTo(%s, *interface{}) = %v, %v; want %q", p.n, ifc, err, goStr), goStr, ifc)
		}
		js, ok := p.v.(goja.String)
		if !ok {
			return fail("go-api:String interface", p.n+" does not implement goja.String", nil, nil)
		}
		if js.Length() != len(u) {
			return fail("go-api:Length", fmt.Sprintf("%s.Length() = %d, want %d", p.n, js.Length(), len(u)), len(u), js.Length())
		}
		for i := range u {
			if js.CharAt(i) != u[i] {
				return fail("go-api:CharAt", fmt.Sprintf("%s.CharAt(%d) = %#x, want %#x", p.n, i, js.CharAt(i), u[i]), u[i], js.CharAt(i))
			}
		}
	}
	goChecks := []struct {
		n  string
		ok bool
	}{
		{"A.StrictEquals(B)", av.StrictEquals(bv)}, {"B.StrictEquals(A)", bv.StrictEquals(av)},
		{"A.SameAs(B)", av.SameAs(bv)}, {"B.SameAs(A)", bv.SameAs(av)},
		{"A.Equals(B)", av.Equals(bv)}, {"B.Equals(A)", bv.Equals(av)},
		{"A.CompareTo(B)==0", av.(goja.String).CompareTo(bv.(goja.String)) == 0},
		{"B.CompareTo(A)==0", bv.(goja.String).CompareTo(av.(goja.String)) == 0},
		{"StringFromUTF16(u).StrictEquals(A)", goja.StringFromUTF16(u).StrictEquals(av)},
		{"B.StrictEquals(StringFromUTF16(u))", bv.StrictEquals(goja.StringFromUTF16(u))},
	}
	if wf {
		tv := vm.ToValue(string(append([]byte(nil), goStr...)))
		tv2 := vm.ToValue(string(append([]byte(nil), goStr...)))
		goChecks = append(goChecks, []struct {
			n  string
			ok bool
		}{
			{"ToValue(go).StrictEquals(A)", tv.StrictEquals(av)},
			{"B.StrictEquals(ToValue(go))", bv.StrictEquals(tv2)},
			{"A.SameAs(ToValue(go))", av.SameAs(tv2)},
			{"ToValue(go).Equals(B)", tv.Equals(bv)},
		}...)
		if ko, ok := res.Get("keyobj").(*goja.Object); ok {
			kv := ko.Get(goStr)
			keys := ko.Keys()
			goChecks = append(goChecks, struct {
				n  string
				ok bool
			}{"({[A]:7}).Get(go string)==7 and Keys()[0]==go string", kv != nil && kv.ToInteger() == 7 && len(keys) == 1 && keys[0] == goStr})
		}
	}
	for _, g := range goChecks {
		if !g.ok {
			return fail("go-api:"+g.n, fmt.Sprintf("Go API observer %s is false for equal strings A=%s B=%s with units [%s] (storage A: %s, B: %s)", g.n, c.A, c.B, unitsDec(u), reprs[ia], reprs[ib]), true, false)
		}
	}
	return nil, info
}

// checkArr compares an array of observer results with the expectations
// (nil want = every entry must be true).
func checkArr(cs interface{}, checkName, listing, group string, names []string, arr *goja.Object, want []interface{}, what string) *evid.Failure {
	fail := func(key, msg string, exp, obs interface{}) *evid.Failure {
		return &evid.Failure{Check: checkName, Key: key, Msg: msg + "\n" + listing, Case: cs, Expected: exp, Observed: obs}
	}
	if arr == nil {
		return fail("harness", "missing result "+group, nil, nil)
	}
	n := int(arr.Get("length").ToInteger())
	if n != len(names) || (want != nil && len(want) != len(names)) {
		return fail("harness", fmt.Sprintf("%s: observer count %d, names %d, expectations %d", group, n, len(names), len(want)), nil, nil)
	}
	for i := 0; i < n; i++ {
		got := arr.Get(strconv.Itoa(i)).Export()
		var w interface{} = true
		if want != nil {
			w = want[i]
		}
		if _, isSkip := w.(skip); isSkip {
			continue
		}
		if gi, ok := got.(int); ok {
			got = int64(gi)
		}
		if gf, ok := got.(float64); ok && gf == float64(int64(gf)) {
			got = int64(gf)
		}
		if got != w {
			return fail(group+":"+names[i], fmt.Sprintf("%s %s gave %v, the specification gives %v for equal strings %s", group, names[i], got, w, what), w, got)
		}
	}
	return nil
}

// stepKey classifies a failing step for known-finding matching: the operation
// plus whether an unpaired surrogate was among the operands.
func stepKey(s Step) string {
	op := s.Op
	if s.Lone {
		return op + ":lone-surrogate"
	}
	return op
}

func caseText(c *Case) string {
	var sb strings.Builder
	for _, g := range c.Go {
		sb.WriteString(g.Name + "=" + g.Val + ";")
	}
	for _, s := range c.Steps {
		sb.WriteString(s.Src + ";")
	}
	sb.WriteString(c.A + "|" + c.B + "|" + c.P + "|" + c.PPos)
	return sb.String()
}

func TestQuickPairs(t *testing.T) {
	evid.Check(t, "pairs", 16000, 2, func(t *rapid.T) {
		c := genCase(t)
		if dbg := os.Getenv("VERIF_DEBUG_CURRENT"); dbg != "" {
			os.WriteFile(dbg, []byte(stepListing(c)), 0o644)
		}
		f, info := judgeInfo(c)
		nontrivial := false
		if info != nil {
			n := 0
			for _, k := range []string{"ascii", "utf16", "imported-unscanned", "imported-ascii", "imported-utf16"} {
				if info.kinds[k] {
					n++
					evid.Count("repr:" + k)
				}
			}
			nontrivial = n >= 2 && info.ulen > 0
			if info.downgrade {
				evid.Count("downgrade-pair(ascii result, utf16 operand)")
			}
			if info.odd > 0 {
				evid.Count("utf16-storage-with-ascii-only-units-seen")
			}
			if nontrivial {
				evid.Count("nontrivial")
			}
		}
		evid.Case(caseText(c), nontrivial)
		evid.Sample("pair", c)
		evid.Judge(t, f)
	})
}

func TestReplay(t *testing.T) {
	p := os.Getenv("VERIF_REPLAY")
	if p == "" {
		t.Skip("no VERIF_REPLAY")
	}
	check, raw, err := evid.LoadReplay(p)
	if err != nil {
		t.Fatal(err)
	}
	switch check {
	case "pairs":
		var c Case
		if err := json.Unmarshal(raw, &c); err != nil {
			t.Fatal(err)
		}
		evid.Direct(t, judge(&c))
	case "normalize":
		var c NormCase
		if err := json.Unmarshal(raw, &c); err != nil {
			t.Fatal(err)
		}
		evid.Direct(t, judgeNorm(&c))
	case "order":
		var c OrderCase
		if err := json.Unmarshal(raw, &c); err != nil {
			t.Fatal(err)
		}
		evid.Direct(t, judgeOrder(&c))
	default:
		t.Fatalf("unknown check %q", check)
	}
}

func TestQuickNormalize(t *testing.T) {
	evid.Check(t, "normalize", 3000, 2, func(t *rapid.T) {
		c := genNorm(t)
		s, _ := unhex(c.S)
		evid.Case("norm:"+c.S+":"+strconv.Itoa(c.Variant), len(s) > 0 && !strref.IsASCII(s))
		evid.Count("normalize-variant:" + strconv.Itoa(c.Variant))
		evid.Sample("normalize", c)
		evid.Judge(t, judgeNorm(c))
	})
}
