package c19

import (
	"math"
	"strconv"

	"pgregory.net/rapid"

	"verifh/internal/evid"
	jr "verifh/internal/jsonref"
)

type vgen struct {
	t        *rapid.T
	maxDepth int
	repr     bool // JSON-representable values only (law checks)
	labels   map[string]int
	depthMax int
	special  bool // saw a non-ASCII/escape-worthy string or an unsafe number
}

func (g *vgen) lab(s string) { g.labels[s]++ }

func (g *vgen) n(label string, lo, hi int) int { return rapid.IntRange(lo, hi).Draw(g.t, label) }

var specialNums = []float64{0, 1, -1, 2, 10, 0.5, -2.25, math.Copysign(0, -1), math.NaN(), math.Inf(1), math.Inf(-1), 1e21, 1e-7, 123456789012345680000, 5e-324,
	math.MaxFloat64, -math.MaxFloat64, 9007199254740991, 9007199254740992, 4294967296, 0.1, 0.30000000000000004, 1.7976931348623157e308, 2.2250738585072014e-308, 1e300, 123.456, -1e-300, 100, 1e20, 999999999999999900000}

func (g *vgen) num() float64 {
	switch g.n("numclass", 0, 3) {
	case 0:
		return float64(g.n("int", -5, 100))
	case 1, 2:
		f := specialNums[g.n("special", 0, len(specialNums)-1)]
		if g.repr && (math.IsNaN(f) || math.IsInf(f, 0)) {
			return 7
		}
		if f != math.Trunc(f) || math.Abs(f) > 9007199254740991 {
			g.special = true
		}
		return f
	}
	f := math.Float64frombits(rapid.Uint64().Draw(g.t, "bits"))
	if math.IsNaN(f) || math.IsInf(f, 0) {
		if g.repr {
			return 3
		}
	}
	// goja's shortest-digit printing of subnormals is the subject of another property (C12);
	// keep random doubles in the normal range so that a defect there is not reported twice
	if f != 0 && math.Abs(f) < 2.2250738585072014e-308 {
		evid.Excluded("random subnormal double in stringify input (Number::toString of subnormals belongs to C12)")
		return 0.25
	}
	g.special = true
	return f
}

var strUnits = []uint16{'a', 'b', 'Z', '0', ' ', '"', '\\', '/', 0x08, 0x09, 0x0a, 0x0c, 0x0d, 0x00, 0x01, 0x1f, 0x0b, 0x7f, 0x80, 0xe9, 0xa0, 0x2028, 0x2029, 0xfeff, 0xffff, 0x4e2d}

func (g *vgen) units(label string, maxLen int) []uint16 {
	n := g.n(label+"len", 0, maxLen)
	out := []uint16{}
	for i := 0; i < n; i++ {
		switch g.n(label+"kind", 0, 7) {
		case 0, 1, 2:
			out = append(out, uint16('a'+g.n(label+"letter", 0, 25)))
		case 3, 4:
			c := strUnits[g.n(label+"unit", 0, len(strUnits)-1)]
			out = append(out, c)
			g.special = true
		case 5:
			out = append(out, 0xd83d, uint16(0xde00+g.n(label+"lo", 0, 0x3f)))
			g.special = true
		case 6:
			if g.repr {
				out = append(out, 'q')
				continue
			}
			out = append(out, uint16(g.n(label+"sur", 0xd800, 0xdfff)))
			g.lab("str:lone-surrogate")
			g.special = true
		default:
			out = append(out, uint16(g.n(label+"any", 0, 0xd7ff)))
			g.special = true
		}
	}
	return out
}

var objKeys = []string{"a", "b", "c", "0", "1", "2", "10", "4294967294", "4294967295", "4294967296", "-1", "01", "", "é", "toJSON", "__proto__", "length", "zz", "1.5", "9007199254740992"}

var toJSONFns = []string{"c42", "key", "undef", "self", "arr"}

func (g *vgen) toJSONVal() *jr.JS {
	if g.n("tjcallable", 0, 4) == 0 {
		return jr.Num(5)
	}
	g.lab("toJSON:own")
	return &jr.JS{T: jr.TFunc, F: toJSONFns[g.n("tjfn", 0, len(toJSONFns)-1)]}
}

func (g *vgen) value(depth int) *jr.JS {
	if depth > g.depthMax {
		g.depthMax = depth
	}
	hi := 21
	if g.repr {
		hi = 9
	}
	c := g.n("vkind", 0, hi)
	if depth >= g.maxDepth && (c == 6 || c == 7 || c == 8 || c == 9) {
		c = c % 6
	}
	switch c {
	case 0, 1:
		return jr.Num(g.num())
	case 2, 3:
		return jr.Str(g.units("s", 6))
	case 4:
		return jr.Bool(g.n("bool", 0, 1) == 1)
	case 5:
		return jr.Null()
	case 6, 7:
		return g.object(depth + 1)
	case 8, 9:
		return g.array(depth + 1)
	case 10:
		return jr.Undef()
	case 11:
		g.lab("val:symbol")
		return &jr.JS{T: jr.TSym}
	case 12:
		g.lab("val:function")
		if g.n("sharedfn", 0, 1) == 0 {
			// a function from the catalogue: every occurrence in the value is the same function object
			return &jr.JS{T: jr.TFunc, F: toJSONFns[g.n("sfn", 0, len(toJSONFns)-1)]}
		}
		return &jr.JS{T: jr.TFunc}
	case 13:
		g.lab("val:bigint")
		return &jr.JS{T: jr.TBigInt, Dec: []string{"0", "1", "12345678901234567890123", "255"}[g.n("big", 0, 3)]}
	case 14:
		g.lab("val:boxed-number")
		return &jr.JS{T: jr.TBNum, Bits: math.Float64bits(g.num())}
	case 15:
		g.lab("val:boxed-string")
		return &jr.JS{T: jr.TBStr, S: g.units("bs", 4)}
	case 16:
		g.lab("val:boxed-boolean")
		return &jr.JS{T: jr.TBBool, B: g.n("bbool", 0, 1) == 1}
	case 17:
		switch g.n("rare", 0, 3) {
		case 0:
			g.lab("val:boxed-bigint")
			return &jr.JS{T: jr.TBBig, Dec: "7"}
		case 1:
			g.lab("val:boxed-symbol")
			return &jr.JS{T: jr.TBSym}
		case 2:
			g.lab("val:revoked-proxy")
			return &jr.JS{T: jr.TRevoked}
		}
		fallthrough
	case 18:
		g.lab("val:date")
		dv := jr.DateValues()
		return &jr.JS{T: jr.TDate, Bits: math.Float64bits(dv[g.n("date", 0, len(dv)-1)])}
	case 19:
		if depth >= 1 {
			g.lab("val:cycle")
			return &jr.JS{T: jr.TCycle, Up: g.n("up", 1, depth)}
		}
		return jr.Num(1)
	default:
		return jr.Num(g.num())
	}
}

func (g *vgen) object(depth int) *jr.JS {
	g.lab("val:object")
	o := &jr.JS{T: jr.TObj}
	if !g.repr {
		switch g.n("oproto", 0, 19) {
		case 0:
			o.NullProto = true
			g.lab("obj:null-proto")
		case 1, 2:
			o.PTJ = toJSONFns[g.n("ptj", 0, len(toJSONFns)-1)]
			g.lab("toJSON:inherited")
		}
		if g.n("oproxy", 0, 9) == 0 {
			o.Proxy = true
			g.lab("obj:proxy")
		}
	}
	n := g.n("olen", 0, 5)
	for i := 0; i < n; i++ {
		var k []uint16
		if g.n("keyclass", 0, 5) == 0 {
			k = g.units("k", 3)
		} else {
			k = jr.U(objKeys[g.n("key", 0, len(objKeys)-1)])
		}
		dup := false
		for _, p := range o.P {
			if !p.Sym && eqU(p.K, k) {
				dup = true
			}
		}
		if dup {
			continue
		}
		p := &jr.Prop{K: k}
		if eqU(k, jr.U("toJSON")) && !g.repr {
			p.V = g.toJSONVal()
		} else {
			p.V = g.value(depth)
		}
		if !g.repr {
			switch g.n("pflags", 0, 24) {
			case 0, 1:
				p.NonEnum = true
				g.lab("prop:non-enumerable")
			case 2, 3:
				p.Getter = true
				g.lab("prop:getter")
			case 4:
				p.Sym = true
				g.lab("prop:symbol-key")
			}
		}
		if _, isIdx := jr.ArrayIndex(k); isIdx {
			g.lab("prop:index-key")
		}
		o.P = append(o.P, p)
	}
	return o
}

func eqU(a, b []uint16) bool {
	if len(a) != len(b) {
		return false
	}
	for i := range a {
		if a[i] != b[i] {
			return false
		}
	}
	return true
}

func (g *vgen) array(depth int) *jr.JS {
	g.lab("val:array")
	a := &jr.JS{T: jr.TArr, E: []*jr.JS{}}
	n := g.n("alen", 0, 5)
	for i := 0; i < n; i++ {
		if !g.repr && g.n("hole", 0, 6) == 0 {
			a.E = append(a.E, nil)
			g.lab("arr:hole")
			continue
		}
		a.E = append(a.E, g.value(depth))
	}
	if !g.repr {
		if g.n("aproxy", 0, 9) == 0 {
			a.Proxy = true
			g.lab("arr:proxy")
		}
		if g.n("atj", 0, 14) == 0 {
			a.P = append(a.P, &jr.Prop{K: jr.U("toJSON"), V: g.toJSONVal()})
		}
	}
	return a
}

var replacerFns = []string{"id", "dropb", "dbl", "bang", "box", "wrap", "log", "nul2fn", "bigfix", "symfix", "undef2null", "undef"}

var listStrings = []string{"a", "b", "c", "0", "1", "10", "", "toString", "constructor", "toJSON", "zz", "é", "length", "1.5", "1e+21", "NaN", "-1", "w", "v", "k"}

func (g *vgen) replacer() *jr.Replacer {
	switch g.n("repkind", 0, 9) {
	case 0, 1, 2, 3:
		return nil
	case 4, 5, 6:
		fn := replacerFns[g.n("repfn", 0, len(replacerFns)-1)]
		g.lab("replacer:fn:" + fn)
		return &jr.Replacer{Kind: "fn", Fn: fn}
	case 7, 8:
		g.lab("replacer:list")
		r := &jr.Replacer{Kind: "list", List: []*jr.JS{}}
		n := g.n("listlen", 0, 6)
		for i := 0; i < n; i++ {
			switch g.n("itemkind", 0, 9) {
			case 0, 1, 2, 3:
				r.List = append(r.List, jr.StrGo(listStrings[g.n("lstr", 0, len(listStrings)-1)]))
			case 4:
				r.List = append(r.List, jr.Str(g.units("li", 3)))
			case 5:
				f := []float64{0, 1, 2, 10, math.Copysign(0, -1), 1.5, 1e21, math.NaN(), -1, math.Inf(1), 4294967295}[g.n("lnum", 0, 10)]
				r.List = append(r.List, jr.Num(f))
				g.lab("list:number")
			case 6:
				r.List = append(r.List, &jr.JS{T: jr.TBStr, S: jr.U(listStrings[g.n("lbstr", 0, len(listStrings)-1)])})
				g.lab("list:boxed-string")
			case 7:
				r.List = append(r.List, &jr.JS{T: jr.TBNum, Bits: math.Float64bits(float64(g.n("lbnum", 0, 2)))})
				g.lab("list:boxed-number")
			case 8:
				junk := []*jr.JS{jr.Null(), jr.Undef(), jr.Bool(true), {T: jr.TObj}, {T: jr.TArr, E: []*jr.JS{jr.StrGo("a")}}, {T: jr.TSym}, {T: jr.TFunc}, {T: jr.TBigInt, Dec: "1"}, {T: jr.TBBool, B: true}, {T: jr.TBBig, Dec: "0"}}
				r.List = append(r.List, junk[g.n("ljunk", 0, len(junk)-1)])
				g.lab("list:ignored-item")
			default:
				r.List = append(r.List, nil)
				g.lab("list:hole")
			}
		}
		if g.n("listproxy", 0, 7) == 0 {
			r.Proxy = true
		}
		return r
	}
	g.lab("replacer:other")
	others := []*jr.JS{jr.Null(), jr.Num(5), jr.StrGo("a"), {T: jr.TObj}, jr.Bool(true), {T: jr.TSym}, {T: jr.TBStr, S: jr.U("a")}}
	return &jr.Replacer{Kind: "other", Other: others[g.n("other", 0, len(others)-1)]}
}

var spaceNums = []float64{0, 1, 2, 4, 9, 10, 11, 10.9, 0.9, 1.9, -1, 1e30, 9223372036854775808, 18446744073709551616, 18446744073709551617 * 4, math.Inf(1), math.Inf(-1), math.NaN(),
	math.Copysign(0, -1), 3.7, 1e-10, 4294967297, 2147483649, -1e30, 100, 1e21, 9007199254740993, -0.5}

var gapUnits = []uint16{' ', '\t', '-', 'x', 0xe9, 0x2028, '\n', '"', 0x4e2d, 0xa0}

func (g *vgen) space() *jr.Space {
	switch g.n("spkind", 0, 11) {
	case 0, 1, 2:
		return nil
	case 3, 4, 5:
		g.lab("space:number")
		return &jr.Space{V: jr.Num(spaceNums[g.n("spnum", 0, len(spaceNums)-1)])}
	case 6:
		g.lab("space:boxed-number")
		return &jr.Space{V: &jr.JS{T: jr.TBNum, Bits: math.Float64bits(spaceNums[g.n("spbnum", 0, len(spaceNums)-1)])}}
	case 7, 8, 9:
		s := g.gapString()
		return &jr.Space{V: jr.Str(s)}
	case 10:
		g.lab("space:boxed-string")
		return &jr.Space{V: &jr.JS{T: jr.TBStr, S: g.gapString()}}
	}
	g.lab("space:ignored")
	others := []*jr.JS{jr.Null(), jr.Bool(true), {T: jr.TObj}, {T: jr.TArr, E: []*jr.JS{}}, {T: jr.TBigInt, Dec: "3"}, {T: jr.TBBool, B: true}, jr.Undef(), {T: jr.TFunc}}
	return &jr.Space{V: others[g.n("spother", 0, len(others)-1)]}
}

func (g *vgen) gapString() []uint16 {
	n := g.n("gaplen", 0, 14)
	out := []uint16{}
	for len(out) < n {
		switch g.n("gapkind", 0, 5) {
		case 0, 1, 2:
			out = append(out, gapUnits[g.n("gapunit", 0, len(gapUnits)-1)])
		case 3:
			out = append(out, ' ')
		case 4:
			out = append(out, 0xd83d, 0xde00) // astral: may straddle unit 10
		default:
			out = append(out, uint16(g.n("gapsur", 0xd800, 0xdfff)))
		}
	}
	cls := "space:string"
	if len(out) > 10 {
		cls += ":long"
	}
	for _, c := range out {
		if c >= 0x80 {
			cls += ":nonascii"
			break
		}
	}
	g.lab(cls)
	return out
}

var patchProtos = []string{"Object", "Array", "Number", "String", "Boolean", "BigInt", "Symbol", "Date", "Function"}

func (g *vgen) patches() jr.Patches {
	if g.n("patched", 0, 5) != 0 {
		return nil
	}
	p := jr.Patches{}
	n := g.n("npatch", 1, 2)
	for i := 0; i < n; i++ {
		proto := patchProtos[g.n("pproto", 0, len(patchProtos)-1)]
		fn := "#5"
		if g.n("pcallable", 0, 5) != 0 {
			fn = toJSONFns[g.n("pfn", 0, len(toJSONFns)-1)]
		}
		p[proto] = fn
		g.lab("patch:" + proto)
	}
	return p
}

func (g *vgen) flush() {
	for k, n := range g.labels {
		evid.CountN("value:"+k, int64(n))
	}
}

func itoa(i int) string { return strconv.Itoa(i) }
