package c19

import (
	"encoding/json"
	"fmt"
	"os"
	"sort"
	"strings"
	"testing"
	"unicode/utf16"

	"github.com/dop251/goja"
	"pgregory.net/rapid"

	"verifh/internal/evid"
	jr "verifh/internal/jsonref"
	"verifh/internal/jsx"
)

func TestMain(m *testing.M) { evid.Main("C19", m) }

const preludeExtra = `
function ename(e){
  try {
    if (e instanceof TypeError && Object.getPrototypeOf(e) === TypeError.prototype) return "TypeError";
    if (e instanceof SyntaxError && Object.getPrototypeOf(e) === SyntaxError.prototype) return "SyntaxError";
    if (e instanceof Error) return String(e.name) + ":" + String(e.message);
    return "thrown:" + typeof e;
  } catch (x) { return "unknown"; }
}
function logs(){ var r = []; for (var i = 0; i < LOG.length; i++) r.push(hx(LOG[i])); return r.join(","); }
`

var prelude = goja.MustCompile("prelude.js", jr.DumpJS+preludeExtra, false)

func newVM() (*goja.Runtime, *evid.Failure) {
	vm := goja.New()
	if o := jsx.RunProgram(vm, prelude); o.Kind != "value" {
		return nil, &evid.Failure{Key: "harness", Msg: "prelude failed: " + o.Text}
	}
	return vm, nil
}

func show(u []uint16) string {
	s := string(utf16.Decode(u))
	if len(s) > 300 {
		s = s[:300] + "…"
	}
	return s
}

// ---------------------------------------------------------------- parse

type ParseCase struct {
	Units string `json:"units"` // the text, 4 hex digits per UTF-16 code unit
	Show  string `json:"show"`  // the same for humans (lone surrogates shown as U+FFFD)
	Mode  int    `json:"mode"`  // 0: ASCII-only string literal, 1: literal with raw non-ASCII, 2: Go string bound as a global
	Edit  string `json:"edit,omitempty"`
	Base  string `json:"base,omitempty"`
}

func textFeature(tv *jr.TV) string {
	f := ""
	var walk func(v *jr.TV)
	walk = func(v *jr.TV) {
		switch v.K {
		case '#':
			x := v.Float(0)
			if x > 1.7976931348623157e308 || x < -1.7976931348623157e308 {
				f = "number-overflow"
			}
		case '[':
			for _, e := range v.A {
				walk(e)
			}
		case '{':
			for _, m := range v.M {
				walk(m.Val)
			}
		}
	}
	walk(tv)
	if f == "" {
		f = "other"
	}
	return f
}

// parseExpect returns the acceptable result strings for JSON.parse(text).
func parseExpect(units []uint16) (accept bool, want []string, tv *jr.TV, info *jr.Info) {
	tv, info, err := jr.Parse(units)
	if err != nil {
		return false, []string{"E:SyntaxError"}, nil, nil
	}
	if jr.HasLoneSurrogate(units) {
		// an unpaired surrogate code unit in the text itself (possibly completing a \u escape): same documented exception
		info.LoneSurrogate = true
	}
	want = []string{"V:" + tv.ToJS(0).Dump()}
	if info.LongNumber {
		for v := 1; v <= 2; v++ {
			want = append(want, "V:"+tv.ToJS(v).Dump())
		}
	}
	return true, want, tv, info
}

func judgeParse(check string, c *ParseCase) *evid.Failure {
	fail := func(key, msg string, exp, obs interface{}) *evid.Failure {
		return &evid.Failure{Check: check, Key: key, Msg: msg, Case: c, Expected: exp, Observed: obs}
	}
	units, ok := jr.ParseHexUnits(c.Units)
	if !ok {
		return fail("harness", "bad case", nil, nil)
	}
	accept, want, tv, info := parseExpect(units)
	if accept && info.LoneSurrogate {
		return nil // documented exception (README: broken surrogate pairs), counted by the generator
	}
	vm, f := newVM()
	if f != nil {
		f.Check, f.Case = check, c
		return f
	}
	mode := c.Mode
	if mode == 2 && jr.HasLoneSurrogate(units) {
		mode = 0
	}
	var arg string
	switch mode {
	case 0:
		arg = jsx.StrLit(units, true)
	case 1:
		arg = jsx.StrLit(units, false)
	default:
		vm.Set("T", string(utf16.Decode(units)))
		arg = "T"
	}
	src := `(function(){ var r; try { r = JSON.parse(` + arg + `); } catch (e) { return "E:" + ename(e); } return "V:" + dump(r); })()`
	o := jsx.RunString(vm, src)
	if o.Kind != "value" {
		return fail("parse:outcome:"+o.Kind, "JSON.parse script did not complete: "+o.Text+"\n"+src, nil, o.Text)
	}
	got := o.Value.String()
	for _, w := range want {
		if got == w {
			return nil
		}
	}
	switch {
	case accept && strings.HasPrefix(got, "E:"):
		return fail("parse:rejects-valid:"+textFeature(tv), fmt.Sprintf("JSON.parse(%s) threw %s; the text is valid JSON", jsx.StrLit(units, true), got[2:]), want[0], got)
	case !accept && strings.HasPrefix(got, "V:"):
		return fail("parse:accepts-invalid", fmt.Sprintf("JSON.parse(%s) returned a value; the text is not in the JSON grammar, a SyntaxError is required", jsx.StrLit(units, true)), want[0], got)
	case !accept:
		return fail("parse:error-class", fmt.Sprintf("JSON.parse(%s) threw %s; a SyntaxError is required", jsx.StrLit(units, true), got[2:]), want[0], got)
	}
	return fail("parse:value", fmt.Sprintf("JSON.parse(%s) returned a different value than the ECMAScript algorithm\n want %s\n got  %s", jsx.StrLit(units, true), want[0], got), want[0], got)
}

func textNontrivial(info *jr.Info) bool {
	return info != nil && (info.Depth >= 2 || info.UnsafeNumber || info.Escape || info.NonASCII)
}

func genParseValid(t *rapid.T) (*ParseCase, bool) {
	units := genText(t, 8, false, false)
	c := &ParseCase{Units: jr.HexUnits(units), Show: show(units), Mode: rapid.IntRange(0, 2).Draw(t, "mode")}
	_, info, err := jr.Parse(units)
	if err != nil {
		// the grammar generator and the recogniser are written independently: a disagreement is a harness bug
		t.Fatalf("generator produced a text the recogniser rejects: %q", c.Show)
	}
	evid.Case(c.Units, textNontrivial(info))
	evid.Count(fmt.Sprintf("parse-valid:depth=%d", info.Depth))
	if info.DupKey {
		evid.Count("parse-valid:duplicate-key")
	}
	if info.LongNumber {
		evid.Count("parse-valid:number>20-significant-digits")
	}
	if info.LoneSurrogate {
		evid.Excluded("lone surrogate escape in JSON.parse input (README: documented incompatibility)")
		return c, false
	}
	evid.Sample("parse-valid", c)
	return c, true
}

func TestQuickParseValid(t *testing.T) {
	evid.Check(t, "parse-valid", 40000, 2, func(t *rapid.T) {
		c, run := genParseValid(t)
		if !run {
			return
		}
		evid.Judge(t, judgeParse("parse-valid", c))
	})
}

var editUnits = []uint16{'{', '}', '[', ']', ',', ':', '"', '\\', '/', '\'', '+', '-', '.', '0', '1', '9', 'e', 'E', 'a', 'u', 't', 'n', 'x', 'N', 'I',
	' ', '\t', '\n', '\r', 0x0b, 0x0c, 0x00, 0x01, 0x1f, 0x7f, 0x85, 0xfeff, 0xa0, 0x2028, 0x2029, 0x3000, 0x200b, 0x1680, '*', '#', '_', '$', '`', '(', ')', '=', ';', 0xd800, 0xdc00}

var editStrings = []string{"//c\n", "/**/", "/*c*/", "//", "00", "0x1", "NaN", "Infinity", "-Infinity", "undefined", ".5", "1.", "+1", "01", "-", "\\x41", "\\'", "\\u12", "\\U0041", "\\v", "\\0", "\\\n", "\\a",
	"1e", "1e+", "e5", "1.e5", "--1", "0.", "tru", "nul", "True", "NULL", "\"\"", "[]", "{}", ",,", "::", "\\u+123", "\\u 123", "\\uD83D", "0b1", "1_0", "1n", "0e", "\u00a0", "\ufeff", "\"a\":", "'a'"}

func applyEdit(t *rapid.T, base []uint16) ([]uint16, string) {
	n := len(base)
	pos := func(label string, hi int) int {
		if hi < 0 {
			hi = 0
		}
		return rapid.IntRange(0, hi).Draw(t, label)
	}
	cp := func(parts ...[]uint16) []uint16 {
		out := []uint16{}
		for _, p := range parts {
			out = append(out, p...)
		}
		return out
	}
	findAll := func(pred func(i int) bool) []int {
		var r []int
		for i := 0; i < n; i++ {
			if pred(i) {
				r = append(r, i)
			}
		}
		return r
	}
	op := rapid.IntRange(0, 13).Draw(t, "op")
	switch op {
	case 0, 1, 2:
		p := pos("ipos", n)
		u := editUnits[rapid.IntRange(0, len(editUnits)-1).Draw(t, "iunit")]
		return cp(base[:p], []uint16{u}, base[p:]), fmt.Sprintf("insert U+%04X at %d", u, p)
	case 3, 4:
		if n == 0 {
			break
		}
		p := pos("rpos", n-1)
		u := editUnits[rapid.IntRange(0, len(editUnits)-1).Draw(t, "runit")]
		return cp(base[:p], []uint16{u}, base[p+1:]), fmt.Sprintf("replace unit %d by U+%04X", p, u)
	case 5, 6:
		if n == 0 {
			break
		}
		p := pos("dpos", n-1)
		return cp(base[:p], base[p+1:]), fmt.Sprintf("delete unit %d", p)
	case 7:
		p := pos("spos", n)
		s := editStrings[rapid.IntRange(0, len(editStrings)-1).Draw(t, "istr")]
		return cp(base[:p], jr.U(s), base[p:]), fmt.Sprintf("insert %q at %d", s, p)
	case 8:
		// trailing comma before a closing bracket, or a comma after an opening one
		cl := findAll(func(i int) bool { return base[i] == ']' || base[i] == '}' || base[i] == '[' || base[i] == '{' })
		if len(cl) == 0 {
			break
		}
		p := cl[pos("tcpos", len(cl)-1)]
		if base[p] == '[' || base[p] == '{' {
			p++
		}
		return cp(base[:p], []uint16{','}, base[p:]), fmt.Sprintf("comma at %d", p)
	case 9:
		// leading zero in front of a digit run
		ds := findAll(func(i int) bool {
			return base[i] >= '0' && base[i] <= '9' && (i == 0 || base[i-1] < '0' || base[i-1] > '9')
		})
		if len(ds) == 0 {
			break
		}
		p := ds[pos("lzpos", len(ds)-1)]
		return cp(base[:p], []uint16{'0'}, base[p:]), fmt.Sprintf("leading zero at %d", p)
	case 10:
		qs := findAll(func(i int) bool { return base[i] == '"' })
		if len(qs) == 0 {
			break
		}
		p := qs[pos("qpos", len(qs)-1)]
		return cp(base[:p], []uint16{'\''}, base[p+1:]), fmt.Sprintf("single quote at %d", p)
	case 11:
		p := pos("tpos", n)
		return cp(base[:p]), fmt.Sprintf("truncate at %d", p)
	case 12:
		if n == 0 {
			break
		}
		p := pos("duppos", n-1)
		return cp(base[:p+1], base[p:]), fmt.Sprintf("duplicate unit %d", p)
	case 13:
		if n < 2 {
			break
		}
		p := pos("swpos", n-2)
		out := cp(base)
		out[p], out[p+1] = out[p+1], out[p]
		return out, fmt.Sprintf("swap units %d,%d", p, p+1)
	}
	return cp(base, []uint16{','}), "append comma"
}

func genParseCorrupt(t *rapid.T) (*ParseCase, bool) {
	base := genText(t, 4, false, true)
	units, edit := applyEdit(t, base)
	c := &ParseCase{Units: jr.HexUnits(units), Show: show(units), Mode: rapid.IntRange(0, 2).Draw(t, "mode"), Edit: edit, Base: show(base)}
	evid.Case(c.Units, true)
	_, info, err := jr.Parse(units)
	if err != nil {
		evid.Count("parse-corrupt:invalid")
	} else {
		evid.Count("parse-corrupt:still-valid")
		if info.LoneSurrogate {
			evid.Excluded("corruption left a lone surrogate in an otherwise valid text (README: documented incompatibility)")
			return c, false
		}
	}
	evid.Count("parse-corrupt:op:" + strings.SplitN(edit, " ", 2)[0])
	evid.Sample("parse-corrupt", c)
	return c, true
}

func TestQuickParseCorrupt(t *testing.T) {
	evid.Check(t, "parse-corrupt", 60000, 2, func(t *rapid.T) {
		c, run := genParseCorrupt(t)
		if !run {
			return
		}
		evid.Judge(t, judgeParse("parse-corrupt", c))
	})
}

// sweepCorpus: every single-unit deletion, insertion and replacement (from
// editUnits) of these texts is judged — a deterministic part independent of the seed.
var sweepCorpus = []string{
	`{"a":[1,2.5e-3,"x\n\u00e9"],"b":null}`, `[true,false,null]`, `-0.0e+1`, `"\ud83d\ude00\\"`, ` [ ] `, `{}`, `{"":0}`, `[[],{}]`, `1E400`, `"a\/b"`,
	`{"__proto__":{"0":1}}`, "\t\n\r 1", `[1,{"a":"b"},"c"]`, `123`, `"\u2028"`, `[-1.5]`, `{"a":1,"a":2}`, `0`, `null`, `[0,10]`,
}

func TestQuickParseSweep(t *testing.T) {
	t.Run("parse-sweep", func(t *testing.T) {
		for ti, txt := range sweepCorpus {
			if ti%evid.NShards() != evid.Shard() {
				continue
			}
			base := jr.U(txt)
			try := func(units []uint16, edit string) {
				c := &ParseCase{Units: jr.HexUnits(units), Show: show(units), Mode: 0, Edit: edit, Base: txt}
				evid.Case(c.Units, true)
				evid.Count("parse-sweep:edits")
				if ok, _, _, info := parseExpect(units); ok && info.LoneSurrogate {
					evid.Excluded("corruption left a lone surrogate in an otherwise valid text (README: documented incompatibility)")
					return
				}
				evid.Direct(t, judgeParse("parse-sweep", c))
			}
			for p := 0; p <= len(base); p++ {
				if p < len(base) {
					try(append(append([]uint16{}, base[:p]...), base[p+1:]...), fmt.Sprintf("delete unit %d", p))
				}
				for _, u := range editUnits {
					ins := append(append(append([]uint16{}, base[:p]...), u), base[p:]...)
					try(ins, fmt.Sprintf("insert U+%04X at %d", u, p))
					if p < len(base) {
						rep := append(append(append([]uint16{}, base[:p]...), u), base[p+1:]...)
						try(rep, fmt.Sprintf("replace unit %d by U+%04X", p, u))
					}
				}
				if t.Failed() {
					return
				}
			}
		}
	})
}

// ---------------------------------------------------------------- parse of non-strings

type NonStrCase struct {
	Expr   string `json:"expr"`             // the argument expression
	Str    string `json:"str"`              // hex units of ToString(argument) per the specification
	Throws string `json:"throws,omitempty"` // ToString itself throws this
}

func genNonString(t *rapid.T) *NonStrCase {
	text := genText(t, 2, false, true)
	if rapid.IntRange(0, 2).Draw(t, "corrupt") == 0 {
		text, _ = applyEdit(t, text)
	}
	lit := jsx.StrLit(text, true)
	c := &NonStrCase{}
	k := rapid.IntRange(0, 13).Draw(t, "argkind")
	switch k {
	case 0:
		f := (&vgen{t: t, labels: map[string]int{}}).num()
		c.Expr = jsx.NumLit(f)
		c.Str = jr.HexUnits(jr.U(jsx.NumberToString(f)))
	case 1:
		c.Expr, c.Str = "null", jr.HexUnits(jr.U("null"))
	case 2:
		c.Expr, c.Str = "true", jr.HexUnits(jr.U("true"))
	case 3:
		c.Expr, c.Str = "undefined", jr.HexUnits(jr.U("undefined"))
	case 4:
		c.Expr, c.Str = "", jr.HexUnits(jr.U("undefined"))
	case 5:
		c.Expr, c.Str = "{toString: function(){ return "+lit+"; }}", jr.HexUnits(text)
	case 6:
		c.Expr, c.Str = "{valueOf: function(){ return \"[7]\"; }, toString: function(){ return "+lit+"; }}", jr.HexUnits(text)
	case 7:
		c.Expr, c.Str = "["+lit+"]", jr.HexUnits(text)
	case 8:
		c.Expr, c.Str = "new String("+lit+")", jr.HexUnits(text)
	case 9:
		c.Expr, c.Throws = `Symbol("x")`, "TypeError"
	case 10:
		c.Expr, c.Str = "12n", jr.HexUnits(jr.U("12"))
	case 11:
		c.Expr, c.Str = "({})", jr.HexUnits(jr.U("[object Object]"))
	case 12:
		c.Expr, c.Str = "[1,2]", jr.HexUnits(jr.U("1,2"))
	default:
		c.Expr, c.Str = "{toString: function(){ return {}; }, valueOf: function(){ return "+lit+"; }}", jr.HexUnits(text)
	}
	evid.Case(c.Expr, true)
	evid.Count(fmt.Sprintf("parse-nonstring:kind%d", k))
	evid.Sample("parse-nonstring", c)
	return c
}

func judgeNonString(c *NonStrCase) *evid.Failure {
	fail := func(key, msg string, exp, obs interface{}) *evid.Failure {
		return &evid.Failure{Check: "parse-nonstring", Key: key, Msg: msg, Case: c, Expected: exp, Observed: obs}
	}
	var want []string
	if c.Throws != "" {
		want = []string{"E:" + c.Throws}
	} else {
		units, ok := jr.ParseHexUnits(c.Str)
		if !ok {
			return fail("harness", "bad case", nil, nil)
		}
		var acc bool
		var info *jr.Info
		acc, want, _, info = parseExpect(units)
		if acc && info.LoneSurrogate {
			return nil
		}
	}
	vm, f := newVM()
	if f != nil {
		f.Check, f.Case = "parse-nonstring", c
		return f
	}
	src := `(function(){ var r; try { r = JSON.parse(` + c.Expr + `); } catch (e) { return "E:" + ename(e); } return "V:" + dump(r); })()`
	o := jsx.RunString(vm, src)
	if o.Kind != "value" {
		return fail("parse-nonstring:outcome:"+o.Kind, "script did not complete: "+o.Text+"\n"+src, nil, o.Text)
	}
	got := o.Value.String()
	for _, w := range want {
		if got == w {
			return nil
		}
	}
	return fail("parse-nonstring:result", fmt.Sprintf("JSON.parse(%s): want %s got %s", c.Expr, want[0], got), want[0], got)
}

func TestQuickParseNonString(t *testing.T) {
	evid.Check(t, "parse-nonstring", 6000, 2, func(t *rapid.T) {
		evid.Judge(t, judgeNonString(genNonString(t)))
	})
}

// ---------------------------------------------------------------- revivers

type ReviveCase struct {
	Units   string `json:"units"`
	Show    string `json:"show"`
	Reviver string `json:"reviver"`
}

func reviverExpr(id string) string {
	if e, ok := jr.NonCallableRevivers[id]; ok {
		return e
	}
	return "FN." + id
}

var nonCallableIDs = func() []string {
	var r []string
	for k := range jr.NonCallableRevivers {
		r = append(r, k)
	}
	sort.Strings(r)
	return r
}()

func genRevive(t *rapid.T) *ReviveCase {
	simple := rapid.IntRange(0, 3).Draw(t, "simpletext") != 0
	units := genText(t, 5, simple, true)
	var rv string
	if rapid.IntRange(0, 7).Draw(t, "noncallable") == 0 {
		rv = nonCallableIDs[rapid.IntRange(0, len(nonCallableIDs)-1).Draw(t, "ncid")]
	} else {
		rv = jr.Revivers[rapid.IntRange(0, len(jr.Revivers)-1).Draw(t, "reviver")]
	}
	c := &ReviveCase{Units: jr.HexUnits(units), Show: show(units), Reviver: rv}
	_, info, err := jr.Parse(units)
	if err != nil {
		t.Fatalf("generator produced a text the recogniser rejects: %q", c.Show)
	}
	evid.Case(c.Units+"|"+rv, info.Depth >= 1)
	evid.Count("revive:" + rv)
	evid.Sample("revive", c)
	return c
}

func judgeRevive(c *ReviveCase) *evid.Failure {
	fail := func(key, msg string, exp, obs interface{}) *evid.Failure {
		return &evid.Failure{Check: "revive", Key: key, Msg: msg, Case: c, Expected: exp, Observed: obs}
	}
	units, ok := jr.ParseHexUnits(c.Units)
	if !ok {
		return fail("harness", "bad case", nil, nil)
	}
	tv, info, err := jr.Parse(units)
	if err != nil || info.LoneSurrogate {
		return fail("harness", "bad case: text invalid", nil, nil)
	}
	var want []string
	nv := 1
	if info.LongNumber {
		nv = 3
	}
	for v := 0; v < nv; v++ {
		r, err := jr.Revive(tv.ToJS(v), c.Reviver)
		if err != nil {
			return fail("harness", "model: "+err.Error(), nil, nil)
		}
		want = append(want, "V:"+r.Value.Dump()+"|"+strings.Join(r.Log, ","))
	}
	vm, f := newVM()
	if f != nil {
		f.Check, f.Case = "revive", c
		return f
	}
	src := `(function(){ var r; LOG = []; try { r = JSON.parse(` + jsx.StrLit(units, true) + `, ` + reviverExpr(c.Reviver) + `); } catch (e) { return "E:" + ename(e); } return "V:" + dump(r) + "|" + logs(); })()`
	o := jsx.RunString(vm, src)
	if o.Kind != "value" {
		return fail("revive:outcome:"+o.Kind, "script did not complete: "+o.Text+"\n"+src, nil, o.Text)
	}
	got := o.Value.String()
	for _, w := range want {
		if got == w {
			return nil
		}
	}
	key := "revive:" + c.Reviver
	if strings.HasPrefix(got, "E:") {
		key += ":throws"
	}
	return fail(key, fmt.Sprintf("JSON.parse(%s, %s) differs from InternalizeJSONProperty\n want %s\n got  %s", jsx.StrLit(units, true), reviverExpr(c.Reviver), want[0], got), want[0], got)
}

func TestQuickRevive(t *testing.T) {
	evid.Check(t, "revive", 16000, 2, func(t *rapid.T) {
		evid.Judge(t, judgeRevive(genRevive(t)))
	})
}

// ---------------------------------------------------------------- stringify

type StrCase struct {
	Value    *jr.JS       `json:"value"`
	Replacer *jr.Replacer `json:"replacer,omitempty"`
	Space    *jr.Space    `json:"space,omitempty"`
	Patches  jr.Patches   `json:"patches,omitempty"`
	Ascii    bool         `json:"ascii"` // print string literals with \u escapes only
}

func patchStmts(p jr.Patches) string {
	var names []string
	for k := range p {
		names = append(names, k)
	}
	sort.Strings(names)
	var sb strings.Builder
	for _, n := range names {
		v := "5"
		if p[n] != "#5" {
			v = "FN." + p[n]
		}
		fmt.Fprintf(&sb, "%s.prototype.toJSON = %s;\n", n, v)
	}
	return sb.String()
}

// stringifySource builds the statements that set up V (value), and the argument list text.
func stringifySource(c *StrCase) (stmts string, args string) {
	var sb strings.Builder
	sb.WriteString(patchStmts(c.Patches))
	vs, ve := jr.Source(c.Value, c.Ascii, "v")
	sb.WriteString(vs)
	args = ve
	if c.Replacer == nil && c.Space == nil {
		return sb.String(), args
	}
	rep := "undefined"
	if c.Replacer != nil {
		switch c.Replacer.Kind {
		case "fn":
			rep = "FN." + c.Replacer.Fn
		case "list":
			ls, le := jr.Source(&jr.JS{T: jr.TArr, E: c.Replacer.List, Proxy: c.Replacer.Proxy}, c.Ascii, "r")
			sb.WriteString(ls)
			rep = le
		case "other":
			os, oe := jr.Source(c.Replacer.Other, c.Ascii, "r")
			sb.WriteString(os)
			rep = oe
		}
	}
	args += ", " + rep
	if c.Space != nil && c.Space.V != nil {
		ss, se := jr.Source(c.Space.V, c.Ascii, "s")
		sb.WriteString(ss)
		args += ", " + se
	}
	return sb.String(), args
}

func stringifyKey(c *StrCase) string {
	r := "none"
	if c.Replacer != nil {
		r = c.Replacer.Kind
		if r == "fn" {
			r += ":" + c.Replacer.Fn
		}
	}
	s := "none"
	if c.Space != nil && c.Space.V != nil {
		s = c.Space.V.T
	}
	return "stringify:replacer=" + r + ":space=" + s
}

func modelStringify(c *StrCase) (string, error) {
	res, err := jr.Stringify(c.Value, c.Replacer, c.Space, c.Patches)
	switch {
	case err == jr.ErrTypeError:
		return "E:TypeError", nil
	case err != nil:
		return "", err
	case res.Undefined:
		return "U:undefined|" + strings.Join(res.Log, ","), nil
	}
	return "S:" + jr.HexUnits(res.Text) + "|" + strings.Join(res.Log, ","), nil
}

func decodeResult(s string) string {
	if strings.HasPrefix(s, "S:") {
		body, log, _ := strings.Cut(s[2:], "|")
		if u, ok := jr.ParseHexUnits(body); ok {
			r := "text " + jsx.StrLit(u, true)
			if log != "" {
				r += " log " + log
			}
			return r
		}
	}
	return s
}

func judgeStringify(c *StrCase) *evid.Failure {
	fail := func(key, msg string, exp, obs interface{}) *evid.Failure {
		return &evid.Failure{Check: "stringify", Key: key, Msg: msg, Case: c, Expected: exp, Observed: obs}
	}
	want, err := modelStringify(c)
	if err == jr.ErrBudget {
		return nil
	}
	if err != nil {
		return fail("harness", "model: "+err.Error(), nil, nil)
	}
	vm, f := newVM()
	if f != nil {
		f.Check, f.Case = "stringify", c
		return f
	}
	stmts, args := stringifySource(c)
	src := "(function(){\n" + stmts + "LOG = [];\nvar r; try { r = JSON.stringify(" + args + "); } catch (e) { return \"E:\" + ename(e); }\n" +
		"return (typeof r === \"string\" ? \"S:\" + hx(r) : \"U:\" + typeof r) + \"|\" + logs();\n})()"
	o := jsx.RunString(vm, src)
	if o.Kind != "value" {
		return fail("stringify:outcome:"+o.Kind, "script did not complete: "+o.Text+"\n"+src, nil, o.Text)
	}
	got := o.Value.String()
	if got == want {
		return nil
	}
	if alt := sanitisedGapCase(c); alt != nil {
		// goja builds the result in a UTF-8 buffer: an unpaired surrogate in the gap cannot be represented and
		// becomes U+FFFD. Classified separately only when that substitution is the whole difference.
		if w2, err := modelStringify(alt); err == nil && w2 == got {
			return fail("stringify:gap-lone-surrogate", fmt.Sprintf("JSON.stringify with a space string whose first 10 code units contain an unpaired surrogate: the surrogate is replaced by U+FFFD\n script:\n%s\n want %s\n got  %s", src, decodeResult(want), decodeResult(got)), want, got)
		}
	}
	return fail(stringifyKey(c), fmt.Sprintf("JSON.stringify differs from SerializeJSONProperty\n script:\n%s\n want %s\n got  %s", src, decodeResult(want), decodeResult(got)), want, got)
}

// sanitisedGapCase returns a copy of c whose gap has every unpaired surrogate
// replaced by U+FFFD, or nil if the effective gap is well-formed UTF-16.
func sanitisedGapCase(c *StrCase) *StrCase {
	if c.Space == nil || c.Space.V == nil || (c.Space.V.T != jr.TStr && c.Space.V.T != jr.TBStr) {
		return nil
	}
	gap := c.Space.V.S
	if len(gap) > 10 {
		gap = gap[:10]
	}
	if !jr.HasLoneSurrogate(gap) {
		return nil
	}
	clean := utf16.Encode(utf16.Decode(gap))
	alt := *c
	alt.Space = &jr.Space{V: jr.Str(clean)}
	return &alt
}

func valueNontrivial(g *vgen) bool { return g.depthMax >= 2 || g.special }

func genStringify(t *rapid.T) (*StrCase, bool) {
	g := &vgen{t: t, maxDepth: 4, labels: map[string]int{}}
	c := &StrCase{}
	c.Value = g.value(0)
	c.Replacer = g.replacer()
	c.Space = g.space()
	c.Patches = g.patches()
	c.Ascii = g.n("ascii", 0, 1) == 0
	g.flush()
	b, _ := json.Marshal(c)
	evid.Case(string(b), valueNontrivial(g))
	if _, err := modelStringify(c); err == jr.ErrBudget {
		evid.Excluded("model recursion budget exceeded (toJSON/replacer building new objects around a cycle)")
		return c, false
	}
	evid.Sample("stringify", c)
	return c, true
}

func TestQuickStringify(t *testing.T) {
	evid.Check(t, "stringify", 40000, 2, func(t *rapid.T) {
		c, run := genStringify(t)
		if !run {
			return
		}
		evid.Judge(t, judgeStringify(c))
	})
}

// ---------------------------------------------------------------- laws

// normalise maps a JSON-representable value to what parse(stringify(v)) must
// give: the same value with -0 replaced by +0.
func normalise(v *jr.JS) *jr.JS {
	switch v.T {
	case jr.TNum:
		if v.Num() == 0 {
			return jr.Num(0)
		}
		return v
	case jr.TArr:
		a := &jr.JS{T: jr.TArr, E: []*jr.JS{}}
		for _, e := range v.E {
			a.E = append(a.E, normalise(e))
		}
		return a
	case jr.TObj:
		o := &jr.JS{T: jr.TObj}
		for _, k := range v.OwnKeys(true) {
			o.CreateDataProperty(k, normalise(v.GetOwn(k)))
		}
		return o
	}
	return v
}

type RoundTripCase struct {
	Value *jr.JS    `json:"value"`
	Space *jr.Space `json:"space,omitempty"`
	Ascii bool      `json:"ascii"`
}

func genRoundTrip(t *rapid.T) *RoundTripCase {
	g := &vgen{t: t, maxDepth: 5, repr: true, labels: map[string]int{}}
	c := &RoundTripCase{Value: g.value(0)}
	if g.n("withspace", 0, 2) == 0 {
		c.Space = &jr.Space{V: jr.Num(float64(g.n("sp", 0, 4)))}
	}
	c.Ascii = g.n("ascii", 0, 1) == 0
	g.flush()
	b, _ := json.Marshal(c)
	evid.Case(string(b), valueNontrivial(g))
	evid.Sample("law-roundtrip", c)
	return c
}

func judgeRoundTrip(c *RoundTripCase) *evid.Failure {
	fail := func(key, msg string, exp, obs interface{}) *evid.Failure {
		return &evid.Failure{Check: "law-roundtrip", Key: key, Msg: msg, Case: c, Expected: exp, Observed: obs}
	}
	vm, f := newVM()
	if f != nil {
		f.Check, f.Case = "law-roundtrip", c
		return f
	}
	stmts, expr := jr.Source(c.Value, c.Ascii, "v")
	sp := "undefined"
	if c.Space != nil {
		sp = jsx.NumLit(c.Space.V.Num())
	}
	src := "(function(){\n" + stmts + "var r; try { r = JSON.parse(JSON.stringify(" + expr + ", null, " + sp + ")); } catch (e) { return \"E:\" + ename(e); }\n" +
		"return dump(" + expr + ") + \"|\" + dump(r);\n})()"
	o := jsx.RunString(vm, src)
	if o.Kind != "value" {
		return fail("law-roundtrip:outcome:"+o.Kind, "script did not complete: "+o.Text+"\n"+src, nil, o.Text)
	}
	got := o.Value.String()
	want := c.Value.Dump() + "|" + normalise(c.Value).Dump()
	if got == want {
		return nil
	}
	key := "law-roundtrip:value"
	if strings.HasPrefix(got, c.Value.Dump()+"|") {
		key = "law-roundtrip:parse(stringify(v))"
	} else if strings.HasPrefix(got, "E:") {
		key = "law-roundtrip:throws"
	}
	return fail(key, fmt.Sprintf("parse(stringify(v)) is not structurally equal to v (or v was not built as specified)\n script:\n%s\n want %s\n got  %s", src, want, got), want, got)
}

func TestQuickLawRoundTrip(t *testing.T) {
	evid.Check(t, "law-roundtrip", 16000, 2, func(t *rapid.T) {
		evid.Judge(t, judgeRoundTrip(genRoundTrip(t)))
	})
}

func hasSubnormal(v *jr.TV) bool {
	switch v.K {
	case '#':
		for variant := 0; variant < 3; variant++ {
			f := v.Float(variant)
			if f != 0 && f > -2.2250738585072014e-308 && f < 2.2250738585072014e-308 {
				return true
			}
		}
	case '[':
		for _, e := range v.A {
			if hasSubnormal(e) {
				return true
			}
		}
	case '{':
		for _, m := range v.M {
			if hasSubnormal(m.Val) {
				return true
			}
		}
	}
	return false
}

type CanonCase struct {
	Units string    `json:"units"`
	Show  string    `json:"show"`
	Space *jr.Space `json:"space,omitempty"`
}

func genCanon(t *rapid.T) (*CanonCase, bool) {
	units := genText(t, 6, false, true)
	c := &CanonCase{Units: jr.HexUnits(units), Show: show(units)}
	if rapid.IntRange(0, 2).Draw(t, "withspace") == 0 {
		c.Space = &jr.Space{V: jr.Num(float64(rapid.IntRange(0, 4).Draw(t, "sp")))}
	}
	tv, info, err := jr.Parse(units)
	if err != nil {
		t.Fatalf("generator produced a text the recogniser rejects: %q", c.Show)
	}
	evid.Case(c.Units, textNontrivial(info))
	if hasSubnormal(tv) {
		evid.Excluded("subnormal number in a law-canonical text (its Number::toString belongs to C12; the parsed value itself is still checked by parse-valid)")
		return c, false
	}
	evid.Sample("law-canonical", c)
	return c, true
}

func judgeCanon(c *CanonCase) *evid.Failure {
	fail := func(key, msg string, exp, obs interface{}) *evid.Failure {
		return &evid.Failure{Check: "law-canonical", Key: key, Msg: msg, Case: c, Expected: exp, Observed: obs}
	}
	units, ok := jr.ParseHexUnits(c.Units)
	if !ok {
		return fail("harness", "bad case", nil, nil)
	}
	tv, info, err := jr.Parse(units)
	if err != nil || info.LoneSurrogate {
		return fail("harness", "bad case: text invalid", nil, nil)
	}
	nv := 1
	if info.LongNumber {
		nv = 3
	}
	var want []string
	for v := 0; v < nv; v++ {
		res, err := jr.Stringify(tv.ToJS(v), nil, c.Space, nil)
		if err != nil {
			return fail("harness", "model: "+err.Error(), nil, nil)
		}
		want = append(want, "S:"+jr.HexUnits(res.Text))
	}
	vm, f := newVM()
	if f != nil {
		f.Check, f.Case = "law-canonical", c
		return f
	}
	sp := "undefined"
	if c.Space != nil {
		sp = jsx.NumLit(c.Space.V.Num())
	}
	src := `(function(){ var r; try { r = JSON.stringify(JSON.parse(` + jsx.StrLit(units, true) + `), null, ` + sp + `); } catch (e) { return "E:" + ename(e); } return typeof r === "string" ? "S:" + hx(r) : "U:" + typeof r; })()`
	o := jsx.RunString(vm, src)
	if o.Kind != "value" {
		return fail("law-canonical:outcome:"+o.Kind, "script did not complete: "+o.Text+"\n"+src, nil, o.Text)
	}
	got := o.Value.String()
	for _, w := range want {
		if got == w {
			return nil
		}
	}
	key := "law-canonical:text"
	if strings.HasPrefix(got, "E:") {
		key = "law-canonical:throws:" + textFeature(tv)
	}
	return fail(key, fmt.Sprintf("stringify(parse(t)) is not the canonical form of t = %s\n want %s\n got  %s", jsx.StrLit(units, true), decodeResult(want[0]+"|"), decodeResult(got+"|")), want[0], got)
}

func TestQuickLawCanonical(t *testing.T) {
	evid.Check(t, "law-canonical", 16000, 2, func(t *rapid.T) {
		c, run := genCanon(t)
		if !run {
			return
		}
		evid.Judge(t, judgeCanon(c))
	})
}

// MarshalJSON law: (*Object).MarshalJSON() "is equivalent to JSON.stringify(o)"
// (doc comment). Go has no undefined: when stringify gives undefined the method
// returns "null" (value.go), which the check accepts as the only alternative.
type MarshalCase struct {
	Value   *jr.JS     `json:"value"`
	Patches jr.Patches `json:"patches,omitempty"`
}

func genMarshal(t *rapid.T) (*MarshalCase, bool) {
	g := &vgen{t: t, maxDepth: 4, labels: map[string]int{}}
	c := &MarshalCase{}
	if g.n("top", 0, 1) == 0 {
		c.Value = g.object(1)
	} else {
		c.Value = g.array(1)
	}
	if g.n("topkind", 0, 9) == 0 {
		c.Value = []*jr.JS{{T: jr.TFunc}, {T: jr.TBNum, Bits: 0x3ff8000000000000}, {T: jr.TBStr, S: jr.U("é\"")}, {T: jr.TBSym}, {T: jr.TDate}, {T: jr.TBBool, B: true}}[g.n("topother", 0, 5)]
	}
	c.Patches = g.patches()
	g.flush()
	b, _ := json.Marshal(c)
	evid.Case(string(b), valueNontrivial(g))
	sc := &StrCase{Value: c.Value, Patches: c.Patches}
	if _, err := modelStringify(sc); err == jr.ErrBudget {
		evid.Excluded("model recursion budget exceeded (toJSON/replacer building new objects around a cycle)")
		return c, false
	}
	evid.Sample("law-marshal", c)
	return c, true
}

func judgeMarshal(c *MarshalCase) *evid.Failure {
	fail := func(key, msg string, exp, obs interface{}) *evid.Failure {
		return &evid.Failure{Check: "law-marshal", Key: key, Msg: msg, Case: c, Expected: exp, Observed: obs}
	}
	res, err := jr.Stringify(c.Value, nil, nil, c.Patches)
	if err == jr.ErrBudget {
		return nil
	}
	if err != nil && err != jr.ErrTypeError {
		return fail("harness", "model: "+err.Error(), nil, nil)
	}
	vm, f := newVM()
	if f != nil {
		f.Check, f.Case = "law-marshal", c
		return f
	}
	stmts, expr := jr.Source(c.Value, true, "v")
	src := "(function(){\n" + patchStmts(c.Patches) + stmts + "return " + expr + ";\n})()"
	o := jsx.RunString(vm, src)
	if o.Kind != "value" {
		return fail("law-marshal:outcome:"+o.Kind, "script did not complete: "+o.Text+"\n"+src, nil, o.Text)
	}
	obj, ok := o.Value.(*goja.Object)
	if !ok {
		return fail("harness", "script did not return an object", nil, nil)
	}
	var out []byte
	var merr error
	po := jsx.Protect(func() (goja.Value, error) {
		out, merr = obj.MarshalJSON()
		return nil, nil
	})
	if po.Kind == "panic" {
		return fail("law-marshal:panic", "MarshalJSON panicked: "+po.Text+"\n"+po.Stack, nil, po.Text)
	}
	switch {
	case err == jr.ErrTypeError:
		if merr == nil {
			return fail("law-marshal:no-error", fmt.Sprintf("JSON.stringify(o) throws a TypeError but MarshalJSON returned %q\n script:\n%s", out, src), "error", string(out))
		}
		if ex, ok := merr.(*goja.Exception); !ok || jsx.ExcName(vm, ex) != "TypeError" {
			return fail("law-marshal:error-class", fmt.Sprintf("MarshalJSON error is %v, JSON.stringify(o) throws a TypeError", merr), "TypeError", merr.Error())
		}
		return nil
	case merr != nil:
		return fail("law-marshal:error", fmt.Sprintf("MarshalJSON failed with %v, JSON.stringify(o) does not throw\n script:\n%s", merr, src), nil, merr.Error())
	case res.Undefined:
		if string(out) == "null" {
			return nil
		}
		return fail("law-marshal:undefined", fmt.Sprintf("JSON.stringify(o) is undefined; MarshalJSON returned %q (documented fallback: null)", out), "null", string(out))
	}
	want := string(utf16.Decode(res.Text))
	if string(out) == want {
		return nil
	}
	return fail("law-marshal:text", fmt.Sprintf("MarshalJSON differs from JSON.stringify(o)\n script:\n%s\n want %q\n got  %q", src, want, out), want, string(out))
}

func TestQuickLawMarshal(t *testing.T) {
	evid.Check(t, "law-marshal", 8000, 2, func(t *rapid.T) {
		c, run := genMarshal(t)
		if !run {
			return
		}
		evid.Judge(t, judgeMarshal(c))
	})
}

// ---------------------------------------------------------------- replay

func TestReplay(t *testing.T) {
	p := os.Getenv("VERIF_REPLAY")
	if p == "" {
		t.Skip("no VERIF_REPLAY")
	}
	check, raw, err := evid.LoadReplay(p)
	if err != nil {
		t.Fatal(err)
	}
	un := func(v interface{}) {
		if err := json.Unmarshal(raw, v); err != nil {
			t.Fatal(err)
		}
	}
	switch check {
	case "parse-valid", "parse-corrupt", "parse-sweep":
		var c ParseCase
		un(&c)
		evid.Direct(t, judgeParse(check, &c))
	case "parse-nonstring":
		var c NonStrCase
		un(&c)
		evid.Direct(t, judgeNonString(&c))
	case "revive":
		var c ReviveCase
		un(&c)
		evid.Direct(t, judgeRevive(&c))
	case "stringify":
		var c StrCase
		un(&c)
		evid.Direct(t, judgeStringify(&c))
	case "law-roundtrip":
		var c RoundTripCase
		un(&c)
		evid.Direct(t, judgeRoundTrip(&c))
	case "law-canonical":
		var c CanonCase
		un(&c)
		evid.Direct(t, judgeCanon(&c))
	case "law-marshal":
		var c MarshalCase
		un(&c)
		evid.Direct(t, judgeMarshal(&c))
	default:
		t.Fatalf("unknown check %q", check)
	}
}
