package c19

import (
	"strconv"
	"strings"
	"unicode/utf16"

	"pgregory.net/rapid"

	"verifh/internal/evid"
)

// tgen writes a random member of the JSON grammar as UTF-16 code units.
type tgen struct {
	t        *rapid.T
	out      []uint16
	maxDepth int
	simple   bool // reviver texts: small numbers, keys biased to the names the catalogue reacts to
	noLone   bool // never emit unpaired surrogate escapes
	labels   map[string]int
}

func (g *tgen) lab(s string) { g.labels[s]++ }

func (g *tgen) n(label string, lo, hi int) int { return rapid.IntRange(lo, hi).Draw(g.t, label) }

func (g *tgen) puts(s string) {
	for _, r := range s {
		if r >= 0x10000 {
			a, b := utf16.EncodeRune(r)
			g.out = append(g.out, uint16(a), uint16(b))
		} else {
			g.out = append(g.out, uint16(r))
		}
	}
}

var wsChars = []uint16{' ', '\t', '\n', '\r'}

func (g *tgen) ws() {
	k := g.n("ws", 0, 5)
	if k <= 3 {
		return // mostly none
	}
	k = g.n("wsn", 1, 3)
	for i := 0; i < k; i++ {
		g.out = append(g.out, wsChars[g.n("wsc", 0, 3)])
	}
	g.lab("ws")
}

func (g *tgen) value(depth int) {
	c := g.n("vkind", 0, 9)
	if depth == 0 && c < 6 && g.n("topcontainer", 0, 2) != 0 {
		c = 6 + c%4
	}
	if depth >= g.maxDepth && c >= 6 {
		c = c % 6
	}
	switch c {
	case 0, 1, 2:
		g.number()
	case 3, 4:
		g.str(false)
	case 5:
		w := []string{"null", "true", "false"}[g.n("lit", 0, 2)]
		g.puts(w)
		g.lab("literal")
	case 6, 7:
		g.array(depth + 1)
	default:
		g.object(depth + 1)
	}
}

func (g *tgen) array(depth int) {
	g.lab("array")
	g.puts("[")
	g.ws()
	n := g.n("alen", 0, 4)
	for i := 0; i < n; i++ {
		if i > 0 {
			g.puts(",")
			g.ws()
		}
		g.value(depth)
		g.ws()
	}
	g.puts("]")
}

var keyPool = []string{"a", "b", "c", "0", "1", "2", "10", "__proto__", "01", "-1", "4294967294", "4294967295", "4294967296", "length", "constructor", "toString", "", "1e3", "-0", "9007199254740992", "zz", "n"}

func (g *tgen) object(depth int) {
	g.lab("object")
	g.puts("{")
	g.ws()
	n := g.n("olen", 0, 5)
	for i := 0; i < n; i++ {
		if i > 0 {
			g.puts(",")
			g.ws()
		}
		g.key()
		g.ws()
		g.puts(":")
		g.ws()
		g.value(depth)
		g.ws()
	}
	g.puts("}")
}

func (g *tgen) key() {
	c := g.n("kkind", 0, 9)
	switch {
	case g.simple && c < 8:
		p := []string{"a", "b", "0", "1", "c", "zz", "2", "n"}
		g.quoted(p[g.n("skey", 0, len(p)-1)])
	case c < 7:
		k := keyPool[g.n("pkey", 0, len(keyPool)-1)]
		if k == "__proto__" {
			g.lab("key:__proto__")
		}
		if c == 6 && len(k) > 0 {
			// spell the first character as an escape: the key is the same string
			g.puts(`"\u00` + strconv.FormatInt(int64(k[0]), 16) + k[1:] + `"`)
			g.lab("key:escaped")
			return
		}
		g.quoted(k)
	default:
		g.str(true)
	}
}

func (g *tgen) quoted(s string) { g.puts(`"` + s + `"`) }

var rawChars = []rune{'a', 'Z', '0', ' ', '/', '\'', '{', ']', ',', ':', 0x7f, 0xe9, 0xa0, 0x2028, 0x2029, 0xfeff, 0xffff, 0xfffd, 0x1f600, 0x10000, 0x10ffff, 0x0430, 0x4e2d, 0x85, '+', 'e', '-'}

func hex4mixed(g *tgen, u int) string {
	h := strconv.FormatInt(int64(u)+0x10000, 16)[1:]
	switch g.n("hexcase", 0, 2) {
	case 1:
		h = strings.ToUpper(h)
	case 2:
		b := []byte(h)
		for i := range b {
			if i%2 == 0 {
				b[i] = strings.ToUpper(string(b[i]))[0]
			}
		}
		h = string(b)
	}
	return h
}

func (g *tgen) str(isKey bool) {
	g.lab("string")
	g.puts(`"`)
	n := g.n("slen", 0, 8)
	for i := 0; i < n; i++ {
		switch g.n("ckind", 0, 11) {
		case 0, 1, 2:
			g.out = append(g.out, uint16('a'+g.n("letter", 0, 25)))
		case 3, 4:
			r := rawChars[g.n("raw", 0, len(rawChars)-1)]
			g.puts(string(r))
			if r >= 0x80 {
				g.lab("str:raw-nonascii")
			}
		case 5, 6:
			e := []string{`\"`, `\\`, `\/`, `\b`, `\f`, `\n`, `\r`, `\t`}[g.n("esc", 0, 7)]
			g.puts(e)
			g.lab("str:escape")
		case 7, 8:
			var u int
			switch g.n("uclass", 0, 4) {
			case 0:
				u = g.n("uctl", 0, 0x20)
			case 1:
				u = []int{0x22, 0x5c, 0x2f, 0x7f, 0x80, 0xa0, 0x2028, 0x2029, 0xfeff, 0xffff, 0xfffe, 0xd7ff, 0xe000}[g.n("uspecial", 0, 12)]
			default:
				u = g.n("ubmp", 0, 0xffff)
			}
			if u >= 0xd800 && u <= 0xdfff {
				u = 0x41
			}
			g.puts(`\u` + hex4mixed(g, u))
			g.lab("str:uescape")
		case 9:
			cp := g.n("astral", 0x10000, 0x10ffff)
			a, b := utf16.EncodeRune(rune(cp))
			switch g.n("pairform", 0, 2) {
			case 0:
				g.puts(`\u` + hex4mixed(g, int(a)) + `\u` + hex4mixed(g, int(b)))
			case 1:
				g.out = append(g.out, uint16(a), uint16(b))
			default:
				// escaped high, raw low would be a raw lone unit: keep both escaped with different case
				g.puts(`\u` + strings.ToUpper(strconv.FormatInt(int64(a), 16)) + `\u` + strconv.FormatInt(int64(b), 16))
			}
			g.lab("str:surrogate-pair")
		case 10:
			g.out = append(g.out, uint16(g.n("ascii", 0x20, 0x7e)))
			if c := g.out[len(g.out)-1]; c == '"' || c == '\\' {
				g.out[len(g.out)-1] = 'q'
			}
		default:
			if g.noLone || g.n("lone", 0, 3) != 0 {
				g.out = append(g.out, 'x')
				continue
			}
			u := g.n("lonesur", 0xd800, 0xdfff)
			g.puts(`\u` + hex4mixed(g, u))
			g.lab("str:lone-surrogate-escape")
		}
	}
	g.puts(`"`)
}

var boundaryNumbers = []string{
	"0", "-0", "0.0", "-0.0", "0e0", "-0e-0", "0E+400", "-0.000e-400", "1", "-1", "10", "123", "0.5", "1.5", "-2.25",
	"1.7976931348623157e308", "1.7976931348623158e308", "1.7976931348623159e308", "1.797693134862315807e308", "1.797693134862315808e308",
	"179769313486231570814527423731704356798070567525844996598917476803157260780028538760589558632766878171540458953514382464234321326889464182768467546703537516986049910576551282076245490090389328944075868508455133942304583236903222948165808559332123348274797826204144723168738177180919299881250404026184124858368",
	"179769313486231580793728971405303415079934132710037826936173778980444968292764750946649017977587207096330286416692887910946555547851940402630657488671505820681908902000708383676273854845817711531764475730270069855571366959622842914819860834936475292719074168444365510704342711559699508093042880177904174497791",
	"179769313486231580793728971405303415079934132710037826936173778980444968292764750946649017977587207096330286416692887910946555547851940402630657488671505820681908902000708383676273854845817711531764475730270069855571366959622842914819860834936475292719074168444365510704342711559699508093042880177904174497792",
	"-1.7976931348623159e308", "1e308", "1e309", "-1e309", "1e400", "-1E400", "2e308", "0.1e310", "100e307",
	"5e-324", "4.9e-324", "4.9406564584124654e-324", "2.4703282292062327e-324", "2.4703282292062328e-324", "2.47032822920623272e-324", "2.4703282292062327208e-324",
	"2.4703282292062327209e-324", "-2.4703282292062327e-324", "-2.4703282292062328e-324", "1e-324", "-1e-324", "1e-400", "-1e-400", "2.2250738585072014e-308", "2.2250738585072011e-308", "2.225073858507201e-308",
	"9007199254740991", "9007199254740992", "9007199254740993", "9007199254740992.5", "9007199254740993.0000000000000000000000000000001", "9007199254740995", "-9007199254740993",
	"18446744073709551615", "18446744073709551616", "9223372036854775807", "9223372036854775808", "-9223372036854775808", "-9223372036854775809",
	"4294967295", "4294967296", "2147483648", "-2147483648", "-2147483649", "0.1", "0.2", "0.30000000000000004", "1e21", "1e-7", "123456789012345678901234567890",
	"1.00000000000000011102230246251565404236316680908203125", "1.00000000000000011102230246251565404236316680908203124", "1.00000000000000011102230246251565404236316680908203126",
	"0.000001", "1E5", "1e+5", "1e-05", "1e005", "1.0e+00", "12345678901234567890123", "0.00000000000000000000000000000000000000001",
}

func (g *tgen) digits(label string, lo, hi int) string {
	k := g.n(label+"n", lo, hi)
	b := make([]byte, k)
	for i := range b {
		b[i] = byte('0' + g.n(label, 0, 9))
	}
	return string(b)
}

func (g *tgen) number() {
	if g.simple {
		g.lab("num:simple")
		g.puts(strconv.Itoa(g.n("snum", -3, 20)))
		return
	}
	switch g.n("nkind", 0, 7) {
	case 0:
		g.lab("num:small")
		g.puts(strconv.Itoa(g.n("small", -20, 1000)))
		return
	case 1, 2:
		g.lab("num:boundary")
		g.puts(boundaryNumbers[g.n("bnum", 0, len(boundaryNumbers)-1)])
		return
	}
	// free-form: -? int frac? exp?
	var sb strings.Builder
	if g.n("neg", 0, 2) == 0 {
		sb.WriteByte('-')
	}
	if g.n("intzero", 0, 3) == 0 {
		sb.WriteByte('0')
	} else {
		sb.WriteByte(byte('1' + g.n("d1", 0, 8)))
		if g.n("longint", 0, 3) == 0 {
			sb.WriteString(g.digits("idig", 0, 40))
			g.lab("num:long-int")
		} else {
			sb.WriteString(g.digits("idig", 0, 3))
		}
	}
	if g.n("hasfrac", 0, 1) == 1 {
		sb.WriteByte('.')
		if g.n("longfrac", 0, 3) == 0 {
			sb.WriteString(g.digits("fdig", 1, 45))
			g.lab("num:long-frac")
		} else {
			sb.WriteString(g.digits("fdig", 1, 4))
		}
	}
	if g.n("hasexp", 0, 2) != 0 {
		sb.WriteByte("eE"[g.n("ecase", 0, 1)])
		sb.WriteString([]string{"", "+", "-"}[g.n("esign", 0, 2)])
		var e int
		switch g.n("eclass", 0, 3) {
		case 0:
			e = g.n("esmall", 0, 25)
		case 1:
			e = g.n("eedge", 290, 330)
			g.lab("num:exp-edge")
		default:
			e = g.n("ebig", 0, 400)
		}
		if g.n("ezeros", 0, 5) == 0 {
			sb.WriteString("00")
		}
		sb.WriteString(strconv.Itoa(e))
		g.lab("num:exp")
	}
	g.puts(sb.String())
}

// genText draws a JSON text. The result has nesting <= maxDepth.
func genText(t *rapid.T, maxDepth int, simple, noLone bool) []uint16 {
	g := &tgen{t: t, maxDepth: maxDepth, simple: simple, noLone: noLone, labels: map[string]int{}}
	g.ws()
	g.value(0)
	g.ws()
	for k, n := range g.labels {
		evid.CountN("text:"+k, int64(n))
	}
	return g.out
}
